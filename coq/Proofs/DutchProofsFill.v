(* C10, the automatic fill of limit bids (LimitOrderBid, one closure = one auction) and custody over whole
   histories of market bids, block ticks, limit-bid deposits and fills.
   (Model = the code after fixes/C10-F6 and fixes/C10-F5.) *)
From Comdex Require Import Lib.Base Lib.DecArith Lib.DecFacts Model.DutchV2 Proofs.DutchProofsPrice Proofs.DutchProofsBid
  Proofs.DutchProofsClose Proofs.DutchProofsConv.
From Coq Require Import ZifyBool.

(* ------------------------------------------------------------------------------------------ *)
(* 1. the shape of a closure: a chain of automatic bids, each on the auction as the previous one left it;
      nothing follows a closing bid; every limit bid is charged at most what it holds *)
Inductive fill_trace (cf : acfg) (lk : locked) (twa : Z)
  : auction -> bstate -> list fbid -> option auction -> bstate -> Prop :=
| ft_nil a s : fill_trace cf lk twa a s [] (Some a) s
| ft_close a s w amt s1 r :
    0 < amt -> place_bid_gen true cf lk a s w amt false twa = Ok (s1, None, r) -> r_paid r <= amt ->
    fill_trace cf lk twa a s [mkFB w a r] None s1
| ft_step a s w amt s1 b r log a' s' :
    0 < amt -> place_bid_gen true cf lk a s w amt false twa = Ok (s1, Some b, r) -> r_paid r <= amt ->
    fill_trace cf lk twa b s1 log a' s' ->
    fill_trace cf lk twa a s (mkFB w a r :: log) a' s'.

Lemma fill_loop_trace cf lk prem twa dact : forall order a s bk pool s' a' bk' pool' log,
  fill_loop cf lk prem order twa dact a s bk pool = Ok (s', a', bk', pool', log) ->
  fill_trace cf lk twa a s log a' s'.
Proof.
  induction order as [|w rest IH]; intros a s bk pool s' a' bk' pool' log E; cbn [fill_loop] in E.
  - injection E as <- <- <- <- <-. constructor.
  - destruct (Z.leb_spec (bk prem w) 0) as [|Hpos]; [exact (IH _ _ _ _ _ _ _ _ _ E)|].
    apply obind_ok in E as ([[s1 a1] r] & E1 & E). apply place_bid_a_ok in E1 as (_ & _ & _ & E1).
    destruct (Z.gtb_spec (r_paid r) (bk prem w)) as [|Hle]; [discriminate|].
    destruct a1 as [b|].
    + apply obind_ok in E as ([[[[s2 a2] bk2] pool2] log2] & E2 & E). injection E as <- <- <- <- <-.
      exact (ft_step _ _ _ _ _ _ _ _ _ _ _ _ _ Hpos E1 Hle (IH _ _ _ _ _ _ _ _ _ E2)).
    + injection E as <- <- <- <- <-. exact (ft_close _ _ _ _ _ _ _ _ _ Hpos E1 Hle).
Qed.

Lemma fill_closure_trace cf lk order twa dact a s bk pool s' a' bk' pool' log :
  fill_closure cf lk order twa dact a s bk pool = Ok (s', a', bk', pool', log) ->
  fill_trace cf lk twa a s log a' s'.
Proof.
  intros E. apply fill_closure_cases in E as [E|(prem & _ & _ & E)].
  - injection E as -> -> -> -> ->. constructor.
  - eapply fill_loop_trace; exact E.
Qed.

(* a partial bid leaves a well-formed record at the same price *)
Lemma good_after auto cf lk a s who amt wd twa s' b r :
  good_cfg cf lk -> good_auction cf lk a -> 0 <= twa < 9223372036854775808 ->
  place_bid_gen auto cf lk a s who amt wd twa = Ok (s', Some b, r) ->
  good_auction cf lk b /\ a_price b = a_price a.
Proof.
  intros GC GA Htwa E.
  pose proof (place_bid_amounts_gen _ _ _ _ _ _ _ _ _ _ _ _ GC GA Htwa E) as (Hp & Hr & _ & _ & Hd & Hd0 & Hc & Hb & Hpr & Hi & Hs & He & _).
  destruct GA. split; [constructor; lia|exact Hpr].
Qed.

(* ------------------------------------------------------------------------------------------ *)
(* 2. every bid of a fill exchanges at the posted price (the extracted predicate) *)
Lemma fill_trace_price cf lk twa a s log a' s' :
  good_cfg cf lk -> 0 <= twa < 9223372036854775808 ->
  c_dc cf <= P18 -> c_dd cf <= P18 -> c_dd cf <= dp_of lk twa ->
  fill_trace cf lk twa a s log a' s' -> good_auction cf lk a -> c_dc cf <= a_price a ->
  Forall (fun e => holds_C10_bid (c_dc cf) (c_dd cf) (a_price (fb_before e)) (dp_of lk twa)
                     (a_coll (fb_before e)) (a_debt (fb_before e)) (a_bonus (fb_before e))
                     (r_paid (fb_res e)) (r_recv (fb_res e)) (r_closed (fb_res e)) = true) log.
Proof.
  intros GC Htwa H1 H2 H3 T. induction T as [a s|a s w amt s1 r Hpos E Hle|a s w amt s1 b r log a' s' Hpos E Hle T IH]; intros GA Hpr.
  - constructor.
  - constructor; [|constructor]. cbn [fb_before fb_res].
    exact (bid_price_holds_gen _ _ _ _ _ _ _ _ _ _ _ _ GC GA Htwa H1 Hpr H2 H3 E).
  - constructor.
    + cbn [fb_before fb_res]. exact (bid_price_holds_gen _ _ _ _ _ _ _ _ _ _ _ _ GC GA Htwa H1 Hpr H2 H3 E).
    + destruct (good_after _ _ _ _ _ _ _ _ _ _ _ _ GC GA Htwa E) as (GB & Hp). apply IH; [exact GB|lia].
Qed.

(* ------------------------------------------------------------------------------------------ *)
(* 3. what the limit bids are charged *)
Lemma log_charged_nonneg cf lk twa a s log a' s' w :
  good_cfg cf lk -> 0 <= twa < 9223372036854775808 ->
  fill_trace cf lk twa a s log a' s' -> good_auction cf lk a -> 0 <= log_charged w log /\ 0 <= log_paid log.
Proof.
  intros GC Htwa T. induction T as [a s|a s w0 amt s1 r Hpos E Hle|a s w0 amt s1 b r log a' s' Hpos E Hle T IH]; intros GA.
  - cbn. lia.
  - pose proof (place_bid_amounts_gen _ _ _ _ _ _ _ _ _ _ _ _ GC GA Htwa E) as (Hp & _).
    rewrite log_charged_cons, log_paid_cons. cbn [fb_who fb_res log_charged log_paid fold_right]. destruct (w0 =? w); lia.
  - pose proof (place_bid_amounts_gen _ _ _ _ _ _ _ _ _ _ _ _ GC GA Htwa E) as (Hp & _).
    destruct (good_after _ _ _ _ _ _ _ _ _ _ _ _ GC GA Htwa E) as (GB & _). specialize (IH GB).
    rewrite log_charged_cons, log_paid_cons. cbn [fb_who fb_res]. destruct (w0 =? w); lia.
Qed.

Lemma bupd_get bk p w v p' w' : bupd bk p w v p' w' = if (p' =? p) && (w' =? w) then v else bk p' w'.
Proof. reflexivity. Qed.

Lemma fill_loop_charges cf lk prem twa dact : forall order a s bk pool s' a' bk' pool' log,
  fill_loop cf lk prem order twa dact a s bk pool = Ok (s', a', bk', pool', log) ->
  pool' = pool - log_paid log /\
  (forall p w, bk' p w = bk p w - (if p =? prem then log_charged w log else 0)) /\
  ((forall w, 0 <= bk prem w) -> forall w, 0 <= bk' prem w).
Proof.
  induction order as [|w rest IH]; intros a s bk pool s' a' bk' pool' log E; cbn [fill_loop] in E.
  - injection E as <- <- <- <- <-. cbn. split; [lia|]. split; [intros p w; destruct (p =? prem); lia|auto].
  - destruct (Z.leb_spec (bk prem w) 0) as [|Hpos]; [exact (IH _ _ _ _ _ _ _ _ _ E)|].
    apply obind_ok in E as ([[s1 a1] r] & E1 & E).
    destruct (Z.gtb_spec (r_paid r) (bk prem w)) as [|Hle]; [discriminate|].
    destruct a1 as [b|].
    + apply obind_ok in E as ([[[[s2 a2] bk2] pool2] log2] & E2 & E). injection E as <- <- <- <- <-.
      destruct (IH _ _ _ _ _ _ _ _ _ E2) as (Hpool & Hbk & Hnn).
      split; [rewrite log_paid_cons; cbn [fb_res]; lia|]. split.
      * intros p w0. rewrite Hbk, bupd_get, log_charged_cons. cbn [fb_who fb_res].
        destruct (Z.eqb_spec p prem) as [->|]; cbn [andb]; [|lia].
        rewrite (Z.eqb_sym w w0). destruct (Z.eqb_spec w0 w) as [->|]; lia.
      * intros H0 w0. apply Hnn. intros w1. rewrite bupd_get, Z.eqb_refl. cbn [andb].
        destruct (Z.eqb_spec w1 w) as [->|]; [lia|apply H0].
    + injection E as <- <- <- <- <-.
      split; [rewrite log_paid_cons; cbn [fb_res log_paid fold_right]; lia|]. split.
      * intros p w0. rewrite bupd_get, log_charged_cons. cbn [fb_who fb_res log_charged fold_right].
        destruct (Z.eqb_spec p prem) as [->|]; cbn [andb]; [|lia].
        rewrite (Z.eqb_sym w w0). destruct (Z.eqb_spec w0 w) as [->|]; lia.
      * intros H0 w1. rewrite bupd_get, Z.eqb_refl. cbn [andb].
        destruct (Z.eqb_spec w1 w) as [->|]; [lia|apply H0].
Qed.

(* one closure: the pool falls by what the bids of the closure bid; the limit bid of each bidder at the
   premium falls by what its own bids bid; no other record moves; no record goes negative *)
Lemma fill_closure_charges cf lk order twa dact a s bk pool s' a' bk' pool' log :
  fill_closure cf lk order twa dact a s bk pool = Ok (s', a', bk', pool', log) ->
  pool' = pool - log_paid log /\
  exists prem, (forall p w, bk' p w = bk p w - (if p =? prem then log_charged w log else 0)) /\
               ((forall p w, 0 <= bk p w) -> forall p w, 0 <= bk' p w).
Proof.
  intros E. apply fill_closure_cases in E as [E|(prem & _ & _ & E)].
  - injection E as -> -> -> -> ->. cbn. split; [lia|]. exists 0. split; [intros p w; destruct (p =? 0); lia|auto].
  - destruct (fill_loop_charges _ _ _ _ _ _ _ _ _ _ _ _ _ _ _ E) as (Hp & Hb & Hn).
    split; [exact Hp|]. exists prem. split; [exact Hb|]. intros H0 p w.
    destruct (Z.eqb_spec p prem) as [->|Hne]; [apply Hn; intros; apply H0|].
    rewrite Hb. destruct (Z.eqb_spec p prem); [contradiction|]. specialize (H0 p w). lia.
Qed.

(* ------------------------------------------------------------------------------------------ *)
(* 4. custody: what the auction account holds beyond the live auction, the booked external fees and the
      limit-bid pool never changes *)
Definition collected (lk : locked) (oa : option auction) : Z :=
  match oa with Some a => l_target lk - a_debt a | None => 0 end.
Definition live_coll (oa : option auction) : Z := match oa with Some a => a_coll a | None => 0 end.

(* one automatic bid: the account's debt balance net of booked fees and of what the auction has collected
   falls by exactly what the bid bid (the coins were the limit-bid pool's) *)
Lemma auto_bid_custody cf lk a s w amt twa s1 a1 r :
  good_cfg cf lk -> good_auction cf lk a -> 0 <= twa < 9223372036854775808 -> 0 <= l_fee lk -> 0 <= w ->
  place_bid_gen true cf lk a s w amt false twa = Ok (s1, a1, r) ->
  led s1 AUC_D - xfee s1 - collected lk a1 = led s AUC_D - xfee s - collected lk (Some a) - r_paid r /\
  led s1 AUC_C - live_coll a1 = led s AUC_C - live_coll (Some a).
Proof.
  intros GC GA Htwa Hfee Hw E. destruct a1 as [b|].
  - destruct (partial_ledger_gen _ _ _ _ _ _ _ _ _ _ _ _ GC GA Htwa E) as (Hx & _ & _ & HL).
    pose proof (place_bid_amounts_gen _ _ _ _ _ _ _ _ _ _ _ _ GC GA Htwa E) as (_ & _ & _ & _ & Hd & _ & Hc & _).
    pose proof (HL AUC_D) as ED. pose proof (HL AUC_C) as EC. cbn [collected live_coll].
    unfold delta, AUC_C, AUC_D, BID_C, BID_D in *. rewrite Hx, Hd, Hc. clear - ED EC Hw. revert ED EC. eqbs.
  - destruct (close_complete_gen _ _ _ _ _ _ _ _ _ _ _ GC GA Htwa Hfee Hw E) as (_ & HC & HD & _).
    cbn [collected live_coll]. lia.
Qed.

Lemma market_bid_custody cf lk a s w amt wd twa s1 a1 r :
  good_cfg cf lk -> good_auction cf lk a -> 0 <= twa < 9223372036854775808 -> 0 <= l_fee lk -> 0 <= w ->
  place_bid_gen false cf lk a s w amt wd twa = Ok (s1, a1, r) ->
  led s1 AUC_D - xfee s1 - collected lk a1 = led s AUC_D - xfee s - collected lk (Some a) /\
  led s1 AUC_C - live_coll a1 = led s AUC_C - live_coll (Some a).
Proof.
  intros GC GA Htwa Hfee Hw E. destruct a1 as [b|].
  - destruct (partial_ledger_gen _ _ _ _ _ _ _ _ _ _ _ _ GC GA Htwa E) as (Hx & _ & _ & HL).
    pose proof (place_bid_amounts_gen _ _ _ _ _ _ _ _ _ _ _ _ GC GA Htwa E) as (_ & _ & _ & _ & Hd & _ & Hc & _).
    pose proof (HL AUC_D) as ED. pose proof (HL AUC_C) as EC. cbn [collected live_coll].
    unfold delta, AUC_C, AUC_D, BID_C, BID_D in *. rewrite Hx, Hd, Hc. clear - ED EC Hw. revert ED EC. eqbs.
  - destruct (close_complete_gen _ _ _ _ _ _ _ _ _ _ _ GC GA Htwa Hfee Hw E) as (_ & HC & HD & _).
    cbn [collected live_coll]. lia.
Qed.

Lemma fill_trace_custody cf lk twa a s log a' s' :
  good_cfg cf lk -> 0 <= twa < 9223372036854775808 -> 0 <= l_fee lk ->
  fill_trace cf lk twa a s log a' s' -> good_auction cf lk a -> Forall (fun e => 0 <= fb_who e) log ->
  led s' AUC_D - xfee s' - collected lk a' = led s AUC_D - xfee s - collected lk (Some a) - log_paid log /\
  led s' AUC_C - live_coll a' = led s AUC_C - live_coll (Some a).
Proof.
  intros GC Htwa Hfee T. induction T as [a s|a s w amt s1 r Hpos E Hle|a s w amt s1 b r log a' s' Hpos E Hle T IH]; intros GA Hw.
  - cbn. lia.
  - inversion Hw as [|? ? Hw0 _]; subst. cbn [fb_who] in Hw0.
    destruct (auto_bid_custody _ _ _ _ _ _ _ _ _ _ GC GA Htwa Hfee Hw0 E) as (HD & HC).
    rewrite log_paid_cons. cbn [fb_res log_paid fold_right]. lia.
  - inversion Hw as [|? ? Hw0 Hwr]; subst. cbn [fb_who] in Hw0.
    destruct (auto_bid_custody _ _ _ _ _ _ _ _ _ _ GC GA Htwa Hfee Hw0 E) as (HD & HC).
    destruct (good_after _ _ _ _ _ _ _ _ _ _ _ _ GC GA Htwa E) as (GB & _).
    destruct (IH GB Hwr) as (HD2 & HC2). rewrite log_paid_cons. cbn [fb_res]. lia.
Qed.

(* the bidders named in the log of a loop are among the listed ones *)
Lemma fill_loop_whos cf lk prem twa dact : forall order a s bk pool s' a' bk' pool' log,
  fill_loop cf lk prem order twa dact a s bk pool = Ok (s', a', bk', pool', log) ->
  Forall (fun w => 0 <= w) order -> Forall (fun e => 0 <= fb_who e) log.
Proof.
  induction order as [|w rest IH]; intros a s bk pool s' a' bk' pool' log E Ho; cbn [fill_loop] in E.
  - injection E as <- <- <- <- <-. constructor.
  - inversion Ho as [|? ? Hw Hr]; subst.
    destruct (bk prem w <=? 0); [exact (IH _ _ _ _ _ _ _ _ _ E Hr)|].
    apply obind_ok in E as ([[s1 a1] r] & E1 & E). destruct (r_paid r >? bk prem w); [discriminate|].
    destruct a1 as [b|].
    + apply obind_ok in E as ([[[[s2 a2] bk2] pool2] log2] & E2 & E). injection E as <- <- <- <- <-.
      constructor; [exact Hw|exact (IH _ _ _ _ _ _ _ _ _ E2 Hr)].
    + injection E as <- <- <- <- <-. constructor; [exact Hw|constructor].
Qed.

Lemma fill_closure_whos cf lk order twa dact a s bk pool s' a' bk' pool' log :
  fill_closure cf lk order twa dact a s bk pool = Ok (s', a', bk', pool', log) ->
  Forall (fun w => 0 <= w) order -> Forall (fun e => 0 <= fb_who e) log.
Proof.
  intros E Ho. apply fill_closure_cases in E as [E|(prem & _ & _ & E)].
  - injection E as -> -> -> -> ->. constructor.
  - eapply fill_loop_whos; [exact E|exact Ho].
Qed.

(* the operations of a history: bidders are accounts (ids >= 0, so distinct from the module accounts),
   oracle values are uint64s below 2^63 *)
Definition op_ok2 (o : op) : Prop :=
  op_ok o /\
  match o with
  | Bid who _ _ _ => 0 <= who
  | Deposit who _ _ _ => 0 <= who
  | Fill order _ _ => Forall (fun w => 0 <= w) order
  | Tick _ _ _ => True
  end.

Definition resid_d (lk : locked) (f : life) : Z :=
  led (f_s f) AUC_D - xfee (f_s f) - f_pool f - collected lk (f_a f).
Definition resid_c (f : life) : Z := led (f_s f) AUC_C - live_coll (f_a f).

Lemma step_custody cf lk f o :
  good_cfg cf lk -> 0 <= l_fee lk -> op_ok2 o -> Inv cf lk f ->
  resid_d lk (step cf lk f o) = resid_d lk f /\ resid_c (step cf lk f o) = resid_c f.
Proof.
  intros GC Hfee (Ho & Hw) HI. unfold step.
  destruct o as [who amt wd twa | now pc pd | who prem amt wd | order twa dact].
  - destruct (f_a f) as [a|] eqn:Ea; [|auto].
    destruct (place_bid_core cf lk a (f_s f) who amt wd twa) as [[[s' a'] r]| |] eqn:E; auto.
    unfold Inv in HI. rewrite Ea in HI. destruct HI as (_ & _ & _ & GA & _).
    destruct (market_bid_custody _ _ _ _ _ _ _ _ _ _ _ GC GA Ho Hfee Hw E) as (HD & HC).
    unfold resid_d, resid_c. cbn [f_s f_a f_pool]. rewrite Ea. lia.
  - destruct (f_a f) as [a|] eqn:Ea; [|auto].
    pose proof (tick_amounts cf lk now pc pd a) as (T1 & T2 & T3).
    unfold resid_d, resid_c. cbn [f_s f_a f_pool collected live_coll]. rewrite Ea. cbn [collected live_coll]. lia.
  - destruct (deposit (f_s f) (f_book f) (f_pool f) who prem amt wd) as [[[s' bk'] pool']| |] eqn:E; auto.
    unfold deposit in E. destruct (amt <=? 0); [discriminate|]. destruct (prem >? MAX_PREMIUM); [discriminate|].
    destruct wd; [discriminate|]. destruct (prem <? 0); [discriminate|].
    apply obind_ok in E as (L & HL & E). injection E as <- <- <-. apply oerr_ok in HL.
    pose proof (send_delta _ _ _ _ _ HL AUC_D) as ED. pose proof (send_delta _ _ _ _ _ HL AUC_C) as EC.
    unfold resid_d, resid_c. cbn [f_s f_a f_pool led xfee].
    unfold delta, AUC_C, AUC_D, BID_D in *. clear - ED EC Hw. revert ED EC. eqbs.
  - destruct (f_a f) as [a|] eqn:Ea; [|auto].
    destruct (fill_closure cf lk order twa dact a (f_s f) (f_book f) (f_pool f)) as [[[[[s' a'] bk'] pool'] log]| |] eqn:E; auto.
    unfold Inv in HI. rewrite Ea in HI. destruct HI as (_ & _ & _ & GA & _).
    pose proof (fill_closure_trace _ _ _ _ _ _ _ _ _ _ _ _ _ _ E) as T.
    pose proof (fill_closure_whos _ _ _ _ _ _ _ _ _ _ _ _ _ _ E Hw) as Hws.
    destruct (fill_closure_charges _ _ _ _ _ _ _ _ _ _ _ _ _ _ E) as (Hpool & _).
    destruct (fill_trace_custody _ _ _ _ _ _ _ _ GC Ho Hfee T GA Hws) as (HD & HC).
    unfold resid_d, resid_c. cbn [f_s f_a f_pool]. rewrite Ea. lia.
Qed.

Lemma op_ok2_ok o : op_ok2 o -> op_ok o. Proof. intros [H _]; exact H. Qed.

Lemma run_custody cf lk ops : good_cfg cf lk -> 0 <= l_fee lk -> Forall op_ok2 ops ->
  forall f, Inv cf lk f -> resid_d lk (run cf lk f ops) = resid_d lk f /\ resid_c (run cf lk f ops) = resid_c f.
Proof.
  intros GC Hfee H. induction H as [|o ops Ho _ IH]; intros f HI; [split; reflexivity|].
  cbn [run fold_left]. fold (run cf lk (step cf lk f o) ops).
  destruct (step_custody cf lk f o GC Hfee Ho HI) as (HD & HC).
  destruct (IH (step cf lk f o) (step_inv cf lk f o GC (op_ok2_ok o Ho) HI)) as (HD2 & HC2). lia.
Qed.

Lemma custody cf lk now pc pd a0 s bk pool ops :
  good_cfg cf lk -> 0 <= l_target lk -> 0 <= l_coll lk -> 0 <= l_fee lk -> tick_in_ok pc ->
  activate cf lk now pc pd = Ok a0 -> Forall op_ok2 ops ->
  let f := run cf lk (mkLife s (Some a0) 0 0 0 bk pool) ops in
  led (f_s f) AUC_C - live_coll (f_a f) = led s AUC_C - l_coll lk /\
  led (f_s f) AUC_D - xfee (f_s f) - f_pool f - collected lk (f_a f) = led s AUC_D - xfee s - pool.
Proof.
  intros GC Ht Hc Hfee Hpc Ea Hops f.
  destruct (activate_good _ _ _ _ _ _ GC Ht Hc Hpc Ea) as (GA & Hd & Hcl & _).
  assert (HI : Inv cf lk (mkLife s (Some a0) 0 0 0 bk pool))
    by (unfold Inv, InvA; cbn; split; [lia|]; split; [lia|]; split; [lia|]; split; [exact GA|]; lia).
  destruct (run_custody cf lk ops GC Hfee Hops _ HI) as (HD & HC). fold f in HD, HC.
  unfold resid_d, resid_c in *. cbn [f_s f_a f_pool collected live_coll] in *. lia.
Qed.

(* ------------------------------------------------------------------------------------------ *)
(* 5. the penalty of a closing bid, market or automatic *)
Lemma penalty_split auto cf lk a s who amt0 wd twa s' r :
  good_cfg cf lk -> good_auction cf lk a -> 0 <= twa < 9223372036854775808 -> 0 <= l_fee lk -> 0 <= who ->
  place_bid_gen auto cf lk a s who amt0 wd twa = Ok (s', None, r) ->
  holds_C10_penalty (l_init lk) (l_fee lk) (led s' COL_D - led s COL_D) (led s' KEE_D - led s KEE_D) (nfee s' - nfee s) = true /\
  (l_init lk = 0 -> l_intk lk = false -> led s' COL_D - led s COL_D = l_fee lk).
Proof.
  intros GC GA Htwa Hfee Hw E.
  destruct (close_complete_gen _ _ _ _ _ _ _ _ _ _ _ GC GA Htwa Hfee Hw E) as (_ & _ & _ & _ & _ & _ & H0 & H2 & H1).
  unfold holds_C10_penalty. destruct (Z.eqb_spec (l_init lk) 0) as [I0|I0].
  - destruct (H0 I0) as (_ & Hsum & _ & Hc & Hk & Hn & Hnk). split; [lia|]. intros _ Hf. specialize (Hnk Hf). lia.
  - split; [|intros; contradiction]. destruct (Z.eq_dec (l_init lk) 2) as [I2|I2].
    + destruct (H2 I2) as (_ & _ & _ & Hc & Hn). lia.
    + destruct (H1 I0 I2) as (_ & _ & Hc & Hn). lia.
Qed.

(* a partial bid does not touch the collector or its book *)
Lemma partial_no_penalty auto cf lk a s who amt0 wd twa s' b r :
  good_cfg cf lk -> good_auction cf lk a -> 0 <= twa < 9223372036854775808 -> 0 <= who ->
  place_bid_gen auto cf lk a s who amt0 wd twa = Ok (s', Some b, r) ->
  led s' COL_D = led s COL_D /\ led s' KEE_D = led s KEE_D /\ nfee s' = nfee s.
Proof.
  intros GC GA Htwa Hw E.
  destruct (partial_ledger_gen _ _ _ _ _ _ _ _ _ _ _ _ GC GA Htwa E) as (_ & _ & Hn & HL).
  pose proof (HL COL_D) as EC. pose proof (HL KEE_D) as EK.
  unfold delta, AUC_C, AUC_D, COL_D, KEE_D, BID_C, BID_D in *. split; [|split; [|exact Hn]].
  - clear - EC Hw. revert EC. destruct auto; eqbs.
  - clear - EK Hw. revert EK. destruct auto; eqbs.
Qed.

(* ------------------------------------------------------------------------------------------ *)
(* 6. known finding C10-F7: the lend-initiated close of a cross-pool borrow whose lend position is gone *)
Lemma settle_ok_not_stuck cf lk L xf nf x : settle cf lk L xf nf = Ok x -> kf_C10_7 lk = false.
Proof.
  unfold settle, kf_C10_7. destruct (l_init lk =? 2); [intros _; cbn [negb andb]; apply andb_false_r || (destruct (negb (l_init lk =? 0)); reflexivity)|].
  destruct (l_init lk =? 0); [reflexivity|].
  cbn [negb andb]. intros H. apply obind_ok in H as (L1 & _ & H). destruct (l_stuck lk); [discriminate|reflexivity].
Qed.

(* in the class no bid - market or automatic, of any amount, by anybody - ever closes the auction *)
Lemma stuck_never_closes auto cf lk a s who amt wd twa s' r :
  place_bid_gen auto cf lk a s who amt wd twa = Ok (s', None, r) -> kf_C10_7 lk = false.
Proof.
  intros E. unfold place_bid_gen in E.
  destruct (amt <=? 0); [discriminate|]. destruct wd; [discriminate|].
  apply obind_ok in E as (q & _ & E). apply obind_ok in E as (qb & _ & E).
  destruct (_ || _).
  - apply obind_ok in E as ([[[? ?] ?] ?] & _ & E).
    apply obind_ok in E as (? & _ & E). apply obind_ok in E as (? & _ & E).
    apply obind_ok in E as (? & _ & E). apply obind_ok in E as (? & _ & E).
    destruct ((_ <? 0) || (_ <? 0)); [discriminate|]. apply obind_ok in E as ([[? ?] ?] & Hs & E).
    exact (settle_ok_not_stuck _ _ _ _ _ _ Hs).
  - apply obind_ok in E as (? & _ & E). apply obind_ok in E as (? & _ & E).
    destruct (negb (_ >? dec_of_int _)); [discriminate|]. apply obind_ok in E as (? & _ & E).
    apply obind_ok in E as (? & _ & E). apply obind_ok in E as (? & _ & E). apply obind_ok in E as (? & _ & E).
    destruct ((_ <? 0) || (_ <? 0)); discriminate.
Qed.

(* outside the class the lend settlement goes through whenever the account holds the target debt *)
Lemma lend_settle_live cf lk L xf nf :
  l_init lk <> 0 -> l_init lk <> 2 -> kf_C10_7 lk = false -> 0 <= l_target lk <= L AUC_D ->
  exists L', settle cf lk L xf nf = Ok (L', xf, nf) /\ L' POOL_D = L POOL_D + l_target lk /\ L' AUC_D = L AUC_D - l_target lk.
Proof.
  intros I0 I2 Hk Ht. unfold settle, kf_C10_7 in *.
  destruct (Z.eqb_spec (l_init lk) 2); [contradiction|]. destruct (Z.eqb_spec (l_init lk) 0); [contradiction|].
  cbn [negb andb] in Hk. rewrite Hk. unfold send. destruct (Z.ltb_spec (L AUC_D) (l_target lk)); [lia|].
  cbn [oerr obind]. eexists. split; [reflexivity|]. unfold upd, AUC_D, POOL_D. cbn. lia.
Qed.

(* witness: a lend auction (collateral 1 000 000, target 1 050 000) of a bridged borrow whose lend position was
   used up; the exact bid of a funded bidder panics *)
Definition s_cf : acfg := mkCfg (12 * P18 / 10) (7 * P18 / 10) 3600 0 0 1000000 1000000.
Definition s_lk : locked := mkLk 1000000 1050000 50000 0 1 false false true.
Definition s_au : auction := mkAu 1000000 1050000 0 (24 * P18 * 100000) (24 * P18 * 100000) (2000000 * P18) (1000000 * P18) 0 3600.
Definition s_led : ledger := fun k => if k =? 0 then 1000000 else if k =? 11 then 5000000 else 0.
Lemma lend_close_stuck :
  kf_C10_7 s_lk = true /\
  place_bid_core s_cf s_lk s_au (mkS s_led None 0 0) 0 1050000 false 1000000 = Panic /\
  place_bid_core s_cf s_lk s_au (mkS s_led None 0 0) 0 9999999 false 1000000 = Panic /\
  (exists s' b r, place_bid_core s_cf s_lk s_au (mkS s_led None 0 0) 0 500000 false 1000000 = Ok (s', Some b, r)).
Proof.
  split; [reflexivity|]. split; [vm_compute; reflexivity|]. split; [vm_compute; reflexivity|].
  destruct (place_bid_core s_cf s_lk s_au (mkS s_led None 0 0) 0 500000 false 1000000) as [[[s' [b|]] r]| |] eqn:E;
    vm_compute in E; try discriminate. eauto.
Qed.
