(* The remaining esm steps preserve [InvE] / [InvE02] (Proofs/EsmLifeInv.v): MsgDepositESM, MsgExecuteESM,
   SnapshotOfPrices, SetUpDebtRedemptionForCollector, SetUpShareCalculation, MsgCollateralRedemption; the laws of
   a redemption (exact burn, what every collateral record pays) as a specification of [redeem]. *)
From Comdex Require Import Lib.Base Lib.DecArith Lib.DecFacts Lib.Atomic Model.Vault Model.VaultLife Model.EsmLife
  Proofs.VaultProofs Proofs.VaultExec Proofs.VaultHandlers Proofs.VaultInv Proofs.VaultLifeBase Proofs.VaultLifeInv Proofs.VaultLifeHist
  Proofs.VaultLifeSupply Proofs.EsmLifeBase Proofs.EsmLifeInv.
From Coq Require Import ZifyBool Sorted.

(* the vault books (records, totals, counters, unsolicited ghost) are untouched *)
Record books_same (s s' : state) : Prop := mkBK {
  bk_vaults : vaults s' = vaults s; bk_svaults : svaults s' = svaults s; bk_prods : prods s' = prods s; bk_umap : umap s' = umap s;
  bk_vlen : vlen s' = vlen s; bk_vid : vid s' = vid s; bk_sid : sid s' = sid s; bk_unsol : unsol s' = unsol s
}.
Lemma books_refl s : books_same s s. Proof. constructor; reflexivity. Qed.
Lemma books_trans s1 s2 s3 : books_same s1 s2 -> books_same s2 s3 -> books_same s1 s3.
Proof. intros A B. constructor; (etransitivity; [apply B|apply A]). Qed.
Lemma books_set_bal s b : books_same s (set_bal s b). Proof. constructor; reflexivity. Qed.
Lemma send_books s f t d amt s' : send s f t d amt = Ok s' -> books_same s s'.
Proof. intros H. apply send_spec in H. destruct H as (_ & b' & -> & _). apply books_set_bal. Qed.
Lemma burn_from_books s a d amt s' : burn_from s a d amt = Ok s' -> books_same s s' /\ (forall x, sup s' x = sup s x - at1 d amt x) /\
  (forall a' x, a' <> a -> bal s' a' x = bal s a' x) /\ 0 <= amt.
Proof.
  unfold burn_from. destruct (Z.ltb_spec amt 0); [discriminate|]. destruct (bal s a d <? amt); [discriminate|]. intros Hok; injection Hok as <-.
  split; [constructor; reflexivity|]. split; [intros x; reflexivity|]. split; [|lia].
  intros a' x Ha. ssimpl. unfold at2. destruct (Z.eqb_spec a' a); [contradiction|]. cbn [andb]. lia.
Qed.

(* a change of the bank and the environment only: the rows of the custody account and of the esm account stay *)
Lemma invE_env c e s' g' d' : InvE c e -> books_same (vs (el e)) s' ->
  (forall d, bal s' VAULT d = bal (vs (el e)) VAULT d) -> (forall d, bal s' ESMA d = bal (vs (el e)) ESMA d) ->
  let l := el e in
  forall fl dp ud tm gb,
  InvE c (mkE (mkL s' (lks l) (aus l) (lkid l) (auid l) g' (edebt l) (rsv l) (drift l) (er_mint l) (er_coll l) (er_short l) (over l))
              (recs e) (cool e) fl dp ud tm (epool e) (epaid e) d' gb).
Proof.
  intros I B Hv He l fl dp ud tm gb.
  assert (IL : InvL c (set_vs l s')).
  { apply (frame_step c l s' (ie_life _ _ I)); try apply B. intros d. rewrite Hv, (bk_unsol _ _ B). reflexivity. }
  constructor; cbn [el recs cool epool epaid vs lks edebt].
  - exact (invL_regs c l s' g' (edebt l) IL).
  - destruct (ie_users _ _ I) as [U1 U2]. split; cbn [vs lks]; [rewrite (bk_vaults _ _ B); exact U1|exact U2].
  - exact (ie_nodup _ _ I).
  - exact (ie_cool _ _ I).
  - exact (ie_roles _ _ I).
  - intros d. rewrite He. exact (ie_custody _ _ I d).
  - exact (ie_pool _ _ I).
  - exact (ie_paid _ _ I).
  - intros d. rewrite He. exact (ie_nonneg _ _ I d).
  - exact (ie_debt _ _ I).
Qed.

Lemma inv02L_env c ext l s' g' : Inv02L c ext l -> vaults s' = vaults (vs l) -> svaults s' = svaults (vs l) -> sup s' = sup (vs l) ->
  Inv02L c ext (mkL s' (lks l) (aus l) (lkid l) (auid l) g' (edebt l) (rsv l) (drift l) (er_mint l) (er_coll l) (er_short l) (over l)).
Proof.
  intros J Hv Hx Hs d. destruct (J d) as [J1 J2]. split; [|exact J2].
  unfold recorded_d, debt_sum, lock_prin_d in *. cbn [vs lks edebt over]. rewrite Hv, Hx, Hs. exact J1.
Qed.

Lemma lstate_eta l : mkL (vs l) (lks l) (aus l) (lkid l) (auid l) (ereg l) (edebt l) (rsv l) (drift l) (er_mint l) (er_coll l) (er_short l) (over l) = l.
Proof. destruct l; reflexivity. Qed.

(* ---------- MsgDepositESM ---------- *)
Theorem deposit_invE c ec e from app denom amt e' : from <> VAULT -> from <> ESMA -> InvE c e -> deposit_esm c ec e from app denom amt = Ok e' ->
  InvE c e' /\ (forall ext, InvE02 c ext e -> InvE02 c ext e').
Proof.
  intros Hfv Hfe I H. unfold deposit_esm in H. cbv zeta in H.
  do 5 exec1 H. exec1 H. rename st into nb. exec1 H. rename st into s1. exec1 H. exec1 H. exec1 H. rename st into s2. injection H as <-.
  pose proof (send_books _ _ _ _ _ _ E0) as B1. apply send_spec in E0. destruct E0 as (_ & b1 & -> & Hb1).
  destruct (burn_from_books _ _ _ _ _ E1) as (B2 & S2 & R2 & Hamt).
  pose proof (books_trans _ _ _ B1 B2) as B.
  assert (Hv : forall d, bal s2 VAULT d = bal (vs (el e)) VAULT d).
  { intros d. rewrite R2 by discriminate. ssimpl. rewrite Hb1. unfold xfer. change (VAULT =? TMINT) with false.
    destruct (Z.eqb_spec VAULT from); [congruence|]. cbn [andb]. lia. }
  assert (He : forall d, bal s2 ESMA d = bal (vs (el e)) ESMA d).
  { intros d. rewrite R2 by discriminate. ssimpl. rewrite Hb1. unfold xfer. change (ESMA =? TMINT) with false.
    destruct (Z.eqb_spec ESMA from); [congruence|]. cbn [andb]. lia. }
  unfold set_vs. split.
  - exact (invE_env c e s2 (ereg (el e)) (eret e) I B Hv He _ _ _ _ _).
  - intros ext [J G]. split; cbn [gburn el].
    + intros d. destruct (J d) as [J1 J2]. split; [|exact J2].
      unfold recorded_d, debt_sum, lock_prin_d in *. cbn [vs lks edebt over]. rewrite (bk_vaults _ _ B), (bk_svaults _ _ B), S2. ssimpl.
      unfold add1, at1. destruct (d =? z); lia.
    + intros d. unfold add1. specialize (G d). destruct (d =? z); lia.
Qed.

(* ---------- MsgExecuteESM, SnapshotOfPrices ---------- *)
Theorem execute_invE c ec e app e' : InvE c e -> execute_esm c ec e app = Ok e' ->
  InvE c e' /\ (forall ext, InvE02 c ext e -> InvE02 c ext e').
Proof.
  intros I H. unfold execute_esm in H. cbv zeta in H. do 5 exec1 H. injection H as <-.
  unfold set_eflags, set_el, set_vs. cbn [el recs cool eflags dep udep tms epool epaid eret gburn vs lks aus lkid auid ereg edebt rsv drift er_mint er_coll er_short over].
  split.
  - apply (invE_env c e _ (ereg (el e)) (eret e) I); [constructor; reflexivity| |]; intros d; reflexivity.
  - intros ext [J G]. split; [|exact G]. cbn [gburn el]. apply (inv02L_env c _ (el e) _ (ereg (el e)) J); reflexivity.
Qed.

Lemma snap_loop_books s app assets s1 done : snap_loop s app assets = (s1, done) ->
  books_same s s1 /\ bal s1 = bal s /\ sup s1 = sup s.
Proof.
  revert s. induction assets as [|a r IH]; intros s H; cbn [snap_loop] in H.
  - injection H as <- _. split; [apply books_refl|split; reflexivity].
  - destruct (price s a); [|injection H as <- _; split; [apply books_refl|split; reflexivity]].
    destruct (snap s app a).
    + exact (IH s H).
    + destruct (IH _ H) as (B & Hb & Hs). split; [|split; assumption]. destruct B. constructor; assumption.
Qed.

Theorem snapshot_invE c ec e app e' : InvE c e -> snapshot ec e app = Ok e' ->
  InvE c e' /\ (forall ext, InvE02 c ext e -> InvE02 c ext e').
Proof.
  intros I H. unfold snapshot in H. cbv zeta in H. destruct (snap_loop (vs (el e)) app (ec_oracle ec)) as [s1 done] eqn:L.
  injection H as <-. destruct (snap_loop_books _ _ _ _ _ L) as (B & Hb & Hs).
  set (s2 := if done then set_esm s1 (upd1 (esm s1) app (mkEsm (e_status (esm s1 app)) (e_end (esm s1 app)) true)) else s1).
  assert (B2 : books_same (vs (el e)) s2) by (unfold s2; destruct done; [destruct B; constructor; assumption|exact B]).
  assert (Hb2 : bal s2 = bal (vs (el e))) by (unfold s2; destruct done; exact Hb).
  assert (Hs2 : sup s2 = sup (vs (el e))) by (unfold s2; destruct done; exact Hs).
  unfold set_el, set_vs. split.
  - pose proof (invE_env c e s2 (ereg (el e)) (eret e) I B2 ltac:(intros d; rewrite Hb2; reflexivity) ltac:(intros d; rewrite Hb2; reflexivity)
                  (eflags e) (dep e) (udep e) (tms e) (gburn e)) as G. exact G.
  - intros ext [J G]. split; [|exact G]. cbn [gburn el]. apply (inv02L_env c _ (el e) s2 (ereg (el e)) J); [apply B2|apply B2|exact Hs2].
Qed.

(* ---------- SetUpDebtRedemptionForCollector ---------- *)
Lemma e_collector_one_invE c lc ec app e it e1 : InvE c e -> e_collector_one lc ec app e it = Ok e1 ->
  InvE c e1 /\ eflags e1 = eflags e /\ (forall ext, InvE02 c ext e -> InvE02 c ext e1).
Proof.
  intros I H. unfold e_collector_one in H. destruct it as [asset fee]. cbv zeta in H.
  exec1 H; [injection H as <-; split; [exact I|split; [reflexivity|intros ext J; exact J]]|].
  destruct (find_rec (recs e) app asset) as [r|] eqn:F; [|discriminate H].
  do 2 exec1 H. exec1 H. rename st into dv. do 3 exec1 H. exec1 H. rename st into s1. injection H as <-.
  destruct (find_rec_some _ _ _ _ F) as (Hin & Hra & Hrx). apply orb_false_iff in C. destruct C as [Cc Cf].
  destruct (burn_from_books _ _ _ _ _ E0) as (B & S & R & Hfee).
  set (r' := with_amt r (ar_amt r - fee)).
  assert (Hk : ar_app r' = app /\ ar_asset r' = asset /\ ar_coll r' = false) by (unfold r', with_amt; cbn; auto). destruct Hk as (Hk1 & Hk2 & Hk3).
  assert (IL : InvL c (set_vs (el e) s1)).
  { apply (frame_step c (el e) s1 (ie_life _ _ I)); try apply B. intros d. rewrite R by discriminate. rewrite (bk_unsol _ _ B). reflexivity. }
  split; [|split; [reflexivity|]].
  - constructor; cbn [el recs cool epool epaid]; unfold set_edebt.
    + exact (invL_regs c (el e) s1 _ _ IL).
    + destruct (ie_users _ _ I) as [U1 U2]. split; cbn [vs lks]; [rewrite (bk_vaults _ _ B); exact U1|exact U2].
    + apply put_nodup. exact (ie_nodup _ _ I).
    + intros a Ha w Hw. unfold upd1 in Ha. destruct (Z.eqb_spec a app) as [Ea|Hn]; [discriminate Ha|].
      apply put_in in Hw. destruct Hw as [->|Hw]; [rewrite Hk1; auto|exact (ie_cool _ _ I a Ha w Hw)].
    + intros w Hw. apply put_in in Hw. destruct Hw as [->|Hw]; [|exact (ie_roles _ _ I w Hw)].
      pose proof (ie_roles _ _ I r Hin) as Rk. unfold rec_ok, r', with_amt in *. cbn [ar_coll ar_asset]. exact Rk.
    + intros d. cbn [vs]. rewrite R by discriminate. rewrite esm_coll_of. cbn [recs]. rewrite coll_of_put, Hk1, Hk2, F, Hk3, Cc. cbn [andb].
      rewrite (ie_custody _ _ I d), esm_coll_of. lia.
    + intros d. rewrite esm_coll_of. cbn [recs]. rewrite coll_of_put, Hk1, Hk2, F, Hk3, Cc. cbn [andb].
      pose proof (ie_pool _ _ I d) as P. rewrite esm_coll_of in P. lia.
    + exact (ie_paid _ _ I).
    + intros d. cbn [vs]. rewrite R by discriminate. exact (ie_nonneg _ _ I d).
    + intros d. cbn [edebt]. rewrite esm_debt_of. cbn [recs]. rewrite debt_of_put, Hk1, Hk2, F, Hk3, Cc, Hrx. cbn [negb andb].
      unfold r', with_amt. cbn [ar_amt]. unfold add1. rewrite (ie_debt _ _ I d), esm_debt_of. rewrite (Z.eqb_sym d). destruct (asset =? d); lia.
  - intros ext [J G]. split; [|exact G]. cbn [gburn el]. unfold set_edebt. intros d. destruct (J d) as [J1 J2]. split; [|exact J2].
    unfold recorded_d, debt_sum, lock_prin_d in *. cbn [vs lks edebt over]. rewrite (bk_vaults _ _ B), (bk_svaults _ _ B), S.
    unfold add1, at1. destruct (d =? asset); lia.
Qed.

Lemma e_collector_loop_invE c lc ec app fees : forall e e', InvE c e -> e_collector_loop lc ec app fees e = Ok e' ->
  InvE c e' /\ eflags e' = eflags e /\ (forall ext, InvE02 c ext e -> InvE02 c ext e').
Proof.
  induction fees as [|it fees IH]; intros e e' I H; cbn [e_collector_loop] in H.
  - injection H as <-. split; [exact I|split; [reflexivity|intros ext J; exact J]].
  - destruct (e_collector_one lc ec app e it) as [e1| |] eqn:E1; cbn [obind] in H; try discriminate H.
    destruct (e_collector_one_invE c lc ec app e it e1 I E1) as (I1 & F1 & J1).
    destruct (IH e1 e' I1 H) as (I' & F' & J'). split; [exact I'|]. split; [rewrite F', F1; reflexivity|]. intros ext J. exact (J' ext (J1 ext J)).
Qed.

Theorem e_collector_invE c lc ec e app fees e' : InvE c e -> e_collector lc ec e app fees = Ok e' ->
  InvE c e' /\ (forall ext, InvE02 c ext e -> InvE02 c ext e').
Proof.
  intros I H. unfold e_collector in H. destruct (negb (EsmLife.ef_found (eflags e app))); [discriminate H|].
  destruct (e_collector_loop lc ec app fees e) as [e1| |] eqn:L; cbn [obind] in H; try discriminate H. injection H as <-.
  destruct (e_collector_loop_invE c lc ec app fees e e1 I L) as (I1 & _ & J1).
  unfold set_flag. split; [apply invE_flags; exact I1|]. intros ext J. apply invE02_flags. exact (J1 ext J).
Qed.

(* ---------- SetUpShareCalculation: only Share and DebtTokenWorth are written ---------- *)
Lemma share_one_core lc ec s app cl r r' : share_one lc ec s app cl r = Ok r' -> core r' = core r.
Proof.
  unfold share_one. intros H. do 2 exec1 H. exec1 H. exec1 H. destruct p as [ct dt]. destruct (ar_coll r) eqn:Cc.
  - exec1 H. injection H as <-. unfold core. cbn. rewrite Cc. reflexivity.
  - do 4 exec1 H. injection H as <-. unfold core. cbn. rewrite Cc. reflexivity.
Qed.

Lemma share_loop_core lc ec s app cl rl : forall rs rs', (forall r, In r rl -> exists o, find_rec rs (ar_app r) (ar_asset r) = Some o /\ core o = core r) ->
  share_loop lc ec s app cl rl rs = Ok rs' -> map core rs' = map core rs.
Proof.
  induction rl as [|r rl IH]; intros rs rs' HF H; cbn [share_loop] in H; [injection H as <-; reflexivity|].
  destruct (share_one lc ec s app cl r) as [r'| |] eqn:S1; cbn [obind] in H; try discriminate H.
  pose proof (share_one_core _ _ _ _ _ _ _ S1) as Hc.
  destruct (HF r (or_introl eq_refl)) as (o & Fo & Co).
  assert (Hk : ar_app r' = ar_app r /\ ar_asset r' = ar_asset r) by (unfold core in Hc; split; congruence). destruct Hk as [Hk1 Hk2].
  assert (P : map core (put_rec rs r') = map core rs) by (apply (put_core rs r' o); [rewrite Hk1, Hk2; exact Fo|congruence]).
  rewrite <- P. apply IH; [|exact H]. intros w Hw. destruct (HF w (or_intror Hw)) as (o' & Fo' & Co').
  destruct (core_find _ _ _ _ _ P Fo') as (o2 & F2 & C2). exists o2. split; [exact F2|congruence].
Qed.

Lemma invE_core c e rs fl : InvE c e -> map core rs = map core (recs e) ->
  InvE c (mkE (el e) rs (cool e) fl (dep e) (udep e) (tms e) (epool e) (epaid e) (eret e) (gburn e)).
Proof.
  intros I Hc.
  assert (Hcoll : forall d, coll_of rs d = coll_of (recs e) d) by (intros d; rewrite !coll_of_core; apply core_wsum; exact Hc).
  assert (Hdebt : forall d, debt_of rs d = debt_of (recs e) d) by (intros d; rewrite !debt_of_core; apply core_wsum; exact Hc).
  constructor; cbn [el recs cool epool epaid]; try apply I.
  - rewrite (core_keys _ _ Hc). exact (ie_nodup _ _ I).
  - intros a Ha r Hr. destruct (core_in _ _ _ Hc Hr) as (r0 & Hr0 & E). pose proof (ie_cool _ _ I a Ha r0 Hr0). unfold core in E. congruence.
  - intros r Hr. destruct (core_in _ _ _ Hc Hr) as (r0 & Hr0 & E). pose proof (ie_roles _ _ I r0 Hr0) as R. unfold rec_ok in *. unfold core in E.
    replace (ar_coll r) with (ar_coll r0) by congruence. replace (ar_asset r) with (ar_asset r0) by congruence. exact R.
  - intros d. rewrite esm_coll_of. cbn [recs]. rewrite Hcoll, <- esm_coll_of. exact (ie_custody _ _ I d).
  - intros d. rewrite esm_coll_of. cbn [recs]. rewrite Hcoll, <- esm_coll_of. exact (ie_pool _ _ I d).
  - intros d. rewrite esm_debt_of. cbn [recs]. rewrite Hdebt, <- esm_debt_of. exact (ie_debt _ _ I d).
Qed.

Theorem e_share_invE c lc ec e app e' : InvE c e -> e_share lc ec e app = Ok e' ->
  InvE c e' /\ (forall ext, InvE02 c ext e -> InvE02 c ext e').
Proof.
  intros I H. unfold e_share in H. destruct (negb (EsmLife.ef_found (eflags e app))); [discriminate H|].
  destruct (share_loop lc ec (vs (el e)) app (cool e app) (app_recs (recs e) app) (recs e)) as [rs| |] eqn:L; cbn [obind] in H; try discriminate H.
  injection H as <-.
  assert (Hc : map core rs = map core (recs e)).
  { refine (share_loop_core _ _ _ _ _ _ _ _ _ L). intros r Hr. exists r. split; [|reflexivity].
    apply find_rec_in; [exact (ie_nodup _ _ I)|]. unfold app_recs in Hr. apply filter_In in Hr. tauto. }
  unfold set_flag, set_eflags. cbn [el recs cool eflags dep udep tms epool epaid eret gburn]. split.
  - apply invE_core; assumption.
  - intros ext J. exact J.
Qed.

(* ---------- MsgCollateralRedemption ---------- *)
Definition kc (r : arec) : Z * Z * bool := (ar_app r, ar_asset r, ar_coll r).

Lemma repl_proj {T} (f : arec -> T) l r o : find_rec l (ar_app r) (ar_asset r) = Some o -> f r = f o -> map f (repl_rec l r) = map f l.
Proof.
  induction l as [|w l IH]; cbn [find_rec repl_rec map]; [discriminate|].
  destruct (key_is w (ar_app r) (ar_asset r)); intros H Hc; cbn [map].
  - injection H as <-. rewrite Hc. reflexivity.
  - rewrite (IH H Hc). reflexivity.
Qed.
Lemma put_proj {T} (f : arec -> T) l r o : find_rec l (ar_app r) (ar_asset r) = Some o -> f r = f o -> map f (put_rec l r) = map f l.
Proof. intros F Hc. unfold put_rec. rewrite F. exact (repl_proj f l r o F Hc). Qed.
Lemma proj_in {T} (f : arec -> T) l' : forall l r', map f l' = map f l -> In r' l' -> exists r, In r l /\ f r = f r'.
Proof.
  induction l' as [|w' l' IH]; intros [|w l] r' H Hin; cbn [map] in *; try discriminate; [destruct Hin|].
  assert (Hc : f w' = f w) by congruence. assert (Ht : map f l' = map f l) by congruence. destruct Hin as [<-|Hin].
  - exists w. split; [left; reflexivity|symmetry; exact Hc].
  - destruct (IH l r' Ht Hin) as (r & Hr & E). exists r. split; [right; exact Hr|exact E].
Qed.
Lemma kc_keys l l' : map kc l' = map kc l -> map rkey l' = map rkey l.
Proof.
  intros H. assert (E : forall m, map rkey m = map (fun t : Z * Z * bool => fst t) (map kc m)) by (intros m; rewrite map_map; reflexivity).
  rewrite (E l'), (E l), H. reflexivity.
Qed.

Lemma repl_same l r : find_rec l (ar_app r) (ar_asset r) = Some r -> repl_rec l r = l.
Proof.
  induction l as [|w l IH]; cbn [find_rec repl_rec]; [discriminate|].
  destruct (key_is w (ar_app r) (ar_asset r)); intros H; [injection H as ->; reflexivity|rewrite (IH H); reflexivity].
Qed.
Lemma put_same l r : find_rec l (ar_app r) (ar_asset r) = Some r -> put_rec l r = l.
Proof. intros F. unfold put_rec. rewrite F. exact (repl_same l r F). Qed.

Lemma send_funds s f t d amt s' : send s f t d amt = Ok s' -> amt = 0 \/ amt <= bal s f d.
Proof.
  unfold send. destruct (amt <? 0); [discriminate|]. destruct (Z.eqb_spec amt 0); [left; assumption|].
  destruct (Z.ltb_spec (bal s f d) amt); [discriminate|]. right. assumption.
Qed.

(* what one collateral record pays for the worth [w] *)
Definition pay_of (lc : lcfg) (ec : ecfg) (s : state) (app w : Z) (r : arec) : Z :=
  if ar_coll r && negb (ar_amt r =? 0) then
    match ec_dec ec (ar_asset r), rate_of lc s app (ar_asset r) with
    | Some dec, Some rate => match payout w (ar_share r) rate dec with Some q => q | None => 0 end
    | _, _ => 0 end
  else 0.

Lemma rate_of_bal lc s b app x : rate_of lc (set_bal s b) app x = rate_of lc s app x. Proof. reflexivity. Qed.

Lemma redeem_loop_spec lc ec app from w rl : from <> ESMA -> NoDup (map rkey rl) ->
  forall s rs pd s' rs' pd',
  (forall r, In r rl -> find_rec rs (ar_app r) (ar_asset r) = Some r) -> (forall d, 0 <= bal s ESMA d) ->
  redeem_loop lc ec app from w rl (s, rs, pd) = Ok (s', rs', pd') ->
  exists b', s' = set_bal s b' /\
    (forall a d, a <> ESMA -> a <> from -> b' a d = bal s a d) /\
    (forall d, b' ESMA d = bal s ESMA d - (pd' d - pd d)) /\
    (forall d, b' from d = bal s from d + (pd' d - pd d)) /\
    (forall d, 0 <= b' ESMA d) /\
    (forall d, pd' d - pd d = wsum (fun r => if ar_asset r =? d then pay_of lc ec s app w r else 0) rl) /\
    (forall r, In r rl -> 0 <= pay_of lc ec s app w r) /\
    (forall d, coll_of rs' d = coll_of rs d - (pd' d - pd d)) /\
    (forall d, debt_of rs' d = debt_of rs d) /\
    map kc rs' = map kc rs /\
    (forall r, In r rl -> exists r', find_rec rs' (ar_app r) (ar_asset r) = Some r' /\ ar_amt r' = ar_amt r - pay_of lc ec s app w r /\ kc r' = kc r) /\
    (forall a x, ~ In (a, x) (map rkey rl) -> find_rec rs' a x = find_rec rs a x) /\
    (forall r, In r rl -> exists dec, ec_dec ec (ar_asset r) = Some dec /\
       (ar_coll r && negb (ar_amt r =? 0) = true -> exists rate, rate_of lc s app (ar_asset r) = Some rate /\
          payout w (ar_share r) rate dec = Some (pay_of lc ec s app w r))).
Proof.
  intros Hfe. induction rl as [|r rl IH]; intros Hnd s rs pd s' rs' pd' HF Hnn H; cbn [redeem_loop] in H.
  - injection H as <- <- <-. exists (bal s). split; [symmetry; apply set_bal_eta|]. cbn [map In wsum].
    repeat split; intros; rewrite ?wsum_nil; try reflexivity; try lia; try contradiction. apply Hnn.
  - inversion Hnd as [|? ? Hny Hnd']; subst.
    destruct (redeem_one lc ec app from w (s, rs, pd) r) as [[[s1 rs1] pd1]| |] eqn:R1; cbn [obind] in H; try discriminate H.
    pose proof (HF r (or_introl eq_refl)) as Fr.
    (* the head *)
    assert (K : exists b1, s1 = set_bal s b1 /\
      (forall a d, a <> ESMA -> a <> from -> b1 a d = bal s a d) /\
      (forall d, b1 ESMA d = bal s ESMA d - (if ar_asset r =? d then pay_of lc ec s app w r else 0)) /\
      (forall d, b1 from d = bal s from d + (if ar_asset r =? d then pay_of lc ec s app w r else 0)) /\
      (forall d, 0 <= b1 ESMA d) /\ 0 <= pay_of lc ec s app w r /\
      (forall d, pd1 d = pd d + (if ar_asset r =? d then pay_of lc ec s app w r else 0)) /\
      rs1 = put_rec rs (with_amt r (ar_amt r - pay_of lc ec s app w r)) /\
      (exists dec, ec_dec ec (ar_asset r) = Some dec /\
         (ar_coll r && negb (ar_amt r =? 0) = true -> exists rate, rate_of lc s app (ar_asset r) = Some rate /\
            payout w (ar_share r) rate dec = Some (pay_of lc ec s app w r)))).
    { unfold redeem_one in R1. unfold pay_of. destruct (ec_dec ec (ar_asset r)) as [dec|] eqn:Ed; [|discriminate R1].
      destruct (ar_coll r && negb (ar_amt r =? 0)) eqn:Cc.
      - destruct (rate_of lc s app (ar_asset r)) as [rate|] eqn:Er; [|discriminate R1].
        destruct (payout w (ar_share r) rate dec) as [q|] eqn:Ep; [|discriminate R1].
        destruct (send s ESMA from (ar_asset r) q) as [s1'| |] eqn:Es; cbn [obind] in R1; try discriminate R1. injection R1 as <- <- <-.
        pose proof (send_funds _ _ _ _ _ _ Es) as Hfu. apply send_spec in Es. destruct Es as (Hq & b1 & -> & Hb1).
        exists b1. split; [reflexivity|]. repeat split.
        + intros a d Ha1 Ha2. rewrite Hb1. unfold xfer. destruct (Z.eqb_spec a from); [contradiction|]. destruct (Z.eqb_spec a ESMA); [contradiction|]. cbn [andb]. lia.
        + intros d. rewrite Hb1. unfold xfer. destruct (Z.eqb_spec ESMA from); [congruence|]. rewrite Z.eqb_refl. cbn [andb]. rewrite (Z.eqb_sym d). destruct (ar_asset r =? d); lia.
        + intros d. rewrite Hb1. unfold xfer. rewrite Z.eqb_refl. destruct (Z.eqb_spec from ESMA); [contradiction|]. cbn [andb]. rewrite (Z.eqb_sym d). destruct (ar_asset r =? d); lia.
        + intros d. rewrite Hb1. unfold xfer. destruct (Z.eqb_spec ESMA from); [congruence|]. rewrite Z.eqb_refl. cbn [andb].
          pose proof (Hnn d). destruct (Z.eqb_spec d (ar_asset r)) as [->|]; [|lia]. specialize (Hnn (ar_asset r)). lia.
        + exact Hq.
        + intros d. unfold add1. rewrite (Z.eqb_sym d). reflexivity.
        + exists dec. split; [reflexivity|]. intros _. exists rate. split; [reflexivity|exact Ep].
      - injection R1 as <- <- <-. exists (bal s). split; [symmetry; apply set_bal_eta|]. repeat split; intros; try reflexivity; try lia.
        + destruct (ar_asset r =? d); lia.
        + destruct (ar_asset r =? d); lia.
        + apply Hnn.
        + destruct (ar_asset r =? d); lia.
        + rewrite Z.sub_0_r. f_equal. unfold with_amt. destruct r; reflexivity.
        + exists dec. split; [reflexivity|]. intros Ht. discriminate Ht. }
    destruct K as (b1 & -> & K1 & K2 & K3 & K4 & K5 & K6 & -> & K7).
    set (q := pay_of lc ec s app w r) in *.
    set (r1 := with_amt r (ar_amt r - q)).
    assert (Hk : ar_app r1 = ar_app r /\ ar_asset r1 = ar_asset r /\ ar_coll r1 = ar_coll r) by (unfold r1, with_amt; cbn; auto). destruct Hk as (Hk1 & Hk2 & Hk3).
    assert (Fr1 : find_rec rs (ar_app r1) (ar_asset r1) = Some r) by (rewrite Hk1, Hk2; exact Fr).
    assert (HF1 : forall r2, In r2 rl -> find_rec (put_rec rs r1) (ar_app r2) (ar_asset r2) = Some r2).
    { intros r2 H2. rewrite find_put_other; [exact (HF r2 (or_intror H2))|]. unfold rkey. rewrite Hk1, Hk2. intros Eq. apply Hny.
      unfold rkey at 1. rewrite <- Eq. change (ar_app r2, ar_asset r2) with (rkey r2). apply in_map. exact H2. }
    assert (Hnn1 : forall d, 0 <= bal (set_bal s b1) ESMA d) by (intros d; ssimpl; apply K4).
    destruct (IH Hnd' (set_bal s b1) (put_rec rs r1) pd1 s' rs' pd' HF1 Hnn1 H) as
      (b' & -> & B1 & B2 & B3 & B4 & B5 & B6 & B7 & B8 & B9 & B10 & B11 & B12).
    assert (Hpay : forall x, pay_of lc ec (set_bal s b1) app w x = pay_of lc ec s app w x) by reflexivity.
    exists b'. split; [reflexivity|]. ssimpl. repeat split.
    + intros a d Ha1 Ha2. rewrite B1, K1 by assumption. reflexivity.
    + intros d. rewrite B2, K2, K6. lia.
    + intros d. rewrite B3, K3, K6. lia.
    + exact B4.
    + intros d. rewrite wsum_cons. specialize (B5 d). rewrite K6 in B5. fold q.
      assert (E : wsum (fun r0 => if ar_asset r0 =? d then pay_of lc ec (set_bal s b1) app w r0 else 0) rl = wsum (fun r0 => if ar_asset r0 =? d then pay_of lc ec s app w r0 else 0) rl) by reflexivity.
      rewrite E in B5. lia.
    + intros x [<-|Hx]; [exact K5|]. rewrite <- Hpay. exact (B6 x Hx).
    + intros d. rewrite B7, coll_of_put, Fr1, Hk3, Hk2, K6. unfold r1, with_amt. cbn [ar_amt].
      unfold q, pay_of. destruct (ar_coll r) eqn:Cr; cbn [andb]; [|destruct (ar_asset r =? d); lia].
      fold (pay_of lc ec s app w r). destruct (ar_asset r =? d); lia.
    + intros d. rewrite B8, debt_of_put, Fr1, Hk3, Hk2. unfold r1, with_amt. cbn [ar_amt].
      destruct (ar_coll r) eqn:Cr; cbn [negb andb]; [lia|]. unfold q, pay_of. rewrite Cr. cbn [andb]. destruct (ar_asset r =? d); lia.
    + rewrite B9. apply (put_proj kc rs r1 r Fr1). unfold kc. rewrite Hk1, Hk2, Hk3. reflexivity.
    + intros x [<-|Hx].
      * rewrite B11 by (intros Hin; apply Hny; exact Hin). rewrite <- Hk1, <- Hk2, find_put_same. exists r1. split; [reflexivity|]. split; [unfold r1, with_amt; reflexivity|].
        unfold kc. rewrite Hk1, Hk2, Hk3. reflexivity.
      * destruct (B10 x Hx) as (x' & Fx & Ax & Kx). exists x'. split; [exact Fx|]. split; [rewrite Ax, Hpay; reflexivity|exact Kx].
    + intros a x Hni. rewrite B11 by (intros Hin; apply Hni; right; exact Hin). apply find_put_other. unfold rkey. rewrite Hk1, Hk2.
      intros Eq. apply Hni. left. symmetry. exact Eq.
    + intros x [<-|Hx]; [exact K7|]. exact (B12 x Hx).
Qed.

Lemma nodup_filter_keys (P : arec -> bool) l : NoDup (map rkey l) -> NoDup (map rkey (filter P l)).
Proof.
  induction l as [|w l IH]; cbn [map filter]; intros H; [constructor|]. inversion H as [|? ? Hny Hnd]; subst.
  destruct (P w); cbn [map]; [|exact (IH Hnd)]. constructor; [|exact (IH Hnd)].
  intros Hin. apply Hny. apply in_map_iff in Hin. destruct Hin as (x & Hk & Hx). apply filter_In in Hx. rewrite <- Hk. apply in_map. tauto.
Qed.
Lemma wsum_nonneg {A} (f : A -> Z) l : (forall x, In x l -> 0 <= f x) -> 0 <= wsum f l.
Proof.
  induction l as [|y l IH]; intros H; [rewrite wsum_nil; lia|]. rewrite wsum_cons.
  pose proof (H y (or_introl eq_refl)). assert (0 <= wsum f l) by (apply IH; intros x Hx; apply H; right; exact Hx). lia.
Qed.
Lemma pay_of_snap lc ec s s2 app w r : snap s2 = snap s -> pay_of lc ec s2 app w r = pay_of lc ec s app w r.
Proof. intros Hs. unfold pay_of, rate_of. rewrite Hs. reflexivity. Qed.

Record redeem_eff (lc : lcfg) (ec : ecfg) (e e' : estate) (from app denom amt : Z) (r : arec) (tw dec w : Z) : Prop := mkRE {
  re_pos : 0 < amt;
  re_find : find_rec (recs e) app denom = Some r;
  re_side : ar_coll r = false;
  re_le : amt <= ar_amt r;
  re_tw : uint64_c (dtrunc_int (ar_worth r)) = Some tw;
  re_dec : ec_dec ec denom = Some dec;
  re_w : total_value amt tw dec = Ok w;
  re_books : books_same (vs (el e)) (vs (el e'));
  re_sup : forall x, sup (vs (el e')) x = sup (vs (el e)) x - at1 denom amt x;
  re_bal_other : forall a d, a <> ESMA -> a <> from -> bal (vs (el e')) a d = bal (vs (el e)) a d;
  re_bal_esma : forall d, bal (vs (el e')) ESMA d = bal (vs (el e)) ESMA d - (epaid e' d - epaid e d);
  re_bal_from : forall d, bal (vs (el e')) from d = bal (vs (el e)) from d - at1 denom amt d + (epaid e' d - epaid e d);
  re_nonneg : forall d, 0 <= bal (vs (el e')) ESMA d;
  re_paid : forall d, epaid e' d - epaid e d =
            wsum (fun r0 => if ar_asset r0 =? d then pay_of lc ec (vs (el e)) app w r0 else 0) (app_recs (recs e) app);
  re_pay_nonneg : forall r0, In r0 (app_recs (recs e) app) -> 0 <= pay_of lc ec (vs (el e)) app w r0;
  re_life : el e' = set_edebt (el e) (vs (el e')) (add1 (edebt (el e)) denom (- amt));
  re_coll : forall d, coll_of (recs e') d = coll_of (recs e) d - (epaid e' d - epaid e d);
  re_debt : forall d, debt_of (recs e') d = debt_of (recs e) d - at1 denom amt d;
  re_kc : map kc (recs e') = map kc (recs e);
  re_recs : forall r0, In r0 (app_recs (recs e) app) -> rkey r0 <> (app, denom) ->
            exists r', find_rec (recs e') (ar_app r0) (ar_asset r0) = Some r' /\ ar_amt r' = ar_amt r0 - pay_of lc ec (vs (el e)) app w r0;
  re_rec_d : exists r', find_rec (recs e') app denom = Some r' /\ ar_amt r' = ar_amt r - amt;
  re_pay : forall r0, In r0 (app_recs (recs e) app) -> exists dec0, ec_dec ec (ar_asset r0) = Some dec0 /\
           (ar_coll r0 && negb (ar_amt r0 =? 0) = true -> exists rate, rate_of lc (vs (el e)) app (ar_asset r0) = Some rate /\
              payout w (ar_share r0) rate dec0 = Some (pay_of lc ec (vs (el e)) app w r0));
  re_cool_app : cool e' app <> None;
  re_cool : forall a, a <> app -> cool e' a = cool e a;
  re_rest : eflags e' = eflags e /\ epool e' = epool e /\ eret e' = add1 (eret e) denom amt /\ gburn e' = gburn e
}.

Theorem redeem_spec lc ec e from app denom amt e' : from <> ESMA -> NoDup (map rkey (recs e)) -> (forall d, 0 <= bal (vs (el e)) ESMA d) ->
  redeem lc ec e from app denom amt = Ok e' -> exists r tw dec w, redeem_eff lc ec e e' from app denom amt r tw dec w.
Proof.
  intros Hfe Hnd Hnn H. unfold redeem in H. cbv zeta in H.
  exec1 H. exec1 H. exec1 H. destruct p as [ct dt]. exec1 H. rename a into r. exec1 H. exec1 H. rename z into tw. exec1 H. rename z into dec.
  exec1 H. rename st into w. exec1 H. rename st into s1. exec1 H. rename st into s2. exec1 H. destruct st as [[s3 rs] pd].
  exec1 H. exec1 H. exec1 H. rename st into tp. exec1 H. injection H as <-.
  apply orb_false_iff in C1. destruct C1 as [C1 Cgt]. apply orb_false_iff in C1. destruct C1 as [Cc Cz].
  destruct (find_rec_some _ _ _ _ M0) as (Hrin & Hra & Hrx).
  apply send_spec in E0. destruct E0 as (_ & b1 & -> & Hb1).
  destruct (burn_from_books _ _ _ _ _ E1) as (B2 & S2 & R2 & _).
  assert (Hb2 : forall d, bal s2 ESMA d = bal (vs (el e)) ESMA d).
  { intros d. unfold burn_from in E1. destruct (amt <? 0); [discriminate E1|]. destruct (_ <? amt); [discriminate E1|]. injection E1 as <-.
    ssimpl. rewrite Hb1. unfold xfer, at2. rewrite Z.eqb_refl. destruct (Z.eqb_spec ESMA from); [congruence|]. cbn [andb]. destruct (d =? denom); lia. }
  assert (Hsn : snap s2 = snap (vs (el e))).
  { unfold burn_from in E1. destruct (amt <? 0); [discriminate E1|]. destruct (_ <? amt); [discriminate E1|]. injection E1 as <-. reflexivity. }
  assert (Hndl : NoDup (map rkey (app_recs (recs e) app))) by (apply nodup_filter_keys; exact Hnd).
  assert (HFl : forall r0, In r0 (app_recs (recs e) app) -> find_rec (recs e) (ar_app r0) (ar_asset r0) = Some r0).
  { intros r0 Hr0. apply find_rec_in; [exact Hnd|]. unfold app_recs in Hr0. apply filter_In in Hr0. tauto. }
  assert (Hnn2 : forall d, 0 <= bal s2 ESMA d) by (intros d; rewrite Hb2; apply Hnn).
  destruct (redeem_loop_spec lc ec app from w _ Hfe Hndl s2 (recs e) (epaid e) s3 rs pd HFl Hnn2 E2) as
    (b' & -> & L1 & L2 & L3 & L4 & L5 & L6 & L7 & L8 & L9 & L10 & L11 & L12).
  assert (Hrl : In r (app_recs (recs e) app)) by (unfold app_recs; apply filter_In; split; [exact Hrin|rewrite Hra; apply Z.eqb_refl]).
  destruct (L10 r Hrl) as (rd & Frd & Ard & Krd). rewrite Hra, Hrx in Frd.
  assert (Hp0 : pay_of lc ec s2 app w r = 0) by (unfold pay_of; rewrite Cc; reflexivity). rewrite Hp0 in Ard.
  set (r1 := with_amt r (ar_amt r - amt)).
  assert (Hk : ar_app r1 = app /\ ar_asset r1 = denom /\ ar_coll r1 = false) by (unfold r1, with_amt; cbn; auto). destruct Hk as (Hk1 & Hk2 & Hk3).
  assert (Fr1 : find_rec rs (ar_app r1) (ar_asset r1) = Some rd) by (rewrite Hk1, Hk2; exact Frd).
  assert (Hrdk : ar_coll rd = false /\ ar_asset rd = denom) by (unfold kc in Krd; split; congruence). destruct Hrdk as [Hrd1 Hrd2].
  exists r, tw, dec, w. constructor; cbn [el recs cool eflags dep udep tms epool epaid eret gburn]; unfold set_edebt; cbn [vs lks edebt].
  - lia.
  - assumption.
  - exact Cc.
  - lia.
  - assumption.
  - assumption.
  - exact E.
  - apply (books_trans _ s2); [apply (books_trans _ (set_bal (vs (el e)) b1)); [apply books_set_bal|exact B2]|apply books_set_bal].
  - intros x. ssimpl. rewrite S2. reflexivity.
  - intros a d Ha1 Ha2. ssimpl. rewrite L1 by assumption. rewrite R2 by assumption. ssimpl. rewrite Hb1. unfold xfer.
    destruct (Z.eqb_spec a ESMA); [contradiction|]. destruct (Z.eqb_spec a from); [contradiction|]. cbn [andb]. lia.
  - intros d. ssimpl. rewrite L2, Hb2. reflexivity.
  - intros d. ssimpl. rewrite L3. rewrite R2 by exact Hfe. ssimpl. rewrite Hb1. unfold xfer, at1. rewrite Z.eqb_refl.
    destruct (Z.eqb_spec from ESMA); [contradiction|]. cbn [andb]. destruct (d =? denom); lia.
  - intros d. ssimpl. apply L4.
  - intros d. rewrite L5. unfold wsum. f_equal. apply map_ext. intros r0. rewrite (pay_of_snap lc ec _ s2 app w r0 Hsn). reflexivity.
  - intros r0 Hr0. rewrite <- (pay_of_snap lc ec _ s2 app w r0 Hsn). exact (L6 r0 Hr0).
  - reflexivity.
  - intros d. rewrite coll_of_put, Fr1, Hrd1, Hk3. cbn [andb]. rewrite L7. lia.
  - intros d. rewrite debt_of_put, Fr1, Hrd1, Hrd2, Hk3, Hk2. cbn [negb andb]. rewrite L8. unfold r1, with_amt, at1. cbn [ar_amt].
    rewrite (Z.eqb_sym d). destruct (denom =? d); lia.
  - rewrite <- L9. apply (put_proj kc rs r1 rd Fr1). unfold kc in *. rewrite Hk1, Hk2, Hk3. destruct (find_rec_some _ _ _ _ Frd) as (_ & -> & ->). rewrite Hrd1. reflexivity.
  - intros r0 Hr0 Hne. destruct (L10 r0 Hr0) as (r' & F' & A' & _). exists r'. split.
    + rewrite find_put_other; [exact F'|]. unfold rkey in *. rewrite Hk1, Hk2. exact Hne.
    + rewrite A'. rewrite (pay_of_snap lc ec _ s2 app w r0 Hsn). reflexivity.
  - exists r1. split; [rewrite <- Hk1, <- Hk2; apply find_put_same|reflexivity].
  - intros r0 Hr0. destruct (L12 r0 Hr0) as (dec0 & Ed & P). exists dec0. split; [exact Ed|]. intros Ht. destruct (P Ht) as (rate & Er & Ep).
    exists rate. unfold rate_of in *. rewrite <- Hsn. split; [exact Er|]. rewrite Ep. rewrite (pay_of_snap lc ec _ s2 app w r0 Hsn). reflexivity.
  - unfold upd1. rewrite Z.eqb_refl. discriminate.
  - intros a Ha. unfold upd1. destruct (Z.eqb_spec a app); [contradiction|reflexivity].
  - repeat split.
Qed.

Theorem redeem_invE c lc ec e from app denom amt e' : from <> VAULT -> from <> ESMA -> InvE c e ->
  redeem lc ec e from app denom amt = Ok e' -> InvE c e' /\ (forall ext, InvE02 c ext e -> InvE02 c ext e').
Proof.
  intros Hfv Hfe I H.
  destruct (redeem_spec lc ec e from app denom amt e' Hfe (ie_nodup _ _ I) (ie_nonneg _ _ I) H) as (r & tw & dec & w & R).
  pose proof (re_books _ _ _ _ _ _ _ _ _ _ _ _ R) as B. pose proof (re_life _ _ _ _ _ _ _ _ _ _ _ _ R) as HL.
  destruct (re_rest _ _ _ _ _ _ _ _ _ _ _ _ R) as (Rf & Rp & Rr & Rg).
  assert (IL : InvL c (set_vs (el e) (vs (el e')))).
  { apply (frame_step c (el e) _ (ie_life _ _ I)); try apply B. intros d.
    rewrite (re_bal_other _ _ _ _ _ _ _ _ _ _ _ _ R VAULT d) by (try discriminate; congruence). rewrite (bk_unsol _ _ B). reflexivity. }
  assert (Hpaid : forall d, 0 <= epaid e' d - epaid e d).
  { intros d. rewrite (re_paid _ _ _ _ _ _ _ _ _ _ _ _ R d). apply wsum_nonneg. intros x Hx.
    pose proof (re_pay_nonneg _ _ _ _ _ _ _ _ _ _ _ _ R x Hx). destruct (ar_asset x =? d); lia. }
  pose proof (re_kc _ _ _ _ _ _ _ _ _ _ _ _ R) as Hkc.
  split.
  - constructor.
    + rewrite HL. unfold set_edebt. exact (invL_regs c (el e) _ _ _ IL).
    + rewrite HL. unfold set_edebt. destruct (ie_users _ _ I) as [U1 U2]. split; cbn [vs lks]; [rewrite (bk_vaults _ _ B); exact U1|exact U2].
    + rewrite (kc_keys _ _ Hkc). exact (ie_nodup _ _ I).
    + intros a Ha x Hx. destruct (Z.eq_dec a app) as [Ea|Hn]; [exfalso; rewrite Ea in Ha; exact (re_cool_app _ _ _ _ _ _ _ _ _ _ _ _ R Ha)|].
      rewrite (re_cool _ _ _ _ _ _ _ _ _ _ _ _ R a Hn) in Ha. destruct (proj_in kc _ _ _ Hkc Hx) as (x0 & Hx0 & E).
      pose proof (ie_cool _ _ I a Ha x0 Hx0). unfold kc in E. congruence.
    + intros x Hx. destruct (proj_in kc _ _ _ Hkc Hx) as (x0 & Hx0 & E). pose proof (ie_roles _ _ I x0 Hx0) as Rk. unfold rec_ok in *. unfold kc in E.
      replace (ar_coll x) with (ar_coll x0) by congruence. replace (ar_asset x) with (ar_asset x0) by congruence. exact Rk.
    + intros d. rewrite (re_bal_esma _ _ _ _ _ _ _ _ _ _ _ _ R d), esm_coll_of, (re_coll _ _ _ _ _ _ _ _ _ _ _ _ R d), (ie_custody _ _ I d), esm_coll_of. reflexivity.
    + intros d. rewrite esm_coll_of, (re_coll _ _ _ _ _ _ _ _ _ _ _ _ R d), Rp. pose proof (ie_pool _ _ I d) as P. rewrite esm_coll_of in P. lia.
    + intros d. pose proof (ie_paid _ _ I d). specialize (Hpaid d). lia.
    + exact (re_nonneg _ _ _ _ _ _ _ _ _ _ _ _ R).
    + intros d. rewrite HL. unfold set_edebt. cbn [edebt]. rewrite esm_debt_of, (re_debt _ _ _ _ _ _ _ _ _ _ _ _ R d). unfold add1. rewrite (ie_debt _ _ I d), esm_debt_of.
      unfold at1. destruct (d =? denom); lia.
  - intros ext [J G]. split; [|rewrite Rg; exact G]. rewrite Rg, HL. unfold set_edebt. intros d. destruct (J d) as [J1 J2]. split; [|exact J2].
    unfold recorded_d, debt_sum, lock_prin_d in *. cbn [vs lks edebt over]. rewrite (bk_vaults _ _ B), (bk_svaults _ _ B), (re_sup _ _ _ _ _ _ _ _ _ _ _ _ R d).
    unfold add1, at1. destruct (d =? denom); lia.
Qed.
