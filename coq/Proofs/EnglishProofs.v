(* Invariants of the English-auction model (Model/English.v), one step at a time, lifted to every
   finite history of bids and block hooks. *)
From Comdex Require Import Lib.Base Lib.DecArith Lib.DecFacts Lib.FLedger Model.English.
From Coq Require Import ZifyBool.

(* ---------------- the bid-factor arithmetic ---------------- *)
Lemma dceil_int_bounds a : 0 <= a -> 0 <= dceil_int a /\ a <= dceil_int a * P18 < a + P18.
Proof.
  intros Ha. pose proof P18_pos as HP. unfold dceil_int, dceil.
  rewrite Z.quot_div_nonneg, Z.rem_mod_nonneg by lia.
  rewrite Z.div_mul by lia.
  pose proof (Z.div_mod a P18 ltac:(lia)) as Hd. pose proof (Z.mod_pos_bound a P18 HP) as Hm.
  assert (0 <= a / P18) by (apply Z.div_pos; lia).
  destruct (Z.eqb_spec (a mod P18) 0); [nia|].
  destruct (Z.ltb_spec (a mod P18) 0); nia.
Qed.

Lemma change_eq f x c : change f x = Some c -> c = dceil_int (f * x).
Proof.
  unfold change, dmul_int_c, chk_dec. destruct (fits_dec (f * x)); [|discriminate].
  intros E. injection E as <-. reflexivity.
Qed.

Lemma change_nonneg f x c : change f x = Some c -> 0 <= f -> 0 <= x -> 0 <= c.
Proof. intros E Hf Hx. rewrite (change_eq _ _ _ E). apply dceil_int_bounds. nia. Qed.

Lemma change_pos f x c : change f x = Some c -> 0 < f -> 0 < x -> 1 <= c.
Proof.
  intros E Hf Hx. rewrite (change_eq _ _ _ E).
  destruct (dceil_int_bounds (f * x) ltac:(nia)) as [H0 [H1 _]]. pose proof P18_pos. nia.
Qed.

(* ---------------- invariants ---------------- *)
Definition paid (a : auction) : Z := match bidder a with Some _ => buy a | None => 0 end.

(* open auction, relative to the ledger l0 when it started: the module holds exactly the standing
   payment on top of what it held, the standing bidder is out of exactly that amount, every other
   account is where it started *)
Definition InvOpen (l0 : ledger) (a : auction) (l : ledger) : Prop :=
  (status a = 0 \/ status a = 1) /\
  0 <= buy a /\
  (status a = 0 <-> bidder a = None) /\
  match bidder a, bids a with
  | Some w, (w', _) :: _ => w = w' /\ 0 <= w
  | None, [] => True
  | _, _ => False
  end /\
  forall acct d, l acct d = l0 acct d
      + (if (acct =? MOD) && (d =? bid_denom a) then paid a else 0)
      - (match bidder a with
         | Some w => if (acct =? w) && (d =? bid_denom a) then buy a else 0
         | None => 0 end).

(* closed auction: the module's bid-denom balance is back where it started; over the whole auction
   the winner (= the last accepted bidder) paid the standing payment and received the lot, every
   other bidder account is exactly where it started *)
Definition InvClosed (l0 : ledger) (a : auction) (l : ledger) : Prop :=
  status a = 2 /\
  exists w amt rest, bidder a = Some w /\ bids a = (w, amt) :: rest /\ 0 <= w /\
    l MOD (bid_denom a) = l0 MOD (bid_denom a) /\
    (forall acct d, 0 <= acct -> l acct d = l0 acct d
        + (if (acct =? w) && (d =? lot_denom a) then Z.max 0 (sell a) else 0)
        - (if (acct =? w) && (d =? bid_denom a) then buy a else 0)) /\
    (* generation-2 surplus: the lot came out of the generation-1 auction module account, where the
       start put it - that account is out of exactly the lot - and the collector was left alone *)
    (var a = V2S ->
       (forall d, l AUC1 d = l0 AUC1 d - (if d =? lot_denom a then sell a else 0)) /\
       (forall d, l COLL d = l0 COLL d)).

(* generation-1 auction wound up by the emergency shutdown: NO winner; every bidder account - the
   standing bidder included - is exactly where it was when the auction started, in every denom; the
   module holds nothing of the bid denom for the auction any more; the lot of a surplus auction went
   from the module back to the collector and onto the collector's net-fee record (a debt auction has
   no lot before it is minted: nothing moves, nothing is minted) *)
Definition InvEsm (l0 : ledger) (a : auction) (l : ledger) : Prop :=
  status a = 3 /\ is_v1 (var a) = true /\
  match bidder a, bids a with
  | Some w, (w', _) :: _ => w = w' /\ 0 <= w
  | None, [] => True
  | _, _ => False
  end /\
  (forall acct d, 0 <= acct -> l acct d = l0 acct d) /\
  (forall d, l MOD d = l0 MOD d - lot_back a d) /\
  (forall d, l COLL d = l0 COLL d + lot_back a d) /\
  (forall d, l NF d = l0 NF d + lot_back a d).

Definition Inv3 (l0 : ledger) (a : auction) (l : ledger) : Prop :=
  InvOpen l0 a l \/ InvClosed l0 a l \/ InvEsm l0 a l.

Definition Inv (l0 : ledger) (s : state) : Prop :=
  bid_denom (fst s) <> lot_denom (fst s) /\ Inv3 l0 (fst s) (snd s).

Definition valid_op (o : op) : Prop :=
  match o with Bid who _ _ _ _ _ => 0 <= who | Tick _ _ => True | TickEsm _ _ => True end.

Lemma ended_false a : ended a = false <-> status a <> 2 /\ status a <> 3.
Proof. unfold ended. lia. Qed.

Lemma open_not_ended l0 a l : InvOpen l0 a l -> ended a = false.
Proof. intros ([H|H] & _); apply ended_false; lia. Qed.

Lemma inv3_not_ended l0 a l : Inv3 l0 a l -> ended a = false -> InvOpen l0 a l.
Proof.
  intros [HO|[[Hc _]|[Hc _]]] En; [exact HO| |]; apply ended_false in En; lia.
Qed.

Lemma inv_init v bd ld lot b0 now fac d bs l0 :
  bd <> ld -> 0 <= b0 -> Inv l0 (init v bd ld lot b0 now fac d bs, l0).
Proof.
  intros Hd Hb. split; [exact Hd|]. left. unfold InvOpen, paid; cbn.
  repeat split; auto; try lia. intros acct x. destruct ((acct =? MOD) && (x =? bd)); lia.
Qed.

Ltac eqb_cases :=
  repeat match goal with
         | |- context[Z.eqb ?p ?q] => destruct (Z.eqb_spec p q); subst
         | H : context[Z.eqb ?p ?q] |- _ => destruct (Z.eqb_spec p q); subst
         end; cbn [andb negb] in *.

(* what the checks guarantee about the amounts *)
Lemma bid_check_amounts a denom amt xd xa pay s' b' :
  bid_check a denom amt xd xa = Ok (pay, s', b') -> 0 <= buy a -> pay = b' /\ 0 <= b'.
Proof.
  unfold bid_check, err_u64. intros H Hb.
  destruct (var a); cbn [reverse] in H;
    repeat match type of H with
           | context[if ?c then _ else _] => destruct c eqn:?
           | context[match change ?f ?x with _ => _ end] => destruct (change f x)
           | context[match uint64_c ?x with _ => _ end] => destruct (uint64_c x)
           | context[match bidder ?x with _ => _ end] => destruct (bidder x)
           end; cbn in H; try discriminate; injection H as <- <- <-; split; lia.
Qed.

(* an accepted bid over a standing one improves by at least ceil(factor * standing) *)
Lemma bid_check_improves a denom amt xd xa r :
  bid_check a denom amt xd xa = Ok r -> (status a = 0 <-> bidder a = None) ->
  holds_C11_improves a amt = true.
Proof.
  unfold bid_check, holds_C11_improves, err_u64. intros H Hs.
  destruct (bidder a) as [p|] eqn:Hb; [|reflexivity].
  assert (Hs0 : (status a =? 0) = false).
  { destruct (Z.eqb_spec (status a) 0) as [E|]; [|reflexivity]. apply Hs in E. discriminate. }
  destruct (var a); cbn [reverse] in *; rewrite ?Hs0 in H; cbn [negb] in H;
    repeat match type of H with
           | context[match change ?f ?x with _ => _ end] => destruct (change f x)
           | context[match uint64_c ?x with _ => _ end] => destruct (uint64_c x)
           | context[if ?c then _ else _] => destruct c eqn:?
           end; cbn in H; try discriminate; lia.
Qed.

(* the three statements every bid handler ends with *)
Lemma settle_inv l0 a l who amt now pay s' b' a' l' :
  bid_denom a <> lot_denom a -> InvOpen l0 a l -> 0 <= who -> pay = b' -> 0 <= b' ->
  settle a l who amt now pay s' b' = Ok (a', l') ->
  InvOpen l0 a' l' /\ a' = set_bid a who amt now s' b' /\
  (* the same-step refund: the previous standing bidder gets the whole standing payment back *)
  (forall p, bidder a = Some p ->
     l' p (bid_denom a) = l p (bid_denom a) + buy a - (if p =? who then pay else 0)) /\
  l' who (bid_denom a) = l who (bid_denom a) - pay + (match bidder a with Some p => if p =? who then buy a else 0 | None => 0 end).
Proof.
  intros Hd (Hst & Hbuy & Hsb & Hbids & Hl) Hw -> Hb'. unfold settle, lift, refund_prev.
  destruct (send l who MOD (bid_denom a) b') as [l1| |] eqn:S1; try discriminate.
  apply send_spec in S1. destruct S1 as (_ & _ & _ & S1).
  destruct (bidder a) as [p|] eqn:Hbd.
  - destruct (send l1 MOD p (bid_denom a) (buy a)) as [l2| |] eqn:S2; try discriminate.
    apply send_spec in S2. destruct S2 as (_ & _ & _ & S2).
    intros E. injection E as <- <-.
    destruct (bids a) as [|[w' x] rest]; [contradiction|]. destruct Hbids as [<- Hp].
    split; [|split; [reflexivity|split]].
    + unfold InvOpen, paid, set_bid; cbn. repeat split; auto; try lia; try discriminate.
      intros acct d. rewrite S2, S1, Hl. unfold paid. rewrite Hbd. unfold MOD in *. eqb_cases; lia.
    + intros p0 E. injection E as <-. rewrite S2, S1. unfold MOD in *. eqb_cases; lia.
    + rewrite S2, S1. unfold MOD in *. eqb_cases; lia.
  - intros E. injection E as <- <-.
    destruct (bids a) as [|[w' x] rest]; [|contradiction].
    split; [|split; [reflexivity|split]].
    + unfold InvOpen, paid, set_bid; cbn. repeat split; auto; try lia; try discriminate.
      intros acct d. rewrite S1, Hl. unfold paid. rewrite Hbd. unfold MOD in *. eqb_cases; lia.
    + intros p0 E. discriminate.
    + rewrite S1. unfold MOD in *. eqb_cases; lia.
Qed.

Lemma bid_inv l0 a l who denom amt now xd xa a' l' :
  bid_denom a <> lot_denom a -> Inv3 l0 a l -> 0 <= who ->
  bid a l who denom amt now xd xa = Ok (a', l') ->
  InvOpen l0 a l /\ InvOpen l0 a' l' /\ bid_denom a' = bid_denom a /\ lot_denom a' = lot_denom a.
Proof.
  intros Hd HI Hw. unfold bid.
  destruct (ended a) eqn:En; [discriminate|].
  pose proof (inv3_not_ended l0 a l HI En) as HO.
  destruct (bid_check a denom amt xd xa) as [[[pay s'] b']| |] eqn:C; try discriminate.
  intros S. destruct HO as (Hst & Hbuy & Hrest).
  destruct (bid_check_amounts _ _ _ _ _ _ _ _ C Hbuy) as [Hp Hb'].
  destruct (settle_inv l0 a l who amt now pay s' b' a' l' Hd (conj Hst (conj Hbuy Hrest)) Hw Hp Hb' S) as (HO' & -> & _).
  split; [exact (conj Hst (conj Hbuy Hrest))|]. split; [exact HO'|]. split; reflexivity.
Qed.

(* the close *)
Lemma close_inv l0 a l w tm a' l' :
  bid_denom a <> lot_denom a -> InvOpen l0 a l -> bidder a = Some w ->
  close a l w tm = Ok (a', l') ->
  InvClosed l0 a' l' /\ bid_denom a' = bid_denom a /\ lot_denom a' = lot_denom a.
Proof.
  intros Hd (Hst & Hbuy & Hsb & Hbids & Hl) Hbd. rewrite Hbd in Hbids.
  destruct (bids a) as [|[w' x] rest] eqn:Hbs; [contradiction|]. destruct Hbids as [<- Hw].
  unfold paid in Hl. rewrite Hbd in Hl.
  unfold close, lift.
  destruct (var a) eqn:Hv;
    repeat match goal with
           | |- context[if negb tm then _ else _] => destruct tm; cbn [negb]; [|discriminate]
           | |- context[match send ?l ?f ?t ?d ?x with _ => _ end] =>
               let S := fresh "S" in destruct (send l f t d x) eqn:S; try discriminate;
               apply send_spec in S; destruct S as (? & _ & _ & S)
           | |- context[match burn_from ?l ?f ?d ?x with _ => _ end] =>
               let S := fresh "S" in destruct (burn_from l f d x) eqn:S; try discriminate;
               apply burn_spec in S; destruct S as (? & S)
           end;
    intros E; injection E as <- <-;
    (split; [|split; reflexivity]);
    (split; [reflexivity|]); exists w, x, rest; cbn [set_closed bidder bids bid_denom lot_denom sell buy var];
    (split; [exact Hbd|]); (split; [exact Hbs|]); (split; [exact Hw|]);
    rewrite Hv; (split; [|split; [|try discriminate]]).
  - (* V1S *) rewrite S1, S0, S, Hl. unfold MOD, TM in *. eqb_cases; lia.
  - intros acct d Ha. rewrite S1, S0, S, Hl. unfold MOD, TM in *. eqb_cases; lia.
  - (* V1D *) rewrite mint_spec, S. destruct (Z.gtb_spec (sell a) 0); rewrite ?mint_spec, Hl; unfold MOD, COLL, NF in *; eqb_cases; lia.
  - intros acct d Ha. rewrite mint_spec, S. destruct (Z.gtb_spec (sell a) 0); rewrite ?mint_spec, Hl; unfold MOD, COLL, NF in *; eqb_cases; lia.
  - (* V2S *) rewrite S2, S1, S0, S, Hl. unfold MOD, TM, AUC1 in *. eqb_cases; lia.
  - intros acct d Ha. rewrite S2, S1, S0, S, Hl. unfold MOD, TM, AUC1 in *. eqb_cases; lia.
  - (* V2S: the lot source is out of exactly the lot, the collector is untouched *)
    intros _. split; intros d; rewrite S2, S1, S0, S, Hl; unfold MOD, TM, AUC1, COLL in *; eqb_cases; lia.
  - (* V2X *) rewrite S0, S, Hl. unfold MOD, EXT in *. eqb_cases; lia.
  - intros acct d Ha. rewrite S0, S, Hl. unfold MOD, EXT in *. eqb_cases; lia.
  - (* V2D *) rewrite S. destruct (Z.gtb_spec (sell a) 0); rewrite ?mint_spec, Hl; unfold MOD, COLL in *; eqb_cases; lia.
  - intros acct d Ha. rewrite S. destruct (Z.gtb_spec (sell a) 0); rewrite ?mint_spec, Hl; unfold MOD, COLL in *; eqb_cases; lia.
Qed.

Lemma restart_inv l0 a l now :
  InvOpen l0 a l -> bidder a = None -> InvOpen l0 (restart a now) l.
Proof.
  intros (Hst & Hbuy & Hsb & Hbids & Hl) Hbd. unfold paid in Hl. rewrite Hbd in *.
  unfold restart, set_times, InvOpen, paid.
  destruct (var a); cbn; rewrite Hbd; repeat split; auto; try lia; try apply Hsb; auto.
Qed.

Lemma tick_inv l0 a l now tm a' l' :
  bid_denom a <> lot_denom a -> Inv3 l0 a l ->
  tick a l now tm = Ok (a', l') ->
  Inv3 l0 a' l' /\ bid_denom a' = bid_denom a /\ lot_denom a' = lot_denom a.
Proof.
  intros Hd HI. unfold tick.
  destruct (ended a) eqn:En.
  { intros E. injection E as <- <-. auto. }
  pose proof (inv3_not_ended l0 a l HI En) as HO. unfold Inv3.
  match goal with |- context[if negb ?c then _ else _] => destruct c end; cbn [negb].
  2:{ intros E. injection E as <- <-. auto. }
  destruct (bidder a) as [w|] eqn:Hbd.
  - intros C. destruct (close_inv l0 a l w tm a' l' Hd HO Hbd C) as (HC & E1 & E2). auto.
  - intros E. injection E as <- <-. split; [left; apply restart_inv; assumption|].
    unfold restart, set_times. destruct (var a); split; reflexivity.
Qed.

(* the block hook under the emergency shutdown: a generation-1 auction is wound up at once, whatever
   the time, with or without a standing bid; the standing bidder is refunded in full *)
Lemma tick_esm_inv l0 a l now tm a' l' :
  bid_denom a <> lot_denom a -> Inv3 l0 a l ->
  tick_esm a l now tm = Ok (a', l') ->
  Inv3 l0 a' l' /\ bid_denom a' = bid_denom a /\ lot_denom a' = lot_denom a.
Proof.
  intros Hd HI. unfold tick_esm.
  destruct (ended a) eqn:En.
  { intros E. injection E as <- <-. auto. }
  pose proof (inv3_not_ended l0 a l HI En) as HO.
  destruct (var a) eqn:Hv;
    try (intros T; exact (tick_inv l0 a l now tm a' l' Hd HI T)).
  - (* V1S *)
    destruct HO as (Hst & Hbuy & Hsb & Hbids & Hl). unfold paid in Hl. unfold lift.
    destruct (bidder a) as [w|] eqn:Hbd.
    + destruct (send l MOD w (bid_denom a) (buy a)) as [l1| |] eqn:S1; try discriminate.
      apply send_spec in S1. destruct S1 as (_ & _ & _ & S1).
      destruct (send l1 MOD COLL (lot_denom a) (sell a)) as [l2| |] eqn:S2; try discriminate.
      apply send_spec in S2. destruct S2 as (_ & _ & _ & S2).
      intros E. injection E as <- <-. split; [|split; reflexivity]. right; right.
      destruct (bids a) as [|[w' x] rest] eqn:Hbs; [contradiction|]. destruct Hbids as [<- Hw].
      unfold InvEsm, lot_back; cbn [set_esm_closed status var bidder bids lot_denom sell]. rewrite Hv, Hbd, Hbs.
      split; [reflexivity|]. split; [reflexivity|]. split; [auto|].
      split; [|split; [|split]]; intros; rewrite mint_spec, S2, S1, Hl; unfold MOD, COLL, NF in *; eqb_cases; lia.
    + destruct (send l MOD COLL (lot_denom a) (sell a)) as [l1| |] eqn:S1; try discriminate.
      apply send_spec in S1. destruct S1 as (_ & _ & _ & S1).
      intros E. injection E as <- <-. split; [|split; reflexivity]. right; right.
      destruct (bids a) as [|[w' x] rest] eqn:Hbs; [|contradiction].
      unfold InvEsm, lot_back; cbn [set_esm_closed status var bidder bids lot_denom sell]. rewrite Hv, Hbd, Hbs.
      split; [reflexivity|]. split; [reflexivity|]. split; [auto|].
      split; [|split; [|split]]; intros; rewrite mint_spec, S1, Hl; unfold MOD, COLL, NF in *; eqb_cases; lia.
  - (* V1D *)
    destruct HO as (Hst & Hbuy & Hsb & Hbids & Hl). unfold paid in Hl. unfold lift.
    destruct (bids a) as [|[w' x] rest] eqn:Hbs.
    + destruct (bidder a) as [w|] eqn:Hbd; [contradiction|].
      intros E. injection E as <- <-. split; [|split; reflexivity]. right; right.
      unfold InvEsm, lot_back; cbn [set_esm_closed status var bidder bids lot_denom sell]. rewrite Hv, Hbd, Hbs.
      split; [reflexivity|]. split; [reflexivity|]. split; [auto|].
      split; [|split; [|split]]; intros; rewrite Hl; unfold MOD, COLL, NF in *; eqb_cases; lia.
    + destruct (bidder a) as [w|] eqn:Hbd; [|contradiction]. destruct Hbids as [<- Hw].
      destruct (send l MOD w (bid_denom a) (buy a)) as [l1| |] eqn:S1; try discriminate.
      apply send_spec in S1. destruct S1 as (_ & _ & _ & S1).
      intros E. injection E as <- <-. split; [|split; reflexivity]. right; right.
      unfold InvEsm, lot_back; cbn [set_esm_closed status var bidder bids lot_denom sell]. rewrite Hv, Hbd, Hbs.
      split; [reflexivity|]. split; [reflexivity|]. split; [auto|].
      split; [|split; [|split]]; intros; rewrite S1, Hl; unfold MOD, COLL, NF in *; eqb_cases; lia.
Qed.

Lemma step_inv l0 s o s' : Inv l0 s -> valid_op o -> step s o = Ok s' -> Inv l0 s'.
Proof.
  destruct s as [a l], s' as [a' l']. intros [Hd HI] Hv. cbn [fst snd] in *. destruct o as [who denom amt now xd xa|now tm|now tm]; cbn [step fst snd].
  - intros B. destruct (bid_inv l0 a l who denom amt now xd xa a' l' Hd HI Hv B) as (_ & HO & E1 & E2).
    split; cbn [fst snd]; [rewrite E1, E2; exact Hd|left; exact HO].
  - intros T. destruct (tick_inv l0 a l now tm a' l' Hd HI T) as (HI' & E1 & E2).
    split; cbn [fst snd]; [rewrite E1, E2; exact Hd|exact HI'].
  - intros T. destruct (tick_esm_inv l0 a l now tm a' l' Hd HI T) as (HI' & E1 & E2).
    split; cbn [fst snd]; [rewrite E1, E2; exact Hd|exact HI'].
Qed.

Lemma apply_inv l0 s o : Inv l0 s -> valid_op o -> Inv l0 (apply_op s o).
Proof.
  intros HI Hv. unfold apply_op. destruct (step s o) as [s'| |] eqn:E; try exact HI.
  exact (step_inv l0 s o s' HI Hv E).
Qed.

Theorem run_inv l0 ops : forall s, Inv l0 s -> Forall valid_op ops -> Inv l0 (run s ops).
Proof.
  induction ops as [|o r IH]; intros s HI Hv; [exact HI|].
  inversion Hv; subst. cbn [run fold_left]. apply IH; [apply apply_inv; assumption|assumption].
Qed.

(* ---------------- consequences ---------------- *)
Lemma inv_custody l0 s : Inv l0 s ->
  snd s MOD (bid_denom (fst s)) - l0 MOD (bid_denom (fst s)) = held (fst s).
Proof.
  destruct s as [a l]. intros [Hd [(Hst & Hbuy & Hsb & Hbids & Hl)|[(Hc & w & x & rest & Hb & _ & Hw & Hm & _ & _)|(Hc & Hv1 & _ & _ & Hm & _)]]]; cbn [fst snd] in *.
  - unfold held. rewrite (open_not_ended l0 a l (conj Hst (conj Hbuy (conj Hsb (conj Hbids Hl))))).
    rewrite Hl. unfold paid. unfold MOD. destruct (bidder a) as [w|]; [|eqb_cases; lia].
    destruct (bids a) as [|[w' ?] ?]; [contradiction|]. destruct Hbids as [<- Hw]. eqb_cases; lia.
  - unfold held, ended. rewrite Hc. cbn. lia.
  - unfold held, ended. rewrite Hc. cbn. rewrite Hm. unfold lot_back.
    destruct (var a); try lia. destruct (Z.eqb_spec (bid_denom a) (lot_denom a)); [contradiction|lia].
Qed.

Lemma inv_holds_custody l0 s : Inv l0 s ->
  holds_C11_custody (fst s) (l0 MOD (bid_denom (fst s))) (snd s MOD (bid_denom (fst s))) = true.
Proof. intros H. unfold holds_C11_custody. rewrite (inv_custody l0 s H). apply Z.eqb_refl. Qed.

(* the executable lot-source predicate follows from the invariant: the generation-1 auction module
   account and the collector are untouched while the auction is open; the close takes the lot from
   the former, once, and leaves the latter alone *)
Lemma inv_holds_source l0 s : Inv l0 s ->
  holds_C11_source (fst s) (l0 AUC1 (lot_denom (fst s))) (l0 COLL (lot_denom (fst s)))
                   (snd s AUC1 (lot_denom (fst s))) (snd s COLL (lot_denom (fst s))) = true.
Proof.
  destruct s as [a l]. intros [Hd [(Hst & Hbuy & Hsb & Hbids & Hl)|[(Hc & w & x & rest & Hb & _ & Hw & Hm & _ & Hsrc)|(Hc & Hv1 & _)]]]; cbn [fst snd] in *;
    unfold holds_C11_source; destruct (var a) eqn:Hv; try reflexivity; try discriminate.
  - destruct (Z.eqb_spec (status a) 2); [lia|]. rewrite !Hl. unfold paid, MOD, AUC1, COLL.
    destruct (bidder a) as [w|]; [|eqb_cases; lia].
    destruct (bids a) as [|[w' ?] ?]; [contradiction|]. destruct Hbids as [<- Hw]. eqb_cases; lia.
  - rewrite Hc. cbn. destruct (Hsrc eq_refl) as [HA HC]. rewrite HA, HC, Z.eqb_refl. lia.
Qed.

(* an accepted bid: it improves on the standing one, and the outbid bidder is made whole in the
   same step *)
Lemma bid_facts l0 a l who denom amt now xd xa a' l' :
  bid_denom a <> lot_denom a -> Inv3 l0 a l -> 0 <= who ->
  bid a l who denom amt now xd xa = Ok (a', l') ->
  holds_C11_improves a amt = true /\
  (forall p, bidder a = Some p -> p <> who ->
     l' p (bid_denom a) = l p (bid_denom a) + buy a /\ l' p (bid_denom a) = l0 p (bid_denom a)) /\
  bids a' = (who, amt) :: bids a /\ bidder a' = Some who.
Proof.
  intros Hd HI Hw. unfold bid.
  destruct (ended a) eqn:En; [discriminate|].
  pose proof (inv3_not_ended l0 a l HI En) as HO.
  destruct (bid_check a denom amt xd xa) as [[[pay s'] b']| |] eqn:C; try discriminate.
  intros S. pose proof HO as (Hst & Hbuy & Hsb & Hbids & Hl).
  destruct (bid_check_amounts _ _ _ _ _ _ _ _ C Hbuy) as [Hp Hb'].
  destruct (settle_inv l0 a l who amt now pay s' b' a' l' Hd HO Hw Hp Hb' S) as (HO' & -> & Href & _).
  split; [exact (bid_check_improves _ _ _ _ _ _ C Hsb)|]. split; [|split; reflexivity].
  intros p Hb Hne. specialize (Href p Hb). destruct (Z.eqb_spec p who); [contradiction|].
  split; [lia|]. rewrite Href, Hl. unfold paid. rewrite Hb in *.
  destruct (bids a) as [|[w' ?] ?]; [contradiction|]. destruct Hbids as [<- Hp0].
  unfold MOD. eqb_cases; lia.
Qed.

Lemma improves_spelled a amt p : holds_C11_improves a amt = true -> bidder a = Some p ->
  exists c, change (factor a) (if reverse (var a) then sell a else buy a) = Some c /\
            (if reverse (var a) then amt <= sell a - c else buy a + c <= amt).
Proof.
  unfold holds_C11_improves. intros H Hb. rewrite Hb in H.
  destruct (change (factor a) (if reverse (var a) then sell a else buy a)) as [c|]; [|discriminate].
  exists c. split; [reflexivity|]. destruct (reverse (var a)); lia.
Qed.

(* ---------------- the emergency-shutdown end ---------------- *)
Lemma inv_esm_end l0 s : Inv l0 s -> status (fst s) = 3 -> InvEsm l0 (fst s) (snd s).
Proof.
  intros [_ [([H|H] & _)|[(H & _)|HE]]] Hs; try lia. exact HE.
Qed.

(* the executable predicates that judge the implementation's observations after an emergency-shutdown
   close follow from the invariant *)
Lemma inv_holds_esm l0 s : Inv l0 s -> status (fst s) = 3 -> forall acct, 0 <= acct ->
  holds_C11_esm (fst s) acct (l0 acct (bid_denom (fst s))) (l0 acct (lot_denom (fst s)))
                (snd s acct (bid_denom (fst s))) (snd s acct (lot_denom (fst s))) = true.
Proof.
  intros HI Hs acct Ha. destruct (inv_esm_end l0 s HI Hs) as (_ & _ & _ & Hl & _).
  unfold holds_C11_esm. rewrite !Hl, Hs by assumption. lia.
Qed.

Lemma inv_holds_esm_lot l0 s : Inv l0 s -> status (fst s) = 3 ->
  holds_C11_esm_lot (fst s) (l0 MOD (lot_denom (fst s))) (l0 COLL (lot_denom (fst s))) (l0 NF (lot_denom (fst s)))
                    (snd s MOD (lot_denom (fst s))) (snd s COLL (lot_denom (fst s))) (snd s NF (lot_denom (fst s))) = true.
Proof.
  intros HI Hs. destruct (inv_esm_end l0 s HI Hs) as (_ & _ & _ & _ & HM & HC & HN).
  unfold holds_C11_esm_lot. rewrite HM, HC, HN, Hs. lia.
Qed.

(* the hook under the emergency shutdown on an open generation-1 auction: the auction is wound up
   (status 3) and the standing bidder has its whole standing payment back in the same step *)
Lemma tick_esm_facts l0 a l now tm a' l' :
  bid_denom a <> lot_denom a -> Inv3 l0 a l -> ended a = false -> is_v1 (var a) = true ->
  tick_esm a l now tm = Ok (a', l') ->
  status a' = 3 /\ bids a' = bids a /\ bidder a' = bidder a /\
  forall p, bidder a = Some p ->
    0 <= p /\ l' p (bid_denom a) = l p (bid_denom a) + buy a /\ l' p (bid_denom a) = l0 p (bid_denom a).
Proof.
  intros Hd HI En Hv1 T.
  pose proof (inv3_not_ended l0 a l HI En) as HO.
  destruct (tick_esm_inv l0 a l now tm a' l' Hd HI T) as (HI' & _ & _).
  assert (Hs : status a' = 3 /\ bids a' = bids a /\ bidder a' = bidder a).
  { revert T; revert Hv1. unfold tick_esm, lift. rewrite En.
    destruct (var a); cbn [is_v1]; intros Hv1; try discriminate Hv1;
      repeat match goal with
             | |- context[match bidder a with _ => _ end] => destruct (bidder a) eqn:?
             | |- context[match bids a with _ => _ end] => destruct (bids a) eqn:?
             | |- context[match send ?l ?f ?t ?d ?x with _ => _ end] => destruct (send l f t d x)
             end; try discriminate; intros E; injection E as <- <-; repeat split; cbn; congruence. }
  destruct Hs as (Hs & Hbs & Hbd). repeat (split; [assumption|]).
  intros p Hp. destruct HI' as [([H|H] & _)|[(H & _)|(_ & _ & _ & Hl' & _)]]; try lia.
  destruct HO as (_ & _ & _ & Hbids & Hl). rewrite Hp in Hbids.
  destruct (bids a) as [|[w' x] rest]; [contradiction|]. destruct Hbids as [<- Hw].
  split; [exact Hw|]. rewrite (Hl' p _ Hw), (Hl p). unfold paid. rewrite Hp. unfold MOD. eqb_cases; lia.
Qed.

(* the hook under the emergency shutdown cannot fail on an open generation-1 auction whose module
   account was not overdrawn when the auction started and (surplus) still holds the lot: the custody
   invariant covers the refund *)
Lemma send_ok l from to d x : 0 <= x <= l from d -> exists l', send l from to d x = LOk l'.
Proof.
  intros H. unfold send. destruct (Z.ltb_spec x 0); [lia|].
  destruct (Z.eqb_spec x 0); [eauto|]. destruct (Z.ltb_spec (l from d) x); [lia|eauto].
Qed.

Lemma tick_esm_progress l0 a l now tm :
  bid_denom a <> lot_denom a -> InvOpen l0 a l -> is_v1 (var a) = true ->
  0 <= l0 MOD (bid_denom a) -> (var a = V1S -> 0 <= sell a <= l0 MOD (lot_denom a)) ->
  exists s', tick_esm a l now tm = Ok s'.
Proof.
  intros Hd HO Hv1 Hm Hlot. pose proof (open_not_ended l0 a l HO) as En.
  destruct HO as (Hst & Hbuy & Hsb & Hbids & Hl). unfold paid in Hl.
  unfold tick_esm, lift. rewrite En.
  destruct (var a) eqn:Hv; try discriminate Hv1.
  - specialize (Hlot eq_refl).
    destruct (bidder a) as [w|] eqn:Hbd.
    + destruct (bids a) as [|[w' x] rest]; [contradiction|]. destruct Hbids as [<- Hw].
      destruct (send_ok l MOD w (bid_denom a) (buy a)) as [l1 S1].
      { rewrite Hl, ?Hbd. unfold MOD in *. eqb_cases; lia. }
      rewrite S1. apply send_spec in S1. destruct S1 as (_ & _ & _ & S1).
      destruct (send_ok l1 MOD COLL (lot_denom a) (sell a)) as [l2 S2].
      { rewrite S1, Hl, ?Hbd. unfold MOD in *. eqb_cases; lia. }
      rewrite S2. eauto.
    + destruct (send_ok l MOD COLL (lot_denom a) (sell a)) as [l1 S1].
      { rewrite Hl, ?Hbd. unfold MOD in *. eqb_cases; lia. }
      rewrite S1. eauto.
  - destruct (bids a) as [|[w' x] rest]; [eauto|].
    destruct (bidder a) as [w|] eqn:Hbd; [|contradiction]. destruct Hbids as [<- Hw].
    destruct (send_ok l MOD w (bid_denom a) (buy a)) as [l1 S1].
    { rewrite Hl, ?Hbd. unfold MOD in *. eqb_cases; lia. }
    rewrite S1. eauto.
Qed.
