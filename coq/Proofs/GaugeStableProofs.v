(* C19, stable-mint external reward programs (Model/Gauge.v, last part): one entry never gets more than
   what the program has left, a program never books more than it has, custody over every history that
   includes stable-mint programs; CombinePSMUserPositions keeps every user's total. *)
From Comdex Require Import Lib.Base Lib.DecArith Lib.DecFacts Lib.DecFacts2 Lib.F64 Model.Gauge Proofs.GaugeProofs.
From Coq Require Import ZifyBool.

Definition SXInv (x : sext) : Prop := 0 <= sx_avail x.

Lemma int64_c_some v w : int64_c v = Some w -> w = v.
Proof. unfold int64_c. destruct (_ && _); congruence. Qed.

(* the capped eligible amount lies between 0 and the total minted *)
Lemma stable_elig_bounds total r : 0 <= total -> 0 <= sr_amount r -> 0 <= sr_hold r -> 0 <= stable_elig total r <= total.
Proof. unfold stable_elig. intros. destruct (sr_amount r <=? sr_hold r) eqn:E1; destruct (total <? _) eqn:E2; lia. Qed.

(* one entry (fix C19-F5): with the eligible amount at most the total minted the share is at most one,
   so the payout is at most the epoch rewards, which are at most what is available *)
Lemma stable_final_bound avail dleft total elig f :
  stable_final avail dleft total elig = Ok f -> 0 <= elig <= total -> 0 <= avail -> 1 <= dleft -> 0 <= f <= avail.
Proof.
  unfold stable_final. intros E He Ha Hd.
  destruct (int64_c elig) as [e|] eqn:E1; [|discriminate]. destruct (int64_c avail) as [a|] eqn:E2; [|discriminate].
  apply int64_c_some in E1. apply int64_c_some in E2. subst e a.
  destruct (Z.eqb_spec total 0); [discriminate|]. injection E as <-.
  assert (HT : 0 < total) by lia. dec_consts.
  set (share := dquo (dec_of_int elig) (dec_of_int total)).
  set (er := dquo (dec_of_int avail) (dec_of_int dleft)).
  assert (S0 : 0 <= share) by (unfold share; apply dquo_nonneg; unfold dec_of_int; nia).
  assert (S1 : share <= P18).
  { unfold share. rewrite <- (dquo_self_int total HT). apply dquo_mono_l; unfold dec_of_int; nia. }
  pose proof (dquo_ints_bounds avail dleft Ha ltac:(lia)) as [R0 R1]. cbv zeta in R0, R1. fold er in R0, R1.
  assert (M0 : 0 <= dmul share er) by (apply dmul_nonneg; assumption).
  assert (M1 : dmul share er <= er).
  { rewrite <- (dmul_one er) at 2. rewrite (dmul_comm er P18). apply dmul_mono_l; assumption. }
  pose proof (dtrunc_int_bounds (dmul share er) M0) as (T0 & T1 & _).
  split; [assumption|].
  (* er * dleft <= avail * P18 + dleft and dleft >= 1 give er <= avail * P18 + 1 *)
  assert (E1 : er <= avail * P18 + 1).
  { destruct (Z.le_gt_cases er (avail * P18 + 1)) as [|Hgt]; [assumption|exfalso].
    assert ((avail * P18 + 2) * dleft <= er * dleft) by (apply Z.mul_le_mono_nonneg_r; lia).
    assert (avail * P18 * 1 <= avail * P18 * dleft) by (apply Z.mul_le_mono_nonneg_l; nia). lia. }
  set (q := dtrunc_int (dmul share er)) in *.
  destruct (Z.le_gt_cases q avail) as [|Hgt]; [assumption|exfalso].
  assert ((avail + 1) * P18 <= q * P18) by (apply Z.mul_le_mono_nonneg_r; lia). lia.
Qed.

Definition recs_wf (recs : list srec) : Prop := Forall (fun r => 0 <= sr_amount r /\ 0 <= sr_hold r) recs.

(* the loop: what the users receive is exactly what is booked, and the program never goes below zero *)
Lemma stable_loop_spec x h total : forall recs bal avail active b a act ps,
  stable_loop x h total recs bal avail active = Ok (b, a, act, ps) ->
  0 <= total -> recs_wf recs -> 0 <= avail ->
  0 <= a <= avail /\ pay_total ps = avail - a /\ b = bal - pay_total ps /\ (0 <= bal -> 0 <= b) /\ nonneg_pays ps.
Proof.
  unfold pay_total, nonneg_pays. induction recs as [|r rest IH]; intros bal avail active b a act ps E Ht Hw Ha; cbn [stable_loop] in E.
  - injection E as <- <- <- <-. cbn. repeat split; try lia. constructor.
  - inversion Hw as [|? ? (Hr1 & Hr2) Hrest]; subst.
    destruct (negb active); [exact (IH _ _ _ _ _ _ _ E Ht Hrest Ha)|].
    destruct (Z.ltb_spec (sx_count x) (sx_days x)); [|exact (IH _ _ _ _ _ _ _ E Ht Hrest Ha)].
    destruct (negb (sx_count x =? sx_days x - 1) && (h - sr_height r <? sx_accept x)); [exact (IH _ _ _ _ _ _ _ E Ht Hrest Ha)|].
    destruct (stable_final avail (sx_days x - sx_count x) total (stable_elig total r)) as [f| |] eqn:Ef; try discriminate.
    pose proof (stable_final_bound _ _ _ _ _ Ef (stable_elig_bounds total r Ht Hr1 Hr2) Ha ltac:(lia)) as (F0 & F1).
    destruct ((0 <? f) && (f <=? bal)) eqn:G; [|exact (IH _ _ _ _ _ _ _ E Ht Hrest Ha)].
    destruct (stable_loop x h total rest (bal - f) (avail - f) active) as [[[[b1 a1] act1] ps1]| |] eqn:Er; try discriminate.
    injection E as <- <- <- <-. destruct (IH _ _ _ _ _ _ _ Er Ht Hrest ltac:(lia)) as (I1 & I2 & I3 & I4 & I5).
    cbn [map snd zsum]. repeat split; try lia. constructor; [cbn; lia|assumption].
Qed.

(* CombinePSMUserPositions keeps the entries well-formed *)
Lemma zsum_nonneg l : Forall (fun v => 0 <= v) l -> 0 <= zsum l.
Proof. induction 1; cbn [zsum]; lia. Qed.

Lemma combine_loop_wf h accept : forall snapshot store, recs_wf snapshot -> recs_wf store -> recs_wf (combine_loop h accept snapshot store).
Proof.
  unfold recs_wf. induction snapshot as [|r rest IH]; intros store Hs Hst; cbn [combine_loop]; [assumption|].
  inversion Hs as [|? ? (Hr1 & Hr2) Hrest]; subst.
  destruct ((accept <? h - sr_height r) && existsb (srec_key_eq r) store); [|apply IH; assumption].
  apply IH; [assumption|].
  assert (Hex : 0 <= zsum (map sr_amount (filter (mergeable h accept r) store))).
  { apply zsum_nonneg. apply Forall_forall. intros v Hv. apply in_map_iff in Hv. destruct Hv as (i & <- & Hi).
    apply filter_In in Hi. rewrite Forall_forall in Hst. exact (proj1 (Hst i (proj1 Hi))). }
  apply Forall_forall. intros i Hi. apply in_map_iff in Hi. destruct Hi as (j & <- & Hj). apply filter_In in Hj.
  rewrite Forall_forall in Hst. destruct (Hst j (proj1 Hj)) as (J1 & J2).
  destruct (srec_key_eq r j); cbn [sr_amount sr_hold]; split; lia.
Qed.

Lemma combined_for_wf h app : forall all recs, recs_wf recs -> recs_wf (combined_for h all app recs).
Proof.
  unfold combined_for. induction all as [|x rest IH]; intros recs Hw; cbn [fold_left]; [assumption|].
  apply IH. destruct (sx_app x =? app); [|assumption]. unfold combine_psm. apply combine_loop_wf; assumption.
Qed.

(* CombinePSMUserPositions moves amounts between the entries of one user and loses nothing: the sum of all
   entries is unchanged (entries are keyed by (user, height): no two entries share a key) *)
Definition skey (r : srec) : Z * Z := (sr_acct r, sr_height r).
Lemma srec_key_eq_spec a b : srec_key_eq a b = true <-> skey a = skey b.
Proof.
  unfold srec_key_eq, skey. split.
  - intros H. apply andb_true_iff in H. destruct H as (->%Z.eqb_eq & ->%Z.eqb_eq). reflexivity.
  - intros H. injection H as -> ->. rewrite !Z.eqb_refl. reflexivity.
Qed.
Definition rsum (l : list srec) : Z := zsum (map sr_amount l).

Lemma mergeable_not_self h accept r i : mergeable h accept r i = true -> srec_key_eq r i = false.
Proof.
  unfold mergeable, srec_key_eq. intros H. apply andb_true_iff in H. destruct H as (H & Hn). apply negb_true_iff in Hn.
  rewrite (Z.eqb_sym (sr_height r)), Hn. apply andb_false_r.
Qed.

Lemma rsum_split (P : srec -> bool) l : rsum l = rsum (filter P l) + rsum (filter (fun i => negb (P i)) l).
Proof. unfold rsum. induction l as [|x l IH]; cbn [filter map zsum]; [lia|]. destruct (P x); cbn [negb map zsum]; lia. Qed.

Lemma map_key_id r extra l : ~ In (skey r) (map skey l) ->
  map (fun i => if srec_key_eq r i then mkSRec (sr_acct r) (sr_height r) (sr_amount r + extra) (sr_hold i) else i) l = l.
Proof.
  induction l as [|y l IH]; intros Hni; [reflexivity|]. cbn [map]. destruct (srec_key_eq r y) eqn:Ey.
  - exfalso. apply srec_key_eq_spec in Ey. apply Hni. left. congruence.
  - f_equal. apply IH. intros Hc. apply Hni. right. exact Hc.
Qed.

(* replacing the one entry with key k adds [extra] when it is there *)
Lemma rsum_bump r extra : forall l, NoDup (map skey l) -> In (skey r) (map skey l) ->
  (forall i, In i l -> skey i = skey r -> sr_amount i = sr_amount r) ->
  rsum (map (fun i => if srec_key_eq r i then mkSRec (sr_acct r) (sr_height r) (sr_amount r + extra) (sr_hold i) else i) l) = rsum l + extra.
Proof.
  unfold rsum. induction l as [|x l IH]; intros Hnd Hin Hsame; [destruct Hin|].
  cbn [map zsum]. inversion Hnd as [|? ? Hni Hnd']; subst.
  destruct (srec_key_eq r x) eqn:E.
  - apply srec_key_eq_spec in E. cbn [sr_amount].
    assert (Hni' : ~ In (skey r) (map skey l)) by (rewrite E; exact Hni).
    assert (Hrest := map_key_id r extra l Hni').
    rewrite Hrest. rewrite (Hsame x (or_introl eq_refl) (eq_sym E)). lia.
  - destruct Hin as [Hx|Hin].
    + exfalso. assert (srec_key_eq r x = true) by (apply srec_key_eq_spec; congruence). congruence.
    + rewrite IH; [lia|assumption|assumption|]. intros i Hi. apply Hsame. right. exact Hi.
Qed.

Lemma skey_filter_nodup (P : srec -> bool) l : NoDup (map skey l) -> NoDup (map skey (filter P l)).
Proof.
  induction l as [|x l IH]; intros H; cbn [filter map]; [constructor|]. inversion H as [|? ? Hni Hnd]; subst.
  destruct (P x); cbn [map]; [constructor|]; auto.
  intros Hc. apply Hni. apply in_map_iff in Hc. destruct Hc as (y & Hy & Hin). apply filter_In in Hin. apply in_map_iff. exists y. tauto.
Qed.

Lemma skey_map_same r extra l :
  map skey (map (fun i => if srec_key_eq r i then mkSRec (sr_acct r) (sr_height r) (sr_amount r + extra) (sr_hold i) else i) l) = map skey l.
Proof.
  induction l as [|x l IH]; [reflexivity|]. cbn [map]. rewrite IH. f_equal.
  destruct (srec_key_eq r x) eqn:E; [|reflexivity]. apply srec_key_eq_spec in E. unfold skey in *. cbn. congruence.
Qed.

(* the snapshot entries that are still stored carry the stored amount: true at the start (snapshot = store)
   and kept by every step for the entries not yet visited *)
Definition agree (snapshot store : list srec) : Prop :=
  forall r i, In r snapshot -> In i store -> skey i = skey r -> sr_amount i = sr_amount r.

Lemma combine_loop_sum h accept : forall snapshot store,
  NoDup (map skey store) -> NoDup (map skey snapshot) -> agree snapshot store ->
  rsum (combine_loop h accept snapshot store) = rsum store /\ NoDup (map skey (combine_loop h accept snapshot store)).
Proof.
  induction snapshot as [|r rest IH]; intros store Hnd Hns Hag; cbn [combine_loop]; [split; [reflexivity|assumption]|].
  inversion Hns as [|? ? Hnr Hns']; subst.
  assert (Hag' : agree rest store) by (intros r' i Hr' Hi Hk; apply (Hag r' i); [right; exact Hr'|exact Hi|exact Hk]).
  destruct ((accept <? h - sr_height r) && existsb (srec_key_eq r) store) eqn:G; [|apply IH; assumption].
  apply andb_true_iff in G. destruct G as (_ & Gex). apply existsb_exists in Gex. destruct Gex as (i0 & Hi0 & Hk0).
  apply srec_key_eq_spec in Hk0.
  set (extra := rsum (filter (mergeable h accept r) store)).
  set (kept := filter (fun i => negb (mergeable h accept r i)) store).
  set (store2 := map (fun i => if srec_key_eq r i then mkSRec (sr_acct r) (sr_height r) (sr_amount r + extra) (sr_hold i) else i) kept).
  assert (Hndk : NoDup (map skey kept)) by (apply skey_filter_nodup; assumption).
  assert (Hin : In (skey r) (map skey kept)).
  { apply in_map_iff. exists i0. split; [congruence|]. apply filter_In. split; [assumption|].
    apply negb_true_iff. destruct (mergeable h accept r i0) eqn:M; [|reflexivity].
    apply mergeable_not_self in M. assert (srec_key_eq r i0 = true) by (apply srec_key_eq_spec; congruence). congruence. }
  assert (Hsame : forall i, In i kept -> skey i = skey r -> sr_amount i = sr_amount r).
  { intros i Hi Hk. apply filter_In in Hi. apply (Hag r i); [left; reflexivity|tauto|assumption]. }
  assert (Hsum2 : rsum store2 = rsum store).
  { unfold store2. rewrite (rsum_bump r extra kept Hndk Hin Hsame). unfold extra, kept. rewrite (rsum_split (mergeable h accept r) store). lia. }
  assert (Hnd2 : NoDup (map skey store2)) by (unfold store2; rewrite skey_map_same; assumption).
  assert (Hag2 : agree rest store2).
  { intros r' i Hr' Hi Hk. unfold store2 in Hi. apply in_map_iff in Hi. destruct Hi as (j & Hj & Hjin).
    destruct (srec_key_eq r j) eqn:Ej.
    - exfalso. subst i. unfold skey in Hk. cbn in Hk. apply Hnr. apply in_map_iff. exists r'. split; [unfold skey; congruence|assumption].
    - subst i. apply filter_In in Hjin. apply (Hag r' j); [right; assumption|tauto|assumption]. }
  destruct (IH store2 Hnd2 Hns' Hag2) as (I1 & I2). split; [exact (eq_trans I1 Hsum2)|exact I2].
Qed.

Lemma combine_psm_sum h accept recs : NoDup (map skey recs) ->
  rsum (combine_psm h accept recs) = rsum recs /\ NoDup (map skey (combine_psm h accept recs)).
Proof.
  intros Hnd. unfold combine_psm. apply combine_loop_sum; try assumption.
  intros r i Hr Hi Hk.
  (* two entries with one key in a duplicate-free list are the same entry *)
  clear -Hnd Hr Hi Hk. induction recs as [|x l IH]; [destruct Hr|]. inversion Hnd as [|? ? Hni Hnd']; subst.
  destruct Hr as [->|Hr], Hi as [->|Hi]; [reflexivity| | |auto].
  - exfalso. apply Hni. apply in_map_iff. exists i. split; [assumption|assumption].
  - exfalso. apply Hni. apply in_map_iff. exists r. split; [congruence|assumption].
Qed.

Lemma combined_for_sum h app : forall all recs, NoDup (map skey recs) ->
  rsum (combined_for h all app recs) = rsum recs /\ NoDup (map skey (combined_for h all app recs)).
Proof.
  unfold combined_for. induction all as [|x rest IH]; intros recs Hnd; cbn [fold_left]; [split; [reflexivity|assumption]|].
  destruct (sx_app x =? app).
  - destruct (combine_psm_sum h (sx_accept x) recs Hnd) as (S1 & N1). destruct (IH _ N1) as (S2 & N2). split; [lia|assumption].
  - apply IH. assumption.
Qed.

(* one program: it never books more than it has left, the users receive exactly what is booked *)
Lemma stable_tick_wf now h total recs bal x x' bal' paid :
  stable_tick now h total recs bal x = Ok (x', bal', paid) -> 0 <= total -> recs_wf recs -> 0 <= sx_avail x ->
  0 <= sx_avail x' <= sx_avail x /\ pay_total paid = sx_avail x - sx_avail x' /\ bal' = bal - pay_total paid /\
  (0 <= bal -> 0 <= bal') /\ sx_denom x' = sx_denom x /\ sx_app x' = sx_app x /\ sx_count x' = sx_count x + 1 /\ sx_next x' = now + DAY.
Proof.
  unfold stable_tick. intros E Ht Hw Ha.
  destruct (sx_active x && (sx_next x <? now)).
  - destruct (stable_loop x h total recs bal (sx_avail x) true) as [[[[b a] act] ps]| |] eqn:El; try discriminate.
    injection E as <- <- <-. cbn [sx_avail sx_denom sx_app sx_count sx_next].
    destruct (stable_loop_spec _ _ _ _ _ _ _ _ _ _ _ El Ht Hw Ha) as (S1 & S2 & S3 & S4 & _). repeat split; lia.
  - injection E as <- <- <-. cbn [sx_avail sx_denom sx_app sx_count sx_next]. unfold pay_total. cbn. repeat split; lia.
Qed.

Lemma owed_sx_cons d x xs : owed_sx d (x :: xs) = (if sx_denom x =? d then sx_avail x else 0) + owed_sx d xs.
Proof. reflexivity. Qed.
Lemma owed_sx_app d a b : owed_sx d (a ++ b) = owed_sx d a + owed_sx d b.
Proof. unfold owed_sx. rewrite map_app. induction (map _ a) as [|x l IH]; cbn [app zsum]; lia. Qed.

Lemma senv_wf_spec e : senv_wf e = true -> 0 <= fst e /\ recs_wf (snd e).
Proof.
  unfold senv_wf, recs_wf. intros H. apply andb_true_iff in H. destruct H as (H1 & H2). split; [lia|].
  apply Forall_forall. intros r Hr. rewrite forallb_forall in H2. specialize (H2 r Hr). lia.
Qed.
Lemma senv_wf_hd se : forallb senv_wf se = true -> senv_wf (hd_senv se) = true /\ forallb senv_wf (tl se) = true.
Proof. destruct se as [|e se]; cbn; [auto|]. intros H. apply andb_true_iff in H. exact H. Qed.

(* DistributeExtRewardStableVault as a whole *)
Lemma run_stables_inv now h all : forall xs se b xs' b' ps,
  run_stables now h all xs se b = Ok (xs', b', ps) -> Forall SXInv xs -> BInv b -> forallb senv_wf se = true ->
  Forall SXInv xs' /\ BInv b' /\ (forall d, owed_sx d xs' - owed_sx d xs <= b' d - b d).
Proof.
  induction xs as [|x rest IH]; intros se b xs' b' ps E HX HB Hw; cbn [run_stables] in E.
  - injection E as <- <- <-. repeat split; [constructor|assumption|intros; lia].
  - inversion HX as [|? ? Hx Hrest]; subst. apply senv_wf_hd in Hw. destruct Hw as (Hw1 & Hw2).
    apply senv_wf_spec in Hw1. destruct (hd_senv se) as [total recs]. cbn [fst snd] in Hw1. destruct Hw1 as (Ht & Hr).
    destruct (stable_tick now h total (combined_for h all (sx_app x) recs) (b (sx_denom x)) x) as [[[x1 bal1] paid]| |] eqn:Et; try discriminate.
    destruct (run_stables now h all rest (tl se) (bset b (sx_denom x) bal1)) as [[[xs1 b1] ps1]| |] eqn:Er; try discriminate.
    injection E as <- <- <-.
    pose proof (stable_tick_wf _ _ _ _ _ _ _ _ _ Et Ht (combined_for_wf _ _ _ _ Hr) Hx) as (T1 & T2 & T3 & T4 & T5 & _).
    specialize (IH _ _ _ _ _ Er Hrest (BInv_bset _ _ _ HB (T4 (HB _))) Hw2). destruct IH as (I1 & I2 & I3).
    split; [constructor; [unfold SXInv; lia|assumption]|]. split; [assumption|]. intros d. rewrite !owed_sx_cons, T5. specialize (I3 d).
    destruct (Z.eqb_spec (sx_denom x) d) as [He|Hne].
    + subst d. rewrite bset_same in I3. lia.
    + rewrite bset_other in I3 by congruence. lia.
Qed.

(* ---------------- histories with stable-mint programs ---------------- *)
Definition RInv2 (s : rstate2) : Prop :=
  Forall GInv (r_gauges (r2_base s)) /\ Forall XInv (r_exts (r2_base s)) /\ Forall SXInv (r2_sx s) /\ BInv (r_bal (r2_base s)) /\
  forall d, owed2 d s <= r_bal (r2_base s) d.

(* steps 1-4 of the hook in difference form: what the gauges and programs still owe falls by at least
   what leaves the custody account (the invariant of Proofs/GaugeProofs.v without its last clause) *)
Lemma begin_block_diff now e s s' ps :
  begin_block now e s = Ok (s', ps) -> Forall GInv (r_gauges s) -> Forall XInv (r_exts s) -> BInv (r_bal s) ->
  forallb recv_wf (be_recv e) = true -> forallb xenv_wf (be_ext e) = true -> kf4_begin now e s = false ->
  Forall GInv (r_gauges s') /\ Forall XInv (r_exts s') /\ BInv (r_bal s') /\ (forall d, owed d s' - owed d s <= r_bal s' d - r_bal s d).
Proof.
  unfold begin_block, kf4_begin, owed. intros E HG HX HB Hw Hxw K4.
  destruct (run_epochs now (r_epochs s) (r_gauges s) (be_farm e) (be_recv e) (r_bal s)) as [[[[es gs] b1] p1]| |] eqn:E1; try discriminate.
  pose proof (run_epochs_inv _ _ _ _ _ _ _ _ _ _ E1 HG HB Hw) as (A1 & A2 & A3).
  assert (S2 : let '(xs1, b2, _) := sub_step (run_exts 0 now (r_exts s) (be_ext e) b1) (r_exts s) b1 in
               Forall XInv xs1 /\ BInv b2 /\ (forall d, owed_x d xs1 - owed_x d (r_exts s) <= b2 d - b1 d)).
  { destruct (sub_step_cases (run_exts 0 now (r_exts s) (be_ext e) b1) (r_exts s) b1) as [([[xs1 b2] p2] & Er & ->)|(Ef & ->)].
    - exact (run_exts_inv _ _ _ _ _ _ _ _ Er HX A2 Hxw).
    - repeat split; try assumption. intros; lia. }
  destruct (sub_step (run_exts 0 now (r_exts s) (be_ext e) b1) (r_exts s) b1) as [[xs1 b2] p2]. destruct S2 as (B1 & B2 & B3).
  assert (S3 : let '(xs2, b3, _) := sub_step (run_exts 1 now xs1 (be_ext e) b2) xs1 b2 in
               Forall XInv xs2 /\ BInv b3 /\ (forall d, owed_x d xs2 - owed_x d xs1 <= b3 d - b2 d)).
  { destruct (sub_step_cases (run_exts 1 now xs1 (be_ext e) b2) xs1 b2) as [([[xs2 b3] p3] & Er & ->)|(Ef & ->)].
    - exact (run_exts_inv _ _ _ _ _ _ _ _ Er B1 B2 Hxw).
    - repeat split; try assumption. intros; lia. }
  destruct (sub_step (run_exts 1 now xs1 (be_ext e) b2) xs1 b2) as [[xs2 b3] p3]. destruct S3 as (C1 & C2 & C3).
  assert (S4 : let '(xs3, b4, _) := sub_step (run_lends now xs2 (be_lend e) [] 0 b3) xs2 b3 in
               Forall XInv xs3 /\ BInv b4 /\ (forall d, owed_x d xs3 - owed_x d xs2 <= b4 d - b3 d)).
  { destruct (sub_step_cases (run_lends now xs2 (be_lend e) [] 0 b3) xs2 b3) as [([[xs3 b4] p4] & Er & ->)|(Ef & ->)].
    - rewrite Er in K4. cbn [is_ok andb] in K4. exact (run_lends_inv _ _ _ _ _ _ _ _ _ Er C1 C2 K4).
    - repeat split; try assumption. intros; lia. }
  destruct (sub_step (run_lends now xs2 (be_lend e) [] 0 b3) xs2 b3) as [[xs3 b4] p4]. destruct S4 as (D1 & D2 & D3).
  injection E as <- <-. cbn [r_bal r_gauges r_exts].
  repeat split; try assumption. intros d. specialize (A3 d). specialize (B3 d). specialize (C3 d). specialize (D3 d). lia.
Qed.

Lemma begin_block2_inv now e h se s s' ps :
  begin_block2 now e h se s = Ok (s', ps) -> RInv2 s -> forallb recv_wf (be_recv e) = true -> forallb xenv_wf (be_ext e) = true ->
  forallb senv_wf se = true -> kf4_begin now e (r2_base s) = false -> RInv2 s'.
Proof.
  unfold begin_block2, RInv2, owed2. intros E (HG & HX & HS & HB & HO) Hw Hxw Hsw K4.
  destruct (begin_block now e (r2_base s)) as [[s1 p1]| |] eqn:E1; try discriminate.
  destruct (begin_block_diff _ _ _ _ _ E1 HG HX HB Hw Hxw K4) as (A1 & A2 & A3 & A4).
  assert (S6 : let '(sx', b', _) := sub_step (run_stables now h (r2_sx s) (r2_sx s) se (r_bal s1)) (r2_sx s) (r_bal s1) in
               Forall SXInv sx' /\ BInv b' /\ (forall d, owed_sx d sx' - owed_sx d (r2_sx s) <= b' d - r_bal s1 d)).
  { destruct (sub_step_cases (run_stables now h (r2_sx s) (r2_sx s) se (r_bal s1)) (r2_sx s) (r_bal s1)) as [([[sx' b'] p2] & Er & ->)|(Ef & ->)].
    - exact (run_stables_inv _ _ _ _ _ _ _ _ _ Er HS A3 Hsw).
    - repeat split; try assumption. intros; lia. }
  destruct (sub_step (run_stables now h (r2_sx s) (r2_sx s) se (r_bal s1)) (r2_sx s) (r_bal s1)) as [[sx' b'] p2]. destruct S6 as (B1 & B2 & B3).
  injection E as <- <-. cbn [r2_base r2_sx r_bal r_gauges r_exts]. repeat split; try assumption.
  intros d. specialize (HO d). specialize (A4 d). specialize (B3 d). unfold owed in *. cbn [r_gauges r_exts]. lia.
Qed.

Lemma rstep2_inv s o s' ps : RInv2 s -> op_wf2 o = true -> kf_step2 s o = false -> rstep2 s o = Ok (s', ps) -> RInv2 s'.
Proof.
  intros HI Hw Hk. pose proof HI as (HG & HX & HS & HB & HO). destruct o as [o|app d total days accept now funds ok|now e h se]; cbn [rstep2].
  - (* a base op other than Begin: it credits the account by exactly what the new gauge / program owes *)
    destruct o as [d dep total start now dur funds meta|d now dur|kind d total days minlock now funds ok|now e|d a]; cbn [rstep]; try discriminate.
    + destruct (_ || _) eqn:E; [discriminate|]. intros H. injection H as <- <-.
      repeat (apply orb_false_iff in E; destruct E as [E ?]).
      assert (0 < dep) by lia. unfold RInv2, owed2, owed. cbn [r2_base r2_sx r_bal r_gauges r_exts]. repeat split; try assumption.
      * apply Forall_app. split; [assumption|]. constructor; [|constructor]. unfold GInv; cbn; lia.
      * intros x. unfold bset. specialize (HB x). destruct (Z.eqb_spec x d); [subst x|]; lia.
      * intros x. rewrite owed_g_app, owed_g_cons. replace (owed_g x []) with 0 by reflexivity. cbn [g_denom g_rem g_swap g_deposit g_distributed].
        specialize (HO x). unfold owed2, owed in HO. unfold bset. rewrite (Z.eqb_sym d x). destruct (Z.eqb_spec x d); [subst x|]; lia.
    + intros H. injection H as <- <-. unfold RInv2, owed2, owed. cbn [r2_base r2_sx r_bal r_gauges r_exts]. repeat split; try assumption.
      * apply Forall_app. split; [assumption|]. constructor; [|constructor]. unfold GInv; cbn; lia.
      * intros x. rewrite owed_g_app, owed_g_cons. replace (owed_g x []) with 0 by reflexivity. cbn [g_denom g_rem g_swap g_deposit].
        specialize (HO x). unfold owed2, owed in HO. destruct (d =? x); lia.
    + destruct (_ || _) eqn:E; [discriminate|]. intros H. injection H as <- <-.
      repeat (apply orb_false_iff in E; destruct E as [E ?]).
      assert (0 < total) by lia. unfold RInv2, owed2, owed. cbn [r2_base r2_sx r_bal r_gauges r_exts]. repeat split; try assumption.
      * apply Forall_app. split; [assumption|]. constructor; [|constructor]. unfold XInv; cbn; lia.
      * intros x. unfold bset. specialize (HB x). destruct (Z.eqb_spec x d); [subst x|]; lia.
      * intros x. rewrite owed_x_app, owed_x_cons. replace (owed_x x []) with 0 by reflexivity. cbn [x_denom x_avail].
        specialize (HO x). unfold owed2, owed in HO. unfold bset. rewrite (Z.eqb_sym d x). destruct (Z.eqb_spec x d); [subst x|]; lia.
    + destruct (Z.ltb_spec a 0); [discriminate|]. intros H'. injection H' as <- <-.
      unfold RInv2, owed2, owed. cbn [r2_base r2_sx r_bal r_gauges r_exts]. repeat split; try assumption.
      * intros x. unfold bset. specialize (HB x). destruct (Z.eqb_spec x d); [subst x|]; lia.
      * intros x. specialize (HO x). unfold owed2, owed in HO. unfold bset. destruct (Z.eqb_spec x d); [subst x|]; lia.
  - destruct (_ || _) eqn:E; [discriminate|]. intros H. injection H as <- <-.
    repeat (apply orb_false_iff in E; destruct E as [E ?]).
    assert (0 < total) by lia. unfold RInv2, owed2, owed. cbn [r2_base r2_sx r_bal r_gauges r_exts]. repeat split; try assumption.
    + apply Forall_app. split; [assumption|]. constructor; [|constructor]. unfold SXInv; cbn; lia.
    + intros x. unfold bset. specialize (HB x). destruct (Z.eqb_spec x d); [subst x|]; lia.
    + intros x. rewrite owed_sx_app, owed_sx_cons. replace (owed_sx x []) with 0 by reflexivity. cbn [sx_denom sx_avail].
      specialize (HO x). unfold owed2, owed in HO. unfold bset. rewrite (Z.eqb_sym d x). destruct (Z.eqb_spec x d); [subst x|]; lia.
  - intros H. cbn [kf_step2] in Hk. cbn [op_wf2 op_wf] in Hw. apply andb_true_iff in Hw. destruct Hw as [Hw Hw3].
    apply andb_true_iff in Hw. destruct Hw as [Hw1 Hw2]. eapply begin_block2_inv; eassumption.
Qed.

Lemma rapply2_inv s o : RInv2 s -> op_wf2 o = true -> kf_step2 s o = false -> RInv2 (rapply2 s o).
Proof.
  intros H Hw Hk. unfold rapply2. destruct (rstep2 s o) as [[s' ps]| |] eqn:E; [eapply rstep2_inv; eassumption|assumption|assumption].
Qed.

Lemma rrun2_inv ops : forall s, RInv2 s -> forallb op_wf2 ops = true -> run_clean2 s ops = true -> RInv2 (rrun2 s ops).
Proof.
  induction ops as [|o ops IH]; intros s H Hw Hc; cbn; [assumption|].
  cbn [forallb] in Hw. apply andb_true_iff in Hw. destruct Hw as [Hw1 Hw2].
  cbn [run_clean2] in Hc. apply andb_true_iff in Hc. destruct Hc as [Hc1 Hc2]. apply negb_true_iff in Hc1.
  apply IH; [apply rapply2_inv; assumption|assumption|assumption].
Qed.

Lemma rinv2_init : RInv2 rinit2.
Proof.
  unfold RInv2, rinit2, rinit, owed2, owed. cbn [r2_base r2_sx r_gauges r_exts r_bal]. repeat split; try constructor.
  - intros d; lia.
  - intros d. cbn. lia.
Qed.

Lemma owed_sx_active_le d xs : Forall SXInv xs -> owed_sx_active d xs <= owed_sx d xs.
Proof.
  unfold owed_sx_active, owed_sx. induction 1 as [|x xs Hx _ IH]; cbn [map zsum]; [lia|]. unfold SXInv in Hx.
  destruct (sx_denom x =? d), (sx_active x); cbn [andb]; lia.
Qed.

(* custody over every history with gauges, locker / vault / lend programs AND stable-mint programs *)
Lemma custody2_clean ops d : forallb op_wf2 ops = true -> run_clean2 rinit2 ops = true ->
  let s := rrun2 rinit2 ops in
  owed2 d s <= r_bal (r2_base s) d /\
  holds_C19_custody2 d (r_bal (r2_base s) d) (r_gauges (r2_base s)) (r_exts (r2_base s)) (r2_sx s) = true.
Proof.
  intros Hw Hc. pose proof (rrun2_inv ops _ rinv2_init Hw Hc) as (HG & HX & HS & HB & HO). cbv zeta.
  split; [apply HO|]. unfold holds_C19_custody2. apply andb_true_iff. split; [apply andb_true_iff; split|].
  - apply forallb_forall. intros x Hin. rewrite Forall_forall in HX. specialize (HX x Hin). unfold XInv in HX.
    apply orb_true_iff. right. apply Z.leb_le. assumption.
  - apply forallb_forall. intros x Hin. rewrite Forall_forall in HS. specialize (HS x Hin). unfold SXInv in HS.
    apply orb_true_iff. right. apply Z.leb_le. assumption.
  - apply Z.leb_le. specialize (HO d). unfold owed2, owed in HO. pose proof (owed_active_le d _ _ HG HX). pose proof (owed_sx_active_le d _ HS). lia.
Qed.
