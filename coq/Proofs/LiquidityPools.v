(* Proofs about Model/Liquidity.v, part 5: the global escrow, pool-coin supply and the disabled flag.
   In every reachable state the global escrow holds, in every denom, exactly the coins of the pending
   deposit requests plus the pool coins of the pending withdrawal requests; a pool whose pool-coin
   supply is zero is marked disabled.  Instance of the generic sweep. *)
From Comdex Require Import Lib.Base Lib.DecArith Lib.DecFacts Model.Liquidity Proofs.LiquidityProofs
  Proofs.LiquiditySweep Proofs.LiquidityProofs2 Proofs.LiquidityEffects Proofs.LiquidityLists Proofs.LiquidityCustody
  Proofs.LiquidityFarm.
From Coq Require Import ZifyBool Lia.

Definition dcoins (d : Z) (r : depreq) : Z :=
  if d_status r =? 1 then (if d_xd r =? d then d_x r else 0) + (if d_yd r =? d then d_y r else 0) else 0.
Definition wcoins (d : Z) (r : wdreq) : Z :=
  if w_status r =? 1 then (if pool_denom (w_app r) (w_pool r) =? d then w_pc r else 0) else 0.
Definition pending (d : Z) (s : state) : Z := zsum (map (dcoins d) (deps s)) + zsum (map (wcoins d) (wds s)).
Definition min_pc_ok (ap : list (Z * params)) : Prop := Forall (fun x => 0 < pr_min_pc (snd x)) ap.

Record PInv (s : state) : Prop := {
  pi_params : min_pc_ok (apps s);
  pi_led : forall d, led s GlobalEscrow d = ge_owed s d;
  pi_sum : forall d, ge_owed s d = pending d s;
  pi_dnodup : NoDup (map dkey (deps s));
  pi_wnodup : NoDup (map wkey (wds s));
  pi_did : forall r pl, In r (deps s) -> find_pool (d_app r) (d_pool r) (pools s) = Some pl -> d_id r <= pl_last_dep pl;
  pi_wid : forall r pl, In r (wds s) -> find_pool (w_app r) (w_pool r) (pools s) = Some pl -> w_id r <= pl_last_wd pl;
  pi_pcnt : forall a i pl, find_pool a i (pools s) = Some pl -> i <= cnt (last_pool s) a;
  pi_dpool : forall r, In r (deps s) -> d_pool r <= cnt (last_pool s) (d_app r);
  pi_wpool : forall r, In r (wds s) -> w_pool r <= cnt (last_pool s) (w_app r);
  pi_dis : forall a i pl, find_pool a i (pools s) = Some pl -> sup s a i = 0 -> pl_disabled pl = true;
  pi_supnn : forall a i, 0 <= sup s a i;
  pi_unused : forall a i, cnt (last_pool s) a < i -> sup s a i = 0 }.

(* ---------------- transitions that touch none of this ---------------- *)
Definition PFrame (s s' : state) : Prop :=
  apps s' = apps s /\ pools s' = pools s /\ last_pool s' = last_pool s /\ deps s' = deps s /\ wds s' = wds s /\
  ge_owed s' = ge_owed s /\ sup s' = sup s /\ forall d, led s' GlobalEscrow d = led s GlobalEscrow d.
Lemma pinv_frame s s' : PFrame s s' -> PInv s -> PInv s'.
Proof.
  intros (A & B & C & D & E & F & G & H) [H0 H1 H2 H3 H4 H5 H6 H7 H8 H9 H10 H11 H12].
  constructor; unfold pending in *; rewrite ?A, ?B, ?C, ?D, ?E, ?F, ?G; try assumption.
  intros d. rewrite H. apply H1.
Qed.
Ltac pf_done := unfold PFrame; proj_cbn; repeat (split; [reflexivity|]).
Ltac pf_frame H s' := inv_ok H; try subst s'; sends; proj_cbn; pf_done; intros; led_norm; ifs.

Lemma pf_finish s e st s' : finish_entry s e st = Ok s' -> PFrame s s'.
Proof.
  intros H. destruct (finish_entry_eff _ _ _ _ H) as [[_ ->]|(_ & rate & e' & refund & fee & l & _ & _ & _ & _ & Hl & ->)].
  - pf_done. reflexivity.
  - pf_done. intros d. rewrite Hl. unfold at_. cbn [acct_eqb andb]. lia.
Qed.
Lemma pf_place s m typ pr price offer fee now s' : place s m typ pr price offer fee now = Ok s' -> PFrame s s'.
Proof.
  intros H. destruct (place_eff _ _ _ _ _ _ _ _ _ H) as (l & _ & _ & Hl & ->).
  pf_done. intros d. rewrite Hl. unfold at_. cbn [acct_eqb andb]. lia.
Qed.
Lemma pf_mm_tail s m pr bt st now s' : mm_tail s m pr bt st now = Ok s' -> PFrame s s'.
Proof.
  unfold mm_tail, obind. intros H.
  destruct (ssend s _ _ _ _) as [s2| |] eqn:E2; try discriminate.
  destruct (ssend s2 _ _ _ _) as [s3| |] eqn:E3; try discriminate.
  destruct (mm_place _ _ _ _ pr true bt _ (orders s3)) as [[st1 ids1] last1].
  destruct (mm_place _ _ _ _ pr false st last1 st1) as [[st2 ids2] last2]. injection H as <-. sends.
  pf_done. intros d. led_norm. lia.
Qed.
Lemma pf_esc_in s app pair from d x s' : is_outside from = true -> esc_in s app pair from d x = Ok s' -> PFrame s s'.
Proof.
  intros Hf H. destruct (esc_in_eff _ _ _ _ _ _ _ H) as (l & _ & Hl & ->).
  pf_done. intros d'. rewrite Hl. unfold at_. destruct from; try discriminate; cbn [acct_eqb andb]; lia.
Qed.
Lemma pf_esc_out s app pair to d x s' : is_outside to = true -> esc_out s app pair to d x = Ok s' -> PFrame s s'.
Proof.
  intros Hf H. destruct (esc_out_eff _ _ _ _ _ _ _ H) as (l & _ & Hl & ->).
  pf_done. intros d'. rewrite Hl. unfold at_. destruct to; try discriminate; cbn [acct_eqb andb]; lia.
Qed.
Lemma pf_create_pair s a c b q s' : create_pair s a c b q = Ok s' -> PFrame s s'.
Proof. unfold create_pair, obind. intros H. pf_frame H s'. Qed.
Lemma pf_farm s a o p amt now s' : farm s a o p amt now = Ok s' -> PFrame s s'.
Proof. unfold farm, obind. intros H. pf_frame H s'. Qed.
Lemma pf_unfarm s a o p amt s' : unfarm s a o p amt = Ok s' -> PFrame s s'.
Proof. unfold unfarm, obind. intros H. pf_frame H s'. Qed.
Lemma pf_refl s : PFrame s s.
Proof. pf_done. reflexivity. Qed.
Lemma pf_trans s1 s2 s3 : PFrame s1 s2 -> PFrame s2 s3 -> PFrame s1 s3.
Proof.
  intros (A1 & B1 & C1 & D1 & E1 & F1 & G1 & H1) (A2 & B2 & C2 & D2 & E2 & F2 & G2 & H2).
  unfold PFrame. repeat (split; [congruence|]). intros. rewrite H2. apply H1.
Qed.
Lemma pf_process_queued s now app : PFrame s (process_queued now app s).
Proof.
  unfold process_queued. destruct (get_params s app); [|apply pf_refl].
  generalize (filter (fun q => q_app q =? app) (qfs s)). intros l. revert s.
  induction l as [|q r IH]; intros s; cbn [fold_left]; [apply pf_refl|].
  eapply pf_trans; [|apply IH]. unfold process_qf. destruct (filter _ (q_coins q)); [apply pf_refl|]. pf_done. reflexivity.
Qed.

(* ---------------- helpers ---------------- *)
Lemma aget_in {A} (l : list (Z * A)) k v : aget l k = Some v -> In (k, v) l.
Proof.
  induction l as [|[a w] r IH]; cbn [aget]; [discriminate|]. destruct (a =? k) eqn:E.
  - intros [= ->]. left. f_equal. lia.
  - intros H. right. exact (IH H).
Qed.
Lemma min_pc_pos s app P : min_pc_ok (apps s) -> get_params s app = Some P -> 0 < pr_min_pc P.
Proof. intros H Hp. apply aget_in in Hp. exact (proj1 (Forall_forall _ _) H _ Hp). Qed.

Lemma put_dep_eq s r ax ay pc st :
  deps (put_dep s (set_dep_result r ax ay pc st)) =
  map (fun x => if k3_eqb (dkey x) (dkey r) then set_dep_result r ax ay pc st else x) (deps s).
Proof. reflexivity. Qed.
Lemma put_wd_eq s r x y st :
  wds (put_wd s (mkWd (w_app r) (w_pool r) (w_id r) (w_owner r) (w_pc r) x y st)) =
  map (fun z => if k3_eqb (wkey z) (wkey r) then mkWd (w_app r) (w_pool r) (w_id r) (w_owner r) (w_pc r) x y st else z) (wds s).
Proof. reflexivity. Qed.

Lemma zsum_snoc {A} (f : A -> Z) l x : zsum (map f (l ++ [x])) = zsum (map f l) + f x.
Proof. rewrite map_app, zsum_app. cbn [map zsum]. lia. Qed.

(* ---------------- requests ---------------- *)
Lemma pi_deposit_req s a o p x y s' r : PInv s -> deposit_req s a o p x y = Ok (s', r) -> PInv s'.
Proof.
  intros [H0 H1 H2 H3 H4 H5 H6 H7 H8 H9 H10 H11 H12] H. unfold deposit_req in H.
  destruct ((p =? 0) || (x <? 0) || (y <? 0) || ((x =? 0) && (y =? 0))); [discriminate|].
  destruct (negb (has_app s a)); [discriminate|].
  destruct (find_pool a p (pools s)) as [pl|] eqn:Epl; [|discriminate].
  destruct (pl_disabled pl) eqn:Edis; [discriminate|].
  destruct (pool_pair s pl) as [pr|]; [|discriminate].
  destruct (led s (Reserve a p) (p_quote pr) + x >? max_coin); [discriminate|].
  destruct (led s (Reserve a p) (p_base pr) + y >? max_coin); [discriminate|].
  unfold obind in H. destruct (ssend s _ _ _ y) as [s1| |] eqn:E1; try discriminate.
  destruct (ssend s1 _ _ _ x) as [s2| |] eqn:E2; try discriminate. injection H as <- <-.
  apply ssend_inv in E1. destruct E1 as (l1 & Hl1 & ->). apply ssend_inv in E2. destruct E2 as (l2 & Hl2 & ->). proj_cbn.
  destruct (find_pool_in _ _ _ _ Epl) as (_ & Pa & Pi).
  set (r := mkDep a p (pl_last_dep pl + 1) o x y (p_quote pr) (p_base pr) 0 0 0 1) in *.
  set (pl' := mkPool (pl_app pl) (pl_id pl) (pl_pair pl) (pl_ranged pl) (pl_disabled pl) (pl_last_dep pl + 1) (pl_last_wd pl)) in *.
  assert (Hfresh : ~ In (dkey r) (map dkey (deps s))).
  { intros Hi. apply in_map_iff in Hi. destruct Hi as (z & Hz & Hz2). unfold dkey in Hz. cbn [r d_app d_pool d_id] in Hz.
    injection Hz as Z1 Z2 Z3. pose proof (H5 z pl Hz2) as B. rewrite Z1, Z2 in B. specialize (B Epl). lia. }
  constructor; proj_cbn; unfold pending in *; proj_cbn.
  - exact H0.
  - intros d. led_norm. unfold fadd1. rewrite H1. ifs.
  - intros d. unfold fadd1. rewrite H2, zsum_snoc.
    assert (Hr : dcoins d r = (if p_quote pr =? d then x else 0) + (if p_base pr =? d then y else 0)) by reflexivity.
    rewrite Hr. ifs.
  - apply nodup_snoc; assumption.
  - exact H4.
  - intros z pl0 Hz Hp. rewrite find_pool_ins in Hp. cbn [pl' pl_app pl_id] in Hp.
    apply in_app_or in Hz. destruct Hz as [Hz|[<-|[]]].
    + destruct ((pl_app pl =? d_app z) && (pl_id pl =? d_pool z)) eqn:E; [|eapply H5; eauto].
      injection Hp as <-. cbn [pl' pl_last_dep]. assert (d_id z <= pl_last_dep pl); [|lia].
      apply (H5 z pl Hz). replace (d_app z) with a by lia. replace (d_pool z) with p by lia. exact Epl.
    + cbn [r d_app d_pool d_id] in *. rewrite Pa, Pi, !Z.eqb_refl in Hp. cbn [andb] in Hp. injection Hp as <-. cbn. lia.
  - intros z pl0 Hz Hp. rewrite find_pool_ins in Hp. cbn [pl' pl_app pl_id] in Hp.
    destruct ((pl_app pl =? w_app z) && (pl_id pl =? w_pool z)) eqn:E; [|eapply H6; eauto].
    injection Hp as <-. cbn [pl' pl_last_wd]. apply (H6 z pl Hz).
    replace (w_app z) with a by lia. replace (w_pool z) with p by lia. exact Epl.
  - intros a0 i pl0 Hp. rewrite find_pool_ins in Hp. cbn [pl' pl_app pl_id] in Hp.
    destruct ((pl_app pl =? a0) && (pl_id pl =? i)) eqn:E; [|eapply H7; eauto].
    apply (H7 a0 i pl). replace a0 with a by lia. replace i with p by lia. exact Epl.
  - intros z Hz. apply in_app_or in Hz. destruct Hz as [Hz|[<-|[]]]; [apply H8; exact Hz|]. cbn [r d_app d_pool]. eapply H7; eauto.
  - exact H9.
  - intros a0 i pl0 Hp Hs. rewrite find_pool_ins in Hp. cbn [pl' pl_app pl_id] in Hp.
    destruct ((pl_app pl =? a0) && (pl_id pl =? i)) eqn:E; [|eapply H10; eauto].
    injection Hp as <-. cbn [pl' pl_disabled]. assert (pl_disabled pl = true); [|congruence]. apply (H10 a0 i pl); [|exact Hs].
    replace a0 with a by lia. replace i with p by lia. exact Epl.
  - exact H11.
  - exact H12.
Qed.

Lemma pi_withdraw_req s a o p pc s' r : PInv s -> withdraw_req s a o p pc = Ok (s', r) -> PInv s'.
Proof.
  intros [H0 H1 H2 H3 H4 H5 H6 H7 H8 H9 H10 H11 H12] H. unfold withdraw_req in H.
  destruct ((p =? 0) || (pc <=? 0)); [discriminate|].
  destruct (negb (has_app s a)); [discriminate|].
  destruct (find_pool a p (pools s)) as [pl|] eqn:Epl; [|discriminate].
  destruct (pl_disabled pl) eqn:Edis; [discriminate|].
  unfold obind in H. destruct (ssend s _ _ _ pc) as [s1| |] eqn:E1; try discriminate. injection H as <- <-.
  apply ssend_inv in E1. destruct E1 as (l1 & Hl1 & ->). proj_cbn.
  destruct (find_pool_in _ _ _ _ Epl) as (_ & Pa & Pi).
  set (r := mkWd a p (pl_last_wd pl + 1) o pc 0 0 1) in *.
  set (pl' := mkPool (pl_app pl) (pl_id pl) (pl_pair pl) (pl_ranged pl) (pl_disabled pl) (pl_last_dep pl) (pl_last_wd pl + 1)) in *.
  assert (Hfresh : ~ In (wkey r) (map wkey (wds s))).
  { intros Hi. apply in_map_iff in Hi. destruct Hi as (z & Hz & Hz2). unfold wkey in Hz. cbn [r w_app w_pool w_id] in Hz.
    injection Hz as Z1 Z2 Z3. pose proof (H6 z pl Hz2) as B. rewrite Z1, Z2 in B. specialize (B Epl). lia. }
  constructor; proj_cbn; unfold pending in *; proj_cbn.
  - exact H0.
  - intros d. led_norm. unfold fadd1. rewrite H1. ifs.
  - intros d. unfold fadd1. rewrite H2, zsum_snoc.
    assert (Hr : wcoins d r = if pool_denom a p =? d then pc else 0) by reflexivity. rewrite Hr. ifs.
  - exact H3.
  - apply nodup_snoc; assumption.
  - intros z pl0 Hz Hp. rewrite find_pool_ins in Hp. cbn [pl' pl_app pl_id] in Hp.
    destruct ((pl_app pl =? d_app z) && (pl_id pl =? d_pool z)) eqn:E; [|eapply H5; eauto].
    injection Hp as <-. cbn [pl' pl_last_dep]. apply (H5 z pl Hz).
    replace (d_app z) with a by lia. replace (d_pool z) with p by lia. exact Epl.
  - intros z pl0 Hz Hp. rewrite find_pool_ins in Hp. cbn [pl' pl_app pl_id] in Hp.
    apply in_app_or in Hz. destruct Hz as [Hz|[<-|[]]].
    + destruct ((pl_app pl =? w_app z) && (pl_id pl =? w_pool z)) eqn:E; [|eapply H6; eauto].
      injection Hp as <-. cbn [pl' pl_last_wd]. assert (w_id z <= pl_last_wd pl); [|lia].
      apply (H6 z pl Hz). replace (w_app z) with a by lia. replace (w_pool z) with p by lia. exact Epl.
    + cbn [r w_app w_pool w_id] in *. rewrite Pa, Pi, !Z.eqb_refl in Hp. cbn [andb] in Hp. injection Hp as <-. cbn. lia.
  - intros a0 i pl0 Hp. rewrite find_pool_ins in Hp. cbn [pl' pl_app pl_id] in Hp.
    destruct ((pl_app pl =? a0) && (pl_id pl =? i)) eqn:E; [|eapply H7; eauto].
    apply (H7 a0 i pl). replace a0 with a by lia. replace i with p by lia. exact Epl.
  - exact H8.
  - intros z Hz. apply in_app_or in Hz. destruct Hz as [Hz|[<-|[]]]; [apply H9; exact Hz|]. cbn [r w_app w_pool]. eapply H7; eauto.
  - intros a0 i pl0 Hp Hs. rewrite find_pool_ins in Hp. cbn [pl' pl_app pl_id] in Hp.
    destruct ((pl_app pl =? a0) && (pl_id pl =? i)) eqn:E; [|eapply H10; eauto].
    injection Hp as <-. cbn [pl' pl_disabled]. assert (pl_disabled pl = true); [|congruence]. apply (H10 a0 i pl); [|exact Hs].
    replace a0 with a by lia. replace i with p by lia. exact Epl.
  - exact H11.
  - exact H12.
Qed.

(* the request-list part after the entry of [r] was replaced by a non-pending record of the same key *)
Lemma dcoins_done d r ax ay pc st : st <> 1 -> dcoins d (set_dep_result r ax ay pc st) = 0.
Proof. intros Hst. unfold dcoins. cbn [set_dep_result d_status]. destruct (st =? 1) eqn:E; [lia|reflexivity]. Qed.

Lemma pi_fail_dep s r s' : PInv s -> In r (deps s) -> d_status r = 1 -> fail_dep s r = Ok s' -> PInv s'.
Proof.
  intros [H0 H1 H2 H3 H4 H5 H6 H7 H8 H9 H10 H11 H12] Hin Hst H. unfold fail_dep, obind in H.
  destruct (ssend s _ _ _ _) as [s1| |] eqn:E1; try discriminate.
  destruct (ssend s1 _ _ _ _) as [s2| |] eqn:E2; try discriminate. injection H as <-.
  apply ssend_inv in E1. destruct E1 as (l1 & Hl1 & ->). apply ssend_inv in E2. destruct E2 as (l2 & Hl2 & ->).
  set (r' := set_dep_result r 0 0 0 3).
  constructor; unfold pending; proj_cbn;
    change (fun x : depreq => if dep_eqb x r' then r' else x) with (fun x : depreq => if k3_eqb (dkey x) (dkey r) then r' else x).
  - exact H0.
  - intros d. led_norm. unfold fadd1. rewrite H1. ifs.
  - intros d. unfold fadd1. rewrite H2. unfold pending.
    rewrite (zsum_replace dkey (dcoins d) r r' (deps s) H3 Hin eq_refl). unfold r'. rewrite dcoins_done by lia.
    assert (Hr : dcoins d r = (if d_xd r =? d then d_x r else 0) + (if d_yd r =? d then d_y r else 0)) by (unfold dcoins; rewrite Hst; reflexivity).
    rewrite Hr. ifs.
  - rewrite (map_key_replace dkey r r' _ eq_refl). exact H3.
  - exact H4.
  - intros z pl Hz Hp. destruct (in_replace dkey _ _ _ _ Hz) as [->|Hz']; [apply (H5 r pl Hin Hp)|eapply H5; eauto].
  - exact H6.
  - exact H7.
  - intros z Hz. destruct (in_replace dkey _ _ _ _ Hz) as [->|Hz']; [apply (H8 r Hin)|apply H8; exact Hz'].
  - exact H9.
  - exact H10.
  - exact H11.
  - exact H12.
Qed.

Lemma pi_fail_wd s r s' : PInv s -> In r (wds s) -> w_status r = 1 -> fail_wd s r = Ok s' -> PInv s'.
Proof.
  intros [H0 H1 H2 H3 H4 H5 H6 H7 H8 H9 H10 H11 H12] Hin Hst H. unfold fail_wd, obind in H.
  destruct (ssend s _ _ _ _) as [s1| |] eqn:E1; try discriminate. injection H as <-.
  apply ssend_inv in E1. destruct E1 as (l1 & Hl1 & ->).
  set (r' := mkWd (w_app r) (w_pool r) (w_id r) (w_owner r) (w_pc r) 0 0 3).
  constructor; unfold pending; proj_cbn;
    change (fun x : wdreq => if wd_eqb x r' then r' else x) with (fun x : wdreq => if k3_eqb (wkey x) (wkey r) then r' else x).
  - exact H0.
  - intros d. led_norm. unfold fadd1. rewrite H1. ifs.
  - intros d. unfold fadd1. rewrite H2. unfold pending.
    rewrite (zsum_replace wkey (wcoins d) r r' (wds s) H4 Hin eq_refl).
    assert (Hr' : wcoins d r' = 0) by reflexivity.
    assert (Hr : wcoins d r = if pool_denom (w_app r) (w_pool r) =? d then w_pc r else 0) by (unfold wcoins; rewrite Hst; reflexivity).
    rewrite Hr, Hr'. ifs.
  - exact H3.
  - rewrite (map_key_replace wkey r r' _ eq_refl). exact H4.
  - exact H5.
  - intros z pl Hz Hp. destruct (in_replace wkey _ _ _ _ Hz) as [->|Hz']; [apply (H6 r pl Hin Hp)|eapply H6; eauto].
  - exact H7.
  - exact H8.
  - intros z Hz. destruct (in_replace wkey _ _ _ _ Hz) as [->|Hz']; [apply (H9 r Hin)|apply H9; exact Hz'].
  - exact H10.
  - exact H11.
  - exact H12.
Qed.

Lemma pi_do_deposit s r pl pr ax ay pc s' :
  PInv s -> In r (deps s) -> d_status r = 1 -> find_pool (d_app r) (d_pool r) (pools s) = Some pl ->
  0 < pc -> do_deposit s r pr ax ay pc = Ok s' -> PInv s'.
Proof.
  intros [H0 H1 H2 H3 H4 H5 H6 H7 H8 H9 H10 H11 H12] Hin Hst Epl Hpc H. unfold do_deposit in H.
  destruct (negb ((d_xd r =? p_quote pr) && (d_yd r =? p_base pr))) eqn:Eden; [discriminate|].
  unfold obind in H.
  destruct (ssend (mint _ _ _ _) _ _ _ ay) as [s1| |] eqn:E1; try discriminate.
  destruct (ssend s1 _ _ _ ax) as [s2| |] eqn:E2; try discriminate.
  destruct (ssend s2 _ _ _ pc) as [s3| |] eqn:E3; try discriminate.
  destruct (ssend s3 _ _ _ _) as [s4| |] eqn:E4; try discriminate.
  destruct (ssend s4 _ _ _ _) as [s5| |] eqn:E5; try discriminate. injection H as <-.
  apply ssend_inv in E1. destruct E1 as (l1 & Hl1 & ->). apply ssend_inv in E2. destruct E2 as (l2 & Hl2 & ->).
  apply ssend_inv in E3. destruct E3 as (l3 & Hl3 & ->). apply ssend_inv in E4. destruct E4 as (l4 & Hl4 & ->).
  apply ssend_inv in E5. destruct E5 as (l5 & Hl5 & ->).
  set (r' := set_dep_result r ax ay pc 2).
  assert (Hxd : d_xd r = p_quote pr) by lia. assert (Hyd : d_yd r = p_base pr) by lia.
  constructor; unfold pending; proj_cbn;
    change (fun x : depreq => if dep_eqb x r' then r' else x) with (fun x : depreq => if k3_eqb (dkey x) (dkey r) then r' else x).
  - exact H0.
  - intros d. led_norm. unfold fadd1. rewrite H1, Hxd, Hyd. ifs.
  - intros d. unfold fadd1. rewrite H2. unfold pending.
    rewrite (zsum_replace dkey (dcoins d) r r' (deps s) H3 Hin eq_refl). unfold r'. rewrite dcoins_done by lia.
    assert (Hr : dcoins d r = (if d_xd r =? d then d_x r else 0) + (if d_yd r =? d then d_y r else 0)) by (unfold dcoins; rewrite Hst; reflexivity).
    rewrite Hr. ifs.
  - rewrite (map_key_replace dkey r r' _ eq_refl). exact H3.
  - exact H4.
  - intros z pl0 Hz Hp. destruct (in_replace dkey _ _ _ _ Hz) as [->|Hz']; [apply (H5 r pl0 Hin Hp)|eapply H5; eauto].
  - exact H6.
  - exact H7.
  - intros z Hz. destruct (in_replace dkey _ _ _ _ Hz) as [->|Hz']; [apply (H8 r Hin)|apply H8; exact Hz'].
  - exact H9.
  - intros a i pl0 Hp Hs. unfold fadd2 in Hs. destruct ((d_app r =? a) && (d_pool r =? i)) eqn:E; [|eapply H10; eauto].
    pose proof (H11 a i). lia.
  - intros a i. unfold fadd2. pose proof (H11 a i). destruct ((d_app r =? a) && (d_pool r =? i)); lia.
  - intros a i Hlt. unfold fadd2. destruct ((d_app r =? a) && (d_pool r =? i)) eqn:E; [|apply H12; exact Hlt].
    pose proof (H8 r Hin). replace a with (d_app r) in Hlt by lia. lia.
Qed.

Lemma pi_disable_pool s pl a i : PInv s -> find_pool a i (pools s) = Some pl -> PInv (disable_pool s pl).
Proof.
  intros [H0 H1 H2 H3 H4 H5 H6 H7 H8 H9 H10 H11 H12] Epl. destruct (find_pool_in _ _ _ _ Epl) as (_ & Pa & Pi).
  constructor; proj_cbn; unfold pending in *; proj_cbn; try assumption.
  - intros z pl0 Hz Hp. rewrite find_pool_ins in Hp. cbn [disable pl_app pl_id] in Hp.
    destruct ((pl_app pl =? d_app z) && (pl_id pl =? d_pool z)) eqn:E; [|eapply H5; eauto].
    injection Hp as <-. cbn [disable pl_last_dep]. apply (H5 z pl Hz).
    replace (d_app z) with a by lia. replace (d_pool z) with i by lia. exact Epl.
  - intros z pl0 Hz Hp. rewrite find_pool_ins in Hp. cbn [disable pl_app pl_id] in Hp.
    destruct ((pl_app pl =? w_app z) && (pl_id pl =? w_pool z)) eqn:E; [|eapply H6; eauto].
    injection Hp as <-. cbn [disable pl_last_wd]. apply (H6 z pl Hz).
    replace (w_app z) with a by lia. replace (w_pool z) with i by lia. exact Epl.
  - intros a0 i0 pl0 Hp. rewrite find_pool_ins in Hp. cbn [disable pl_app pl_id] in Hp.
    destruct ((pl_app pl =? a0) && (pl_id pl =? i0)) eqn:E; [|eapply H7; eauto].
    apply (H7 a0 i0 pl). replace a0 with a by lia. replace i0 with i by lia. exact Epl.
  - intros a0 i0 pl0 Hp Hs. rewrite find_pool_ins in Hp. cbn [disable pl_app pl_id] in Hp.
    destruct ((pl_app pl =? a0) && (pl_id pl =? i0)) eqn:E; [|eapply H10; eauto]. injection Hp as <-. reflexivity.
Qed.

(* the successful withdrawal without the optional disabling, on a state [t] in which the pool is
   already marked disabled when the whole supply is about to be burnt *)
Definition wd_final (t : state) (r : wdreq) (l3 : ledger) (x y : Z) : state :=
  let pd := pool_denom (w_app r) (w_pool r) in
  put_wd (set_ge_owed (set_sup (set_led t (ladd l3 Module pd (- w_pc r))) (fadd2 (sup t) (w_app r) (w_pool r) (- w_pc r)))
                      (fadd1 (ge_owed t) pd (- w_pc r)))
         (mkWd (w_app r) (w_pool r) (w_id r) (w_owner r) (w_pc r) x y 2).

Lemma pi_wd_core t r l3 x y :
  PInv t -> In r (wds t) -> w_status r = 1 ->
  (forall d, l3 GlobalEscrow d = led t GlobalEscrow d - (if pool_denom (w_app r) (w_pool r) =? d then w_pc r else 0)) ->
  w_pc r <= sup t (w_app r) (w_pool r) ->
  (w_pc r = sup t (w_app r) (w_pool r) ->
   forall pl0, find_pool (w_app r) (w_pool r) (pools t) = Some pl0 -> pl_disabled pl0 = true) ->
  PInv (wd_final t r l3 x y).
Proof.
  intros [H0 H1 H2 H3 H4 H5 H6 H7 H8 H9 H10 H11 H12] Hin Hst Hl3 Hle Hdis. unfold wd_final.
  set (pd := pool_denom (w_app r) (w_pool r)) in *.
  set (r' := mkWd (w_app r) (w_pool r) (w_id r) (w_owner r) (w_pc r) x y 2).
  constructor; unfold pending; proj_cbn;
    change (fun x : wdreq => if wd_eqb x r' then r' else x) with (fun x : wdreq => if k3_eqb (wkey x) (wkey r) then r' else x).
  - exact H0.
  - intros d. unfold ladd. cbn [acct_eqb andb]. rewrite Hl3. unfold fadd1. rewrite H1. ifs.
  - intros d. unfold fadd1. rewrite H2. unfold pending.
    rewrite (zsum_replace wkey (wcoins d) r r' (wds t) H4 Hin eq_refl).
    assert (Hr' : wcoins d r' = 0) by reflexivity.
    assert (Hr : wcoins d r = if pd =? d then w_pc r else 0) by (unfold wcoins; rewrite Hst; reflexivity).
    rewrite Hr, Hr'. ifs.
  - exact H3.
  - rewrite (map_key_replace wkey r r' _ eq_refl). exact H4.
  - exact H5.
  - intros z pl0 Hz Hp. destruct (in_replace wkey _ _ _ _ Hz) as [->|Hz']; [apply (H6 r pl0 Hin Hp)|eapply H6; eauto].
  - exact H7.
  - exact H8.
  - intros z Hz. destruct (in_replace wkey _ _ _ _ Hz) as [->|Hz']; [apply (H9 r Hin)|apply H9; exact Hz'].
  - intros a i pl0 Hp Hs. unfold fadd2 in Hs. destruct ((w_app r =? a) && (w_pool r =? i)) eqn:E; [|eapply H10; eauto].
    replace a with (w_app r) in * by lia. replace i with (w_pool r) in * by lia. apply (Hdis ltac:(lia) pl0 Hp).
  - intros a i. unfold fadd2. pose proof (H11 a i). destruct ((w_app r =? a) && (w_pool r =? i)) eqn:E; [|lia].
    replace a with (w_app r) in * by lia. replace i with (w_pool r) in * by lia. lia.
  - intros a i Hlt. unfold fadd2. destruct ((w_app r =? a) && (w_pool r =? i)) eqn:E; [|apply H12; exact Hlt].
    pose proof (H9 r Hin). replace a with (w_app r) in Hlt by lia. lia.
Qed.

Lemma pi_do_withdraw s r pl pr x y s' :
  PInv s -> In r (wds s) -> w_status r = 1 -> find_pool (w_app r) (w_pool r) (pools s) = Some pl ->
  do_withdraw s r pl pr x y = Ok s' -> PInv s'.
Proof.
  intros HI Hin Hst Epl H. unfold do_withdraw in H. unfold obind in H.
  destruct (ssend s _ _ _ (w_pc r)) as [s1| |] eqn:E1; try discriminate.
  destruct (ssend s1 _ _ _ y) as [s2| |] eqn:E2; try discriminate.
  destruct (ssend s2 _ _ _ x) as [s3| |] eqn:E3; try discriminate.
  apply ssend_inv in E1. destruct E1 as (l1 & Hl1 & ->). apply ssend_inv in E2. destruct E2 as (l2 & Hl2 & ->).
  apply ssend_inv in E3. destruct E3 as (l3 & Hl3 & ->). proj_cbn.
  destruct (l3 Module (pool_denom (w_app r) (w_pool r)) <? w_pc r); [discriminate|].
  destruct (sup s (w_app r) (w_pool r) <? w_pc r) eqn:Esup; [discriminate|].
  assert (HL : forall d, l3 GlobalEscrow d = led s GlobalEscrow d - (if pool_denom (w_app r) (w_pool r) =? d then w_pc r else 0)).
  { intros d. led_norm. ifs. }
  destruct (w_pc r =? sup s (w_app r) (w_pool r)) eqn:Eall; injection H as <-.
  - replace (put_wd _ _) with (wd_final (disable_pool s pl) r l3 x y) by (destruct s; reflexivity).
    apply pi_wd_core; proj_cbn; try assumption; [eapply pi_disable_pool; eauto|lia|].
    intros _ pl0 Hp. rewrite find_pool_ins in Hp. destruct (find_pool_in _ _ _ _ Epl) as (_ & Pa & Pi).
    cbn [disable pl_app pl_id] in Hp. rewrite Pa, Pi, !Z.eqb_refl in Hp. cbn [andb] in Hp. injection Hp as <-. reflexivity.
  - replace (put_wd _ _) with (wd_final s r l3 x y) by (destruct s; reflexivity).
    apply pi_wd_core; try assumption; lia.
Qed.

Lemma pi_new_pool s P app c pr rg ax ay ps s' :
  PInv s -> get_params s app = Some P -> new_pool s P app c pr rg ax ay ps = Ok s' -> PInv s'.
Proof.
  intros [H0 H1 H2 H3 H4 H5 H6 H7 H8 H9 H10 H11 H12] HP H. unfold new_pool, obind in H.
  set (id := match aget (last_pool s) app with Some i => i | None => 0 end + 1) in *.
  assert (Hid : id = cnt (last_pool s) app + 1) by reflexivity.
  destruct (ssend _ _ _ _ ay) as [s1| |] eqn:E1; try discriminate.
  destruct (ssend s1 _ _ _ ax) as [s2| |] eqn:E2; try discriminate.
  destruct (ssend s2 _ _ _ _) as [s3| |] eqn:E3; try discriminate.
  apply ssend_inv in E1. destruct E1 as (l1 & Hl1 & ->). apply ssend_inv in E2. destruct E2 as (l2 & Hl2 & ->).
  apply ssend_inv in E3. destruct E3 as (l3 & Hl3 & ->).
  apply ssend_inv in H. destruct H as (l4 & Hl4 & ->). proj_cbn.
  pose proof (min_pc_pos s app P H0 HP) as Hmin.
  set (pc := Z.max ps (pr_min_pc P)) in *. assert (Hpc : 0 < pc) by (unfold pc; lia).
  set (npl := mkPool app id (p_id pr) rg false 0 0) in *.
  constructor; proj_cbn; unfold pending in *; proj_cbn.
  - exact H0.
  - intros d. led_norm. rewrite H1. ifs.
  - exact H2.
  - exact H3.
  - exact H4.
  - intros z pl0 Hz Hp. rewrite find_pool_ins in Hp. cbn [npl pl_app pl_id] in Hp.
    destruct ((app =? d_app z) && (id =? d_pool z)) eqn:E; [|eapply H5; eauto].
    pose proof (H8 z Hz). replace (d_app z) with app in * by lia. lia.
  - intros z pl0 Hz Hp. rewrite find_pool_ins in Hp. cbn [npl pl_app pl_id] in Hp.
    destruct ((app =? w_app z) && (id =? w_pool z)) eqn:E; [|eapply H6; eauto].
    pose proof (H9 z Hz). replace (w_app z) with app in * by lia. lia.
  - intros a i pl0 Hp. rewrite find_pool_ins in Hp. cbn [npl pl_app pl_id] in Hp. rewrite cnt_aset.
    destruct ((app =? a) && (id =? i)) eqn:E.
    + destruct (app =? a); lia.
    + specialize (H7 a i pl0 Hp). destruct (app =? a) eqn:Ea; [|exact H7]. replace a with app in H7 by lia. lia.
  - intros z Hz. rewrite cnt_aset. specialize (H8 z Hz). destruct (app =? d_app z) eqn:Ea; [|exact H8].
    replace (d_app z) with app in H8 by lia. lia.
  - intros z Hz. rewrite cnt_aset. specialize (H9 z Hz). destruct (app =? w_app z) eqn:Ea; [|exact H9].
    replace (w_app z) with app in H9 by lia. lia.
  - intros a i pl0 Hp Hs. rewrite find_pool_ins in Hp. cbn [npl pl_app pl_id] in Hp. unfold fadd2 in Hs.
    destruct ((app =? a) && (id =? i)) eqn:E.
    + pose proof (H11 a i). lia.
    + eapply H10; eauto.
  - intros a i. unfold fadd2. pose proof (H11 a i). destruct ((app =? a) && (id =? i)); lia.
  - intros a i Hlt. rewrite cnt_aset in Hlt. unfold fadd2. destruct ((app =? a) && (id =? i)) eqn:E.
    + destruct (app =? a); lia.
    + apply H12. destruct (app =? a) eqn:Ea; [|exact Hlt]. replace a with app by lia. lia.
Qed.

Lemma pi_disable_depleted s pr : PInv s -> PInv (disable_depleted s pr).
Proof.
  intros [H0 H1 H2 H3 H4 H5 H6 H7 H8 H9 H10 H11 H12]. unfold disable_depleted.
  set (f := fun pl => if (pl_app pl =? p_app pr) && (pl_pair pl =? p_id pr) && negb (pl_disabled pl) && pool_depleted s pr pl
                      then disable pl else pl).
  assert (Hf : forall p, pl_app (f p) = pl_app p /\ pl_id (f p) = pl_id p).
  { intros p. unfold f. destruct (_ && _); split; reflexivity. }
  assert (Hc : forall p, pl_last_dep (f p) = pl_last_dep p /\ pl_last_wd (f p) = pl_last_wd p /\ (pl_disabled p = true -> pl_disabled (f p) = true)).
  { intros p. unfold f. destruct (_ && _); cbn; auto. }
  constructor; proj_cbn; unfold pending in *; proj_cbn; try assumption.
  - intros z pl0 Hz Hp. rewrite (find_pool_map _ _ f _ Hf) in Hp. destruct (find_pool _ _ (pools s)) as [q|] eqn:Eq; [|discriminate].
    injection Hp as <-. rewrite (proj1 (Hc q)). eapply H5; eauto.
  - intros z pl0 Hz Hp. rewrite (find_pool_map _ _ f _ Hf) in Hp. destruct (find_pool _ _ (pools s)) as [q|] eqn:Eq; [|discriminate].
    injection Hp as <-. rewrite (proj1 (proj2 (Hc q))). eapply H6; eauto.
  - intros a i pl0 Hp. rewrite (find_pool_map _ _ f _ Hf) in Hp. destruct (find_pool a i (pools s)) as [q|] eqn:Eq; [|discriminate].
    eapply H7; eauto.
  - intros a i pl0 Hp Hs. rewrite (find_pool_map _ _ f _ Hf) in Hp. destruct (find_pool a i (pools s)) as [q|] eqn:Eq; [|discriminate].
    injection Hp as <-. apply (proj2 (proj2 (Hc q))). eapply H10; eauto.
Qed.

Lemma pi_begin_app s app : PInv s -> PInv (begin_app app s).
Proof.
  intros [H0 H1 H2 H3 H4 H5 H6 H7 H8 H9 H10 H11 H12]. unfold begin_app.
  constructor; proj_cbn; unfold pending in *; proj_cbn; try assumption.
  - intros d. rewrite H2. f_equal.
    + symmetry. clear. induction (deps s) as [|x r IH]; cbn [filter map zsum]; [reflexivity|].
      destruct (negb ((d_app x =? app) && negb (d_status x =? 1))) eqn:E; cbn [map zsum]; [lia|].
      rewrite IH. unfold dcoins. destruct (d_status x =? 1); [|lia]. destruct (d_app x =? app); discriminate.
    + symmetry. clear. induction (wds s) as [|x r IH]; cbn [filter map zsum]; [reflexivity|].
      destruct (negb ((w_app x =? app) && negb (w_status x =? 1))) eqn:E; cbn [map zsum]; [lia|].
      rewrite IH. unfold wcoins. destruct (w_status x =? 1); [|lia]. destruct (w_app x =? app); discriminate.
  - apply nodup_filter_map, H3.
  - apply nodup_filter_map, H4.
  - intros z pl Hz. apply filter_In in Hz. apply H5, Hz.
  - intros z pl Hz. apply filter_In in Hz. apply H6, Hz.
  - intros z Hz. apply filter_In in Hz. apply H8, Hz.
  - intros z Hz. apply filter_In in Hz. apply H9, Hz.
Qed.

Theorem pi_run ops s : Forall (fun o => is_addapp o = false) ops -> PInv s -> PInv (fold_left apply_op ops s).
Proof.
  intros Ho. apply (sw_run PInv); try assumption.
  - intros; eapply pinv_frame; [eapply pf_finish; eauto|assumption].
  - intros; eapply pinv_frame; [eapply pf_place; eauto|assumption].
  - intros s0 a o p HI _. eapply pinv_frame; [|exact HI]. pf_done. reflexivity.
  - intros; eapply pinv_frame; [eapply pf_mm_tail; eauto|assumption].
  - intros s0 k o g m p r HI _ _ _ _ _. eapply pinv_frame; [|exact HI]. destruct k as [[a pp] i]. unfold fill_book. pf_done. reflexivity.
  - intros s0 k o g st HI _ _ _. eapply pinv_frame; [|exact HI]. pf_done. reflexivity.
  - intros; eapply pinv_frame; [eapply pf_esc_in; eauto|assumption].
  - intros; eapply pinv_frame; [eapply pf_esc_out; eauto|assumption].
  - exact pi_disable_depleted.
  - intros s0 pr env HI _. eapply pinv_frame; [|exact HI]. pf_done. reflexivity.
  - exact pi_begin_app.
  - intros; eapply pinv_frame; [eapply pf_create_pair; eauto|assumption].
  - intros; eapply pi_new_pool; eauto.
  - exact pi_deposit_req.
  - exact pi_withdraw_req.
  - exact pi_fail_dep.
  - exact pi_fail_wd.
  - intros; eapply pi_disable_pool; eauto.
  - intros; eapply pi_do_deposit; eauto.
  - intros; eapply pi_do_withdraw; eauto.
  - intros; eapply pinv_frame; [eapply pf_farm; eauto|assumption].
  - intros; eapply pinv_frame; [eapply pf_unfarm; eauto|assumption].
  - intros; eapply pinv_frame; [eapply pf_process_queued|assumption].
  - intros s0 d HI. eapply pinv_frame; [|exact HI]. pf_done. reflexivity.
  - intros s0 w d amt HI. eapply pinv_frame; [|exact HI]. pf_done. intros. unfold ladd. cbn [acct_eqb andb]. reflexivity.
Qed.
