(* The emergency shutdown over every finite history: vault life-cycle steps, ESM deposits / execution, BeginBlocker
   runs, the keeper steps and collateral redemptions, with arbitrary arguments and environment values. *)
From Comdex Require Import Lib.Base Lib.DecArith Lib.DecFacts Lib.Atomic Model.Vault Model.VaultLife Model.EsmLife
  Proofs.VaultProofs Proofs.VaultExec Proofs.VaultHandlers Proofs.VaultInv Proofs.VaultLifeBase Proofs.VaultLifeInv Proofs.VaultLifeHist
  Proofs.VaultLifeSupply Proofs.EsmLifeBase Proofs.EsmLifeInv Proofs.EsmLifeSteps Proofs.EsmLifeFrame.
From Coq Require Import ZifyBool Sorted.

(* what is asked of one step: the hypotheses of the life cycle ([lop_ok]: signers are not the custody / collector
   accounts, bid amounts within the bounds of C10) and: no message is signed by the esm module account *)
Definition eop_ok (e : estate) (o : eop) : Prop :=
  match o with
  | ELife (EsmRedeem _) => True
  | ELife o' => lop_ok (el e) o' /\ lop_esm_ok o'
  | EDeposit f _ _ _ | ERedeem f _ _ _ => f <> VAULT /\ f <> ESMA
  | _ => True
  end.

Fixpoint ehist_ok (c : cfg) (lc : lcfg) (ec : ecfg) (e : estate) (ops : list eop) : Prop :=
  match ops with
  | [] => True
  | o :: r => eop_ok e o /\ ehist_ok c lc ec (estep c lc ec e o) r
  end.

Definition Both (c : cfg) (ext : Z -> Z) (e : estate) : Prop := InvE c e /\ InvE02 c ext e.

Lemma try_step_both c ext cond f k e : Both c ext e ->
  (forall x x', InvE c x -> f x = Ok x' -> InvE c x' /\ (forall ext', InvE02 c ext' x -> InvE02 c ext' x')) ->
  (forall x, Both c ext x -> Both c ext (k x)) -> Both c ext (try_step cond f k e).
Proof.
  intros B Hf Hk. unfold try_step. destruct cond; [|apply Hk; exact B].
  destruct (f e) as [e'| |] eqn:F; try exact B. destruct (Hf e e' (proj1 B) F) as [I J]. apply Hk. split; [exact I|exact (J ext (proj2 B))].
Qed.

Lemma begin_app_both c lc ec ext fees e app : cfg_ok c -> roles_ok c -> Both c ext e -> Both c ext (begin_app c lc ec fees e app).
Proof.
  intros CK RO B. unfold begin_app. cbv zeta.
  destruct (negb (EsmLife.ef_found (eflags e app))); [exact B|]. destruct (negb (e_status (esm (vs (el e)) app))); [exact B|].
  apply try_step_both; [exact B|intros x x' I H; exact (snapshot_invE c ec x app x' I H)|]. intros e1 B1.
  destruct ((now (vs (el e1)) >? e_end (esm (vs (el e)) app)) && e_snap (esm (vs (el e)) app)); [|exact B1].
  apply try_step_both; [exact B1|intros x x' I H; exact (e_vault_invE c lc x app x' CK RO I H)|]. intros e2 B2.
  apply try_step_both; [exact B2|intros x x' I H; exact (e_stable_invE c lc x app x' CK RO I H)|]. intros e3 B3.
  apply try_step_both; [exact B3|intros x x' I H; exact (e_collector_invE c lc ec x app _ x' I H)|]. intros e4 B4.
  apply try_step_both; [exact B4|intros x x' I H; exact (e_share_invE c lc ec x app x' I H)|]. intros e5 B5. exact B5.
Qed.

Lemma begin_block_both c lc ec ext fees e : cfg_ok c -> roles_ok c -> Both c ext e -> Both c ext (begin_block c lc ec fees e).
Proof.
  intros CK RO. unfold begin_block. generalize (apps c) as al. intros al. revert e.
  induction al as [|a al IH]; intros e B; cbn [fold_left]; [exact B|]. apply IH. apply begin_app_both; assumption.
Qed.

Theorem erun_both c lc ec ext e o e' : cfg_ok c -> roles_ok c -> eop_ok e o -> Both c ext e -> erun c lc ec e o = Ok e' -> Both c ext e'.
Proof.
  intros CK RO Hok [I J] H.
  assert (G : forall x, InvE c x /\ (forall ext', InvE02 c ext' e -> InvE02 c ext' x) -> Both c ext x).
  { intros x [Ix Jx]. split; [exact Ix|exact (Jx ext J)]. }
  destruct o as [o| | | | | | | | |]; cbn [erun eop_ok] in *.
  - destruct o as [o| | | | |app].
    + (* vault messages and the environment; a status record written by hand resets the step flags *)
      destruct Hok as [Hl He].
      assert (K : forall l', lrun c lc (el e) (VOp o) = Ok l' -> Both c ext (set_el e l')).
      { intros l' R. apply G. exact (elife_invE c lc e (VOp o) l' CK Hl He Logic.I I R). }
      destruct o; try (destruct (lrun c lc (el e) (VOp _)) as [l'| |] eqn:R; try discriminate H; injection H as <-; exact (K l' eq_refl)).
      destruct (lrun c lc (el e) (VOp _)) as [l'| |] eqn:R; try discriminate H. injection H as <-.
      destruct (K l' eq_refl) as [I1 J1]. split; [apply invE_flags; exact I1|apply invE02_flags; exact J1].
    + destruct Hok as [Hl He]. destruct (lrun c lc (el e) _) as [l'| |] eqn:R; try discriminate H. injection H as <-.
      apply G. exact (elife_invE c lc e _ l' CK Hl He Logic.I I R).
    + destruct Hok as [Hl He]. destruct (lrun c lc (el e) _) as [l'| |] eqn:R; try discriminate H. injection H as <-.
      apply G. exact (elife_invE c lc e _ l' CK Hl He Logic.I I R).
    + destruct Hok as [Hl He]. destruct (lrun c lc (el e) _) as [l'| |] eqn:R; try discriminate H. injection H as <-.
      apply G. exact (elife_invE c lc e _ l' CK Hl He Logic.I I R).
    + destruct Hok as [Hl He]. destruct (lrun c lc (el e) _) as [l'| |] eqn:R; try discriminate H. injection H as <-.
      apply G. exact (elife_invE c lc e _ l' CK Hl He Logic.I I R).
    + apply G. exact (e_vault_invE c lc e app e' CK RO I H).
  - apply G. exact (deposit_invE c ec e from app denom amt e' (proj1 Hok) (proj2 Hok) I H).
  - apply G. exact (execute_invE c ec e app e' I H).
  - apply G. exact (redeem_invE c lc ec e from app denom amt e' (proj1 Hok) (proj2 Hok) I H).
  - apply G. exact (snapshot_invE c ec e app e' I H).
  - apply G. exact (e_vault_invE c lc e app e' CK RO I H).
  - apply G. exact (e_stable_invE c lc e app e' CK RO I H).
  - apply G. exact (e_collector_invE c lc ec e app fees e' I H).
  - apply G. exact (e_share_invE c lc ec e app e' I H).
  - injection H as <-. apply begin_block_both; [exact CK|exact RO|split; assumption].
Qed.

Lemma estep_cases c lc ec e o : (exists e', erun c lc ec e o = Ok e' /\ estep c lc ec e o = e') \/ (is_ok (erun c lc ec e o) = false /\ estep c lc ec e o = e).
Proof.
  unfold estep. destruct (erun c lc ec e o) as [e'| |]; cbn [ekeep is_ok].
  - left. exists e'. split; reflexivity.
  - right. split; reflexivity.
  - right. split; reflexivity.
Qed.

Lemma estep_rejected c lc ec e o : is_ok (erun c lc ec e o) = false -> estep c lc ec e o = e.
Proof. unfold estep. destruct (erun c lc ec e o); [discriminate|reflexivity|reflexivity]. Qed.

Theorem ehistory_both c lc ec ext ops : cfg_ok c -> roles_ok c -> forall e, ehist_ok c lc ec e ops -> Both c ext e ->
  Both c ext (erun_all c lc ec ops e).
Proof.
  intros CK RO. induction ops as [|o ops IH]; intros e HO B; [exact B|].
  destruct HO as [Ho HO]. cbn [erun_all fold_left]. apply IH; [exact HO|].
  destruct (estep_cases c lc ec e o) as [(e' & H & ->)|[_ ->]]; [|exact B]. exact (erun_both c lc ec ext e o e' CK RO Ho B H).
Qed.

(* ---------- the initial state ---------- *)
Lemma invE_init c b sp t pr tm : (forall d, b VAULT d = 0) -> (forall d, b ESMA d = 0) -> InvE c (elift (lift (init b sp t pr)) tm).
Proof.
  intros Hv He. constructor; cbn [elift el recs cool epool epaid].
  - apply invL_init. exact Hv.
  - split; cbn [lift vs lks init vaults]; intros x [].
  - constructor.
  - intros a _ r [].
  - intros r [].
  - intros d. cbn. rewrite He. reflexivity.
  - intros d. reflexivity.
  - intros d. lia.
  - intros d. cbn. rewrite He. lia.
  - intros d. reflexivity.
Qed.
Lemma invE02_init c b sp t pr tm : InvE02 c sp (elift (lift (init b sp t pr)) tm).
Proof.
  split; [|intros d; cbn; lia]. intros d. destruct (inv02L_init c b sp t pr d) as [J1 J2]. cbn [elift el gburn]. split; [lia|exact J2].
Qed.

(* ---------- what the invariants say, clause by clause ---------- *)
Theorem invE_identities c e : InvE c e ->
  (forall d, bal (vs (el e)) VAULT d = coll_sum c (vs (el e)) d + unsol (vs (el e)) d - er_short (el e) d) /\
  (forall d, bal (vs (el e)) ESMA d = esm_coll e d) /\
  (forall d, esm_coll e d = epool e d - epaid e d /\ 0 <= epaid e d <= epool e d).
Proof.
  intros I. split; [intros d; exact (invL_custody c _ d (ie_life _ _ I))|]. split; [exact (ie_custody _ _ I)|].
  intros d. pose proof (ie_pool _ _ I d). pose proof (ie_paid _ _ I d). pose proof (ie_nonneg _ _ I d). pose proof (ie_custody _ _ I d). lia.
Qed.

Theorem invE02_backing c ext e : InvE c e -> InvE02 c ext e ->
  forall d, sup (vs (el e)) d - ext d = recorded_e c e d - over (el e) d - gburn e d /\ 0 <= over (el e) d /\ 0 <= gburn e d.
Proof.
  intros I [J G] d. destruct (J d) as [J1 J2]. unfold recorded_e. unfold recorded_d in J1. rewrite (ie_debt _ _ I d) in J1.
  split; [lia|]. split; [exact J2|exact (G d)].
Qed.

Theorem invE_holds c e denoms : InvE c e -> kf_C01_life c denoms (el e) = false -> holds_C01_esm c denoms e = true.
Proof.
  intros I K. unfold holds_C01_esm. rewrite (invL_holds c _ denoms (ie_life _ _ I) K). cbn [andb].
  apply forallb_forall. intros d _. unfold c01e_esm_custody. rewrite (ie_custody _ _ I d). apply Z.eqb_refl.
Qed.
Theorem invE_esm_custody c e denoms : InvE c e -> forallb (c01e_esm_custody e) denoms = true /\ forallb (c01e_paid_le_pool e) denoms = true.
Proof.
  intros I. split; apply forallb_forall; intros d _.
  - unfold c01e_esm_custody. rewrite (ie_custody _ _ I d). apply Z.eqb_refl.
  - unfold c01e_paid_le_pool. destruct (invE_identities c e I) as (_ & _ & P). destruct (P d) as [_ [P1 P2]]. apply andb_true_iff. split; apply Z.leb_le; assumption.
Qed.
Theorem invE02_holds c ext e denoms : InvE c e -> InvE02 c ext e -> holds_C02_esm c ext denoms e = true.
Proof.
  intros I J. unfold holds_C02_esm. apply forallb_forall. intros d _. unfold c02e_backing. destruct (invE02_backing c ext e I J d) as (H1 & H2 & H3). apply Z.leb_le. lia.
Qed.

(* ---------- histories without liquidations: exact equality for every denom no governance burn touched ---------- *)
Definition seiz_same (l l' : lstate) : Prop := lks l' = lks l /\ over l' = over l.
Lemma seiz_refl l : seiz_same l l. Proof. split; reflexivity. Qed.
Lemma seiz_trans l1 l2 l3 : seiz_same l1 l2 -> seiz_same l2 l3 -> seiz_same l1 l3.
Proof. intros [A1 A2] [B1 B2]. split; congruence. Qed.

Lemma e_vault_loop_seiz c lc app vl : forall e e', e_vault_loop c lc app vl e = Ok e' -> seiz_same (el e) (el e').
Proof.
  induction vl as [|v vl IH]; intros e e' H; cbn [e_vault_loop] in H; [injection H as <-; apply seiz_refl|].
  destruct (e_vault_one c lc app e v) as [e1| |] eqn:E1; cbn [obind] in H; try discriminate H.
  apply (seiz_trans _ (el e1)); [|exact (IH e1 e' H)].
  destruct (e_vault_one_spec c lc app e v e1 E1) as [[_ ->]|(_ & ep & l1 & _ & R1 & VR)]; [apply seiz_refl|].
  rewrite (vr_el _ _ _ _ _ _ _ VR). destruct (esm_redeem_one_shape c lc app (el e) v l1 R1) as [->|(e0 & _ & _ & _ & _ & Hl & _ & Ho)]; [apply seiz_refl|split; assumption].
Qed.
Lemma e_stable_loop_seiz c lc app xl : forall e e', e_stable_loop c lc app xl e = Ok e' -> seiz_same (el e) (el e').
Proof.
  induction xl as [|x xl IH]; intros e e' H; cbn [e_stable_loop] in H; [injection H as <-; apply seiz_refl|].
  destruct (e_stable_one c lc app e x) as [e1| |] eqn:E1; cbn [obind] in H; try discriminate H.
  apply (seiz_trans _ (el e1)); [|exact (IH e1 e' H)].
  destruct (e_stable_one_spec c lc app e x e1 E1) as [[_ ->]|(_ & ep & b1 & _ & _ & _ & VR)]; [apply seiz_refl|].
  rewrite (vr_el _ _ _ _ _ _ _ VR). split; reflexivity.
Qed.
Lemma e_collector_loop_seiz lc ec app fees : forall e e', e_collector_loop lc ec app fees e = Ok e' -> seiz_same (el e) (el e').
Proof.
  induction fees as [|it fees IH]; intros e e' H; cbn [e_collector_loop] in H; [injection H as <-; apply seiz_refl|].
  destruct (e_collector_one lc ec app e it) as [e1| |] eqn:E1; cbn [obind] in H; try discriminate H.
  apply (seiz_trans _ (el e1)); [|exact (IH e1 e' H)].
  unfold e_collector_one in E1. destruct it as [asset fee]. cbv zeta in E1.
  exec1 E1; [injection E1 as <-; apply seiz_refl|]. destruct (find_rec (recs e) app asset); [|discriminate E1].
  do 2 exec1 E1. exec1 E1. do 3 exec1 E1. exec1 E1. injection E1 as <-. split; reflexivity.
Qed.

Lemma esm_step_seiz c lc ec e o e' : (forall o', o <> ELife o') -> (forall f, o <> EBegin f) -> erun c lc ec e o = Ok e' -> seiz_same (el e) (el e').
Proof.
  intros Hn Hb H. destruct o; cbn [erun] in H; try (exfalso; eapply Hn; reflexivity); try (exfalso; eapply Hb; reflexivity).
  - unfold deposit_esm in H. cbv zeta in H. do 5 exec1 H. exec1 H. exec1 H. exec1 H. exec1 H. exec1 H. injection H as <-. split; reflexivity.
  - unfold execute_esm in H. cbv zeta in H. do 5 exec1 H. injection H as <-. split; reflexivity.
  - unfold redeem in H. cbv zeta in H. exec1 H. exec1 H. exec1 H. destruct p as [ct dt]. exec1 H. exec1 H. exec1 H. exec1 H. exec1 H. exec1 H. exec1 H. exec1 H.
    destruct st2 as [[s3 rs] pd]. exec1 H. exec1 H. exec1 H. exec1 H. injection H as <-. split; reflexivity.
  - unfold snapshot in H. cbv zeta in H. destruct (snap_loop _ _ _). injection H as <-. split; reflexivity.
  - unfold e_vault in H. destruct (negb _); [discriminate H|]. destruct (e_vault_loop _ _ _ _ _) as [e1| |] eqn:L; cbn [obind] in H; try discriminate H.
    injection H as <-. exact (e_vault_loop_seiz _ _ _ _ _ _ L).
  - unfold e_stable in H. destruct (negb _); [discriminate H|]. destruct (e_stable_loop _ _ _ _ _) as [e1| |] eqn:L; cbn [obind] in H; try discriminate H.
    injection H as <-. exact (e_stable_loop_seiz _ _ _ _ _ _ L).
  - unfold e_collector in H. destruct (negb _); [discriminate H|]. destruct (e_collector_loop _ _ _ _ _) as [e1| |] eqn:L; cbn [obind] in H; try discriminate H.
    injection H as <-. exact (e_collector_loop_seiz _ _ _ _ _ _ L).
  - unfold e_share in H. destruct (negb _); [discriminate H|]. destruct (share_loop _ _ _ _ _ _ _); cbn [obind] in H; try discriminate H. injection H as <-. split; reflexivity.
Qed.

Lemma try_step_seiz cond f k e : (forall x x', f x = Ok x' -> seiz_same (el x) (el x')) -> (forall x, seiz_same (el x) (el (k x))) ->
  seiz_same (el e) (el (try_step cond f k e)).
Proof.
  intros Hf Hk. unfold try_step. destruct cond; [|apply Hk]. destruct (f e) as [e'| |] eqn:F; try apply seiz_refl.
  exact (seiz_trans _ _ _ (Hf e e' F) (Hk e')).
Qed.

Lemma begin_app_seiz c lc ec fees e app : seiz_same (el e) (el (begin_app c lc ec fees e app)).
Proof.
  unfold begin_app. cbv zeta. destruct (negb _); [apply seiz_refl|]. destruct (negb _); [apply seiz_refl|].
  apply try_step_seiz; [intros x x' H; apply (esm_step_seiz c lc ec x (ESnapshot app) x'); [discriminate|discriminate|exact H]|]. intros e1.
  destruct (_ && _); [|apply seiz_refl].
  apply try_step_seiz; [intros x x' H; apply (esm_step_seiz c lc ec x (EVault app) x'); [discriminate|discriminate|exact H]|]. intros e2.
  apply try_step_seiz; [intros x x' H; apply (esm_step_seiz c lc ec x (EStable app) x'); [discriminate|discriminate|exact H]|]. intros e3.
  apply try_step_seiz; [intros x x' H; apply (esm_step_seiz c lc ec x (ECollector app (fees_of fees app)) x'); [discriminate|discriminate|exact H]|]. intros e4.
  apply try_step_seiz; [intros x x' H; apply (esm_step_seiz c lc ec x (EShare app) x'); [discriminate|discriminate|exact H]|]. intros e5. apply seiz_refl.
Qed.

Lemma begin_block_seiz c lc ec fees e : seiz_same (el e) (el (begin_block c lc ec fees e)).
Proof.
  unfold begin_block. generalize (apps c) as al. intros al. revert e.
  induction al as [|a al IH]; intros e; cbn [fold_left]; [apply seiz_refl|]. exact (seiz_trans _ _ _ (begin_app_seiz c lc ec fees e a) (IH _)).
Qed.

Lemma seiz_noseized l l' : seiz_same l l' -> NoSeized l -> NoSeized l'.
Proof. intros [A B] [N1 N2]. split; [rewrite A; exact N1|rewrite B; exact N2]. Qed.

Lemma erun_noseized c lc ec e o e' : is_eliq o = false -> NoSeized (el e) -> erun c lc ec e o = Ok e' -> NoSeized (el e').
Proof.
  intros Hn N H. destruct o as [o| | | | | | | | |].
  - cbn [is_eliq] in Hn. destruct o as [o| | | | |app]; cbn [erun] in H.
    + destruct o; try (destruct (lrun c lc (el e) (VOp _)) as [l'| |] eqn:R; try discriminate H; injection H as <-; exact (lrun_noseized c lc (el e) _ l' Hn N R)).
    + discriminate Hn.
    + discriminate Hn.
    + destruct (lrun c lc (el e) _) as [l'| |] eqn:R; try discriminate H. injection H as <-. exact (lrun_noseized c lc (el e) _ l' Hn N R).
    + destruct (lrun c lc (el e) _) as [l'| |] eqn:R; try discriminate H. injection H as <-. exact (lrun_noseized c lc (el e) _ l' Hn N R).
    + apply (seiz_noseized (el e)); [|exact N]. apply (esm_step_seiz c lc ec e (EVault app) e'); [discriminate|discriminate|exact H].
  - apply (seiz_noseized (el e)); [|exact N]. eapply (esm_step_seiz c lc ec e _ e'). 3: exact H. all: discriminate.
  - apply (seiz_noseized (el e)); [|exact N]. eapply (esm_step_seiz c lc ec e _ e'). 3: exact H. all: discriminate.
  - apply (seiz_noseized (el e)); [|exact N]. eapply (esm_step_seiz c lc ec e _ e'). 3: exact H. all: discriminate.
  - apply (seiz_noseized (el e)); [|exact N]. eapply (esm_step_seiz c lc ec e _ e'). 3: exact H. all: discriminate.
  - apply (seiz_noseized (el e)); [|exact N]. eapply (esm_step_seiz c lc ec e _ e'). 3: exact H. all: discriminate.
  - apply (seiz_noseized (el e)); [|exact N]. eapply (esm_step_seiz c lc ec e _ e'). 3: exact H. all: discriminate.
  - apply (seiz_noseized (el e)); [|exact N]. eapply (esm_step_seiz c lc ec e _ e'). 3: exact H. all: discriminate.
  - apply (seiz_noseized (el e)); [|exact N]. eapply (esm_step_seiz c lc ec e _ e'). 3: exact H. all: discriminate.
  - cbn [erun] in H. injection H as <-. exact (seiz_noseized _ _ (begin_block_seiz c lc ec fees e) N).
Qed.

Theorem ehistory_exact c lc ec ext ops : cfg_ok c -> roles_ok c -> Forall (fun o => is_eliq o = false) ops ->
  forall e, ehist_ok c lc ec e ops -> Both c ext e -> NoSeized (el e) ->
  forall d, gburn (erun_all c lc ec ops e) d = 0 -> sup (vs (el (erun_all c lc ec ops e))) d - ext d = recorded_e c (erun_all c lc ec ops e) d.
Proof.
  intros CK RO HN e HO B N.
  assert (G : NoSeized (el (erun_all c lc ec ops e))).
  { revert e HO B N. induction HN as [|o ops Ho HN IH]; intros e HO B N; [exact N|].
    destruct HO as [Hok HO]. cbn [erun_all fold_left].
    destruct (estep_cases c lc ec e o) as [(e' & H & E)|[_ E]]; rewrite E in *.
    - apply (IH e' HO (erun_both c lc ec ext e o e' CK RO Hok B H)). exact (erun_noseized c lc ec e o e' Ho N H).
    - exact (IH e HO B N). }
  destruct (ehistory_both c lc ec ext ops CK RO e HO B) as [I' J']. intros d Hg.
  destruct (invE02_backing c ext _ I' J' d) as (H1 & _ & _). rewrite (proj2 G d), Hg in H1. lia.
Qed.
