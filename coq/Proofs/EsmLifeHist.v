(* The emergency shutdown over every finite history: vault life-cycle steps, ESM deposits / execution, BeginBlocker
   runs, the keeper steps and collateral redemptions, with arbitrary arguments and environment values. *)
From Comdex Require Import Lib.Base Lib.DecArith Lib.DecFacts Lib.Atomic Model.Vault Model.VaultLife Model.EsmLife
  Proofs.VaultProofs Proofs.VaultExec Proofs.VaultHandlers Proofs.VaultInv Proofs.VaultLifeBase Proofs.VaultLifeInv Proofs.VaultLifeHist
  Proofs.VaultLifeSupply Proofs.EsmLifeBase Proofs.EsmLifeInv Proofs.EsmLifeSteps Proofs.EsmLifeFrame.
From Coq Require Import ZifyBool Sorted.

(* what is asked of one step: the hypotheses of the life cycle ([lop_ok]: signers are not the custody / collector
   accounts, bid amounts within the bounds of C10) and: no message is signed by the esm module account *)
Definition eop_ok (e : estate) (o : eop) : Prop :=
  match o with
  | ELife (EsmRedeem _) => True
  | ELife o' => lop_ok (el e) o' /\ lop_esm_ok o'
  | EDeposit f _ _ _ | ERedeem f _ _ _ => f <> VAULT /\ f <> ESMA
  | _ => True
  end.

Fixpoint ehist_ok (c : cfg) (lc : lcfg) (ec : ecfg) (e : estate) (ops : list eop) : Prop :=
  match ops with
  | [] => True
  | o :: r => eop_ok e o /\ ehist_ok c lc ec (estep c lc ec e o) r
  end.

(* [Pair c e e']: the books invariant holds after the step(s) and the supply invariant is carried over *)
Definition Pair (c : cfg) (e e' : estate) : Prop := InvE c e' /\ forall ext, InvE02 c ext e -> InvE02 c ext e'.
Definition Both (c : cfg) (ext : Z -> Z) (e : estate) : Prop := InvE c e /\ InvE02 c ext e.
Lemma pair_refl c e : InvE c e -> Pair c e e.
Proof. intros I. split; [exact I|intros ext J; exact J]. Qed.
Lemma pair_trans c e e1 e2 : Pair c e e1 -> Pair c e1 e2 -> Pair c e e2.
Proof. intros [I1 J1] [I2 J2]. split; [exact I2|intros ext J; exact (J2 ext (J1 ext J))]. Qed.

Lemma try_step_pair c cond f k e : InvE c e -> (forall x x', InvE c x -> f x = Ok x' -> Pair c x x') ->
  (forall x, InvE c x -> Pair c x (k x)) -> Pair c e (try_step cond f k e).
Proof.
  intros I Hf Hk. unfold try_step. destruct cond; [|apply Hk; exact I].
  destruct (f e) as [e'| |] eqn:F; try (apply pair_refl; exact I). pose proof (Hf e e' I F) as P1. exact (pair_trans c e e' _ P1 (Hk e' (proj1 P1))).
Qed.

Lemma begin_app_pair c lc ec fees e app : cfg_ok c -> roles_ok c -> InvE c e -> Pair c e (begin_app c lc ec fees e app).
Proof.
  intros CK RO I. unfold begin_app. cbv zeta.
  destruct (negb (EsmLife.ef_found (eflags e app))); [apply pair_refl; exact I|]. destruct (negb (e_status (esm (vs (el e)) app))); [apply pair_refl; exact I|].
  apply try_step_pair; [exact I|intros x x' Ix H; exact (snapshot_invE c ec x app x' Ix H)|]. intros e1 I1.
  destruct ((now (vs (el e1)) >? e_end (esm (vs (el e)) app)) && e_snap (esm (vs (el e)) app)); [|apply pair_refl; exact I1].
  apply try_step_pair; [exact I1|intros x x' Ix H; exact (e_vault_invE c lc x app x' CK RO Ix H)|]. intros e2 I2.
  apply try_step_pair; [exact I2|intros x x' Ix H; exact (e_stable_invE c lc x app x' CK RO Ix H)|]. intros e3 I3.
  apply try_step_pair; [exact I3|intros x x' Ix H; exact (e_collector_invE c lc ec x app _ x' Ix H)|]. intros e4 I4.
  apply try_step_pair; [exact I4|intros x x' Ix H; exact (e_share_invE c lc ec x app x' Ix H)|]. intros e5 I5. apply pair_refl; exact I5.
Qed.

Lemma begin_block_pair c lc ec fees e : cfg_ok c -> roles_ok c -> InvE c e -> Pair c e (begin_block c lc ec fees e).
Proof.
  intros CK RO. unfold begin_block. generalize (apps c) as al. intros al. revert e.
  induction al as [|a al IH]; intros e I; cbn [fold_left]; [apply pair_refl; exact I|].
  pose proof (begin_app_pair c lc ec fees e a CK RO I) as P1. exact (pair_trans c _ _ _ P1 (IH _ (proj1 P1))).
Qed.

Theorem erun_pair c lc ec e o e' : cfg_ok c -> roles_ok c -> eop_ok e o -> InvE c e -> erun c lc ec e o = Ok e' -> Pair c e e'.
Proof.
  intros CK RO Hok I H.
  destruct o as [o| | | | | | | | |]; cbn [erun eop_ok] in *.
  - destruct o as [o| | | | |app].
    + (* vault messages and the environment; a status record written by hand resets the step flags *)
      destruct Hok as [Hl He].
      assert (K : forall l', lrun c lc (el e) (VOp o) = Ok l' -> Pair c e (set_el e l')).
      { intros l' R. exact (elife_invE c lc e (VOp o) l' CK Hl He Logic.I I R). }
      destruct o; try (destruct (lrun c lc (el e) (VOp _)) as [l'| |] eqn:R; try discriminate H; injection H as <-; exact (K l' eq_refl)).
      destruct (lrun c lc (el e) (VOp _)) as [l'| |] eqn:R; try discriminate H. injection H as <-.
      destruct (K l' eq_refl) as [I1 J1]. split; [apply invE_flags; exact I1|intros ext J; apply invE02_flags; exact (J1 ext J)].
    + destruct Hok as [Hl He]. destruct (lrun c lc (el e) _) as [l'| |] eqn:R; try discriminate H. injection H as <-.
      exact (elife_invE c lc e _ l' CK Hl He Logic.I I R).
    + destruct Hok as [Hl He]. destruct (lrun c lc (el e) _) as [l'| |] eqn:R; try discriminate H. injection H as <-.
      exact (elife_invE c lc e _ l' CK Hl He Logic.I I R).
    + destruct Hok as [Hl He]. destruct (lrun c lc (el e) _) as [l'| |] eqn:R; try discriminate H. injection H as <-.
      exact (elife_invE c lc e _ l' CK Hl He Logic.I I R).
    + destruct Hok as [Hl He]. destruct (lrun c lc (el e) _) as [l'| |] eqn:R; try discriminate H. injection H as <-.
      exact (elife_invE c lc e _ l' CK Hl He Logic.I I R).
    + exact (e_vault_invE c lc e app e' CK RO I H).
  - exact (deposit_invE c ec e from app denom amt e' (proj1 Hok) (proj2 Hok) I H).
  - exact (execute_invE c ec e app e' I H).
  - exact (redeem_invE c lc ec e from app denom amt e' (proj1 Hok) (proj2 Hok) I H).
  - exact (snapshot_invE c ec e app e' I H).
  - exact (e_vault_invE c lc e app e' CK RO I H).
  - exact (e_stable_invE c lc e app e' CK RO I H).
  - exact (e_collector_invE c lc ec e app fees e' I H).
  - exact (e_share_invE c lc ec e app e' I H).
  - injection H as <-. apply begin_block_pair; assumption.
Qed.

Theorem erun_both c lc ec ext e o e' : cfg_ok c -> roles_ok c -> eop_ok e o -> Both c ext e -> erun c lc ec e o = Ok e' -> Both c ext e'.
Proof. intros CK RO Hok [I J] H. destruct (erun_pair c lc ec e o e' CK RO Hok I H) as [I' J']. split; [exact I'|exact (J' ext J)]. Qed.

Lemma estep_cases c lc ec e o : (exists e', erun c lc ec e o = Ok e' /\ estep c lc ec e o = e') \/ (is_ok (erun c lc ec e o) = false /\ estep c lc ec e o = e).
Proof.
  unfold estep. destruct (erun c lc ec e o) as [e'| |]; cbn [ekeep is_ok].
  - left. exists e'. split; reflexivity.
  - right. split; reflexivity.
  - right. split; reflexivity.
Qed.

Lemma estep_rejected c lc ec e o : is_ok (erun c lc ec e o) = false -> estep c lc ec e o = e.
Proof. unfold estep. destruct (erun c lc ec e o); [discriminate|reflexivity|reflexivity]. Qed.

Theorem ehistory_both c lc ec ext ops : cfg_ok c -> roles_ok c -> forall e, ehist_ok c lc ec e ops -> Both c ext e ->
  Both c ext (erun_all c lc ec ops e).
Proof.
  intros CK RO. induction ops as [|o ops IH]; intros e HO B; [exact B|].
  destruct HO as [Ho HO]. cbn [erun_all fold_left]. apply IH; [exact HO|].
  destruct (estep_cases c lc ec e o) as [(e' & H & ->)|[_ ->]]; [|exact B]. exact (erun_both c lc ec ext e o e' CK RO Ho B H).
Qed.

Theorem ehistory_pair c lc ec ops : cfg_ok c -> roles_ok c -> forall e, ehist_ok c lc ec e ops -> InvE c e -> Pair c e (erun_all c lc ec ops e).
Proof.
  intros CK RO. induction ops as [|o ops IH]; intros e HO I; [apply pair_refl; exact I|].
  destruct HO as [Ho HO]. cbn [erun_all fold_left].
  destruct (estep_cases c lc ec e o) as [(e' & H & E)|[_ E]]; rewrite E in *.
  - pose proof (erun_pair c lc ec e o e' CK RO Ho I H) as P1. exact (pair_trans c _ _ _ P1 (IH e' HO (proj1 P1))).
  - exact (IH e HO I).
Qed.

(* ---------- the initial state ---------- *)
Lemma invE_init c b sp t pr tm : (forall d, b VAULT d = 0) -> (forall d, b ESMA d = 0) -> InvE c (elift (lift (init b sp t pr)) tm).
Proof.
  intros Hv He. constructor; cbn [elift el recs cool epool epaid].
  - apply invL_init. exact Hv.
  - split; cbn [lift vs lks init vaults]; intros x [].
  - constructor.
  - intros a _ r [].
  - intros r [].
  - intros d. cbn. rewrite He. reflexivity.
  - intros d. reflexivity.
  - intros d. lia.
  - intros d. cbn. rewrite He. lia.
  - intros d. reflexivity.
Qed.
Lemma invE02_init c b sp t pr tm : InvE02 c sp (elift (lift (init b sp t pr)) tm).
Proof.
  split; [|intros d; cbn; lia]. intros d. destruct (inv02L_init c b sp t pr d) as [J1 J2]. cbn [elift el gburn]. split; [lia|exact J2].
Qed.

(* ---------- what the invariants say, clause by clause ---------- *)
Theorem invE_identities c e : InvE c e ->
  (forall d, bal (vs (el e)) VAULT d = coll_sum c (vs (el e)) d + unsol (vs (el e)) d - er_short (el e) d) /\
  (forall d, bal (vs (el e)) ESMA d = esm_coll e d) /\
  (forall d, esm_coll e d = epool e d - epaid e d /\ 0 <= epaid e d <= epool e d).
Proof.
  intros I. split; [intros d; exact (invL_custody c _ d (ie_life _ _ I))|]. split; [exact (ie_custody _ _ I)|].
  intros d. pose proof (ie_pool _ _ I d). pose proof (ie_paid _ _ I d). pose proof (ie_nonneg _ _ I d). pose proof (ie_custody _ _ I d). lia.
Qed.

Theorem invE02_backing c ext e : InvE c e -> InvE02 c ext e ->
  forall d, sup (vs (el e)) d - ext d = recorded_e c e d - over (el e) d - gburn e d /\ 0 <= over (el e) d /\ 0 <= gburn e d.
Proof.
  intros I [J G] d. destruct (J d) as [J1 J2]. unfold recorded_e. unfold recorded_d in J1. rewrite (ie_debt _ _ I d) in J1.
  split; [lia|]. split; [exact J2|exact (G d)].
Qed.

Theorem invE_holds c e denoms : InvE c e -> kf_C01_life c denoms (el e) = false -> holds_C01_esm c denoms e = true.
Proof.
  intros I K. unfold holds_C01_esm. rewrite (invL_holds c _ denoms (ie_life _ _ I) K). cbn [andb].
  apply forallb_forall. intros d _. unfold c01e_esm_custody. rewrite (ie_custody _ _ I d). apply Z.eqb_refl.
Qed.
Theorem invE_esm_custody c e denoms : InvE c e -> forallb (c01e_esm_custody e) denoms = true /\ forallb (c01e_paid_le_pool e) denoms = true.
Proof.
  intros I. split; apply forallb_forall; intros d _.
  - unfold c01e_esm_custody. rewrite (ie_custody _ _ I d). apply Z.eqb_refl.
  - unfold c01e_paid_le_pool. destruct (invE_identities c e I) as (_ & _ & P). destruct (P d) as [_ [P1 P2]]. apply andb_true_iff. split; apply Z.leb_le; assumption.
Qed.
Theorem invE02_holds c ext e denoms : InvE c e -> InvE02 c ext e -> holds_C02_esm c ext denoms e = true.
Proof.
  intros I J. unfold holds_C02_esm. apply forallb_forall. intros d _. unfold c02e_backing. destruct (invE02_backing c ext e I J d) as (H1 & H2 & H3). apply Z.leb_le. lia.
Qed.

(* ---------- histories without liquidations: exact equality for every denom no governance burn touched ---------- *)
Definition seiz_same (l l' : lstate) : Prop := lks l' = lks l /\ over l' = over l.
Lemma seiz_refl l : seiz_same l l. Proof. split; reflexivity. Qed.
Lemma seiz_trans l1 l2 l3 : seiz_same l1 l2 -> seiz_same l2 l3 -> seiz_same l1 l3.
Proof. intros [A1 A2] [B1 B2]. split; congruence. Qed.

Lemma e_vault_loop_seiz c lc app vl : forall e e', e_vault_loop c lc app vl e = Ok e' -> seiz_same (el e) (el e').
Proof.
  induction vl as [|v vl IH]; intros e e' H; cbn [e_vault_loop] in H; [injection H as <-; apply seiz_refl|].
  destruct (e_vault_one c lc app e v) as [e1| |] eqn:E1; cbn [obind] in H; try discriminate H.
  apply (seiz_trans _ (el e1)); [|exact (IH e1 e' H)].
  destruct (e_vault_one_spec c lc app e v e1 E1) as [[_ ->]|(_ & ep & l1 & _ & R1 & VR)]; [apply seiz_refl|].
  rewrite (vr_el _ _ _ _ _ _ _ VR). destruct (esm_redeem_one_shape c lc app (el e) v l1 R1) as [->|(e0 & _ & _ & _ & _ & Hl & _ & Ho)]; [apply seiz_refl|split; assumption].
Qed.
Lemma e_stable_loop_seiz c lc app xl : forall e e', e_stable_loop c lc app xl e = Ok e' -> seiz_same (el e) (el e').
Proof.
  induction xl as [|x xl IH]; intros e e' H; cbn [e_stable_loop] in H; [injection H as <-; apply seiz_refl|].
  destruct (e_stable_one c lc app e x) as [e1| |] eqn:E1; cbn [obind] in H; try discriminate H.
  apply (seiz_trans _ (el e1)); [|exact (IH e1 e' H)].
  destruct (e_stable_one_spec c lc app e x e1 E1) as [[_ ->]|(_ & ep & b1 & _ & _ & _ & VR)]; [apply seiz_refl|].
  rewrite (vr_el _ _ _ _ _ _ _ VR). split; reflexivity.
Qed.
Lemma e_collector_loop_seiz lc ec app fees : forall e e', e_collector_loop lc ec app fees e = Ok e' -> seiz_same (el e) (el e').
Proof.
  induction fees as [|it fees IH]; intros e e' H; cbn [e_collector_loop] in H; [injection H as <-; apply seiz_refl|].
  destruct (e_collector_one lc ec app e it) as [e1| |] eqn:E1; cbn [obind] in H; try discriminate H.
  apply (seiz_trans _ (el e1)); [|exact (IH e1 e' H)].
  unfold e_collector_one in E1. destruct it as [asset fee]. cbv zeta in E1.
  exec1 E1; [injection E1 as <-; apply seiz_refl|]. destruct (find_rec (recs e) app asset); [|discriminate E1].
  do 2 exec1 E1. exec1 E1. do 3 exec1 E1. exec1 E1. injection E1 as <-. split; reflexivity.
Qed.

Lemma esm_step_seiz c lc ec e o e' : (forall o', o <> ELife o') -> (forall f, o <> EBegin f) -> erun c lc ec e o = Ok e' -> seiz_same (el e) (el e').
Proof.
  intros Hn Hb H. destruct o; cbn [erun] in H; try (exfalso; eapply Hn; reflexivity); try (exfalso; eapply Hb; reflexivity).
  - unfold deposit_esm in H. cbv zeta in H. do 5 exec1 H. exec1 H. exec1 H. exec1 H. exec1 H. exec1 H. injection H as <-. split; reflexivity.
  - unfold execute_esm in H. cbv zeta in H. do 5 exec1 H. injection H as <-. split; reflexivity.
  - unfold redeem in H. cbv zeta in H. exec1 H. exec1 H. exec1 H. destruct p as [ct dt]. exec1 H. exec1 H. exec1 H. exec1 H. exec1 H. exec1 H. exec1 H. exec1 H.
    destruct st2 as [[s3 rs] pd]. exec1 H. exec1 H. exec1 H. exec1 H. injection H as <-. split; reflexivity.
  - unfold snapshot in H. cbv zeta in H. destruct (snap_loop _ _ _). injection H as <-. split; reflexivity.
  - unfold e_vault in H. destruct (negb _); [discriminate H|]. destruct (e_vault_loop _ _ _ _ _) as [e1| |] eqn:L; cbn [obind] in H; try discriminate H.
    injection H as <-. exact (e_vault_loop_seiz _ _ _ _ _ _ L).
  - unfold e_stable in H. destruct (negb _); [discriminate H|]. destruct (e_stable_loop _ _ _ _ _) as [e1| |] eqn:L; cbn [obind] in H; try discriminate H.
    injection H as <-. exact (e_stable_loop_seiz _ _ _ _ _ _ L).
  - unfold e_collector in H. destruct (negb _); [discriminate H|]. destruct (e_collector_loop _ _ _ _ _) as [e1| |] eqn:L; cbn [obind] in H; try discriminate H.
    injection H as <-. exact (e_collector_loop_seiz _ _ _ _ _ _ L).
  - unfold e_share in H. destruct (negb _); [discriminate H|]. destruct (share_loop _ _ _ _ _ _ _); cbn [obind] in H; try discriminate H. injection H as <-. split; reflexivity.
Qed.

Lemma try_step_seiz cond f k e : (forall x x', f x = Ok x' -> seiz_same (el x) (el x')) -> (forall x, seiz_same (el x) (el (k x))) ->
  seiz_same (el e) (el (try_step cond f k e)).
Proof.
  intros Hf Hk. unfold try_step. destruct cond; [|apply Hk]. destruct (f e) as [e'| |] eqn:F; try apply seiz_refl.
  exact (seiz_trans _ _ _ (Hf e e' F) (Hk e')).
Qed.

Lemma begin_app_seiz c lc ec fees e app : seiz_same (el e) (el (begin_app c lc ec fees e app)).
Proof.
  unfold begin_app. cbv zeta. destruct (negb _); [apply seiz_refl|]. destruct (negb _); [apply seiz_refl|].
  apply try_step_seiz; [intros x x' H; apply (esm_step_seiz c lc ec x (ESnapshot app) x'); [discriminate|discriminate|exact H]|]. intros e1.
  destruct (_ && _); [|apply seiz_refl].
  apply try_step_seiz; [intros x x' H; apply (esm_step_seiz c lc ec x (EVault app) x'); [discriminate|discriminate|exact H]|]. intros e2.
  apply try_step_seiz; [intros x x' H; apply (esm_step_seiz c lc ec x (EStable app) x'); [discriminate|discriminate|exact H]|]. intros e3.
  apply try_step_seiz; [intros x x' H; apply (esm_step_seiz c lc ec x (ECollector app (fees_of fees app)) x'); [discriminate|discriminate|exact H]|]. intros e4.
  apply try_step_seiz; [intros x x' H; apply (esm_step_seiz c lc ec x (EShare app) x'); [discriminate|discriminate|exact H]|]. intros e5. apply seiz_refl.
Qed.

Lemma begin_block_seiz c lc ec fees e : seiz_same (el e) (el (begin_block c lc ec fees e)).
Proof.
  unfold begin_block. generalize (apps c) as al. intros al. revert e.
  induction al as [|a al IH]; intros e; cbn [fold_left]; [apply seiz_refl|]. exact (seiz_trans _ _ _ (begin_app_seiz c lc ec fees e a) (IH _)).
Qed.

Lemma seiz_noseized l l' : seiz_same l l' -> NoSeized l -> NoSeized l'.
Proof. intros [A B] [N1 N2]. split; [rewrite A; exact N1|rewrite B; exact N2]. Qed.

Lemma erun_noseized c lc ec e o e' : is_eliq o = false -> NoSeized (el e) -> erun c lc ec e o = Ok e' -> NoSeized (el e').
Proof.
  intros Hn N H. destruct o as [o| | | | | | | | |].
  - cbn [is_eliq] in Hn. destruct o as [o| | | | |app]; cbn [erun] in H.
    + destruct o; try (destruct (lrun c lc (el e) (VOp _)) as [l'| |] eqn:R; try discriminate H; injection H as <-; exact (lrun_noseized c lc (el e) _ l' Hn N R)).
    + discriminate Hn.
    + discriminate Hn.
    + destruct (lrun c lc (el e) _) as [l'| |] eqn:R; try discriminate H. injection H as <-. exact (lrun_noseized c lc (el e) _ l' Hn N R).
    + destruct (lrun c lc (el e) _) as [l'| |] eqn:R; try discriminate H. injection H as <-. exact (lrun_noseized c lc (el e) _ l' Hn N R).
    + apply (seiz_noseized (el e)); [|exact N]. apply (esm_step_seiz c lc ec e (EVault app) e'); [discriminate|discriminate|exact H].
  - apply (seiz_noseized (el e)); [|exact N]. eapply (esm_step_seiz c lc ec e _ e'). 3: exact H. all: discriminate.
  - apply (seiz_noseized (el e)); [|exact N]. eapply (esm_step_seiz c lc ec e _ e'). 3: exact H. all: discriminate.
  - apply (seiz_noseized (el e)); [|exact N]. eapply (esm_step_seiz c lc ec e _ e'). 3: exact H. all: discriminate.
  - apply (seiz_noseized (el e)); [|exact N]. eapply (esm_step_seiz c lc ec e _ e'). 3: exact H. all: discriminate.
  - apply (seiz_noseized (el e)); [|exact N]. eapply (esm_step_seiz c lc ec e _ e'). 3: exact H. all: discriminate.
  - apply (seiz_noseized (el e)); [|exact N]. eapply (esm_step_seiz c lc ec e _ e'). 3: exact H. all: discriminate.
  - apply (seiz_noseized (el e)); [|exact N]. eapply (esm_step_seiz c lc ec e _ e'). 3: exact H. all: discriminate.
  - apply (seiz_noseized (el e)); [|exact N]. eapply (esm_step_seiz c lc ec e _ e'). 3: exact H. all: discriminate.
  - cbn [erun] in H. injection H as <-. exact (seiz_noseized _ _ (begin_block_seiz c lc ec fees e) N).
Qed.

Theorem ehistory_exact c lc ec ext ops : cfg_ok c -> roles_ok c -> Forall (fun o => is_eliq o = false) ops ->
  forall e, ehist_ok c lc ec e ops -> Both c ext e -> NoSeized (el e) ->
  forall d, gburn (erun_all c lc ec ops e) d = 0 -> sup (vs (el (erun_all c lc ec ops e))) d - ext d = recorded_e c (erun_all c lc ec ops e) d.
Proof.
  intros CK RO HN e HO B N.
  assert (G : NoSeized (el (erun_all c lc ec ops e))).
  { revert e HO B N. induction HN as [|o ops Ho HN IH]; intros e HO B N; [exact N|].
    destruct HO as [Hok HO]. cbn [erun_all fold_left].
    destruct (estep_cases c lc ec e o) as [(e' & H & E)|[_ E]]; rewrite E in *.
    - apply (IH e' HO (erun_both c lc ec ext e o e' CK RO Hok B H)). exact (erun_noseized c lc ec e o e' Ho N H).
    - exact (IH e HO B N). }
  destruct (ehistory_both c lc ec ext ops CK RO e HO B) as [I' J']. intros d Hg.
  destruct (invE02_backing c ext _ I' J' d) as (H1 & _ & _). rewrite (proj2 G d), Hg in H1. lia.
Qed.

(* ---------- a decision procedure for the hypotheses of a concrete history (used by the examples) ---------- *)
Definition lop_esm_okb (o : lop) : bool :=
  match o with
  | VOp o' => negb (sender o' =? ESMA)
  | Liquidate _ _ k => negb (k =? ESMA)
  | Bid _ who _ _ _ _ _ => negb (who =? ESMA)
  | _ => true
  end.
Definition eop_okb (e : estate) (o : eop) : bool :=
  match o with
  | ELife (EsmRedeem _) => true
  | ELife o' => lop_okb (el e) o' && lop_esm_okb o'
  | EDeposit f _ _ _ | ERedeem f _ _ _ => negb (f =? VAULT) && negb (f =? ESMA)
  | _ => true
  end.
Fixpoint ehist_okb (c : cfg) (lc : lcfg) (ec : ecfg) (e : estate) (ops : list eop) : bool :=
  match ops with
  | [] => true
  | o :: r => eop_okb e o && ehist_okb c lc ec (estep c lc ec e o) r
  end.

Lemma lop_esm_okb_sound o : lop_esm_okb o = true -> lop_esm_ok o.
Proof. destruct o; cbn [lop_esm_okb lop_esm_ok]; intros H; try exact Logic.I; apply negb_true_iff in H; intros E; rewrite E in H; discriminate. Qed.
Lemma eop_okb_sound e o : eop_okb e o = true -> eop_ok e o.
Proof.
  assert (K : forall f, negb (f =? VAULT) && negb (f =? ESMA) = true -> f <> VAULT /\ f <> ESMA).
  { intros f H. apply andb_true_iff in H. destruct H as [H1 H2]. apply negb_true_iff in H1, H2. split; intros E; rewrite E in *; discriminate. }
  destruct o as [o| | | | | | | | |]; cbn [eop_okb eop_ok]; intros H; try exact Logic.I; try exact (K _ H).
  destruct o; try exact Logic.I; apply andb_true_iff in H; destruct H as [H1 H2]; (split; [exact (lop_okb_sound _ _ H1)|exact (lop_esm_okb_sound _ H2)]).
Qed.
Lemma ehist_okb_sound c lc ec ops : forall e, ehist_okb c lc ec e ops = true -> ehist_ok c lc ec e ops.
Proof.
  induction ops as [|o ops IH]; intros e H; cbn [ehist_okb ehist_ok] in *; [exact Logic.I|].
  apply andb_true_iff in H. destruct H as [H1 H2]. split; [exact (eop_okb_sound e o H1)|exact (IH _ H2)].
Qed.
