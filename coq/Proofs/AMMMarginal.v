(* The drop loop of FindMatchableAmountAtSinglePrice (amm/match.go:144-175; Model/AMM.v [fma_loop]) at the
   MARGINAL sell tick - the last eligible sell tick, the one that is filled only in part.  In one iteration
   in which the buy side keeps its last tick, the sell side's test is, statement by statement,
       otherTicksAmt >= matchableAmt  ||  matchPrice.MulInt(partialMatchAmt).TruncateInt().IsZero()
   with partialMatchAmt = min(buy total, sell total) - (sell total - tick amount): the residue left for the
   marginal tick.  The tick is dropped exactly when that residue is worth less than one quote coin
   (price * residue < 1), for every price and all amounts - in particular at a price p < 1 with a non-integer
   inverse a residue of floor(1/p) is dropped and one of ceil(1/p) is matched. *)
From Comdex Require Import Lib.Base Lib.DecArith Model.AMM.
Require Import Lia ZArith Bool.
Open Scope Z_scope.

Lemma fma_step_sell_drop : forall f p ta brest bt sa s2 srest st,
  bt - ta < Z.min bt st ->
  (st - sa >= Z.min bt st \/ quote_floor p (Z.min bt st - (st - sa)) = 0) ->
  fma_loop (S f) p (ta :: brest, bt) (sa :: s2 :: srest, st) = fma_loop f p (ta :: brest, bt) (s2 :: srest, st - sa).
Proof.
  intros f p ta brest bt sa s2 srest st Hb Hs.
  cbn [fma_loop snd fst].
  assert (E1 : (bt - ta >=? Z.min bt st) = false) by (rewrite Z.geb_leb; apply Z.leb_gt; lia).
  rewrite E1. cbn [andb is_nil snd orb].
  assert (E2 : ((st - sa >=? Z.min bt st) || (quote_floor p (Z.min bt st - (st - sa)) =? 0)) = true).
  { destruct Hs as [H|H]; [|rewrite H, Z.eqb_refl, orb_true_r; reflexivity].
    replace (st - sa >=? Z.min bt st) with true; [reflexivity|]. symmetry. rewrite Z.geb_leb. apply Z.leb_le. lia. }
  rewrite E2. cbn [andb is_nil orb]. reflexivity.
Qed.

Lemma fma_step_sell_keep : forall f p ta brest bt sa srest st,
  bt - ta < Z.min bt st -> st - sa < Z.min bt st -> quote_floor p (Z.min bt st - (st - sa)) <> 0 ->
  fma_loop (S f) p (ta :: brest, bt) (sa :: srest, st) = Some (Some (Z.min bt st)).
Proof.
  intros f p ta brest bt sa srest st Hb Hs Hq.
  cbn [fma_loop snd fst].
  assert (E1 : (bt - ta >=? Z.min bt st) = false) by (rewrite Z.geb_leb; apply Z.leb_gt; lia).
  rewrite E1. cbn [andb is_nil snd orb].
  assert (E2 : (st - sa >=? Z.min bt st) = false) by (rewrite Z.geb_leb; apply Z.leb_gt; lia).
  assert (E3 : (quote_floor p (Z.min bt st - (st - sa)) =? 0) = false) by (apply Z.eqb_neq; exact Hq).
  rewrite E2, E3. cbn [orb andb]. reflexivity.
Qed.

(* the test of the loop in terms of the price: an amount is worth zero quote coin iff price * amount < 1 *)
Lemma quote_floor_zero_iff : forall p k, 0 < p -> 0 <= k -> (quote_floor p k = 0 <-> p * k < P18).
Proof.
  intros p k Hp Hk. unfold quote_floor, dtrunc_int, dmul_int.
  assert (HP : 0 < P18) by (vm_compute; reflexivity).
  rewrite Z.quot_small_iff by lia.
  rewrite (Z.abs_eq (p * k)) by nia. rewrite (Z.abs_eq P18) by lia. reflexivity.
Qed.

(* one iteration at the marginal sell tick, residue k > 0: dropped iff p * k < 1 *)
Lemma marginal_sell_tick : forall f p ta brest bt sa s2 srest st,
  0 < p -> bt - ta < Z.min bt st -> 0 < Z.min bt st - (st - sa) ->
  (p * (Z.min bt st - (st - sa)) < P18 ->
   fma_loop (S f) p (ta :: brest, bt) (sa :: s2 :: srest, st) = fma_loop f p (ta :: brest, bt) (s2 :: srest, st - sa)) /\
  (P18 <= p * (Z.min bt st - (st - sa)) ->
   fma_loop (S f) p (ta :: brest, bt) (sa :: s2 :: srest, st) = Some (Some (Z.min bt st))).
Proof.
  intros f p ta brest bt sa s2 srest st Hp Hb Hk. split; intros H.
  - apply fma_step_sell_drop; [exact Hb|]. right. apply quote_floor_zero_iff; lia.
  - apply fma_step_sell_keep; [exact Hb|lia|]. intros E. apply quote_floor_zero_iff in E; lia.
Qed.

(* the seeded books of the harness (c05MarginalCorpus): inner sell tick 100, marginal sell tick 50, one buy of
   100 + k at the marginal tick's price *)
Definition mg_sell (i : nat) (p a : Z) : order := mkOrder i Sell p a a a 0 0 1 (Z.of_nat i + 1).
Definition mg_buy (i : nat) (p a : Z) : order := mkOrder i Buy p a (quote_ceil p a) a 0 0 1 (Z.of_nat i + 1).
Definition mg_book (p lower k : Z) : list order := [mg_sell 0 lower 100; mg_sell 1 p 50; mg_buy 2 p (100 + k)].
Definition mg_amount (p lower k : Z) : option (option Z) := find_matchable (mg_book p lower k) (new_book (mg_book p lower k)) p.
