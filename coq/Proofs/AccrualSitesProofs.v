(* Proofs for Model/AccrualSites.v (C18 accrual sites). *)
From Comdex Require Import Lib.Base Lib.DecArith Lib.DecFacts Lib.DecFacts3 Lib.F64
  Model.Accrual Model.Pow Model.Rates Model.AccrualSites
  Proofs.AccrualProofs Proofs.PowProofs Proofs.RatesProofs.
From Coq Require Import ZifyBool.

Lemma site_carry_eq t x : site_carry t x = carry_step (tracker_val t) x.
Proof. unfold site_carry, carry_step, tracker_val, dadd. destruct t; [reflexivity|]. rewrite Z.add_0_l. reflexivity. Qed.

(* conservation at one carry: nothing created, nothing lost *)
Lemma site_carry_spec t x p t' : 0 <= tracker_val t < P18 -> 0 <= x -> site_carry t x = (p, t') ->
  p * P18 + t' = tracker_val t + x /\ 0 <= p /\ 0 <= t' < P18 /\ p = (tracker_val t + x) / P18.
Proof.
  intros Ht Hx E. rewrite site_carry_eq in E.
  pose proof (carry_step_spec (tracker_val t) x ltac:(lia) Hx) as S. rewrite E in S. exact S.
Qed.
Lemma site_carry_zero t p t' : 0 <= tracker_val t < P18 -> site_carry t 0 = (p, t') -> p = 0 /\ t' = tracker_val t.
Proof.
  intros Ht E. pose proof (site_carry_spec t 0 p t' Ht ltac:(lia) E) as (A & B & C & D).
  rewrite Z.add_0_r in D. rewrite Z.div_small in D by lia. subst p. lia.
Qed.

Lemma float_site_spec pow now bt pr rate tr rec x p t' r' :
  float_site pow now bt pr rate tr rec = Ok (Updated x p t' r') ->
  0 <= now - bt /\ x = cmp_new pow pr rate (now - bt) /\ site_carry tr x = (p, t') /\ r' = rec + p.
Proof.
  unfold float_site, float_site_with. destruct (calculation_of_rewards pow now bt pr rate) as [y| |] eqn:E; try discriminate.
  apply calc_spec in E as [E0 E1]. destruct (site_carry tr y) as [q u] eqn:C.
  intros H. injection H as <- <- <- <-. subst y. auto.
Qed.
Lemma float_site_never_untouched pow now bt pr rate tr rec : float_site pow now bt pr rate tr rec <> Ok Untouched.
Proof.
  unfold float_site, float_site_with. destruct (calculation_of_rewards _ _ _ _ _); try discriminate.
  destruct (site_carry tr a). discriminate.
Qed.

(* the step predicate holds whenever the accrual is non-negative and the tracker was a fraction *)
Lemma site_step_holds tr rec x p t' : 0 <= tracker_val tr < P18 -> 0 <= x -> site_carry tr x = (p, t') ->
  holds_C18_site_step (tracker_val tr) rec x p t' (rec + p) = true.
Proof.
  intros Ht Hx E. pose proof (site_carry_spec tr x p t' Ht Hx E) as (A & B & C & _).
  unfold holds_C18_site_step. repeat (apply andb_true_intro; split); lia.
Qed.

(* ---------------- vault ---------------- *)
Definition vault_bt (v : vault_site) : Z := if (vs_bh v =? 0) || (vs_bt v <? vs_pair_bt v) then vs_pair_bt v else vs_bt v.

Lemma vault_interest_spec pow now v x p t' r' :
  vault_interest pow now v = Ok (Updated x p t' r') ->
  vs_app_ok v = true /\ vs_pair_found v = true /\ vs_fee v <> 0 /\ vs_stable_mint v = false /\
  0 <= now - vault_bt v /\ x = cmp_new pow (vs_debt v) (vs_fee v) (now - vault_bt v) /\
  site_carry (vs_tracker v) x = (p, t') /\ r' = vs_intacc v + p.
Proof.
  unfold vault_interest, vault_interest_with, vault_bt. destruct (vs_app_ok v); [|discriminate]. destruct (vs_pair_found v); [|discriminate].
  cbn [negb]. destruct (Z.eqb_spec (vs_fee v) 0); [discriminate|]. destruct (vs_stable_mint v); [discriminate|]. cbn [orb].
  intros H. fold (float_site pow) in H. apply float_site_spec in H. tauto.
Qed.

(* ---------------- locker ---------------- *)
Definition locker_bt (l : locker_site) : Z := if ls_bh l =? 0 then ls_coll_bt l else ls_bt l.

Lemma locker_rewards_spec pow now l x p t' net ret nf :
  locker_rewards pow now l = Ok (LUpdated x p t' net ret nf) ->
  0 <= now - locker_bt l /\ x = cmp_new pow (ls_balance l) (ls_lsr l) (now - locker_bt l) /\
  site_carry (ls_tracker l) x = (p, t') /\
  net = ls_net l + p /\ ret = ls_returns l + p /\ nf = tracker_val (ls_netfee l) - p /\ (0 < p -> 0 <= nf).
Proof.
  unfold locker_rewards, locker_rewards_with, locker_bt. destruct (ls_reward_ok l); [|discriminate]. destruct (ls_coll_found l); [|discriminate].
  cbn [negb]. destruct (Z.eqb_spec (ls_lsr l) 0); [discriminate|].
  destruct (calculation_of_rewards _ _ _ _ _) as [y| |] eqn:E; try discriminate.
  apply calc_spec in E as [E0 E1]. destruct (site_carry (ls_tracker l) y) as [q u] eqn:C.
  destruct (Z.leb_spec P18 (tracker_val (ls_tracker l) + y)) as [Hge|Hlt].
  - destruct (ls_netfee l) as [f|]; [|discriminate]. destruct (Z.ltb_spec (f - q) 0); [discriminate|].
    destruct (_ && _); [discriminate|]. intros HH. injection HH as <- <- <- <- <- <-. cbn [tracker_val].
    repeat split; try lia; auto.
  - rewrite site_carry_eq in C. unfold carry_step, dadd in C.
    destruct (Z.leb_spec P18 (tracker_val (ls_tracker l) + y)); [lia|]. injection C as <- <-.
    intros HH. injection HH as <- <- <- <- <- <-. repeat split; try lia; auto.
    rewrite site_carry_eq. unfold carry_step, dadd. destruct (Z.leb_spec P18 (tracker_val (ls_tracker l) + y)); [lia|reflexivity].
Qed.

(* ---------------- histories: the same position accrued again and again ----------------
   Every site stores BlockTime := now, so the next call starts where this one ended; the
   principal of the next call is c + record (vault: AmountOut + InterestAccumulated; locker:
   NetBalance, c = 0 and record = NetBalance). *)
Fixpoint site_run (pow : Z -> Z -> Z) (c rate : Z) (bt tracker record : Z) (nows : list Z) : Z * Z * Z * Z :=
  match nows with
  | [] => (bt, tracker, record, 0)
  | now :: rest =>
      let x := cmp_new pow (c + record) rate (now - bt) in
      let '(p, t') := carry_step tracker x in
      let '(bt', tr', rec', sum) := site_run pow c rate now t' (record + p) rest in
      (bt', tr', rec', x + sum)
  end.

Fixpoint ascending (from : Z) (l : list Z) : Prop :=
  match l with [] => True | x :: r => from <= x /\ ascending x r end.
Fixpoint last_or (d : Z) (l : list Z) : Z := match l with [] => d | x :: r => last_or x r end.

Lemma site_run_spec pow c rate : (forall amt secs, 0 <= amt -> 0 <= secs -> secs <= SECS_MAX -> 0 <= cmp_new pow amt rate secs) ->
  forall nows bt tracker record, 0 <= tracker < P18 -> 0 <= c + record -> ascending bt nows -> last_or bt nows - bt <= SECS_MAX ->
  let '(bt', tr', rec', sum) := site_run pow c rate bt tracker record nows in
  rec' * P18 + tr' = record * P18 + tracker + sum /\ 0 <= tr' < P18 /\ record <= rec' /\ 0 <= sum /\ bt' = last_or bt nows.
Proof.
  intros NN. induction nows as [|now rest IH]; intros bt tracker record Ht Hp Ha Hl; cbn [site_run last_or].
  - lia.
  - cbn [ascending] in Ha. destruct Ha as [Ha1 Ha2]. cbn [last_or] in Hl.
    assert (Hlast : now <= last_or now rest).
    { clear - Ha2. revert now Ha2. induction rest as [|y r IHr]; intros now Ha2; cbn [last_or ascending] in *; [lia|].
      destruct Ha2 as [A B]. specialize (IHr y B). lia. }
    set (x := cmp_new pow (c + record) rate (now - bt)).
    assert (Hx : 0 <= x) by (apply NN; lia).
    pose proof (carry_step_spec tracker x ltac:(lia) Hx) as S. destruct (carry_step tracker x) as [p t'].
    destruct S as (S1 & S2 & S3 & _).
    specialize (IH now t' (record + p) S3 ltac:(lia) Ha2 ltac:(lia)).
    destruct (site_run pow c rate now t' (record + p) rest) as [[[bt' tr'] rec'] sum].
    destruct IH as (I1 & I2 & I3 & I4 & I5). repeat split; try lia.
Qed.

(* ---------------- lend / borrow sites (Dec arithmetic) ---------------- *)
Lemma lend_site_spec now last amt apr gi tr x p t' igc : 0 <= amt -> 0 <= apr -> 0 < gi -> 0 <= tracker_val tr < P18 ->
  lend_site now last amt apr gi tr = Ok (x, p, t', igc) ->
  0 <= x /\ p * P18 + t' = tracker_val tr + x /\ 0 <= p /\ 0 <= t' < P18 /\
  (lend_secs now last = 0 -> x = 0 /\ p = 0 /\ t' = tracker_val tr).
Proof.
  intros Ha Hr Hg Ht. unfold lend_site.
  destruct (lend_reward now last amt apr gi) as [[y i]| |] eqn:E; try discriminate.
  - destruct (site_carry (Some (tracker_val tr)) y) as [q u] eqn:C. intros H. injection H as <- <- <- <-.
    unfold lend_reward in E. destruct (Z.ltb_spec (lend_secs now last) 0); [discriminate|].
    destruct (index_accrual amt apr gi (lend_secs now last)) as [[a b]|] eqn:IA; [|discriminate].
    injection E as -> ->. pose proof IA as IA'. apply index_accrual_spec in IA' as (_ & Ey & _).
    assert (Hy : 0 <= y) by (subst y; apply idx_nonneg; lia).
    pose proof (site_carry_spec (Some (tracker_val tr)) y q u ltac:(cbn [tracker_val]; lia) Hy C) as (A & B & D & _).
    cbn [tracker_val] in *.
    assert (ZT : lend_secs now last = 0 -> y = 0 /\ q = 0 /\ u = tracker_val tr).
    { intros Z0. rewrite Z0 in Ey. rewrite idx_zero_time in Ey by lia. subst y.
      apply site_carry_zero in C; [|cbn [tracker_val]; lia]. cbn [tracker_val] in C. lia. }
    split; [lia|]. split; [lia|]. split; [lia|]. split; [lia|]. exact ZT.
  - destruct (site_carry (Some (tracker_val tr)) 0) as [q u] eqn:C. intros H. injection H as <- <- <- <-.
    apply site_carry_zero in C; [|cbn [tracker_val]; lia]. cbn [tracker_val] in C.
    split; [lia|]. split; [lia|]. split; [lia|]. split; [lia|]. intros _. lia.
Qed.

Lemma borrow_site_spec now b s ia' res' igc rigc :
  0 <= bs_amt b -> 0 <= bs_apr b -> 0 <= bs_rrate b -> 0 <= bs_stable_rate b -> 0 < bs_gi b -> 0 < bs_rgi b ->
  borrow_site_step now b = Ok (s, ia', res', igc, rigc) ->
  0 <= s /\ ia' = bs_intacc b + s /\ tracker_val (bs_reserve b) <= res' /\ bs_gi b <= igc /\ bs_rgi b <= rigc /\
  (lend_secs now (bs_last b) = 0 -> s = 0 /\ res' = tracker_val (bs_reserve b) /\ igc = bs_gi b /\ rigc = bs_rgi b).
Proof.
  intros Ha Hr Hrr Hs Hg Hrg. unfold borrow_site_step.
  destruct (borrow_interest _ _ _ _ _ _ _) as [[[n i] [rn ri]]| |] eqn:E; try discriminate.
  unfold borrow_interest in E. destruct (Z.ltb_spec (lend_secs now (bs_last b)) 0) as [|Hsec]; [discriminate|].
  destruct (index_accrual (bs_amt b) (bs_apr b) (bs_gi b) _) as [[a1 b1]|] eqn:I1; [|discriminate].
  destruct (index_accrual (bs_amt b) (bs_rrate b) (bs_rgi b) _) as [[a2 b2]|] eqn:I2; [|discriminate].
  injection E as -> -> -> ->.
  pose proof I1 as J1. apply index_accrual_spec in J1 as (_ & En & Ei).
  pose proof I2 as J2. apply index_accrual_spec in J2 as (_ & Ern & Eri).
  assert (Hn : 0 <= n) by (subst n; apply idx_nonneg; lia).
  assert (Hrn : 0 <= rn) by (subst rn; apply idx_nonneg; lia).
  assert (Hi : bs_gi b <= i) by (subst i; apply index_next_ge; lia).
  assert (Hri : bs_rgi b <= ri) by (subst ri; apply index_next_ge; lia).
  assert (Z0 : lend_secs now (bs_last b) = 0 -> n = 0 /\ rn = 0 /\ i = bs_gi b /\ ri = bs_rgi b).
  { intros Z0. rewrite Z0 in *. rewrite idx_zero_time in En, Ern by lia.
    unfold index_next in Ei, Eri. rewrite years_zero, dmul_zero_r, Z.add_0_r, dmul_one in Ei, Eri. lia. }
  assert (Hres : tracker_val (bs_reserve b) <= (if 0 <? rn then dadd (tracker_val (bs_reserve b)) rn else tracker_val (bs_reserve b)) /\
                 (rn = 0 -> (if 0 <? rn then dadd (tracker_val (bs_reserve b)) rn else tracker_val (bs_reserve b)) = tracker_val (bs_reserve b))).
  { unfold dadd. destruct (Z.ltb_spec 0 rn); lia. }
  destruct Hres as [Hr1 Hr0].
  destruct (bs_stable b).
  - destruct (stable_interest _ _ _ _) as [st| |] eqn:ES; try discriminate.
    apply stable_interest_spec in ES as [_ ES]. intros H. injection H as <- <- <- <- <-.
    assert (0 <= st) by (subst st; apply stable_nonneg; lia).
    unfold dadd in *. split; [lia|]. split; [lia|]. split; [lia|]. split; [lia|]. split; [lia|].
    intros Z1. specialize (Z0 Z1). rewrite Z1 in ES. rewrite stable_zero_time in ES.
    split; [lia|]. split; [apply Hr0; lia|lia].
  - intros H. injection H as <- <- <- <- <-. unfold dadd in *.
    split; [lia|]. split; [lia|]. split; [lia|]. split; [lia|]. split; [lia|].
    intros Z1. specialize (Z0 Z1). split; [lia|]. split; [apply Hr0; lia|lia].
Qed.

(* the reserve rate is the part of the average borrow rate that is not passed on to lenders:
   between 0 and the average borrow rate when 0 <= u <= 1 and 0 <= reserve factor <= 1 *)
Lemma reserve_rate_range avg u rf r : 0 <= avg -> 0 <= u <= P18 -> 0 <= rf <= P18 ->
  reserve_rate avg u rf = Some r -> 0 <= r <= avg.
Proof.
  intros Ha Hu Hrf. unfold reserve_rate, saving_rate, obindr.
  destruct (lend_apr avg u rf) as [s|] eqn:E; [|discriminate]. apply lend_apr_spec in E.
  intros H. apply dsub_c_some in H. pose proof (lend_le_borrow avg u rf Ha Hu Hrf). lia.
Qed.

(* the average borrow rate lies between the two rates it averages *)
Lemma average_borrow_rate_range bapr sapr bo sb r : 0 <= bapr -> 0 <= sapr -> 0 <= bo -> 0 <= sb ->
  average_borrow_rate bapr sapr bo sb = Ok r -> Z.min bapr sapr <= r <= Z.max bapr sapr.
Proof.
  intros Hb Hs Hbo Hsb. unfold average_borrow_rate, obindo, int64_c.
  destruct (_ && _); [|discriminate]. destruct (_ && _); [|discriminate].
  destruct (dmul_c bapr (dec_of_int bo)) as [f1|] eqn:E1; [|discriminate]. apply dmul_c_some in E1.
  destruct (dmul_c sapr (dec_of_int sb)) as [f2|] eqn:E2; [|discriminate]. apply dmul_c_some in E2.
  destruct (dadd_c f1 f2) as [num|] eqn:E3; [|discriminate]. apply dadd_c_some in E3.
  destruct (_ && _); [|discriminate].
  destruct (Z.leb_spec (dec_of_int (sb + bo)) 0) as [|Hden]; [discriminate|].
  destruct (dquo_c num (dec_of_int (sb + bo))) as [q|] eqn:E4; [|discriminate]. apply dquo_c_some in E4 as [_ E4].
  intros H. injection H as <-. rewrite dmul_int_exact_r in E1, E2. subst.
  dec_consts. unfold dec_of_int in *. set (T := sb + bo) in *. assert (HT : 0 < T) by lia.
  assert (K : forall k, dquo (k * T) (T * P18) = k).
  { intros k. unfold dquo. replace (k * T * P36) with ((k * P18) * (T * P18)) by (rewrite P36_eq; ring).
    rewrite Z.quot_mul by lia. apply chop_round_exact. }
  split.
  - rewrite <- (K (Z.min bapr sapr)) at 1. apply dquo_mono_l; nia.
  - rewrite <- (K (Z.max bapr sapr)) at 1. apply dquo_mono_l; nia.
Qed.

(* ---------------- the executable forms the correspondence run uses ---------------- *)
From Comdex Require Import Model.AccrualFast Proofs.AccrualFastProofs.
Lemma vault_interest_fast_eq pow now v :
  vault_interest_with (calculation_of_rewards_fast pow) now v = vault_interest pow now v.
Proof.
  unfold vault_interest, vault_interest_with, float_site_with.
  destruct (negb (vs_app_ok v)); [reflexivity|]. destruct (negb (vs_pair_found v)); [reflexivity|].
  destruct (_ || _); [reflexivity|]. rewrite calculation_of_rewards_fast_eq. reflexivity.
Qed.
Lemma vault_iterate_one_fast_eq pow now lsr cbt vbh vbt amt tr ia :
  vault_iterate_one_with (calculation_of_rewards_fast pow) now lsr cbt vbh vbt amt tr ia = vault_iterate_one pow now lsr cbt vbh vbt amt tr ia.
Proof.
  unfold vault_iterate_one, vault_iterate_one_with, float_site_with. rewrite calculation_of_rewards_fast_eq. reflexivity.
Qed.
Lemma locker_rewards_fast_eq pow now l :
  locker_rewards_with (calculation_of_rewards_fast pow) now l = locker_rewards pow now l.
Proof.
  unfold locker_rewards, locker_rewards_with.
  destruct (negb (ls_reward_ok l)); [reflexivity|]. destruct (negb (ls_coll_found l)); [reflexivity|].
  destruct (ls_lsr l =? 0); [reflexivity|]. rewrite calculation_of_rewards_fast_eq. reflexivity.
Qed.
