(* Groundwork for the emergency-shutdown invariants (Model/EsmLife.v):
   - the AssetToAmount records as a keyed list: find / put, sums over the records;
   - the row of the esm account in the bank ledger: which primitives leave it alone;
   - deleting a stable-mint vault whose collateral has left custody re-establishes [Inv01]. *)
From Comdex Require Import Lib.Base Lib.DecArith Lib.DecFacts Lib.Atomic Model.Vault Model.VaultLife Model.EsmLife
  Proofs.VaultProofs Proofs.VaultExec Proofs.VaultHandlers Proofs.VaultInv Proofs.VaultLifeBase Proofs.VaultLifeInv.
From Coq Require Import ZifyBool Sorted.

(* ---------- records ---------- *)
Definition core (r : arec) : Z * Z * Z * bool := (ar_app r, ar_asset r, ar_amt r, ar_coll r).

Lemma key_is_rkey w a x : key_is w a x = true <-> rkey w = (a, x).
Proof.
  unfold key_is, rkey. rewrite andb_true_iff, !Z.eqb_eq. split; [intros [-> ->]; reflexivity|intros H; injection H; auto].
Qed.
Lemma key_is_self r : key_is r (ar_app r) (ar_asset r) = true.
Proof. unfold key_is. rewrite !Z.eqb_refl. reflexivity. Qed.

Lemma find_rec_some l a x r : find_rec l a x = Some r -> In r l /\ ar_app r = a /\ ar_asset r = x.
Proof.
  induction l as [|w l IH]; cbn [find_rec]; [discriminate|].
  destruct (key_is w a x) eqn:K.
  - intros H; injection H as <-. apply key_is_rkey in K. unfold rkey in K. injection K as K1 K2. split; [left; reflexivity|split; assumption].
  - intros H. destruct (IH H) as (H1 & H2 & H3). split; [right; exact H1|split; assumption].
Qed.
Lemma find_rec_none l a x : find_rec l a x = None -> forall r, In r l -> rkey r <> (a, x).
Proof.
  induction l as [|w l IH]; cbn [find_rec]; intros H r Hin; [destruct Hin|].
  destruct (key_is w a x) eqn:K; [discriminate|]. destruct Hin as [<-|Hin]; [|exact (IH H r Hin)].
  intros E. apply key_is_rkey in E. congruence.
Qed.
Lemma find_rec_in l r : NoDup (map rkey l) -> In r l -> find_rec l (ar_app r) (ar_asset r) = Some r.
Proof.
  induction l as [|w l IH]; cbn [map find_rec]; intros Hnd Hin; [destruct Hin|].
  inversion Hnd as [|? ? Hny Hnd']; subst. destruct Hin as [->|Hin]; [rewrite key_is_self; reflexivity|].
  destruct (key_is w (ar_app r) (ar_asset r)) eqn:K; [|exact (IH Hnd' Hin)].
  exfalso. apply Hny. apply key_is_rkey in K. rewrite K. change (ar_app r, ar_asset r) with (rkey r). apply in_map. exact Hin.
Qed.

Lemma repl_keys l r : map rkey (repl_rec l r) = map rkey l.
Proof.
  induction l as [|w l IH]; cbn [repl_rec map]; [reflexivity|].
  destruct (key_is w (ar_app r) (ar_asset r)) eqn:K; cbn [map]; [|rewrite IH; reflexivity].
  apply key_is_rkey in K. rewrite K. reflexivity.
Qed.
Lemma ins_in l r w : In w (ins_rec l r) <-> w = r \/ In w l.
Proof.
  induction l as [|y l IH]; cbn [ins_rec In]; [intuition|].
  destruct (key_lt r y); cbn [In]; [intuition|]. rewrite IH. intuition.
Qed.
Lemma repl_in l r w : In w (repl_rec l r) -> w = r \/ In w l.
Proof.
  induction l as [|y l IH]; cbn [repl_rec In]; [tauto|].
  destruct (key_is y (ar_app r) (ar_asset r)); cbn [In]; intros [H|H]; auto. destruct (IH H); auto.
Qed.
Lemma put_in l r w : In w (put_rec l r) -> w = r \/ In w l.
Proof. unfold put_rec. destruct (find_rec _ _ _); [apply repl_in|apply ins_in]. Qed.

Lemma ins_nodup l r : NoDup (map rkey l) -> ~ In (rkey r) (map rkey l) -> NoDup (map rkey (ins_rec l r)).
Proof.
  induction l as [|y l IH]; cbn [ins_rec map]; intros Hnd Hni; [constructor; [tauto|constructor]|].
  destruct (key_lt r y); cbn [map]; [constructor; assumption|].
  inversion Hnd as [|? ? Hny Hnd']; subst. constructor.
  - intros Hin. apply in_map_iff in Hin. destruct Hin as (w & Hk & Hw). apply ins_in in Hw. destruct Hw as [->|Hw].
    + apply Hni. left. symmetry. exact Hk.
    + apply Hny. rewrite <- Hk. apply in_map. exact Hw.
  - apply IH; [exact Hnd'|]. intros Hin. apply Hni. right. exact Hin.
Qed.
Lemma put_nodup l r : NoDup (map rkey l) -> NoDup (map rkey (put_rec l r)).
Proof.
  intros Hnd. unfold put_rec. destruct (find_rec l (ar_app r) (ar_asset r)) eqn:F.
  - rewrite repl_keys. exact Hnd.
  - apply ins_nodup; [exact Hnd|]. intros Hin. apply in_map_iff in Hin. destruct Hin as (w & Hk & Hw).
    exact (find_rec_none _ _ _ F w Hw Hk).
Qed.

Lemma find_repl_same l r o : find_rec l (ar_app r) (ar_asset r) = Some o -> find_rec (repl_rec l r) (ar_app r) (ar_asset r) = Some r.
Proof.
  induction l as [|w l IH]; cbn [find_rec repl_rec]; [discriminate|].
  destruct (key_is w (ar_app r) (ar_asset r)) eqn:K; cbn [find_rec]; [rewrite key_is_self; reflexivity|]. rewrite K. exact IH.
Qed.
Lemma find_ins_same l r : find_rec l (ar_app r) (ar_asset r) = None -> find_rec (ins_rec l r) (ar_app r) (ar_asset r) = Some r.
Proof.
  induction l as [|w l IH]; cbn [find_rec ins_rec]; [rewrite key_is_self; reflexivity|].
  destruct (key_is w (ar_app r) (ar_asset r)) eqn:K; [discriminate|]. intros H.
  destruct (key_lt r w); cbn [find_rec]; [rewrite key_is_self; reflexivity|]. rewrite K. exact (IH H).
Qed.
Lemma find_put_same l r : find_rec (put_rec l r) (ar_app r) (ar_asset r) = Some r.
Proof. unfold put_rec. destruct (find_rec l (ar_app r) (ar_asset r)) eqn:F; [exact (find_repl_same l r a F)|exact (find_ins_same l r F)]. Qed.

Lemma key_is_other w r a x : (a, x) <> rkey r -> key_is w (ar_app r) (ar_asset r) = true -> key_is w a x = false.
Proof.
  intros Hne K. apply key_is_rkey in K. destruct (key_is w a x) eqn:K2; [|reflexivity]. apply key_is_rkey in K2. unfold rkey in *. congruence.
Qed.
Lemma find_repl_other l r a x : (a, x) <> rkey r -> find_rec (repl_rec l r) a x = find_rec l a x.
Proof.
  intros Hne. induction l as [|w l IH]; cbn [find_rec repl_rec]; [reflexivity|].
  destruct (key_is w (ar_app r) (ar_asset r)) eqn:K; cbn [find_rec].
  - rewrite (key_is_other w r a x Hne K). destruct (key_is r a x) eqn:K2; [|reflexivity]. apply key_is_rkey in K2. congruence.
  - destruct (key_is w a x); [reflexivity|exact IH].
Qed.
Lemma find_ins_other l r a x : (a, x) <> rkey r -> find_rec (ins_rec l r) a x = find_rec l a x.
Proof.
  intros Hne. assert (Kr : key_is r a x = false) by (destruct (key_is r a x) eqn:K2; [apply key_is_rkey in K2; congruence|reflexivity]).
  induction l as [|w l IH]; cbn [find_rec ins_rec]; [rewrite Kr; reflexivity|].
  destruct (key_lt r w); cbn [find_rec]; [rewrite Kr; reflexivity|]. destruct (key_is w a x); [reflexivity|exact IH].
Qed.
Lemma find_put_other l r a x : (a, x) <> rkey r -> find_rec (put_rec l r) a x = find_rec l a x.
Proof. intros Hne. unfold put_rec. destruct (find_rec l (ar_app r) (ar_asset r)); [apply find_repl_other|apply find_ins_other]; exact Hne. Qed.

(* sums over the records *)
Lemma wsum_repl (f : arec -> Z) l r o : find_rec l (ar_app r) (ar_asset r) = Some o -> wsum f (repl_rec l r) = wsum f l - f o + f r.
Proof.
  induction l as [|w l IH]; cbn [find_rec repl_rec]; [discriminate|].
  destruct (key_is w (ar_app r) (ar_asset r)); intros H.
  - injection H as <-. rewrite !wsum_cons. lia.
  - rewrite !wsum_cons, (IH H). lia.
Qed.
Lemma wsum_ins (f : arec -> Z) l r : wsum f (ins_rec l r) = wsum f l + f r.
Proof.
  induction l as [|w l IH]; cbn [ins_rec]; [rewrite wsum_cons, !wsum_nil; lia|].
  destruct (key_lt r w); rewrite !wsum_cons; [lia|]. rewrite IH. lia.
Qed.
Lemma wsum_put (f : arec -> Z) l r :
  wsum f (put_rec l r) = wsum f l - (match find_rec l (ar_app r) (ar_asset r) with Some o => f o | None => 0 end) + f r.
Proof. unfold put_rec. destruct (find_rec l (ar_app r) (ar_asset r)) eqn:F; [exact (wsum_repl f l r a F)|rewrite wsum_ins; lia]. Qed.

(* a record replaced by one with the same key, amount and side leaves the list of cores unchanged *)
Lemma repl_core l r o : find_rec l (ar_app r) (ar_asset r) = Some o -> core r = core o -> map core (repl_rec l r) = map core l.
Proof.
  induction l as [|w l IH]; cbn [find_rec repl_rec map]; [discriminate|].
  destruct (key_is w (ar_app r) (ar_asset r)); intros H Hc; cbn [map].
  - injection H as <-. rewrite Hc. reflexivity.
  - rewrite (IH H Hc). reflexivity.
Qed.
Lemma put_core l r o : find_rec l (ar_app r) (ar_asset r) = Some o -> core r = core o -> map core (put_rec l r) = map core l.
Proof. intros F Hc. unfold put_rec. rewrite F. exact (repl_core l r o F Hc). Qed.

Lemma core_keys l l' : map core l' = map core l -> map rkey l' = map rkey l.
Proof.
  intros H. assert (E : forall m, map rkey m = map (fun t : Z * Z * Z * bool => (fst (fst (fst t)), snd (fst (fst t)))) (map core m)).
  { intros m. rewrite map_map. reflexivity. }
  rewrite (E l'), (E l), H. reflexivity.
Qed.
Lemma core_wsum (g : Z * Z * Z * bool -> Z) l l' : map core l' = map core l -> wsum (fun r => g (core r)) l' = wsum (fun r => g (core r)) l.
Proof.
  intros H. unfold wsum. rewrite <- (map_map core g l'), <- (map_map core g l), H. reflexivity.
Qed.
Lemma core_find l' : forall l a x r, map core l' = map core l -> find_rec l a x = Some r ->
  exists r', find_rec l' a x = Some r' /\ core r' = core r.
Proof.
  induction l' as [|w' l' IH]; intros [|w l] a x r H F; cbn [map find_rec] in *; try discriminate.
  assert (Hc : core w' = core w) by congruence. assert (Ht : map core l' = map core l) by congruence. clear H.
  assert (K : key_is w' a x = key_is w a x).
  { unfold key_is. pose proof (f_equal (fun t : Z * Z * Z * bool => fst (fst (fst t))) Hc) as E1.
    pose proof (f_equal (fun t : Z * Z * Z * bool => snd (fst (fst t))) Hc) as E2. cbn in E1, E2. rewrite E1, E2. reflexivity. }
  rewrite K. destruct (key_is w a x).
  - injection F as <-. exists w'. split; [reflexivity|exact Hc].
  - exact (IH l a x r Ht F).
Qed.
Lemma core_find_none l' : forall l a x, map core l' = map core l -> find_rec l a x = None -> find_rec l' a x = None.
Proof.
  induction l' as [|w' l' IH]; intros [|w l] a x H F; cbn [map find_rec] in *; try discriminate; [reflexivity|].
  assert (Hc : core w' = core w) by congruence. assert (Ht : map core l' = map core l) by congruence. clear H.
  assert (K : key_is w' a x = key_is w a x).
  { unfold key_is. pose proof (f_equal (fun t : Z * Z * Z * bool => fst (fst (fst t))) Hc) as E1.
    pose proof (f_equal (fun t : Z * Z * Z * bool => snd (fst (fst t))) Hc) as E2. cbn in E1, E2. rewrite E1, E2. reflexivity. }
  rewrite K. destruct (key_is w a x); [discriminate|]. exact (IH l a x Ht F).
Qed.
Lemma core_in l' : forall l r', map core l' = map core l -> In r' l' -> exists r, In r l /\ core r = core r'.
Proof.
  induction l' as [|w' l' IH]; intros [|w l] r' H Hin; cbn [map] in *; try discriminate; [destruct Hin|].
  assert (Hc : core w' = core w) by congruence. assert (Ht : map core l' = map core l) by congruence. clear H. destruct Hin as [<-|Hin].
  - exists w. split; [left; reflexivity|symmetry; exact Hc].
  - destruct (IH l r' Ht Hin) as (r & Hr & E). exists r. split; [right; exact Hr|exact E].
Qed.

(* the two sums of the property predicates as functions of the cores *)
Definition gcoll (d : Z) (t : Z * Z * Z * bool) : Z := let '(_, x, m, c) := t in if c && (x =? d) then m else 0.
Definition gdebt (d : Z) (t : Z * Z * Z * bool) : Z := let '(_, x, m, c) := t in if negb c && (x =? d) then m else 0.
Definition coll_of (l : list arec) (d : Z) : Z := wsum (fun r => if ar_coll r && (ar_asset r =? d) then ar_amt r else 0) l.
Definition debt_of (l : list arec) (d : Z) : Z := wsum (fun r => if negb (ar_coll r) && (ar_asset r =? d) then ar_amt r else 0) l.
Lemma coll_of_core l d : coll_of l d = wsum (fun r => gcoll d (core r)) l. Proof. reflexivity. Qed.
Lemma debt_of_core l d : debt_of l d = wsum (fun r => gdebt d (core r)) l. Proof. reflexivity. Qed.
Lemma esm_coll_of e d : esm_coll e d = coll_of (recs e) d. Proof. reflexivity. Qed.
Lemma esm_debt_of e d : esm_debt e d = debt_of (recs e) d. Proof. reflexivity. Qed.

Lemma coll_of_put l r d : coll_of (put_rec l r) d =
  coll_of l d - (match find_rec l (ar_app r) (ar_asset r) with Some o => if ar_coll o && (ar_asset o =? d) then ar_amt o else 0 | None => 0 end)
  + (if ar_coll r && (ar_asset r =? d) then ar_amt r else 0).
Proof. unfold coll_of. rewrite wsum_put. reflexivity. Qed.
Lemma debt_of_put l r d : debt_of (put_rec l r) d =
  debt_of l d - (match find_rec l (ar_app r) (ar_asset r) with Some o => if negb (ar_coll o) && (ar_asset o =? d) then ar_amt o else 0 | None => 0 end)
  + (if negb (ar_coll r) && (ar_asset r =? d) then ar_amt r else 0).
Proof. unfold debt_of. rewrite wsum_put. reflexivity. Qed.

(* ---------- the row of the esm account ---------- *)
Definition esame (s s' : state) : Prop := forall d, bal s' ESMA d = bal s ESMA d.
Lemma esame_refl s : esame s s. Proof. intros d. reflexivity. Qed.
Lemma esame_trans s1 s2 s3 : esame s1 s2 -> esame s2 s3 -> esame s1 s3.
Proof. intros A B d. rewrite (B d). apply A. Qed.

Lemma send_esame s f t d amt s' : f <> ESMA -> t <> ESMA -> send s f t d amt = Ok s' -> esame s s'.
Proof.
  intros Hf Ht H. apply send_spec in H. destruct H as (_ & b' & -> & Hb). intros x. ssimpl. rewrite Hb. unfold xfer.
  destruct (Z.eqb_spec ESMA t); [congruence|]. destruct (Z.eqb_spec ESMA f); [congruence|]. cbn [andb]. lia.
Qed.
Lemma csend_esame s f t d amt s' : f <> ESMA -> t <> ESMA -> (if amt >? 0 then send s f t d amt else Ok s) = Ok s' -> esame s s'.
Proof. intros Hf Ht H. destruct (amt >? 0); [exact (send_esame _ _ _ _ _ _ Hf Ht H)|]. injection H as <-. apply esame_refl. Qed.
Lemma burn_from_esame s a d amt s' : a <> ESMA -> burn_from s a d amt = Ok s' -> esame s s'.
Proof.
  intros Ha H. unfold burn_from in H. destruct (amt <? 0); [discriminate|]. destruct (bal s a d <? amt); [discriminate|]. injection H as <-.
  intros x. ssimpl. unfold at2. destruct (Z.eqb_spec ESMA a); [congruence|]. cbn [andb]. lia.
Qed.
Lemma cburn_from_esame s a d amt s' : a <> ESMA -> (if amt >? 0 then burn_from s a d amt else Ok s) = Ok s' -> esame s s'.
Proof. intros Ha H. destruct (amt >? 0); [exact (burn_from_esame _ _ _ _ _ Ha H)|]. injection H as <-. apply esame_refl. Qed.

Lemma bal_upd_coll s a p m ad : bal (upd_coll s a p m ad) = bal s. Proof. unfold upd_coll. destruct (prods s a p); reflexivity. Qed.
Lemma bal_upd_mint s a p m ad : bal (upd_mint s a p m ad) = bal s. Proof. unfold upd_mint. destruct (prods s a p); reflexivity. Qed.
Lemma bal_prod_del_id s a p id : bal (prod_del_id s a p id) = bal s. Proof. unfold prod_del_id. destruct (prods s a p); reflexivity. Qed.
Lemma bal_prod_add_id s a p id : bal (prod_add_id s a p id) = bal s. Proof. unfold prod_add_id. destruct (prods s a p); reflexivity. Qed.
Lemma bal_dec_len s : bal (dec_len s) = bal s. Proof. reflexivity. Qed.

(* ---------- deleting a stable-mint vault ---------- *)
Lemma no_v_in_stable c s a p x : Inv01 c s -> In x (svaults s) -> sv_app x = a -> sv_pair x = p -> filter (inprod a p) (vaults s) = [].
Proof.
  intros I Hx Ha Hp. destruct (i_kind_sv _ _ I x Hx) as (ep & Hep & Hst).
  induction (vaults s) as [|v l IH] eqn:E in I |- *; [reflexivity|].
  assert (G : forall v, In v (vaults s) -> inprod a p v = false).
  { intros w Hw. destruct (inprod a p w) eqn:P; [|reflexivity]. unfold inprod in P. apply andb_true_iff in P. destruct P as [_ P]. apply Z.eqb_eq in P.
    destruct (i_kind_v _ _ I w Hw) as (ep' & Hep' & Hst'). rewrite P, <- Hp, Hep in Hep'. injection Hep' as <-. congruence. }
  clear IH. rewrite <- E. revert G. generalize (vaults s). intros l0 G. induction l0 as [|w l0 IH]; [reflexivity|].
  cbn [filter]. rewrite (G w (or_introl eq_refl)). apply IH. intros w' Hw'. apply G. right. exact Hw'.
Qed.

Lemma sdel_inv01 c s s' x : Inv01 c s -> find_sv (svaults s) (sv_id x) = Some x ->
  vaults s' = vaults s -> svaults s' = del_sv (svaults s) (sv_id x) -> vlen s' = vlen s -> vid s' = vid s -> sid s' = sid s ->
  (forall a p, pcoll s' a p = pcoll s a p - (if sinprod a p x then sv_in x else 0)) ->
  (forall a p, pmint s' a p = pmint s a p - (if sinprod a p x then sv_out x else 0)) ->
  (forall a p, pids s' a p = if sinprod a p x then del_id (pids s a p) (sv_id x) else pids s a p) ->
  (forall d, bal s' VAULT d - unsol s' d = bal s VAULT d - unsol s d - (if denom_in c (sv_pair x) =? d then sv_in x else 0)) ->
  Inv01 c s'.
Proof.
  intros I M Hv Hx Hl Hi Hsi Hc Hm Hids Hb.
  destruct (gfind_some sv_id _ _ _ M) as [Hin _].
  assert (Hnd : NoDup (map sv_id (svaults s))) by (apply sorted_nodup; exact (i_sorted_sv _ _ I)).
  constructor.
  - intros d. unfold coll_sum. rewrite Hv, Hx. unfold del_sv. rewrite (gdel_wsum sv_id _ _ _ x M).
    pose proof (i_custody _ _ I d) as C. unfold coll_sum in C. specialize (Hb d). lia.
  - rewrite Hl, Hv. exact (i_count _ _ I).
  - intros a p. destruct (i_prod _ _ I a p) as (P1 & P2 & P3). rewrite Hc, Hm, Hids.
    unfold prod_coll_sum, prod_mint_sum, prod_ids. rewrite Hv, Hx. unfold del_sv.
    rewrite !(gdel_wsum sv_id _ _ _ x M). unfold prod_coll_sum in P1. unfold prod_mint_sum in P2. repeat split; try lia.
    destruct (sinprod a p x) eqn:SP.
    + unfold sinprod in SP. apply andb_true_iff in SP. destruct SP as [Sa Sp]. apply Z.eqb_eq in Sa, Sp.
      rewrite P3. pose proof (prod_ids_sorted c s a p I) as Hs. rewrite (del_id_sorted _ _ Hs). unfold prod_ids.
      rewrite (no_v_in_stable c s a p x I Hin Sa Sp). cbn [map app].
      symmetry. apply (gdel_filter_in sv_id (sinprod a p) _ _ x Hnd M).
    + rewrite P3. unfold prod_ids. rewrite (gdel_filter_out sv_id (sinprod a p) _ _ x M SP). reflexivity.
  - rewrite Hv. exact (i_sorted_v _ _ I).
  - rewrite Hx. apply gdel_sorted. exact (i_sorted_sv _ _ I).
  - rewrite Hv, Hi. exact (i_vid _ _ I).
  - rewrite Hx, Hsi. pose proof (i_sid _ _ I) as HF. rewrite Forall_forall in *. intros w Hw. apply (gdel_in sv_id) in Hw. exact (HF _ Hw).
  - rewrite Hv. exact (i_kind_v _ _ I).
  - rewrite Hx. intros w Hw. apply (gdel_in sv_id) in Hw. exact (i_kind_sv _ _ I w Hw).
  - unfold VWf. rewrite Hv. exact (i_wf _ _ I).
Qed.
