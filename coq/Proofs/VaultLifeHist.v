(* C01 over every finite history of the vault life cycle: vault messages, seizures (message and sweep),
   bids, auction block ticks, esm vault redemption, with arbitrary environment values. *)
From Comdex Require Import Lib.Base Lib.DecArith Lib.DecFacts Lib.Atomic Model.Vault Model.VaultLife
  Proofs.VaultProofs Proofs.VaultExec Proofs.VaultHandlers Proofs.VaultInv Proofs.VaultLifeBase Proofs.VaultLifeInv.
From Coq Require Import ZifyBool Sorted.

(* what is asked of one step in the state it runs in:
   - a vault message is signed by a user account (not by the module accounts vaultV1 / collectorV1);
   - the liquidator of MsgLiquidateInternalKeeper and the bidder of MsgPlaceMarketBid are not the vault
     custody account;
   - the environment amounts of a successful bid are within the auction's remainder: what it paid is at most
     the debt still to collect, what it received at most the collateral left.  This is what the auction
     theorems establish for the real arithmetic: Properties/C10.v c10_bid_amounts
     (0 <= r_paid r <= a_debt a /\ 0 <= r_recv r <= a_coll a for every successful place_bid_core).  Nothing
     else is asked of them (whether the bid closed, the exhausted branch and its top-up are arbitrary).
   The auctionsV2 block tick, the sweep and the esm redemption carry no hypothesis. *)
Definition lop_ok (l : lstate) (o : lop) : Prop :=
  match o with
  | VOp o' => user_op o'
  | Liquidate _ _ k => k <> VAULT
  | Bid aid who paid recv _ _ _ =>
      who <> VAULT /\ forall a, find_au (aus l) aid = Some a -> 0 <= paid <= au_debt a /\ 0 <= recv <= au_coll a
  | AucTick | Sweep _ | EsmRedeem _ => True
  end.

Fixpoint hist_ok (c : cfg) (lc : lcfg) (l : lstate) (ops : list lop) : Prop :=
  match ops with
  | [] => True
  | o :: r => lop_ok l o /\ hist_ok c lc (lstep c lc l o) r
  end.

Theorem lrun_invL c lc l o l' : cfg_ok c -> lop_ok l o -> InvL c l -> lrun c lc l o = Ok l' -> InvL c l'.
Proof.
  intros CK Hok I H. destruct o; cbn [lrun lop_ok] in *.
  - destruct (run c (vs l) o) as [s'| |] eqn:R; try discriminate H. injection H as <-. exact (vop_invL c l o s' CK Hok I R).
  - exact (liquidate_invL c lc l id ienv true keeper l' CK (fun _ => Hok) I H).
  - injection H as <-. exact (sweep_invL c lc items CK l I).
  - exact (bid_invL c lc l aid who paid recv closed exh topup l' (proj1 Hok) (proj2 Hok) I H).
  - injection H as <-. apply auc_tick_invL. exact I.
  - exact (esm_redeem_invL c lc l app l' I H).
Qed.

Lemma lstep_cases c lc l o : (exists l', lrun c lc l o = Ok l' /\ lstep c lc l o = l') \/ (is_ok (lrun c lc l o) = false /\ lstep c lc l o = l).
Proof.
  unfold lstep. destruct (lrun c lc l o) as [l'| |]; cbn [keep is_ok].
  - left. exists l'. split; reflexivity.
  - right. split; reflexivity.
  - right. split; reflexivity.
Qed.

Lemma lstep_invL c lc l o : cfg_ok c -> lop_ok l o -> InvL c l -> InvL c (lstep c lc l o).
Proof.
  intros CK Hok I. destruct (lstep_cases c lc l o) as [(l' & H & ->)|[_ ->]]; [|exact I].
  exact (lrun_invL c lc l o l' CK Hok I H).
Qed.

Theorem history_invL c lc ops : cfg_ok c -> forall l, hist_ok c lc l ops -> InvL c l -> InvL c (lrun_all c lc ops l).
Proof.
  intros CK. induction ops as [|o ops IH]; intros l HO I; [exact I|].
  destruct HO as [Ho HO]. cbn [lrun_all fold_left]. apply IH; [exact HO|]. apply lstep_invL; assumption.
Qed.

(* a rejected step (error or panic) changes nothing *)
Lemma lstep_rejected c lc l o : is_ok (lrun c lc l o) = false -> lstep c lc l o = l.
Proof. unfold lstep. destruct (lrun c lc l o); [discriminate|reflexivity|reflexivity]. Qed.

(* ---------- the initial state ---------- *)
Lemma inv01_shift0 c s oc opc opm : (forall d, oc d = 0) -> (forall a p, opc a p = 0) -> (forall a p, opm a p = 0) ->
  Inv01 c s -> Inv01 c (shift s oc opc opm).
Proof.
  intros H1 H2 H3 I. apply (beffect_inv01 c s _ BNone I).
  constructor; cbn [bc_pre bc_wf bc_vaults bc_svaults touched bc_din bc_dout bc_ids]; try reflexivity; try exact Logic.I.
  - intros a p. rewrite shift_pcoll, H2. lia.
  - intros a p. rewrite shift_pmint, H3. lia.
  - intros d. rewrite shift_cust, shift_unsol, H1. destruct (_ =? d); lia.
Qed.

Lemma invL_lift c s : Inv01 c s -> (forall v, In v (vaults s) -> v_owner v <> VAULT) -> umap_ok s -> InvL c (lift s).
Proof.
  intros I HO HU. constructor; cbn [lift vs lks aus lkid].
  - unfold view. apply inv01_shift0; try (intros; reflexivity). exact I.
  - exact HO.
  - exact HU.
  - constructor.
  - constructor.
  - intros k [].
  - intros a [].
Qed.

Lemma invL_init c b sp t pr : (forall d, b VAULT d = 0) -> InvL c (lift (init b sp t pr)).
Proof. intros Hb. apply invL_lift; [apply inv01_init; exact Hb|intros v []|]. intros o a p id H. discriminate H. Qed.

(* ---------- the executable predicate ---------- *)
Lemma invL_custody c l d : InvL c l -> bal (vs l) VAULT d = coll_sum c (vs l) d + unsol (vs l) d - er_short l d.
Proof.
  intros I. pose proof (i_custody _ _ (il_view _ _ I) d) as H. unfold view in H.
  rewrite shift_cust, shift_coll_sum, shift_unsol in H. unfold oc_of in H. lia.
Qed.
Lemma invL_count c l : InvL c l -> vlen (vs l) = zlen (vaults (vs l)).
Proof. intros I. exact (i_count _ _ (il_view _ _ I)). Qed.
Lemma invL_prod c l a p : InvL c l ->
  pcoll (vs l) a p = prod_coll_sum (vs l) a p + lock_coll l a p - er_coll l a p /\
  pmint (vs l) a p = prod_mint_sum (vs l) a p + lock_prin l a p - drift l a p - er_mint l a p /\
  pids (vs l) a p = prod_ids (vs l) a p /\ StronglySorted Z.lt (prod_ids (vs l) a p).
Proof.
  intros I. destruct (i_prod _ _ (il_view _ _ I) a p) as (P1 & P2 & P3). unfold view in *.
  rewrite shift_pcoll, shift_prod_coll_sum in P1. rewrite shift_pmint, shift_prod_mint_sum in P2. rewrite shift_pids, shift_prod_ids in P3.
  unfold opc_of in P1. unfold opm_of in P2. repeat split; try lia; try exact P3.
  exact (prod_ids_sorted c _ a p (il_view _ _ I)).
Qed.

(* the identity of the property text holds wherever the known-finding ghosts are zero *)
Theorem invL_holds c l denoms : InvL c l -> kf_C01_life c denoms l = false -> holds_C01_life c denoms l = true.
Proof.
  intros I K. unfold kf_C01_life in K. apply orb_false_iff in K. destruct K as [K1 K2].
  pose proof (proj1 (existsb_false _ _) K1) as Kd. pose proof (proj1 (existsb_false _ _) K2) as Kp. clear K1 K2.
  unfold holds_C01_life. rewrite !andb_true_iff. repeat split.
  - apply forallb_forall. intros d Hd. specialize (Kd d Hd). unfold kf_C01_4_denom in Kd. apply negb_false_iff, Z.eqb_eq in Kd.
    unfold c01l_custody, c01_custody. rewrite (invL_custody c l d I), Kd. apply Z.eqb_eq. lia.
  - unfold c01l_count, c01_count. rewrite (invL_count c l I). apply Z.eqb_refl.
  - apply forallb_forall. intros e He. specialize (Kp e He). cbv beta in Kp.
    apply orb_false_iff in Kp. destruct Kp as [Kp1 Kp2]. unfold kf_C01_2 in Kp1. unfold kf_C01_4_prod in Kp2.
    apply orb_false_iff in Kp2. destruct Kp2 as [Kp2 Kp3].
    apply negb_false_iff, Z.eqb_eq in Kp1. apply negb_false_iff, Z.eqb_eq in Kp2. apply negb_false_iff, Z.eqb_eq in Kp3.
    destruct (invL_prod c l (ep_app e) (ep_id e) I) as (P1 & P2 & P3 & P4).
    unfold c01l_coll, c01l_mint, c01l_ids. unfold pcoll, pmint, pids in *.
    destruct (prods (vs l) (ep_app e) (ep_id e)) as [pr|].
    + rewrite P3, list_eqb_refl, (sorted_ascending _ P4). rewrite !andb_true_iff. repeat split; apply Z.eqb_eq; lia.
    + rewrite <- P3. rewrite !andb_true_iff. repeat split; try reflexivity; apply Z.eqb_eq; lia.
Qed.

(* the ghost-corrected identities hold wherever the invariant holds: no known-finding hypothesis *)
Theorem invL_holds_adj c l denoms : InvL c l -> holds_C01_adj c denoms l = true.
Proof.
  intros I. unfold holds_C01_adj. rewrite !andb_true_iff. repeat split.
  - apply forallb_forall. intros d _. unfold c01l_custody_adj. rewrite (invL_custody c l d I). apply Z.eqb_refl.
  - unfold c01l_count, c01_count. rewrite (invL_count c l I). apply Z.eqb_refl.
  - apply forallb_forall. intros e _. destruct (invL_prod c l (ep_app e) (ep_id e) I) as (P1 & P2 & P3 & P4).
    unfold c01l_coll_adj, c01l_mint_adj, c01l_ids. unfold pcoll, pmint, pids in *.
    destruct (prods (vs l) (ep_app e) (ep_id e)) as [pr|].
    + rewrite P3, list_eqb_refl, (sorted_ascending _ P4). rewrite !andb_true_iff. repeat split; apply Z.eqb_eq; lia.
    + rewrite <- P3. rewrite !andb_true_iff. repeat split; try reflexivity; apply Z.eqb_eq; lia.
Qed.

(* ---------- a decision procedure for the hypotheses of a concrete history (used by the examples) ---------- *)
Definition lop_okb (l : lstate) (o : lop) : bool :=
  match o with
  | VOp o' => negb (sender o' =? VAULT) && negb (sender o' =? COLL)
  | Liquidate _ _ k => negb (k =? VAULT)
  | Bid aid who paid recv _ _ _ =>
      negb (who =? VAULT) &&
      match find_au (aus l) aid with
      | Some a => (0 <=? paid) && (paid <=? au_debt a) && (0 <=? recv) && (recv <=? au_coll a)
      | None => true end
  | AucTick | Sweep _ | EsmRedeem _ => true
  end.
Fixpoint hist_okb (c : cfg) (lc : lcfg) (l : lstate) (ops : list lop) : bool :=
  match ops with
  | [] => true
  | o :: r => lop_okb l o && hist_okb c lc (lstep c lc l o) r
  end.

Lemma lop_okb_sound l o : lop_okb l o = true -> lop_ok l o.
Proof.
  destruct o; cbn [lop_okb lop_ok]; intros H; try exact Logic.I.
  - apply andb_true_iff in H. destruct H as [H1 H2]. apply negb_true_iff in H1, H2. split; intros E; rewrite E in *; discriminate.
  - apply negb_true_iff in H. intros E. rewrite E in H. discriminate.
  - apply andb_true_iff in H. destruct H as [H1 H2]. apply negb_true_iff in H1. split; [intros E; rewrite E in H1; discriminate|].
    intros a Ha. rewrite Ha in H2. rewrite !andb_true_iff in H2. lia.
Qed.
Lemma hist_okb_sound c lc ops : forall l, hist_okb c lc l ops = true -> hist_ok c lc l ops.
Proof.
  induction ops as [|o ops IH]; intros l H; cbn [hist_okb hist_ok] in *; [exact Logic.I|].
  apply andb_true_iff in H. destruct H as [H1 H2]. split; [exact (lop_okb_sound l o H1)|exact (IH _ H2)].
Qed.
