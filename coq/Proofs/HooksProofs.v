(* C15 - lemmas about the hook semantics (Model/Hooks.v) and the sweep window (Model/Sweep.v). *)
From Coq Require Import String ZifyBool.
From Comdex Require Import Lib.Base Lib.Atomic Model.HookLang Gen.HookTable Model.Hooks Model.Sweep.
From Comdex Require Model.Liquidation.
Local Open Scope Z_scope.

(* induction principle for the nested inductive [hook] *)
Section HookInd.
  Variable P : hook -> Prop.
  Hypothesis HSeq : forall l, Forall P l -> P (Seq l).
  Hypothesis HFor : forall i b, P b -> P (ForEach i b).
  Hypothesis HWrap : forall b, P b -> P (Wrapped b).
  Hypothesis HCall : forall n k, P (Call n k).
  Hypothesis HRisk : forall k t, P (Risk k t).
  Hypothesis HUn : forall w, P (Unrecognised w).
  Fixpoint hook_ind' (h : hook) : P h :=
    match h with
    | Seq l => HSeq l ((fix go (l : list hook) : Forall P l :=
                          match l with [] => Forall_nil P | x :: r => Forall_cons x (hook_ind' x) (go r) end) l)
    | ForEach i b => HFor i b (hook_ind' b)
    | Wrapped b => HWrap b (hook_ind' b)
    | Call n k => HCall n k
    | Risk k t => HRisk k t
    | Unrecognised w => HUn w
    end.
End HookInd.

Section SemFacts.
  Variable store : Type.
  Variable call_sem : string -> list nat -> unit_of_work store.
  Variable risk_sem : string -> string -> list nat -> store -> bool.
  Variable loop_len : string -> list nat -> store -> nat.
  Notation exec := (exec call_sem risk_sem loop_len).

  (* the two local loops of [exec], named *)
  Fixpoint exec_seq (l : list hook) (idx : list nat) (s : store) : run_result store :=
    match l with
    | [] => RunOk s
    | x :: r => match exec x idx s with RunOk s1 => exec_seq r idx s1 | other => other end
    end.
  Fixpoint exec_iter (body : hook) (idx : list nat) (n i : nat) (s : store) : run_result store :=
    match n with
    | O => RunOk s
    | S n' => match exec body (i :: idx) s with RunOk s1 => exec_iter body idx n' (S i) s1 | other => other end
    end.

  Lemma exec_Seq l idx s : exec (Seq l) idx s = exec_seq l idx s.
  Proof. cbn [Hooks.exec]. revert s. induction l as [|x r IH]; intro s; cbn; [reflexivity|].
         destruct (exec x idx s); try reflexivity. apply IH. Qed.

  Lemma exec_ForEach items b idx s :
    exec (ForEach items b) idx s = exec_iter b idx (loop_len items idx s) O s.
  Proof. cbn [Hooks.exec]. generalize (loop_len items idx s) as n, O as i. intro n. revert s.
         induction n as [|n IH]; intros s i; cbn; [reflexivity|].
         destruct (exec b (i :: idx) s); try reflexivity. apply IH. Qed.

  (* ---- a wrapped unit is all-or-nothing, for every body ---- *)
  Lemma exec_wrapped_all_or_nothing b idx s :
    exists s', exec (Wrapped b) idx s = RunOk s' /\
      ((succeeded (exec b idx) s = false /\ s' = s) \/ exec b idx s = RunOk s').
  Proof.
    cbn [Hooks.exec]. exists (apply (exec b idx) s). split; [reflexivity|].
    destruct (apply_all_or_nothing store (exec b idx) s) as [[H1 H2]|[s' [H1 H2]]].
    - left. split; assumption.
    - right. rewrite H2. exact H1.
  Qed.

  (* ---- leaves outside every wrap ---- *)
  Fixpoint unwrapped (h : hook) : list hook :=
    match h with
    | Seq l => flat_map unwrapped l
    | ForEach _ b => unwrapped b
    | Wrapped _ => []
    | other => [other]
    end.

  Definition leaf_safe (h : hook) : Prop :=
    match h with
    | Call n _ => forall idx s, match call_sem n idx s with RunPanic _ => False | _ => True end
    | Risk k t => forall idx s, risk_sem k t idx s = false
    | Unrecognised _ => False
    | _ => True
    end.

  Definition not_panic (r : run_result store) : Prop := match r with RunPanic _ => False | _ => True end.

  (* a hook does not halt the chain if the leaves outside its wraps do not panic - whatever the
     wrapped bodies do *)
  Lemma exec_no_panic h : Forall leaf_safe (unwrapped h) -> forall idx s, not_panic (exec h idx s).
  Proof.
    induction h as [l IH|i b IH|b IH|n k|k t|w] using hook_ind'; intros Hs idx s.
    - rewrite exec_Seq. revert s. cbn [unwrapped] in Hs. induction l as [|x r IHr]; intro s; cbn; [exact I|].
      cbn in Hs. apply Forall_app in Hs. destruct Hs as [Hx Hr]. inversion IH as [|? ? Px Pr]; subst.
      specialize (Px Hx idx s). destruct (exec x idx s); cbn in Px |- *; try exact I; try contradiction.
      apply IHr; assumption.
    - rewrite exec_ForEach. cbn [unwrapped] in Hs. generalize (loop_len i idx s) as n, O as j. intro n. revert s.
      induction n as [|n IHn]; intros s j; cbn; [exact I|].
      specialize (IH Hs (j :: idx) s). destruct (exec b (j :: idx) s); cbn in IH |- *; try exact I; try contradiction.
      apply IHn.
    - cbn. exact I.
    - cbn in Hs. inversion Hs as [|? ? H1 _]; subst. cbn. exact (H1 idx s).
    - cbn in Hs. inversion Hs as [|? ? H1 _]; subst. cbn. cbn in H1. rewrite H1. exact I.
    - cbn in Hs. inversion Hs as [|? ? H1 _]; subst. destruct H1.
  Qed.

  (* a hook all of whose leaves are wrapped always returns normally *)
  Lemma exec_guarded_total h : unwrapped h = [] -> forall idx s, exists s', exec h idx s = RunOk s'.
  Proof.
    induction h as [l IH|i b IH|b IH|n k|k t|w] using hook_ind'; intros Hs idx s; try discriminate Hs.
    - rewrite exec_Seq. revert s. cbn [unwrapped] in Hs. induction l as [|x r IHr]; intro s; cbn; [eexists; reflexivity|].
      cbn in Hs. apply app_eq_nil in Hs. destruct Hs as [Hx Hr]. inversion IH as [|? ? Px Pr]; subst.
      destruct (Px Hx idx s) as [s1 E]. rewrite E. apply IHr; assumption.
    - rewrite exec_ForEach. cbn [unwrapped] in Hs. generalize (loop_len i idx s) as n, O as j. intro n. revert s.
      induction n as [|n IHn]; intros s j; cbn; [eexists; reflexivity|].
      destruct (IH Hs (j :: idx) s) as [s1 E]. rewrite E. apply IHn.
    - cbn. eexists; reflexivity.
  Qed.

  (* ---- every item of a loop is processed when the body cannot fail (in particular when the
     body is wrapped): item j sees the state left by items 0..j-1, each of which contributed its
     complete effect or nothing ---- *)
  Definition state_after (h : hook) (idx : list nat) (s : store) : store :=
    match exec h idx s with RunOk s' => s' | RunErr p _ => p | RunPanic p => p end.

  Lemma exec_iter_total b idx n : (forall j s, exists s', exec b (j :: idx) s = RunOk s') ->
    forall i s, exec_iter b idx n i s = RunOk (fold_left (fun acc j => state_after b (j :: idx) acc) (seq i n) s).
  Proof.
    intro Ht. induction n as [|n IH]; intros i s; cbn; [reflexivity|].
    destruct (Ht i s) as [s1 E]. unfold state_after at 2. rewrite E. apply IH.
  Qed.

  Lemma exec_foreach_processes_all items b idx s :
    unwrapped b = [] ->
    exec (ForEach items b) idx s =
      RunOk (fold_left (fun acc j => state_after b (j :: idx) acc) (seq 0 (loop_len items idx s)) s).
  Proof.
    intro Hb. rewrite exec_ForEach. apply exec_iter_total. intros j s0. apply exec_guarded_total. exact Hb.
  Qed.

  (* the body  Seq [Wrapped w]  the translator finds in every per-item sweep *)
  Lemma state_after_wrapped w idx s : state_after (Seq [Wrapped w]) idx s = apply (exec w idx) s.
  Proof. unfold state_after. rewrite exec_Seq. cbn. reflexivity. Qed.
End SemFacts.

(* ------------------------------------------------------------------------------------------ *)
(* sweep window                                                                                *)
(* ------------------------------------------------------------------------------------------ *)
Lemma wrap64_small z : -9223372036854775808 <= z <= int_max -> wrap64 z = z.
Proof. unfold wrap64, int_max. intro H. rewrite Z.mod_small by lia. lia. Qed.

Lemma wrap64_over z : int_max < z <= int_max + int_max + 1 -> wrap64 z = z - 18446744073709551616.
Proof.
  unfold wrap64, int_max. intro H.
  replace (z + 9223372036854775808) with ((z - 9223372036854775808) + 1 * 18446744073709551616) by lia.
  rewrite Z_mod_plus_full. rewrite Z.mod_small by lia. lia.
Qed.

(* the conversion int(u) is the identity below 2^63 and u - 2^64 (negative) from 2^63 on *)
Lemma int_of_uint64_small u : 0 <= u <= int_max -> int_of_uint64 u = u.
Proof. intro H. unfold int_of_uint64. apply wrap64_small. unfold int_max in *. lia. Qed.
Lemma int_of_uint64_big u : int_max < u <= uint64_max -> int_of_uint64 u = u - 18446744073709551616 /\ int_of_uint64 u < 0.
Proof. intro H. unfold int_of_uint64. rewrite wrap64_over by (unfold int_max, uint64_max in *; lia). unfold uint64_max in H. lia. Qed.

(* the repaired helper: 0 <= start <= end <= sliceLen for EVERY offset and EVERY batch size (the
   wrapped  offset + batchSize  included) *)
Lemma slice_bounds_ok len off batch :
  0 <= len -> let '(s, e) := slice_bounds len off batch in 0 <= s <= e /\ e <= len.
Proof.
  intros Hl. unfold slice_bounds.
  destruct (off >=? len) eqn:E1; cbn [orb]; [lia|].
  destruct (off <? 0) eqn:E2; cbn [orb]; [lia|].
  destruct (batch <? 0) eqn:E3; cbn [orb]; [lia|].
  set (w := wrap64 (off + batch)).
  destruct (w >=? len) eqn:E4; cbn [orb]; [lia|].
  destruct (w <? off) eqn:E5; lia.
Qed.

Lemma sweep_window_ok len off batch :
  0 <= len -> let '(s, e) := sweep_window len off batch in 0 <= s <= e /\ e <= len.
Proof.
  intros Hl. unfold sweep_window.
  pose proof (slice_bounds_ok len off batch Hl) as H1.
  destruct (slice_bounds len off batch) as [s e].
  destruct (s =? e).
  - apply slice_bounds_ok. exact Hl.
  - exact H1.
Qed.

(* the slice expression of the sweep does not panic when the length the code uses is at most the
   capacity of the sliced list (reachable states: the counter equals the list length) - for every
   offset and every batch size *)
Lemma sweep_slice_no_panic {A} (zero : A) (l : list A) cap counter off batch :
  0 <= counter <= cap -> zlen l <= cap ->
  exists items e, sweep_slice zero l cap counter off batch = Some (items, e) /\ 0 <= e <= counter.
Proof.
  intros Hc Hl. unfold sweep_slice.
  pose proof (sweep_window_ok counter off batch (proj1 Hc)) as H.
  destruct (sweep_window counter off batch) as [s e]. unfold go_slice, go_slice_ok.
  replace (0 <=? s) with true by (symmetry; apply Z.leb_le; lia).
  replace (s <=? e) with true by (symmetry; apply Z.leb_le; lia).
  replace (e <=? cap) with true by (symmetry; apply Z.leb_le; lia).
  replace (zlen l <=? cap) with true by (symmetry; apply Z.leb_le; lia).
  cbn [andb]. eexists. exists e. split; [reflexivity|lia].
Qed.

(* from the stored uint64 values, through the caller's int() conversions: every stored offset and
   every stored batch size (2^63 .. 2^64-1 included: they convert to negative ints) *)
Lemma sweep_slice_stored_no_panic {A} (zero : A) (l : list A) cap counter_u off_u batch_u :
  0 <= counter_u <= cap -> cap <= int_max -> zlen l <= cap ->
  exists items e, sweep_slice_stored zero l cap counter_u off_u batch_u = Some (items, e) /\ 0 <= e <= counter_u.
Proof.
  intros Hc Hcap Hl. unfold sweep_slice_stored. rewrite (int_of_uint64_small counter_u) by lia.
  apply sweep_slice_no_panic; assumption.
Qed.

(* the predictor is exactly "the modelled slice expression returns None" *)
Lemma slice_panics_spec {A} (zero : A) (l : list A) cap counter off batch : zlen l <= cap ->
  (slice_panics cap counter off batch = false <-> exists r, sweep_slice zero l cap counter off batch = Some r).
Proof.
  intros Hl. unfold slice_panics, sweep_slice, go_slice.
  destruct (sweep_window counter off batch) as [s e].
  replace (zlen l <=? cap) with true by (symmetry; apply Z.leb_le; exact Hl).
  destruct (go_slice_ok cap s e); cbn; split; intro H; try reflexivity; try discriminate.
  - eexists; reflexivity.
  - destruct H as [r H]. discriminate.
Qed.

(* when does the slice expression panic: exactly when the end of the window is beyond the capacity *)
Lemma slice_panics_iff cap counter off batch : 0 <= counter ->
  (slice_panics cap counter off batch = true <-> cap < snd (sweep_window counter off batch)).
Proof.
  intros Hc. unfold slice_panics.
  pose proof (sweep_window_ok counter off batch Hc) as H.
  destruct (sweep_window counter off batch) as [s e]. cbn [snd]. unfold go_slice_ok.
  replace (0 <=? s) with true by (symmetry; apply Z.leb_le; lia).
  replace (s <=? e) with true by (symmetry; apply Z.leb_le; lia).
  cbn [andb]. destruct (e <=? cap) eqn:E; cbn; split; intro H1; try discriminate; try reflexivity; lia.
Qed.

(* ... hence only when the counter exceeds the capacity: never in a reachable state *)
Lemma slice_panics_only_if cap counter off batch : 0 <= counter ->
  slice_panics cap counter off batch = true -> cap < counter.
Proof.
  intros Hc H. apply slice_panics_iff in H; [|exact Hc].
  pose proof (sweep_window_ok counter off batch Hc) as Hw.
  destruct (sweep_window counter off batch) as [s e]. cbn [snd] in H. lia.
Qed.

(* a batch size that covers the whole list (the default 200 against a few vaults): the window
   always ends at the counter *)
Lemma sweep_window_full_batch counter off batch : 0 <= counter <= batch -> batch <= int_max ->
  snd (sweep_window counter off batch) = counter.
Proof.
  intros Hc Hb.
  assert (Hz : snd (slice_bounds counter 0 batch) = counter).
  { unfold slice_bounds. destruct (0 >=? counter) eqn:E1; cbn [orb]; [reflexivity|].
    replace (0 <? 0) with false by reflexivity. replace (batch <? 0) with false by (symmetry; apply Z.ltb_ge; lia).
    cbn [orb]. rewrite wrap64_small by (unfold int_max in *; lia). cbn [Z.add].
    replace (batch >=? counter) with true by (symmetry; apply Z.geb_le; lia). reflexivity. }
  unfold sweep_window. destruct (slice_bounds counter off batch) as [s e] eqn:Es.
  destruct (s =? e) eqn:Ee; [exact Hz|]. cbn [snd].
  unfold slice_bounds in Es.
  destruct (off >=? counter) eqn:E1; cbn [orb] in Es; [inversion Es; subst; lia|].
  destruct (off <? 0) eqn:E2; cbn [orb] in Es; [inversion Es; subst; lia|].
  destruct (batch <? 0) eqn:E3; cbn [orb] in Es; [inversion Es; subst; lia|].
  destruct (Z_le_gt_dec (off + batch) int_max) as [Hs|Hs].
  - rewrite wrap64_small in Es by (unfold int_max in *; lia).
    replace (off + batch >=? counter) with true in Es by (symmetry; apply Z.geb_le; lia).
    cbn [orb] in Es. inversion Es. reflexivity.
  - rewrite wrap64_over in Es by (unfold int_max in *; lia).
    replace (off + batch - 18446744073709551616 <? off) with true in Es by (symmetry; apply Z.ltb_lt; unfold int_max in *; lia).
    rewrite orb_true_r in Es. inversion Es. reflexivity.
Qed.

Lemma slice_panics_full_batch cap counter off batch : 0 <= counter <= batch -> batch <= int_max ->
  (slice_panics cap counter off batch = true <-> cap < counter).
Proof.
  intros Hc Hb. rewrite slice_panics_iff by lia. rewrite sweep_window_full_batch by assumption. reflexivity.
Qed.

(* The repaired helper computes, on every int input, what the helper computes over unbounded
   integers (the window C09's model Model/Liquidation.v uses): the int64 wrap-around no longer
   shows.  Before fix C15-F2 this failed for off >= 1, off + batch > int_max. *)
Lemma slice_bounds_unbounded len off batch :
  len <= int_max -> off <= int_max -> batch <= int_max ->
  slice_bounds len off batch = Comdex.Model.Liquidation.slice_bounds len off batch.
Proof.
  intros Hl Ho Hb. unfold slice_bounds, Comdex.Model.Liquidation.slice_bounds.
  destruct (off >=? len) eqn:E1; cbn [orb]; [reflexivity|].
  destruct (off <? 0) eqn:E2; cbn [orb]; [reflexivity|].
  destruct (batch <? 0) eqn:E3; cbn [orb]; [reflexivity|].
  destruct (Z_le_gt_dec (off + batch) int_max) as [Hs|Hs].
  - rewrite wrap64_small by (unfold int_max in *; lia).
    replace (off + batch <? off) with false by (symmetry; apply Z.ltb_ge; lia).
    rewrite orb_false_r. reflexivity.
  - rewrite wrap64_over by (unfold int_max in *; lia).
    replace (off + batch - 18446744073709551616 <? off) with true by (symmetry; apply Z.ltb_lt; unfold int_max in *; lia).
    rewrite orb_true_r.
    replace (off + batch >=? len) with true by (symmetry; apply Z.geb_le; lia). reflexivity.
Qed.

Lemma sweep_window_unbounded len off batch :
  len <= int_max -> off <= int_max -> batch <= int_max ->
  sweep_window len off batch = Comdex.Model.Liquidation.sweep_window len off batch.
Proof.
  intros Hl Ho Hb. unfold sweep_window, Comdex.Model.Liquidation.sweep_window.
  rewrite (slice_bounds_unbounded len off batch Hl Ho Hb).
  rewrite (slice_bounds_unbounded len 0 batch Hl) by (unfold int_max; lia || assumption).
  destruct (Comdex.Model.Liquidation.slice_bounds len off batch) as [s e]. reflexivity.
Qed.

(* range index: x[i] for i < len x *)
Lemma range_index_ok {A} (l : list A) (i : nat) : (i < length l)%nat -> exists x, nth_z l i = Some x.
Proof. revert i. induction l as [|a r IH]; intros i Hi; cbn in Hi; [lia|]. destruct i; cbn; [eexists; reflexivity|]. apply IH. lia. Qed.

(* x[:0] never panics: cap >= 0 *)
Lemma slice_zero_ok cap : 0 <= cap -> go_slice_ok cap 0 0 = true.
Proof. intro H. unfold go_slice_ok. cbn. apply Z.leb_le. exact H. Qed.

(* ------------------------------------------------------------------------------------------ *)
(* crash points: a unit written as its list of store accesses                                  *)
(* ------------------------------------------------------------------------------------------ *)
Lemma run_accesses_app {store} (a b : list (access store)) s :
  run_accesses (a ++ b) s = match run_accesses a s with RunOk s1 => run_accesses b s1 | other => other end.
Proof. revert s. induction a as [|x r IH]; intro s; cbn; [reflexivity|]. destruct (x s); [apply IH|reflexivity]. Qed.

(* access number |pre| fails (out of gas, missing record, insufficient funds ...): nothing the
   unit wrote before is visible *)
Lemma crash_at_k {store} (pre post : list (access store)) (a : access store) s s1 :
  run_accesses pre s = RunOk s1 -> a s1 = None -> apply (run_accesses (pre ++ a :: post)) s = s.
Proof. intros H1 H2. unfold apply. rewrite run_accesses_app, H1. cbn. rewrite H2. reflexivity. Qed.

Lemma no_crash_full {store} (acc : list (access store)) s s' :
  run_accesses acc s = RunOk s' -> apply (run_accesses acc) s = s'.
Proof. intro H. unfold apply. rewrite H. reflexivity. Qed.

(* table facts by computation *)
Lemma units_wrapped_table :
  forallb (fun u => unit_is_wrapped hook_table u) hook_units = true.
Proof. vm_compute. reflexivity. Qed.

Lemma unwrapped_leaves_table : forallb unwrapped_leaf_ok (all_root_leaves hook_table) = true.
Proof. vm_compute. reflexivity. Qed.

Lemma table_closed : roots_covered hook_table && forallb no_unrecognised (all_root_leaves hook_table) = true.
Proof. vm_compute. reflexivity. Qed.
