(* C15 - lemmas about the hook semantics (Model/Hooks.v) and the sweep window (Model/Sweep.v). *)
From Coq Require Import String ZifyBool.
From Comdex Require Import Lib.Base Lib.Atomic Model.HookLang Gen.HookTable Model.Hooks Model.Sweep.
From Comdex Require Model.Liquidation.
Local Open Scope Z_scope.

(* induction principle for the nested inductive [hook] *)
Section HookInd.
  Variable P : hook -> Prop.
  Hypothesis HSeq : forall l, Forall P l -> P (Seq l).
  Hypothesis HFor : forall i b, P b -> P (ForEach i b).
  Hypothesis HWrap : forall b, P b -> P (Wrapped b).
  Hypothesis HCall : forall n k, P (Call n k).
  Hypothesis HRisk : forall k t, P (Risk k t).
  Hypothesis HUn : forall w, P (Unrecognised w).
  Hypothesis HOnErr : forall r c, P c -> P (OnErr r c).
  Fixpoint hook_ind' (h : hook) : P h :=
    match h with
    | Seq l => HSeq l ((fix go (l : list hook) : Forall P l :=
                          match l with [] => Forall_nil P | x :: r => Forall_cons x (hook_ind' x) (go r) end) l)
    | ForEach i b => HFor i b (hook_ind' b)
    | Wrapped b => HWrap b (hook_ind' b)
    | Call n k => HCall n k
    | Risk k t => HRisk k t
    | Unrecognised w => HUn w
    | OnErr r c => HOnErr r c (hook_ind' c)
    end.
End HookInd.

Section SemFacts.
  Variable store : Type.
  Variable call_sem : string -> list nat -> unit_of_work store.
  Variable risk_sem : string -> string -> list nat -> store -> bool.
  Variable loop_len : string -> list nat -> store -> nat.
  Notation exec := (exec call_sem risk_sem loop_len).

  (* the two local loops of [exec], named *)
  Fixpoint exec_seq (l : list hook) (idx : list nat) (s : store) : run_result store :=
    match l with
    | [] => RunOk s
    | x :: r => match exec x idx s with RunOk s1 => exec_seq r idx s1 | other => other end
    end.
  Fixpoint exec_iter (body : hook) (idx : list nat) (n i : nat) (s : store) : run_result store :=
    match n with
    | O => RunOk s
    | S n' => match exec body (i :: idx) s with RunOk s1 => exec_iter body idx n' (S i) s1 | other => other end
    end.

  Lemma exec_Seq l idx s : exec (Seq l) idx s = exec_seq l idx s.
  Proof. cbn [Hooks.exec]. revert s. induction l as [|x r IH]; intro s; cbn; [reflexivity|].
         destruct (exec x idx s); try reflexivity. apply IH. Qed.

  Lemma exec_ForEach items b idx s :
    exec (ForEach items b) idx s = exec_iter b idx (loop_len items idx s) O s.
  Proof. cbn [Hooks.exec]. generalize (loop_len items idx s) as n, O as i. intro n. revert s.
         induction n as [|n IH]; intros s i; cbn; [reflexivity|].
         destruct (exec b (i :: idx) s); try reflexivity. apply IH. Qed.

  (* ---- a wrapped unit is all-or-nothing, for every body ---- *)
  Lemma exec_wrapped_all_or_nothing b idx s :
    exists s', exec (Wrapped b) idx s = RunOk s' /\
      ((succeeded (exec b idx) s = false /\ s' = s) \/ exec b idx s = RunOk s').
  Proof.
    cbn [Hooks.exec]. exists (apply (exec b idx) s). split; [reflexivity|].
    destruct (apply_all_or_nothing store (exec b idx) s) as [[H1 H2]|[s' [H1 H2]]].
    - left. split; assumption.
    - right. rewrite H2. exact H1.
  Qed.

  (* ---- leaves outside every wrap ---- *)
  Fixpoint unwrapped (h : hook) : list hook :=
    match h with
    | Seq l => flat_map unwrapped l
    | ForEach _ b => unwrapped b
    | Wrapped _ => []
    | OnErr _ c => unwrapped c
    | other => [other]
    end.

  Definition leaf_safe (h : hook) : Prop :=
    match h with
    | Call n _ => forall idx s, match call_sem n idx s with RunPanic _ => False | _ => True end
    | Risk k t => forall idx s, risk_sem k t idx s = false
    | Unrecognised _ => False
    | _ => True
    end.

  Definition not_panic (r : run_result store) : Prop := match r with RunPanic _ => False | _ => True end.

  (* a hook does not halt the chain if the leaves outside its wraps do not panic - whatever the
     wrapped bodies do *)
  Lemma exec_no_panic h : Forall leaf_safe (unwrapped h) -> forall idx s, not_panic (exec h idx s).
  Proof.
    induction h as [l IH|i b IH|b IH|n k|k t|w|r c IH] using hook_ind'; intros Hs idx s.
    - rewrite exec_Seq. revert s. cbn [unwrapped] in Hs. induction l as [|x r IHr]; intro s; cbn; [exact I|].
      cbn in Hs. apply Forall_app in Hs. destruct Hs as [Hx Hr]. inversion IH as [|? ? Px Pr]; subst.
      specialize (Px Hx idx s). destruct (exec x idx s); cbn in Px |- *; try exact I; try contradiction.
      apply IHr; assumption.
    - rewrite exec_ForEach. cbn [unwrapped] in Hs. generalize (loop_len i idx s) as n, O as j. intro n. revert s.
      induction n as [|n IHn]; intros s j; cbn; [exact I|].
      specialize (IH Hs (j :: idx) s). destruct (exec b (j :: idx) s); cbn in IH |- *; try exact I; try contradiction.
      apply IHn.
    - cbn. exact I.
    - cbn in Hs. inversion Hs as [|? ? H1 _]; subst. cbn. exact (H1 idx s).
    - cbn in Hs. inversion Hs as [|? ? H1 _]; subst. cbn. cbn in H1. rewrite H1. exact I.
    - cbn in Hs. inversion Hs as [|? ? H1 _]; subst. destruct H1.
    - cbn [unwrapped] in Hs. specialize (IH Hs idx s).
      destruct r; cbn [Hooks.exec]; try exact IH; destruct (exec c idx s); cbn in IH |- *; try exact I; try contradiction.
  Qed.

  (* a hook all of whose leaves are wrapped always returns normally *)
  Lemma exec_guarded_total h : unwrapped h = [] -> forall idx s, exists s', exec h idx s = RunOk s'.
  Proof.
    induction h as [l IH|i b IH|b IH|n k|k t|w|r c IH] using hook_ind'; intros Hs idx s; try discriminate Hs.
    - rewrite exec_Seq. revert s. cbn [unwrapped] in Hs. induction l as [|x r IHr]; intro s; cbn; [eexists; reflexivity|].
      cbn in Hs. apply app_eq_nil in Hs. destruct Hs as [Hx Hr]. inversion IH as [|? ? Px Pr]; subst.
      destruct (Px Hx idx s) as [s1 E]. rewrite E. apply IHr; assumption.
    - rewrite exec_ForEach. cbn [unwrapped] in Hs. generalize (loop_len i idx s) as n, O as j. intro n. revert s.
      induction n as [|n IHn]; intros s j; cbn; [eexists; reflexivity|].
      destruct (IH Hs (j :: idx) s) as [s1 E]. rewrite E. apply IHn.
    - cbn. eexists; reflexivity.
    - cbn [unwrapped] in Hs. destruct (IH Hs idx s) as [s1 E]. exists s1.
      destruct r; cbn [Hooks.exec]; rewrite E; reflexivity.
  Qed.

  (* ---- every item of a loop is processed when the body cannot fail (in particular when the
     body is wrapped): item j sees the state left by items 0..j-1, each of which contributed its
     complete effect or nothing ---- *)
  Definition state_after (h : hook) (idx : list nat) (s : store) : store :=
    match exec h idx s with RunOk s' => s' | RunErr p _ => p | RunPanic p => p end.

  Lemma exec_iter_total b idx n : (forall j s, exists s', exec b (j :: idx) s = RunOk s') ->
    forall i s, exec_iter b idx n i s = RunOk (fold_left (fun acc j => state_after b (j :: idx) acc) (seq i n) s).
  Proof.
    intro Ht. induction n as [|n IH]; intros i s; cbn; [reflexivity|].
    destruct (Ht i s) as [s1 E]. unfold state_after at 2. rewrite E. apply IH.
  Qed.

  Lemma exec_foreach_processes_all items b idx s :
    unwrapped b = [] ->
    exec (ForEach items b) idx s =
      RunOk (fold_left (fun acc j => state_after b (j :: idx) acc) (seq 0 (loop_len items idx s)) s).
  Proof.
    intro Hb. rewrite exec_ForEach. apply exec_iter_total. intros j s0. apply exec_guarded_total. exact Hb.
  Qed.

  (* the body  Seq [Wrapped w]  the translator finds in every per-item sweep *)
  Lemma state_after_wrapped w idx s : state_after (Seq [Wrapped w]) idx s = apply (exec w idx) s.
  Proof. unfold state_after. rewrite exec_Seq. cbn. reflexivity. Qed.

  (* ---- the error-return half: a unit that REPORTS FAILURE after it has written ---- *)
  Lemma exec_seq_app pre post idx s :
    exec_seq (pre ++ post) idx s = match exec_seq pre idx s with RunOk s1 => exec_seq post idx s1 | other => other end.
  Proof. revert s. induction pre as [|x r IH]; intro s; cbn; [reflexivity|]. destruct (exec x idx s); try reflexivity. apply IH. Qed.

  Lemma exec_Wrapped b idx s : exec (Wrapped b) idx s = RunOk (apply (exec b idx) s).
  Proof. reflexivity. Qed.

  (* a wrapped body that reports failure - wherever, after whatever writes - leaves the store as it was *)
  Lemma exec_wrapped_err_noop b idx s p code : exec b idx s = RunErr p code -> exec (Wrapped b) idx s = RunOk s.
  Proof. intro H. rewrite exec_Wrapped. unfold apply. rewrite H. reflexivity. Qed.

  (* the shape found in the table: statements [pre] run (and write), then the call reports failure
     with its own partial writes [p]; the closure hands the error on: nothing is visible *)
  Lemma returns_call_err_noop pre post c idx s s1 p code :
    exec_seq pre idx s = RunOk s1 -> exec c idx s1 = RunErr p code ->
    exec (Wrapped (Seq (pre ++ OnErr ReturnsCallErr c :: post))) idx s = RunOk s.
  Proof.
    intros H1 H2. apply (exec_wrapped_err_noop _ idx s p code).
    rewrite exec_Seq, exec_seq_app, H1. cbn. rewrite H2. reflexivity.
  Qed.

  (* the same closure when it DROPS the error: the rest of the body runs on the partial store and
     everything - the writes before the call, the call's partial writes, the rest - is committed *)
  Lemma swallows_err_commits pre post c idx s s1 p code s2 :
    exec_seq pre idx s = RunOk s1 -> exec c idx s1 = RunErr p code -> exec_seq post idx p = RunOk s2 ->
    exec (Wrapped (Seq (pre ++ OnErr SwallowsErr c :: post))) idx s = RunOk s2.
  Proof.
    intros H1 H2 H3. rewrite exec_Wrapped. unfold apply.
    rewrite exec_Seq, exec_seq_app, H1. cbn. rewrite H2. rewrite H3. reflexivity.
  Qed.

  (* ---- in general: NO reported failure is ever committed ----
     [failed] reads, from a store, whether some call has reported failure on it (an instrumented
     store: think of a ghost flag next to the real state).  A call that returns normally does not
     touch the flag; a call that reports failure may leave ANY partial store, flag set.  If every
     [OnErr] of a body hands the error on, a store on which a failure was reported never leaves an
     ApplyFuncIfNoError: whatever position the failing call has in the body (nested loops,
     sequences, inner wraps), whatever was written before it and by it. *)
  Fixpoint hands_on_errors (h : hook) : bool :=
    match h with
    | Seq l => forallb hands_on_errors l
    | ForEach _ b => hands_on_errors b
    | Wrapped b => hands_on_errors b
    | OnErr ReturnsCallErr c => hands_on_errors c
    | OnErr _ _ => false
    | _ => true
    end.

  Section NoFailureCommitted.
    Variable failed : store -> bool.
    Hypothesis ok_keeps_flag : forall n idx s s', call_sem n idx s = RunOk s' -> failed s' = failed s.

    Lemma ok_result_keeps_flag h : hands_on_errors h = true ->
      forall idx s s', exec h idx s = RunOk s' -> failed s' = failed s.
    Proof.
      induction h as [l IH|i b IH|b IH|n k|k t|w|r c IH] using hook_ind'; intros Hh idx s s' E.
      - rewrite exec_Seq in E. cbn [hands_on_errors] in Hh. revert s E.
        induction l as [|x r IHr]; intros s E; cbn in E.
        + inversion E. reflexivity.
        + cbn in Hh. apply andb_true_iff in Hh. destruct Hh as [Hx Hr]. inversion IH as [|? ? Px Pr]; subst.
          destruct (exec x idx s) as [s1| |] eqn:Ex; try discriminate E.
          rewrite (IHr Pr Hr s1 E). exact (Px Hx idx s s1 Ex).
      - rewrite exec_ForEach in E. cbn [hands_on_errors] in Hh. revert E.
        generalize (loop_len i idx s) as n, O as j. intro n. revert s.
        induction n as [|n IHn]; intros s j E; cbn in E.
        + inversion E. reflexivity.
        + destruct (exec b (j :: idx) s) as [s1| |] eqn:Eb; try discriminate E.
          rewrite (IHn s1 (S j) E). exact (IH Hh (j :: idx) s s1 Eb).
      - rewrite exec_Wrapped in E. inversion E as [E']. unfold apply.
        destruct (exec b idx s) as [s1| |] eqn:Eb; try reflexivity.
        exact (IH Hh idx s s1 Eb).
      - cbn in E. exact (ok_keeps_flag n idx s s' E).
      - cbn in E. destruct (risk_sem k t idx s); inversion E. reflexivity.
      - cbn in E. discriminate E.
      - destruct r; cbn [hands_on_errors] in Hh; try discriminate Hh. cbn [Hooks.exec] in E. exact (IH Hh idx s s' E).
    Qed.

    Theorem no_failure_committed b idx s :
      hands_on_errors b = true -> failed s = false ->
      exists s', exec (Wrapped b) idx s = RunOk s' /\ failed s' = false.
    Proof.
      intros Hb Hs. exists (apply (exec b idx) s). split; [reflexivity|].
      unfold apply. destruct (exec b idx s) as [s1| |] eqn:Eb; try exact Hs.
      rewrite (ok_result_keeps_flag b Hb idx s s1 Eb). exact Hs.
    Qed.
  End NoFailureCommitted.
End SemFacts.

(* a closure that drops the error of ONE call is enough to commit a reported failure: the check is
   load-bearing (stores are (value, failure-flag); the call writes 100 and reports failure) *)
Lemma swallow_commits_failure :
  let call_sem := fun (_ : string) (_ : list nat) (s : Z * bool) => RunErr (fst s + 100, true) 1 in
  (forall n idx s s', call_sem n idx s = RunOk s' -> snd s' = snd s) /\
  exec call_sem (fun _ _ _ _ => false) (fun _ _ _ => 0%nat)
       (Wrapped (Seq [OnErr SwallowsErr (Call "liquidationsV2.LiquidateIndividualVault" Writes)])) [] (0, false)
  = RunOk (100, true).
Proof. split; [intros; discriminate|reflexivity]. Qed.

(* ---- ApplyFuncIfNoError as read from types/utils.go IS Lib/Atomic.apply ---- *)
Lemma apply_func_shape_atomic {store} (f : unit_of_work store) (s : store) :
  run_apply apply_func_shape f s = AppReturned (apply f s).
Proof. unfold run_apply, apply_func_shape, apply. cbn. destruct (f s); reflexivity. Qed.

(* a variant that writes the cache back BEFORE it looks at the error commits a failed unit *)
Lemma apply_write_before_check_commits :
  run_apply [ADeferRecover; ACacheCtx; ARunOnCache; AWrite; AIfErrNil [] [ALog]; AReturnErr]
            (fun s : Z => RunErr (s + 100) 1) 0 = AppReturned 100.
Proof. reflexivity. Qed.

(* ... one that runs f on the caller's context has no branch to drop ... *)
Lemma apply_on_parent_commits :
  run_apply [ADeferRecover; ARunOnParent; AIfErrNil [] [ALog]; AReturnErr] (fun s : Z => RunErr (s + 100) 1) 0 = AppReturned 100.
Proof. reflexivity. Qed.

(* ... and one without the deferred recover lets the panic out *)
Lemma apply_without_recover_halts :
  run_apply [ACacheCtx; ARunOnCache; AIfErrNil [AWrite] [ALog]; AReturnErr] (fun s : Z => RunPanic (s + 100)) 0 = AppHalt.
Proof. reflexivity. Qed.

(* ------------------------------------------------------------------------------------------ *)
(* sweep window                                                                                *)
(* ------------------------------------------------------------------------------------------ *)
Lemma wrap64_small z : -9223372036854775808 <= z <= int_max -> wrap64 z = z.
Proof. unfold wrap64, int_max. intro H. rewrite Z.mod_small by lia. lia. Qed.

Lemma wrap64_over z : int_max < z <= int_max + int_max + 1 -> wrap64 z = z - 18446744073709551616.
Proof.
  unfold wrap64, int_max. intro H.
  replace (z + 9223372036854775808) with ((z - 9223372036854775808) + 1 * 18446744073709551616) by lia.
  rewrite Z_mod_plus_full. rewrite Z.mod_small by lia. lia.
Qed.

(* the conversion int(u) is the identity below 2^63 and u - 2^64 (negative) from 2^63 on *)
Lemma int_of_uint64_small u : 0 <= u <= int_max -> int_of_uint64 u = u.
Proof. intro H. unfold int_of_uint64. apply wrap64_small. unfold int_max in *. lia. Qed.
Lemma int_of_uint64_big u : int_max < u <= uint64_max -> int_of_uint64 u = u - 18446744073709551616 /\ int_of_uint64 u < 0.
Proof. intro H. unfold int_of_uint64. rewrite wrap64_over by (unfold int_max, uint64_max in *; lia). unfold uint64_max in H. lia. Qed.

(* the repaired helper: 0 <= start <= end <= sliceLen for EVERY offset and EVERY batch size (the
   wrapped  offset + batchSize  included) *)
Lemma slice_bounds_ok len off batch :
  0 <= len -> let '(s, e) := slice_bounds len off batch in 0 <= s <= e /\ e <= len.
Proof.
  intros Hl. unfold slice_bounds.
  destruct (off >=? len) eqn:E1; cbn [orb]; [lia|].
  destruct (off <? 0) eqn:E2; cbn [orb]; [lia|].
  destruct (batch <? 0) eqn:E3; cbn [orb]; [lia|].
  set (w := wrap64 (off + batch)).
  destruct (w >=? len) eqn:E4; cbn [orb]; [lia|].
  destruct (w <? off) eqn:E5; lia.
Qed.

Lemma sweep_window_ok len off batch :
  0 <= len -> let '(s, e) := sweep_window len off batch in 0 <= s <= e /\ e <= len.
Proof.
  intros Hl. unfold sweep_window.
  pose proof (slice_bounds_ok len off batch Hl) as H1.
  destruct (slice_bounds len off batch) as [s e].
  destruct (s =? e).
  - apply slice_bounds_ok. exact Hl.
  - exact H1.
Qed.

(* the slice expression of the sweep does not panic when the length the code uses is at most the
   capacity of the sliced list (reachable states: the counter equals the list length) - for every
   offset and every batch size *)
Lemma sweep_slice_no_panic {A} (zero : A) (l : list A) cap counter off batch :
  0 <= counter <= cap -> zlen l <= cap ->
  exists items e, sweep_slice zero l cap counter off batch = Some (items, e) /\ 0 <= e <= counter.
Proof.
  intros Hc Hl. unfold sweep_slice.
  pose proof (sweep_window_ok counter off batch (proj1 Hc)) as H.
  destruct (sweep_window counter off batch) as [s e]. unfold go_slice, go_slice_ok.
  replace (0 <=? s) with true by (symmetry; apply Z.leb_le; lia).
  replace (s <=? e) with true by (symmetry; apply Z.leb_le; lia).
  replace (e <=? cap) with true by (symmetry; apply Z.leb_le; lia).
  replace (zlen l <=? cap) with true by (symmetry; apply Z.leb_le; lia).
  cbn [andb]. eexists. exists e. split; [reflexivity|lia].
Qed.

(* from the stored uint64 values, through the caller's int() conversions: every stored offset and
   every stored batch size (2^63 .. 2^64-1 included: they convert to negative ints) *)
Lemma sweep_slice_stored_no_panic {A} (zero : A) (l : list A) cap counter_u off_u batch_u :
  0 <= counter_u <= cap -> cap <= int_max -> zlen l <= cap ->
  exists items e, sweep_slice_stored zero l cap counter_u off_u batch_u = Some (items, e) /\ 0 <= e <= counter_u.
Proof.
  intros Hc Hcap Hl. unfold sweep_slice_stored. rewrite (int_of_uint64_small counter_u) by lia.
  apply sweep_slice_no_panic; assumption.
Qed.

(* the predictor is exactly "the modelled slice expression returns None" *)
Lemma slice_panics_spec {A} (zero : A) (l : list A) cap counter off batch : zlen l <= cap ->
  (slice_panics cap counter off batch = false <-> exists r, sweep_slice zero l cap counter off batch = Some r).
Proof.
  intros Hl. unfold slice_panics, sweep_slice, go_slice.
  destruct (sweep_window counter off batch) as [s e].
  replace (zlen l <=? cap) with true by (symmetry; apply Z.leb_le; exact Hl).
  destruct (go_slice_ok cap s e); cbn; split; intro H; try reflexivity; try discriminate.
  - eexists; reflexivity.
  - destruct H as [r H]. discriminate.
Qed.

(* when does the slice expression panic: exactly when the end of the window is beyond the capacity *)
Lemma slice_panics_iff cap counter off batch : 0 <= counter ->
  (slice_panics cap counter off batch = true <-> cap < snd (sweep_window counter off batch)).
Proof.
  intros Hc. unfold slice_panics.
  pose proof (sweep_window_ok counter off batch Hc) as H.
  destruct (sweep_window counter off batch) as [s e]. cbn [snd]. unfold go_slice_ok.
  replace (0 <=? s) with true by (symmetry; apply Z.leb_le; lia).
  replace (s <=? e) with true by (symmetry; apply Z.leb_le; lia).
  cbn [andb]. destruct (e <=? cap) eqn:E; cbn; split; intro H1; try discriminate; try reflexivity; lia.
Qed.

(* ... hence only when the counter exceeds the capacity: never in a reachable state *)
Lemma slice_panics_only_if cap counter off batch : 0 <= counter ->
  slice_panics cap counter off batch = true -> cap < counter.
Proof.
  intros Hc H. apply slice_panics_iff in H; [|exact Hc].
  pose proof (sweep_window_ok counter off batch Hc) as Hw.
  destruct (sweep_window counter off batch) as [s e]. cbn [snd] in H. lia.
Qed.

(* a batch size that covers the whole list (the default 200 against a few vaults): the window
   always ends at the counter *)
Lemma sweep_window_full_batch counter off batch : 0 <= counter <= batch -> batch <= int_max ->
  snd (sweep_window counter off batch) = counter.
Proof.
  intros Hc Hb.
  assert (Hz : snd (slice_bounds counter 0 batch) = counter).
  { unfold slice_bounds. destruct (0 >=? counter) eqn:E1; cbn [orb]; [reflexivity|].
    replace (0 <? 0) with false by reflexivity. replace (batch <? 0) with false by (symmetry; apply Z.ltb_ge; lia).
    cbn [orb]. rewrite wrap64_small by (unfold int_max in *; lia). cbn [Z.add].
    replace (batch >=? counter) with true by (symmetry; apply Z.geb_le; lia). reflexivity. }
  unfold sweep_window. destruct (slice_bounds counter off batch) as [s e] eqn:Es.
  destruct (s =? e) eqn:Ee; [exact Hz|]. cbn [snd].
  unfold slice_bounds in Es.
  destruct (off >=? counter) eqn:E1; cbn [orb] in Es; [inversion Es; subst; lia|].
  destruct (off <? 0) eqn:E2; cbn [orb] in Es; [inversion Es; subst; lia|].
  destruct (batch <? 0) eqn:E3; cbn [orb] in Es; [inversion Es; subst; lia|].
  destruct (Z_le_gt_dec (off + batch) int_max) as [Hs|Hs].
  - rewrite wrap64_small in Es by (unfold int_max in *; lia).
    replace (off + batch >=? counter) with true in Es by (symmetry; apply Z.geb_le; lia).
    cbn [orb] in Es. inversion Es. reflexivity.
  - rewrite wrap64_over in Es by (unfold int_max in *; lia).
    replace (off + batch - 18446744073709551616 <? off) with true in Es by (symmetry; apply Z.ltb_lt; unfold int_max in *; lia).
    rewrite orb_true_r in Es. inversion Es. reflexivity.
Qed.

Lemma slice_panics_full_batch cap counter off batch : 0 <= counter <= batch -> batch <= int_max ->
  (slice_panics cap counter off batch = true <-> cap < counter).
Proof.
  intros Hc Hb. rewrite slice_panics_iff by lia. rewrite sweep_window_full_batch by assumption. reflexivity.
Qed.

(* The repaired helper computes, on every int input, what the helper computes over unbounded
   integers (the window C09's model Model/Liquidation.v uses): the int64 wrap-around no longer
   shows.  Before fix C15-F2 this failed for off >= 1, off + batch > int_max. *)
Lemma slice_bounds_unbounded len off batch :
  len <= int_max -> off <= int_max -> batch <= int_max ->
  slice_bounds len off batch = Comdex.Model.Liquidation.slice_bounds len off batch.
Proof.
  intros Hl Ho Hb. unfold slice_bounds, Comdex.Model.Liquidation.slice_bounds.
  destruct (off >=? len) eqn:E1; cbn [orb]; [reflexivity|].
  destruct (off <? 0) eqn:E2; cbn [orb]; [reflexivity|].
  destruct (batch <? 0) eqn:E3; cbn [orb]; [reflexivity|].
  destruct (Z_le_gt_dec (off + batch) int_max) as [Hs|Hs].
  - rewrite wrap64_small by (unfold int_max in *; lia).
    replace (off + batch <? off) with false by (symmetry; apply Z.ltb_ge; lia).
    rewrite orb_false_r. reflexivity.
  - rewrite wrap64_over by (unfold int_max in *; lia).
    replace (off + batch - 18446744073709551616 <? off) with true by (symmetry; apply Z.ltb_lt; unfold int_max in *; lia).
    rewrite orb_true_r.
    replace (off + batch >=? len) with true by (symmetry; apply Z.geb_le; lia). reflexivity.
Qed.

Lemma sweep_window_unbounded len off batch :
  len <= int_max -> off <= int_max -> batch <= int_max ->
  sweep_window len off batch = Comdex.Model.Liquidation.sweep_window len off batch.
Proof.
  intros Hl Ho Hb. unfold sweep_window, Comdex.Model.Liquidation.sweep_window.
  rewrite (slice_bounds_unbounded len off batch Hl Ho Hb).
  rewrite (slice_bounds_unbounded len 0 batch Hl) by (unfold int_max; lia || assumption).
  destruct (Comdex.Model.Liquidation.slice_bounds len off batch) as [s e]. reflexivity.
Qed.

(* range index: x[i] for i < len x *)
Lemma range_index_ok {A} (l : list A) (i : nat) : (i < length l)%nat -> exists x, nth_z l i = Some x.
Proof. revert i. induction l as [|a r IH]; intros i Hi; cbn in Hi; [lia|]. destruct i; cbn; [eexists; reflexivity|]. apply IH. lia. Qed.

(* x[:0] never panics: cap >= 0 *)
Lemma slice_zero_ok cap : 0 <= cap -> go_slice_ok cap 0 0 = true.
Proof. intro H. unfold go_slice_ok. cbn. apply Z.leb_le. exact H. Qed.

(* ------------------------------------------------------------------------------------------ *)
(* crash points: a unit written as its list of store accesses                                  *)
(* ------------------------------------------------------------------------------------------ *)
Lemma run_accesses_app {store} (a b : list (access store)) s :
  run_accesses (a ++ b) s = match run_accesses a s with RunOk s1 => run_accesses b s1 | other => other end.
Proof. revert s. induction a as [|x r IH]; intro s; cbn; [reflexivity|]. destruct (x s); [apply IH|reflexivity]. Qed.

(* access number |pre| fails (out of gas, missing record, insufficient funds ...): nothing the
   unit wrote before is visible *)
Lemma crash_at_k {store} (pre post : list (access store)) (a : access store) s s1 :
  run_accesses pre s = RunOk s1 -> a s1 = None -> apply (run_accesses (pre ++ a :: post)) s = s.
Proof. intros H1 H2. unfold apply. rewrite run_accesses_app, H1. cbn. rewrite H2. reflexivity. Qed.

Lemma no_crash_full {store} (acc : list (access store)) s s' :
  run_accesses acc s = RunOk s' -> apply (run_accesses acc) s = s'.
Proof. intro H. unfold apply. rewrite H. reflexivity. Qed.

(* table facts by computation *)
Lemma units_wrapped_table :
  forallb (fun u => unit_is_wrapped hook_table u) hook_units = true.
Proof. vm_compute. reflexivity. Qed.

Lemma unwrapped_leaves_table : forallb unwrapped_leaf_ok (all_root_leaves hook_table) = true.
Proof. vm_compute. reflexivity. Qed.

Lemma units_propagate_table :
  forallb (fun u => unit_propagates_error hook_table u) hook_units = true.
Proof. vm_compute. reflexivity. Qed.

Lemma wrapped_leaves_propagate_table : forallb wrapped_leaf_propagates (all_root_leaves hook_table) = true.
Proof. vm_compute. reflexivity. Qed.

Lemma table_closed : roots_covered hook_table && forallb no_unrecognised (all_root_leaves hook_table) = true.
Proof. vm_compute. reflexivity. Qed.
