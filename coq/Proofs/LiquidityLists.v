(* Proofs about Model/Liquidity.v: the keyed stores (orders, pairs) as association lists - uniqueness
   of keys, sums over a store under update / insertion / deletion. *)
From Comdex Require Import Lib.Base Lib.DecArith Model.Liquidity Proofs.LiquiditySweep.
From Coq Require Import ZifyBool Lia Permutation.

Lemma zsum_app a b : zsum (a ++ b) = zsum a + zsum b.
Proof. induction a as [|x r IH]; cbn [zsum app]; lia. Qed.

(* ---------------- orders ---------------- *)
Lemma map_ekey_upd k (e' : entry) st : ekey e' = k -> map ekey (upd_order k (fun _ => e') st) = map ekey st.
Proof.
  intros He. induction st as [|x r IH]; cbn [upd_order map]; [reflexivity|]. f_equal; [|exact IH].
  destruct (k3_eqb (ekey x) k) eqn:E; [apply k3_eqb_eq in E; congruence|reflexivity].
Qed.
Lemma in_upd k (e' : entry) st x : In x (upd_order k (fun _ => e') st) -> x = e' \/ In x st.
Proof.
  unfold upd_order. intros H. apply in_map_iff in H. destruct H as (y & <- & Hy).
  destruct (k3_eqb (ekey y) k); [left; reflexivity|right; exact Hy].
Qed.

Lemma find_order_none_notin k st : find_order k st = None -> ~ In k (map ekey st).
Proof.
  induction st as [|x r IH]; cbn [find_order map]; [intros _ []|]. destruct (k3_eqb (ekey x) k) eqn:E; [discriminate|].
  intros H [Hx|Hx]; [rewrite Hx, k3_eqb_refl in E; discriminate|exact (IH H Hx)].
Qed.
Lemma notin_find_order_none k st : ~ In k (map ekey st) -> find_order k st = None.
Proof.
  induction st as [|x r IH]; cbn [find_order map]; [reflexivity|]. intros H. destruct (k3_eqb (ekey x) k) eqn:E.
  - apply k3_eqb_eq in E. exfalso. apply H. left. exact E.
  - apply IH. intros Hx. apply H. right. exact Hx.
Qed.

Lemma upd_order_cons k f x r : upd_order k f (x :: r) = (if k3_eqb (ekey x) k then f x else x) :: upd_order k f r.
Proof. reflexivity. Qed.
Lemma upd_order_none k (e' : entry) st : find_order k st = None -> upd_order k (fun _ => e') st = st.
Proof.
  induction st as [|x r IH]; [reflexivity|]. rewrite upd_order_cons. cbn [find_order]. destruct (k3_eqb (ekey x) k); [discriminate|].
  intros H. f_equal. apply IH, H.
Qed.

(* the sum of any per-entry quantity over the store when the entry under a key is replaced *)
Lemma zsum_upd (f : entry -> Z) k e e' st :
  NoDup (map ekey st) -> find_order k st = Some e -> ekey e' = k ->
  zsum (map f (upd_order k (fun _ => e') st)) = zsum (map f st) - f e + f e'.
Proof.
  intros Hnd Hf He. induction st as [|x r IH]; cbn [find_order] in Hf; [discriminate|].
  rewrite upd_order_cons. cbn [map zsum]. inversion Hnd as [|? ? Hx Hr]; subst.
  destruct (k3_eqb (ekey x) (ekey e')) eqn:E.
  - injection Hf as ->. apply k3_eqb_eq in E.
    rewrite upd_order_none; [lia|]. apply notin_find_order_none. rewrite <- E. exact Hx.
  - rewrite (IH Hr Hf). lia.
Qed.

(* insertion under a fresh key *)
Lemma ins_order_fresh (e : entry) st : ~ In (ekey e) (map ekey st) ->
  exists l1 l2, st = l1 ++ l2 /\ ins_order e st = l1 ++ e :: l2.
Proof.
  induction st as [|x r IH]; cbn [ins_order map]; intros H.
  - exists [], []. split; reflexivity.
  - destruct (k3_eqb (ekey x) (ekey e)) eqn:E; [apply k3_eqb_eq in E; exfalso; apply H; left; exact E|].
    destruct (k3_ltb (ekey e) (ekey x)).
    + exists [], (x :: r). split; reflexivity.
    + destruct IH as (l1 & l2 & -> & ->); [intros Hx; apply H; right; exact Hx|].
      exists (x :: l1), l2. split; reflexivity.
Qed.
Lemma zsum_ins (f : entry -> Z) (e : entry) st : ~ In (ekey e) (map ekey st) ->
  zsum (map f (ins_order e st)) = zsum (map f st) + f e.
Proof.
  intros H. destruct (ins_order_fresh e st H) as (l1 & l2 & -> & ->).
  rewrite !map_app, !zsum_app. cbn [map zsum]. lia.
Qed.
Lemma nodup_ins (e : entry) st : ~ In (ekey e) (map ekey st) -> NoDup (map ekey st) -> NoDup (map ekey (ins_order e st)).
Proof.
  intros H Hnd. destruct (ins_order_fresh e st H) as (l1 & l2 & -> & ->).
  rewrite map_app in *. cbn [map].
  apply (Permutation.Permutation_NoDup (Permutation.Permutation_middle _ _ _)). constructor; assumption.
Qed.
Lemma in_ins (e : entry) st x : In x (ins_order e st) -> x = e \/ In x st.
Proof.
  induction st as [|y r IH]; cbn [ins_order]; [intros [<-|[]]; left; reflexivity|].
  destruct (k3_eqb (ekey y) (ekey e)).
  - intros [<-|H]; [left; reflexivity|right; right; exact H].
  - destruct (k3_ltb (ekey e) (ekey y)).
    + intros [<-|H]; [left; reflexivity|right; exact H].
    + intros [<-|H]; [right; left; reflexivity|]. destruct (IH H); [left; assumption|right; right; assumption].
Qed.
Lemma in_ins_keys (e : entry) st k : In k (map ekey (ins_order e st)) -> k = ekey e \/ In k (map ekey st).
Proof.
  intros H. apply in_map_iff in H. destruct H as (x & <- & Hx). destruct (in_ins _ _ _ Hx) as [->|Hi]; [left; reflexivity|].
  right. apply in_map. exact Hi.
Qed.

Lemma nodup_filter_keys (p : entry -> bool) st : NoDup (map ekey st) -> NoDup (map ekey (filter p st)).
Proof.
  induction st as [|x r IH]; cbn [filter map]; intros H; [constructor|]. inversion H as [|? ? Hx Hr]; subst.
  destruct (p x); [|exact (IH Hr)]. cbn [map]. constructor; [|exact (IH Hr)].
  intros Hi. apply Hx. apply in_map_iff in Hi. destruct Hi as (y & Hy & Hy2). apply filter_In in Hy2.
  apply in_map_iff. exists y. split; [exact Hy|apply Hy2].
Qed.
Lemma zsum_filter_zero (f : entry -> Z) (p : entry -> bool) st :
  (forall x, In x st -> p x = false -> f x = 0) -> zsum (map f (filter p st)) = zsum (map f st).
Proof.
  induction st as [|x r IH]; cbn [filter map zsum]; intros H; [reflexivity|].
  destruct (p x) eqn:E; cbn [map zsum].
  - rewrite IH; [reflexivity|]. intros y Hy. apply H. right. exact Hy.
  - rewrite IH; [|intros y Hy; apply H; right; exact Hy]. rewrite (H x (or_introl eq_refl) E). lia.
Qed.

(* ---------------- pairs ---------------- *)
Lemma find_pair_ins a i p l :
  find_pair a i (ins_pair p l) = if (p_app p =? a) && (p_id p =? i) then Some p else find_pair a i l.
Proof.
  induction l as [|x r IH]; cbn [ins_pair find_pair]; [reflexivity|].
  destruct ((p_app x =? p_app p) && (p_id x =? p_id p)) eqn:E1.
  - cbn [find_pair]. destruct ((p_app p =? a) && (p_id p =? i)) eqn:E2; [reflexivity|].
    destruct ((p_app x =? a) && (p_id x =? i)) eqn:E3; [lia|reflexivity].
  - destruct ((p_app p <? p_app x) || ((p_app p =? p_app x) && (p_id p <? p_id x))); cbn [find_pair].
    + reflexivity.
    + rewrite IH. destruct ((p_app x =? a) && (p_id x =? i)) eqn:E3; [|reflexivity].
      destruct ((p_app p =? a) && (p_id p =? i)) eqn:E2; [lia|reflexivity].
Qed.

Definition cnt (l : list (Z * Z)) (a : Z) : Z := match aget l a with Some i => i | None => 0 end.
Lemma aget_aset {A} (l : list (Z * A)) k v k' : aget (aset l k v) k' = if k =? k' then Some v else aget l k'.
Proof.
  induction l as [|[a w] r IH]; cbn [aset aget].
  - reflexivity.
  - destruct (a =? k) eqn:E1.
    + cbn [aget]. destruct (k =? k') eqn:E2; [reflexivity|]. destruct (a =? k') eqn:E3; [lia|reflexivity].
    + destruct (k <? a) eqn:E2; cbn [aget].
      * reflexivity.
      * rewrite IH. destruct (a =? k') eqn:E3; [|reflexivity]. destruct (k =? k') eqn:E4; [lia|reflexivity].
Qed.
Lemma cnt_aset l k v k' : cnt (aset l k v) k' = if k =? k' then v else cnt l k'.
Proof. unfold cnt. rewrite aget_aset. destruct (k =? k'); reflexivity. Qed.

(* ---------------- pools ---------------- *)
Lemma find_pool_ins a i p l :
  find_pool a i (ins_pool p l) = if (pl_app p =? a) && (pl_id p =? i) then Some p else find_pool a i l.
Proof.
  induction l as [|x r IH]; cbn [ins_pool find_pool]; [reflexivity|].
  destruct ((pl_app x =? pl_app p) && (pl_id x =? pl_id p)) eqn:E1.
  - cbn [find_pool]. destruct ((pl_app p =? a) && (pl_id p =? i)) eqn:E2; [reflexivity|].
    destruct ((pl_app x =? a) && (pl_id x =? i)) eqn:E3; [lia|reflexivity].
  - destruct ((pl_app p <? pl_app x) || ((pl_app p =? pl_app x) && (pl_id p <? pl_id x))); cbn [find_pool].
    + reflexivity.
    + rewrite IH. destruct ((pl_app x =? a) && (pl_id x =? i)) eqn:E3; [|reflexivity].
      destruct ((pl_app p =? a) && (pl_id p =? i)) eqn:E2; [lia|reflexivity].
Qed.
Lemma find_pool_map a i (f : pool -> pool) l : (forall p, pl_app (f p) = pl_app p /\ pl_id (f p) = pl_id p) ->
  find_pool a i (map f l) = option_map f (find_pool a i l).
Proof.
  intros Hf. induction l as [|x r IH]; cbn [map find_pool]; [reflexivity|]. destruct (Hf x) as [-> ->].
  destruct ((pl_app x =? a) && (pl_id x =? i)); [reflexivity|exact IH].
Qed.

(* ---------------- request lists: replace the entry under a key ---------------- *)
Section Replace.
Context {A : Type} (key : A -> key3) (f : A -> Z).
Lemma zsum_replace (r r' : A) l : NoDup (map key l) -> In r l -> key r' = key r ->
  zsum (map f (map (fun x => if k3_eqb (key x) (key r) then r' else x) l)) = zsum (map f l) - f r + f r'.
Proof.
  intros Hnd Hin Hk. induction l as [|x t IH]; [destruct Hin|]. cbn [map zsum]. inversion Hnd as [|? ? Hx Ht]; subst.
  destruct Hin as [->|Hin].
  - rewrite k3_eqb_refl.
    assert (G : map (fun x => if k3_eqb (key x) (key r) then r' else x) t = t).
    { clear IH Ht Hnd. induction t as [|y t IHt]; cbn [map]; [reflexivity|].
      destruct (k3_eqb (key y) (key r)) eqn:E; [apply k3_eqb_eq in E; exfalso; apply Hx; left; exact E|].
      f_equal. apply IHt. intros Hi. apply Hx. right. exact Hi. }
    rewrite G. lia.
  - destruct (k3_eqb (key x) (key r)) eqn:E.
    + apply k3_eqb_eq in E. exfalso. apply Hx. rewrite E. apply in_map. exact Hin.
    + rewrite (IH Ht Hin). lia.
Qed.
Lemma map_key_replace (r r' : A) l : key r' = key r ->
  map key (map (fun x => if k3_eqb (key x) (key r) then r' else x) l) = map key l.
Proof.
  intros Hk. induction l as [|x t IH]; cbn [map]; [reflexivity|]. f_equal; [|exact IH].
  destruct (k3_eqb (key x) (key r)) eqn:E; [apply k3_eqb_eq in E; congruence|reflexivity].
Qed.
Lemma in_replace (r r' : A) l x : In x (map (fun x => if k3_eqb (key x) (key r) then r' else x) l) -> x = r' \/ In x l.
Proof.
  intros H. apply in_map_iff in H. destruct H as (y & <- & Hy). destruct (k3_eqb (key y) (key r)); [left; reflexivity|right; exact Hy].
Qed.
Lemma nodup_snoc (x : A) l : ~ In (key x) (map key l) -> NoDup (map key l) -> NoDup (map key (l ++ [x])).
Proof.
  intros Hn Hnd. rewrite map_app. cbn [map].
  apply (Permutation.Permutation_NoDup (Permutation.Permutation_cons_append _ _)). constructor; assumption.
Qed.
End Replace.
