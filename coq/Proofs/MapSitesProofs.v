(* C16 - permutation invariance of the map-range sites. *)
From Coq Require Import String Permutation ZifyBool.
From Comdex Require Import Lib.Base Lib.DecArith Gen.MapRangeTable Gen.AmbientTable Model.MapSites.
Local Open Scope Z_scope.

(* ---- the generic lemma: a fold over (key, value) pairs with distinct keys does not depend on
   the order when the body commutes on distinct keys ---- *)
Section FoldPerm.
  Variables K V Acc : Type.
  Variable body : K -> V -> Acc -> Acc.
  Variable P : K * V -> Prop.
  Variable Inv : Acc -> Prop.
  Hypothesis Hinv : forall k v a, P (k, v) -> Inv a -> Inv (body k v a).
  Hypothesis Hcomm : forall k1 v1 k2 v2 a, k1 <> k2 -> P (k1, v1) -> P (k2, v2) -> Inv a ->
      body k2 v2 (body k1 v1 a) = body k1 v1 (body k2 v2 a).

  Lemma fold_map_perm l l' : Permutation l l' -> NoDup (map fst l) -> Forall P l ->
    forall a, Inv a -> fold_map body l a = fold_map body l' a.
  Proof.
    induction 1 as [|x l l' Hp IH|x y l|l l' l'' H1 IH1 H2 IH2]; intros Hnd HP a Ha.
    - reflexivity.
    - cbn. inversion Hnd; subst. inversion HP; subst. apply IH; try assumption.
      destruct x as [k v]. apply Hinv; assumption.
    - cbn. f_equal. destruct x as [k1 v1], y as [k2 v2]. cbn.
      inversion Hnd as [|? ? Hn1 Hn2]; subst. inversion HP as [|? ? P2 HP']; subst. inversion HP' as [|? ? P1 _]; subst.
      symmetry. apply Hcomm; try assumption. intro E. subst. apply Hn1. cbn. left. reflexivity.
    - rewrite IH1 by assumption. apply IH2; try assumption.
      + eapply Permutation_NoDup; [|exact Hnd]. apply Permutation_map. exact H1.
      + eapply Permutation_Forall; eassumption.
  Qed.
End FoldPerm.

(* ---- collect then sort ---- *)
Section CollectSortFacts.
  Variable K : Type.
  Variable leb : K -> K -> bool.
  Hypothesis leb_total : forall a b, leb a b = true \/ leb b a = true.
  Hypothesis leb_antisym : forall a b, leb a b = true -> leb b a = true -> a = b.
  Hypothesis leb_trans : forall a b c, leb a b = true -> leb b c = true -> leb a c = true.

  Lemma insert_comm a b l : insert leb a (insert leb b l) = insert leb b (insert leb a l).
  Proof.
    induction l as [|y r IH].
    - cbn. destruct (leb a b) eqn:E1, (leb b a) eqn:E2; try reflexivity.
      + rewrite (leb_antisym a b E1 E2). reflexivity.
      + destruct (leb_total a b); congruence.
    - destruct (leb b y) eqn:By, (leb a y) eqn:Ay, (leb a b) eqn:E1, (leb b a) eqn:E2;
        cbn [insert]; rewrite ?By, ?Ay, ?E1, ?E2; cbn [insert]; rewrite ?By, ?Ay, ?E1, ?E2;
        try reflexivity; try (rewrite IH; reflexivity);
        try (rewrite (leb_antisym a b E1 E2); reflexivity);
        try (destruct (leb_total a b); congruence);
        try (rewrite (leb_trans a b y E1 By) in Ay; discriminate);
        try (rewrite (leb_trans b a y E2 Ay) in By; discriminate).
  Qed.

  Lemma sort_keys_perm l l' : Permutation l l' -> sort_keys leb l = sort_keys leb l'.
  Proof.
    induction 1; cbn.
    - reflexivity.
    - f_equal. assumption.
    - apply insert_comm.
    - congruence.
  Qed.

  Lemma collect_is_map_fst {V} (l : list (K * V)) acc : fold_map (@collect_body K V) l acc = (acc ++ map fst l)%list.
  Proof. revert acc. induction l as [|x r IH]; intro acc; cbn; [rewrite app_nil_r; reflexivity|].
         unfold fold_map in IH. rewrite IH. unfold collect_body. rewrite <- app_assoc. reflexivity. Qed.

  Lemma collect_sorted_perm {V} (l l' : list (K * V)) : Permutation l l' -> collect_sorted leb l = collect_sorted leb l'.
  Proof. intro H. unfold collect_sorted. rewrite !collect_is_map_fst. cbn. apply sort_keys_perm. apply Permutation_map. exact H. Qed.

  Lemma collect_val_is_map_snd {Q} (l : list (Q * K)) acc : fold_map (@collect_val_body Q K) l acc = (acc ++ map snd l)%list.
  Proof. revert acc. induction l as [|x r IH]; intro acc; cbn; [rewrite app_nil_r; reflexivity|].
         unfold fold_map in IH. rewrite IH. unfold collect_val_body. rewrite <- app_assoc. reflexivity. Qed.

  Lemma collect_val_sorted_perm {Q} (l l' : list (Q * K)) : Permutation l l' ->
    sort_keys leb (fold_map (@collect_val_body Q K) l []) = sort_keys leb (fold_map (@collect_val_body Q K) l' []).
  Proof. intro H. rewrite !collect_val_is_map_snd. cbn. apply sort_keys_perm. apply Permutation_map. exact H. Qed.
End CollectSortFacts.

(* ---- fill loop ---- *)
Lemma find_upd_other k1 k2 o b : k1 <> k2 -> find_order k2 (upd_order k1 o b) = find_order k2 b.
Proof.
  intro Hne. induction b as [|[k' o'] r IH]; cbn; [reflexivity|].
  destruct (k' =? k1) eqn:E1; cbn.
  - assert (k' = k1) by lia. subst. destruct (k1 =? k2) eqn:E2; [lia|]. exact IH.
  - destruct (k' =? k2); [reflexivity|exact IH].
Qed.

Lemma upd_comm k1 k2 o1 o2 b : k1 <> k2 -> upd_order k2 o2 (upd_order k1 o1 b) = upd_order k1 o1 (upd_order k2 o2 b).
Proof.
  intro Hne. unfold upd_order. rewrite !map_map. apply map_ext. intros [k o]. cbn.
  destruct (k =? k1) eqn:E1, (k =? k2) eqn:E2; cbn; rewrite ?E1, ?E2; cbn;
    repeat match goal with |- context [?a =? ?b] => destruct (a =? b) eqn:? end;
    try reflexivity; try lia.
Qed.

Lemma fill_body_comm f k1 v1 k2 v2 a : k1 <> k2 ->
  fill_body_gen f k2 v2 (fill_body_gen f k1 v1 a) = fill_body_gen f k1 v1 (fill_body_gen f k2 v2 a).
Proof.
  intro Hne. destruct a as [[b d]|]; [|reflexivity]. cbn.
  destruct (find_order k1 b) as [o1|] eqn:F1; destruct (find_order k2 b) as [o2|] eqn:F2; cbn.
  - destruct (f o1 v1) as [[o1' q1]|] eqn:G1; destruct (f o2 v2) as [[o2' q2]|] eqn:G2; cbn;
      rewrite ?find_upd_other by (auto; intro; subst; auto); rewrite ?F1, ?F2, ?G1, ?G2; cbn; try reflexivity.
    rewrite (upd_comm k1 k2 o1' o2' b Hne). f_equal. f_equal. lia.
  - destruct (f o1 v1) as [[o1' q1]|] eqn:G1; cbn; [|reflexivity].
    rewrite find_upd_other by assumption. rewrite F2. reflexivity.
  - destruct (f o2 v2) as [[o2' q2]|] eqn:G2; cbn; [|reflexivity].
    rewrite find_upd_other by (intro; subst; auto). rewrite F1. reflexivity.
  - reflexivity.
Qed.

Lemma fill_site_perm f (l l' : list (Z * Z)) acc : Permutation l l' -> NoDup (map fst l) ->
  fold_map (fill_body_gen f) l acc = fold_map (fill_body_gen f) l' acc.
Proof.
  intros Hp Hnd.
  apply (fold_map_perm Z Z (option (book * Z)) (fill_body_gen f) (fun _ => True) (fun _ => True)); auto.
  - intros. apply fill_body_comm. assumption.
  - apply Forall_forall. auto.
Qed.

(* ---- Dec sum ---- *)
Definition sum_inv (a : option Z) : Prop := match a with Some x => 0 <= x | None => True end.

Lemma sum_body_inv k v a : 0 < v -> sum_inv a -> sum_inv (sum_body k v a).
Proof.
  intros Hv Ha. destruct a as [x|]; cbn in *; [|exact I].
  unfold dadd_c, chk_dec. destruct (fits_dec (x + v)); cbn; [lia|exact I].
Qed.

Lemma sum_body_comm k1 v1 k2 v2 a : 0 < v1 -> 0 < v2 -> sum_inv a ->
  sum_body k2 v2 (sum_body k1 v1 a) = sum_body k1 v1 (sum_body k2 v2 a).
Proof.
  intros H1 H2 Ha. destruct a as [x|]; [|reflexivity]. cbn in Ha.
  unfold sum_body, dadd_c, chk_dec, fits_dec.
  assert (Hp : 0 < two315) by (vm_compute; reflexivity).
  generalize dependent two315. intros T HT.
  rewrite (Z.abs_eq (x + v1)), (Z.abs_eq (x + v2)) by lia.
  destruct (x + v1 <? T) eqn:E1; destruct (x + v2 <? T) eqn:E2;
    rewrite ?(Z.abs_eq (x + v1 + v2)), ?(Z.abs_eq (x + v2 + v1)) by lia.
  - replace (x + v1 + v2) with (x + v2 + v1) by lia. reflexivity.
  - destruct (x + v1 + v2 <? T) eqn:E3; [lia|reflexivity].
  - destruct (x + v2 + v1 <? T) eqn:E3; [lia|reflexivity].
  - reflexivity.
Qed.

Lemma sum_site_perm (l l' : list (Z * Z)) a : Permutation l l' -> NoDup (map fst l) ->
  Forall (fun kv => 0 < snd kv) l -> sum_inv a -> fold_map sum_body l a = fold_map sum_body l' a.
Proof.
  intros Hp Hnd HP Ha.
  apply (fold_map_perm Z Z (option Z) sum_body (fun kv => 0 < snd kv) sum_inv); auto.
  - intros k v x Hv Hx. apply sum_body_inv; assumption.
  - intros k1 v1 k2 v2 x _ Hv1 Hv2 Hx. apply sum_body_comm; assumption.
Qed.

(* ---- tables ---- *)
Lemma sites_covered_table : forallb site_has_theorem map_range_table && registry_live map_range_table = true.
Proof. vm_compute. reflexivity. Qed.

Lemma ambient_table_ok : forallb ambient_row_ok ambient_table = true.
Proof. vm_compute. reflexivity. Qed.

Lemma procstate_table_ok :
  forallb (fun r => implb (is_procstate_kind (am_kind r)) (procstate_row_ok r)) ambient_table && registries_live ambient_table = true.
Proof. vm_compute. reflexivity. Qed.

Lemma localtime_table_ok :
  forallb (fun r => implb (String.eqb (am_kind r) "localtime") (localtime_row_ok r)) ambient_table = true.
Proof. vm_compute. reflexivity. Qed.

Lemma alias_table_ok :
  forallb (fun r => implb (is_alias_kind (am_kind r)) (alias_row_ok r)) ambient_table && alias_registry_live ambient_table = true.
Proof. vm_compute. reflexivity. Qed.
