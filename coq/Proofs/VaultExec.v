(* Symbolic execution of the vault message handlers (Model/Vault.v): every successful handler is
   characterised ONCE by its [effect] (Proofs/VaultProofs.v) - the single record it touches, how
   the published product totals move, and the complete bank ledger of the message.  The bank
   primitives are replaced by their specifications first, so that a handler is executed along a
   single path (no case split per transfer). *)
From Comdex Require Import Lib.Base Lib.DecArith Lib.DecFacts Lib.Atomic Model.Vault Proofs.VaultProofs.
From Coq Require Import ZifyBool.

Ltac ssimpl := cbn [vaults svaults prods umap vlen vid sid bal sup now price esm snap brk unsol
   set_vaults set_svaults set_prods set_umap set_vlen set_vid set_sid set_bal set_sup set_now set_price
   set_esm set_snap set_brk set_unsol] in *.

(* ---------- the bank primitives as specifications ---------- *)
Lemma set_bal_eta s : set_bal s (bal s) = s.
Proof. destruct s; reflexivity. Qed.
Lemma set_sup_eta s : set_sup s (sup s) = s.
Proof. destruct s; reflexivity. Qed.

Lemma send_spec s f t d amt s' : send s f t d amt = Ok s' ->
  0 <= amt /\ exists b', s' = set_bal s b' /\ forall a x, b' a x = bal s a x + xfer f t d amt a x.
Proof.
  unfold send. destruct (Z.ltb_spec amt 0); [discriminate|]. destruct (Z.eqb_spec amt 0) as [->|].
  - intros Hok; injection Hok as <-. split; [lia|]. exists (bal s). split; [symmetry; apply set_bal_eta|].
    intros a x. unfold xfer. destruct ((a =? t) && (x =? d)), ((a =? f) && (x =? d)); lia.
  - destruct (bal s f d <? amt); [discriminate|]. intros Hok; injection Hok as <-. split; [lia|].
    eexists. split; [reflexivity|]. intros; reflexivity.
Qed.

(* the guarded form [if amt > 0 then send ... else nothing] *)
Lemma csend_spec s f t d amt s' : (if amt >? 0 then send s f t d amt else Ok s) = Ok s' ->
  exists b', s' = set_bal s b' /\ forall a x, b' a x = bal s a x + xfer f t d (Z.max 0 amt) a x.
Proof.
  destruct (Z.gtb_spec amt 0); intros Hok.
  - apply send_spec in Hok. destruct Hok as (_ & b' & -> & Hb). exists b'. split; [reflexivity|].
    intros. rewrite Hb. replace (Z.max 0 amt) with amt by lia. reflexivity.
  - injection Hok as <-. exists (bal s). split; [symmetry; apply set_bal_eta|]. intros a x.
    replace (Z.max 0 amt) with 0 by lia. unfold xfer. destruct ((a =? t) && (x =? d)), ((a =? f) && (x =? d)); lia.
Qed.

Lemma mint_spec s d amt s' : mint s d amt = Ok s' ->
  0 <= amt /\ exists b' sp', s' = set_sup (set_bal s b') sp' /\
    (forall a x, b' a x = bal s a x + at2 VAULT d amt a x) /\ (forall x, sp' x = sup s x + at1 d amt x).
Proof.
  unfold mint. destruct (Z.ltb_spec amt 0); [discriminate|]. intros Hok; injection Hok as <-. split; [lia|].
  eexists; eexists. split; [reflexivity|]. split; intros; reflexivity.
Qed.

Lemma burn_spec s d amt s' : burn s d amt = Ok s' ->
  0 <= amt /\ exists b' sp', s' = set_sup (set_bal s b') sp' /\
    (forall a x, b' a x = bal s a x - at2 VAULT d amt a x) /\ (forall x, sp' x = sup s x - at1 d amt x).
Proof.
  unfold burn. destruct (Z.ltb_spec amt 0); [discriminate|]. destruct (bal s VAULT d <? amt); [discriminate|].
  intros Hok; injection Hok as <-. split; [lia|].
  eexists; eexists. split; [reflexivity|]. split; intros; reflexivity.
Qed.

Lemma cburn_spec s d amt s' : (if amt >? 0 then burn s d amt else Ok s) = Ok s' ->
  exists b' sp', s' = set_sup (set_bal s b') sp' /\
    (forall a x, b' a x = bal s a x - at2 VAULT d (Z.max 0 amt) a x) /\ (forall x, sp' x = sup s x - at1 d (Z.max 0 amt) x).
Proof.
  destruct (Z.gtb_spec amt 0); intros Hok.
  - apply burn_spec in Hok. destruct Hok as (_ & b' & sp' & -> & Hb & Hs). exists b', sp'. split; [reflexivity|].
    replace (Z.max 0 amt) with amt by lia. split; assumption.
  - injection Hok as <-. exists (bal s), (sup s). split; [rewrite set_bal_eta, set_sup_eta; reflexivity|].
    replace (Z.max 0 amt) with 0 by lia. split; intros.
    + unfold at2. destruct ((a =? VAULT) && (x =? d)); lia.
    + unfold at1. destruct (x =? d); lia.
Qed.

Lemma update_collector_spec s x s' : update_collector s x = Ok s' -> 0 <= x /\ s' = s.
Proof. unfold update_collector. destruct (Z.ltb_spec x 0); [discriminate|]. intros Hok; injection Hok as <-. split; [lia|reflexivity]. Qed.

(* ---------- the draw-down fee ---------- *)
Definition feeq (x fee : Z) : Z := Z.quot (x * fee) P18.

Lemma fee_share_val x fee sh : fee_share x fee = Some sh -> sh = feeq x fee.
Proof.
  unfold fee_share, dmul_c, dtrunc_int_c, chk_dec, chk_int. rewrite dmul_int_exact.
  destruct (fits_dec (x * fee)); [|discriminate]. unfold dtrunc_int, feeq.
  destruct (fits_int _); [|discriminate]. intros Hok; injection Hok as <-. reflexivity.
Qed.

Lemma feeq_bounds x fee : 0 <= x -> 0 <= fee < P18 -> 0 <= feeq x fee <= x /\ (0 < x -> feeq x fee < x).
Proof.
  intros Hx Hf. unfold feeq. pose proof P18_pos.
  rewrite Z.quot_div_nonneg by nia.
  split; [split|intros Hx0].
  - apply Z.div_pos; nia.
  - apply Z.div_le_upper_bound; nia.
  - apply Z.div_lt_upper_bound; nia.
Qed.

Lemma feeq_zero x : feeq x 0 = 0.
Proof. unfold feeq. rewrite Z.mul_0_r. reflexivity. Qed.

Lemma ddf_fee_zero ep x : ep_ddf ep = 0 -> ddf_fee ep x = 0.
Proof.
  intros E. unfold ddf_fee. destruct (fee_share x (ep_ddf ep)) as [sh|] eqn:F; [|reflexivity].
  apply fee_share_val in F. rewrite F, E. apply feeq_zero.
Qed.

(* the opening-fee block of Create / Draw / stable Create / stable Deposit: the draw-down fee goes
   to the collector, the rest of the freshly minted amount to the sender *)
Lemma deliver_spec s from d x ddf (g : bool) s' : 0 < x -> 0 <= ddf < P18 -> g = true ->
  (if (ddf =? 0) && g then send s VAULT from d x else pay_out s from d x ddf) = Ok s' ->
  (ddf = 0 \/ fee_share x ddf = Some (feeq x ddf)) /\
  exists b', s' = set_bal s b' /\
    forall a y, b' a y = bal s a y + xfer VAULT COLL d (feeq x ddf) a y + xfer VAULT from d (x - feeq x ddf) a y.
Proof.
  intros Hx Hd ->. destruct (Z.eqb_spec ddf 0) as [->|Hne]; cbn [andb].
  - intros Hok. apply send_spec in Hok. destruct Hok as (_ & b' & -> & Hb).
    split; [left; reflexivity|]. exists b'. split; [reflexivity|]. intros a y. rewrite Hb, feeq_zero.
    unfold xfer. destruct ((a =? COLL) && (y =? d)), ((a =? VAULT) && (y =? d)), ((a =? from) && (y =? d)); lia.
  - unfold pay_out. destruct (fee_share x ddf) as [sh|] eqn:F; [|discriminate].
    pose proof (fee_share_val _ _ _ F) as ->. destruct (feeq_bounds x ddf ltac:(lia) Hd) as [Hb1 Hb2].
    specialize (Hb2 Hx). intros Hok.
    destruct (if feeq x ddf >? 0 then _ else _) as [s2| |] eqn:E1; cbn [obind] in Hok; try discriminate.
    assert (E1' : exists b1, s2 = set_bal s b1 /\ forall a y, b1 a y = bal s a y + xfer VAULT COLL d (feeq x ddf) a y).
    { destruct (Z.gtb_spec (feeq x ddf) 0).
      - destruct (send s VAULT COLL d (feeq x ddf)) as [sa| |] eqn:E2; cbn [obind] in E1; try discriminate.
        apply update_collector_spec in E1. destruct E1 as [_ ->].
        apply send_spec in E2. destruct E2 as (_ & b1 & -> & Hb). exists b1. split; [reflexivity|exact Hb].
      - injection E1 as <-. exists (bal s). split; [symmetry; apply set_bal_eta|]. intros a y.
        replace (feeq x ddf) with 0 by lia. unfold xfer. destruct ((a =? COLL) && (y =? d)), ((a =? VAULT) && (y =? d)); lia. }
    destruct E1' as (b1 & -> & Hb1').
    destruct (Z.gtb_spec (x - feeq x ddf) 0); [|lia].
    apply send_spec in Hok. destruct Hok as (_ & b2 & -> & Hb2').
    split; [right; reflexivity|]. exists b2. split; [reflexivity|]. intros a y. rewrite Hb2'. ssimpl. rewrite Hb1'. reflexivity.
Qed.

(* ---------- frame facts of the record updaters ---------- *)
Lemma find_put_other l v id : v_id v <> id -> find_v (put_v l v) id = find_v l id.
Proof.
  intros Hne. unfold find_v, put_v. induction l as [|w l IH]; cbn [gput gfind].
  - destruct (Z.eqb_spec (v_id v) id); [contradiction|reflexivity].
  - destruct (Z.eqb_spec (v_id w) (v_id v)) as [E|E]; cbn [gfind].
    + destruct (Z.eqb_spec (v_id v) id); [contradiction|]. destruct (Z.eqb_spec (v_id w) id); [lia|reflexivity].
    + destruct (v_id w =? id); [reflexivity|exact IH].
Qed.

(* ---------- projections of a state whose product map was replaced ---------- *)
Lemma pfound_set s f a p : pfound (set_prods s f) a p = ffound f a p. Proof. reflexivity. Qed.
Lemma pcoll_set s f a p : pcoll (set_prods s f) a p = fcoll f a p. Proof. reflexivity. Qed.
Lemma pmint_set s f a p : pmint (set_prods s f) a p = fmint f a p. Proof. reflexivity. Qed.
Lemma pids_set s f a p : pids (set_prods s f) a p = fids f a p. Proof. reflexivity. Qed.

(* the updaters on an existing record, as a replaced map with pointwise projections *)
Lemma upd_coll_spec s a0 p0 amt add : pfound s a0 p0 = true ->
  exists f', upd_coll s a0 p0 amt add = set_prods s f' /\
    (forall a p, ffound f' a p = ffound (prods s) a p) /\
    (forall a p, fcoll f' a p = fcoll (prods s) a p + (if (a =? a0) && (p =? p0) then (if add then amt else - amt) else 0)) /\
    (forall a p, fmint f' a p = fmint (prods s) a p) /\ (forall a p, fids f' a p = fids (prods s) a p).
Proof.
  unfold pfound. destruct (prods s a0 p0) as [pr|] eqn:E; [|discriminate]. intros _.
  rewrite (upd_coll_some _ _ _ _ _ _ E). eexists. split; [reflexivity|].
  repeat split; intros a p; rewrite ?ffound_upd2, ?fcoll_upd2, ?fmint_upd2, ?fids_upd2;
    unfold pfound, pcoll, pmint, pids, ffound, fcoll, fmint, fids;
    destruct (Z.eqb_spec a a0) as [->|]; destruct (Z.eqb_spec p p0) as [->|]; cbn [andb orb p_coll p_mint p_ids];
    rewrite ?E; try reflexivity; try lia; destruct add; lia.
Qed.

Lemma upd_mint_spec s a0 p0 amt add : pfound s a0 p0 = true ->
  exists f', upd_mint s a0 p0 amt add = set_prods s f' /\
    (forall a p, ffound f' a p = ffound (prods s) a p) /\
    (forall a p, fcoll f' a p = fcoll (prods s) a p) /\
    (forall a p, fmint f' a p = fmint (prods s) a p + (if (a =? a0) && (p =? p0) then (if add then amt else - amt) else 0)) /\
    (forall a p, fids f' a p = fids (prods s) a p).
Proof.
  unfold pfound. destruct (prods s a0 p0) as [pr|] eqn:E; [|discriminate]. intros _.
  rewrite (upd_mint_some _ _ _ _ _ _ E). eexists. split; [reflexivity|].
  repeat split; intros a p; rewrite ?ffound_upd2, ?fcoll_upd2, ?fmint_upd2, ?fids_upd2;
    unfold pfound, pcoll, pmint, pids, ffound, fcoll, fmint, fids;
    destruct (Z.eqb_spec a a0) as [->|]; destruct (Z.eqb_spec p p0) as [->|]; cbn [andb orb p_coll p_mint p_ids];
    rewrite ?E; try reflexivity; try lia; destruct add; lia.
Qed.

Lemma prod_del_id_spec s a0 p0 id : pfound s a0 p0 = true ->
  exists f', prod_del_id s a0 p0 id = set_prods s f' /\
    (forall a p, ffound f' a p = ffound (prods s) a p) /\
    (forall a p, fcoll f' a p = fcoll (prods s) a p) /\ (forall a p, fmint f' a p = fmint (prods s) a p) /\
    (forall a p, fids f' a p = if (a =? a0) && (p =? p0) then del_id (fids (prods s) a p) id else fids (prods s) a p).
Proof.
  unfold pfound. destruct (prods s a0 p0) as [pr|] eqn:E; [|discriminate]. intros _.
  rewrite (prod_del_id_some _ _ _ _ _ E). eexists. split; [reflexivity|].
  repeat split; intros a p; rewrite ?ffound_upd2, ?fcoll_upd2, ?fmint_upd2, ?fids_upd2;
    unfold pfound, pcoll, pmint, pids, ffound, fcoll, fmint, fids;
    destruct (Z.eqb_spec a a0) as [->|]; destruct (Z.eqb_spec p p0) as [->|]; cbn [andb orb p_coll p_mint p_ids];
    rewrite ?E; try reflexivity; lia.
Qed.

Lemma ensure_prod_found s a p : pfound s a p = true -> ensure_prod s a p = s.
Proof. unfold pfound, ensure_prod. destruct (prods s a p); [reflexivity|discriminate]. Qed.

(* creation: CheckAppExtendedPairVaultMapping then UpdateAppExtendedPairVaultMappingDataOnMsgCreate *)
Lemma prod_on_create_spec s a0 p0 ain aout id :
  exists f', prod_on_create s a0 p0 ain aout id = set_prods s f' /\
    (forall a p, ffound f' a p = ffound (prods s) a p || ((a =? a0) && (p =? p0))) /\
    (forall a p, fcoll f' a p = fcoll (prods s) a p + (if (a =? a0) && (p =? p0) then ain else 0)) /\
    (forall a p, fmint f' a p = fmint (prods s) a p + (if (a =? a0) && (p =? p0) then aout else 0)) /\
    (forall a p, fids f' a p = if (a =? a0) && (p =? p0) then fids (prods s) a p ++ [id] else fids (prods s) a p).
Proof.
  unfold prod_on_create. eexists. split; [reflexivity|].
  repeat split; intros a p; rewrite ?ffound_upd2, ?fcoll_upd2, ?fmint_upd2, ?fids_upd2;
    unfold pfound, pcoll, pmint, pids, ffound, fcoll, fmint, fids;
    destruct (Z.eqb_spec a a0) as [->|]; destruct (Z.eqb_spec p p0) as [->|]; cbn [andb orb p_coll p_mint p_ids];
    try (destruct (prods s a0 p0); cbn [p_coll p_mint p_ids prod0]; try reflexivity; lia);
    try (destruct (prods s a p0); reflexivity); try (destruct (prods s a0 p); reflexivity);
    try (destruct (prods s a p); reflexivity); try lia.
Qed.

(* the projections of [ensure_prod]: only [found] may change, and only at the product itself *)
Lemma ensure_prod_spec s a0 p0 :
  exists f', ensure_prod s a0 p0 = set_prods s f' /\
    (forall a p, ffound f' a p = ffound (prods s) a p || ((a =? a0) && (p =? p0))) /\
    (forall a p, fcoll f' a p = fcoll (prods s) a p) /\ (forall a p, fmint f' a p = fmint (prods s) a p) /\
    (forall a p, fids f' a p = fids (prods s) a p).
Proof.
  unfold ensure_prod. destruct (prods s a0 p0) as [pr|] eqn:E.
  - exists (prods s). split; [destruct s; reflexivity|].
    repeat split; intros a p; try reflexivity. unfold ffound, pfound.
    destruct (Z.eqb_spec a a0) as [->|]; destruct (Z.eqb_spec p p0) as [->|]; cbn [andb]; rewrite ?E, ?orb_false_r; try reflexivity.
  - eexists. split; [reflexivity|].
    repeat split; intros a p; rewrite ?ffound_upd2, ?fcoll_upd2, ?fmint_upd2, ?fids_upd2;
      unfold pfound, pcoll, pmint, pids, ffound, fcoll, fmint, fids;
      destruct (Z.eqb_spec a a0) as [->|]; destruct (Z.eqb_spec p p0) as [->|]; cbn [andb orb p_coll p_mint p_ids prod0];
      rewrite ?E, ?orb_false_r; try reflexivity; try (destruct (prods s _ _); reflexivity).
Qed.

(* ---------- executing a handler along its successful path ---------- *)
Ltac bool_norm :=
  repeat match goal with
  | H : negb _ = false |- _ => apply negb_false_iff in H
  | H : negb _ = true |- _ => apply negb_true_iff in H
  | H : (_ =? _) = true |- _ => apply Z.eqb_eq in H
  | H : andb _ _ = true |- _ => apply andb_true_iff in H; destruct H
  end.

(* one step on the hypothesis [H : ... = Ok s']: a failed check is discarded, a bind is named *)
Ltac exec1 H :=
  lazymatch type of H with
  | Err _ = Ok _ => discriminate H
  | Panic = Ok _ => discriminate H
  | obind ?x _ = Ok _ => let E := fresh "E" in let st := fresh "st" in destruct x as [st| |] eqn:E; cbn [obind] in H; [|discriminate H|discriminate H]
  | (if ?b then _ else _) = Ok _ => let C := fresh "C" in destruct b eqn:C; [try discriminate H|try discriminate H]
  | match ?x with _ => _ end = Ok _ =>
      first [ match goal with M : x = _ |- _ => rewrite M in H end
            | let M := fresh "M" in destruct x eqn:M; try discriminate H ]
  end.

(* run the checks up to the next bind *)
Ltac exec_checks H := repeat (lazymatch type of H with obind _ _ = Ok _ => fail | _ => exec1 H end).

Lemma get_ep_in c id ep : get_ep c id = Some ep -> In ep (epairs c).
Proof. unfold get_ep. intros H. apply find_some in H. tauto. Qed.

Lemma denom_in_ep c id ep : get_ep c id = Some ep -> denom_in c id = ep_in ep.
Proof. unfold denom_in. intros ->. reflexivity. Qed.
Lemma denom_out_ep c id ep : get_ep c id = Some ep -> denom_out c id = ep_out ep.
Proof. unfold denom_out. intros ->. reflexivity. Qed.

(* drop every hypothesis that is not an integer (in)equality: lia is 100x faster on a thin context *)
Ltac thin :=
  repeat match goal with H : ?T |- _ =>
    lazymatch T with
    | @eq Z _ _ => fail | Z.le _ _ => fail | Z.lt _ _ => fail | Z.ge _ _ => fail | Z.gt _ _ => fail
    | not (@eq Z _ _) => fail | and _ _ => fail
    | _ => clear H
    end end.

(* the ledger goals: pointwise equalities between sums of transfers *)
Ltac ledger :=
  unfold xfer, at2, at1; thin;
  repeat match goal with |- context [Z.eqb ?p ?q] => destruct (Z.eqb_spec p q) end;
  cbn [andb]; try lia.

Lemma del_put l v id : v_id v = id -> del_v (put_v l v) id = del_v l id.
Proof.
  intros Hk. unfold del_v, put_v. induction l as [|w l IH]; cbn [gput gdel].
  - destruct (Z.eqb_spec (v_id v) id); [reflexivity|contradiction].
  - destruct (Z.eqb_spec (v_id w) (v_id v)) as [E|E]; cbn [gdel].
    + destruct (Z.eqb_spec (v_id v) id); [|contradiction]. destruct (Z.eqb_spec (v_id w) id); [reflexivity|lia].
    + destruct (Z.eqb_spec (v_id w) id); [lia|]. rewrite IH. reflexivity.
Qed.

Lemma ddf_fee_val ep x : (ep_ddf ep = 0 \/ fee_share x (ep_ddf ep) = Some (feeq x (ep_ddf ep))) ->
  ddf_fee ep x = feeq x (ep_ddf ep).
Proof.
  intros [E|E].
  - rewrite ddf_fee_zero by exact E. rewrite E, feeq_zero. reflexivity.
  - unfold ddf_fee. rewrite E. reflexivity.
Qed.

(* calc_cr / verify_cr read only the environment part of the state *)
Lemma calc_cr_env s1 s2 ep ain aout : price s1 = price s2 -> esm s1 = esm s2 -> snap s1 = snap s2 ->
  calc_cr s1 ep ain aout = calc_cr s2 ep ain aout.
Proof. intros Hp He Hs. unfold calc_cr, calc_asset_price. rewrite Hp, He, Hs. reflexivity. Qed.
Lemma verify_cr_env s1 s2 ep ain aout st : price s1 = price s2 -> esm s1 = esm s2 -> snap s1 = snap s2 ->
  verify_cr s1 ep ain aout st = verify_cr s2 ep ain aout st.
Proof. intros Hp He Hs. unfold verify_cr. rewrite (calc_cr_env s1 s2) by assumption. reflexivity. Qed.

Ltac exec_accrue H :=
  lazymatch type of H with
  | obind (accrue ?s ?id ?ie) _ = Ok _ =>
      let E := fresh "E" in
      destruct (accrue s id ie) eqn:E; cbn [obind] in H; [|discriminate H|discriminate H];
      match goal with M : find_v (vaults s) id = Some ?v0 |- _ =>
        let Hie := fresh "Hie" in destruct (accrue_inv _ _ _ _ _ E M) as [Hie ->]; clear E end;
      ssimpl; rewrite find_put_same in H by (cbn [v_id with_int with_in with_out]; eapply find_v_id; eassumption)
  end.

Ltac prod_rw :=
  rewrite ?pfound_f, ?pcoll_f, ?pmint_f, ?pids_f;
  repeat (ssimpl; match goal with
    | H : forall a p, ffound ?f a p = _ |- context [ffound ?f _ _] => rewrite H
    | H : forall a p, fcoll ?f a p = _ |- context [fcoll ?f _ _] => rewrite H
    | H : forall a p, fmint ?f a p = _ |- context [fmint ?f _ _] => rewrite H
    | H : forall a p, fids ?f a p = _ |- context [fids ?f _ _] => rewrite H
    end);
  ssimpl.

Ltac bal_rw :=
  repeat (ssimpl; match goal with
    | H : forall a x, ?b a x = _ |- context [?b _ _] => is_var b; rewrite H
    | H : forall x, ?b x = _ |- context [?b _] => is_var b; rewrite H
    end); ssimpl.

Ltac eqb_cases :=
  thin;
  repeat match goal with |- context [Z.eqb ?p ?q] => destruct (Z.eqb_spec p q) end;
  cbn [andb orb]; try reflexivity; try lia; try congruence.

Ltac bc_simpl :=
  cbn [bc_pre bc_wf bc_vaults bc_svaults bc_pair bc_app bc_din bc_dout touched creates bc_ids
       v_in v_out v_id v_app v_pair v_int v_fee v_owner with_in with_int with_out
       sv_id sv_app sv_pair sv_in sv_out] in *.

(* the product of an open vault exists *)
Lemma prods_exist_v s id v : ProdsExist s -> find_v (vaults s) id = Some v -> pfound s (v_app v) (v_pair v) = true.
Proof. intros [PE _] M. apply (gfind_some v_id) in M. destruct M as [Hin _]. exact (PE _ Hin). Qed.
Lemma prods_exist_sv s id x : ProdsExist s -> find_sv (svaults s) id = Some x -> pfound s (sv_app x) (sv_pair x) = true.
Proof. intros [_ PE] M. apply (gfind_some sv_id) in M. destruct M as [Hin _]. exact (PE _ Hin). Qed.
Lemma vwf_found s id v : VWf s -> find_v (vaults s) id = Some v -> wfv v.
Proof. intros W M. apply (gfind_some v_id) in M. destruct M as [Hin _]. exact (W _ Hin). Qed.
