(* Tie (C) for C19: the append loops of SplitTotalAmountPerEpoch as the lists of Model/Gauge.v. *)
From Coq Require Import ZifyBool.
From Comdex Require Import Lib.Base Lib.GoSem Model.Gauge.

(* for i := i0; ..; i++ { if i >= zp { splits = append(splits, pp1) } else { splits = append(splits, pp) } } *)
Lemma for_loop_split_loop (zp pp pp1 : Z) : pp1 = pp + 1 -> forall k i acc,
  for_loop k i (fun j s => if j >=? zp then Ok (s ++ [pp1]) else Ok (s ++ [pp])) acc
  = Ok (acc ++ split_loop k i zp pp).
Proof.
  intros ->. induction k as [|k IH]; intros i acc; cbn [for_loop split_loop]; [rewrite app_nil_r; reflexivity|].
  rewrite Z.geb_leb. destruct (zp <=? i); cbn [obind]; rewrite IH, <- app_assoc; reflexivity.
Qed.
