(* Proofs about Model/Liquidation.v: slice bounds, safety of the seize rules through every sweep
   and the liquidate message, exact handover, and the liveness bound by induction. *)
From Comdex Require Import Lib.Base Lib.DecArith Model.Liquidation.
Require Import Coq.Sorting.Permutation.
From Coq Require Import ZifyBool.

(* ------------------------------------------------------------------------------------ *)
(* slice bounds                                                                           *)

Lemma slice_bounds_ok_lem : forall len off batch, 0 <= len ->
  0 <= fst (slice_bounds len off batch) <= snd (slice_bounds len off batch) /\
  snd (slice_bounds len off batch) <= len.
Proof.
  intros len off batch Hl. unfold slice_bounds.
  destruct ((off >=? len) || (off <? 0) || (batch <? 0)) eqn:E; cbn [fst snd]; [lia|].
  destruct (off + batch >=? len) eqn:E2; cbn [fst snd]; lia.
Qed.

Lemma sweep_window_ok_lem : forall len off batch, 0 <= len ->
  0 <= fst (sweep_window len off batch) <= snd (sweep_window len off batch) /\
  snd (sweep_window len off batch) <= len.
Proof.
  intros len off batch Hl. unfold sweep_window.
  destruct (fst (slice_bounds len off batch) =? snd (slice_bounds len off batch));
    apply slice_bounds_ok_lem; exact Hl.
Qed.

(* the window as a closed form, for batch >= 1 *)
Lemma sweep_window_eq : forall n o b, 0 <= n -> 1 <= b -> 0 <= o ->
  sweep_window n o b =
    if o <? n then (o, Z.min (o + b) n) else (if 0 <? n then (0, Z.min b n) else (0, 0)).
Proof.
  intros n o b Hn Hb Ho. unfold sweep_window, slice_bounds.
  destruct (o <? n) eqn:E1.
  - replace ((o >=? n) || (o <? 0) || (b <? 0)) with false by lia.
    destruct (o + b >=? n) eqn:E2; cbn [fst snd].
    + replace (o =? n) with false by lia. f_equal. lia.
    + replace (o =? o + b) with false by lia. f_equal. lia.
  - replace ((o >=? n) || (o <? 0) || (b <? 0)) with true by lia. cbn [fst snd].
    rewrite Z.eqb_refl.
    destruct (0 <? n) eqn:E3.
    + replace ((0 >=? n) || (0 <? 0) || (b <? 0)) with false by lia.
      destruct (0 + b >=? n) eqn:E4; f_equal; lia.
    + replace ((0 >=? n) || (0 <? 0) || (b <? 0)) with true by lia. f_equal; lia.
Qed.

(* ------------------------------------------------------------------------------------ *)
(* safety                                                                                 *)

Lemma sweep_items_seized : forall g app items id,
  In id (sweep_items g app items) ->
  exists p, In p items /\ p_id p = id /\ eff_verdict g app p = VSeize.
Proof.
  induction items as [|p rest IH]; intros id H; cbn in H; [contradiction|].
  destruct (eff_verdict g app p) eqn:E.
  - cbn in H. destruct H as [<-|H].
    + exists p. split; [left; reflexivity|]. split; [reflexivity|exact E].
    + destruct (IH id H) as (q & Hq & Hid & Hv). exists q. split; [right; exact Hq|]. split; assumption.
  - destruct (IH id H) as (q & Hq & Hid & Hv). exists q. split; [right; exact Hq|]. split; assumption.
  - destruct (IH id H) as (q & Hq & Hid & Hv). exists q. split; [right; exact Hq|]. split; assumption.
  - destruct (IH id H) as (q & Hq & Hid & Hv). exists q. split; [right; exact Hq|]. split; assumption.
Qed.

Lemma in_firstn {A} : forall n (l : list A) x, In x (firstn n l) -> In x l.
Proof. induction n; intros [|a l] x H; cbn in *; try contradiction. destruct H; [left|right]; auto. Qed.
Lemma in_skipn {A} : forall n (l : list A) x, In x (skipn n l) -> In x l.
Proof. induction n; intros [|a l] x H; cbn in *; try contradiction; auto. Qed.

Lemma go_slice_in : forall l cap s e items p,
  go_slice l cap s e = Some items -> In p items -> In p l \/ p = zero_pos.
Proof.
  intros l cap s e items p H Hin. unfold go_slice in H.
  destruct ((0 <=? s) && (s <=? e) && (e <=? cap)); [|discriminate].
  injection H as <-. apply in_firstn in Hin. apply in_skipn in Hin.
  apply in_app_or in Hin. destruct Hin as [H|H]; [left; exact H|right].
  apply repeat_spec in H. exact H.
Qed.

Lemma eff_zero_not_seize : forall g app, eff_verdict g app zero_pos <> VSeize.
Proof. intros g app H. destruct g; cbn in H; try discriminate. destruct app; discriminate. Qed.

(* every id a sweep seizes belongs to a position of the list whose own verdict is VSeize, and
   (V1) whose app is the app being swept *)
Lemma sweep_core_seized : forall g app l cap len off batch sz l' o id,
  sweep_core g app l cap len off batch = Ok (sz, l', o) -> In id sz ->
  exists p, In p l /\ p_id p = id /\ p_v p = VSeize /\ (g = GV1 -> p_app p = app).
Proof.
  intros g app l cap len off batch sz l' o id H Hin. unfold sweep_core in H.
  destruct (go_slice l cap _ _) as [items|] eqn:Eg; [|discriminate].
  assert (Hs : In id (sweep_items g app items)).
  { injection H as <- _ _; exact Hin. }
  destruct (sweep_items_seized _ _ _ _ Hs) as (p & Hp & Hid & Hv).
  destruct (go_slice_in _ _ _ _ _ _ Eg Hp) as [Hl|Hz].
  - exists p. split; [exact Hl|]. split; [exact Hid|].
    destruct g; cbn in Hv; try (split; [exact Hv|discriminate]).
    destruct (p_app p =? app) eqn:Ea; [|discriminate]. split; [exact Hv|]. intros _. lia.
  - subst p. exfalso. exact (eff_zero_not_seize _ _ Hv).
Qed.

Lemma sweep_one_inv : forall g app l cap counter off batch r,
  sweep_one g app l cap counter off batch = Ok r ->
  sweep_core g app l cap (int_of_u64 counter) off batch = Ok (r_seized r, r_list r, r_off r).
Proof.
  intros g app l cap counter off batch r H. unfold sweep_one in H.
  destruct (sweep_core g app l cap (int_of_u64 counter) off batch) as [[[sz l'] o]| |]; try discriminate.
  injection H as <-. reflexivity.
Qed.

(* every id a sweep seizes belongs to a position of the list whose own verdict is VSeize, and
   (V1) whose app is the app being swept *)
Lemma sweep_one_seized : forall g app l cap counter off batch r id,
  sweep_one g app l cap counter off batch = Ok r -> In id (r_seized r) ->
  exists p, In p l /\ p_id p = id /\ p_v p = VSeize /\ (g = GV1 -> p_app p = app).
Proof.
  intros g app l cap counter off batch r id H Hin.
  eapply sweep_core_seized; [exact (sweep_one_inv _ _ _ _ _ _ _ _ H)|exact Hin].
Qed.

Lemma after_seize_incl : forall g seized l p, removes g = true -> In p (after_seize g seized l) -> In p l.
Proof. intros g seized l p Hr H. unfold after_seize in H. rewrite Hr in H. apply filter_In in H. tauto. Qed.

Lemma sweep_one_list_incl : forall app l cap counter off batch r p,
  sweep_one GV1 app l cap counter off batch = Ok r -> In p (r_list r) -> In p l.
Proof.
  intros app l cap counter off batch r p H Hin. apply sweep_one_inv in H. unfold sweep_core in H.
  destruct (go_slice l cap _ _) as [items|]; [|discriminate].
  injection H as _ H _; rewrite <- H in Hin; exact (after_seize_incl GV1 _ _ _ eq_refl Hin).
Qed.

Lemma sweep_v1_seized : forall capf batch apps st acc ids st' id,
  sweep_v1 capf batch apps st acc = Ok (ids, st') -> In id ids ->
  In id acc \/ exists p, In p (s_list st) /\ p_id p = id /\ p_v p = VSeize /\ In (p_app p) (map fst apps).
Proof.
  intros capf batch apps. induction apps as [|[app blocked] rest IH]; intros st acc ids st' id H Hin; cbn in H.
  - injection H as <- <-. left; exact Hin.
  - destruct blocked.
    + destruct (IH _ _ _ _ _ H Hin) as [Ha|(p & Hp & Hid & Hv & Happ)]; [left; exact Ha|right].
      exists p. repeat split; auto. right; exact Happ.
    + destruct (sweep_one GV1 app (s_list st) _ _ _ batch) as [r| |] eqn:Es; try discriminate.
      destruct (IH _ _ _ _ _ H Hin) as [Ha|(p & Hp & Hid & Hv & Happ)].
      * apply in_app_or in Ha. destruct Ha as [Ha|Ha]; [left; exact Ha|right].
        destruct (sweep_one_seized _ _ _ _ _ _ _ _ _ Es Ha) as (p & Hp & Hid & Hv & Happ).
        exists p. repeat split; auto. left. cbn. symmetry. apply Happ. reflexivity.
      * right. exists p. cbn in Hp. repeat split; auto.
        -- eapply sweep_one_list_incl; eauto.
        -- right; exact Happ.
Qed.

(* what VSeize means for a vault, both generations *)
Lemma seize_rule_vault_sound : forall g v, seize_rule_vault g v = VSeize ->
  exists cr, calc_cr v (v_amt_in v) (v_amt_out v + v_interest v + v_closing v) = Ok cr /\
             cr < v_min_cr v /\ start_ok g v = true /\
             (g <> GV1 -> v_esm v = false /\ v_kill v = false /\ v_white v = true).
Proof.
  intros g v H.
  assert (Hcore : forall o : Z, verdict_of_outcome
            (obind (cr_below v) (fun b => if b then (if start_ok g v then Ok true else Err 5) else Ok false)) = VSeize ->
          exists cr, calc_cr v (v_amt_in v) (v_amt_out v + v_interest v + v_closing v) = Ok cr /\
             cr < v_min_cr v /\ start_ok g v = true) by
  ( intros _ Hc; unfold cr_below, total_out in Hc;
    unfold iadd_c, chk_int in Hc;
    destruct (fits_int (v_amt_out v + v_interest v)); cbn in Hc; [|discriminate];
    destruct (fits_int (v_amt_out v + v_interest v + v_closing v)); cbn in Hc; [|discriminate];
    destruct (calc_cr v (v_amt_in v) (v_amt_out v + v_interest v + v_closing v)) as [cr| |]; cbn in Hc; try discriminate;
    destruct (cr <? v_min_cr v) eqn:El; cbn in Hc; [|discriminate];
    destruct (start_ok g v); cbn in Hc; [|discriminate];
    exists cr; repeat split; auto; lia ).
  destruct g; cbn [seize_rule_vault] in H.
  - destruct (calc_asset_price (v_price_in v) (v_dec_in v) (v_amt_in v)); cbn in H; try discriminate.
    destruct (Hcore 0 H) as (cr & A & B & C). exists cr. repeat split; auto; congruence.
  - destruct (v_esm v || v_kill v) eqn:E1; [discriminate|].
    destruct (v_white v) eqn:E2; cbn in H; [|discriminate].
    destruct (Hcore 0 H) as (cr & A & B & C). exists cr. repeat split; auto; destruct (v_esm v), (v_kill v); auto; discriminate.
  - destruct (v_esm v || v_kill v) eqn:E1; [discriminate|].
    destruct (v_white v) eqn:E2; cbn in H; [|discriminate].
    destruct (Hcore 0 H) as (cr & A & B & C). exists cr. repeat split; auto; destruct (v_esm v), (v_kill v); auto; discriminate.
  - destruct (v_esm v || v_kill v) eqn:E1; [discriminate|].
    destruct (v_white v) eqn:E2; cbn in H; [|discriminate].
    destruct (Hcore 0 H) as (cr & A & B & C). exists cr. repeat split; auto; destruct (v_esm v), (v_kill v); auto; discriminate.
Qed.

Definition seized_ok (g : gen) (vs : list vault_in) (id : Z) : Prop :=
  exists v cr, In v vs /\ v_id v = id /\
    calc_cr v (v_amt_in v) (v_amt_out v + v_interest v + v_closing v) = Ok cr /\ cr < v_min_cr v.

(* the per-block sweep of either generation (single sweep) *)
Lemma safe_vault_sweep : forall g app vs cap counter off batch r id,
  sweep_one g app (map (pos_of_vault g) vs) cap counter off batch = Ok r ->
  In id (r_seized r) -> seized_ok g vs id /\ (g = GV1 -> exists v, In v vs /\ v_id v = id /\ v_app v = app).
Proof.
  intros g app vs cap counter off batch r id H Hin.
  destruct (sweep_one_seized _ _ _ _ _ _ _ _ _ H Hin) as (p & Hp & Hid & Hv & Happ).
  apply in_map_iff in Hp. destruct Hp as (v & <- & Hv'). cbn [pos_of_vault pos_of_borrow p_id p_v p_app] in Hid, Hv, Happ.
  destruct (seize_rule_vault_sound _ _ Hv) as (cr & A & B & _).
  split.
  - exists v, cr. repeat split; auto.
  - intros Hg. exists v. repeat split; auto.
Qed.

(* V1: the whole block over all whitelisted apps *)
Lemma safe_vault_v1 : forall capf batch apps vs counter offs ids st' id,
  sweep_v1 capf batch apps (mkV1 (map (pos_of_vault GV1) vs) counter offs) [] = Ok (ids, st') ->
  In id ids -> seized_ok GV1 vs id.
Proof.
  intros capf batch apps vs counter offs ids st' id H Hin.
  destruct (sweep_v1_seized _ _ _ _ _ _ _ _ H Hin) as [[]|(p & Hp & Hid & Hv & _)].
  cbn in Hp. apply in_map_iff in Hp. destruct Hp as (v & <- & Hv'). cbn [pos_of_vault pos_of_borrow p_id p_v p_app] in Hid, Hv.
  destruct (seize_rule_vault_sound _ _ Hv) as (cr & A & B & _).
  exists v, cr. repeat split; auto.
Qed.

Lemma find_pos_in : forall l id p, find_pos l id = Some p -> In p l /\ p_id p = id.
Proof.
  induction l as [|q l IH]; intros id p H; cbn in H; [discriminate|].
  destruct (p_id q =? id) eqn:E.
  - injection H as <-. split; [left; reflexivity|lia].
  - destruct (IH _ _ H). split; [right|]; auto.
Qed.

(* the liquidate message: same function, same rule *)
Lemma safe_vault_msg : forall vs id0 ids l' id,
  msg_liquidate GV2 (map (pos_of_vault GV2) vs) id0 = Ok (ids, l') -> In id ids -> seized_ok GV2 vs id.
Proof.
  intros vs id0 ids l' id H Hin. unfold msg_liquidate in H.
  destruct (find_pos _ id0) as [p|] eqn:Ef; [|discriminate].
  destruct (find_pos_in _ _ _ Ef) as (Hp & Hid).
  destruct (p_v p) eqn:Ev; try discriminate; injection H as <- <-; [|contradiction].
  destruct Hin as [<-|[]].
  apply in_map_iff in Hp. destruct Hp as (v & <- & Hv'). cbn [pos_of_vault pos_of_borrow p_id p_v p_app] in Hid, Ev.
  destruct (seize_rule_vault_sound _ _ Ev) as (cr & A & B & _).
  exists v, cr. repeat split; auto.
Qed.

(* the boolean the runner evaluates is the same statement *)
Lemma vault_unsafe_spec : forall v, vault_unsafe v = true ->
  exists cr, calc_cr v (v_amt_in v) (v_amt_out v + v_interest v + v_closing v) = Ok cr /\ cr < v_min_cr v.
Proof.
  intros v H. unfold vault_unsafe, cr_below, total_out, iadd_c, chk_int in H.
  destruct (fits_int (v_amt_out v + v_interest v)); cbn in H; [|discriminate].
  destruct (fits_int (v_amt_out v + v_interest v + v_closing v)); cbn in H; [|discriminate].
  destruct (calc_cr v (v_amt_in v) _) as [cr| |]; cbn in H; try discriminate.
  exists cr. split; [reflexivity|lia].
Qed.

Lemma in_map_vid : forall vs v, In v vs -> In (v_id v) (map v_id vs).
Proof. intros. apply in_map. assumption. Qed.

Lemma nodup_id_unique : forall vs v w, NoDup (map v_id vs) -> In v vs -> In w vs -> v_id v = v_id w -> v = w.
Proof.
  induction vs as [|a vs IH]; intros v w Hnd Hv Hw Heq; [contradiction|].
  cbn in Hnd. inversion Hnd as [|x l Hnot Hnd']; subst.
  destruct Hv as [<-|Hv], Hw as [<-|Hw]; auto.
  - exfalso. apply Hnot. rewrite Heq. apply in_map_vid; exact Hw.
  - exfalso. apply Hnot. rewrite <- Heq. apply in_map_vid; exact Hv.
Qed.

Lemma safe_vault_never : forall g app vs cap counter off batch r v cr,
  NoDup (map v_id vs) -> In v vs ->
  calc_cr v (v_amt_in v) (v_amt_out v + v_interest v + v_closing v) = Ok cr -> v_min_cr v <= cr ->
  sweep_one g app (map (pos_of_vault g) vs) cap counter off batch = Ok r ->
  ~ In (v_id v) (r_seized r).
Proof.
  intros g app vs cap counter off batch r v cr Hnd Hv Hcr Hge H Hin.
  destruct (proj1 (safe_vault_sweep _ _ _ _ _ _ _ _ _ H Hin)) as (w & cr' & Hw & Hid & Hcr' & Hlt).
  assert (w = v) by (eapply nodup_id_unique; eauto). subst w.
  rewrite Hcr in Hcr'. injection Hcr' as <-. lia.
Qed.

(* ---- borrows ---- *)
Lemma seize_rule_borrow_sound : forall g b, seize_rule_borrow g b = VSeize ->
  exists cr th, lend_cr b = Ok cr /\ applicable_threshold b = Ok th /\ cr > th /\
                b_liquidated b = false /\ b_kill b = false.
Proof.
  intros g b H. unfold seize_rule_borrow, seize_rule_borrow_of in H.
  destruct (b_found b); cbn in H; [|destruct g; discriminate].
  destruct (b_liquidated b); [discriminate|].
  destruct (b_lend_found b); cbn in H; [|discriminate].
  destruct (b_kill b); [discriminate|].
  destruct (b_interest_panic b); [discriminate|].
  destruct (b_interest_ok b); cbn in H; [|discriminate].
  unfold ratio_above, ratio_above_of in H.
  destruct (lend_cr b) as [cr| |]; cbn in H; try discriminate.
  destruct (applicable_threshold b) as [th| |]; cbn in H; try discriminate.
  destruct (cr >? th) eqn:E; cbn in H.
  - exists cr, th. repeat split; auto. lia.
  - discriminate.
Qed.

Lemma safe_borrow_sweep : forall g bs cap off batch r id,
  sweep_one g 0 (map (pos_of_borrow g) bs) cap (zlen bs) off batch = Ok r -> g <> GV1 ->
  In id (r_seized r) ->
  exists b cr th, In b bs /\ b_id b = id /\ lend_cr b = Ok cr /\ applicable_threshold b = Ok th /\ cr > th.
Proof.
  intros g bs cap off batch r id H Hg Hin.
  destruct (sweep_one_seized _ _ _ _ _ _ _ _ _ H Hin) as (p & Hp & Hid & Hv & _).
  apply in_map_iff in Hp. destruct Hp as (b & <- & Hb). cbn [pos_of_vault pos_of_borrow p_id p_v p_app] in Hid, Hv.
  destruct (seize_rule_borrow_sound _ _ Hv) as (cr & th & A & B & C & _).
  exists b, cr, th. repeat split; auto.
Qed.

(* the liquidate message with liq type 1: the same LiquidateIndividualBorrow *)
Lemma safe_borrow_msg : forall bs id0 ids l' id,
  msg_liquidate GB2 (map (pos_of_borrow GB2) bs) id0 = Ok (ids, l') -> In id ids ->
  exists b cr th, In b bs /\ b_id b = id /\ lend_cr b = Ok cr /\ applicable_threshold b = Ok th /\ cr > th.
Proof.
  intros bs id0 ids l' id H Hin. unfold msg_liquidate in H.
  destruct (find_pos _ id0) as [p|] eqn:Ef; [|discriminate].
  destruct (find_pos_in _ _ _ Ef) as (Hp & Hid).
  destruct (p_v p) eqn:Ev; try discriminate; injection H as <- <-; [|contradiction].
  destruct Hin as [<-|[]].
  apply in_map_iff in Hp. destruct Hp as (b & <- & Hb). cbn [pos_of_vault pos_of_borrow p_id p_v p_app] in Hid, Ev.
  destruct (seize_rule_borrow_sound _ _ Ev) as (cr & th & A & B & C & _).
  exists b, cr, th. repeat split; auto.
Qed.

Lemma nodup_bid_unique : forall bs v w, NoDup (map b_id bs) -> In v bs -> In w bs -> b_id v = b_id w -> v = w.
Proof.
  induction bs as [|a bs IH]; intros v w Hnd Hv Hw Heq; [contradiction|].
  cbn in Hnd. inversion Hnd as [|x l Hnot Hnd']; subst.
  destruct Hv as [<-|Hv], Hw as [<-|Hw]; auto.
  - exfalso. apply Hnot. rewrite Heq. apply in_map; exact Hw.
  - exfalso. apply Hnot. rewrite <- Heq. apply in_map; exact Hv.
Qed.

(* the property's wording: at or below the applicable threshold -> never seized, by the sweep ... *)
Lemma safe_borrow_never : forall g bs cap off batch r b cr th,
  g <> GV1 -> NoDup (map b_id bs) -> In b bs ->
  lend_cr b = Ok cr -> applicable_threshold b = Ok th -> cr <= th ->
  sweep_one g 0 (map (pos_of_borrow g) bs) cap (zlen bs) off batch = Ok r ->
  ~ In (b_id b) (r_seized r).
Proof.
  intros g bs cap off batch r b cr th Hg Hnd Hb Hcr Hth Hle H Hin.
  destruct (safe_borrow_sweep _ _ _ _ _ _ _ H Hg Hin) as (w & cr' & th' & Hw & Hid & Hcr' & Hth' & Hgt).
  assert (w = b) by (eapply nodup_bid_unique; eauto). subst w.
  rewrite Hcr in Hcr'. rewrite Hth in Hth'. injection Hcr' as <-. injection Hth' as <-. lia.
Qed.

(* ... nor by anyone's liquidate message *)
Lemma safe_borrow_never_msg : forall bs id0 ids l' b cr th,
  NoDup (map b_id bs) -> In b bs ->
  lend_cr b = Ok cr -> applicable_threshold b = Ok th -> cr <= th ->
  msg_liquidate GB2 (map (pos_of_borrow GB2) bs) id0 = Ok (ids, l') ->
  ~ In (b_id b) ids.
Proof.
  intros bs id0 ids l' b cr th Hnd Hb Hcr Hth Hle H Hin.
  destruct (safe_borrow_msg _ _ _ _ _ H Hin) as (w & cr' & th' & Hw & Hid & Hcr' & Hth' & Hgt).
  assert (w = b) by (eapply nodup_bid_unique; eauto). subst w.
  rewrite Hcr in Hcr'. rewrite Hth in Hth'. injection Hcr' as <-. injection Hth' as <-. lia.
Qed.

(* the boolean the runner evaluates on the implementation's borrow seizures is this statement *)
Lemma borrow_unsafe_spec : forall b, borrow_unsafe b = true ->
  exists cr th, lend_cr b = Ok cr /\ applicable_threshold b = Ok th /\ cr > th.
Proof.
  intros b H. unfold borrow_unsafe, ratio_above, ratio_above_of in H.
  destruct (lend_cr b) as [cr| |]; cbn in H; try discriminate.
  destruct (applicable_threshold b) as [th| |]; cbn in H; try discriminate.
  exists cr, th. repeat split; auto. lia.
Qed.

(* the runner's one-pass evaluation is the rule, the ratio, the threshold and the safety predicate *)
Lemma borrow_eval_spec : forall g b,
  e_v (borrow_eval g b) = seize_rule_borrow g b /\ e_cr (borrow_eval g b) = lend_cr b /\
  e_th (borrow_eval g b) = applicable_threshold b /\ e_unsafe (borrow_eval g b) = borrow_unsafe b.
Proof. intros. repeat split. Qed.

(* outside the class C09-F5 the property's hypotheses make the visit seize an unsafe borrow: the
   hypothesis "vf x = VSeize" of the borrow liveness theorems is exactly "hypotheses + unsafe" there *)
Lemma live_borrow_verdict : forall b,
  live_hyp_borrow b = true -> borrow_unsafe b = true -> kf_C09_5 b = false -> kf_C09_6 b = false ->
  seize_rule_borrow GB2 b = VSeize.
Proof.
  intros b Hh Hu Hk5 Hk6. unfold kf_C09_5 in Hk5. unfold kf_C09_6 in Hk6. rewrite Hh, Hu in Hk5, Hk6. cbn in Hk5, Hk6.
  apply Bool.negb_false_iff in Hk5. apply Bool.orb_false_iff in Hk6. destruct Hk6 as (Hp & Hi).
  apply Bool.negb_false_iff in Hi.
  unfold live_hyp_borrow in Hh. repeat (apply andb_prop in Hh; destruct Hh as (Hh & ?)).
  unfold borrow_unsafe in Hu. unfold seize_rule_borrow, seize_rule_borrow_of, borrow_start_ok.
  rewrite Hh. cbn [negb]. apply Bool.negb_true_iff in H3. rewrite H3. rewrite H2. cbn [negb].
  apply Bool.negb_true_iff in H1. rewrite H1. rewrite Hp, Hi. cbn [negb].
  destruct (ratio_above b) as [[|]| |]; try discriminate.
  cbn. rewrite H0. cbn [negb]. rewrite Hk5, H. reflexivity.
Qed.

(* a borrow whose visit does not reach VSeize is not seized by any sweep, whatever the list, the
   offset and the batch size *)
Lemma not_seize_never : forall g bs cap off batch r b,
  g <> GV1 -> NoDup (map b_id bs) -> In b bs -> seize_rule_borrow g b <> VSeize ->
  sweep_one g 0 (map (pos_of_borrow g) bs) cap (zlen bs) off batch = Ok r ->
  ~ In (b_id b) (r_seized r).
Proof.
  intros g bs cap off batch r b Hg Hnd Hb Hv H Hin.
  destruct (sweep_one_seized _ _ _ _ _ _ _ _ _ H Hin) as (p & Hp & Hid & Hpv & _).
  apply in_map_iff in Hp. destruct Hp as (w & <- & Hw). cbn [pos_of_borrow p_id p_v] in Hid, Hpv.
  assert (w = b) by (eapply nodup_bid_unique; eauto). subst w. contradiction.
Qed.

(* the threshold applicable to a borrow, case by case, as liquidate.go:295-349 computes it *)
Lemma applicable_threshold_cases : forall b,
  (b_bridged_amt b = 0 -> applicable_threshold b = Ok (base_threshold b)) /\
  (b_bridged_amt b <> 0 -> b_bridged_denom b = b_first_denom b ->
     applicable_threshold b = oz (dmul_c (base_threshold b) (b_thr_one b))) /\
  (b_bridged_amt b <> 0 -> b_bridged_denom b <> b_first_denom b ->
     applicable_threshold b = oz (dmul_c (base_threshold b) (b_thr_two b))) /\
  (b_emode b = true -> base_threshold b = b_eliq_thr b) /\
  (b_emode b = false -> base_threshold b = b_liq_thr b).
Proof.
  intro b. unfold applicable_threshold, bridge_of, base_threshold. repeat split; intros.
  - replace (b_bridged_amt b =? 0) with true by lia. reflexivity.
  - replace (b_bridged_amt b =? 0) with false by lia.
    replace (b_bridged_denom b =? b_first_denom b) with true by lia. reflexivity.
  - replace (b_bridged_amt b =? 0) with false by lia.
    replace (b_bridged_denom b =? b_first_denom b) with false by lia. reflexivity.
  - rewrite H. reflexivity.
  - rewrite H. reflexivity.
Qed.

(* ------------------------------------------------------------------------------------ *)
(* exact handover of a BORROW seizure (UpdateLockedBorrows)                               *)

Lemma key_eqb_eq a b : key_eqb a b = true <-> a = b.
Proof. destruct a, b. unfold key_eqb. cbn [fst snd]. split; intro H; [f_equal; lia|injection H as -> ->; lia]. Qed.

Lemma key_eqb_refl a : key_eqb a a = true.
Proof. apply key_eqb_eq. reflexivity. Qed.

Lemma key_eqb_neq a b : a <> b -> key_eqb a b = false.
Proof. intro H. destruct (key_eqb a b) eqn:E; [|reflexivity]. apply key_eqb_eq in E. contradiction. Qed.

Lemma kget_kadd_same : forall m k d, kget (kadd m k d) k = kget m k + d.
Proof.
  induction m as [|[k' v] r IH]; intros k d; cbn [kadd kget].
  - rewrite key_eqb_refl. lia.
  - destruct (key_eqb k' k) eqn:E; cbn [kget]; rewrite E; [lia|apply IH].
Qed.

Lemma kget_kadd_other : forall m k k2 d, k <> k2 -> kget (kadd m k d) k2 = kget m k2.
Proof.
  induction m as [|[k' v] r IH]; intros k k2 d Hne; cbn [kadd kget].
  - rewrite key_eqb_neq by exact Hne. reflexivity.
  - destruct (key_eqb k' k) eqn:E; cbn [kget].
    + apply key_eqb_eq in E. subst k'. rewrite key_eqb_neq by exact Hne. reflexivity.
    + destruct (key_eqb k' k2); [reflexivity|apply IH; exact Hne].
Qed.

Lemma lend_get_sub_other : forall m id id2 d, id <> id2 -> lend_get (lend_sub m id d) id2 = lend_get m id2.
Proof.
  induction m as [|[i v] r IH]; intros id id2 d Hne; cbn [lend_sub lend_get]; [reflexivity|].
  destruct (i =? id) eqn:E.
  - assert (i = id) by lia. subst i. replace (id =? id2) with false by lia.
    destruct (v - d >? 0); cbn [lend_get]; [replace (id =? id2) with false by lia|]; reflexivity.
  - cbn [lend_get]. destruct (i =? id2); [reflexivity|apply IH; exact Hne].
Qed.

(* ONE borrow seizure, every input: exactly the recorded collateral leaves the pool's module
   account for the auction module's, the same amount of the cToken is burnt, no other balance
   moves; the pool statistics and the lend position shrink by exactly the recorded amounts;
   IsLiquidated is set; exactly one locked vault and one auction are opened, for exactly the
   recorded collateral *)
Lemma handover_borrow_one : forall w z,
  z_pool_acc z <> auction_acc -> z_denom_in z <> z_cdenom z ->
  let w' := seize_borrow_world w z in
  kget (w_bal w') (z_pool_acc z, z_denom_in z) = kget (w_bal w) (z_pool_acc z, z_denom_in z) - z_amt_in z /\
  kget (w_bal w') (auction_acc, z_denom_in z) = kget (w_bal w) (auction_acc, z_denom_in z) + z_amt_in z /\
  kget (w_bal w') (z_pool_acc z, z_cdenom z) = kget (w_bal w) (z_pool_acc z, z_cdenom z) - z_amt_in z /\
  (forall k, k <> (z_pool_acc z, z_denom_in z) -> k <> (auction_acc, z_denom_in z) -> k <> (z_pool_acc z, z_cdenom z) ->
     kget (w_bal w') k = kget (w_bal w) k) /\
  kget (w_supply w') (0, z_cdenom z) = kget (w_supply w) (0, z_cdenom z) - z_amt_in z /\
  (forall k, k <> (0, z_cdenom z) -> kget (w_supply w') k = kget (w_supply w) k) /\
  kget (w_tlend w') (z_pool_in z, z_asset_in z) = kget (w_tlend w) (z_pool_in z, z_asset_in z) - z_amt_in z /\
  (forall k, k <> (z_pool_in z, z_asset_in z) -> kget (w_tlend w') k = kget (w_tlend w) k) /\
  kget (w_tborrow w') (z_pool_out z, z_asset_out z) + kget (w_tstable w') (z_pool_out z, z_asset_out z) =
    kget (w_tborrow w) (z_pool_out z, z_asset_out z) + kget (w_tstable w) (z_pool_out z, z_asset_out z) - z_amt_out z /\
  (forall k, k <> (z_pool_out z, z_asset_out z) ->
     kget (w_tborrow w') k = kget (w_tborrow w) k /\ kget (w_tstable w') k = kget (w_tstable w) k) /\
  (forall id, id <> z_lend z -> lend_get (w_lend w') id = lend_get (w_lend w) id) /\
  w_liq w' = w_liq w ++ [z_id z] /\
  w_locked w' = w_locked w ++ [(z_id z, z_amt_in z)] /\
  w_auction w' = w_auction w ++ [(z_id z, z_amt_in z)].
Proof.
  intros w z Hacc Hden. cbn zeta. unfold seize_borrow_world.
  cbn [w_bal w_supply w_tlend w_tborrow w_tstable w_lend w_liq w_locked w_auction].
  assert (N1 : (auction_acc, z_denom_in z) <> (z_pool_acc z, z_denom_in z)) by (intro H; injection H as H; congruence).
  assert (N2 : (z_pool_acc z, z_cdenom z) <> (z_pool_acc z, z_denom_in z)) by (intro H; injection H as H; congruence).
  assert (N3 : (z_pool_acc z, z_cdenom z) <> (auction_acc, z_denom_in z)) by (intro H; injection H as H; congruence).
  repeat split.
  - rewrite kget_kadd_other by exact N2. rewrite kget_kadd_other by exact N1. rewrite kget_kadd_same. lia.
  - rewrite kget_kadd_other by exact N3. rewrite kget_kadd_same.
    rewrite kget_kadd_other by (intro H; apply N1; symmetry; exact H). lia.
  - rewrite kget_kadd_same. rewrite kget_kadd_other by (intro H; apply N3; symmetry; exact H).
    rewrite kget_kadd_other by (intro H; apply N2; symmetry; exact H). lia.
  - intros k K1 K2 K3. rewrite !kget_kadd_other by (intro H; subst k; contradiction). reflexivity.
  - rewrite kget_kadd_same. lia.
  - intros k K. rewrite kget_kadd_other by (intro H; subst k; contradiction). reflexivity.
  - rewrite kget_kadd_same. lia.
  - intros k K. rewrite kget_kadd_other by (intro H; subst k; contradiction). reflexivity.
  - destruct (z_stable z); rewrite kget_kadd_same; lia.
  - destruct (z_stable z); [reflexivity|]. rewrite kget_kadd_other by (intro H0; subst k; contradiction). reflexivity.
  - destruct (z_stable z); [|reflexivity]. rewrite kget_kadd_other by (intro H0; subst k; contradiction). reflexivity.
  - intros id Hid. apply lend_get_sub_other. congruence.
Qed.

(* ... and the lend position: it keeps exactly AmountIn - collateral, or is deleted when nothing
   positive is left (ids are unique in the table) *)
Lemma lend_get_sub_spec : forall m id d v, NoDup (map fst m) -> lend_get m id = Some v ->
  lend_get (lend_sub m id d) id = if v - d >? 0 then Some (v - d) else None.
Proof.
  induction m as [|[i w] r IH]; intros id d v Hnd H; cbn [lend_sub lend_get map fst] in *; [discriminate|].
  inversion Hnd as [|? ? Hni Hnd']; subst.
  destruct (i =? id) eqn:E.
  - injection H as ->. assert (i = id) by lia. subst i. destruct (v - d >? 0) eqn:E2; cbn [lend_get].
    + rewrite Z.eqb_refl. reflexivity.
    + clear - Hni. induction r as [|[j u] r IH]; cbn [lend_get]; [reflexivity|].
      destruct (j =? id) eqn:Ej.
      * exfalso. apply Hni. left. cbn. lia.
      * apply IH. intro H. apply Hni. right. exact H.
  - cbn [lend_get]. rewrite E. apply IH; assumption.
Qed.

(* any sequence of borrow seizures: one locked vault and one auction per seizure, in order, each
   for exactly the recorded collateral; IsLiquidated set for exactly the seized borrows *)
Lemma handover_borrow_records : forall zs w,
  w_locked (fold_left seize_borrow_world zs w) = w_locked w ++ map (fun z => (z_id z, z_amt_in z)) zs /\
  w_auction (fold_left seize_borrow_world zs w) = w_auction w ++ map (fun z => (z_id z, z_amt_in z)) zs /\
  w_liq (fold_left seize_borrow_world zs w) = w_liq w ++ seized_ids zs.
Proof.
  induction zs as [|z zs IH]; intros w; cbn [fold_left map seized_ids].
  - rewrite !app_nil_r. auto.
  - destruct (IH (seize_borrow_world w z)) as (A & B & C). rewrite A, B, C.
    replace (w_locked (seize_borrow_world w z)) with (w_locked w ++ [(z_id z, z_amt_in z)]) by reflexivity.
    replace (w_auction (seize_borrow_world w z)) with (w_auction w ++ [(z_id z, z_amt_in z)]) by reflexivity.
    replace (w_liq (seize_borrow_world w z)) with (w_liq w ++ [z_id z]) by reflexivity.
    unfold seized_ids. rewrite <- !app_assoc. auto.
Qed.

(* auction custody: over any sequence of seizures the auction module's balance in denom d grows by
   exactly the sum of the recorded collateral of the seized borrows whose collateral is d *)
Definition coll_in (d : Z) (z : bseize) : Z := if z_denom_in z =? d then z_amt_in z else 0.

Lemma handover_borrow_custody : forall zs w d,
  Forall (fun z => z_pool_acc z <> auction_acc /\ z_denom_in z <> z_cdenom z) zs ->
  kget (w_bal (fold_left seize_borrow_world zs w)) (auction_acc, d) =
  kget (w_bal w) (auction_acc, d) + zsum (map (coll_in d) zs).
Proof.
  induction zs as [|z zs IH]; intros w d Hall; cbn [fold_left map zsum]; [lia|].
  inversion Hall as [|? ? (Hacc & Hden) Hall']; subst.
  rewrite IH by exact Hall'.
  destruct (handover_borrow_one w z Hacc Hden) as (_ & A & _ & O & _). cbn zeta in A, O.
  unfold coll_in at 2. destruct (z_denom_in z =? d) eqn:E.
  - assert (z_denom_in z = d) by lia. subst d. rewrite A. lia.
  - rewrite O; [lia| | |]; intro H.
    + assert (H1 : fst (auction_acc, d) = fst (z_pool_acc z, z_denom_in z)) by (rewrite H; reflexivity).
      cbn [fst] in H1. congruence.
    + assert (H1 : snd (auction_acc, d) = snd (auction_acc, z_denom_in z)) by (rewrite H; reflexivity).
      cbn [snd] in H1. lia.
    + assert (H1 : fst (auction_acc, d) = fst (z_pool_acc z, z_cdenom z)) by (rewrite H; reflexivity).
      cbn [fst] in H1. congruence.
Qed.

(* the predicate the runner evaluates accepts exactly the model's book-keeping *)
Lemma kv_eqb_refl a : kv_eqb a a = true.
Proof. unfold kv_eqb. rewrite key_eqb_refl. lia. Qed.
Lemma zz_eqb_refl a : zz_eqb a a = true.
Proof. unfold zz_eqb. lia. Qed.
Lemma list_eqb_refl {A} (eqb : A -> A -> bool) : (forall a, eqb a a = true) -> forall l, list_eqb eqb l l = true.
Proof. intros H. induction l as [|a l IH]; cbn; [reflexivity|]. rewrite H, IH. reflexivity. Qed.
Lemma lworld_eqb_refl w : lworld_eqb w w = true.
Proof.
  unfold lworld_eqb.
  rewrite !(list_eqb_refl kv_eqb kv_eqb_refl), !(list_eqb_refl zz_eqb zz_eqb_refl), (list_eqb_refl Z.eqb Z.eqb_refl).
  reflexivity.
Qed.

Lemma list_eqb_eq {A} (eqb : A -> A -> bool) : (forall a b, eqb a b = true -> a = b) ->
  forall l1 l2, list_eqb eqb l1 l2 = true -> l1 = l2.
Proof.
  intros H. induction l1 as [|a l1 IH]; intros [|b l2] E; cbn in E; try discriminate; [reflexivity|].
  apply andb_prop in E. destruct E as (E1 & E2). f_equal; [apply H; exact E1|apply IH; exact E2].
Qed.
Lemma kv_eqb_eq a b : kv_eqb a b = true -> a = b.
Proof.
  destruct a as [ka va], b as [kb vb]. unfold kv_eqb. cbn [fst snd]. intro H. apply andb_prop in H.
  destruct H as (H1 & H2). apply key_eqb_eq in H1. subst. f_equal. lia.
Qed.
Lemma zz_eqb_eq a b : zz_eqb a b = true -> a = b.
Proof. destruct a, b. unfold zz_eqb. cbn [fst snd]. intro H. f_equal; lia. Qed.

Lemma lworld_eqb_eq a b : lworld_eqb a b = true -> a = b.
Proof.
  unfold lworld_eqb. intro H. repeat (apply andb_prop in H; destruct H as (H & ?)).
  destruct a as [a1 a2 a3 a4 a5 a6 a7 a8 a9], b as [b1 b2 b3 b4 b5 b6 b7 b8 b9].
  cbn [w_bal w_supply w_tlend w_tborrow w_tstable w_lend w_liq w_locked w_auction] in *.
  f_equal; first [apply (list_eqb_eq kv_eqb kv_eqb_eq); assumption
                 |apply (list_eqb_eq zz_eqb zz_eqb_eq); assumption
                 |apply (list_eqb_eq Z.eqb); [intros; lia|assumption]].
Qed.

Lemma handover_external_one : forall w denom amt,
  let w' := ext_world w denom amt in
  kget (w_bal w') (auction_acc, denom) = kget (w_bal w) (auction_acc, denom) + amt /\
  (forall k, k <> (auction_acc, denom) -> kget (w_bal w') k = kget (w_bal w) k) /\
  w_locked w' = w_locked w ++ [(0, amt)] /\ w_auction w' = w_auction w ++ [(0, amt)] /\
  w_liq w' = w_liq w /\ w_lend w' = w_lend w /\ w_tlend w' = w_tlend w /\ w_tborrow w' = w_tborrow w /\
  w_tstable w' = w_tstable w /\ w_supply w' = w_supply w.
Proof.
  intros w denom amt. cbn zeta. unfold ext_world.
  cbn [w_bal w_supply w_tlend w_tborrow w_tstable w_lend w_liq w_locked w_auction].
  repeat split.
  - apply kget_kadd_same.
  - intros k K. apply kget_kadd_other. intro H. apply K. symmetry; exact H.
Qed.

Lemma valid_batch_spec : forall b, valid_batch b = true -> 1 <= b /\ int_of_u64 b = b /\ u64 b = b.
Proof.
  intros b H. unfold valid_batch in H. unfold int_of_u64, u64, two63, two64 in *.
  assert (1 <= b < 9223372036854775808) by lia.
  replace (b >=? 9223372036854775808) with false by lia.
  rewrite Z.mod_small by lia. lia.
Qed.

(* a stored batch size outside the validated range (2^63 .. 2^64-1: int() is negative) sweeps nothing,
   in any block, whatever the list: the reason for the validation bound *)
Lemma invalid_batch_sweeps_nothing : forall b len off, two63 <= b < two64 -> 0 <= len ->
  sweep_window len off (int_of_u64 b) = (len, len).
Proof.
  intros b len off Hb Hl. unfold sweep_window, slice_bounds, int_of_u64, two63, two64 in *.
  replace (b >=? 9223372036854775808) with true by lia.
  replace (b - 18446744073709551616 <? 0) with true by lia.
  rewrite !Bool.orb_true_r. cbn [fst snd]. rewrite Z.eqb_refl. reflexivity.
Qed.

Lemma handover_borrow_holds : forall zs w, holds_C09_handover_borrow w (fold_left seize_borrow_world zs w) zs = true.
Proof. intros. apply lworld_eqb_refl. Qed.

Lemma handover_borrow_spec : forall zs w w', holds_C09_handover_borrow w w' zs = true ->
  w' = fold_left seize_borrow_world zs w.
Proof. intros zs w w' H. symmetry. apply lworld_eqb_eq. exact H. Qed.

(* ------------------------------------------------------------------------------------ *)
(* exact handover (as far as the seizure effects are modelled)                            *)

Lemma zlen_cons {A} (a : A) l : zlen (a :: l) = zlen l + 1.
Proof. unfold zlen. cbn [length]. lia. Qed.

Lemma handover_fold_eq : forall amts c,
  fold_left seize_effect amts c =
  mkCustody (c_vault c - zsum amts) (c_auction c + zsum amts) (c_locked c + zlen amts) (c_auctions c + zlen amts).
Proof.
  induction amts as [|a amts IH]; intros c.
  - cbn. destruct c; cbn. f_equal; lia.
  - cbn [fold_left]. rewrite IH. rewrite zlen_cons. cbn [zsum seize_effect c_vault c_auction c_locked c_auctions].
    f_equal; lia.
Qed.

Lemma handover_fold : forall amts c,
  holds_C09_handover c (fold_left seize_effect amts c) amts = true.
Proof.
  intros amts c. rewrite handover_fold_eq. unfold holds_C09_handover.
  cbn [c_vault c_auction c_locked c_auctions]. lia.
Qed.

(* ------------------------------------------------------------------------------------ *)
(* liveness                                                                               *)

Lemma zlen_nonneg {A} (l : list A) : 0 <= zlen l.
Proof. unfold zlen. lia. Qed.
Lemma zlen_app {A} (l1 l2 : list A) : zlen (l1 ++ l2) = zlen l1 + zlen l2.
Proof. unfold zlen. rewrite app_length. lia. Qed.
Lemma zlen_map {A B} (f : A -> B) l : zlen (map f l) = zlen l.
Proof. unfold zlen. rewrite map_length. reflexivity. Qed.

(* ---- what one block does to the id list ---- *)
Lemma sweep_items_lpos : forall u w, sweep_items GV2 0 (map (lpos u) w) = filter u w.
Proof.
  induction w as [|a w IH]; [reflexivity|].
  cbn [map sweep_items eff_verdict lpos p_v p_id filter]. destruct (u a); rewrite IH; reflexivity.
Qed.

Lemma map_id_after_seize : forall u seized ids,
  map p_id (after_seize GV2 seized (map (lpos u) ids)) = filter (fun id => negb (mem_z id seized)) ids.
Proof.
  intros u seized ids. unfold after_seize. cbn [removes].
  induction ids as [|a ids IH]; [reflexivity|].
  cbn [map filter lpos p_id]. destruct (negb (mem_z a seized)); cbn [map p_id]; rewrite IH; reflexivity.
Qed.

Definition window_of (ids : list Z) (off b : Z) : list Z :=
  let se := sweep_window (zlen ids) off b in
  firstn (Z.to_nat (snd se - fst se)) (skipn (Z.to_nat (fst se)) ids).

Lemma block_ids_eq : forall ids off b u,
  block_ids ids off b u =
    (filter u (window_of ids off b),
     filter (fun id => negb (mem_z id (filter u (window_of ids off b)))) ids,
     snd (sweep_window (zlen ids) off b)).
Proof.
  intros ids off b u. unfold block_ids, sweep_core, window_of.
  destruct (sweep_window_ok_lem (zlen ids) off b (zlen_nonneg ids)) as ((H1 & H2) & H3).
  set (se := sweep_window (zlen ids) off b) in *.
  unfold go_slice.
  replace ((0 <=? fst se) && (fst se <=? snd se) && (snd se <=? zlen ids)) with true by lia.
  rewrite zlen_map. replace (zlen ids - zlen ids) with 0 by lia. cbn [Z.to_nat repeat].
  rewrite app_nil_r. rewrite skipn_map. rewrite firstn_map.
  rewrite sweep_items_lpos. rewrite map_id_after_seize. reflexivity.
Qed.

(* ---- indices ---- *)
Lemma idxn_lt : forall x l, In x l -> (idxn x l < length l)%nat.
Proof.
  induction l as [|a l IH]; intros H; [contradiction|]. cbn [idxn length].
  destruct (a =? x) eqn:E; [lia|]. destruct H as [H|H]; [lia|]. specialize (IH H). lia.
Qed.

Lemma idx_bounds : forall x l, In x l -> 0 <= idx x l < zlen l.
Proof. intros x l H. unfold idx, zlen. pose proof (idxn_lt x l H). lia. Qed.

Lemma idxn_app_l : forall x l1 l2, In x l1 -> idxn x (l1 ++ l2) = idxn x l1.
Proof.
  induction l1 as [|a l1 IH]; intros l2 H; [contradiction|]. cbn [app idxn].
  destruct (a =? x) eqn:E; [reflexivity|]. destruct H as [H|H]; [lia|]. rewrite IH; auto.
Qed.

Lemma idxn_in_window : forall x l (s k : nat), In x l -> (s <= idxn x l < s + k)%nat ->
  In x (firstn k (skipn s l)).
Proof.
  induction l as [|a l IH]; intros s k H Hr; [contradiction|]. cbn [idxn] in Hr.
  destruct (a =? x) eqn:E.
  - assert (s = O) by lia. subst s. cbn [skipn]. destruct k; [lia|]. cbn [firstn]. left. lia.
  - destruct H as [H|H]; [lia|].
    destruct s.
    + cbn [skipn]. destruct k; [lia|]. cbn [firstn]. right.
      apply (IH O k H). cbn [skipn]. lia.
    + cbn [skipn]. apply IH; [exact H|lia].
Qed.

Lemma in_window_of : forall x ids off b, In x ids ->
  fst (sweep_window (zlen ids) off b) <= idx x ids < snd (sweep_window (zlen ids) off b) ->
  In x (window_of ids off b).
Proof.
  intros x ids off b H Hr. unfold window_of.
  destruct (sweep_window_ok_lem (zlen ids) off b (zlen_nonneg ids)) as ((H1 & H2) & H3).
  apply idxn_in_window; [exact H|]. unfold idx in Hr. lia.
Qed.

Lemma mem_z_in : forall x l, mem_z x l = true <-> In x l.
Proof.
  intros x l. unfold mem_z. rewrite existsb_exists. split.
  - intros (y & Hy & E). assert (x = y) by lia. subst. exact Hy.
  - intros H. exists x. split; [exact H|lia].
Qed.

Lemma filter_all {A} (f : A -> bool) l : (forall x, In x l -> f x = true) -> filter f l = l.
Proof.
  induction l as [|a l IH]; intros H; [reflexivity|]. cbn [filter].
  rewrite (H a (or_introl eq_refl)). f_equal. apply IH. intros x Hx. apply H. right; exact Hx.
Qed.

Lemma zlen_filter_le {A} (f : A -> bool) l : zlen (filter f l) <= zlen l.
Proof. induction l as [|a l IH]; [unfold zlen; cbn; lia|]. cbn [filter]. destruct (f a); rewrite !zlen_cons; lia. Qed.

Lemma zlen_filter_lt {A} (f : A -> bool) l y : In y l -> f y = false -> zlen (filter f l) <= zlen l - 1.
Proof.
  induction l as [|a l IH]; intros H Hf; [contradiction|]. cbn [filter]. destruct H as [<-|H].
  - rewrite Hf. rewrite zlen_cons. pose proof (zlen_filter_le f l). lia.
  - specialize (IH H Hf). destruct (f a); rewrite !zlen_cons; lia.
Qed.

(* ---- arithmetic of the potential ---- *)
Lemma div_sub_b a b : 0 < b -> (a - b) / b = a / b - 1.
Proof. intros Hb. replace (a - b) with (a + (-1) * b) by lia. rewrite Z.div_add by lia. lia. Qed.

Lemma div_succ_le a b : 0 < b -> (a + 1) / b <= a / b + 1.
Proof.
  intros Hb. replace (a / b + 1) with ((a + 1 * b) / b) by (rewrite Z.div_add by lia; lia).
  apply Z.div_le_mono; lia.
Qed.

Lemma live_R_mono m m' b : 0 < b -> m' <= m -> live_R m' b <= live_R m b.
Proof. intros Hb H. unfold live_R. pose proof (Z.div_le_mono (m' - 1) (m - 1) b Hb). lia. Qed.

Lemma live_R_pos m b : 0 < b -> 1 <= m -> 2 <= live_R m b.
Proof. intros Hb H. unfold live_R. pose proof (Z.div_pos (m - 1) b). lia. Qed.

(* Claim A: 0 <= T <= R(n) - 1 for a position inside the list *)
Lemma pot_T_bounds n i off b : 0 < b -> 0 <= i < n -> 0 <= off ->
  0 <= pot_T n i off b <= live_R n b - 1.
Proof.
  intros Hb Hi Ho. unfold pot_T, live_R.
  destruct (off <? n) eqn:E1; [destruct (off <=? i) eqn:E2|].
  - pose proof (Z.div_pos (i - off) b). pose proof (Z.div_le_mono (i - off) (n - 1) b Hb). lia.
  - pose proof (Z.div_pos (n - off + i) b). pose proof (Z.div_le_mono (n - off + i) (n - 1) b Hb). lia.
  - pose proof (Z.div_pos i b). pose proof (Z.div_le_mono i (n - 1) b Hb). lia.
Qed.

(* Claim B: a block that seizes nothing and does not contain index i brings the offset closer *)
Lemma pot_T_quiet n i off b : 0 < b -> 0 <= i < n -> 0 <= off ->
  ~ (fst (sweep_window n off b) <= i < snd (sweep_window n off b)) ->
  pot_T n i (snd (sweep_window n off b)) b <= pot_T n i off b - 1.
Proof.
  intros Hb Hi Ho Hnot. rewrite sweep_window_eq in * by lia. unfold pot_T.
  destruct (off <? n) eqn:E1; cbn [fst snd] in *.
  - destruct (off <=? i) eqn:E2.
    + (* i beyond the window: the window is full *)
      assert (Z.min (off + b) n = off + b) by lia. rewrite H in *.
      replace (off + b <? n) with true by lia. replace (off + b <=? i) with true by lia.
      replace (i - (off + b)) with (i - off - b) by lia. rewrite div_sub_b by lia. lia.
    + destruct (Z.min (off + b) n <? n) eqn:E3.
      * assert (Z.min (off + b) n = off + b) by lia. rewrite H in *.
        replace (off + b <=? i) with false by lia.
        replace (n - (off + b) + i) with (n - off + i - b) by lia. rewrite div_sub_b by lia. lia.
      * pose proof (Z.div_le_mono i (n - off + i) b Hb). lia.
  - replace (0 <? n) with true in * by lia. cbn [fst snd] in *.
    assert (Z.min b n = b) by lia. rewrite H in *.
    replace (b <? n) with true by lia. replace (b <=? i) with true by lia.
    rewrite div_sub_b by lia. lia.
Qed.

(* Claim D: appending one position costs at most 2 *)
Lemma pot_T_create n i off b : 0 < b -> 0 <= i < n -> 0 <= off ->
  pot_T (n + 1) i off b <= pot_T n i off b + 2.
Proof.
  intros Hb Hi Ho. unfold pot_T.
  destruct (off <? n) eqn:E1.
  - replace (off <? n + 1) with true by lia. destruct (off <=? i); [lia|].
    replace (n + 1 - off + i) with (n - off + i + 1) by lia.
    pose proof (div_succ_le (n - off + i) b Hb). lia.
  - destruct (off <? n + 1) eqn:E2; [|lia].
    replace (off <=? i) with false by lia. assert (off = n) by lia. subst off.
    replace (n + 1 - n + i) with (i + 1) by lia. pose proof (div_succ_le i b Hb). lia.
Qed.

(* Claim C: any step that shrinks the list (x staying inside) pays for a whole new round *)
Lemma pot_shrink b x ids off ids' off' c : 0 < b -> 0 <= c ->
  In x ids -> In x ids' -> 0 <= off' -> zlen ids' <= zlen ids - 1 ->
  pot b x (ids', off') c <= pot b x (ids, off) c - 1.
Proof.
  intros Hb Hc Hx Hx' Ho' Hlen. unfold pot. cbn [fst snd].
  pose proof (idx_bounds x ids Hx) as Hi. pose proof (idx_bounds x ids' Hx') as Hi'.
  set (n := zlen ids) in *. set (n' := zlen ids') in *.
  pose proof (pot_T_bounds n' (idx x ids') off' b Hb Hi' Ho') as HT'.
  assert (HT : 0 <= pot_T n (idx x ids) off b).
  { unfold pot_T. destruct (off <? n) eqn:E0; [destruct (off <=? idx x ids) eqn:E|].
    - apply Z.div_pos; lia.
    - pose proof (Z.div_pos (n - off + idx x ids) b). lia.
    - apply Z.div_pos; lia. }
  pose proof (live_R_mono (n' + c) n' b Hb ltac:(lia)) as M1.
  pose proof (live_R_mono (n + c) (n' + c) b Hb ltac:(lia)) as M2.
  pose proof (live_R_pos (n' + c) b Hb ltac:(lia)) as P1.
  set (R' := live_R (n' + c) b) in *. set (R := live_R (n + c) b) in *.
  assert ((n' + c) * R' <= (n + c - 1) * R) by nia.
  lia.
Qed.

(* ---- the schedule ---- *)
Definition ev_ok (x : Z) (st : list Z * Z) (e : event) : Prop :=
  match e with
  | EBlock u => u x = true
  | EClose id => id <> x
  | ECreate id => ~ In id (fst st) /\ id <> x
  end.

Fixpoint run_ok (b x : Z) (st : list Z * Z) (evs : list event) : Prop :=
  match evs with
  | [] => True
  | e :: r => ev_ok x st e /\ run_ok b x (ev_step b st e) r
  end.

Definition st_inv (st : list Z * Z) : Prop := NoDup (fst st) /\ 0 <= snd st.

Lemma nodup_filter {A} (f : A -> bool) l : NoDup l -> NoDup (filter f l).
Proof. apply NoDup_filter. Qed.

Lemma nodup_snoc {A} (l : list A) a : NoDup l -> ~ In a l -> NoDup (l ++ [a]).
Proof.
  induction l as [|y l IH]; intros Hnd Hni; cbn [app].
  - constructor; [intros []|constructor].
  - inversion Hnd as [|z l' Hy Hnd']; subst. constructor.
    + intros Hin. apply in_app_or in Hin. destruct Hin as [Hin|[<-|[]]]; [exact (Hy Hin)|]. apply Hni. left; reflexivity.
    + apply IH; [exact Hnd'|]. intros Hin. apply Hni. right; exact Hin.
Qed.

Lemma ev_step_inv b st e x : 0 < b -> st_inv st -> ev_ok x st e -> st_inv (ev_step b st e).
Proof.
  intros Hb (Hnd & Ho) Hok. destruct st as [ids off]. cbn [fst snd] in *. destruct e as [u|id|id]; unfold st_inv; cbn [ev_step fst snd].
  - rewrite block_ids_eq. cbn [fst snd]. split; [apply nodup_filter; exact Hnd|].
    pose proof (sweep_window_ok_lem (zlen ids) off b (zlen_nonneg ids)). lia.
  - split; [apply nodup_filter; exact Hnd|exact Ho].
  - split; [|exact Ho]. destruct Hok as (Hni & _).
    apply nodup_snoc; auto.
Qed.

(* x can only leave the list, never come back *)
Lemma ev_step_in_back b st e x : ev_ok x st e -> In x (fst (ev_step b st e)) -> In x (fst st).
Proof.
  intros Hok Hin. destruct st as [ids off]. destruct e as [u|id|id]; cbn [ev_step fst snd] in *.
  - rewrite block_ids_eq in Hin. cbn [fst snd] in Hin. apply filter_In in Hin. tauto.
  - apply filter_In in Hin. tauto.
  - apply in_app_or in Hin. destruct Hin as [H|[H|[]]]; [exact H|]. destruct Hok as (_ & Hne). congruence.
Qed.

(* the step lemma: the potential pays for every block x survives, and no user step raises it *)
Lemma pot_step b st e x c : 0 < b -> st_inv st -> ev_ok x st e -> is_create e <= c ->
  In x (fst (ev_step b st e)) ->
  pot b x (ev_step b st e) (c - is_create e) + is_block e <= pot b x st c.
Proof.
  intros Hb (Hnd & Ho) Hok Hc Hin.
  pose proof (ev_step_in_back b st e x Hok Hin) as Hx.
  destruct st as [ids off]. cbn [fst snd] in *.
  pose proof (idx_bounds x ids Hx) as Hi.
  destruct e as [u|id|id]; cbn [is_create is_block] in *.
  - (* a block *)
    cbn [ev_step fst snd] in *. rewrite block_ids_eq in *. cbn [fst snd] in *.
    replace (c - 0) with c by lia.
    set (se := sweep_window (zlen ids) off b) in *.
    set (seized := filter u (window_of ids off b)) in *.
    pose proof (sweep_window_ok_lem (zlen ids) off b (zlen_nonneg ids)) as Hw. fold se in Hw.
    (* x is not in the window, else it would have been seized *)
    assert (Hnw : ~ (fst se <= idx x ids < snd se)).
    { intros Hr. apply filter_In in Hin. destruct Hin as (_ & Hm).
      assert (In x seized). { unfold seized. apply filter_In. split; [apply in_window_of; assumption|exact Hok]. }
      apply mem_z_in in H. rewrite H in Hm. discriminate. }
    destruct seized as [|y ys] eqn:Es.
    + (* nothing seized: the list is unchanged *)
      rewrite filter_all by (intros; reflexivity).
      unfold pot. cbn [fst snd].
      pose proof (pot_T_quiet (zlen ids) (idx x ids) off b Hb Hi Ho Hnw). fold se in H. lia.
    + (* something seized: the list shrinks *)
      assert (Hy : In y (window_of ids off b) /\ u y = true).
      { apply filter_In. unfold seized in Es. rewrite Es. left; reflexivity. }
      assert (Hyi : In y ids). { unfold window_of in Hy. destruct Hy as (Hy & _). apply in_firstn in Hy. apply in_skipn in Hy. exact Hy. }
      assert (Hfy : (fun id : Z => negb (mem_z id (y :: ys))) y = false).
      { cbn beta. unfold mem_z. cbn [existsb]. rewrite Z.eqb_refl. reflexivity. }
      pose proof (pot_shrink b x ids off _ (snd se) c Hb ltac:(lia) Hx Hin ltac:(lia)
                   (zlen_filter_lt (fun id : Z => negb (mem_z id (y :: ys))) ids y Hyi Hfy)).
      lia.
  - (* close of another position *)
    cbn [ev_step fst snd] in *. replace (c - 0) with c by lia.
    destruct (in_dec Z.eq_dec id ids) as [Hid|Hid].
    + assert (Hfy : (fun x0 : Z => negb (x0 =? id)) id = false) by (cbn beta; rewrite Z.eqb_refl; reflexivity).
      pose proof (pot_shrink b x ids off _ off c Hb ltac:(lia) Hx Hin Ho
                   (zlen_filter_lt (fun x0 : Z => negb (x0 =? id)) ids id Hid Hfy)). lia.
    + rewrite filter_all; [lia|]. intros y Hy. destruct (y =? id) eqn:E; [|reflexivity].
      exfalso. apply Hid. assert (y = id) by lia. subst; exact Hy.
  - (* creation: appended *)
    cbn [ev_step fst snd] in *. unfold pot. cbn [fst snd].
    rewrite zlen_app. replace (zlen [id]) with 1 by reflexivity.
    unfold idx. rewrite idxn_app_l by exact Hx. fold (idx x ids).
    replace (zlen ids + 1 + (c - 1)) with (zlen ids + c) by lia.
    pose proof (pot_T_create (zlen ids) (idx x ids) off b Hb Hi Ho). lia.
Qed.

Lemma pot_nonneg b x st c : 0 < b -> 0 <= c -> In x (fst st) -> 0 <= snd st -> 0 <= pot b x st c.
Proof.
  intros Hb Hc Hx Ho. unfold pot. pose proof (idx_bounds x _ Hx) as Hi.
  pose proof (pot_T_bounds _ _ _ b Hb Hi Ho).
  pose proof (live_R_pos (zlen (fst st) + c) b Hb ltac:(lia)). nia.
Qed.

Lemma n_blocks_cons e r : n_blocks (e :: r) = is_block e + n_blocks r.
Proof. reflexivity. Qed.
Lemma n_creates_cons e r : n_creates (e :: r) = is_create e + n_creates r.
Proof. reflexivity. Qed.
Lemma is_create_nonneg e : 0 <= is_create e. Proof. destruct e; cbn; lia. Qed.
Lemma n_creates_nonneg evs : 0 <= n_creates evs.
Proof. induction evs as [|e r IH]; [cbn; lia|]. rewrite n_creates_cons. pose proof (is_create_nonneg e). lia. Qed.

(* main induction: while x is still in the list, the number of blocks run is at most the potential *)
Lemma live_main b x : 0 < b -> forall evs st c,
  st_inv st -> run_ok b x st evs -> n_creates evs <= c ->
  In x (fst (fold_left (ev_step b) evs st)) ->
  In x (fst st) /\ n_blocks evs <= pot b x st c.
Proof.
  intros Hb. induction evs as [|e r IH]; intros st c Hinv Hok Hc Hin.
  - cbn [fold_left] in Hin. split; [exact Hin|]. destruct Hinv as (_ & Ho).
    replace (n_blocks []) with 0 by reflexivity. replace (n_creates []) with 0 in Hc by reflexivity.
    apply pot_nonneg; auto.
  - cbn [fold_left] in Hin. destruct Hok as (Hok1 & Hok2). rewrite n_creates_cons in Hc.
    pose proof (is_create_nonneg e). pose proof (n_creates_nonneg r).
    destruct (IH (ev_step b st e) (c - is_create e) (ev_step_inv b st e x Hb Hinv Hok1) Hok2 ltac:(lia) Hin) as (Hx' & Hle).
    split; [exact (ev_step_in_back b st e x Hok1 Hx')|].
    pose proof (pot_step b st e x c Hb Hinv Hok1 ltac:(lia) Hx'). rewrite n_blocks_cons. lia.
Qed.

Lemma pot_le_bound b x ids off c : 0 < b -> 0 <= c -> In x ids -> 0 <= off ->
  pot b x (ids, off) c <= live_bound (zlen ids + c) c b - 1.
Proof.
  intros Hb Hc Hx Ho. unfold pot, live_bound. cbn [fst snd].
  pose proof (idx_bounds x ids Hx) as Hi.
  pose proof (pot_T_bounds _ _ _ b Hb Hi Ho).
  pose proof (live_R_mono (zlen ids + c) (zlen ids) b Hb ltac:(lia)). lia.
Qed.

(* liveness, interleaved: creations (appended, fresh ids) and closes / seizures of OTHER positions
   between the blocks, any verdicts for the others in every block (every price path); x unsafe
   in every block.  After live_bound blocks x has left the list. *)
Theorem live_interleaved : forall b x ids off evs c,
  1 <= b -> 0 <= off -> NoDup ids -> In x ids ->
  run_ok b x (ids, off) evs -> n_creates evs <= c ->
  live_bound (zlen ids + c) c b <= n_blocks evs ->
  ~ In x (fst (fold_left (ev_step b) evs (ids, off))).
Proof.
  intros b x ids off evs c Hb Ho Hnd Hx Hok Hc Hn Hin.
  destruct (live_main b x ltac:(lia) evs (ids, off) c (conj Hnd Ho) Hok Hc Hin) as (_ & Hle).
  pose proof (n_creates_nonneg evs).
  pose proof (pot_le_bound b x ids off c ltac:(lia) ltac:(lia) Hx Ho). lia.
Qed.

(* quiet case: only blocks *)
Definition blocks_of (us : list (Z -> bool)) : list event := map EBlock us.

Lemma n_blocks_blocks_of us : n_blocks (blocks_of us) = zlen us.
Proof. induction us as [|u us IH]; [reflexivity|]. unfold blocks_of in *. cbn [map]. rewrite n_blocks_cons, IH, zlen_cons. cbn [is_block]. lia. Qed.
Lemma n_creates_blocks_of us : n_creates (blocks_of us) = 0.
Proof. induction us as [|u us IH]; [reflexivity|]. unfold blocks_of in *. cbn [map]. rewrite n_creates_cons, IH. reflexivity. Qed.
Lemma run_ok_blocks_of b x us : Forall (fun u => u x = true) us -> forall st, run_ok b x st (blocks_of us).
Proof. induction 1 as [|u us Hu _ IH]; intros st; cbn; [exact I|]. split; [exact Hu|apply IH]. Qed.

Theorem live_quiet : forall b x ids off us,
  1 <= b -> 0 <= off -> NoDup ids -> In x ids ->
  Forall (fun u => u x = true) us ->
  live_bound (zlen ids) 0 b <= zlen us ->
  ~ In x (fst (fold_left (ev_step b) (blocks_of us) (ids, off))).
Proof.
  intros b x ids off us Hb Ho Hnd Hx Hu Hn.
  apply (live_interleaved b x ids off (blocks_of us) 0 Hb Ho Hnd Hx (run_ok_blocks_of b x us Hu _)).
  - rewrite n_creates_blocks_of. lia.
  - rewrite n_blocks_blocks_of. replace (zlen ids + 0) with (zlen ids) by lia. exact Hn.
Qed.

(* the block of the schedule IS the keepers' sweep (V2 LiquidateVaults; V1 the sweep of one app over
   that app's positions) with counter = capacity = length, as long as the length fits an int64 *)
Lemma sweep_items_lpos_v1 : forall u w, sweep_items GV1 0 (map (lpos u) w) = filter u w.
Proof.
  induction w as [|a w IH]; [reflexivity|].
  cbn [map sweep_items eff_verdict lpos p_v p_id p_app filter]. rewrite Z.eqb_refl.
  destruct (u a); rewrite IH; reflexivity.
Qed.

Lemma sweep_core_lpos : forall g ids off b u, (g = GV1 \/ g = GV2) ->
  sweep_core g 0 (map (lpos u) ids) (zlen ids) (zlen ids) off b =
    Ok (filter u (window_of ids off b),
        after_seize g (filter u (window_of ids off b)) (map (lpos u) ids),
        snd (sweep_window (zlen ids) off b)).
Proof.
  intros g ids off b u Hg. unfold sweep_core, window_of.
  destruct (sweep_window_ok_lem (zlen ids) off b (zlen_nonneg ids)) as ((H1 & H2) & H3).
  set (se := sweep_window (zlen ids) off b) in *.
  unfold go_slice.
  replace ((0 <=? fst se) && (fst se <=? snd se) && (snd se <=? zlen ids)) with true by lia.
  rewrite zlen_map. replace (zlen ids - zlen ids) with 0 by lia. cbn [Z.to_nat repeat].
  rewrite app_nil_r, skipn_map, firstn_map.
  destruct Hg as [-> | ->]; [rewrite sweep_items_lpos_v1|rewrite sweep_items_lpos]; reflexivity.
Qed.

Lemma block_is_sweep_one : forall g ids off b u, (g = GV1 \/ g = GV2) -> zlen ids < two63 ->
  exists r, sweep_one g 0 (map (lpos u) ids) (zlen ids) (zlen ids) off b = Ok r /\
            block_ids ids off b u = (r_seized r, map p_id (r_list r), r_off r).
Proof.
  intros g ids off b u Hg Hlt.
  assert (Hint : int_of_u64 (zlen ids) = zlen ids).
  { unfold int_of_u64. pose proof (zlen_nonneg ids). replace (zlen ids >=? two63) with false by lia. reflexivity. }
  unfold sweep_one. rewrite Hint, (sweep_core_lpos g ids off b u Hg).
  eexists. split; [reflexivity|]. cbn [r_seized r_list r_off].
  rewrite block_ids_eq. f_equal. f_equal.
  assert (after_seize g (filter u (window_of ids off b)) (map (lpos u) ids) =
          after_seize GV2 (filter u (window_of ids off b)) (map (lpos u) ids)) as ->
    by (destruct Hg as [-> | ->]; reflexivity).
  rewrite map_id_after_seize. reflexivity.
Qed.

(* ---- refutations ---- *)

(* the literal bound of the property, "two full sweeps of the list", is false even with constant
   verdicts: 9 positions, batch 1, positions 5..8 unsafe: position 8 is still open after 18 blocks *)
Lemma two_sweeps_refuted_static :
  let ids := [0;1;2;3;4;5;6;7;8] in
  let u := pattern 480 in
  u 8 = true /\ two_sweeps 9 1 = 18 /\
  In 8 (fst (fold_left (ev_step 1) (blocks_of (repeat u 18)) (ids, 0))) /\
  ~ In 8 (fst (fold_left (ev_step 1) (blocks_of (repeat u 19)) (ids, 0))).
Proof. vm_compute. repeat split; try tauto. intros [H|[H|[H|[H|[H|[]]]]]]; discriminate. Qed.

(* falling market: 6 positions, batch 1; position 5 unsafe from the start, the others become
   unsafe one by one just when the window reaches them: still open after 15 blocks > 12 *)
Definition below (k : Z) : Z -> bool := fun id => k <=? id.
Definition falling_schedule : list (Z -> bool) :=
  repeat (below 5) 4 ++ repeat (below 4) 4 ++ repeat (below 3) 3 ++ repeat (below 2) 2 ++ [below 1; below 0; below 0].

Lemma two_sweeps_refuted_falling :
  Forall (fun u => u 5 = true) falling_schedule /\ two_sweeps 6 1 = 12 /\
  In 5 (fst (fold_left (ev_step 1) (blocks_of (firstn 15 falling_schedule)) ([0;1;2;3;4;5], 0))) /\
  ~ In 5 (fst (fold_left (ev_step 1) (blocks_of falling_schedule) ([0;1;2;3;4;5], 0))).
Proof.
  split; [repeat constructor|]. vm_compute. repeat split; auto; try (intros H; intuition discriminate).
Qed.

(* ------------------------------------------------------------------------------------ *)
(* liquidationsV2 after the repairs C09-F2 (own offset key) and C09-F3 (per-item wrap)    *)

Definition is_seize (v : verdict) : bool := match v with VSeize => true | _ => false end.
Definition bseizes (vf : Z -> verdict) (liq : list Z) (id : Z) : bool :=
  negb (mem_z id liq) && is_seize (vf id).

(* the wrapped loop visits EVERY item of the window, whatever the verdicts of the others *)
Lemma sweep_items_bpos : forall vf liq w,
  sweep_items GB2 0 (map (bpos vf liq) w) = filter (bseizes vf liq) w.
Proof.
  induction w as [|a w IH]; [reflexivity|].
  cbn [map sweep_items eff_verdict bpos p_v p_id filter]. unfold bseizes at 1.
  destruct (mem_z a liq); cbn [negb andb]; [exact IH|].
  destruct (vf a); cbn [is_seize]; rewrite IH; reflexivity.
Qed.

Lemma mem_z_app : forall x l1 l2, mem_z x (l1 ++ l2) = mem_z x l1 || mem_z x l2.
Proof. intros. unfold mem_z. apply existsb_app. Qed.

Lemma after_seize_bpos : forall vf liq sz ids,
  after_seize GB2 sz (map (bpos vf liq) ids) = map (bpos vf (liq ++ sz)) ids.
Proof.
  intros vf liq sz ids. unfold after_seize. cbn [removes]. rewrite map_map. apply map_ext. intro a.
  unfold bpos. cbn [p_id p_app]. rewrite mem_z_app.
  destruct (mem_z a sz); [rewrite orb_true_r; reflexivity|rewrite orb_false_r; reflexivity].
Qed.

Lemma sweep_core_bpos : forall ids liq off b vf,
  sweep_core GB2 0 (map (bpos vf liq) ids) (zlen ids) (zlen ids) off b =
    Ok (filter (bseizes vf liq) (window_of ids off b),
        map (bpos vf (liq ++ filter (bseizes vf liq) (window_of ids off b))) ids,
        snd (sweep_window (zlen ids) off b)).
Proof.
  intros ids liq off b vf. unfold sweep_core, window_of.
  destruct (sweep_window_ok_lem (zlen ids) off b (zlen_nonneg ids)) as ((H1 & H2) & H3).
  set (se := sweep_window (zlen ids) off b) in *.
  unfold go_slice.
  replace ((0 <=? fst se) && (fst se <=? snd se) && (snd se <=? zlen ids)) with true by lia.
  rewrite zlen_map. replace (zlen ids - zlen ids) with 0 by lia. cbn [Z.to_nat repeat].
  rewrite app_nil_r, skipn_map, firstn_map, sweep_items_bpos, after_seize_bpos. reflexivity.
Qed.

Lemma bblock_ids_eq : forall ids liq off b vf,
  bblock_ids ids liq off b vf =
    (filter (bseizes vf liq) (window_of ids off b), snd (sweep_window (zlen ids) off b)).
Proof. intros. unfold bblock_ids. rewrite sweep_core_bpos. reflexivity. Qed.

Lemma int_of_u64_zlen {A} (l : list A) : zlen l < two63 -> int_of_u64 (zlen l) = zlen l.
Proof. intro H. unfold int_of_u64. pose proof (zlen_nonneg l). replace (zlen l >=? two63) with false by lia. reflexivity. Qed.

(* the block of the borrow schedule IS the keepers' V2 borrow sweep (list sliced by its own
   length); afterwards the list holds the same ids, the seized ones marked liquidated *)
Lemma bblock_is_sweep_one : forall ids liq off b vf, zlen ids < two63 ->
  exists r, sweep_one GB2 0 (map (bpos vf liq) ids) (zlen ids) (zlen ids) off b = Ok r /\
            bblock_ids ids liq off b vf = (r_seized r, r_off r) /\
            r_list r = map (bpos vf (liq ++ r_seized r)) ids.
Proof.
  intros ids liq off b vf Hlt. unfold sweep_one. rewrite (int_of_u64_zlen ids Hlt), sweep_core_bpos.
  eexists. split; [reflexivity|]. cbn [r_seized r_off r_list]. split; [apply bblock_ids_eq|reflexivity].
Qed.

(* ---- the V2 hook: vault sweep under key 0, borrow sweep under key 1, independent ---- *)

(* the borrow sweep of the hook never fails and never panics, whatever the borrows' verdicts *)
Lemma sweep_one_borrow_total : forall l off b, zlen l < two63 ->
  exists r, sweep_one GB2 0 l (zlen l) (zlen l) off b = Ok r /\
            r_off r = snd (sweep_window (zlen l) off b) /\ map p_id (r_list r) = map p_id l.
Proof.
  intros l off b Hlt. unfold sweep_one. rewrite (int_of_u64_zlen l Hlt). unfold sweep_core.
  destruct (sweep_window_ok_lem (zlen l) off b (zlen_nonneg l)) as ((H1 & H2) & H3).
  set (se := sweep_window (zlen l) off b) in *.
  unfold go_slice.
  replace ((0 <=? fst se) && (fst se <=? snd se) && (snd se <=? zlen l)) with true by lia.
  eexists. split; [reflexivity|]. cbn [r_off r_list]. split; [reflexivity|].
  unfold after_seize. cbn [removes]. rewrite map_map. apply map_ext. intro p.
  destruct (mem_z (p_id p) _); reflexivity.
Qed.

(* the vault half of the V2 hook is the block of the vault schedule, whatever the borrows and the
   borrow offset are: the liveness theorems for the single-offset sweep apply to liquidationsV2 *)
Lemma v2_hook_vault_block : forall ids off0 b u bl off1, zlen ids < two63 -> zlen bl < two63 ->
  exists sb st', sweep_v2 (fun n => n) b (mkV2 (map (lpos u) ids) (zlen ids) off0 bl off1) =
                   Ok (fst (fst (block_ids ids off0 b u)), sb, st') /\
    map p_id (t_list st') = snd (fst (block_ids ids off0 b u)) /\
    t_off0 st' = snd (block_ids ids off0 b u) /\
    map p_id (t_borrows st') = map p_id bl /\ t_off1 st' = snd (sweep_window (zlen bl) off1 b).
Proof.
  intros ids off0 b u bl off1 Hi Hb.
  destruct (block_is_sweep_one GV2 ids off0 b u (or_intror eq_refl) Hi) as (r1 & E1 & B1).
  destruct (sweep_one_borrow_total bl off1 b Hb) as (r2 & E2 & O2 & L2).
  unfold sweep_v2. cbn [t_list t_counter t_off0 t_borrows t_off1]. rewrite zlen_map, E1, E2.
  eexists. eexists. split; [rewrite B1; reflexivity|]. cbn [t_list t_off0 t_borrows t_off1].
  rewrite B1. cbn [fst snd]. repeat split; assumption.
Qed.

(* the borrow half of the V2 hook is the block of the borrow schedule, whatever the vault sweep
   seizes (as long as the vault sweep itself returns: C15's slice classes) *)
Lemma v2_hook_borrow_block : forall capf vl counter off0 b r1 ids liq off1 vf, zlen ids < two63 ->
  sweep_one GV2 0 vl (capf (zlen vl)) counter off0 b = Ok r1 ->
  exists st', sweep_v2 capf b (mkV2 vl counter off0 (map (bpos vf liq) ids) off1) =
                Ok (r_seized r1, fst (bblock_ids ids liq off1 b vf), st') /\
    t_borrows st' = map (bpos vf (liq ++ fst (bblock_ids ids liq off1 b vf))) ids /\
    t_off1 st' = snd (bblock_ids ids liq off1 b vf) /\
    t_list st' = r_list r1 /\ t_off0 st' = r_off r1.
Proof.
  intros capf vl counter off0 b r1 ids liq off1 vf Hi E1.
  destruct (bblock_is_sweep_one ids liq off1 b vf Hi) as (r2 & E2 & B2 & L2).
  unfold sweep_v2. cbn [t_list t_counter t_off0 t_borrows t_off1]. rewrite E1, zlen_map, E2.
  eexists. split; [rewrite B2; reflexivity|]. cbn [t_list t_off0 t_borrows t_off1].
  rewrite B2. cbn [fst snd]. repeat split; try reflexivity. exact L2.
Qed.

(* ---- liveness of the V2 borrow sweep ---- *)
Definition bst (st : bstate) : list Z * Z := (bs_ids st, bs_off st).

(* ---- insertion of a new borrow anywhere in the list ---- *)
Lemma insert_at_in k id ids x : In x (insert_at k id ids) <-> x = id \/ In x ids.
Proof.
  unfold insert_at. split; intro H.
  - apply in_app_or in H. destruct H as [H|[H|H]].
    + right. eapply in_firstn; exact H.
    + left. symmetry; exact H.
    + right. eapply in_skipn; exact H.
  - destruct H as [->|H].
    + apply in_or_app. right. left. reflexivity.
    + rewrite <- (firstn_skipn k ids) in H. apply in_app_or in H. apply in_or_app.
      destruct H as [H|H]; [left; exact H|right; right; exact H].
Qed.

Lemma zlen_insert_at k id ids : zlen (insert_at k id ids) = zlen ids + 1.
Proof.
  unfold insert_at, zlen. rewrite app_length. cbn [length].
  pose proof (f_equal (@length Z) (firstn_skipn k ids)) as H. rewrite app_length in H. lia.
Qed.

Lemma nodup_insert_at k id ids : NoDup ids -> ~ In id ids -> NoDup (insert_at k id ids).
Proof.
  intros Hnd Hni. unfold insert_at.
  apply (Permutation_NoDup (Permutation_middle (firstn k ids) (skipn k ids) id)).
  rewrite firstn_skipn. constructor; assumption.
Qed.

Lemma insert_at_cons k id a r : insert_at (S k) id (a :: r) = a :: insert_at k id r.
Proof. reflexivity. Qed.

Lemma idxn_insert_at : forall k ids id x, x <> id -> In x ids ->
  idxn x (insert_at k id ids) = idxn x ids \/ idxn x (insert_at k id ids) = S (idxn x ids).
Proof.
  induction k as [|k IH]; intros ids id x Hne Hx.
  - right. unfold insert_at. cbn [firstn skipn app idxn].
    destruct (id =? x) eqn:E; [exfalso; apply Hne; lia|reflexivity].
  - destruct ids as [|a r]; [contradiction|]. rewrite insert_at_cons. cbn [idxn].
    destruct (a =? x) eqn:E; [left; reflexivity|].
    destruct Hx as [Hx|Hx]; [exfalso; lia|].
    destruct (IH r id x Hne Hx) as [H|H]; rewrite H; [left|right]; reflexivity.
Qed.

Lemma div_add_le a d b : 0 < b -> 0 <= d -> (a + d) / b <= a / b + d.
Proof.
  intros Hb Hd. rewrite <- (Z.div_add a d b) by lia. apply Z.div_le_mono; [lia|nia].
Qed.

(* Claim D': inserting one position ANYWHERE (before or behind index i) costs at most 3 *)
Lemma pot_T_insert n i i' off b : 0 < b -> 0 <= i < n -> 0 <= off -> i' = i \/ i' = i + 1 ->
  pot_T (n + 1) i' off b <= pot_T n i off b + 3.
Proof.
  intros Hb Hi Ho [->| ->].
  - pose proof (pot_T_create n i off b Hb Hi Ho). lia.
  - unfold pot_T. destruct (off <? n) eqn:E1.
    + replace (off <? n + 1) with true by lia. destruct (off <=? i) eqn:E2.
      * replace (off <=? i + 1) with true by lia.
        replace (i + 1 - off) with (i - off + 1) by lia. pose proof (div_add_le (i - off) 1 b Hb). lia.
      * destruct (off <=? i + 1) eqn:E3.
        -- assert (off = i + 1) by lia. subst off. replace (i + 1 - (i + 1)) with 0 by lia.
           rewrite Z.div_0_l by lia. pose proof (Z.div_pos (n - (i + 1) + i) b). lia.
        -- replace (n + 1 - off + (i + 1)) with (n - off + i + 2) by lia.
           pose proof (div_add_le (n - off + i) 2 b Hb). lia.
    + destruct (off <? n + 1) eqn:E2.
      * assert (off = n) by lia. subst off. destruct (n <=? i + 1) eqn:E3.
        -- assert (i + 1 = n) by lia. replace (i + 1 - n) with 0 by lia. rewrite Z.div_0_l by lia.
           pose proof (Z.div_pos i b). lia.
        -- replace (n + 1 - n + (i + 1)) with (i + 2) by lia. pose proof (div_add_le i 2 b Hb). lia.
      * pose proof (div_add_le i 1 b Hb). lia.
Qed.

Definition bev_ok (x : Z) (st : bstate) (e : bevent) : Prop :=
  match e with
  | BBlock vf => vf x = VSeize
  | BClose id => id <> x
  | BCreate _ id => ~ In id (bs_ids st) /\ id <> x
  end.

Fixpoint brun_ok (b x : Z) (st : bstate) (evs : list bevent) : Prop :=
  match evs with
  | [] => True
  | e :: r => bev_ok x st e /\ brun_ok b x (bev_step b st e) r
  end.

Lemma bev_step_inv b st e x : 0 < b -> st_inv (bst st) -> bev_ok x st e -> st_inv (bst (bev_step b st e)).
Proof.
  intros Hb (Hnd & Ho) Hok. destruct st as [ids off liq]. cbn [bst bs_ids bs_off fst snd] in *.
  destruct e as [vf|id|k id]; unfold st_inv; cbn [bev_step bst bs_ids bs_off bs_liq fst snd].
  - rewrite bblock_ids_eq. cbn [fst snd]. split; [exact Hnd|].
    pose proof (sweep_window_ok_lem (zlen ids) off b (zlen_nonneg ids)). lia.
  - split; [apply nodup_filter; exact Hnd|exact Ho].
  - split; [|exact Ho]. destruct Hok as (Hni & _). apply nodup_insert_at; auto.
Qed.

(* x stays in the list: nobody but x's owner removes it *)
Lemma bev_step_in b st e x : bev_ok x st e -> In x (bs_ids st) -> In x (bs_ids (bev_step b st e)).
Proof.
  intros Hok Hin. destruct st as [ids off liq]. destruct e as [vf|id|k id]; cbn [bev_step bs_ids] in *.
  - exact Hin.
  - apply filter_In. split; [exact Hin|]. cbn in Hok. destruct (x =? id) eqn:E; [|reflexivity]. exfalso. apply Hok. lia.
  - apply insert_at_in. right; exact Hin.
Qed.

(* once liquidated, always liquidated *)
Lemma bliq_mono_step b st e x : In x (bs_liq st) -> In x (bs_liq (bev_step b st e)).
Proof. intro H. destruct e; cbn [bev_step bs_liq]; auto. apply in_or_app. left; exact H. Qed.

Lemma bliq_mono b x : forall evs st, In x (bs_liq st) -> In x (bs_liq (fold_left (bev_step b) evs st)).
Proof. induction evs as [|e r IH]; intros st H; [exact H|]. cbn [fold_left]. apply IH. apply bliq_mono_step. exact H. Qed.

(* a block in which x is unsafe and inside the window liquidates x *)
Lemma bblock_seizes b st vf x : In x (bs_ids st) -> vf x = VSeize ->
  fst (sweep_window (zlen (bs_ids st)) (bs_off st) b) <= idx x (bs_ids st) < snd (sweep_window (zlen (bs_ids st)) (bs_off st) b) ->
  In x (bs_liq (bev_step b st (BBlock vf))).
Proof.
  intros Hx Hv Hr. destruct st as [ids off liq]. cbn [bev_step bs_ids bs_off bs_liq] in *.
  rewrite bblock_ids_eq. cbn [fst].
  destruct (mem_z x liq) eqn:Em.
  - apply in_or_app. left. apply mem_z_in. exact Em.
  - apply in_or_app. right. apply filter_In. split; [apply in_window_of; assumption|].
    unfold bseizes. rewrite Em, Hv. reflexivity.
Qed.

(* the borrow potential: the vault potential plus one more block per pending insertion *)
Definition bpot (b x : Z) (st : list Z * Z) (c : Z) : Z := pot b x st c + c.

(* the step lemma: the potential pays for every block x survives unliquidated *)
Lemma bpot_step b st e x c : 0 < b -> st_inv (bst st) -> bev_ok x st e -> is_bcreate e <= c ->
  In x (bs_ids st) -> ~ In x (bs_liq (bev_step b st e)) ->
  bpot b x (bst (bev_step b st e)) (c - is_bcreate e) + is_bblock e <= bpot b x (bst st) c.
Proof.
  intros Hb Hinv Hok Hc Hx Hnl. unfold bpot.
  pose proof (bev_step_in b st e x Hok Hx) as Hx'.
  destruct e as [vf|id|k id]; cbn [is_bcreate is_bblock] in *.
  - (* a block: the list is unchanged, x was outside the window *)
    assert (Hnw : ~ (fst (sweep_window (zlen (bs_ids st)) (bs_off st) b) <= idx x (bs_ids st)
                     < snd (sweep_window (zlen (bs_ids st)) (bs_off st) b))).
    { intro Hr. apply Hnl. apply bblock_seizes; assumption. }
    destruct Hinv as (_ & Ho). destruct st as [ids off liq]. unfold bst in *. cbn [bs_ids bs_off bs_liq fst snd bev_step] in *.
    rewrite bblock_ids_eq. cbn [fst snd]. replace (c - 0) with c by lia.
    unfold pot, bst. cbn [fst snd bs_ids bs_off].
    pose proof (pot_T_quiet (zlen ids) (idx x ids) off b Hb (idx_bounds x ids Hx) Ho Hnw). lia.
  - (* repayment / deletion of another borrow: the vault schedule's close *)
    pose proof (pot_step b (bst st) (EClose id) x c Hb Hinv Hok Hc) as H.
    destruct st as [ids off liq]. unfold bst in *. cbn [bs_ids bs_off bev_step ev_step fst snd is_create is_block] in *.
    specialize (H Hx'). lia.
  - (* a new borrow: inserted at position k *)
    destruct Hinv as (_ & Ho). destruct Hok as (Hni & Hne).
    destruct st as [ids off liq]. unfold bst in *. cbn [bs_ids bs_off bs_liq fst snd bev_step] in *.
    unfold pot. cbn [fst snd]. rewrite zlen_insert_at.
    replace (zlen ids + 1 + (c - 1)) with (zlen ids + c) by lia.
    assert (Hi' : idx x (insert_at k id ids) = idx x ids \/ idx x (insert_at k id ids) = idx x ids + 1).
    { unfold idx. destruct (idxn_insert_at k ids id x ltac:(congruence) Hx) as [H|H]; rewrite H; [left; reflexivity|right; lia]. }
    pose proof (pot_T_insert (zlen ids) (idx x ids) _ off b Hb (idx_bounds x ids Hx) Ho Hi'). lia.
Qed.

Lemma n_bblocks_cons e r : n_bblocks (e :: r) = is_bblock e + n_bblocks r.
Proof. reflexivity. Qed.
Lemma n_bcreates_cons e r : n_bcreates (e :: r) = is_bcreate e + n_bcreates r.
Proof. reflexivity. Qed.
Lemma is_bcreate_nonneg e : 0 <= is_bcreate e. Proof. destruct e; cbn; lia. Qed.
Lemma n_bcreates_nonneg evs : 0 <= n_bcreates evs.
Proof. induction evs as [|e r IH]; [cbn; lia|]. rewrite n_bcreates_cons. pose proof (is_bcreate_nonneg e). lia. Qed.

(* main induction: while x is not liquidated, the number of blocks run is at most the potential *)
Lemma blive_main b x : 0 < b -> forall evs st c,
  st_inv (bst st) -> In x (bs_ids st) -> brun_ok b x st evs -> n_bcreates evs <= c ->
  ~ In x (bs_liq (fold_left (bev_step b) evs st)) ->
  n_bblocks evs <= bpot b x (bst st) c.
Proof.
  intros Hb. induction evs as [|e r IH]; intros st c Hinv Hx Hok Hc Hnl.
  - replace (n_bblocks []) with 0 by reflexivity. replace (n_bcreates []) with 0 in Hc by reflexivity.
    destruct Hinv as (_ & Ho). unfold bpot. pose proof (pot_nonneg b x (bst st) c Hb Hc Hx Ho). lia.
  - cbn [fold_left] in Hnl. destruct Hok as (Hok1 & Hok2). rewrite n_bcreates_cons in Hc.
    pose proof (is_bcreate_nonneg e). pose proof (n_bcreates_nonneg r).
    pose proof (IH (bev_step b st e) (c - is_bcreate e) (bev_step_inv b st e x Hb Hinv Hok1)
                   (bev_step_in b st e x Hok1 Hx) Hok2 ltac:(lia) Hnl) as Hle.
    assert (Hnl1 : ~ In x (bs_liq (bev_step b st e))).
    { intro H1. apply Hnl. apply bliq_mono. exact H1. }
    pose proof (bpot_step b st e x c Hb Hinv Hok1 ltac:(lia) Hx Hnl1). rewrite n_bblocks_cons. lia.
Qed.

(* V2 borrow liveness, interleaved: repayments / deletions of OTHER borrows and new borrows
   (inserted ANYWHERE in the list) between the blocks, ANY verdict (error and panic included) for
   every other borrow in every block; x above its threshold and liquidatable in every block.
   After blive_bound blocks x is liquidated. *)
Theorem blive_interleaved : forall b x ids off liq evs c,
  1 <= b -> 0 <= off -> NoDup ids -> In x ids ->
  brun_ok b x (mkB ids off liq) evs -> n_bcreates evs <= c ->
  blive_bound (zlen ids + c) c b <= n_bblocks evs ->
  In x (bs_liq (fold_left (bev_step b) evs (mkB ids off liq))).
Proof.
  intros b x ids off liq evs c Hb Ho Hnd Hx Hok Hc Hn.
  destruct (in_dec Z.eq_dec x (bs_liq (fold_left (bev_step b) evs (mkB ids off liq)))) as [H|H]; [exact H|exfalso].
  pose proof (blive_main b x ltac:(lia) evs (mkB ids off liq) c (conj Hnd Ho) Hx Hok Hc H) as Hle.
  pose proof (n_bcreates_nonneg evs).
  pose proof (pot_le_bound b x ids off c ltac:(lia) ltac:(lia) Hx Ho).
  unfold bpot, bst, blive_bound in *. cbn [bs_ids bs_off] in Hle. lia.
Qed.

(* quiet case: only blocks.  The list does not shrink under seizures (a liquidated borrow stays
   in it), so every block that misses x brings the window one batch closer: (n-1)/b + 2 blocks,
   which is within the property's "two full sweeps" = 2*ceil(n/b) *)
Definition bblocks_of (vfs : list (Z -> verdict)) : list bevent := map BBlock vfs.

Lemma blive_quiet_main b x : 0 < b -> forall vfs st,
  0 <= bs_off st -> In x (bs_ids st) -> Forall (fun vf => vf x = VSeize) vfs ->
  ~ In x (bs_liq (fold_left (bev_step b) (bblocks_of vfs) st)) ->
  zlen vfs <= pot_T (zlen (bs_ids st)) (idx x (bs_ids st)) (bs_off st) b.
Proof.
  intros Hb. induction vfs as [|vf r IH]; intros st Ho Hx Hall Hnl.
  - pose proof (pot_T_bounds _ _ (bs_off st) b Hb (idx_bounds x _ Hx) Ho). unfold zlen at 1. cbn [length]. lia.
  - inversion Hall as [|? ? Hv Hr]; subst. unfold bblocks_of in Hnl. cbn [map fold_left] in Hnl. fold (bblocks_of r) in Hnl.
    assert (Hnl1 : ~ In x (bs_liq (bev_step b st (BBlock vf)))).
    { intro H1. apply Hnl. apply bliq_mono. exact H1. }
    assert (Hnw : ~ (fst (sweep_window (zlen (bs_ids st)) (bs_off st) b) <= idx x (bs_ids st)
                     < snd (sweep_window (zlen (bs_ids st)) (bs_off st) b))).
    { intro Hrg. apply Hnl1. apply bblock_seizes; assumption. }
    pose proof (pot_T_quiet _ _ (bs_off st) b Hb (idx_bounds x _ Hx) Ho Hnw) as Hq.
    pose proof (sweep_window_ok_lem (zlen (bs_ids st)) (bs_off st) b (zlen_nonneg _)) as Hw.
    specialize (IH (bev_step b st (BBlock vf))).
    destruct st as [ids off liq]. cbn [bev_step bs_ids bs_off bs_liq] in *.
    rewrite bblock_ids_eq in *. cbn [fst snd] in *.
    specialize (IH ltac:(lia) Hx Hr Hnl). rewrite zlen_cons. lia.
Qed.

Theorem blive_quiet : forall b x ids off liq vfs,
  1 <= b -> 0 <= off -> In x ids ->
  Forall (fun vf => vf x = VSeize) vfs ->
  live_R (zlen ids) b <= zlen vfs ->
  In x (bs_liq (fold_left (bev_step b) (bblocks_of vfs) (mkB ids off liq))).
Proof.
  intros b x ids off liq vfs Hb Ho Hx Hall Hn.
  destruct (in_dec Z.eq_dec x (bs_liq (fold_left (bev_step b) (bblocks_of vfs) (mkB ids off liq)))) as [H|H]; [exact H|exfalso].
  pose proof (blive_quiet_main b x ltac:(lia) vfs (mkB ids off liq) Ho Hx Hall H) as Hle. cbn [bs_ids bs_off] in Hle.
  pose proof (pot_T_bounds (zlen ids) (idx x ids) off b ltac:(lia) (idx_bounds x ids Hx) Ho). lia.
Qed.

Lemma live_R_le_two_sweeps n b : 1 <= n -> 1 <= b -> live_R n b <= two_sweeps n b.
Proof.
  intros Hn Hb. unfold live_R, two_sweeps.
  replace (n + b - 1) with (n - 1 + 1 * b) by lia. rewrite Z.div_add by lia.
  pose proof (Z.div_pos (n - 1) b). lia.
Qed.

(* ---- regression witnesses of the repaired findings ---- *)
(* C09-F2: 2 vaults, batch 1, the second unsafe, no borrows: the hook used to be a fixed point
   (the borrow sweep reset the vault offset every block); now the offset advances and the second
   block seizes vault 2 *)
Definition v2_starved : v2_state := mkV2 [mkPos 1 0 VKeep; mkPos 2 0 VSeize] 2 0 [] 0.

Lemma v2_starved_served :
  run_v2 (fun n => n) 1 2 v2_starved = Ok (mkV2 [mkPos 1 0 VKeep] 1 2 [] 0).
Proof. vm_compute. reflexivity. Qed.

(* C09-F3: an erroring (or panicking) borrow in front of an unsafe one, batch 5: the loop used to
   return at borrow 1 in every block; now borrow 2 is liquidated in the first block *)
Definition v2_borrow_starved : v2_state := mkV2 [] 0 0 [mkPos 1 0 VErr; mkPos 2 0 VSeize] 0.

Lemma v2_borrow_starved_served :
  sweep_v2 (fun n => n) 5 v2_borrow_starved =
    Ok ([], [2], mkV2 [] 0 0 [mkPos 1 0 VErr; mkPos 2 0 VKeep] 2) /\
  sweep_v2 (fun n => n) 5 (mkV2 [] 0 0 [mkPos 1 0 VPanic; mkPos 2 0 VSeize] 0) =
    Ok ([], [2], mkV2 [] 0 0 [mkPos 1 0 VPanic; mkPos 2 0 VKeep] 2).
Proof. vm_compute. split; reflexivity. Qed.

(* the property's literal bound holds for the V2 borrow sweep in the quiet case *)
Theorem blive_quiet_two_sweeps : forall b x ids off liq vfs,
  1 <= b -> 0 <= off -> In x ids ->
  Forall (fun vf => vf x = VSeize) vfs ->
  two_sweeps (zlen ids) b <= zlen vfs ->
  In x (bs_liq (fold_left (bev_step b) (bblocks_of vfs) (mkB ids off liq))).
Proof.
  intros b x ids off liq vfs Hb Ho Hx Hall Hn. apply blive_quiet; auto.
  pose proof (idx_bounds x ids Hx). pose proof (live_R_le_two_sweeps (zlen ids) b ltac:(lia) Hb). lia.
Qed.
