(* Proofs about Model/Liquidation.v: slice bounds, safety of the seize rules through every sweep
   and the liquidate message, exact handover, and the liveness bound by induction. *)
From Comdex Require Import Lib.Base Lib.DecArith Model.Liquidation.
From Coq Require Import ZifyBool.

(* ------------------------------------------------------------------------------------ *)
(* slice bounds                                                                           *)

Lemma slice_bounds_ok_lem : forall len off batch, 0 <= len ->
  0 <= fst (slice_bounds len off batch) <= snd (slice_bounds len off batch) /\
  snd (slice_bounds len off batch) <= len.
Proof.
  intros len off batch Hl. unfold slice_bounds.
  destruct ((off >=? len) || (off <? 0) || (batch <? 0)) eqn:E; cbn [fst snd]; [lia|].
  destruct (off + batch >=? len) eqn:E2; cbn [fst snd]; lia.
Qed.

Lemma sweep_window_ok_lem : forall len off batch, 0 <= len ->
  0 <= fst (sweep_window len off batch) <= snd (sweep_window len off batch) /\
  snd (sweep_window len off batch) <= len.
Proof.
  intros len off batch Hl. unfold sweep_window.
  destruct (fst (slice_bounds len off batch) =? snd (slice_bounds len off batch));
    apply slice_bounds_ok_lem; exact Hl.
Qed.

(* the window as a closed form, for batch >= 1 *)
Lemma sweep_window_eq : forall n o b, 0 <= n -> 1 <= b -> 0 <= o ->
  sweep_window n o b =
    if o <? n then (o, Z.min (o + b) n) else (if 0 <? n then (0, Z.min b n) else (0, 0)).
Proof.
  intros n o b Hn Hb Ho. unfold sweep_window, slice_bounds.
  destruct (o <? n) eqn:E1.
  - replace ((o >=? n) || (o <? 0) || (b <? 0)) with false by lia.
    destruct (o + b >=? n) eqn:E2; cbn [fst snd].
    + replace (o =? n) with false by lia. f_equal. lia.
    + replace (o =? o + b) with false by lia. f_equal. lia.
  - replace ((o >=? n) || (o <? 0) || (b <? 0)) with true by lia. cbn [fst snd].
    rewrite Z.eqb_refl.
    destruct (0 <? n) eqn:E3.
    + replace ((0 >=? n) || (0 <? 0) || (b <? 0)) with false by lia.
      destruct (0 + b >=? n) eqn:E4; f_equal; lia.
    + replace ((0 >=? n) || (0 <? 0) || (b <? 0)) with true by lia. f_equal; lia.
Qed.

(* ------------------------------------------------------------------------------------ *)
(* safety                                                                                 *)

Lemma sweep_items_seized : forall g app items id,
  In id (fst (sweep_items g app items)) ->
  exists p, In p items /\ p_id p = id /\ eff_verdict g app p = VSeize.
Proof.
  induction items as [|p rest IH]; intros id H; cbn in H; [contradiction|].
  destruct (eff_verdict g app p) eqn:E.
  - cbn in H. destruct H as [<-|H].
    + exists p. split; [left; reflexivity|]. split; [reflexivity|exact E].
    + destruct (IH id H) as (q & Hq & Hid & Hv). exists q. split; [right; exact Hq|]. split; assumption.
  - destruct (IH id H) as (q & Hq & Hid & Hv). exists q. split; [right; exact Hq|]. split; assumption.
  - destruct (wrapped g).
    + destruct (IH id H) as (q & Hq & Hid & Hv). exists q. split; [right; exact Hq|]. split; assumption.
    + cbn in H. contradiction.
  - destruct (wrapped g).
    + destruct (IH id H) as (q & Hq & Hid & Hv). exists q. split; [right; exact Hq|]. split; assumption.
    + cbn in H. contradiction.
Qed.

Lemma in_firstn {A} : forall n (l : list A) x, In x (firstn n l) -> In x l.
Proof. induction n; intros [|a l] x H; cbn in *; try contradiction. destruct H; [left|right]; auto. Qed.
Lemma in_skipn {A} : forall n (l : list A) x, In x (skipn n l) -> In x l.
Proof. induction n; intros [|a l] x H; cbn in *; try contradiction; auto. Qed.

Lemma go_slice_in : forall l cap s e items p,
  go_slice l cap s e = Some items -> In p items -> In p l \/ p = zero_pos.
Proof.
  intros l cap s e items p H Hin. unfold go_slice in H.
  destruct ((0 <=? s) && (s <=? e) && (e <=? cap)); [|discriminate].
  injection H as <-. apply in_firstn in Hin. apply in_skipn in Hin.
  apply in_app_or in Hin. destruct Hin as [H|H]; [left; exact H|right].
  apply repeat_spec in H. exact H.
Qed.

Lemma eff_zero_not_seize : forall g app, eff_verdict g app zero_pos <> VSeize.
Proof. intros g app H. destruct g; cbn in H; try discriminate. destruct app; discriminate. Qed.

(* every id a sweep seizes belongs to a position of the list whose own verdict is VSeize, and
   (V1) whose app is the app being swept *)
Lemma sweep_core_seized : forall g app l cap len off batch sz l' o ab id,
  sweep_core g app l cap len off batch = Ok (sz, l', o, ab) -> In id sz ->
  exists p, In p l /\ p_id p = id /\ p_v p = VSeize /\ (g = GV1 -> p_app p = app).
Proof.
  intros g app l cap len off batch sz l' o ab id H Hin. unfold sweep_core in H.
  destruct (go_slice l cap _ _) as [items|] eqn:Eg; [|discriminate].
  assert (Hs : In id (fst (sweep_items g app items))).
  { destruct (snd (sweep_items g app items)); try discriminate; injection H as <- _ _ _; exact Hin. }
  destruct (sweep_items_seized _ _ _ _ Hs) as (p & Hp & Hid & Hv).
  destruct (go_slice_in _ _ _ _ _ _ Eg Hp) as [Hl|Hz].
  - exists p. split; [exact Hl|]. split; [exact Hid|].
    destruct g; cbn in Hv; try (split; [exact Hv|discriminate]).
    destruct (p_app p =? app) eqn:Ea; [|discriminate]. split; [exact Hv|]. intros _. lia.
  - subst p. exfalso. exact (eff_zero_not_seize _ _ Hv).
Qed.

Lemma sweep_one_inv : forall g app l cap counter off batch r,
  sweep_one g app l cap counter off batch = Ok r ->
  sweep_core g app l cap (int_of_u64 counter) off batch = Ok (r_seized r, r_list r, r_off r, r_aborted r).
Proof.
  intros g app l cap counter off batch r H. unfold sweep_one in H.
  destruct (sweep_core g app l cap (int_of_u64 counter) off batch) as [[[[sz l'] o] ab]| |]; try discriminate.
  injection H as <-. reflexivity.
Qed.

(* every id a sweep seizes belongs to a position of the list whose own verdict is VSeize, and
   (V1) whose app is the app being swept *)
Lemma sweep_one_seized : forall g app l cap counter off batch r id,
  sweep_one g app l cap counter off batch = Ok r -> In id (r_seized r) ->
  exists p, In p l /\ p_id p = id /\ p_v p = VSeize /\ (g = GV1 -> p_app p = app).
Proof.
  intros g app l cap counter off batch r id H Hin.
  eapply sweep_core_seized; [exact (sweep_one_inv _ _ _ _ _ _ _ _ H)|exact Hin].
Qed.

Lemma after_seize_incl : forall g seized l p, removes g = true -> In p (after_seize g seized l) -> In p l.
Proof. intros g seized l p Hr H. unfold after_seize in H. rewrite Hr in H. apply filter_In in H. tauto. Qed.

Lemma sweep_one_list_incl : forall app l cap counter off batch r p,
  sweep_one GV1 app l cap counter off batch = Ok r -> In p (r_list r) -> In p l.
Proof.
  intros app l cap counter off batch r p H Hin. apply sweep_one_inv in H. unfold sweep_core in H.
  destruct (go_slice l cap _ _) as [items|]; [|discriminate].
  destruct (snd (sweep_items GV1 app items)); try discriminate; injection H as _ H _ _; rewrite <- H in Hin;
    exact (after_seize_incl GV1 _ _ _ eq_refl Hin).
Qed.

Lemma sweep_v1_seized : forall capf batch apps st acc ids st' id,
  sweep_v1 capf batch apps st acc = Ok (ids, st') -> In id ids ->
  In id acc \/ exists p, In p (s_list st) /\ p_id p = id /\ p_v p = VSeize /\ In (p_app p) (map fst apps).
Proof.
  intros capf batch apps. induction apps as [|[app blocked] rest IH]; intros st acc ids st' id H Hin; cbn in H.
  - injection H as <- <-. left; exact Hin.
  - destruct blocked.
    + destruct (IH _ _ _ _ _ H Hin) as [Ha|(p & Hp & Hid & Hv & Happ)]; [left; exact Ha|right].
      exists p. repeat split; auto. right; exact Happ.
    + destruct (sweep_one GV1 app (s_list st) _ _ _ batch) as [r| |] eqn:Es; try discriminate.
      destruct (IH _ _ _ _ _ H Hin) as [Ha|(p & Hp & Hid & Hv & Happ)].
      * apply in_app_or in Ha. destruct Ha as [Ha|Ha]; [left; exact Ha|right].
        destruct (sweep_one_seized _ _ _ _ _ _ _ _ _ Es Ha) as (p & Hp & Hid & Hv & Happ).
        exists p. repeat split; auto. left. cbn. symmetry. apply Happ. reflexivity.
      * right. exists p. cbn in Hp. repeat split; auto.
        -- eapply sweep_one_list_incl; eauto.
        -- right; exact Happ.
Qed.

(* what VSeize means for a vault, both generations *)
Lemma seize_rule_vault_sound : forall g v, seize_rule_vault g v = VSeize ->
  exists cr, calc_cr v (v_amt_in v) (v_amt_out v + v_interest v + v_closing v) = Ok cr /\
             cr < v_min_cr v /\ start_ok g v = true /\
             (g <> GV1 -> v_esm v = false /\ v_kill v = false /\ v_white v = true).
Proof.
  intros g v H.
  assert (Hcore : forall o : Z, verdict_of_outcome
            (obind (cr_below v) (fun b => if b then (if start_ok g v then Ok true else Err 5) else Ok false)) = VSeize ->
          exists cr, calc_cr v (v_amt_in v) (v_amt_out v + v_interest v + v_closing v) = Ok cr /\
             cr < v_min_cr v /\ start_ok g v = true) by
  ( intros _ Hc; unfold cr_below, total_out in Hc;
    unfold iadd_c, chk_int in Hc;
    destruct (fits_int (v_amt_out v + v_interest v)); cbn in Hc; [|discriminate];
    destruct (fits_int (v_amt_out v + v_interest v + v_closing v)); cbn in Hc; [|discriminate];
    destruct (calc_cr v (v_amt_in v) (v_amt_out v + v_interest v + v_closing v)) as [cr| |]; cbn in Hc; try discriminate;
    destruct (cr <? v_min_cr v) eqn:El; cbn in Hc; [|discriminate];
    destruct (start_ok g v); cbn in Hc; [|discriminate];
    exists cr; repeat split; auto; lia ).
  destruct g; cbn [seize_rule_vault] in H.
  - destruct (calc_asset_price (v_price_in v) (v_dec_in v) (v_amt_in v)); cbn in H; try discriminate.
    destruct (Hcore 0 H) as (cr & A & B & C). exists cr. repeat split; auto; congruence.
  - destruct (v_esm v || v_kill v) eqn:E1; [discriminate|].
    destruct (v_white v) eqn:E2; cbn in H; [|discriminate].
    destruct (Hcore 0 H) as (cr & A & B & C). exists cr. repeat split; auto; destruct (v_esm v), (v_kill v); auto; discriminate.
  - destruct (v_esm v || v_kill v) eqn:E1; [discriminate|].
    destruct (v_white v) eqn:E2; cbn in H; [|discriminate].
    destruct (Hcore 0 H) as (cr & A & B & C). exists cr. repeat split; auto; destruct (v_esm v), (v_kill v); auto; discriminate.
  - destruct (v_esm v || v_kill v) eqn:E1; [discriminate|].
    destruct (v_white v) eqn:E2; cbn in H; [|discriminate].
    destruct (Hcore 0 H) as (cr & A & B & C). exists cr. repeat split; auto; destruct (v_esm v), (v_kill v); auto; discriminate.
Qed.

Definition seized_ok (g : gen) (vs : list vault_in) (id : Z) : Prop :=
  exists v cr, In v vs /\ v_id v = id /\
    calc_cr v (v_amt_in v) (v_amt_out v + v_interest v + v_closing v) = Ok cr /\ cr < v_min_cr v.

(* the per-block sweep of either generation (single sweep) *)
Lemma safe_vault_sweep : forall g app vs cap counter off batch r id,
  sweep_one g app (map (pos_of_vault g) vs) cap counter off batch = Ok r ->
  In id (r_seized r) -> seized_ok g vs id /\ (g = GV1 -> exists v, In v vs /\ v_id v = id /\ v_app v = app).
Proof.
  intros g app vs cap counter off batch r id H Hin.
  destruct (sweep_one_seized _ _ _ _ _ _ _ _ _ H Hin) as (p & Hp & Hid & Hv & Happ).
  apply in_map_iff in Hp. destruct Hp as (v & <- & Hv'). cbn [pos_of_vault pos_of_borrow p_id p_v p_app] in Hid, Hv, Happ.
  destruct (seize_rule_vault_sound _ _ Hv) as (cr & A & B & _).
  split.
  - exists v, cr. repeat split; auto.
  - intros Hg. exists v. repeat split; auto.
Qed.

(* V1: the whole block over all whitelisted apps *)
Lemma safe_vault_v1 : forall capf batch apps vs counter offs ids st' id,
  sweep_v1 capf batch apps (mkV1 (map (pos_of_vault GV1) vs) counter offs) [] = Ok (ids, st') ->
  In id ids -> seized_ok GV1 vs id.
Proof.
  intros capf batch apps vs counter offs ids st' id H Hin.
  destruct (sweep_v1_seized _ _ _ _ _ _ _ _ H Hin) as [[]|(p & Hp & Hid & Hv & _)].
  cbn in Hp. apply in_map_iff in Hp. destruct Hp as (v & <- & Hv'). cbn [pos_of_vault pos_of_borrow p_id p_v p_app] in Hid, Hv.
  destruct (seize_rule_vault_sound _ _ Hv) as (cr & A & B & _).
  exists v, cr. repeat split; auto.
Qed.

Lemma find_pos_in : forall l id p, find_pos l id = Some p -> In p l /\ p_id p = id.
Proof.
  induction l as [|q l IH]; intros id p H; cbn in H; [discriminate|].
  destruct (p_id q =? id) eqn:E.
  - injection H as <-. split; [left; reflexivity|lia].
  - destruct (IH _ _ H). split; [right|]; auto.
Qed.

(* the liquidate message: same function, same rule *)
Lemma safe_vault_msg : forall vs id0 ids l' id,
  msg_liquidate GV2 (map (pos_of_vault GV2) vs) id0 = Ok (ids, l') -> In id ids -> seized_ok GV2 vs id.
Proof.
  intros vs id0 ids l' id H Hin. unfold msg_liquidate in H.
  destruct (find_pos _ id0) as [p|] eqn:Ef; [|discriminate].
  destruct (find_pos_in _ _ _ Ef) as (Hp & Hid).
  destruct (p_v p) eqn:Ev; try discriminate; injection H as <- <-; [|contradiction].
  destruct Hin as [<-|[]].
  apply in_map_iff in Hp. destruct Hp as (v & <- & Hv'). cbn [pos_of_vault pos_of_borrow p_id p_v p_app] in Hid, Ev.
  destruct (seize_rule_vault_sound _ _ Ev) as (cr & A & B & _).
  exists v, cr. repeat split; auto.
Qed.

(* the boolean the runner evaluates is the same statement *)
Lemma vault_unsafe_spec : forall v, vault_unsafe v = true ->
  exists cr, calc_cr v (v_amt_in v) (v_amt_out v + v_interest v + v_closing v) = Ok cr /\ cr < v_min_cr v.
Proof.
  intros v H. unfold vault_unsafe, cr_below, total_out, iadd_c, chk_int in H.
  destruct (fits_int (v_amt_out v + v_interest v)); cbn in H; [|discriminate].
  destruct (fits_int (v_amt_out v + v_interest v + v_closing v)); cbn in H; [|discriminate].
  destruct (calc_cr v (v_amt_in v) _) as [cr| |]; cbn in H; try discriminate.
  exists cr. split; [reflexivity|lia].
Qed.

Lemma in_map_vid : forall vs v, In v vs -> In (v_id v) (map v_id vs).
Proof. intros. apply in_map. assumption. Qed.

Lemma nodup_id_unique : forall vs v w, NoDup (map v_id vs) -> In v vs -> In w vs -> v_id v = v_id w -> v = w.
Proof.
  induction vs as [|a vs IH]; intros v w Hnd Hv Hw Heq; [contradiction|].
  cbn in Hnd. inversion Hnd as [|x l Hnot Hnd']; subst.
  destruct Hv as [<-|Hv], Hw as [<-|Hw]; auto.
  - exfalso. apply Hnot. rewrite Heq. apply in_map_vid; exact Hw.
  - exfalso. apply Hnot. rewrite <- Heq. apply in_map_vid; exact Hv.
Qed.

Lemma safe_vault_never : forall g app vs cap counter off batch r v cr,
  NoDup (map v_id vs) -> In v vs ->
  calc_cr v (v_amt_in v) (v_amt_out v + v_interest v + v_closing v) = Ok cr -> v_min_cr v <= cr ->
  sweep_one g app (map (pos_of_vault g) vs) cap counter off batch = Ok r ->
  ~ In (v_id v) (r_seized r).
Proof.
  intros g app vs cap counter off batch r v cr Hnd Hv Hcr Hge H Hin.
  destruct (proj1 (safe_vault_sweep _ _ _ _ _ _ _ _ _ H Hin)) as (w & cr' & Hw & Hid & Hcr' & Hlt).
  assert (w = v) by (eapply nodup_id_unique; eauto). subst w.
  rewrite Hcr in Hcr'. injection Hcr' as <-. lia.
Qed.

(* ---- borrows ---- *)
Lemma seize_rule_borrow_sound : forall g b, seize_rule_borrow g b = VSeize ->
  exists cr th, lend_cr b = Ok cr /\ borrow_threshold b = Ok th /\ cr > th /\
                b_liquidated b = false /\ b_kill b = false.
Proof.
  intros g b H. unfold seize_rule_borrow in H.
  destruct (b_found b); cbn in H; [|destruct g; discriminate].
  destruct (b_liquidated b); [discriminate|].
  destruct (b_lend_found b); cbn in H; [|discriminate].
  destruct (b_kill b); [discriminate|].
  destruct (b_interest_ok b); cbn in H; [|discriminate].
  unfold ratio_above in H.
  destruct (lend_cr b) as [cr| |]; cbn in H; try discriminate.
  destruct (borrow_threshold b) as [th| |]; cbn in H; try discriminate.
  destruct (cr >? th) eqn:E; cbn in H.
  - exists cr, th. repeat split; auto. lia.
  - discriminate.
Qed.

Lemma safe_borrow_sweep : forall g bs cap off batch r id,
  sweep_one g 0 (map (pos_of_borrow g) bs) cap (zlen bs) off batch = Ok r -> g <> GV1 ->
  In id (r_seized r) ->
  exists b cr th, In b bs /\ b_id b = id /\ lend_cr b = Ok cr /\ borrow_threshold b = Ok th /\ cr > th.
Proof.
  intros g bs cap off batch r id H Hg Hin.
  destruct (sweep_one_seized _ _ _ _ _ _ _ _ _ H Hin) as (p & Hp & Hid & Hv & _).
  apply in_map_iff in Hp. destruct Hp as (b & <- & Hb). cbn [pos_of_vault pos_of_borrow p_id p_v p_app] in Hid, Hv.
  destruct (seize_rule_borrow_sound _ _ Hv) as (cr & th & A & B & C & _).
  exists b, cr, th. repeat split; auto.
Qed.

(* ------------------------------------------------------------------------------------ *)
(* exact handover (as far as the seizure effects are modelled)                            *)

Lemma zlen_cons {A} (a : A) l : zlen (a :: l) = zlen l + 1.
Proof. unfold zlen. cbn [length]. lia. Qed.

Lemma handover_fold_eq : forall amts c,
  fold_left seize_effect amts c =
  mkCustody (c_vault c - zsum amts) (c_auction c + zsum amts) (c_locked c + zlen amts) (c_auctions c + zlen amts).
Proof.
  induction amts as [|a amts IH]; intros c.
  - cbn. destruct c; cbn. f_equal; lia.
  - cbn [fold_left]. rewrite IH. rewrite zlen_cons. cbn [zsum seize_effect c_vault c_auction c_locked c_auctions].
    f_equal; lia.
Qed.

Lemma handover_fold : forall amts c,
  holds_C09_handover c (fold_left seize_effect amts c) amts = true.
Proof.
  intros amts c. rewrite handover_fold_eq. unfold holds_C09_handover.
  cbn [c_vault c_auction c_locked c_auctions]. lia.
Qed.
