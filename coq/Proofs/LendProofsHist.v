(* C08 proofs, part 5: BorrowAlternate, the interest / reward messages, one message, histories. *)
From Comdex Require Import Lib.Base Lib.DecArith Model.Lend Proofs.LendProofs Proofs.LendProofsInv Proofs.LendProofsSide
     Proofs.LendProofsSteps Proofs.LendProofsSteps2 Proofs.LendProofsLiq Proofs.LendProofsClose.
From Coq Require Import ZifyBool.

Section Hist.
  Variable cfg : config.

  Lemma borrow_alternate_good st user asset poolid din ain pid stable dout aout app ipb e1 e2 st' :
    Good cfg st -> 0 < ain ->
    borrow_alternate cfg st user asset poolid din ain pid stable dout aout app ipb e1 e2 = Ok st' ->
    Good cfg st' /\ prices st' = prices st.
  Proof.
    intros HG Hpos H. unfold borrow_alternate in H. destr_all H.
    - match goal with E : deposit_asset _ _ _ _ _ _ _ = Ok _ |- _ =>
        destruct (deposit_good _ _ _ _ _ _ _ _ HG E) as (HG1 & HP1) end.
      destruct (borrow_asset_good _ _ _ _ _ _ _ _ _ _ _ _ _ HG1 Hpos H) as (HG2 & HP2). split; [exact HG2|congruence].
    - spec_uls. simp_pget.
      match type of H with borrow_asset _ ?st1 _ _ _ _ _ _ _ _ _ _ = _ =>
        assert (HG1 : Good cfg st1) end.
      { destruct HG as (HI & HS). unfold Inv in HI. split; cbn [lends borrows sstats lctr bctr].
        - eapply (T_newlend cfg _ _ _ _ _ HI (mkLend (lctr st + 1) user poolid asset ain ain app 0 0 []));
            try (intros k; apply pget_pset2); try eassumption; try reflexivity.
        - eapply S_lend_new; [exact HS|]. eapply unref_fresh; [exact HI|lia]. }
      destruct (borrow_asset_good _ _ _ _ _ _ _ _ _ _ _ _ _ HG1 Hpos H) as (HG2 & HP2). split; [exact HG2|exact HP2].
  Qed.

  Lemma calc_borrow_interest_good st user bid e st' :
    Good cfg st -> calc_borrow_interest st user bid e = Ok st' -> Good cfg st' /\ prices st' = prices st.
  Proof.
    intros HG H. unfold calc_borrow_interest in H. destr_all H. injection H as <-.
    eapply iterate_borrow_good; eassumption.
  Qed.
  Lemma calc_lend_rewards_good st user lid ipb st' :
    Good cfg st -> calc_lend_rewards cfg st user lid ipb = Ok st' -> Good cfg st' /\ prices st' = prices st.
  Proof.
    intros HG H. unfold calc_lend_rewards in H. destr_all H. injection H as <-.
    eapply iterate_lends_good; eassumption.
  Qed.

  Lemma calc_borrows_good ids : forall st user es st',
    Good cfg st -> calc_borrows st user ids es = Ok st' -> Good cfg st' /\ prices st' = prices st.
  Proof.
    induction ids as [|j r IH]; intros st user es st' HG H; cbn [calc_borrows] in H.
    - injection H as <-. split; [exact HG|reflexivity].
    - destruct (calc_borrow_interest st user j _) as [st1|c|] eqn:E; [| |discriminate].
      + destruct (calc_borrow_interest_good _ _ _ _ _ HG E) as (HG1 & HP1).
        destruct (IH _ _ _ _ HG1 H) as (HG2 & HP2). split; [exact HG2|congruence].
      + exact (IH _ _ _ _ HG H).
  Qed.
  Lemma calc_lends_good ids : forall st user ipbs st',
    Good cfg st -> calc_lends cfg st user ids ipbs = Ok st' -> Good cfg st' /\ prices st' = prices st.
  Proof.
    induction ids as [|i r IH]; intros st user ipbs st' HG H; cbn [calc_lends] in H.
    - injection H as <-. split; [exact HG|reflexivity].
    - destruct (calc_lend_rewards cfg st user i _) as [st1|c|] eqn:E; cbn [obind] in H; try discriminate.
      destruct (calc_lend_rewards_good _ _ _ _ _ HG E) as (HG1 & HP1).
      destruct (IH _ _ _ _ HG1 H) as (HG2 & HP2). split; [exact HG2|congruence].
  Qed.
  Lemma calc_all_good st user es ipbs st' :
    Good cfg st -> calc_all cfg st user es ipbs = Ok st' -> Good cfg st' /\ prices st' = prices st.
  Proof.
    intros HG H. unfold calc_all in H. destruct (user_lends st user) as [|l0 ls]; [discriminate|].
    destruct (calc_borrows st user _ es) as [st1|c|] eqn:E; cbn [obind] in H; try discriminate.
    destruct (calc_borrows_good _ _ _ _ _ HG E) as (HG1 & HP1).
    destruct (calc_lends_good _ _ _ _ _ HG1 H) as (HG2 & HP2). split; [exact HG2|congruence].
  Qed.

  Definition is_setprice (o : op) : bool := match o with OSetPrice _ _ => true | _ => false end.

  (* one message outside known-finding class 2: the invariants are kept; only the oracle op moves a price *)
  Lemma step_good st o st' :
    Good cfg st -> kf_books st o = false -> step cfg st o = Ok st' ->
    Good cfg st' /\ (is_setprice o = false -> prices st' = prices st).
  Proof.
    intros HG Hkf H. apply orb_false_elim in Hkf as (Hkf & Hkf4). destruct o; cbn [step] in H;
      try (match type of H with (if ?c then _ else _) = _ => destruct c eqn:Ec; [discriminate|] end).
    - destruct (lend_good _ _ _ _ _ _ _ _ _ _ HG H). tauto.
    - destruct (withdraw_good _ _ _ _ _ _ _ _ HG H). tauto.
    - destruct (deposit_good _ _ _ _ _ _ _ _ HG H). tauto.
    - destruct (close_lend_good _ _ _ _ _ _ HG H). tauto.
    - edestruct borrow_asset_good as (A & B); [exact HG| |exact H|tauto]. lia.
    - destruct (repay_good _ _ _ _ _ _ _ _ HG H). tauto.
    - edestruct deposit_borrow_good as (A & B); [exact HG| |exact H|tauto]. lia.
    - destruct (draw_good _ _ _ _ _ _ _ _ HG H). tauto.
    - destruct (close_borrow_good _ _ _ _ _ _ HG H). tauto.
    - edestruct borrow_alternate_good as (A & B); [exact HG| |exact H|tauto]. lia.
    - destruct (calc_all_good _ _ _ _ _ HG H). tauto.
    - injection H as <-. split; [exact HG|discriminate].
    - destruct (hand_over_good _ _ _ _ _ _ HG Hkf H). tauto.
    - destruct (auc_bid_good _ _ _ _ _ HG H). tauto.
    - destruct (auc_close_good _ _ _ _ _ _ _ HG H). tauto.
    - destruct (repay_withdraw_good _ _ _ _ _ _ _ HG H). tauto.
    - destruct (fund_mod_good _ _ _ _ _ _ _ _ HG H). tauto.
    - destruct (fund_reserve_good _ _ _ _ _ _ _ HG H). tauto.
    - destr_all H. injection H as <-. split; [exact HG|reflexivity].
    - destr_all H. injection H as <-. split; [exact HG|reflexivity].
    - (* a generation-1 hand-over outside class 4 writes nothing *)
      unfold hand_over_v1 in H. unfold kf_C08_4 in Hkf4.
      destruct (zget (borrows st) bid) as [b0|]; [|discriminate]. destruct (b_liq b0); [discriminate|].
      cbn [negb] in Hkf4. rewrite andb_true_r in Hkf4. rewrite Hkf4 in H. cbn [negb] in H.
      destr_all H. injection H as <-. split; [exact HG|reflexivity].
  Qed.

  Lemma apply_op_good st o : Good cfg st -> kf_books st o = false -> Good cfg (apply_op cfg st o).
  Proof.
    intros HG Hkf. unfold apply_op. destruct (step cfg st o) as [st'|c|] eqn:E; try exact HG.
    exact (proj1 (step_good _ _ _ HG Hkf E)).
  Qed.

  Lemma run_good ops : forall st, Good cfg st -> clean cfg st ops -> Good cfg (run cfg st ops).
  Proof.
    induction ops as [|o r IH]; intros st HG Hc; [exact HG|]. destruct Hc as (Hk & Hc).
    cbn [run fold_left]. apply IH; [apply apply_op_good; assumption|exact Hc].
  Qed.

  Lemma cleanb_ok ops : forall st, cleanb cfg st ops = true -> clean cfg st ops.
  Proof.
    induction ops as [|o r IH]; intros st H; [exact I|]. cbn [cleanb] in H. apply andb_prop in H as (H1 & H2).
    split; [destruct (kf_books st o); [discriminate|reflexivity]|apply IH; exact H2].
  Qed.

  (* histories of the eleven lend messages and oracle moves are clean *)
  Definition is_handover (o : op) : bool := match o with OHandOver _ _ _ | OHandOverV1 _ _ _ _ _ _ => true | _ => false end.
  Lemma clean_no_handover ops : forall st, forallb (fun o => negb (is_handover o)) ops = true -> clean cfg st ops.
  Proof.
    induction ops as [|o r IH]; intros st H; [exact I|]. cbn [forallb] in H. apply andb_prop in H as (H1 & H2).
    split; [destruct o; try reflexivity; discriminate|apply IH; exact H2].
  Qed.
End Hist.
