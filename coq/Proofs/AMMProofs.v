(* Proofs about Model/AMM.v (property C05). *)
From Comdex Require Import Lib.Base Lib.DecArith Lib.DecFacts Model.AMM.
From Coq Require Import ZifyBool Lia.

(* ================= rounding of the quote amount ================= *)
Lemma quote_floor_bounds p a : 0 <= p * a ->
  0 <= quote_floor p a /\ quote_floor p a * P18 <= p * a < (quote_floor p a + 1) * P18.
Proof. intros H. unfold quote_floor, dmul_int. apply dtrunc_int_bounds; exact H. Qed.

Lemma quote_ceil_bounds p a : 0 <= p * a ->
  0 <= quote_ceil p a /\ p * a <= quote_ceil p a * P18 < p * a + P18.
Proof.
  intros H. dec_consts. unfold quote_ceil, dceil_int, dceil, dmul_int.
  rewrite Z.quot_div_nonneg, Z.rem_mod_nonneg by lia.
  pose proof (Z.div_mod (p * a) P18 ltac:(lia)). pose proof (Z.mod_pos_bound (p * a) P18 ltac:(lia)).
  assert (0 <= p * a / P18) by (apply Z.div_pos; lia).
  destruct (Z.eqb_spec ((p * a) mod P18) 0).
  - rewrite Z.div_mul by lia. nia.
  - destruct (Z.ltb_spec ((p * a) mod P18) 0); [lia|]. rewrite Z.div_mul by lia. nia.
Qed.

Lemma quote_floor_le_ceil p a : 0 <= p * a -> quote_floor p a <= quote_ceil p a.
Proof.
  intros H. dec_consts. pose proof (quote_floor_bounds p a H). pose proof (quote_ceil_bounds p a H). nia.
Qed.

(* ================= MatchableAmount ================= *)
Definition wf_order (o : order) : Prop :=
  0 <= o_open o <= o_amt o /\ 0 <= o_paid o <= o_offer o /\ 0 <= o_recv o /\
  (o_dir o = Sell -> o_paid o + o_open o <= o_offer o) /\ 0 < o_amt o.

Lemma matchable_nonneg o p : wf_order o -> 0 < p -> 0 <= matchable_amount o p.
Proof.
  intros (Ho & Hp & _) Hpp. unfold matchable_amount.
  set (m := match o_dir o with Buy => _ | Sell => _ end).
  assert (0 <= m).
  { subst m. destruct (o_dir o); [|lia].
    apply Z.min_glb; [lia|]. apply dtrunc_int_bounds. apply dquo_trunc_nonneg; [|lia].
    unfold dec_of_int. dec_consts. nia. }
  destruct (_ =? 0); lia.
Qed.

Lemma matchable_le_open o p : wf_order o -> matchable_amount o p <= o_open o.
Proof.
  intros (Ho & _). unfold matchable_amount.
  set (m := match o_dir o with Buy => _ | Sell => _ end).
  assert (m <= o_open o) by (subst m; destruct (o_dir o); lia).
  destruct (_ =? 0); lia.
Qed.

(* a buy order can pay for its matchable amount out of its remaining offer coin *)
Lemma matchable_buy_affordable o p a : wf_order o -> 0 < p -> o_dir o = Buy ->
  0 <= a <= matchable_amount o p -> quote_ceil p a <= o_offer o - o_paid o.
Proof.
  intros (Ho & Hp & _) Hpp Hd Ha. dec_consts. unfold matchable_amount in Ha. rewrite Hd in Ha.
  remember (o_offer o - o_paid o) as R eqn:ER.
  remember (dquo_trunc (dec_of_int R) p) as q eqn:Eq.
  assert (HR : 0 <= dec_of_int R) by (unfold dec_of_int; nia).
  pose proof (dquo_trunc_bounds (dec_of_int R) p HR Hpp) as [Hq _]. rewrite <- Eq in Hq.
  pose proof (dquo_trunc_nonneg (dec_of_int R) p HR Hpp) as Hq0. rewrite <- Eq in Hq0. clear Eq.
  pose proof (dtrunc_int_bounds q Hq0) as (Ht0 & Ht1 & _).
  assert (Hat : a <= dtrunc_int q).
  { destruct (_ =? 0) in Ha; lia. }
  unfold dec_of_int in Hq.
  assert (Haq : a * P18 <= q) by nia.
  assert (a * P18 * p <= q * p) by (apply Z.mul_le_mono_nonneg_r; lia).
  assert ((a * p) * P18 <= (R * P18) * P18) by lia.
  assert (a * p <= R * P18) by (apply Z.mul_le_mono_pos_r with (p := P18); lia).
  pose proof (quote_ceil_bounds p a ltac:(nia)) as (_ & _ & Hc). nia.
Qed.

(* ================= fill laws ================= *)
(* FillOrder: what a fill books, and what its guard implies *)
Lemma fill_order_spec o a p o' : fill_order o a p = Some o' ->
  a <= matchable_amount o p /\
  o_id o' = o_id o /\ o_dir o' = o_dir o /\ o_price o' = o_price o /\ o_amt o' = o_amt o /\
  o_offer o' = o_offer o /\ o_batch o' = o_batch o /\ o_key o' = o_key o /\
  o_open o' = o_open o - a /\
  match o_dir o with
  | Buy => o_paid o' = o_paid o + quote_ceil p a /\ o_recv o' = o_recv o + a
  | Sell => o_paid o' = o_paid o + a /\ o_recv o' = o_recv o + quote_floor p a
  end.
Proof.
  unfold fill_order. destruct (Z.gtb_spec a (matchable_amount o p)); [discriminate|].
  intros [= <-]. destruct (o_dir o) eqn:Hd; cbn; rewrite ?Hd; repeat split; auto; lia.
Qed.

Lemma fill_order_wf o a p o' : wf_order o -> 0 < p -> 0 <= a ->
  fill_order o a p = Some o' -> wf_order o'.
Proof.
  intros Hwf Hp Ha Hf. pose proof (fill_order_spec _ _ _ _ Hf) as (Hm & _ & Hd & _ & Hamt & Hoff & _ & _ & Hopen & Hrest).
  pose proof (matchable_le_open o p Hwf). destruct Hwf as (Ho & Hpd & Hr & Hs & Hamt0) eqn:E. clear E.
  unfold wf_order. rewrite Hd, Hamt, Hoff, Hopen.
  destruct (o_dir o) eqn:Hdir.
  - destruct Hrest as [-> ->].
    pose proof (matchable_buy_affordable o p a ltac:(unfold wf_order; auto 6) Hp Hdir ltac:(lia)).
    pose proof (quote_ceil_bounds p a ltac:(nia)) as (? & _).
    repeat split; try lia. discriminate.
  - destruct Hrest as [-> ->]. specialize (Hs eq_refl).
    pose proof (quote_floor_bounds p a ltac:(nia)) as (? & _).
    repeat split; try lia.
Qed.

(* ================= lists with one position replaced ================= *)
Lemma set_nth_Forall {A} (P : A -> Prop) l i v l' :
  set_nth l i v = Some l' -> Forall P l -> P v -> Forall P l'.
Proof.
  revert i l'. induction l as [|x r IH]; intros [|i] l' H HF Hv; cbn in H; try discriminate.
  - injection H as <-. inversion HF; constructor; auto.
  - destruct (set_nth r i v) eqn:E; [|discriminate]. injection H as <-.
    inversion HF; subst. constructor; eauto.
Qed.

Lemma nth_error_Forall {A} (P : A -> Prop) l i x : nth_error l i = Some x -> Forall P l -> P x.
Proof. intros H HF. rewrite Forall_forall in HF. apply HF. eapply nth_error_In; eauto. Qed.

Lemma set_nth_length {A} (l : list A) i v l' : set_nth l i v = Some l' -> length l' = length l.
Proof.
  revert i l'. induction l as [|x r IH]; intros [|i] l' H; cbn in H; try discriminate.
  - injection H as <-. reflexivity.
  - destruct (set_nth r i v) eqn:E; [|discriminate]. injection H as <-. cbn. f_equal. eauto.
Qed.

Lemma set_nth_sum {A} (g : A -> Z) l i v l' x :
  set_nth l i v = Some l' -> nth_error l i = Some x ->
  zsum (map g l') = zsum (map g l) - g x + g v.
Proof.
  revert i l'. induction l as [|y r IH]; intros [|i] l' H Hn; cbn in H, Hn; try discriminate.
  - injection H as <-. injection Hn as ->. cbn. lia.
  - destruct (set_nth r i v) as [r'|] eqn:E; [|discriminate]. injection H as <-. cbn.
    rewrite (IH i r' E Hn). lia.
Qed.

(* ================= the fill list ================= *)
(* a fill the engine may emit: a positive amount at a positive price, and a sell fill is worth at
   least one quote unit *)
Definition good_fill (f : fill) : Prop :=
  0 < f_amt f /\ 0 < f_price f /\ (f_dir f = Sell -> 0 < quote_floor (f_price f) (f_amt f)).

Lemma apply_fill_wf os f os' : Forall wf_order os -> good_fill f ->
  apply_fill os f = Some os' -> Forall wf_order os'.
Proof.
  intros HF (Ha & Hp & _) H. unfold apply_fill in H.
  destruct (nth_error os (f_id f)) as [o|] eqn:En; [|discriminate].
  destruct (dir_eqb (f_dir f) (o_dir o)); [|discriminate].
  destruct (fill_order o (f_amt f) (f_price f)) as [o'|] eqn:Ef; [|discriminate].
  eapply set_nth_Forall; eauto.
  eapply fill_order_wf; eauto; [eapply nth_error_Forall; eauto|lia].
Qed.

Lemma apply_fills_wf fs : forall os os', Forall wf_order os -> Forall good_fill fs ->
  apply_fills os fs = Some os' -> Forall wf_order os'.
Proof.
  induction fs as [|f r IH]; intros os os' HF HG H; cbn in H.
  - injection H as <-. exact HF.
  - destruct (apply_fill os f) as [os1|] eqn:E; [|discriminate].
    inversion HG; subst. eapply (IH os1); eauto. eapply apply_fill_wf; eauto.
Qed.

Lemma apply_fills_app fs1 : forall os fs2,
  apply_fills os (fs1 ++ fs2) =
  match apply_fills os fs1 with Some os1 => apply_fills os1 fs2 | None => None end.
Proof.
  induction fs1 as [|f r IH]; intros; cbn; [reflexivity|].
  destruct (apply_fill os f); [apply IH|reflexivity].
Qed.

(* positivity: an order that has been filled has received something *)
Definition pos_order (o : order) : Prop := o_open o < o_amt o -> 0 < o_recv o.

Lemma fill_order_pos o f o' : wf_order o -> pos_order o -> good_fill f -> f_dir f = o_dir o ->
  fill_order o (f_amt f) (f_price f) = Some o' -> pos_order o'.
Proof.
  intros (Ho & Hpd & Hr & _ & _) Hpos (Ha & Hp & Hs) Hd Hf.
  pose proof (fill_order_spec _ _ _ _ Hf) as (_ & _ & _ & _ & Hamt & _ & _ & _ & Hopen & Hrest).
  unfold pos_order. intros _. destruct (o_dir o) eqn:Hdir.
  - destruct Hrest as [_ ->]. lia.
  - destruct Hrest as [_ ->]. specialize (Hs Hd). lia.
Qed.

Lemma dir_eqb_eq a b : dir_eqb a b = true -> a = b.
Proof. destruct a, b; cbn; congruence. Qed.

Lemma apply_fills_pos fs : forall os os', Forall wf_order os -> Forall pos_order os -> Forall good_fill fs ->
  apply_fills os fs = Some os' -> Forall pos_order os'.
Proof.
  induction fs as [|f r IH]; intros os os' HF HP HG H; cbn in H.
  - injection H as <-. exact HP.
  - destruct (apply_fill os f) as [os1|] eqn:E; [|discriminate].
    inversion HG; subst. eapply (IH os1); eauto; [eapply apply_fill_wf; eauto|].
    unfold apply_fill in E.
    destruct (nth_error os (f_id f)) as [o|] eqn:En; [|discriminate].
    destruct (dir_eqb (f_dir f) (o_dir o)) eqn:Ed; [|discriminate].
    destruct (fill_order o (f_amt f) (f_price f)) as [o'|] eqn:Ef; [|discriminate].
    eapply set_nth_Forall; eauto.
    eapply (fill_order_pos o f o'); eauto.
    + eapply nth_error_Forall; eauto.
    + eapply nth_error_Forall; eauto.
    + apply dir_eqb_eq; exact Ed.
Qed.

(* ================= the known finding: base coin is not conserved ================= *)
Definition fresh (id : nat) (d : dir) (p a off b k : Z) : order := mkOrder id d p a off a 0 0 b k.
Definition price_001 : Z := 10000000000000000.   (* 0.01 *)
(* sells 100 + 100, one buy of 199, all at price 0.01 (offer coin as OfferCoinAmount computes it) *)
Definition witness_F1 : list order :=
  [fresh 0 Sell price_001 100 100 1 1; fresh 1 Sell price_001 100 100 1 2; fresh 2 Buy price_001 199 2 1 3].

Lemma base_refuted :
  exists os lp r, dom_ok os lp = true /\ run_match os lp = Some r /\ kf_C05_1 os lp = true /\
                  base_bought os (r_orders r) = 199 /\ base_sold os (r_orders r) = 100.
Proof.
  exists witness_F1, price_001. eexists. split; [vm_compute; reflexivity|].
  split; [vm_compute; reflexivity|]. split; vm_compute; auto.
Qed.

(* ================= every fill the engine emits is a good fill ================= *)
Lemma matchable_quote_pos o p : wf_order o -> 0 < p -> 0 < matchable_amount o p ->
  0 < quote_floor p (matchable_amount o p).
Proof.
  intros Hwf Hp Hm. unfold matchable_amount in *.
  set (m0 := match o_dir o with Buy => _ | Sell => _ end) in *.
  destruct (Z.eqb_spec (quote_floor p m0) 0); [lia|].
  pose proof (quote_floor_bounds p m0 ltac:(nia)). lia.
Qed.

Lemma fulfill_good l p : 0 < p -> Forall wf_order l -> Forall good_fill (fulfill_fills l p).
Proof.
  intros Hp HF. unfold fulfill_fills. induction HF as [|o l Ho HF IH]; cbn; [constructor|].
  apply Forall_app. split; [|exact IH].
  destruct (Z.gtb_spec (matchable_amount o p) 0); [|constructor].
  constructor; [|constructor]. unfold good_fill; cbn. repeat split; try lia.
  intros _. apply matchable_quote_pos; auto.
Qed.

Lemma total_matchable_nonneg l p : 0 < p -> Forall wf_order l -> 0 <= total_matchable l p.
Proof.
  intros Hp HF. unfold total_matchable. induction HF as [|o l Ho HF IH]; cbn; [lia|].
  pose proof (matchable_nonneg o p Ho Hp). lia.
Qed.

(* first pass of DistributeOrderAmountToOrders: each share is within the order's matchable amount
   and the shares never add up to more than the amount *)
Lemma pass1_one_bound T amt p o : wf_order o -> 0 < p -> 0 < T -> 0 <= amt ->
  0 <= mp_val (dist_pass1_one T amt p o) <= matchable_amount o p /\
  mp_val (dist_pass1_one T amt p o) * T <= amt * o_amt o.
Proof.
  intros Hwf Hp HT Hamt. dec_consts. pose proof (matchable_nonneg o p Hwf Hp) as Hm.
  destruct Hwf as (_ & _ & _ & _ & Ha). unfold dist_pass1_one.
  destruct (Z.eqb_spec (matchable_amount o p) 0); cbn [mp_val]; [nia|].
  remember (dquo_trunc (dec_of_int (o_amt o)) (dec_of_int T)) as prop eqn:Eprop.
  assert (Hd0 : 0 <= dec_of_int (o_amt o)) by (unfold dec_of_int; nia).
  assert (Hd1 : 0 < dec_of_int T) by (unfold dec_of_int; nia).
  pose proof (dquo_trunc_bounds _ _ Hd0 Hd1) as [Hq _]. pose proof (dquo_trunc_nonneg _ _ Hd0 Hd1) as Hq0.
  rewrite <- Eprop in Hq, Hq0. clear Eprop. unfold dec_of_int in Hq.
  assert (HpT : prop * T <= o_amt o * P18).
  { apply Z.mul_le_mono_pos_r with (p := P18); lia. }
  unfold dmul_int.
  pose proof (dtrunc_int_bounds (prop * amt) ltac:(nia)) as (Hx0 & Hx1 & _).
  remember (dtrunc_int (prop * amt)) as x eqn:Ex. clear Ex.
  assert (HxT : x * T <= amt * o_amt o).
  { apply Z.mul_le_mono_pos_r with (p := P18); [lia|].
    assert (x * P18 * T <= prop * amt * T) by (apply Z.mul_le_mono_nonneg_r; lia).
    assert (prop * T * amt <= o_amt o * P18 * amt) by (apply Z.mul_le_mono_nonneg_r; lia). lia. }
  destruct (Z.gtb_spec (Z.min (matchable_amount o p) x) 0); cbn [mp_val]; [|nia].
  split; [lia|].
  assert (Z.min (matchable_amount o p) x * T <= x * T) by (apply Z.mul_le_mono_nonneg_r; lia). lia.
Qed.

Definition mp_ok (p : Z) (orders : list order) (mp : list (option Z)) : Prop :=
  Forall2 (fun o x => 0 <= mp_val x <= matchable_amount o p) orders mp.

Lemma pass1_ok T amt p l : Forall wf_order l -> 0 < p -> 0 < T -> 0 <= amt ->
  mp_ok p l (map (dist_pass1_one T amt p) l) /\
  mp_sum (map (dist_pass1_one T amt p) l) * T <= amt * total_amount l.
Proof.
  intros HF Hp HT Ha. unfold mp_ok, mp_sum, total_amount.
  induction HF as [|o l Ho HF [IH1 IH2]]; cbn; [split; [constructor|lia]|].
  pose proof (pass1_one_bound T amt p o Ho Hp HT Ha) as [B1 B2].
  split; [constructor; auto|]. lia.
Qed.

Lemma total_amount_pos l : Forall wf_order l -> l <> [] -> 0 < total_amount l.
Proof.
  intros HF Hne. unfold total_amount. destruct HF as [|o l Ho HF]; [congruence|]. cbn.
  assert (0 <= zsum (map o_amt l)).
  { clear -HF. induction HF as [|x r Hx _ IH]; cbn; [lia|]. destruct Hx as (_ & _ & _ & _ & ?). lia. }
  destruct Ho as (_ & _ & _ & _ & ?). lia.
Qed.

Lemma pass2_ok p orders : forall mp rem, mp_ok p orders mp -> 0 <= rem ->
  mp_ok p orders (dist_pass2 p orders mp rem).
Proof.
  induction orders as [|o r IH]; intros mp rem H Hrem; inversion H; subst; cbn; [constructor|].
  destruct (Z.eqb_spec rem 0); [exact H|].
  constructor; [cbn [mp_val]; lia|]. apply IH; [assumption|lia].
Qed.

Lemma dist_split_Forall (P : order -> Prop) p orders : forall mp ms ns,
  Forall P orders -> dist_split p orders mp = (ms, ns) -> Forall P ms /\ Forall P ns.
Proof.
  induction orders as [|o r IH]; intros mp ms ns HF H; cbn in H.
  - injection H as <- <-. split; constructor.
  - destruct mp as [|x mp']; [injection H as <- <-; split; constructor|].
    destruct (dist_split p r mp') as (ms', ns') eqn:E. inversion HF; subst.
    destruct (IH mp' ms' ns' ltac:(assumption) E) as [A B].
    destruct (dist_is_matched p o x); injection H as <- <-; split; auto.
Qed.

Lemma dist_fills_good p orders : forall mp ms, 0 < p -> mp_ok p orders mp ->
  dist_split p orders mp = (ms, []) -> Forall good_fill (dist_fills p orders mp).
Proof.
  induction orders as [|o r IH]; intros mp ms Hp H Hs; inversion H; subst; cbn in *; [constructor|].
  destruct (dist_split p r l') as (ms', ns') eqn:E.
  destruct (dist_is_matched p o y) eqn:Em; [|discriminate]. injection Hs as <- ->.
  specialize (IH l' ms' Hp ltac:(assumption) E).
  destruct y as [m|]; [|exact IH]. constructor; [|exact IH].
  unfold dist_is_matched in Em. cbn [mp_val] in *. unfold good_fill; cbn.
  repeat split; try lia. intros Hd. rewrite Hd in Em. cbn in Em. lia.
Qed.

Lemma removelast_Forall {A} (P : A -> Prop) l : Forall P l -> Forall P (removelast l).
Proof.
  induction 1 as [|x r Hx HF IH]; cbn; [constructor|]. destruct r; [constructor|]. constructor; auto.
Qed.

Lemma pass12_ok orders amt p : Forall wf_order orders -> 0 < p -> 0 <= amt ->
  mp_ok p orders (dist_pass2 p orders (map (dist_pass1_one (total_amount orders) amt p) orders)
                             (amt - mp_sum (map (dist_pass1_one (total_amount orders) amt p) orders))).
Proof.
  intros HF Hp Ha. destruct (list_eq_dec Z.eq_dec (map o_amt orders) []) as [E|E].
  - destruct orders; [cbn; constructor|discriminate].
  - assert (HT : 0 < total_amount orders).
    { apply total_amount_pos; [assumption|]. intros ->. apply E. reflexivity. }
    destruct (pass1_ok (total_amount orders) amt p orders HF Hp HT Ha) as [A B].
    apply pass2_ok; [exact A|]. nia.
Qed.

Lemma distribute_unfold f orders amt p :
  distribute_to_orders (S f) orders amt p =
  let total := total_amount orders in
  let mp1 := map (dist_pass1_one total amt p) orders in
  let mp2 := dist_pass2 p orders mp1 (amt - mp_sum mp1) in
  let (ms, ns) := dist_split p orders mp2 in
  match ns with
  | [] => Some (dist_fills p orders mp2, false)
  | _ :: _ =>
      match (match ms with
             | [] => distribute_to_orders f (removelast orders) amt p
             | _ :: _ => distribute_to_orders f ms amt p
             end) with
      | Some (fs, _) => Some (fs, true)
      | None => None
      end
  end.
Proof. reflexivity. Qed.

Lemma distribute_good fuel : forall orders amt p fs b, Forall wf_order orders -> 0 < p -> 0 <= amt ->
  distribute_to_orders fuel orders amt p = Some (fs, b) -> Forall good_fill fs.
Proof.
  induction fuel as [|f IH]; intros orders amt p fs b HF Hp Ha H; [discriminate|].
  rewrite distribute_unfold in H. cbv zeta in H.
  pose proof (pass12_ok orders amt p HF Hp Ha) as Hok2.
  destruct (dist_split p orders _) as (ms, ns) eqn:Es.
  destruct ns as [|n ns'].
  - injection H as <- <-. eapply dist_fills_good; eauto.
  - destruct (dist_split_Forall wf_order _ _ _ _ _ HF Es) as [Hms _].
    destruct ms as [|m ms'].
    + destruct (distribute_to_orders f (removelast orders) amt p) as [[fs' b']|] eqn:Er; [|discriminate].
      injection H as <- <-. eapply IH; [| | |exact Er]; auto. apply removelast_Forall; assumption.
    + destruct (distribute_to_orders f (m :: ms') amt p) as [[fs' b']|] eqn:Er; [|discriminate].
      injection H as <- <-. eapply IH; [| | |exact Er]; auto.
Qed.

Arguments distribute_to_orders : simpl never.
Arguments matchable_amount : simpl never.
Arguments total_matchable : simpl never.
Arguments fulfill_fills : simpl never.
Arguments sort_orders : simpl never.
Arguments group_by_batch : simpl never.

(* sorting and grouping only rearrange orders *)
Lemma sort_insert_Forall (P : order -> Prop) x l : P x -> Forall P l -> Forall P (sort_insert x l).
Proof.
  intros Hx HF. induction HF as [|y r Hy HF IH]; cbn; [constructor; auto|].
  destruct (has_priority y x); constructor; auto.
Qed.
Lemma sort_orders_Forall (P : order -> Prop) l : Forall P l -> Forall P (sort_orders l).
Proof. induction 1; cbn; [constructor|]. apply sort_insert_Forall; auto. Qed.

Definition groups_all (P : order -> Prop) (gs : list (Z * list order)) : Prop :=
  Forall (fun g => Forall P (snd g)) gs.

Lemma grp_add_all P gs o : groups_all P gs -> P o -> groups_all P (grp_add gs o).
Proof.
  intros HG Ho. unfold grp_add. destruct (existsb _ gs).
  - induction HG as [|[gb l] r Hg HG IH]; cbn; [constructor|].
    destruct (gb =? o_batch o); constructor; auto. cbn in *. apply Forall_app; split; auto.
  - induction HG as [|[gb l] r Hg HG IH]; cbn; [repeat constructor; auto|].
    destruct (grp_pred (o_batch o) gb).
    + constructor; [cbn; repeat constructor; auto|]. constructor; auto.
    + constructor; auto.
Qed.

Lemma group_by_batch_all P l : Forall P l -> groups_all P (group_by_batch l).
Proof.
  unfold group_by_batch. intros HF.
  assert (G : forall gs, groups_all P gs -> groups_all P (fold_left grp_add l gs)).
  { induction HF as [|o r Ho HF IH]; intros gs HG; cbn; [exact HG|]. apply IH. apply grp_add_all; auto. }
  apply G. constructor.
Qed.

Lemma phase_app_good a b : Forall good_fill (ph_fills a) -> Forall good_fill (ph_fills b) ->
  Forall good_fill (ph_fills (phase_app a b)).
Proof. intros; cbn. apply Forall_app; split; assumption. Qed.

Lemma dist_groups_good groups : forall rem p ph, groups_all wf_order groups -> 0 < p -> 0 <= rem ->
  dist_groups groups rem p = Some ph -> Forall good_fill (ph_fills ph).
Proof.
  induction groups as [|[gb g] rest IH]; intros rem p ph HG Hp Hrem H; cbn in H.
  - injection H as <-. constructor.
  - inversion HG; subst. cbn in *.
    destruct (Z.eqb_spec (total_matchable g p) 0); [eapply IH; eauto|].
    destruct (Z.geb_spec rem (total_matchable g p)).
    + destruct (Z.eqb_spec (rem - total_matchable g p) 0).
      * injection H as <-. cbn. apply fulfill_good; auto.
      * destruct (dist_groups rest (rem - total_matchable g p) p) as [ph'|] eqn:E; [|discriminate].
        injection H as <-. apply phase_app_good; [cbn; apply fulfill_good; auto|].
        eapply IH; [| | |exact E]; auto. lia.
    + destruct (distribute_to_orders _ _ rem p) as [[fs b]|] eqn:E; [|discriminate].
      injection H as <-. cbn. eapply distribute_good; [| | |exact E]; auto.
      apply sort_orders_Forall; assumption.
Qed.

Lemma distribute_to_tick_good l amt p ph : Forall wf_order l -> 0 < p -> 0 <= amt ->
  distribute_to_tick l amt p = Some ph -> Forall good_fill (ph_fills ph).
Proof.
  intros HF Hp Ha H. unfold distribute_to_tick in H.
  eapply dist_groups_good; [| | |exact H]; auto. apply group_by_batch_all; assumption.
Qed.

Lemma sel_Forall (P : order -> Prop) os ids : Forall P os -> Forall P (sel os ids).
Proof.
  intros HF. unfold sel. induction ids as [|i r IH]; cbn; [constructor|].
  apply Forall_app; split; [|exact IH].
  destruct (nth_error os i) eqn:E; [|constructor]. constructor; [|constructor].
  eapply nth_error_Forall; eauto.
Qed.

Lemma distribute_to_ticks_good os p ts : forall rem ph, Forall wf_order os -> 0 < p -> 0 <= rem ->
  distribute_to_ticks os p ts rem = Some ph -> Forall good_fill (ph_fills ph).
Proof.
  induction ts as [|t r IH]; intros rem ph HF Hp Hrem H; cbn in H.
  - injection H as <-. constructor.
  - assert (Hl : Forall wf_order (tick_orders os t)) by (apply sel_Forall; assumption).
    destruct (Z.leb_spec (total_matchable (tick_orders os t) p) rem).
    + destruct (Z.eqb_spec (rem - total_matchable (tick_orders os t) p) 0).
      * injection H as <-. cbn. apply fulfill_good; auto.
      * destruct (distribute_to_ticks os p r _) as [ph'|] eqn:E; [|discriminate].
        injection H as <-. apply phase_app_good; [cbn; apply fulfill_good; auto|].
        eapply IH; [| | |exact E]; auto. lia.
    + eapply distribute_to_tick_good; [| | |exact H]; auto.
Qed.

(* ---------- FindMatchableAmountAtSinglePrice never returns a negative amount ---------- *)
Definition side_ok (s : side) : Prop := snd s = zsum (fst s) /\ Forall (fun x => 0 <= x) (fst s).

Lemma zsum_nonneg l : Forall (fun x => 0 <= x) l -> 0 <= zsum l.
Proof. induction 1; cbn; lia. Qed.

Lemma zsum_app a b : zsum (a ++ b) = zsum a + zsum b.
Proof. induction a; cbn; lia. Qed.

Lemma zsum_rev l : zsum (rev l) = zsum l.
Proof. induction l; cbn; [reflexivity|]. rewrite zsum_app. cbn. lia. Qed.

Lemma mk_side_ok os p ts : 0 < p -> Forall wf_order os -> side_ok (mk_side os p ts).
Proof.
  intros Hp HF. unfold side_ok, mk_side. cbn. split; [symmetry; apply zsum_rev|].
  apply Forall_rev. apply Forall_forall. intros x Hx. apply in_map_iff in Hx as (t & <- & _).
  apply total_matchable_nonneg; [assumption|]. apply sel_Forall; assumption.
Qed.

Lemma fma_loop_nonneg fuel : forall p b s amt, side_ok b -> side_ok s ->
  fma_loop fuel p b s = Some (Some amt) -> 0 < amt.
Proof.
  induction fuel as [|f IH]; intros p b s amt Hb Hs H; cbn in H; [discriminate|].
  destruct b as [[|ta brest] bt]; [discriminate|]. destruct s as [[|sa srest] st]; cbn [snd] in H.
  - destruct (_ && _); discriminate.
  - destruct Hb as [Hb1 Hb2], Hs as [Hs1 Hs2]. cbn in Hb1, Hb2, Hs1, Hs2.
    inversion Hb2; subst. inversion Hs2; subst.
    pose proof (zsum_nonneg _ H3). pose proof (zsum_nonneg _ H5).
    destruct (Z.geb_spec (ta + zsum brest - ta) (Z.min (ta + zsum brest) (sa + zsum srest))) as [Hd|Hd]; cbn [andb orb] in H.
    + destruct (is_nil brest); [discriminate|]. cbn [snd] in H.
      destruct ((_ >=? _) || _); cbn [andb] in H.
      * destruct (is_nil srest); [discriminate|]. eapply IH; [| |exact H]; split; cbn; auto; lia.
      * eapply IH; [| |exact H]; split; cbn; auto; lia.
    + cbn [snd] in H.
      destruct (Z.geb_spec (sa + zsum srest - sa) (Z.min (ta + zsum brest) (sa + zsum srest))) as [Hd2|Hd2]; cbn [andb orb] in H.
      * destruct (is_nil srest); [discriminate|]. eapply IH; [| |exact H]; split; cbn; auto; lia.
      * destruct (quote_floor p _ =? 0); cbn [andb] in H.
        -- destruct (is_nil srest); [discriminate|]. eapply IH; [| |exact H]; split; cbn; auto; lia.
        -- injection H as <-. lia.
Qed.

Lemma find_matchable_pos os bk p amt : 0 < p -> Forall wf_order os ->
  find_matchable os bk p = Some (Some amt) -> 0 < amt.
Proof.
  intros Hp HF H. unfold find_matchable in H.
  destruct (is_nil _); [discriminate|]. destruct (is_nil _); [discriminate|].
  eapply fma_loop_nonneg; [| |exact H]; apply mk_side_ok; assumption.
Qed.

(* ---------- MatchAtSinglePrice ---------- *)
Lemma match_at_single_good os bk p ph : 0 < p -> Forall wf_order os ->
  match_at_single_price os bk p = Some (Some ph) -> Forall good_fill (ph_fills ph).
Proof.
  intros Hp HF H. unfold match_at_single_price in H.
  destruct (find_matchable os bk p) as [[amt|]|] eqn:E; try discriminate.
  pose proof (find_matchable_pos _ _ _ _ Hp HF E).
  destruct (distribute_to_ticks os p (b_buys bk) amt) as [pb|] eqn:Eb; [|discriminate].
  destruct (distribute_to_ticks os p (b_sells bk) amt) as [ps|] eqn:Es; [|discriminate].
  injection H as <-. apply phase_app_good.
  - exact (distribute_to_ticks_good os p _ amt pb HF Hp ltac:(lia) Eb).
  - exact (distribute_to_ticks_good os p _ amt ps HF Hp ltac:(lia) Es).
Qed.

(* a run is realised by its ghost fill list, and the list consists of good fills *)
Definition realised (os : list order) (r : mresult) : Prop :=
  Forall good_fill (r_fills r) /\ apply_fills os (r_fills r) = Some (r_orders r).

Lemma run_single_realised os bk p r : 0 < p -> Forall wf_order os ->
  run_single os bk p = Some r -> realised os r.
Proof.
  intros Hp HF H. unfold run_single in H.
  destruct (match_at_single_price os bk p) as [[ph|]|] eqn:E; try discriminate.
  - destruct (apply_fills os (ph_fills ph)) as [os'|] eqn:Ea; [|discriminate].
    injection H as <-. split; cbn; [eapply match_at_single_good; eauto|exact Ea].
  - injection H as <-. split; cbn; [constructor|reflexivity].
Qed.

(* ---------- Match ---------- *)
Definition ticks_pos (ts : list tick) : Prop := Forall (fun t => 0 < t_price t) ts.

Lemma match_loop_realised fuel : forall d os0 os bs ss mp m fs u r,
  Forall wf_order os0 -> Forall good_fill fs -> apply_fills os0 fs = Some os ->
  ticks_pos bs -> ticks_pos ss ->
  match_loop fuel d os bs ss mp m fs u = Some r -> realised os0 r.
Proof.
  induction fuel as [|f IH]; intros d os0 os bs ss mp m fs u r H0 HG HA Hb Hs H; cbn in H; [discriminate|].
  destruct bs as [|bt brest]; [injection H as <-; split; assumption|].
  destruct ss as [|st srest]; [injection H as <-; split; assumption|].
  destruct (t_price bt >=? t_price st); [|injection H as <-; split; assumption].
  inversion Hb; subst. inversion Hs; subst.
  remember (match d with Decreasing => t_price bt | _ => t_price st end) as p eqn:Ep.
  assert (Hp : 0 < p) by (rewrite Ep; destruct d; assumption). clear Ep.
  assert (Hwf : Forall wf_order os) by (eapply apply_fills_wf; eauto).
  destruct (Z.gtb_spec (total_matchable (tick_orders os bt) p) 0) as [Hbo|Hbo]; cbn [negb] in H;
    [|eapply IH; [| | | | |exact H]; eauto].
  destruct (Z.gtb_spec (total_matchable (tick_orders os st) p) 0) as [Hso|Hso]; cbn [negb] in H;
    [|eapply IH; [| | | | |exact H]; eauto].
  destruct (distribute_to_tick (tick_orders os bt) _ p) as [pb|] eqn:Eb; [|discriminate].
  destruct (distribute_to_tick (tick_orders os st) _ p) as [ps|] eqn:Es; [|discriminate].
  destruct (apply_fills os _) as [os'|] eqn:Ea in H; [|discriminate].
  assert (HGp : Forall good_fill (ph_fills (phase_app pb ps))).
  { apply phase_app_good.
    - refine (distribute_to_tick_good _ _ p pb (sel_Forall _ _ _ Hwf) Hp _ Eb). apply Z.lt_le_incl.
      destruct (Z.leb (total_matchable (tick_orders os bt) p) (total_matchable (tick_orders os st) p)); assumption.
    - refine (distribute_to_tick_good _ _ p ps (sel_Forall _ _ _ Hwf) Hp _ Es). apply Z.lt_le_incl.
      destruct (Z.leb (total_matchable (tick_orders os st) p) (total_matchable (tick_orders os bt) p)); assumption. }
  eapply IH; [exact H0| | | | |exact H].
  - apply Forall_app; split; assumption.
  - rewrite apply_fills_app, HA. exact Ea.
  - match goal with |- context [if ?c then _ else _] => destruct c end; assumption.
  - match goal with |- context [if ?c then _ else _] => destruct c end; assumption.
Qed.

Definition book_pos (bk : book) : Prop := ticks_pos (b_buys bk) /\ ticks_pos (b_sells bk).

Lemma match_book_realised os bk lp r : 0 < lp -> Forall wf_order os -> book_pos bk ->
  match_book os bk lp = Some r -> realised os r.
Proof.
  intros Hp HF [Hb Hs] H. unfold match_book in H.
  destruct (is_nil _ || is_nil _); [injection H as <-; split; cbn; [constructor|reflexivity]|].
  destruct (run_single os bk lp) as [r1|] eqn:E1; [|discriminate].
  pose proof (run_single_realised _ _ _ _ Hp HF E1) as [G1 A1].
  destruct (price_direction os bk lp); [injection H as <-; split; assumption| |];
    exact (match_loop_realised _ _ os (r_orders r1) _ _ _ _ (r_fills r1) _ r HF G1 A1 Hb Hs H).
Qed.

(* NewOrderBook puts every order on a tick of its own price *)
Lemma ticks_add_pos incr price id ts : 0 < price -> ticks_pos ts -> ticks_pos (ticks_add incr price id ts).
Proof.
  intros Hp HT. induction HT as [|t r Ht HT IH]; cbn; [repeat constructor; auto|].
  destruct (if incr then _ else _).
  - destruct (t_price t =? price); repeat (constructor; auto).
  - constructor; auto.
Qed.

Lemma new_book_pos os : Forall (fun o => 0 < o_price o) os -> book_pos (new_book os).
Proof.
  unfold new_book. intros HF.
  assert (G : forall bk, book_pos bk -> book_pos (fold_left book_add os bk)).
  { induction HF as [|o r Ho HF IH]; intros bk Hbk; cbn; [exact Hbk|]. apply IH.
    unfold book_add. destruct (_ >? 0); [|exact Hbk]. destruct Hbk as [A B].
    destruct (o_dir o); split; cbn; auto; apply ticks_add_pos; auto. }
  apply G. split; constructor.
Qed.

Lemma dom_order_wf o : dom_order o = true -> wf_order o /\ 0 < o_price o.
Proof.
  unfold dom_order, wf_order. intros H. destruct (o_dir o) eqn:Hd; repeat split; try lia; try discriminate.
Qed.

Lemma dom_ok_wf os p : dom_ok os p = true ->
  0 < p /\ Forall wf_order os /\ Forall (fun o => 0 < o_price o) os.
Proof.
  unfold dom_ok. intros H. apply andb_prop in H as [Hp H]. split; [lia|].
  rewrite forallb_forall in H. split; apply Forall_forall; intros o Ho; apply dom_order_wf; auto.
Qed.

(* the three entry points *)
Theorem run_match_sound os lp r : dom_ok os lp = true -> Forall pos_order os ->
  run_match os lp = Some r ->
  realised os r /\ Forall wf_order (r_orders r) /\ Forall pos_order (r_orders r).
Proof.
  intros Hd HP H. destruct (dom_ok_wf _ _ Hd) as (Hp & HF & Hpr).
  pose proof (match_book_realised _ _ _ _ Hp HF (new_book_pos _ Hpr) H) as [G A].
  split; [split; assumption|]. split; [eapply apply_fills_wf; eauto|eapply apply_fills_pos; eauto].
Qed.

Theorem run_single_sound os p r : dom_ok os p = true -> Forall pos_order os ->
  run_single_price os p = Some r ->
  realised os r /\ Forall wf_order (r_orders r) /\ Forall pos_order (r_orders r).
Proof.
  intros Hd HP H. destruct (dom_ok_wf _ _ Hd) as (Hp & HF & Hpr).
  pose proof (run_single_realised _ _ _ _ Hp HF H) as [G A].
  split; [split; assumption|]. split; [eapply apply_fills_wf; eauto|eapply apply_fills_pos; eauto].
Qed.

(* ================= the ledger of a fill list ================= *)
Definition fill_buy_amt (f : fill) : Z := match f_dir f with Buy => f_amt f | Sell => 0 end.
Definition fill_sell_amt (f : fill) : Z := match f_dir f with Sell => f_amt f | Buy => 0 end.
Definition fills_bought (fs : list fill) : Z := zsum (map fill_buy_amt fs).
Definition fills_sold (fs : list fill) : Z := zsum (map fill_sell_amt fs).

Lemma apply_fill_ledger os f os' : apply_fill os f = Some os' ->
  zsum_by o_recv Buy os' = zsum_by o_recv Buy os + fill_buy_amt f /\
  zsum_by o_paid Sell os' = zsum_by o_paid Sell os + fill_sell_amt f /\
  zsum_by o_paid Buy os' - zsum_by o_recv Sell os' =
    zsum_by o_paid Buy os - zsum_by o_recv Sell os + fill_qdiff f.
Proof.
  unfold apply_fill. destruct (nth_error os (f_id f)) as [o|] eqn:En; [|discriminate].
  destruct (dir_eqb (f_dir f) (o_dir o)) eqn:Ed; [|discriminate]. apply dir_eqb_eq in Ed.
  destruct (fill_order o (f_amt f) (f_price f)) as [o'|] eqn:Ef; [|discriminate]. intros Hs.
  pose proof (fill_order_spec _ _ _ _ Ef) as (_ & _ & Hd & _ & _ & _ & _ & _ & _ & Hrest).
  unfold zsum_by, fill_buy_amt, fill_sell_amt, fill_qdiff.
  rewrite !(set_nth_sum _ os (f_id f) o' os' o Hs En). rewrite Hd, Ed.
  destruct (o_dir o); destruct Hrest as [-> ->]; cbn; lia.
Qed.

Lemma apply_fills_ledger fs : forall os os', apply_fills os fs = Some os' ->
  base_bought os os' = fills_bought fs /\ base_sold os os' = fills_sold fs /\
  quote_paid os os' - quote_recv os os' = fills_qdiff fs.
Proof.
  unfold base_bought, base_sold, quote_paid, quote_recv, fills_bought, fills_sold, fills_qdiff.
  induction fs as [|f r IH]; intros os os' H; cbn in H.
  - injection H as <-. cbn. lia.
  - destruct (apply_fill os f) as [os1|] eqn:E; [|discriminate].
    pose proof (apply_fill_ledger _ _ _ E) as (A & B & C). destruct (IH _ _ H) as (A' & B' & C'). cbn. lia.
Qed.

(* rounding dust of a fill list whose exact quote value is balanced *)
Definition fill_value (f : fill) : Z :=
  match f_dir f with Buy => f_price f * f_amt f | Sell => - (f_price f * f_amt f) end.
Definition fills_value (fs : list fill) : Z := zsum (map fill_value fs).

Lemma fills_dust fs : Forall good_fill fs ->
  fills_value fs <= fills_qdiff fs * P18 /\
  fills_qdiff fs * P18 + zlen fs <= fills_value fs + zlen fs * P18.
Proof.
  unfold fills_value, fills_qdiff, zlen. induction 1 as [|f r (Ha & Hp & _) HF IH].
  - cbn. lia.
  - cbn [map zsum length]. rewrite Nat2Z.inj_succ.
    assert (Hf : fill_value f <= fill_qdiff f * P18 /\ fill_qdiff f * P18 + 1 <= fill_value f + P18).
    { unfold fill_value, fill_qdiff.
      pose proof (quote_ceil_bounds (f_price f) (f_amt f) ltac:(nia)).
      pose proof (quote_floor_bounds (f_price f) (f_amt f) ltac:(nia)).
      destruct (f_dir f); lia. }
    lia.
Qed.

Lemma quote_dust fs : Forall good_fill fs -> fills_value fs = 0 ->
  0 <= fills_qdiff fs /\ fills_qdiff fs < Z.max 1 (zlen fs).
Proof.
  intros HG HV. destruct (fills_dust fs HG) as [A B]. rewrite HV in *. dec_consts.
  assert (0 <= zlen fs) by (unfold zlen; lia). split; [nia|].
  destruct (Z.eq_dec (zlen fs) 0) as [E|E]; [rewrite E in *; nia|]. nia.
Qed.

(* one fill against an order's limit price: a buy filled at p <= L pays less than L*a + 1, a sell
   filled at p >= L receives more than L*a - 1 *)
Lemma fill_limit_buy p L a : 0 <= a -> 0 <= p <= L ->
  quote_ceil p a * P18 < L * a + P18.
Proof. intros Ha Hp. pose proof (quote_ceil_bounds p a ltac:(nia)). nia. Qed.

Lemma fill_limit_sell p L a : 0 <= a -> 0 <= L <= p ->
  L * a - P18 < quote_floor p a * P18.
Proof. intros Ha Hp. pose proof (quote_floor_bounds p a ltac:(nia)). nia. Qed.

(* the laws of a single fill *)
Lemma fill_laws_lemma o a p o' : wf_order o -> 0 < p -> 0 <= a -> fill_order o a p = Some o' ->
  a <= matchable_amount o p /\ o_open o' = o_open o - a /\ 0 <= o_open o' /\ o_paid o' <= o_offer o' /\
  match o_dir o with
  | Buy => o_paid o' - o_paid o = quote_ceil p a /\ o_recv o' - o_recv o = a /\
           p * a <= quote_ceil p a * P18 < p * a + P18
  | Sell => o_paid o' - o_paid o = a /\ o_recv o' - o_recv o = quote_floor p a /\
            quote_floor p a * P18 <= p * a < quote_floor p a * P18 + P18
  end.
Proof.
  intros Hwf Hp Ha Hf. pose proof (fill_order_wf _ _ _ _ Hwf Hp Ha Hf) as (Ho' & Hp' & _).
  pose proof (fill_order_spec _ _ _ _ Hf) as (Hm & _ & _ & _ & _ & _ & _ & _ & Hopen & Hrest).
  repeat split; try lia.
  destruct (o_dir o); destruct Hrest as [-> ->].
  - pose proof (quote_ceil_bounds p a ltac:(nia)). repeat split; lia.
  - pose proof (quote_floor_bounds p a ltac:(nia)). repeat split; lia.
Qed.
