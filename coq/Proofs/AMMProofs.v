(* Proofs about Model/AMM.v (property C05). *)
From Comdex Require Import Lib.Base Lib.DecArith Lib.DecFacts Model.AMM.
From Coq Require Import ZifyBool Lia.

(* ================= rounding of the quote amount ================= *)
Lemma quote_floor_bounds p a : 0 <= p * a ->
  0 <= quote_floor p a /\ quote_floor p a * P18 <= p * a < (quote_floor p a + 1) * P18.
Proof. intros H. unfold quote_floor, dmul_int. apply dtrunc_int_bounds; exact H. Qed.

Lemma quote_ceil_bounds p a : 0 <= p * a ->
  0 <= quote_ceil p a /\ p * a <= quote_ceil p a * P18 < p * a + P18.
Proof.
  intros H. dec_consts. unfold quote_ceil, dceil_int, dceil, dmul_int.
  rewrite Z.quot_div_nonneg, Z.rem_mod_nonneg by lia.
  pose proof (Z.div_mod (p * a) P18 ltac:(lia)). pose proof (Z.mod_pos_bound (p * a) P18 ltac:(lia)).
  assert (0 <= p * a / P18) by (apply Z.div_pos; lia).
  destruct (Z.eqb_spec ((p * a) mod P18) 0).
  - rewrite Z.div_mul by lia. nia.
  - destruct (Z.ltb_spec ((p * a) mod P18) 0); [lia|]. rewrite Z.div_mul by lia. nia.
Qed.

Lemma quote_floor_le_ceil p a : 0 <= p * a -> quote_floor p a <= quote_ceil p a.
Proof.
  intros H. dec_consts. pose proof (quote_floor_bounds p a H). pose proof (quote_ceil_bounds p a H). nia.
Qed.

(* ================= MatchableAmount ================= *)
Definition wf_order (o : order) : Prop :=
  0 <= o_open o <= o_amt o /\ 0 <= o_paid o <= o_offer o /\ 0 <= o_recv o /\
  (o_dir o = Sell -> o_paid o + o_open o <= o_offer o).

Lemma matchable_nonneg o p : wf_order o -> 0 < p -> 0 <= matchable_amount o p.
Proof.
  intros (Ho & Hp & _) Hpp. unfold matchable_amount.
  set (m := match o_dir o with Buy => _ | Sell => _ end).
  assert (0 <= m).
  { subst m. destruct (o_dir o); [|lia].
    apply Z.min_glb; [lia|]. apply dtrunc_int_bounds. apply dquo_trunc_nonneg; [|lia].
    unfold dec_of_int. dec_consts. nia. }
  destruct (_ =? 0); lia.
Qed.

Lemma matchable_le_open o p : wf_order o -> matchable_amount o p <= o_open o.
Proof.
  intros (Ho & _). unfold matchable_amount.
  set (m := match o_dir o with Buy => _ | Sell => _ end).
  assert (m <= o_open o) by (subst m; destruct (o_dir o); lia).
  destruct (_ =? 0); lia.
Qed.

(* a buy order can pay for its matchable amount out of its remaining offer coin *)
Lemma matchable_buy_affordable o p a : wf_order o -> 0 < p -> o_dir o = Buy ->
  0 <= a <= matchable_amount o p -> quote_ceil p a <= o_offer o - o_paid o.
Proof.
  intros (Ho & Hp & _) Hpp Hd Ha. dec_consts. unfold matchable_amount in Ha. rewrite Hd in Ha.
  remember (o_offer o - o_paid o) as R eqn:ER.
  remember (dquo_trunc (dec_of_int R) p) as q eqn:Eq.
  assert (HR : 0 <= dec_of_int R) by (unfold dec_of_int; nia).
  pose proof (dquo_trunc_bounds (dec_of_int R) p HR Hpp) as [Hq _]. rewrite <- Eq in Hq.
  pose proof (dquo_trunc_nonneg (dec_of_int R) p HR Hpp) as Hq0. rewrite <- Eq in Hq0. clear Eq.
  pose proof (dtrunc_int_bounds q Hq0) as (Ht0 & Ht1 & _).
  assert (Hat : a <= dtrunc_int q).
  { destruct (_ =? 0) in Ha; lia. }
  unfold dec_of_int in Hq.
  assert (Haq : a * P18 <= q) by nia.
  assert (a * P18 * p <= q * p) by (apply Z.mul_le_mono_nonneg_r; lia).
  assert ((a * p) * P18 <= (R * P18) * P18) by lia.
  assert (a * p <= R * P18) by (apply Z.mul_le_mono_pos_r with (p := P18); lia).
  pose proof (quote_ceil_bounds p a ltac:(nia)) as (_ & _ & Hc). nia.
Qed.

(* ================= fill laws ================= *)
(* FillOrder: what a fill books, and what its guard implies *)
Lemma fill_order_spec o a p o' : fill_order o a p = Some o' ->
  a <= matchable_amount o p /\
  o_id o' = o_id o /\ o_dir o' = o_dir o /\ o_price o' = o_price o /\ o_amt o' = o_amt o /\
  o_offer o' = o_offer o /\ o_batch o' = o_batch o /\ o_key o' = o_key o /\
  o_open o' = o_open o - a /\
  match o_dir o with
  | Buy => o_paid o' = o_paid o + quote_ceil p a /\ o_recv o' = o_recv o + a
  | Sell => o_paid o' = o_paid o + a /\ o_recv o' = o_recv o + quote_floor p a
  end.
Proof.
  unfold fill_order. destruct (Z.gtb_spec a (matchable_amount o p)); [discriminate|].
  intros [= <-]. destruct (o_dir o) eqn:Hd; cbn; rewrite ?Hd; repeat split; auto; lia.
Qed.

Lemma fill_order_wf o a p o' : wf_order o -> 0 < p -> 0 <= a ->
  fill_order o a p = Some o' -> wf_order o'.
Proof.
  intros Hwf Hp Ha Hf. pose proof (fill_order_spec _ _ _ _ Hf) as (Hm & _ & Hd & _ & Hamt & Hoff & _ & _ & Hopen & Hrest).
  pose proof (matchable_le_open o p Hwf). destruct Hwf as (Ho & Hpd & Hr & Hs) eqn:E. clear E.
  unfold wf_order. rewrite Hd, Hamt, Hoff, Hopen.
  destruct (o_dir o) eqn:Hdir.
  - destruct Hrest as [-> ->].
    pose proof (matchable_buy_affordable o p a ltac:(unfold wf_order; auto) Hp Hdir ltac:(lia)).
    pose proof (quote_ceil_bounds p a ltac:(nia)) as (? & _).
    repeat split; try lia. discriminate.
  - destruct Hrest as [-> ->]. specialize (Hs eq_refl).
    pose proof (quote_floor_bounds p a ltac:(nia)) as (? & _).
    repeat split; try lia.
Qed.

(* ================= lists with one position replaced ================= *)
Lemma set_nth_Forall {A} (P : A -> Prop) l i v l' :
  set_nth l i v = Some l' -> Forall P l -> P v -> Forall P l'.
Proof.
  revert i l'. induction l as [|x r IH]; intros [|i] l' H HF Hv; cbn in H; try discriminate.
  - injection H as <-. inversion HF; constructor; auto.
  - destruct (set_nth r i v) eqn:E; [|discriminate]. injection H as <-.
    inversion HF; subst. constructor; eauto.
Qed.

Lemma nth_error_Forall {A} (P : A -> Prop) l i x : nth_error l i = Some x -> Forall P l -> P x.
Proof. intros H HF. rewrite Forall_forall in HF. apply HF. eapply nth_error_In; eauto. Qed.

Lemma set_nth_length {A} (l : list A) i v l' : set_nth l i v = Some l' -> length l' = length l.
Proof.
  revert i l'. induction l as [|x r IH]; intros [|i] l' H; cbn in H; try discriminate.
  - injection H as <-. reflexivity.
  - destruct (set_nth r i v) eqn:E; [|discriminate]. injection H as <-. cbn. f_equal. eauto.
Qed.

Lemma set_nth_sum {A} (g : A -> Z) l i v l' x :
  set_nth l i v = Some l' -> nth_error l i = Some x ->
  zsum (map g l') = zsum (map g l) - g x + g v.
Proof.
  revert i l'. induction l as [|y r IH]; intros [|i] l' H Hn; cbn in H, Hn; try discriminate.
  - injection H as <-. injection Hn as ->. cbn. lia.
  - destruct (set_nth r i v) as [r'|] eqn:E; [|discriminate]. injection H as <-. cbn.
    rewrite (IH i r' E Hn). lia.
Qed.

(* ================= the fill list ================= *)
(* a fill the engine may emit: a positive amount at a positive price, and a sell fill is worth at
   least one quote unit *)
Definition good_fill (f : fill) : Prop :=
  0 < f_amt f /\ 0 < f_price f /\ (f_dir f = Sell -> 0 < quote_floor (f_price f) (f_amt f)).

Lemma apply_fill_wf os f os' : Forall wf_order os -> good_fill f ->
  apply_fill os f = Some os' -> Forall wf_order os'.
Proof.
  intros HF (Ha & Hp & _) H. unfold apply_fill in H.
  destruct (nth_error os (f_id f)) as [o|] eqn:En; [|discriminate].
  destruct (dir_eqb (f_dir f) (o_dir o)); [|discriminate].
  destruct (fill_order o (f_amt f) (f_price f)) as [o'|] eqn:Ef; [|discriminate].
  eapply set_nth_Forall; eauto.
  eapply fill_order_wf; eauto; [eapply nth_error_Forall; eauto|lia].
Qed.

Lemma apply_fills_wf fs : forall os os', Forall wf_order os -> Forall good_fill fs ->
  apply_fills os fs = Some os' -> Forall wf_order os'.
Proof.
  induction fs as [|f r IH]; intros os os' HF HG H; cbn in H.
  - injection H as <-. exact HF.
  - destruct (apply_fill os f) as [os1|] eqn:E; [|discriminate].
    inversion HG; subst. eapply (IH os1); eauto. eapply apply_fill_wf; eauto.
Qed.

Lemma apply_fills_app fs1 : forall os fs2,
  apply_fills os (fs1 ++ fs2) =
  match apply_fills os fs1 with Some os1 => apply_fills os1 fs2 | None => None end.
Proof.
  induction fs1 as [|f r IH]; intros; cbn; [reflexivity|].
  destruct (apply_fill os f); [apply IH|reflexivity].
Qed.

(* positivity: an order that has been filled has received something *)
Definition pos_order (o : order) : Prop := o_open o < o_amt o -> 0 < o_recv o.

Lemma fill_order_pos o f o' : wf_order o -> pos_order o -> good_fill f -> f_dir f = o_dir o ->
  fill_order o (f_amt f) (f_price f) = Some o' -> pos_order o'.
Proof.
  intros (Ho & Hpd & Hr & _) Hpos (Ha & Hp & Hs) Hd Hf.
  pose proof (fill_order_spec _ _ _ _ Hf) as (_ & _ & _ & _ & Hamt & _ & _ & _ & Hopen & Hrest).
  unfold pos_order. intros _. destruct (o_dir o) eqn:Hdir.
  - destruct Hrest as [_ ->]. lia.
  - destruct Hrest as [_ ->]. specialize (Hs Hd). lia.
Qed.

Lemma dir_eqb_eq a b : dir_eqb a b = true -> a = b.
Proof. destruct a, b; cbn; congruence. Qed.

Lemma apply_fills_pos fs : forall os os', Forall wf_order os -> Forall pos_order os -> Forall good_fill fs ->
  apply_fills os fs = Some os' -> Forall pos_order os'.
Proof.
  induction fs as [|f r IH]; intros os os' HF HP HG H; cbn in H.
  - injection H as <-. exact HP.
  - destruct (apply_fill os f) as [os1|] eqn:E; [|discriminate].
    inversion HG; subst. eapply (IH os1); eauto; [eapply apply_fill_wf; eauto|].
    unfold apply_fill in E.
    destruct (nth_error os (f_id f)) as [o|] eqn:En; [|discriminate].
    destruct (dir_eqb (f_dir f) (o_dir o)) eqn:Ed; [|discriminate].
    destruct (fill_order o (f_amt f) (f_price f)) as [o'|] eqn:Ef; [|discriminate].
    eapply set_nth_Forall; eauto.
    eapply (fill_order_pos o f o'); eauto.
    + eapply nth_error_Forall; eauto.
    + eapply nth_error_Forall; eauto.
    + apply dir_eqb_eq; exact Ed.
Qed.

(* ================= the known finding: base coin is not conserved ================= *)
Definition fresh (id : nat) (d : dir) (p a off b k : Z) : order := mkOrder id d p a off a 0 0 b k.
Definition price_001 : Z := 10000000000000000.   (* 0.01 *)
(* sells 100 + 100, one buy of 199, all at price 0.01 (offer coin as OfferCoinAmount computes it) *)
Definition witness_F1 : list order :=
  [fresh 0 Sell price_001 100 100 1 1; fresh 1 Sell price_001 100 100 1 2; fresh 2 Buy price_001 199 2 1 3].

Lemma base_refuted :
  exists os lp r, dom_ok os lp = true /\ run_match os lp = Some r /\ kf_C05_1 os lp = true /\
                  base_bought os (r_orders r) = 199 /\ base_sold os (r_orders r) = 100.
Proof.
  exists witness_F1, price_001. eexists. split; [vm_compute; reflexivity|].
  split; [vm_compute; reflexivity|]. split; vm_compute; auto.
Qed.
