(* Invariants of Model/Locker.v, one step at a time, lifted to every finite history. *)
From Comdex Require Import Lib.Base Lib.DecArith Model.Collector Model.Locker Proofs.CollectorProofs.
From Coq Require Import ZifyBool.

(* ------------------------------------------------------------------------------------ *)
(* lists of lockers                                                                       *)
Definition fsum (P : locker -> bool) (l : list locker) : Z := net_sum (filter P l).
Arguments fsum : simpl never.

Lemma fsum_cons P x l : fsum P (x :: l) = (if P x then l_net x else 0) + fsum P l.
Proof. unfold fsum, net_sum. cbn. destruct (P x); cbn; lia. Qed.

Lemma fsum_nil P : fsum P [] = 0. Proof. reflexivity. Qed.

Lemma fsum_app P l1 l2 : fsum P (l1 ++ l2) = fsum P l1 + fsum P l2.
Proof. induction l1 as [|x r IH]; [unfold fsum, net_sum; cbn; lia|]. cbn [app]. rewrite !fsum_cons, IH. lia. Qed.

Lemma find_some l id x : find_locker l id = Some x -> In x l /\ l_id x = id.
Proof.
  induction l as [|y r IH]; cbn; [discriminate|]. destruct (Z.eqb_spec (l_id y) id).
  - intros H; injection H as <-. auto.
  - intros H. destruct (IH H). auto.
Qed.

Lemma find_none l id : find_locker l id = None -> ~ In id (map l_id l).
Proof.
  induction l as [|y r IH]; cbn; [tauto|]. destruct (Z.eqb_spec (l_id y) id); [discriminate|].
  intros H [H1|H1]; [contradiction|]. exact (IH H H1).
Qed.

Lemma find_in_nodup l x : NoDup (map l_id l) -> In x l -> find_locker l (l_id x) = Some x.
Proof.
  induction l as [|y r IH]; cbn; [tauto|]. intros Hnd [->|Hin].
  - rewrite Z.eqb_refl. reflexivity.
  - inversion Hnd as [|? ? Hni Hnd']; subst. destruct (Z.eqb_spec (l_id y) (l_id x)) as [E|E].
    + exfalso. apply Hni. rewrite E. apply in_map. exact Hin.
    + apply IH; assumption.
Qed.

Lemma put_found l v old :
  find_locker l (l_id v) = Some old ->
  map l_id (put_locker l v) = map l_id l /\
  (forall P, fsum P (put_locker l v) = fsum P l - (if P old then l_net old else 0) + (if P v then l_net v else 0)) /\
  (forall x, In x (put_locker l v) -> x = v \/ In x l).
Proof.
  induction l as [|y r IH]; cbn; [discriminate|]. destruct (Z.eqb_spec (l_id y) (l_id v)) as [E|E].
  - intros H; injection H as <-. cbn. rewrite E. split; [reflexivity|]. split.
    + intros P. rewrite !fsum_cons. lia.
    + intros x [->|Hx]; auto.
  - intros H. destruct (IH H) as (H1 & H2 & H3). cbn. rewrite H1. split; [reflexivity|]. split.
    + intros P. rewrite !fsum_cons, H2. lia.
    + intros x [->|Hx]; [auto|]. destruct (H3 x Hx); auto.
Qed.

Lemma put_new l v :
  find_locker l (l_id v) = None -> put_locker l v = l ++ [v].
Proof.
  induction l as [|y r IH]; cbn; [reflexivity|]. destruct (Z.eqb_spec (l_id y) (l_id v)); [discriminate|].
  intros H. rewrite (IH H). reflexivity.
Qed.

Lemma find_put l v id :
  find_locker (put_locker l v) id = if id =? l_id v then Some v else find_locker l id.
Proof.
  induction l as [|y r IH]; cbn.
  - rewrite (Z.eqb_sym id). reflexivity.
  - destruct (Z.eqb_spec (l_id y) (l_id v)) as [E|E]; cbn.
    + rewrite (Z.eqb_sym id). destruct (Z.eqb_spec (l_id v) id) as [E1|E1]; [reflexivity|].
      destruct (Z.eqb_spec (l_id y) id); [congruence|reflexivity].
    + destruct (Z.eqb_spec (l_id y) id) as [E1|E1].
      * destruct (Z.eqb_spec id (l_id v)); [congruence|reflexivity].
      * exact IH.
Qed.

Lemma del_found l id old :
  find_locker l id = Some old ->
  (forall P, fsum P (del_locker l id) = fsum P l - (if P old then l_net old else 0)) /\
  (forall x, In x (del_locker l id) -> In x l).
Proof.
  induction l as [|y r IH]; cbn; [discriminate|]. destruct (Z.eqb_spec (l_id y) id) as [E|E].
  - intros H; injection H as <-. split; [intros P; rewrite fsum_cons; lia|auto].
  - intros H. destruct (IH H) as (H1 & H2). split.
    + intros P. rewrite !fsum_cons, H1. lia.
    + intros x [->|Hx]; [left; reflexivity|right; auto].
Qed.

Lemma del_ids_incl l id x : In x (map l_id (del_locker l id)) -> In x (map l_id l).
Proof.
  induction l as [|y r IH]; cbn; [tauto|]. destruct (l_id y =? id); cbn; [auto|]. intros [H|H]; auto.
Qed.

Lemma del_nodup l id : NoDup (map l_id l) -> NoDup (map l_id (del_locker l id)).
Proof.
  induction l as [|y r IH]; cbn; [auto|]. intros Hnd. inversion Hnd as [|? ? Hni Hnd']; subst.
  destruct (l_id y =? id); [exact Hnd'|]. cbn. constructor; [|auto]. intros Hc. apply Hni. eapply del_ids_incl. exact Hc.
Qed.

Lemma find_del l id id' :
  NoDup (map l_id l) ->
  find_locker (del_locker l id) id' = if id' =? id then None else find_locker l id'.
Proof.
  induction l as [|y r IH]; cbn; intros Hnd.
  - destruct (id' =? id); reflexivity.
  - inversion Hnd as [|? ? Hni Hnd']; subst. destruct (Z.eqb_spec (l_id y) id) as [E|E].
    + destruct (Z.eqb_spec id' id) as [E1|E1].
      * subst id'. destruct (find_locker r id) eqn:F; [|reflexivity].
        destruct (find_some _ _ _ F) as (Hin & Hid). exfalso. apply Hni. rewrite E, <- Hid. apply in_map. exact Hin.
      * destruct (Z.eqb_spec (l_id y) id'); [congruence|reflexivity].
    + cbn. destruct (Z.eqb_spec (l_id y) id') as [E1|E1].
      * destruct (Z.eqb_spec id' id); [congruence|reflexivity].
      * apply IH. exact Hnd'.
Qed.

Lemma remove_nth_incl l i x : In x (remove_nth l i) -> In x l.
Proof.
  revert i. induction l as [|y r IH]; intros i; cbn; [destruct i; tauto|].
  destruct i; cbn; [auto|]. intros [H|H]; [auto|right; eapply IH; exact H].
Qed.

(* ------------------------------------------------------------------------------------ *)
(* the locker invariant                                                                   *)
Definition mt (app asset : Z) (x : locker) : bool := (l_app x =? app) && (l_asset x =? asset).
Definition on_asset (d : Z) (x : locker) : bool := l_asset x =? d.

Lemma lockers_of_fsum s app asset : net_sum (lockers_of s app asset) = fsum (mt app asset) (lockers s).
Proof. reflexivity. Qed.

Record LInv (s : state) : Prop := mkLInv {
  li_nodup : NoDup (map l_id (lockers s));
  li_bound : forall x, In x (lockers s) -> l_id x <= next_id s;
  li_total : forall app asset lk, lks s (app, asset) = Some lk -> lk_dep lk = fsum (mt app asset) (lockers s);
  li_ids : forall app asset lk id x, lks s (app, asset) = Some lk -> In id (lk_ids lk) ->
             find_locker (lockers s) id = Some x -> l_app x = app /\ l_asset x = asset;
  li_idb : forall app asset lk id, lks s (app, asset) = Some lk -> In id (lk_ids lk) -> id <= next_id s;
  li_nonneg : forall x, In x (lockers s) -> 0 <= l_net x;
  li_cust : forall d, fsum (on_asset d) (lockers s) <= bnk (cs s) (A_LOCKER, d);
  li_wl : forall k, lks s k <> None -> lwl s k = true;
  li_has : forall x, In x (lockers s) -> lks s (l_app x, l_asset x) <> None
}.

(* nothing the invariant reads changed, custody did not shrink *)
Lemma linv_frame s s' :
  LInv s -> lockers s' = lockers s -> lks s' = lks s -> next_id s' = next_id s -> lwl s' = lwl s ->
  (forall d, bnk (cs s) (A_LOCKER, d) <= bnk (cs s') (A_LOCKER, d)) -> LInv s'.
Proof.
  intros [] E1 E2 E3 E4 Hb. constructor; rewrite ?E1, ?E2, ?E3, ?E4; auto.
  intros d. specialize (Hb d). specialize (li_cust0 d). lia.
Qed.

Lemma mt_with_net app asset x n r : mt app asset (with_net x n r) = mt app asset x.
Proof. reflexivity. Qed.
Lemma on_asset_with_net d x n r : on_asset d (with_net x n r) = on_asset d x.
Proof. reflexivity. Qed.

(* one locker's balance and its lookup total move by dl, custody of that asset by at least dl *)
Lemma linv_move s s' ld dl ret' app asset lk :
  LInv s -> find_locker (lockers s) (l_id ld) = Some ld -> l_app ld = app -> l_asset ld = asset ->
  lks s (app, asset) = Some lk -> 0 <= l_net ld + dl ->
  lockers s' = put_locker (lockers s) (with_net ld (l_net ld + dl) ret') ->
  lks s' = kupd (lks s) (app, asset) (Some (mkLk (lk_dep lk + dl) (lk_ids lk))) ->
  next_id s' = next_id s -> lwl s' = lwl s ->
  (forall d, bnk (cs s) (A_LOCKER, d) + (if d =? asset then dl else 0) <= bnk (cs s') (A_LOCKER, d)) ->
  LInv s'.
Proof.
  intros [] Hf Ha Hd Hlk Hnn EL EK EN EW Hb.
  set (v := with_net ld (l_net ld + dl) ret') in *.
  assert (Hfv : find_locker (lockers s) (l_id v) = Some ld) by exact Hf.
  destruct (put_found _ _ _ Hfv) as (Hids & Hsum & Hin).
  constructor; rewrite ?EL, ?EK, ?EN, ?EW.
  - rewrite Hids. assumption.
  - intros x Hx. destruct (Hin x Hx) as [->|Hx']; [|auto].
    destruct (find_some _ _ _ Hf) as (Hi & _). change (l_id v) with (l_id ld). apply li_bound0. exact Hi.
  - intros app' asset' lk'. unfold kupd. destruct (keq (app', asset') (app, asset)) eqn:K.
    + apply keq_spec in K. injection K as -> ->. intros H; injection H as <-. cbn [lk_dep].
      rewrite Hsum, (li_total0 _ _ _ Hlk). unfold v. rewrite mt_with_net.
      assert (mt app asset ld = true) as -> by (unfold mt; rewrite Ha, Hd, !Z.eqb_refl; reflexivity).
      cbn [l_net with_net]. lia.
    + intros H. rewrite Hsum, (li_total0 _ _ _ H). unfold v. rewrite mt_with_net.
      assert (mt app' asset' ld = false) as ->.
      { unfold mt. rewrite Ha, Hd. unfold keq in K. cbn [fst snd] in K. rewrite (Z.eqb_sym app), (Z.eqb_sym asset). exact K. }
      lia.
  - intros app' asset' lk' id x. rewrite find_put. unfold kupd.
    destruct (keq (app', asset') (app, asset)) eqn:K.
    + apply keq_spec in K. injection K as -> ->. intros H; injection H as <-. cbn [lk_ids]. intros Hi.
      destruct (Z.eqb_spec id (l_id v)).
      * intros H; injection H as <-. cbn. auto.
      * apply (li_ids0 _ _ _ _ _ Hlk Hi).
    + intros H Hi. destruct (Z.eqb_spec id (l_id v)) as [E|E].
      * intros H1; injection H1 as <-. cbn [l_app l_asset v with_net]. subst id. apply (li_ids0 _ _ _ _ _ H Hi). exact Hf.
      * apply (li_ids0 _ _ _ _ _ H Hi).
  - intros app' asset' lk' id. unfold kupd. destruct (keq (app', asset') (app, asset)) eqn:K.
    + intros H; injection H as <-. cbn [lk_ids]. apply (li_idb0 _ _ _ _ Hlk).
    + apply li_idb0.
  - intros x Hx. destruct (Hin x Hx) as [->|Hx']; [cbn; lia|auto].
  - intros d. rewrite Hsum. unfold v. rewrite on_asset_with_net. specialize (Hb d). specialize (li_cust0 d).
    unfold on_asset at 2 3. rewrite Hd. rewrite (Z.eqb_sym asset d). cbn [l_net with_net]. destruct (d =? asset); lia.
  - intros k. unfold kupd. destruct (keq k (app, asset)) eqn:K.
    + intros _. apply keq_spec in K. subst k. apply li_wl0. rewrite Hlk. discriminate.
    + apply li_wl0.
  - intros x Hx. unfold kupd. destruct (keq (l_app x, l_asset x) (app, asset)); [discriminate|].
    destruct (Hin x Hx) as [->|Hx']; [|auto]. cbn [l_app l_asset v with_net]. apply li_has0. destruct (find_some _ _ _ Hf). assumption.
Qed.

(* ------------------------------------------------------------------------------------ *)
(* rewards.CalculateLockerRewards: the shape of every successful call                      *)
Lemma P18_pos' : 0 < P18. Proof. reflexivity. Qed.

Lemma trunc_pos t : P18 <= t -> 1 <= dtrunc_int t.
Proof.
  intros H. unfold dtrunc_int. replace 1 with (Z.quot P18 P18) by (apply Z.quot_same; pose proof P18_pos'; lia).
  apply Z.quot_le_mono; [exact P18_pos'|exact H].
Qed.

Definition RewardPaid (s s1 : state) (app asset lid r : Z) : Prop :=
  exists ld lk c2 c3,
    find_locker (lockers s) lid = Some ld /\ lks s (app, asset) = Some lk /\
    decrease_net_fee (cs s) app (l_asset ld) r = Ok c2 /\ csend c2 A_COLLECTOR A_LOCKER asset r = Ok c3 /\
    cs s1 = c3 /\ lockers s1 = put_locker (lockers s) (with_net ld (l_net ld + r) (l_ret ld + r)) /\
    lks s1 = kupd (lks s) (app, asset) (Some (mkLk (lk_dep lk + r) (lk_ids lk))).

Lemma calc_rewards_shape s app asset lid rw s1 :
  calc_rewards s app asset lid rw = Ok s1 ->
  let r := credited s app asset lid rw in
  ((r = 0 /\ cs s1 = cs s /\ lockers s1 = lockers s /\ lks s1 = lks s) \/ (0 < r /\ RewardPaid s s1 app asset lid r)) /\
  next_id s1 = next_id s /\ lwl s1 = lwl s /\ rwl s1 = rwl s /\ umap s1 = umap s /\ adm s1 = adm s.
Proof.
  unfold calc_rewards, credited.
  destruct (rwl s (app, asset)); cbn [negb].
  2:{ intros H; injection H as <-. split; [left|]; repeat split; reflexivity. }
  destruct (clk (cs s) (app, asset)) as [cl|]; [|discriminate].
  destruct (cl_lsr cl =? 0) eqn:E0; cbn [orb].
  { intros H; injection H as <-. split; [left|]; repeat split; reflexivity. }
  destruct (rw =? -2) eqn:E2; [discriminate|].
  destruct (rw <? 0) eqn:E1; [discriminate|].
  destruct (find_locker (lockers s) lid) as [ld|] eqn:F; [|discriminate].
  destruct (tracker_after s lid app rw >=? P18) eqn:ET.
  - set (t := tracker_after s lid app rw) in *. set (r := dtrunc_int t).
    assert (Hr : 1 <= r) by (apply trunc_pos; lia).
    cbn [cs set_trk].
    destruct (decrease_net_fee (cs s) app (l_asset ld) r) as [c2| |] eqn:D; cbn [lift obind]; try discriminate.
    assert ((r >? 0) = true) as -> by lia.
    cbn [cs set_cs set_trk].
    destruct (csend c2 A_COLLECTOR A_LOCKER asset r) as [c3| |] eqn:S; cbn [lift obind]; try discriminate.
    destruct (lks s (app, asset)) as [lk|] eqn:K; [|discriminate].
    intros H; injection H as <-. cbn.
    split; [right; split; [lia|]|repeat split; reflexivity].
    exists ld, lk, c2, c3. repeat split; auto.
  - intros H; injection H as <-. split; [left|]; repeat split; reflexivity.
Qed.

Lemma lbal_csend c from to d amt c' d' :
  csend c from to d amt = Ok c' ->
  bnk c' (A_LOCKER, d') = bnk c (A_LOCKER, d') + (if (to =? A_LOCKER) && (d' =? d) then amt else 0)
                                               - (if (from =? A_LOCKER) && (d' =? d) then amt else 0).
Proof.
  intros H. destruct (csend_spec _ _ _ _ _ _ H) as (_ & _ & _ & _ & _ & _ & _ & _ & Hb & _).
  rewrite Hb. unfold keq. cbn [fst snd]. rewrite (Z.eqb_sym A_LOCKER to), (Z.eqb_sym A_LOCKER from). reflexivity.
Qed.

Lemma ubal_csend c from to d amt c' a d' :
  csend c from to d amt = Ok c' ->
  bnk c' (a, d') = bnk c (a, d') + (if (a =? to) && (d' =? d) then amt else 0)
                                 - (if (a =? from) && (d' =? d) then amt else 0).
Proof.
  intros H. destruct (csend_spec _ _ _ _ _ _ H) as (_ & _ & _ & _ & _ & _ & _ & _ & Hb & _).
  rewrite Hb. unfold keq. cbn [fst snd]. reflexivity.
Qed.

Lemma calc_rewards_linv s app asset lid rw s1 :
  LInv s -> (forall ld, find_locker (lockers s) lid = Some ld -> l_app ld = app /\ l_asset ld = asset) ->
  calc_rewards s app asset lid rw = Ok s1 -> LInv s1.
Proof.
  intros HI Hm H. destruct (calc_rewards_shape _ _ _ _ _ _ H) as ([(Hr & E1 & E2 & E3)|(Hr & ld & lk & c2 & c3 & F & K & D & S & E1 & E2 & E3)] & EN & EW & _).
  - apply (linv_frame s s1 HI E2 E3 EN EW). intros d. rewrite E1. lia.
  - destruct (Hm _ F) as (Ha & Hd). destruct (find_some _ _ _ F) as (_ & Hid).
    apply (linv_move s s1 ld (credited s app asset lid rw) (l_ret ld + credited s app asset lid rw) app asset lk HI); auto.
    + rewrite Hid. exact F.
    + pose proof (li_nonneg s HI ld (proj1 (find_some _ _ _ F))). lia.
    + intros d. rewrite E1. rewrite (lbal_csend _ _ _ _ _ _ d S).
      destruct (decrease_net_fee_spec _ _ _ _ _ D) as (_ & _ & _ & Hb & _). rewrite Hb.
      rewrite Z.eqb_refl. cbn [andb]. change (A_COLLECTOR =? A_LOCKER) with false. cbn [andb]. lia.
Qed.

Lemma calc_rewards_locker s app asset lid rw s1 ld :
  calc_rewards s app asset lid rw = Ok s1 -> find_locker (lockers s) lid = Some ld ->
  exists ld1, find_locker (lockers s1) lid = Some ld1 /\ l_id ld1 = lid /\ l_app ld1 = l_app ld /\ l_asset ld1 = l_asset ld /\
              l_owner ld1 = l_owner ld /\ l_net ld1 = l_net ld + credited s app asset lid rw.
Proof.
  intros H F. destruct (find_some _ _ _ F) as (_ & Hid).
  destruct (calc_rewards_shape _ _ _ _ _ _ H) as ([(Hr & E1 & E2 & E3)|(Hr & ld' & lk & c2 & c3 & F' & K & D & S & E1 & E2 & E3)] & _).
  - exists ld. rewrite E2, Hr. repeat split; auto. lia.
  - rewrite F in F'. injection F' as <-. eexists. rewrite E2, find_put. cbn [l_id with_net]. rewrite Hid, Z.eqb_refl.
    split; [reflexivity|]. cbn. repeat split; auto.
Qed.

Lemma locker_checks_spec s u app asset lid ld :
  locker_checks s u app asset lid = Ok ld ->
  find_locker (lockers s) lid = Some ld /\ l_asset ld = asset /\ l_owner ld = u /\ l_app ld = app /\ lks s (app, asset) <> None.
Proof.
  unfold locker_checks. destruct (negb (has_asset (cs s) asset)); [discriminate|]. destruct (negb (has_app (cs s) app)); [discriminate|].
  destruct (find_locker (lockers s) lid) as [x|]; [|discriminate].
  destruct (Z.eqb_spec (l_asset x) asset); cbn [negb]; [|discriminate].
  destruct (Z.eqb_spec u (l_owner x)); cbn [negb]; [|discriminate].
  destruct (Z.eqb_spec app (l_app x)); cbn [negb]; [|discriminate].
  destruct (lks s (app, asset)) eqn:K; [|discriminate]. intros H; injection H as <-. repeat split; auto. discriminate.
Qed.

Lemma fsum_none P l : (forall x, In x l -> P x = false) -> fsum P l = 0.
Proof.
  induction l as [|y r IH]; intros H; [reflexivity|]. rewrite fsum_cons, (H y) by (left; reflexivity).
  rewrite IH; [lia|]. intros x Hx. apply H. right. exact Hx.
Qed.

Lemma mt_true app asset x : mt app asset x = true <-> l_app x = app /\ l_asset x = asset.
Proof. unfold mt. rewrite andb_true_iff, !Z.eqb_eq. tauto. Qed.

Lemma mt_key app asset x : mt app asset x = keq (l_app x, l_asset x) (app, asset).
Proof. reflexivity. Qed.

Lemma NoDup_app_one (l : list Z) a : NoDup l -> ~ In a l -> NoDup (l ++ [a]).
Proof.
  induction l as [|y r IH]; intros Hnd Hni; cbn; [constructor; [tauto|constructor]|].
  inversion Hnd as [|? ? Hy Hr]; subst. constructor.
  - intros Hc. apply in_app_or in Hc. destruct Hc as [Hc|[Hc|[]]]; [contradiction|]. apply Hni. left. auto.
  - apply IH; [exact Hr|]. intros Hc. apply Hni. right. exact Hc.
Qed.

(* a new locker *)
Lemma linv_create s s' u app asset amt lk :
  LInv s -> lks s (app, asset) = Some lk -> 0 <= amt ->
  lockers s' = put_locker (lockers s) (mkL (next_id s + 1) u app asset amt 0) ->
  lks s' = kupd (lks s) (app, asset) (Some (mkLk (lk_dep lk + amt) (lk_ids lk ++ [next_id s + 1]))) ->
  next_id s' = next_id s + 1 -> lwl s' = lwl s ->
  (forall d, bnk (cs s) (A_LOCKER, d) + (if d =? asset then amt else 0) <= bnk (cs s') (A_LOCKER, d)) ->
  LInv s'.
Proof.
  intros [] Hlk Ha EL EK EN EW Hb.
  set (v := mkL (next_id s + 1) u app asset amt 0) in *.
  assert (Hfresh : find_locker (lockers s) (l_id v) = None).
  { destruct (find_locker (lockers s) (l_id v)) eqn:F; [|reflexivity]. destruct (find_some _ _ _ F) as (Hin & Hid).
    pose proof (li_bound0 _ Hin). cbn in Hid. lia. }
  rewrite (put_new _ _ Hfresh) in EL.
  constructor; rewrite ?EL, ?EK, ?EN, ?EW.
  - rewrite map_app. cbn [map]. apply NoDup_app_one; [assumption|]. apply find_none. exact Hfresh.
  - intros x Hx. apply in_app_or in Hx. destruct Hx as [Hx|[<-|[]]]; [pose proof (li_bound0 _ Hx); lia|cbn; lia].
  - intros app' asset' lk'. rewrite fsum_app, fsum_cons. unfold kupd. destruct (keq (app', asset') (app, asset)) eqn:K.
    + apply keq_spec in K. injection K as -> ->. intros H; injection H as <-. cbn [lk_dep].
      rewrite (li_total0 _ _ _ Hlk). assert (mt app asset v = true) as -> by (apply mt_true; split; reflexivity).
      rewrite fsum_nil. cbn [l_net v]. lia.
    + intros H. rewrite (li_total0 _ _ _ H). assert (mt app' asset' v = false) as ->.
      { rewrite mt_key. cbn [l_app l_asset v]. unfold keq in *. cbn [fst snd] in *. rewrite (Z.eqb_sym app), (Z.eqb_sym asset). exact K. }
      rewrite fsum_nil. lia.
  - intros app' asset' lk' id x Hk Hi Hf.
    assert (Hfx : find_locker (lockers s ++ [v]) id = if id =? l_id v then Some v else find_locker (lockers s) id).
    { rewrite <- (put_new _ _ Hfresh). apply find_put. }
    rewrite Hfx in Hf. revert Hk Hi. unfold kupd. destruct (keq (app', asset') (app, asset)) eqn:K.
    + apply keq_spec in K. injection K as -> ->. intros H; injection H as <-. cbn [lk_ids]. intros Hi.
      destruct (Z.eqb_spec id (l_id v)); [injection Hf as <-; cbn; auto|].
      apply in_app_or in Hi. destruct Hi as [Hi|[Hi|[]]]; [apply (li_ids0 _ _ _ _ _ Hlk Hi Hf)|]. cbn in n. lia.
    + intros H Hi. destruct (Z.eqb_spec id (l_id v)) as [E|E]; [|apply (li_ids0 _ _ _ _ _ H Hi Hf)].
      pose proof (li_idb0 _ _ _ _ H Hi). cbn in E. lia.
  - intros app' asset' lk' id. unfold kupd. destruct (keq (app', asset') (app, asset)) eqn:K.
    + intros H; injection H as <-. cbn [lk_ids]. intros Hi. apply in_app_or in Hi.
      destruct Hi as [Hi|[Hi|[]]]; [pose proof (li_idb0 _ _ _ _ Hlk Hi); lia|lia].
    + intros H Hi. pose proof (li_idb0 _ _ _ _ H Hi). lia.
  - intros x Hx. apply in_app_or in Hx. destruct Hx as [Hx|[<-|[]]]; [auto|cbn; lia].
  - intros d. rewrite fsum_app, fsum_cons, fsum_nil. specialize (Hb d). specialize (li_cust0 d).
    unfold on_asset at 2. cbn [l_asset l_net v]. rewrite (Z.eqb_sym asset d). destruct (d =? asset); lia.
  - intros k. unfold kupd. destruct (keq k (app, asset)) eqn:K.
    + intros _. apply keq_spec in K. subst k. apply li_wl0. rewrite Hlk. discriminate.
    + apply li_wl0.
  - intros x Hx. unfold kupd. destruct (keq (l_app x, l_asset x) (app, asset)) eqn:K; [discriminate|].
    apply in_app_or in Hx. destruct Hx as [Hx|[<-|[]]]; [auto|]. cbn [l_app l_asset v] in K. rewrite keq_refl in K. discriminate.
Qed.

(* a locker closed: its record deleted, its net balance leaves the total and the custody *)
Lemma linv_close s s' ld app asset lk ids' :
  LInv s -> find_locker (lockers s) (l_id ld) = Some ld -> l_app ld = app -> l_asset ld = asset ->
  lks s (app, asset) = Some lk -> (forall x, In x ids' -> In x (lk_ids lk)) ->
  lockers s' = del_locker (lockers s) (l_id ld) ->
  (forall k, lks s' k = kupd (lks s) (app, asset) (Some (mkLk (lk_dep lk - l_net ld) ids')) k) ->
  next_id s' = next_id s -> lwl s' = lwl s ->
  (forall d, bnk (cs s) (A_LOCKER, d) - (if d =? asset then l_net ld else 0) <= bnk (cs s') (A_LOCKER, d)) ->
  LInv s'.
Proof.
  intros [] Hf Ha Hd Hlk Hsub EL EK EN EW Hb.
  destruct (del_found _ _ _ Hf) as (Hsum & Hin).
  constructor; rewrite ?EL, ?EK, ?EN, ?EW.
  - apply del_nodup. assumption.
  - intros x Hx. auto.
  - intros app' asset' lk'. rewrite Hsum, EK. unfold kupd. destruct (keq (app', asset') (app, asset)) eqn:K.
    + apply keq_spec in K. injection K as -> ->. intros H; injection H as <-. cbn [lk_dep].
      rewrite (li_total0 _ _ _ Hlk). assert (mt app asset ld = true) as -> by (apply mt_true; auto). lia.
    + intros H. rewrite (li_total0 _ _ _ H). assert (mt app' asset' ld = false) as ->.
      { rewrite mt_key, Ha, Hd. unfold keq in *. cbn [fst snd] in *. rewrite (Z.eqb_sym app), (Z.eqb_sym asset). exact K. }
      lia.
  - intros app' asset' lk' id x Hk Hi. rewrite (find_del _ _ _ li_nodup0). destruct (id =? l_id ld); [discriminate|]. intros Hfx.
    revert Hk Hi. rewrite EK. unfold kupd. destruct (keq (app', asset') (app, asset)) eqn:K.
    + apply keq_spec in K. injection K as -> ->. intros H; injection H as <-. cbn [lk_ids]. intros Hi.
      apply (li_ids0 _ _ _ _ _ Hlk (Hsub _ Hi) Hfx).
    + intros H Hi. apply (li_ids0 _ _ _ _ _ H Hi Hfx).
  - intros app' asset' lk' id. rewrite EK. unfold kupd. destruct (keq (app', asset') (app, asset)) eqn:K.
    + intros H; injection H as <-. cbn [lk_ids]. intros Hi. apply (li_idb0 _ _ _ _ Hlk (Hsub _ Hi)).
    + apply li_idb0.
  - intros x Hx. auto.
  - intros d. rewrite Hsum. specialize (Hb d). specialize (li_cust0 d). unfold on_asset at 2. rewrite Hd, (Z.eqb_sym asset d).
    destruct (d =? asset); lia.
  - intros k. rewrite EK. unfold kupd. destruct (keq k (app, asset)) eqn:K.
    + intros _. apply keq_spec in K. subst k. apply li_wl0. rewrite Hlk. discriminate.
    + apply li_wl0.
  - intros x Hx. rewrite EK. unfold kupd. destruct (keq (l_app x, l_asset x) (app, asset)); [discriminate|]. auto.
Qed.

(* a lookup table created for a pair that had none *)
Lemma linv_whitelist s s' app asset :
  LInv s -> lwl s (app, asset) = false ->
  lockers s' = lockers s -> lks s' = kupd (lks s) (app, asset) (Some (mkLk 0 [])) ->
  next_id s' = next_id s -> lwl s' = kupd (lwl s) (app, asset) true ->
  (forall d, bnk (cs s) (A_LOCKER, d) <= bnk (cs s') (A_LOCKER, d)) -> LInv s'.
Proof.
  intros [] Hw EL EK EN EW Hb.
  assert (Hnone : lks s (app, asset) = None).
  { destruct (lks s (app, asset)) eqn:K; [|reflexivity]. rewrite li_wl0 in Hw; [discriminate|]. rewrite K. discriminate. }
  constructor; rewrite ?EL, ?EK, ?EN, ?EW; auto.
  - intros app' asset' lk'. unfold kupd. destruct (keq (app', asset') (app, asset)) eqn:K; [|apply li_total0].
    apply keq_spec in K. injection K as -> ->. intros H; injection H as <-. cbn [lk_dep]. symmetry. apply fsum_none.
    intros x Hx. destruct (mt app asset x) eqn:M; [|reflexivity]. apply mt_true in M. destruct M as (<- & <-).
    exfalso. apply (li_has0 _ Hx). exact Hnone.
  - intros app' asset' lk' id x. unfold kupd. destruct (keq (app', asset') (app, asset)) eqn:K; [|apply li_ids0].
    intros H; injection H as <-. cbn. tauto.
  - intros app' asset' lk' id. unfold kupd. destruct (keq (app', asset') (app, asset)) eqn:K; [|apply li_idb0].
    intros H; injection H as <-. cbn. tauto.
  - intros d. specialize (Hb d). specialize (li_cust0 d). lia.
  - intros k. unfold kupd. destruct (keq k (app, asset)) eqn:K; [reflexivity|apply li_wl0].
  - intros x Hx. unfold kupd. destruct (keq (l_app x, l_asset x) (app, asset)); [discriminate|auto].
Qed.

(* ------------------------------------------------------------------------------------ *)
(* the message handlers keep the invariant                                                *)
Lemma user_not_locker u : 0 <= u -> (user u =? A_LOCKER) = false.
Proof. unfold user, A_LOCKER. lia. Qed.
Lemma user_not_collector u : 0 <= u -> (user u =? A_COLLECTOR) = false.
Proof. unfold user, A_COLLECTOR. lia. Qed.

Lemma msg_create_linv s u app asset amt s' :
  LInv s -> 0 <= u -> msg_create s u app asset amt = Ok s' -> LInv s'.
Proof.
  intros HI Hu. unfold msg_create.
  destruct (amt <=? 0) eqn:E0; [discriminate|]. destruct (esm_on (cs s) app); [discriminate|]. destruct (brk_on (cs s) app); [discriminate|].
  destruct (negb (has_asset (cs s) asset)); [discriminate|]. destruct (negb (has_app (cs s) app)); [discriminate|].
  destruct (negb (umap s u (app, asset) =? 0)); [discriminate|]. destruct (clk (cs s) (app, asset)); [|discriminate].
  destruct (negb (lwl s (app, asset))); [discriminate|]. destruct (lks s (app, asset)) as [lk|] eqn:K; [|discriminate].
  assert ((amt >? 0) = true) as -> by lia.
  destruct (csend (cs s) (user u) A_LOCKER asset amt) as [c2| |] eqn:S; cbn [lift obind]; try discriminate.
  intros H; injection H as <-.
  apply (linv_create s _ u app asset amt lk HI K); cbn; try reflexivity; try lia.
  intros d. rewrite (lbal_csend _ _ _ _ _ _ d S). rewrite Z.eqb_refl, (user_not_locker u Hu). cbn [andb]. lia.
Qed.

Lemma msg_deposit_linv s u app asset lid amt rw s' :
  LInv s -> 0 <= u -> msg_deposit s u app asset lid amt rw = Ok s' -> LInv s'.
Proof.
  intros HI Hu. unfold msg_deposit.
  destruct ((lid <=? 0) || (amt <=? 0)) eqn:E0; [discriminate|]. destruct (esm_on (cs s) app); [discriminate|]. destruct (brk_on (cs s) app); [discriminate|].
  destruct (locker_checks s u app asset lid) as [ld0| |] eqn:C; cbn [obind]; try discriminate.
  destruct (calc_rewards s app asset lid rw) as [s1| |] eqn:R; cbn [obind]; try discriminate.
  destruct (locker_checks_spec _ _ _ _ _ _ C) as (F & Hd & Ho & Ha & Hk).
  assert (HI1 : LInv s1).
  { eapply calc_rewards_linv; eauto. intros ld Hf. rewrite F in Hf. injection Hf as <-. auto. }
  destruct (calc_rewards_locker _ _ _ _ _ _ _ R F) as (ld1 & F1 & Hid1 & Ha1 & Hd1 & Ho1 & Hn1).
  unfold reread. rewrite F1.
  assert ((amt >? 0) = true) as -> by lia.
  destruct (csend (cs s1) (user u) A_LOCKER asset amt) as [c2| |] eqn:S; cbn [lift obind]; try discriminate.
  intros H; injection H as <-.
  destruct (lks s1 (app, asset)) as [lk1|] eqn:K1.
  2:{ exfalso. apply (li_has s1 HI1 ld1); [apply find_some in F1; tauto|]. rewrite Ha1, Hd1, Ha, Hd. exact K1. }
  pose proof (li_nonneg s1 HI1 ld1 (proj1 (find_some _ _ _ F1))) as Hnn.
  apply (linv_move s1 _ ld1 amt (l_ret ld1) app asset lk1 HI1); try congruence; try lia.
  - unfold upd_amount. cbn [lks set_lockers set_cs]. rewrite K1. reflexivity.
  - unfold upd_amount. cbn [lks set_lockers set_cs]. rewrite K1. reflexivity.
  - unfold upd_amount. cbn [lks set_lockers set_cs]. rewrite K1. reflexivity.
  - unfold upd_amount. cbn [lks set_lockers set_cs]. rewrite K1. reflexivity.
  - unfold upd_amount. cbn [lks set_lockers set_cs]. rewrite K1. cbn. intros d.
    rewrite (lbal_csend _ _ _ _ _ _ d S). rewrite Z.eqb_refl, (user_not_locker u Hu). cbn [andb]. lia.
Qed.

Lemma msg_withdraw_linv s u app asset lid amt rw s' :
  LInv s -> 0 <= u -> msg_withdraw s u app asset lid amt rw = Ok s' -> LInv s'.
Proof.
  intros HI Hu. unfold msg_withdraw.
  destruct ((lid <=? 0) || (amt <=? 0)) eqn:E0; [discriminate|].
  destruct (locker_checks s u app asset lid) as [ld0| |] eqn:C; cbn [obind]; try discriminate.
  destruct (l_net ld0 <? amt) eqn:E1; [discriminate|].
  destruct (calc_rewards s app asset lid rw) as [s1| |] eqn:R; cbn [obind]; try discriminate.
  destruct (locker_checks_spec _ _ _ _ _ _ C) as (F & Hd & Ho & Ha & Hk).
  assert (HI1 : LInv s1).
  { eapply calc_rewards_linv; eauto. intros ld Hf. rewrite F in Hf. injection Hf as <-. auto. }
  destruct (calc_rewards_locker _ _ _ _ _ _ _ R F) as (ld1 & F1 & Hid1 & Ha1 & Hd1 & Ho1 & Hn1).
  unfold reread. rewrite F1.
  assert ((amt >? 0) = true) as -> by lia.
  destruct (csend (cs s1) A_LOCKER (user u) asset amt) as [c2| |] eqn:S; cbn [lift obind]; try discriminate.
  intros H; injection H as <-.
  destruct (lks s1 (app, asset)) as [lk1|] eqn:K1.
  2:{ exfalso. apply (li_has s1 HI1 ld1); [apply find_some in F1; tauto|]. rewrite Ha1, Hd1, Ha, Hd. exact K1. }
  assert (Hr : 0 <= credited s app asset lid rw).
  { destruct (calc_rewards_shape _ _ _ _ _ _ R) as ([(Hr & _)|(Hr & _)] & _); lia. }
  apply (linv_move s1 _ ld1 (- amt) (l_ret ld1) app asset lk1 HI1); try congruence; try lia.
  - unfold upd_amount. cbn [lks set_lockers set_cs]. rewrite K1. cbn. repeat f_equal; try lia.
  - unfold upd_amount. cbn [lks set_lockers set_cs]. rewrite K1. cbn. repeat f_equal; try lia.
  - unfold upd_amount. cbn [lks set_lockers set_cs]. rewrite K1. reflexivity.
  - unfold upd_amount. cbn [lks set_lockers set_cs]. rewrite K1. reflexivity.
  - unfold upd_amount. cbn [lks set_lockers set_cs]. rewrite K1. cbn. intros d.
    rewrite (lbal_csend _ _ _ _ _ _ d S). rewrite Z.eqb_refl, (user_not_locker u Hu). cbn [andb]. destruct (d =? asset); lia.
Qed.

Lemma kupd_kupd {V} (m : key -> V) k v1 v2 k' : kupd (kupd m k v1) k v2 k' = kupd m k v2 k'.
Proof. unfold kupd. destruct (keq k' k); reflexivity. Qed.

Lemma msg_close_linv s u app asset lid rw s' :
  LInv s -> 0 <= u -> msg_close s u app asset lid rw = Ok s' -> LInv s'.
Proof.
  intros HI Hu. unfold msg_close.
  destruct (lid <=? 0) eqn:E0; [discriminate|].
  destruct (locker_checks s u app asset lid) as [ld0| |] eqn:C; cbn [obind]; try discriminate.
  destruct (calc_rewards s app asset lid rw) as [s1| |] eqn:R; cbn [obind]; try discriminate.
  destruct (locker_checks_spec _ _ _ _ _ _ C) as (F & Hd & Ho & Ha & Hk).
  assert (HI1 : LInv s1).
  { eapply calc_rewards_linv; eauto. intros ld Hf. rewrite F in Hf. injection Hf as <-. auto. }
  destruct (calc_rewards_locker _ _ _ _ _ _ _ R F) as (ld1 & F1 & Hid1 & Ha1 & Hd1 & Ho1 & Hn1).
  unfold reread. rewrite F1.
  destruct (lks s1 (app, asset)) as [lk1|] eqn:K1.
  2:{ exfalso. apply (li_has s1 HI1 ld1); [apply find_some in F1; tauto|]. rewrite Ha1, Hd1, Ha, Hd. exact K1. }
  set (pay := if l_net ld1 >? 0 then lift s1 (csend (cs s1) A_LOCKER (user u) asset (l_net ld1)) else Ok s1).
  destruct pay as [s2| |] eqn:P; cbn [obind]; try discriminate.
  assert (Hs2 : lockers s2 = lockers s1 /\ lks s2 = lks s1 /\ next_id s2 = next_id s1 /\ lwl s2 = lwl s1 /\
                forall d, bnk (cs s1) (A_LOCKER, d) - (if d =? asset then l_net ld1 else 0) <= bnk (cs s2) (A_LOCKER, d)).
  { unfold pay in P. destruct (l_net ld1 >? 0) eqn:G.
    - destruct (csend (cs s1) A_LOCKER (user u) asset (l_net ld1)) as [c2| |] eqn:S; cbn [lift] in P; try discriminate.
      injection P as <-. cbn. repeat split; auto. intros d. rewrite (lbal_csend _ _ _ _ _ _ d S).
      rewrite Z.eqb_refl, (user_not_locker u Hu). cbn [andb]. destruct (d =? asset); lia.
    - injection P as <-. repeat split; auto. intros d. pose proof (li_nonneg s1 HI1 ld1 (proj1 (find_some _ _ _ F1))).
      destruct (d =? asset); lia. }
  destruct Hs2 as (L2 & K2 & N2 & W2 & B2).
  intros H; injection H as <-.
  unfold upd_amount. rewrite K2, K1. cbn [lks set_lks set_umap]. rewrite kupd_same.
  cbn [lk_ids lk_dep].
  set (n := zlen (lk_ids lk1)).
  set (i := sort_search n (fun j : Z => nth_default_z (lk_ids lk1) j >=? l_id ld1)).
  destruct ((i <? n) && (nth_default_z (lk_ids lk1) i =? l_id ld1)) eqn:G.
  - apply (linv_close s1 _ ld1 app asset lk1 (remove_nth (lk_ids lk1) (Z.to_nat i)) HI1);
      cbn [lockers lks next_id lwl cs set_trk set_lockers set_lks set_umap set_cs]; try congruence; try exact B2.
    all: try (intros x; apply remove_nth_incl).
    all: try (intros k; rewrite kupd_kupd; reflexivity).
  - apply (linv_close s1 _ ld1 app asset lk1 (lk_ids lk1) HI1);
      cbn [lockers lks next_id lwl cs set_trk set_lockers set_lks set_umap set_cs]; try congruence; try exact B2.
    all: try (intros x Hx; exact Hx).
    all: try (intros k; reflexivity).
Qed.

Lemma msg_reward_calc_linv s app lid rw s' :
  LInv s -> msg_reward_calc s app lid rw = Ok s' -> LInv s'.
Proof.
  intros HI. unfold msg_reward_calc. destruct (lid <=? 0); [discriminate|]. destruct (negb (has_app (cs s) app)); [discriminate|].
  destruct (find_locker (lockers s) lid) as [ld|] eqn:F; [|discriminate].
  destruct (Z.eqb_spec (l_app ld) app); cbn [negb]; [|discriminate].
  intros H. eapply calc_rewards_linv; eauto. intros ld' Hf. rewrite F in Hf. injection Hf as <-. auto.
Qed.

Lemma whitelist_locker_linv s app asset s' :
  LInv s -> whitelist_locker s app asset = Ok s' -> LInv s'.
Proof.
  intros HI. unfold whitelist_locker.
  destruct (esm_on (cs s) app); [discriminate|]. destruct (brk_on (cs s) app); [discriminate|].
  destruct (negb (has_app (cs s) app)); [discriminate|]. destruct (negb (has_asset (cs s) asset)); [discriminate|].
  destruct (lwl s (app, asset)) eqn:W; [discriminate|]. intros H; injection H as <-.
  apply (linv_whitelist s _ app asset HI W); cbn; auto. intros d. lia.
Qed.
