(* Generic lemmas about guard lists: a guard that [scan] finds on every path to success makes
   the handler return an error whenever that guard's check fails - before any write in the strict
   form - and Atomic.apply then leaves the store unchanged.  Proved once, for every table row,
   every write effect and every store. *)
From Coq Require Import String List ZArith Bool.
From Comdex Require Import Lib.Base Lib.Atomic Model.Guards.
Import ListNotations.

Section GuardLemmas.
  Variable store : Type.
  Variable wr : string -> store -> store.
  Variable helpers : list (string * list item).

  Definition is_ok (r : run_result store) : bool := match r with RunOk _ => true | _ => false end.

  Lemma exec_eq : forall fuel c items s,
    exec wr helpers fuel c items s =
    match items with
    | [] => RunOk s
    | IGuard g :: r =>
      match guard_fails c g with Some e => RunErr s (err_code e) | None => exec wr helpers fuel c r s end
    | IWrite w :: r => exec wr helpers fuel c r (wr w s)
    | IWriteSigner w :: r => exec wr helpers fuel c r (wr w s)
    | IPriceUnchecked _ :: r => exec wr helpers fuel c r s
    | IEarlyOk b :: r => if c_branch c b then RunOk s else exec wr helpers fuel c r s
    | ICallSub h _ :: r =>
      match fuel with
      | O => RunPanic s
      | S f => match lookup_row h helpers with
               | Some hi => match exec wr helpers f c hi s with
                            | RunOk s1 => exec wr helpers fuel c r s1
                            | other => other
                            end
               | None => RunPanic s
               end
      end
    | IEarlyOkVia h :: r =>
      if c_branch c h then
        match fuel with
        | O => RunPanic s
        | S f => match lookup_row h helpers with Some hi => exec wr helpers f c hi s | None => RunPanic s end
        end
      else exec wr helpers fuel c r s
    | IUnrecognised _ :: r => exec wr helpers fuel c r s
    end.
  Proof. intros fuel c items s. destruct fuel; destruct items as [|i r]; try reflexivity; destruct i; reflexivity. Qed.

  Lemma scan_eq : forall strict p fuel items,
    scan helpers strict p fuel items =
    match items with
    | [] => false
    | IGuard g :: r => if p g then true else scan helpers strict p fuel r
    | IWrite _ :: r => if strict then false else scan helpers strict p fuel r
    | IWriteSigner _ :: r => if strict then false else scan helpers strict p fuel r
    | IPriceUnchecked _ :: r => scan helpers strict p fuel r
    | IEarlyOk _ :: _ => false
    | ICallSub h _ :: r =>
      match fuel with
      | O => false
      | S f => match lookup_row h helpers with
               | Some hi => if scan helpers strict p f hi then true
                            else if strict then false else scan helpers strict p fuel r
               | None => false
               end
      end
    | IEarlyOkVia h :: r =>
      match fuel with
      | O => false
      | S f => match lookup_row h helpers with
               | Some hi => scan helpers strict p f hi && scan helpers strict p fuel r
               | None => false
               end
      end
    | IUnrecognised _ :: _ => false
    end.
  Proof. intros strict p fuel items. destruct fuel; destruct items as [|i r]; try reflexivity; destruct i; reflexivity. Qed.

  (* the guard fires whenever it is reached *)
  Definition fires (c : octx) (p : guard -> bool) : Prop := forall g, p g = true -> guard_fails c g <> None.

  (* a dominating guard: the handler does not succeed *)
  Theorem scan_rejects : forall strict p c, fires c p ->
    forall fuel items s, scan helpers strict p fuel items = true ->
    is_ok (exec wr helpers fuel c items s) = false.
  Proof.
    intros strict p c Hp.
    induction fuel as [|f IHf].
    - induction items as [|i r IHr]; intros s H; rewrite scan_eq in H; [discriminate|].
      rewrite exec_eq. destruct i; try discriminate.
      + destruct (p g) eqn:Pg.
        * destruct (guard_fails c g) eqn:G; [reflexivity|]. exfalso. exact (Hp g Pg G).
        * destruct (guard_fails c g); [reflexivity|]. apply IHr. exact H.
      + destruct strict; [discriminate|]. apply IHr. exact H.
      + destruct strict; [discriminate|]. apply IHr. exact H.
      + apply IHr. exact H.
    - induction items as [|i r IHr]; intros s H; rewrite scan_eq in H; [discriminate|].
      rewrite exec_eq. destruct i; try discriminate.
      + destruct (p g) eqn:Pg.
        * destruct (guard_fails c g) eqn:G; [reflexivity|]. exfalso. exact (Hp g Pg G).
        * destruct (guard_fails c g); [reflexivity|]. apply IHr. exact H.
      + destruct strict; [discriminate|]. apply IHr. exact H.
      + destruct strict; [discriminate|]. apply IHr. exact H.
      + apply IHr. exact H.
      + (* ICallSub *)
        destruct (lookup_row helper helpers) as [hi|]; [|discriminate].
        destruct (scan helpers strict p f hi) eqn:Sh.
        * specialize (IHf hi s Sh). destruct (exec wr helpers f c hi s); [discriminate|reflexivity|reflexivity].
        * destruct strict; [discriminate|].
          destruct (exec wr helpers f c hi s) as [s1|pt cd|pt]; [|reflexivity|reflexivity].
          apply IHr. exact H.
      + (* IEarlyOkVia *)
        destruct (lookup_row helper helpers) as [hi|]; [|discriminate].
        apply andb_prop in H. destruct H as [Sh Sr].
        destruct (c_branch c helper).
        * apply IHf. exact Sh.
        * apply IHr. exact Sr.
  Qed.

  (* strict form: the error is returned before any write - the branch store is still the
     original one *)
  Theorem scan_strict_no_write : forall p c, fires c p ->
    forall fuel items s, scan helpers true p fuel items = true ->
    exists code, exec wr helpers fuel c items s = RunErr s code.
  Proof.
    intros p c Hp.
    induction fuel as [|f IHf].
    - induction items as [|i r IHr]; intros s H; rewrite scan_eq in H; [discriminate|].
      rewrite exec_eq. destruct i; try discriminate.
      + destruct (p g) eqn:Pg.
        * destruct (guard_fails c g) eqn:G; [eexists; reflexivity|]. exfalso. exact (Hp g Pg G).
        * destruct (guard_fails c g); [eexists; reflexivity|]. apply IHr. exact H.
      + apply IHr. exact H.
    - induction items as [|i r IHr]; intros s H; rewrite scan_eq in H; [discriminate|].
      rewrite exec_eq. destruct i; try discriminate.
      + destruct (p g) eqn:Pg.
        * destruct (guard_fails c g) eqn:G; [eexists; reflexivity|]. exfalso. exact (Hp g Pg G).
        * destruct (guard_fails c g); [eexists; reflexivity|]. apply IHr. exact H.
      + apply IHr. exact H.
      + destruct (lookup_row helper helpers) as [hi|]; [|discriminate].
        destruct (scan helpers true p f hi) eqn:Sh; [|discriminate].
        destruct (IHf hi s Sh) as [code E]. rewrite E. exists code. reflexivity.
      + destruct (lookup_row helper helpers) as [hi|]; [|discriminate].
        apply andb_prop in H. destruct H as [Sh Sr].
        destruct (c_branch c helper).
        * apply IHf. exact Sh.
        * apply IHr. exact Sr.
  Qed.

  (* with the cache-context step: the committed store is the original one *)
  Corollary scan_rejects_noop : forall strict p c, fires c p ->
    forall fuel items s, scan helpers strict p fuel items = true ->
    apply (exec wr helpers fuel c items) s = s.
  Proof.
    intros strict p c Hp fuel items s H. apply apply_failed_noop.
    unfold succeeded. pose proof (scan_rejects strict p c Hp fuel items s H) as R.
    unfold is_ok in R. exact R.
  Qed.

  (* baseapp atomicity for handlers: whatever the row is, a handler that does not succeed
     commits nothing *)
  Theorem rejected_noop : forall fuel c items s,
    is_ok (exec wr helpers fuel c items s) = false -> apply (exec wr helpers fuel c items) s = s.
  Proof. intros fuel c items s H. apply apply_failed_noop. exact H. Qed.
End GuardLemmas.

(* which contexts make which guard classes fire *)
Lemma owner_fires : forall c, (forall r, c_owner_ok c r = false) -> (forall l, c_keyed_found c l = false) ->
  fires c is_owner_guard.
Proof.
  intros c Ho Hk g Hg. destruct g; try discriminate; cbn [guard_fails].
  - rewrite Ho. discriminate.
  - rewrite Hk. discriminate.
Qed.

Lemma breaker_fires : forall c, c_breaker c = true -> fires c is_breaker_guard.
Proof.
  intros c Hb g Hg. destruct g; try discriminate; cbn [guard_fails]; rewrite Hb.
  - discriminate.
  - rewrite orb_true_r. discriminate.
Qed.

Lemma esm_fires : forall c, c_esm c = true -> fires c is_esm_guard.
Proof.
  intros c He g Hg. destruct g; try discriminate; cbn [guard_fails]; rewrite He; discriminate.
Qed.

Lemma cooloff_fires : forall c, c_esm c = true -> (c_now c > c_end c)%Z -> fires c is_cooloff_guard.
Proof.
  intros c He Hn g Hg. destruct g; try discriminate; cbn [guard_fails]. rewrite He.
  destruct (Z.gtb_spec (c_now c) (c_end c)); [discriminate|lia].
Qed.

Lemma admin_fires : forall c, c_admin c = false -> fires c is_admin_guard.
Proof. intros c Ha g Hg. destruct g; try discriminate; cbn [guard_fails]. rewrite Ha. discriminate. Qed.

(* the wasm ladder *)
Lemma ladder_accepts_find : forall l chain sender r,
  ladder_find l chain = Some r -> ladder_accepts l chain sender = true -> sender = r_addr r.
Proof.
  induction l as [|x rest IH]; intros chain sender r Hf Ha; [discriminate|].
  cbn [ladder_find ladder_accepts] in *. destruct (String.eqb chain (r_chain x)).
  - injection Hf as <-. apply String.eqb_eq. exact Ha.
  - eapply IH; eauto.
Qed.

Lemma ladder_accepts_other : forall l chain sender,
  ladder_find l chain = None -> ladder_accepts l chain sender = true.
Proof.
  induction l as [|x rest IH]; intros chain sender Hf; [reflexivity|].
  cbn [ladder_find ladder_accepts] in *. destruct (String.eqb chain (r_chain x)); [discriminate|]. apply IH. exact Hf.
Qed.

(* the vault withdraw gate *)
Lemma withdraw_gate_cooloff : forall breaker now end_time,
  withdraw_gate breaker true now end_time = None -> (now <= end_time)%Z /\ breaker = false.
Proof.
  intros breaker now end_time H. unfold withdraw_gate in H. destruct breaker; [discriminate|].
  destruct (Z.gtb_spec now end_time); cbn in H; [discriminate|]. split; [lia|reflexivity].
Qed.

Lemma ladder_accepts_unnamed : forall (names : list string) l chain sender,
  forallb (fun r => existsb (String.eqb (r_chain r)) names) l = true ->
  existsb (String.eqb chain) names = false ->
  ladder_accepts l chain sender = true.
Proof.
  intros names. induction l as [|x rest IH]; intros chain sender Hall Hn; [reflexivity|].
  cbn [forallb] in Hall. apply andb_prop in Hall. destruct Hall as [Hx Hr].
  cbn [ladder_accepts]. destruct (String.eqb chain (r_chain x)) eqn:E.
  - exfalso. apply String.eqb_eq in E. subst chain.
    rewrite Hx in Hn. discriminate.
  - apply IH; assumption.
Qed.
