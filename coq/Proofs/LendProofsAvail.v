(* C08 proofs, part 9: AvailableToBorrow of every lend position stays non-negative. *)
From Comdex Require Import Lib.Base Lib.DecArith Lib.DecFacts Model.Lend Proofs.LendProofs Proofs.LendProofsInv Proofs.LendProofsSide
     Proofs.LendProofsSteps Proofs.LendProofsSteps2 Proofs.LendProofsHist.
From Coq Require Import ZifyBool.

Definition Avail (L : list (Z * lendpos)) : Prop := forall i l, zget L i = Some l -> 0 <= l_avail l.

Lemma A_upd L i l' : Avail L -> 0 <= l_avail l' -> Avail (zset L i l').
Proof. intros HA Hp i' x. rewrite zget_zset. destruct (i =? i'); [intros E; injection E as <-; exact Hp|apply HA]. Qed.
Lemma A_del L i : Avail L -> Avail (zdel L i).
Proof. intros HA i' x. rewrite zget_zdel. destruct (i =? i'); [discriminate|apply HA]. Qed.

Ltac av_pos HA :=
  repeat match goal with
         | G : zget _ ?i = Some ?l |- _ =>
           lazymatch type of l with lendpos => idtac end;
           lazymatch goal with
           | _ : 0 <= l_avail l |- _ => fail
           | _ => pose proof (HA i l G)
           end
         end.
Ltac av_fin H := injection H as <-; cbn [lends with_bank with_books];
  first [assumption | apply A_del; assumption | apply A_upd; [assumption|cbn [upd_lend l_avail]; lia]].

Section AvailSteps.
  Variable cfg : config.

  Lemma iterate_lends_avail st lid ipb st1 : Avail (lends st) -> iterate_lends cfg st lid ipb = Ok st1 -> Avail (lends st1).
  Proof. intros HA H. unfold iterate_lends in H. destr_all H; av_pos HA; av_fin H. Qed.

  Ltac it_l HA HA1 := match goal with Hi : iterate_lends _ _ _ _ = Ok _ |- _ => pose proof (iterate_lends_avail _ _ _ _ HA Hi) as HA1 end.

  Lemma deposit_avail st user lid denom amt ipb st' :
    Avail (lends st) -> 0 <= amt -> deposit_asset cfg st user lid denom amt ipb = Ok st' -> Avail (lends st').
  Proof. intros HA Hp H. unfold deposit_asset in H. destr_all H. it_l HA HA1. av_pos HA1. av_fin H. Qed.

  Lemma lend_avail st user asset denom amt poolid app ipb st' :
    Avail (lends st) -> 0 <= amt -> lend_asset cfg st user asset denom amt poolid app ipb = Ok st' -> Avail (lends st').
  Proof.
    intros HA Hp H. unfold lend_asset in H. destr_all H.
    - eapply deposit_avail; eassumption.
    - injection H as <-. cbn [lends]. apply A_upd; [assumption|cbn [l_avail]; lia].
  Qed.

  Lemma close_lend_avail st user lid ipb st' : Avail (lends st) -> close_lend cfg st user lid ipb = Ok st' -> Avail (lends st').
  Proof. intros HA H. unfold close_lend in H. destr_all H. it_l HA HA1. av_pos HA1. av_fin H. Qed.

  Lemma withdraw_avail st user lid denom amt ipb st' :
    Avail (lends st) -> withdraw_asset cfg st user lid denom amt ipb = Ok st' -> Avail (lends st').
  Proof.
    intros HA H. unfold withdraw_asset in H. destr_all H.
    - eapply close_lend_avail; eassumption.
    - it_l HA HA1. av_pos HA1. av_fin H.
  Qed.

  Ltac it_b := match goal with Hi : iterate_borrow _ _ _ = Ok _ |- _ =>
    let b1 := fresh "b1" in let Hb1 := fresh "Hb1" in apply iterate_borrow_spec in Hi as (b1 & Hb1 & ->);
    cbn [lends borrows sstats lctr bctr bnk prices with_books] in *;
    repeat match goal with
           | G : zget (zset _ ?j _) ?j = Some _ |- _ => rewrite zget_zset_same in G; injection G as <-
           | G1 : zget ?B ?j = Some ?x, G2 : zget ?B ?j = Some ?y |- _ => rewrite G1 in G2; injection G2 as <-
           end end.

  Lemma deposit_borrow_avail st bid user denom amt e st' :
    Avail (lends st) -> deposit_borrow_asset cfg st bid user denom amt e = Ok st' -> Avail (lends st').
  Proof. intros HA H. unfold deposit_borrow_asset in H. destr_all H; it_b; av_pos HA; av_fin H. Qed.

  Lemma draw_avail st bid user denom amt e st' :
    Avail (lends st) -> draw_asset cfg st bid user denom amt e = Ok st' -> Avail (lends st').
  Proof. intros HA H. unfold draw_asset in H. destr_all H; it_b; av_pos HA; av_fin H. Qed.

  Lemma close_borrow_avail st user bid e st' :
    Good cfg st -> Avail (lends st) -> close_borrow cfg st user bid e = Ok st' -> Avail (lends st').
  Proof.
    intros (_ & HS) HA H. unfold close_borrow in H. destr_all H; it_b; av_pos HA.
    match goal with G : zget (borrows st) bid = Some ?b, Hq : b_liq ?b = false |- _ => pose proof (proj1 (HS _ _ G Hq)) end.
    injection H as <-. cbn [lends with_bank with_books]. apply A_upd; [assumption|]. cbn [upd_lend l_avail iter_b upd_borrow b_in]. lia.
  Qed.

  Lemma repay_avail st bid user denom pay e st' :
    Good cfg st -> Avail (lends st) -> repay_asset cfg st bid user denom pay e = Ok st' -> Avail (lends st').
  Proof.
    intros HG HA H. unfold repay_asset in H. destr_all H.
    - eapply close_borrow_avail; eassumption.
    - it_b; av_fin H.
    - it_b; av_fin H.
    - it_b; av_fin H.
  Qed.

  Lemma open_borrow_avail st bk lid l pr pid stable din ain aout bd brd st' :
    Avail (lends st) -> ain <= l_avail l -> open_borrow st bk lid l pr pid stable din ain aout bd brd = Ok st' -> Avail (lends st').
  Proof.
    intros HA Hle H. unfold open_borrow in H. destr_all H. injection H as <-. cbn [lends].
    apply A_upd; [assumption|cbn [upd_lend l_avail]; lia].
  Qed.

  Lemma borrow_asset_avail st user lid pid stable din ain dout aout e1 e2 st' :
    Avail (lends st) -> borrow_asset cfg st user lid pid stable din ain dout aout e1 e2 = Ok st' -> Avail (lends st').
  Proof.
    intros HA H. unfold borrow_asset in H. destr_all H.
    - eapply draw_avail; [|exact H]. eapply deposit_borrow_avail; eassumption.
    - eapply open_borrow_avail; [exact HA| |exact H]. lia.
    - eapply open_borrow_avail; [exact HA| |exact H]. lia.
    - eapply open_borrow_avail; [exact HA| |exact H]. lia.
  Qed.

  Lemma borrow_alternate_avail st user asset poolid din ain pid stable dout aout app ipb e1 e2 st' :
    Avail (lends st) -> 0 <= ain ->
    borrow_alternate cfg st user asset poolid din ain pid stable dout aout app ipb e1 e2 = Ok st' -> Avail (lends st').
  Proof.
    intros HA Hp H. unfold borrow_alternate in H. destr_all H.
    - eapply borrow_asset_avail; [|exact H]. eapply deposit_avail; eassumption.
    - eapply borrow_asset_avail; [|exact H]. cbn [lends]. apply A_upd; [assumption|cbn [l_avail]; lia].
  Qed.

  Lemma calc_borrows_avail ids : forall st user es st', Avail (lends st) -> calc_borrows st user ids es = Ok st' -> Avail (lends st').
  Proof.
    induction ids as [|j r IH]; intros st user es st' HA H; cbn [calc_borrows] in H.
    - injection H as <-. exact HA.
    - destruct (calc_borrow_interest st user j _) as [st1|c|] eqn:E; [| |discriminate].
      + apply (IH _ _ _ _) with (2 := H). unfold calc_borrow_interest in E. destr_all E. injection E as <-. it_b. exact HA.
      + exact (IH _ _ _ _ HA H).
  Qed.
  Lemma calc_lends_avail ids : forall st user ipbs st', Avail (lends st) -> calc_lends cfg st user ids ipbs = Ok st' -> Avail (lends st').
  Proof.
    induction ids as [|i r IH]; intros st user ipbs st' HA H; cbn [calc_lends] in H.
    - injection H as <-. exact HA.
    - destruct (calc_lend_rewards cfg st user i _) as [st1|c|] eqn:E; cbn [obind] in H; try discriminate.
      apply (IH _ _ _ _) with (2 := H). unfold calc_lend_rewards in E. destr_all E. injection E as <-.
      eapply iterate_lends_avail; eassumption.
  Qed.

  Lemma step_avail st o st' : Good cfg st -> Avail (lends st) -> step cfg st o = Ok st' -> Avail (lends st').
  Proof.
    intros HG HA H. destruct o; cbn [step] in H;
      try (match type of H with (if ?c then _ else _) = _ => destruct c eqn:Ec; [discriminate|] end).
    - eapply lend_avail; [exact HA| |exact H]. lia.
    - eapply withdraw_avail; eassumption.
    - eapply deposit_avail; [exact HA| |exact H]. lia.
    - eapply close_lend_avail; eassumption.
    - eapply borrow_asset_avail; eassumption.
    - eapply repay_avail; eassumption.
    - eapply deposit_borrow_avail; eassumption.
    - eapply draw_avail; eassumption.
    - eapply close_borrow_avail; eassumption.
    - eapply borrow_alternate_avail; [exact HA| |exact H]. lia.
    - unfold calc_all in H. destruct (user_lends st user) as [|l0 ls]; [discriminate|].
      destruct (calc_borrows st user _ es) as [st1|c|] eqn:E; cbn [obind] in H; try discriminate.
      eapply calc_lends_avail; [|exact H]. eapply calc_borrows_avail; eassumption.
    - injection H as <-. exact HA.
    - unfold hand_over in H. destr_all H; av_pos HA; try (injection H as <-; exact HA); av_fin H.
    - unfold auc_bid in H. destr_all H. injection H as <-. exact HA.
    - (* the close rewrites the user mapping of the lend position only *)
      unfold auc_close in H. destr_all H. injection H as <-. cbn [lends with_bank with_books].
      destruct (zget (lends st) (b_lend b)) as [l|] eqn:El; [|exact HA].
      apply A_upd; [exact HA|cbn [upd_lend l_avail]; exact (HA _ _ El)].
    - unfold repay_withdraw in H.
      destruct (close_borrow cfg st user bid e) as [st1|c|] eqn:E1; cbn [obind] in H; try discriminate.
      pose proof (close_borrow_avail _ _ _ _ _ HG HA E1) as HA1. destr_all H. eapply withdraw_avail; eassumption.
    - unfold fund_mod in H. destr_all H. injection H as <-. exact HA.
    - unfold fund_reserve in H. destr_all H. injection H as <-. exact HA.
    - destr_all H. injection H as <-. exact HA.
    - destr_all H. injection H as <-. exact HA.
    - unfold hand_over_v1 in H. destr_all H; try (injection H as <-; exact HA).
      injection H as <-. cbn [lends]. apply A_upd; [exact HA|cbn [upd_lend l_avail]; eapply HA; eassumption].
  Qed.

  Lemma run_avail ops : forall st, Good cfg st -> clean cfg st ops -> Avail (lends st) -> Avail (lends (run cfg st ops)).
  Proof.
    induction ops as [|o r IH]; intros st HG Hc HA; [exact HA|]. destruct Hc as (Hk & Hc). cbn [run fold_left].
    apply IH; [apply apply_op_good; assumption|exact Hc|]. unfold apply_op.
    destruct (step cfg st o) as [st'|c|] eqn:E; try exact HA. exact (step_avail _ _ _ HG HA E).
  Qed.
End AvailSteps.
