(* The example histories of Model/VaultLifeExample.v: they meet the hypotheses of the life-cycle theorems
   (non-vacuity), and two of them are the witnesses of the known-finding classes. *)
From Comdex Require Import Lib.Base Lib.DecArith Lib.Atomic Model.Vault Model.VaultExample Model.VaultLife Model.VaultLifeExample
  Proofs.VaultProofs Proofs.VaultInv Proofs.VaultLifeBase Proofs.VaultLifeInv Proofs.VaultLifeHist Proofs.VaultLifeSupply.

Lemma lx_cfg_ok : cfg_ok lx_cfg.
Proof.
  split.
  - cbn. repeat constructor; cbn; intuition discriminate.
  - intros e [<-|[<-|[]]]; unfold ep_ok; cbn; repeat split; try discriminate; reflexivity.
Qed.
Lemma lx_init_inv : InvL lx_cfg lx_init.
Proof. apply invL_init. intros d. reflexivity. Qed.
Lemma lx_init_inv02 : Inv02L lx_cfg ex_sup lx_init.
Proof. apply inv02L_init. Qed.
Lemma lx_init_noseized : NoSeized lx_init.
Proof. split; reflexivity. Qed.

Ltac hist_tac := apply hist_okb_sound; vm_compute; reflexivity.

Lemma lx_hist_a : hist_ok lx_cfg lx_lc lx_init lx_ops_a.
Proof. unfold lx_ops_a. hist_tac. Qed.
Lemma lx_hist_b : hist_ok lx_cfg lx_lc lx_init lx_ops_b.
Proof. unfold lx_ops_b. hist_tac. Qed.
Lemma lx_hist_c : hist_ok lx_cfg lx_lc lx_init lx_ops_c.
Proof. unfold lx_ops_c. hist_tac. Qed.
Lemma lx_hist_d : hist_ok lx_cfg lx_lc lx_init lx_ops_d.
Proof. unfold lx_ops_d. hist_tac. Qed.

(* C01-F2: the faithful model reaches, by a history that meets every hypothesis of the history theorem, books
   in which no vault is open or awaiting settlement while the product's TokenMintedAmount is -50000: the
   closing bid subtracted the seized vault's debt 10050000 (principal 10000000 + closing fee 50000) *)
Lemma settlement_totals_refuted :
  exists c lc l0 ops, cfg_ok c /\ InvL c l0 /\ hist_ok c lc l0 ops /\
    let l := lrun_all c lc ops l0 in
    vaults (vs l) = [] /\ lks l = [] /\ prods (vs l) 1 1 = Some (mkP 0 (-50000) []) /\
    c01l_mint l 1 1 = false /\ holds_C01_life c [1; 2] l = false /\ kf_C01_2 l 1 1 = true /\ drift l 1 1 = 50000.
Proof.
  exists lx_cfg, lx_lc, lx_init, lx_ops_b. split; [exact lx_cfg_ok|]. split; [exact lx_init_inv|]. split; [exact lx_hist_b|].
  vm_compute. repeat split; reflexivity.
Qed.

(* C01-F4: emergency shutdown while a seized vault is in auction.  When the auction is past its end time the
   auctionsV2 BeginBlocker re-creates the vault from the auction's remainder (TriggerEsm) without moving the
   collateral back to custody and without closing the auction: after two blocks the owner's vault records
   16000000 collateral (twice the 8000000 seized) and 22400000 debt, vault custody holds nothing, the auction
   account still holds the 8000000 and the locked vault and the auction are still there.  The history meets
   every hypothesis of the history theorem; the ghost-corrected identities hold, the plain ones do not *)
Lemma esm_return_refuted :
  exists c lc l0 ops, cfg_ok c /\ InvL c l0 /\ hist_ok c lc l0 ops /\
    let l1 := lrun_all c lc (firstn 5 ops) l0 in
    let l := lrun_all c lc ops l0 in
    nth 5 ops (Sweep []) = AucTick /\ nth 6 ops (Sweep []) = AucTick /\ length ops = 7%nat /\
    kf_C01_4 l1 true = true /\
    vaults (vs l) = [mkV 2 2 1 5 16000000 22400000 0 0] /\ bal (vs l) VAULT 1 = 0 /\ bal (vs l) AUC 1 = 8000000 /\
    zlen (lks l) = 1 /\ zlen (aus l) = 1 /\
    c01l_custody c l 1 = false /\ c01l_coll l 1 5 = false /\ c01l_mint l 1 5 = false /\ holds_C01_life c [1; 2] l = false /\
    kf_C01_4_denom l 1 = true /\ kf_C01_4_prod l 1 5 = true /\ er_short l 1 = 16000000 /\ holds_C01_adj c [1; 2] l = true.
Proof.
  exists lx_cfg, lx_lc, lx_init, lx_ops_c. split; [exact lx_cfg_ok|]. split; [exact lx_init_inv|]. split; [exact lx_hist_c|].
  vm_compute. repeat split; reflexivity.
Qed.
