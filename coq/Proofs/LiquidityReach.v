(* Proofs about Model/Liquidity.v: reachable states.  A history is a setup prefix (app / asset
   registrations, funding of user accounts) followed by any finite list of the other operations. *)
From Comdex Require Import Lib.Base Lib.DecArith Lib.DecFacts Model.Liquidity Proofs.LiquidityProofs
  Proofs.LiquiditySweep Proofs.LiquidityProofs2 Proofs.LiquidityEffects Proofs.LiquidityLists Proofs.LiquidityEscrow.
From Coq Require Import ZifyBool Lia.

Definition is_user (c : acct) : bool := match c with User _ => true | _ => false end.

(* nothing but registered apps / assets and funded user accounts *)
Record Fresh (s : state) : Prop := {
  fr_pairs : pairs s = []; fr_last_pair : last_pair s = []; fr_orders : orders s = []; fr_mmidx : mmidx s = [];
  fr_pools : pools s = []; fr_last_pool : last_pool s = []; fr_deps : deps s = []; fr_wds : wds s = [];
  fr_qfs : qfs s = []; fr_afs : afs s = [];
  fr_led : forall c d, is_user c = false -> led s c d = 0;
  fr_sup : forall a p, sup s a p = 0; fr_owed : forall a p d, owed s a p d = 0;
  fr_surplus : forall a p d, surplus s a p d = 0; fr_ge : forall d, ge_owed s d = 0; fr_farmed : forall d, farmed s d = 0 }.

Lemma fresh_init : Fresh init.
Proof. constructor; reflexivity. Qed.

Lemma fresh_setup s o : is_setup o = true -> Fresh s -> Fresh (apply_op s o).
Proof.
  destruct o; cbn [is_setup]; try discriminate; intros _ [H1 H2 H3 H4 H5 H6 H7 H8 H9 H10 H11 H12 H13 H14 H15 H16];
    unfold apply_op; cbn [step].
  - destruct (has_app s app); cbn [atomic]; constructor; assumption.
  - cbn [atomic]. constructor; assumption.
  - cbn [atomic]. constructor; proj_cbn; try assumption.
    intros c dd Hc. unfold ladd. destruct c; try discriminate; cbn [acct_eqb andb]; apply H11; reflexivity.
Qed.

Lemma fresh_run setup : Forall (fun o => is_setup o = true) setup -> forall s, Fresh s -> Fresh (fold_left apply_op setup s).
Proof. intros Hs. induction Hs as [|o r Ho _ IH]; intros s HF; cbn [fold_left]; [exact HF|]. apply IH, fresh_setup; assumption. Qed.

Lemma fresh_oinv s : Fresh s -> OInv (apps s) s.
Proof.
  intros [H1 H2 H3 H4 H5 H6 H7 H8 H9 H10 H11 H12 H13 H14 H15 H16].
  constructor.
  - split; [reflexivity|]. unfold SInvL. rewrite H3. constructor.
  - rewrite H3. constructor.
  - rewrite H3. intros e pr [].
  - rewrite H1. intros a i pr Hp. discriminate.
  - rewrite H3. intros e [].
  - rewrite H3. intros e [].
  - rewrite H3. intros e [].
  - rewrite H3. intros e [].
  - intros a p d. rewrite H11, H13, H14 by reflexivity. reflexivity.
  - intros a p d. rewrite H13, H3. reflexivity.
Qed.

(* the states of all histories *)
Definition reach (setup ops : list op) : state := fold_left apply_op ops (fold_left apply_op setup init).
Definition hist_ok (setup ops : list op) : Prop :=
  Forall (fun o => is_setup o = true) setup /\ Forall (fun o => is_addapp o = false) ops.

Lemma reach_apps setup ops : hist_ok setup ops -> apps (reach setup ops) = apps (fold_left apply_op setup init).
Proof.
  intros [Hs Ho]. pose proof (fresh_oinv _ (fresh_run setup Hs init fresh_init)) as H0.
  pose proof (oi_run _ ops _ Ho H0) as H. destruct (oi_si _ _ H) as [HA _]. exact HA.
Qed.

Theorem reach_oinv setup ops : hist_ok setup ops -> OInv (apps (reach setup ops)) (reach setup ops).
Proof.
  intros Hh. rewrite (reach_apps setup ops Hh). destruct Hh as [Hs Ho].
  apply oi_run; [exact Ho|]. apply fresh_oinv, fresh_run; [exact Hs|exact fresh_init].
Qed.
