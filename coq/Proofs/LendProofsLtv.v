(* C08 proofs, part 6: the executable predicates follow from the invariants; the loan-to-value
   decision rule of Borrow / Draw, the pool-holds-the-loan rule, and the safety of pledged
   collateral under Withdraw / CloseLend. *)
From Comdex Require Import Lib.Base Lib.DecArith Lib.DecFacts Model.Lend Proofs.LendProofs Proofs.LendProofsInv Proofs.LendProofsSide
     Proofs.LendProofsSteps Proofs.LendProofsSteps2 Proofs.LendProofsHist.
From Coq Require Import ZifyBool.

Lemma zlist_eqb_refl l : zlist_eqb l l = true.
Proof. induction l as [|x r IH]; cbn; [reflexivity|]. rewrite Z.eqb_refl, IH. reflexivity. Qed.

(* ---------- the invariant decides the executable book predicates ---------- *)
Lemma inv_holds_lend cfg st : Inv cfg st -> holds_C08_lend st = true.
Proof.
  intros (_ & _ & _ & _ & HSI). unfold holds_C08_lend. apply forallb_forall. intros [k s0] _. cbn [fst].
  destruct (pget (sstats st) k) as [s|] eqn:E; [|reflexivity].
  destruct (HSI k s E) as (A1 & _). unfold check_lend, nlends, nborrows. apply Z.eqb_eq. exact A1.
Qed.
Lemma inv_holds_borrow cfg st : Inv cfg st -> holds_C08_borrow cfg st = true.
Proof.
  intros (_ & _ & _ & _ & HSI). unfold holds_C08_borrow. apply forallb_forall. intros [k s0] _. cbn [fst].
  destruct (pget (sstats st) k) as [s|] eqn:E; [|reflexivity].
  destruct (HSI k s E) as (_ & A2 & A3 & A4 & A5). unfold check_borrow, nlends, nborrows.
  rewrite A2, A3, A4, A5, !Z.eqb_refl, !zlist_eqb_refl. reflexivity.
Qed.

(* ---------- a state without positions whose published totals are zero ---------- *)
Definition empty_books (st : state) : Prop :=
  lends st = [] /\ borrows st = [] /\ lctr st = 0 /\ bctr st = 0 /\
  forall k s, pget (sstats st) k = Some s -> s_lend s = 0 /\ s_bor s = 0 /\ s_sbor s = 0 /\ s_lids s = [] /\ s_bids s = [].
Lemma init_good cfg st : empty_books st -> Good cfg st.
Proof.
  intros (EL & EB & El & Eb & HS). unfold Good, GoodB. rewrite EL, EB, El, Eb. split.
  - split; [lia|]. split; [lia|]. split; [intros i l H; discriminate H|]. split; [intros j b H; discriminate H|].
    intros k s H. destruct (HS k s H) as (A1 & A2 & A3 & A4 & A5). unfold stat_ok. cbn. repeat split; assumption.
  - intros j b H. discriminate H.
Qed.

Ltac norm_price st :=
  repeat match goal with |- context [calc_price ?cfg ?s0 _ _] =>
    lazymatch s0 with st => fail | _ => rewrite !(calc_price_ext cfg st s0) by reflexivity end end.

Section Ltv.
  Variable cfg : config.
  Hypothesis Hwf : cfg_wf cfg.

  Lemma ltv_nonneg pr rin : zget (c_rates cfg) (pr_in pr) = Some rin -> 0 <= (if pr_emode pr then r_eltv rin else r_ltv rin).
  Proof. intros H. destruct Hwf as (_ & Hr). destruct (Hr _ _ H). destruct (pr_emode pr); assumption. Qed.

  Lemma draw_ltv st bid user denom amt e st' :
    Good cfg st -> PricesOk (prices st) -> draw_asset cfg st bid user denom amt e = Ok st' ->
    holds_C08_ltv cfg st' bid = true.
  Proof.
    intros HG HP H. pose proof HG as (HI & HS).
    unfold draw_asset in H. destr_all H. use_iter cfg HG HI1 HS1. side_pos HS. spec_ubs. fin H.
    repeat match goal with u : unit |- _ => destruct u end.
    match goal with E : verify_cr _ _ _ _ _ _ _ = Ok _ |- _ =>
      apply verify_cr_le in E; [destruct E as (vin & vout & Ei & Eo & Hvin & Hle)|exact Hwf|exact HP|cbn [iter_b upd_borrow b_in]; lia|eapply ltv_nonneg; eassumption] end.
    destruct (HS _ _ E E0) as (_ & l2 & p2 & Hl2 & Hp2 & Hasset).
    rewrite E3 in Hl2; injection Hl2 as <-. rewrite E1 in Hp2; injection Hp2 as <-.
    rewrite (calc_price_ext cfg st) in Ei by reflexivity. rewrite (calc_price_ext cfg st) in Eo by reflexivity.
    cbn [iter_b upd_borrow b_in b_out b_int] in Ei, Eo.
    unfold holds_C08_ltv. cbn [borrows with_bank with_books]. rewrite zget_zset_same.
    cbn [upd_borrow b_pair iter_b]. rewrite E1. unfold ltv_of.
    match goal with G : zget (c_rates cfg) (pr_in _) = Some _ |- _ => rewrite G end.
    norm_price st.
    unfold debt_of. cbn [b_in b_out b_int upd_borrow]. rewrite <- Hasset, Ei.
    replace (b_out b + amt + dtrunc_int (b_int b + bi_int e)) with (b_out b + dtrunc_int (b_int b + bi_int e) + amt) by lia.
    rewrite Eo. apply Z.leb_le. exact Hle.
  Qed.

  Lemma dtrunc_int_0 : dtrunc_int 0 = 0.
  Proof. unfold dtrunc_int. dec_consts. apply Z.quot_0_l. lia. Qed.

  Lemma open_borrow_spec st bk lid l pr pid stable din ain aout bd brd st' :
    open_borrow st bk lid l pr pid stable din ain aout bd brd = Ok st' ->
    bctr st' = bctr st + 1 /\ prices st' = prices st /\ bnk st' = bk /\
    zget (borrows st') (bctr st + 1) = Some (mkBorrow (bctr st + 1) lid pid din ain aout bd brd 0 0 stable false).
  Proof.
    intros H. unfold open_borrow in H. destr_all H. injection H as <-. cbn [bctr prices borrows bnk].
    rewrite zget_zset_same. repeat split.
  Qed.

  (* the bridged quantity is never negative *)
  Lemma bridged_nonneg st ain ltv scaled asset v t u q :
    PricesOk (prices st) -> 0 < ain -> 0 <= ltv ->
    dmul_c (dec_of_int ain) ltv = Some scaled -> calc_price cfg st asset (dtrunc_int scaled) = Ok v ->
    calc_price cfg st t 1 = Ok u -> dquo_c v u = Some q -> 0 <= dtrunc_int q.
  Proof.
    intros HP Hain Hltv Hm Hv Hu Hq.
    unfold dmul_c, chk_dec in Hm. rewrite dmul_int_exact in Hm. destruct (fits_dec _); [|discriminate]. injection Hm as <-.
    assert (H1 : 0 <= dtrunc_int (ain * ltv)) by (apply dtrunc_int_bounds; nia).
    destruct (calc_price_sign cfg st asset _ v Hwf HP Hv) as (Hv0 & _). specialize (Hv0 H1).
    destruct (calc_price_sign cfg st t 1 u Hwf HP Hu) as (Hu0 & _). specialize (Hu0 ltac:(lia)).
    unfold dquo_c, chk_dec in Hq. destruct (u =? 0) eqn:E0; [discriminate|]. destruct (fits_dec _); [|discriminate]. injection Hq as <-.
    apply dtrunc_int_bounds. apply dquo_nonneg; lia.
  Qed.

  (* what an accepted VerifyCollateralizationRatio means for the position as it stands afterwards *)
  Lemma plain_from_verify st st' j b p r l :
    PricesOk (prices st) -> prices st' = prices st ->
    zget (borrows st') j = Some b -> zget (c_pairs cfg) (b_pair b) = Some p -> zget (c_rates cfg) (pr_in p) = Some r ->
    pr_in p = l_asset l -> 0 <= b_in b ->
    verify_cr cfg st (b_in b) (l_asset l) (debt_of b) (pr_out p) (if pr_emode p then r_eltv r else r_ltv r) = Ok tt ->
    holds_C08_ltv cfg st' j = true.
  Proof.
    intros HP Hpr Hb Hp Hr Ha Hpos E.
    apply verify_cr_le in E; [destruct E as (vin & vout & Ei & Eo & Hvin & Hle)|exact Hwf|exact HP|exact Hpos|eapply ltv_nonneg; exact Hr].
    unfold holds_C08_ltv. rewrite Hb, Hp. unfold ltv_of. rewrite Hr.
    rewrite !(calc_price_ext cfg st st') by exact Hpr. rewrite Ha, Ei, Eo. apply Z.leb_le. exact Hle.
  Qed.
  Lemma brd_from_verify st st' j b p rt :
    PricesOk (prices st) -> prices st' = prices st ->
    zget (borrows st') j = Some b -> zget (c_pairs cfg) (b_pair b) = Some p -> zget (c_rates cfg) (b_brd_denom b) = Some rt ->
    0 <= b_brd b ->
    verify_cr cfg st (b_brd b) (b_brd_denom b) (debt_of b) (pr_out p) (r_ltv rt) = Ok tt ->
    holds_C08_ltv_brd cfg st' j = true.
  Proof.
    intros HP Hpr Hb Hp Hr Hpos E.
    apply verify_cr_le in E; [destruct E as (vin & vout & Ei & Eo & Hvin & Hle)|exact Hwf|exact HP|exact Hpos|].
    2:{ destruct Hwf as (_ & Hrr). destruct (Hrr _ _ Hr). assumption. }
    unfold holds_C08_ltv_brd. rewrite Hb, Hp, Hr.
    rewrite !(calc_price_ext cfg st st') by exact Hpr. rewrite Ei, Eo. apply Z.leb_le. exact Hle.
  Qed.

  Lemma borrow_asset_ltv st user lid pid stable din ain dout aout e1 e2 st' :
    Good cfg st -> PricesOk (prices st) -> 0 < ain ->
    borrow_asset cfg st user lid pid stable din ain dout aout e1 e2 = Ok st' ->
    if has_borrow_for_pair st user pid
    then exists bid, borrow_id_for_pair st user pid = Some bid /\ holds_C08_ltv cfg st' bid = true
    else bctr st' = bctr st + 1 /\ holds_C08_ltv_new cfg st' (bctr st') = true.
  Proof.
    intros HG HP Hpos H. unfold borrow_asset in H. destr_all H.
    - eexists. split; [reflexivity|].
      match goal with E : deposit_borrow_asset _ _ _ _ _ _ _ = Ok _ |- _ =>
        destruct (deposit_borrow_good _ _ _ _ _ _ _ _ HG Hpos E) as (HG1 & HP1) end.
      eapply draw_ltv; [exact HG1|rewrite HP1; exact HP|exact H].
    - apply open_borrow_spec in H as (Hc & Hpr & _ & Hb). rewrite Hc. split; [reflexivity|].
      repeat match goal with u : unit |- _ => destruct u end.
      unfold holds_C08_ltv_new. rewrite Hb. cbn [b_pair].
      match goal with G : zget (c_pairs cfg) pid = Some _ |- _ => rewrite G end. destruct (pr_inter p); [discriminate|]. rewrite andb_true_r.
      eapply (plain_from_verify st st' _ _ p r l HP Hpr Hb); cbn [b_pair b_in]; try eassumption; try lia.
      unfold debt_of. cbn [b_out b_int]. rewrite dtrunc_int_0, Z.add_0_r. assumption.
    - apply open_borrow_spec in H as (Hc & Hpr & _ & Hb). rewrite Hc. split; [reflexivity|].
      repeat match goal with u : unit |- _ => destruct u end.
      unfold holds_C08_ltv_new. rewrite Hb. cbn [b_pair].
      match goal with G : zget (c_pairs cfg) pid = Some _ |- _ => rewrite G end. destruct (pr_inter p); [|discriminate].
      apply andb_true_intro. split.
      + eapply (plain_from_verify st st' _ _ p r l HP Hpr Hb); cbn [b_pair b_in]; try eassumption; try lia.
        unfold debt_of. cbn [b_out b_int]. rewrite dtrunc_int_0, Z.add_0_r. assumption.
      + eapply (brd_from_verify st st' _ _ p _ HP Hpr Hb); cbn [b_pair b_brd b_brd_denom]; try eassumption.
        * match goal with Eq : dquo_c ?v ?u = Some ?q |- 0 <= dtrunc_int ?q =>
            match goal with Eu : calc_price cfg st ?t 1 = Ok u |- _ =>
              eapply (bridged_nonneg st ain _ _ (l_asset l) v t u q) end end; try eassumption.
          eapply ltv_nonneg; eassumption.
        * unfold debt_of. cbn [b_out b_int]. rewrite dtrunc_int_0, Z.add_0_r. assumption.
    - apply open_borrow_spec in H as (Hc & Hpr & _ & Hb). rewrite Hc. split; [reflexivity|].
      repeat match goal with u : unit |- _ => destruct u end.
      unfold holds_C08_ltv_new. rewrite Hb. cbn [b_pair].
      match goal with G : zget (c_pairs cfg) pid = Some _ |- _ => rewrite G end. destruct (pr_inter p); [|discriminate].
      apply andb_true_intro. split.
      + eapply (plain_from_verify st st' _ _ p r l HP Hpr Hb); cbn [b_pair b_in]; try eassumption; try lia.
        unfold debt_of. cbn [b_out b_int]. rewrite dtrunc_int_0, Z.add_0_r. assumption.
      + eapply (brd_from_verify st st' _ _ p _ HP Hpr Hb); cbn [b_pair b_brd b_brd_denom]; try eassumption.
        * match goal with Eq : dquo_c ?v ?u = Some ?q |- 0 <= dtrunc_int ?q =>
            match goal with Eu : calc_price cfg st ?t 1 = Ok u |- _ =>
              eapply (bridged_nonneg st ain _ _ (l_asset l) v t u q) end end; try eassumption.
          eapply ltv_nonneg; eassumption.
        * unfold debt_of. cbn [b_out b_int]. rewrite dtrunc_int_0, Z.add_0_r. assumption.
  Qed.
End Ltv.
