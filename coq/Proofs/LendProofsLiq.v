(* C08 proofs, part 4b: the hand-over of a position to a liquidation auction (liquidationsV2
   UpdateLockedBorrows) keeps the invariants outside known-finding class 2, and breaks the books
   identity inside it. *)
From Comdex Require Import Lib.Base Lib.DecArith Model.Lend Proofs.LendProofs Proofs.LendProofsInv Proofs.LendProofsSide
     Proofs.LendProofsSteps Proofs.LendProofsSteps2.
From Coq Require Import ZifyBool.

Section Liq.
  Variable cfg : config.

  Lemma other_open_on_false st lid bid :
    other_open_on st lid bid = false -> InvB cfg (lends st) (borrows st) (sstats st) (lctr st) (bctr st) ->
    forall j y, zget (borrows st) j = Some y -> j <> bid -> b_liq y = false -> b_lend y <> lid.
  Proof.
    intros Ho (_ & Hnb & _ & Hwb & _) j y Hj Hne Hq E. unfold other_open_on in Ho.
    assert (Hin : In j (zseq (nborrows st))).
    { apply in_zseq. unfold nborrows. destruct (Hwb j y Hj) as (Hr & _). lia. }
    assert (Ht : existsb (fun j0 => negb (j0 =? bid) && match zget (borrows st) j0 with
                                                       | Some b => (b_lend b =? lid) && negb (b_liq b) | None => false end)
                         (zseq (nborrows st)) = true).
    { apply existsb_exists. exists j. split; [exact Hin|]. rewrite Hj, Hq, E, Z.eqb_refl. cbn.
      destruct (Z.eqb_spec j bid); [contradiction|reflexivity]. }
    rewrite Ht in Ho. discriminate.
  Qed.

  Lemma hand_over_good st bid d dint st' :
    Good cfg st -> kf_C08_2 st (OHandOver bid d dint) = false -> hand_over cfg st bid d dint = Ok st' ->
    Good cfg st' /\ prices st' = prices st.
  Proof.
    intros HG Hkf H. pose proof HG as (HI & HS). unfold Inv in HI. unfold hand_over in H. destr_all H.
    - injection H as <-. split; [exact HG|reflexivity].
    - injection H as <-. split; [exact HG|reflexivity].
    - (* the lend record stays *)
      spec_uls. spec_ubs. fin H. split; [split|reflexivity].
      + eapply (T_handover cfg _ _ _ _ _ bid b _ l _ (pr_out_pool p, pr_out p) s0 _ _ s _ _ HI).
        all: try (intros k; apply pget_pset).
        all: try eassumption; try (apply bkey_of; exact E1); try reflexivity.
        all: try (unfold stat_out; destruct (b_stable b);
            cbn [s_lend s_bor s_sbor s_tia s_lids s_bids set_s_lend set_s_bor set_s_sbor set_s_tia set_s_lids set_s_bids]; repeat split; lia).
        all: try (destruct (b_stable b); reflexivity).
        all: try (repeat split; fail).
      + eapply S_bor_flag; [|reflexivity]. eapply S_lend_upd; [exact HS|exact E2|reflexivity].
    - (* the lend record is deleted *)
      spec_uls. spec_ubs. simp_pget. fin H.
      unfold kf_C08_2 in Hkf. rewrite E, E0, E2 in Hkf.
      assert (Hd : (d =? 1) = true) by (destruct (d =? 1); [reflexivity|discriminate]).
      assert (Hle : (l_in l - b_in b <=? 0) = true) by lia.
      rewrite Hd, Hle in Hkf. cbn [andb] in Hkf. apply orb_false_elim in Hkf as (Hav & Hoth).
      assert (Hav0 : l_avail l = 0) by lia.
      pose proof (other_open_on_false _ _ _ Hoth HI) as Hno.
      split; [split|reflexivity].
      + match goal with Hsa : pget (sstats st) _ = Some ?sa, Hsb : pget (pset _ _ _) _ = Some ?sb
                        |- InvB _ _ _ (pset (pset ?S1 ?kl ?sA) ?kl ?sB) _ _ =>
          match S1 with pset ?S ?k0 ?s1' => eapply (T_handover_del cfg _ _ _ _ _ bid b _ l k0 sa s1' S1 sb sB _ HI) end end.
        all: try (intros k; first [apply pget_pset2 | apply pget_pset]).
        all: try eassumption; try (apply bkey_of; exact E1); try reflexivity.
        all: try (unfold stat_out; destruct (b_stable b);
            cbn [s_lend s_bor s_sbor s_tia s_lids s_bids set_s_lend set_s_bor set_s_sbor set_s_tia set_s_lids set_s_bids]; repeat split; lia).
        all: try (destruct (b_stable b); reflexivity).
        all: try (cbn [s_lend set_s_lids set_s_lend]; lia).
      + eapply S_lend_del; [eapply S_bor_flag; [exact HS|reflexivity]|].
        intros j y. rewrite zget_zset. destruct (Z.eqb_spec bid j) as [<-|Hne].
        * intros Hj Hq. injection Hj as <-. discriminate Hq.
        * intros Hj Hq. apply (Hno j y Hj); [congruence|exact Hq].
  Qed.

  (* inside class 2 the books identity breaks: the deleted record's AvailableToBorrow stays in the
     published TotalLend but belongs to no lend position *)
  Lemma hand_over_shape st bid d dint st' b0 l :
    hand_over cfg st bid d dint = Ok st' -> zget (borrows st) bid = Some b0 -> b_liq b0 = false ->
    zget (lends st) (b_lend b0) = Some l -> d = 1 -> l_in l - b_in b0 <= 0 ->
    zget (lends st') (b_lend b0) = None.
  Proof.
    intros H Hb Hq Hl -> Hle. unfold hand_over in H. rewrite Hb, Hq in H. destr_all H; try (cbn in *; lia).
    - rewrite Hl in *. match goal with G : Some _ = Some _ |- _ => injection G as -> end. lia.
    - injection H as <-. cbn [lends with_bank with_books]. rewrite zget_zdel, Z.eqb_refl. reflexivity.
  Qed.
End Liq.
