(* The whole market.BeginBlocker refines the per-asset pipeline: what [begin_block] does to the
   record of any asset id is exactly [mrun] over the ops [bb_ops] delivers to that id.  This
   connects the block-level function the harness drives to the per-asset theorems of C17. *)
From Comdex Require Import Lib.Base Model.Market Proofs.MarketProofs.
From Coq Require Import ZifyBool.

Definition filter_ops (id : Z) (ops : list (Z * mop)) : list mop :=
  map snd (filter (fun p => fst p =? id) ops).

Lemma filter_ops_app id a b : filter_ops id (a ++ b) = filter_ops id a ++ filter_ops id b.
Proof. unfold filter_ops. rewrite filter_app, map_app. reflexivity. Qed.

Lemma mrun_app n gap ops1 : forall t ops2,
  mrun n gap t (ops1 ++ ops2) = obind (mrun n gap t ops1) (fun t' => mrun n gap t' ops2).
Proof.
  induction ops1 as [|o ops1 IH]; intros t ops2; cbn [app mrun obind]; [reflexivity|].
  destruct (mstep n gap t o) as [t1| |]; cbn [obind]; [apply IH|reflexivity|reflexivity].
Qed.

(* ---------- the assoc-list store ---------- *)
Lemma sget_sset_same s : forall id v, sget (sset s id v) id = Some v.
Proof.
  induction s as [|[k w] r IH]; intros id v; cbn [sset sget].
  - rewrite Z.eqb_refl. reflexivity.
  - destruct (Z.eqb_spec k id) as [->|Hne]; cbn [sget].
    + rewrite Z.eqb_refl. reflexivity.
    + destruct (Z.ltb_spec id k); cbn [sget].
      * rewrite Z.eqb_refl. reflexivity.
      * destruct (Z.eqb_spec k id); [contradiction|]. apply IH.
Qed.

Lemma sget_sset_other s : forall id id' v, id' <> id -> sget (sset s id v) id' = sget s id'.
Proof.
  induction s as [|[k w] r IH]; intros id id' v Hne; cbn [sset sget].
  - destruct (Z.eqb_spec id id'); [congruence|reflexivity].
  - destruct (Z.eqb_spec k id) as [->|Hk]; cbn [sget].
    + destruct (Z.eqb_spec id id'); [congruence|reflexivity].
    + destruct (Z.ltb_spec id k); cbn [sget].
      * destruct (Z.eqb_spec id id'); [congruence|reflexivity].
      * destruct (Z.eqb_spec k id'); [reflexivity|]. apply IH; assumption.
Qed.

Lemma sget_map s f : forall id,
  sget (map (fun kv : Z * twa => (fst kv, f (snd kv))) s) id = option_map f (sget s id).
Proof.
  induction s as [|[k w] r IH]; intros id; cbn [map sget fst snd]; [reflexivity|].
  destruct (k =? id); [reflexivity|apply IH].
Qed.

Lemma sget_in_keys s : forall id, sget s id <> None -> In id (map fst s).
Proof.
  induction s as [|[k w] r IH]; intros id H; cbn [sget] in H; [congruence|].
  cbn [map fst]. destruct (Z.eqb_spec k id); [left; assumption|right; apply IH; assumption].
Qed.

(* ---------- update never deletes a record ---------- *)
Lemma update_tail_some n r tw t' : update_tail n r (Some tw) = Ok t' -> t' <> None.
Proof.
  unfold update_tail. destruct (r >? 0); [|intros H; injection H as <-; discriminate].
  destruct (active tw).
  - destruct (set_nth _ _ _); [|discriminate]. destruct (calc_twa _ _); [|discriminate].
    intros H; injection H as <-; discriminate.
  - destruct (zlen (vals tw) >=? n).
    + destruct (set_nth _ _ _); [|discriminate]. destruct (calc_twa _ _); [|discriminate].
      intros H; injection H as <-; discriminate.
    + destruct (idx tw + 1 >=? n).
      * destruct (calc_twa _ _); [|discriminate]. intros H; injection H as <-; discriminate.
      * intros H; injection H as <-; discriminate.
Qed.

Lemma update_none_result n gap h r t : update n gap h r t = Ok None -> t = None.
Proof.
  destruct t as [tw|]; [|reflexivity]. unfold update.
  destruct ((r <=? 0) && (disc tw <? 0)); [discriminate|].
  destruct ((r >? 0) && (disc tw >? 0)).
  - destruct (h - disc tw <? gap); intros H; apply update_tail_some in H; congruence.
  - intros H; apply update_tail_some in H; congruence.
Qed.

Lemma sget_sput s id t : (t = None -> sget s id = None) -> sget (sput s id t) id = t.
Proof.
  destruct t as [v|]; cbn [sput]; intros H; [apply sget_sset_same|apply H; reflexivity].
Qed.

Lemma sget_sput_other s id id' t : id' <> id -> sget (sput s id t) id' = sget s id'.
Proof. destruct t as [v|]; cbn [sput]; intros H; [apply sget_sset_other; assumption|reflexivity]. Qed.

(* ---------- the rate loop ---------- *)
Lemma rate_loop_refines n gap height rates assets : forall index s s',
  rate_loop n gap height rates assets index s = Ok s' ->
  forall id, mrun n gap (sget s id) (filter_ops id (bb_samples height rates assets index)) = Ok (sget s' id).
Proof.
  induction assets as [|[a req] rest IH]; intros index s s' H id; cbn [rate_loop bb_samples] in *.
  - injection H as <-. reflexivity.
  - destruct (req && negb match rates with [] => true | _ :: _ => false end).
    + destruct (zlen rates >? index + 1).
      * destruct (nth_z rates (Z.to_nat (index + 1))) as [rate|]; [|discriminate].
        destruct (update n gap height rate (sget s a)) as [t'| |] eqn:Hu; try discriminate.
        specialize (IH _ _ _ H id).
        unfold filter_ops in *. cbn [filter fst]. destruct (Z.eqb_spec a id) as [->|Hne].
        -- cbn [map snd mrun mstep]. rewrite Hu. cbn [obind].
           rewrite sget_sput in IH; [exact IH|]. intros ->. apply (update_none_result _ _ _ _ _ Hu).
        -- rewrite sget_sput_other in IH by congruence. exact IH.
      * apply (IH _ _ _ H id).
    + apply (IH _ _ _ H id).
Qed.

(* ---------- the discard reset over all stored records ---------- *)
Lemma mrun_discards n gap (known : list Z) id : forall t,
  mrun n gap t (filter_ops id (map (fun k => (k, DiscardReset)) known)) =
  Ok (if existsb (fun k => k =? id) known then option_map discard_reset t else t).
Proof.
  induction known as [|k r IH]; intros t; cbn [map filter_ops filter existsb fst]; [reflexivity|].
  unfold filter_ops in *. cbn [filter fst]. destruct (Z.eqb_spec k id) as [->|Hne]; cbn [orb].
  - cbn [map snd mrun mstep obind]. rewrite IH.
    destruct (existsb _ r); [|reflexivity]. destruct t as [tw|]; reflexivity.
  - apply IH.
Qed.

Lemma existsb_keys s id : sget s id <> None -> existsb (fun k => k =? id) (map fst s) = true.
Proof.
  intros H. apply existsb_exists. exists id. split; [apply sget_in_keys; assumption|apply Z.eqb_refl].
Qed.

(* ---------- the validation-failed branch ---------- *)
Lemma invalidate_fold_refines n gap assets : forall s id,
  mrun n gap (sget s id) (filter_ops id (map (fun a : Z * bool => (fst a, Invalidate)) assets)) =
  Ok (sget (fold_left (fun acc a => match sget acc (fst a) with
                                    | Some tw => sset acc (fst a) (invalidate tw)
                                    | None => acc end) assets s) id).
Proof.
  induction assets as [|[a req] rest IH]; intros s id; cbn [map fold_left fst]; [reflexivity|].
  unfold filter_ops in *. cbn [filter fst]. destruct (Z.eqb_spec a id) as [->|Hne].
  - cbn [map snd mrun mstep obind]. rewrite <- IH. destruct (sget s id) as [tw|] eqn:E; cbn [option_map].
    + rewrite sget_sset_same. reflexivity.
    + rewrite E. reflexivity.
  - rewrite <- IH. destruct (sget s a) as [tw|]; [rewrite sget_sset_other by congruence|]; reflexivity.
Qed.

(* ---------- the whole hook ---------- *)
Theorem begin_block_refines e assets s s' d :
  begin_block e assets s = Ok (s', d) ->
  forall id, mrun (bb_n e) (bb_gap e) (sget s id) (filter_ops id (bb_ops e assets (map fst s))) = Ok (sget s' id).
Proof.
  unfold begin_block, bb_ops. intros H id. destruct (bb_valid e).
  - destruct (negb (bb_last e =? 0) && (bb_height e mod 20 =? 0)).
    + destruct (rate_loop _ _ _ _ _ _ _) as [s2| |] eqn:HL; try discriminate. injection H as <- <-.
      rewrite filter_ops_app, mrun_app.
      destruct (bb_discard e).
      * rewrite mrun_discards. cbn [obind].
        pose proof (rate_loop_refines _ _ _ _ _ _ _ _ HL id) as HR.
        rewrite sget_map in HR.
        destruct (sget s id) as [tw|] eqn:E.
        -- rewrite existsb_keys by (rewrite E; discriminate). exact HR.
        -- destruct (existsb _ _); exact HR.
      * cbn [filter_ops map filter mrun obind]. apply (rate_loop_refines _ _ _ _ _ _ _ _ HL id).
    + injection H as <- <-. reflexivity.
  - injection H as <- <-. apply invalidate_fold_refines.
Qed.

(* hence a whole block never panics on stores whose records satisfy the ring invariant: stated
   per asset through [mrun_inv] *)
Corollary begin_block_asset_inv e assets s s' d g id :
  1 <= bb_n e ->
  begin_block e assets s = Ok (s', d) ->
  Inv17 (bb_n e) g (sget s id) ->
  Inv17 (bb_n e) (ghost_run (bb_gap e) g (filter_ops id (bb_ops e assets (map fst s)))) (sget s' id).
Proof.
  intros Hn HB HI.
  destruct (mrun_inv (bb_n e) (bb_gap e) (filter_ops id (bb_ops e assets (map fst s))) g (sget s id) Hn HI)
    as (t' & Hr & HI').
  rewrite (begin_block_refines _ _ _ _ _ HB id) in Hr. injection Hr as <-. exact HI'.
Qed.

(* ---------- block level: no panic ---------- *)
Definition StoreInv (n : Z) (s : mstore) : Prop := forall id, exists g, Inv17 n g (sget s id).

Lemma nth_z_some {A} (l : list A) : forall i, (i < length l)%nat -> exists x, nth_z l i = Some x.
Proof.
  induction l as [|y l IH]; intros i Hi; cbn [length] in Hi; [lia|].
  destruct i as [|i]; cbn [nth_z]; [eexists; reflexivity|apply IH; lia].
Qed.

Lemma rate_loop_ok n gap height rates assets : forall index s,
  1 <= n -> -1 <= index -> StoreInv n s ->
  exists s', rate_loop n gap height rates assets index s = Ok s' /\ StoreInv n s'.
Proof.
  induction assets as [|[a req] rest IH]; intros index s Hn Hi HS; cbn [rate_loop].
  - exists s. split; [reflexivity|exact HS].
  - destruct (req && negb match rates with [] => true | _ :: _ => false end).
    + destruct (Z.gtb_spec (zlen rates) (index + 1)) as [Hlen|Hlen].
      * destruct (nth_z_some rates (Z.to_nat (index + 1))) as [rate Hr]; [unfold zlen in Hlen; lia|].
        rewrite Hr. destruct (HS a) as [g Hg].
        destruct (mstep_inv n gap g (sget s a) (Sample height rate) Hn Hg) as (t' & Hs & HI').
        cbn [mstep] in Hs. rewrite Hs.
        apply IH; [assumption|lia|]. intros id. destruct (Z.eq_dec id a) as [->|Hne].
        -- rewrite sget_sput; [eexists; exact HI'|]. intros ->. apply (update_none_result _ _ _ _ _ Hs).
        -- rewrite sget_sput_other by assumption. apply HS.
      * apply IH; [assumption|lia|assumption].
    + apply IH; assumption.
Qed.

Lemma storeinv_discard n s : 1 <= n ->
  StoreInv n s -> StoreInv n (map (fun kv : Z * twa => (fst kv, discard_reset (snd kv))) s).
Proof.
  intros Hn HS id. rewrite sget_map. destruct (HS id) as [g Hg].
  destruct (mstep_inv n 0 g (sget s id) DiscardReset Hn Hg) as (t' & Hs & HI').
  cbn [mstep] in Hs. injection Hs as <-. eexists; exact HI'.
Qed.

(* market.BeginBlocker never panics on a store whose records satisfy the ring invariant, and
   re-establishes it: by induction over blocks, no block of any history panics *)
Theorem begin_block_no_panic e assets s :
  1 <= bb_n e -> StoreInv (bb_n e) s ->
  exists s' d, begin_block e assets s = Ok (s', d) /\ StoreInv (bb_n e) s'.
Proof.
  intros Hn HS. unfold begin_block. cbv zeta. destruct (bb_valid e).
  - destruct (negb (bb_last e =? 0) && (bb_height e mod 20 =? 0)).
    + destruct (bb_discard e).
      * destruct (rate_loop_ok (bb_n e) (bb_gap e) (bb_height e) (bb_rates e) assets (-1) _ Hn ltac:(lia)
                    (storeinv_discard _ _ Hn HS)) as (s2 & HL & HS2).
        rewrite HL. exists s2, false. split; [reflexivity|exact HS2].
      * destruct (rate_loop_ok (bb_n e) (bb_gap e) (bb_height e) (bb_rates e) assets (-1) _ Hn ltac:(lia) HS)
          as (s2 & HL & HS2).
        rewrite HL. exists s2, false. split; [reflexivity|exact HS2].
    + exists s, (bb_discard e). split; [reflexivity|exact HS].
  - eexists _, (bb_discard e). split; [reflexivity|].
    intros id. pose proof (invalidate_fold_refines (bb_n e) (bb_gap e) assets s id) as HR.
    destruct (HS id) as [g Hg].
    destruct (mrun_inv (bb_n e) (bb_gap e)
                (filter_ops id (map (fun a : Z * bool => (fst a, Invalidate)) assets))
                g (sget s id) Hn Hg) as (t' & Hr & HI').
    rewrite HR in Hr. injection Hr as <-. eexists; exact HI'.
Qed.

Lemma storeinv_empty n : StoreInv n [].
Proof. intros id. exists ghost0. reflexivity. Qed.
