(* C13, locker half: the locker invariant LInv (Proofs/LockerProofs.v) is kept by EVERY op of
   Model/Locker.v, hence holds after every finite history; the executable predicate
   holds_C13_locker follows from it; what a withdrawal / close pays. *)
From Comdex Require Import Lib.Base Lib.DecArith Model.Collector Model.Locker Proofs.CollectorProofs Proofs.LockerProofs.
From Coq Require Import ZifyBool.

(* ---- plumbing ---- *)
Lemma obind_ok {A B} (x : outcome A) (f : A -> outcome B) b :
  obind x f = Ok b -> exists a, x = Ok a /\ f a = Ok b.
Proof. destruct x; cbn; try discriminate. eauto. Qed.

Lemma lift_ok s r s' : lift s r = Ok s' -> exists c, r = Ok c /\ s' = set_cs s c.
Proof. destruct r; cbn; try discriminate. intros H; injection H as <-. eauto. Qed.

(* nothing the locker invariant reads changed; locker custody did not shrink *)
Definition lframe (s s' : state) : Prop :=
  lockers s' = lockers s /\ lks s' = lks s /\ next_id s' = next_id s /\ lwl s' = lwl s /\
  (forall d, bnk (cs s) (A_LOCKER, d) <= bnk (cs s') (A_LOCKER, d)).

Lemma lframe_refl s : lframe s s.
Proof. repeat split; auto. intros; lia. Qed.

Lemma lframe_trans s1 s2 s3 : lframe s1 s2 -> lframe s2 s3 -> lframe s1 s3.
Proof.
  intros (A1 & A2 & A3 & A4 & A5) (B1 & B2 & B3 & B4 & B5). repeat split; try congruence.
  intros d. specialize (A5 d). specialize (B5 d). lia.
Qed.

Lemma lframe_linv s s' : LInv s -> lframe s s' -> LInv s'.
Proof. intros HI (A1 & A2 & A3 & A4 & A5). exact (linv_frame s s' HI A1 A2 A3 A4 A5). Qed.

Definition cframe (c c' : cstate) : Prop := forall d, bnk c (A_LOCKER, d) <= bnk c' (A_LOCKER, d).

Lemma cframe_refl c : cframe c c. Proof. intros d; lia. Qed.
Lemma cframe_trans c1 c2 c3 : cframe c1 c2 -> cframe c2 c3 -> cframe c1 c3.
Proof. intros A B d. specialize (A d). specialize (B d). lia. Qed.

Lemma lframe_set_cs s c : cframe (cs s) c -> lframe s (set_cs s c).
Proof. intros H. repeat split; auto. Qed.

Lemma cframe_csend c from to d amt c' : from <> A_LOCKER -> csend c from to d amt = Ok c' -> cframe c c'.
Proof.
  intros Hf H d'. rewrite (lbal_csend _ _ _ _ _ _ d' H). destruct (csend_spec _ _ _ _ _ _ H) as (Ha & _).
  destruct (Z.eqb_spec from A_LOCKER); [contradiction|]. cbn [andb]. destruct ((to =? A_LOCKER) && (d' =? d)); lia.
Qed.

Lemma cframe_set_net_fee c app asset fee c' : set_net_fee c app asset fee = Ok c' -> cframe c c'.
Proof. intros H d. destruct (set_net_fee_spec _ _ _ _ _ H) as (_ & _ & Hb & _). rewrite Hb. lia. Qed.

Lemma cframe_decrease c app asset amt c' : decrease_net_fee c app asset amt = Ok c' -> cframe c c'.
Proof. intros H d. destruct (decrease_net_fee_spec _ _ _ _ _ H) as (_ & _ & _ & Hb & _). rewrite Hb. lia. Qed.

Lemma cframe_mapping c app asset f c' : set_auction_mapping c app asset f = Ok c' -> cframe c c'.
Proof. intros H d. destruct (set_auction_mapping_spec _ _ _ _ _ H) as (_ & Hb & _). rewrite Hb. lia. Qed.

Lemma collector_ne_locker : A_COLLECTOR <> A_LOCKER. Proof. discriminate. Qed.
Lemma ext_ne_locker : A_EXT <> A_LOCKER. Proof. discriminate. Qed.
Lemma ext_ne_collector : A_EXT <> A_COLLECTOR. Proof. discriminate. Qed.

Lemma cframe_get_amount c app asset amt c' : get_amount_from_collector c app asset amt = Ok c' -> cframe c c'.
Proof.
  unfold get_amount_from_collector. destruct (nf c (app, asset)); [|discriminate].
  destruct (amt <? 0); [discriminate|]. destruct (negb (z - amt >? 0)); [discriminate|].
  intros H. apply obind_ok in H. destruct H as (c1 & H1 & H2).
  eapply cframe_trans; [eapply cframe_csend; [exact collector_ne_locker|exact H1]|eapply cframe_decrease; exact H2].
Qed.

Lemma cframe_surplus_fund c app asset to denom amt c' : surplus_fund c app asset to denom amt = Ok c' -> cframe c c'.
Proof.
  unfold surplus_fund. intros H. apply obind_ok in H. destruct H as (c1 & H1 & H2).
  eapply cframe_trans; [eapply cframe_csend; [exact collector_ne_locker|exact H1]|eapply cframe_decrease; exact H2].
Qed.

Lemma cframe_update_collector c app asset a b c0 d c' : update_collector c app asset a b c0 d = Ok c' -> cframe c c'.
Proof. unfold update_collector. destruct (negb (has_asset c asset)); [discriminate|]. apply cframe_set_net_fee. Qed.

(* a chain "lift s (f (cs s))" *)
Lemma lframe_lift s r s' : lift s r = Ok s' -> (forall c, r = Ok c -> cframe (cs s) c) -> lframe s s'.
Proof. intros H Hc. apply lift_ok in H. destruct H as (c & -> & ->). apply lframe_set_cs. apply Hc. reflexivity. Qed.

Ltac lf_lift H lem := eapply lframe_lift; [exact H|intros ? ?; eapply lem; eassumption].

(* an optional transfer out of the outside account *)
Lemma lframe_opt_in s (b : bool) asset amt s1 :
  (if b then lift s (csend (cs s) A_EXT A_COLLECTOR asset amt) else Ok s) = Ok s1 -> lframe s s1.
Proof.
  destruct b; [|intros H; injection H as <-; apply lframe_refl].
  intros H. eapply lframe_lift; [exact H|]. intros c Hc. eapply cframe_csend; [exact ext_ne_locker|exact Hc].
Qed.

Lemma fee_in_lframe s app asset amt un s' : fee_in s app asset amt un = Ok s' -> lframe s s'.
Proof.
  unfold fee_in. destruct ((amt =? 0) && negb un); [intros H; injection H as <-; apply lframe_refl|].
  intros H. apply obind_ok in H. destruct H as (s1 & H1 & H2).
  eapply lframe_trans.
  - eapply lframe_lift; [exact H1|]. intros c Hc. eapply cframe_csend; [exact ext_ne_locker|exact Hc].
  - eapply lframe_lift; [exact H2|]. intros c Hc. eapply cframe_update_collector; exact Hc.
Qed.

Lemma penalty_lframe s app book_asset coin_asset amt s' :
  obind (if amt >? 0 then lift s (csend (cs s) A_EXT A_COLLECTOR coin_asset amt) else Ok s)
        (fun s1 => lift s1 (set_net_fee (cs s1) app book_asset amt)) = Ok s' -> lframe s s'.
Proof.
  intros H. apply obind_ok in H. destruct H as (s1 & H1 & H2).
  eapply lframe_trans; [exact (lframe_opt_in _ _ _ _ _ H1)|].
  eapply lframe_lift; [exact H2|]. intros c Hc. eapply cframe_set_net_fee; exact Hc.
Qed.

Lemma mapping_lframe s app asset f s' : lift s (set_auction_mapping (cs s) app asset f) = Ok s' -> lframe s s'.
Proof. intros H. eapply lframe_lift; [exact H|]. intros c Hc. eapply cframe_mapping; exact Hc. Qed.

Lemma in_and_book_lframe s from asset_coin amt app asset_book fee s' :
  from <> A_LOCKER ->
  obind (lift s (csend (cs s) from A_COLLECTOR asset_coin amt)) (fun s1 => lift s1 (set_net_fee (cs s1) app asset_book fee)) = Ok s' ->
  lframe s s'.
Proof.
  intros Hf H. apply obind_ok in H. destruct H as (s1 & H1 & H2).
  eapply lframe_trans.
  - eapply lframe_lift; [exact H1|]. intros c Hc. eapply cframe_csend; [exact Hf|exact Hc].
  - eapply lframe_lift; [exact H2|]. intros c Hc. eapply cframe_set_net_fee; exact Hc.
Qed.

Lemma v1_surplus_start_lframe s app asset s' : v1_surplus_start s app asset = Ok s' -> lframe s s'.
Proof.
  unfold v1_surplus_start.
  destruct (af_surplus (flags_of s app asset) && negb (af_active (flags_of s app asset)) && negb (brk_on (cs s) app) && negb (esm_on (cs s) app));
    [|intros H; injection H as <-; apply lframe_refl].
  destruct (clk (cs s) (app, asset)) as [cl|]; [|intros H; injection H as <-; apply lframe_refl].
  destruct (nf (cs s) (app, asset)) as [x|]; [|intros H; injection H as <-; apply lframe_refl].
  destruct (x >=? cl_surplus_thr cl + cl_lot cl); [|intros H; injection H as <-; apply lframe_refl].
  destruct (negb (has_asset (cs s) (cl_asset cl) && has_asset (cs s) (cl_secondary cl))); [intros H; injection H as <-; apply lframe_refl|].
  intros H. apply obind_ok in H. destruct H as (s1 & H1 & H2).
  eapply lframe_trans; [|exact (mapping_lframe _ _ _ _ _ H2)].
  eapply lframe_lift; [exact H1|]. intros c Hc. eapply cframe_get_amount; exact Hc.
Qed.

Lemma v1_surplus_close_lframe s app asset lot b e s' : v1_surplus_close s app asset lot b e = Ok s' -> lframe s s'.
Proof.
  unfold v1_surplus_close. intros H. apply obind_ok in H. destruct H as (s2 & H1 & H2).
  eapply lframe_trans; [|exact (mapping_lframe _ _ _ _ _ H2)].
  destruct (b && negb e); [injection H1 as <-; apply lframe_refl|].
  exact (in_and_book_lframe _ _ _ _ _ _ _ _ ext_ne_locker H1).
Qed.

Lemma v1_debt_start_lframe s app asset s' : v1_debt_start s app asset = Ok s' -> lframe s s'.
Proof.
  unfold v1_debt_start.
  destruct (af_debt (flags_of s app asset) && negb (af_active (flags_of s app asset)) && negb (brk_on (cs s) app) && negb (esm_on (cs s) app));
    [|intros H; injection H as <-; apply lframe_refl].
  destruct (clk (cs s) (app, asset)) as [cl|]; [|intros H; injection H as <-; apply lframe_refl].
  destruct (nf (cs s) (app, asset)) as [x|]; [|intros H; injection H as <-; apply lframe_refl].
  destruct (x <=? cl_debt_thr cl - cl_lot cl); [|intros H; injection H as <-; apply lframe_refl].
  destruct (negb (has_asset (cs s) (cl_asset cl) && has_asset (cs s) (cl_secondary cl))); [intros H; injection H as <-; apply lframe_refl|].
  apply mapping_lframe.
Qed.

Lemma v1_debt_close_lframe s app asset amt b e s' : v1_debt_close s app asset amt b e = Ok s' -> lframe s s'.
Proof.
  unfold v1_debt_close. intros H. apply obind_ok in H. destruct H as (s2 & H1 & H2).
  eapply lframe_trans; [|exact (mapping_lframe _ _ _ _ _ H2)].
  destruct e; [injection H1 as <-; apply lframe_refl|].
  destruct b; [|injection H1 as <-; apply lframe_refl].
  exact (in_and_book_lframe _ _ _ _ _ _ _ _ ext_ne_locker H1).
Qed.

Lemma v2_check_stats_lframe s app asset s' : v2_check_stats s app asset = Ok s' -> lframe s s'.
Proof.
  unfold v2_check_stats.
  destruct (af_active (flags_of s app asset) || brk_on (cs s) app); [intros H; injection H as <-; apply lframe_refl|].
  destruct (clk (cs s) (app, asset)) as [cl|]; [|intros H; injection H as <-; apply lframe_refl].
  destruct (nf (cs s) (app, asset)) as [x|]; [|intros H; injection H as <-; apply lframe_refl].
  intros H. apply obind_ok in H. destruct H as (s1 & H1 & H2).
  assert (L1 : lframe s s1).
  { destruct ((x <=? cl_debt_thr cl - cl_lot cl) && af_debt (flags_of s app asset)).
    - destruct (negb (has_asset (cs s) (cl_asset cl) && has_asset (cs s) (cl_secondary cl))); [discriminate|].
      exact (mapping_lframe _ _ _ _ _ H1).
    - injection H1 as <-. apply lframe_refl. }
  eapply lframe_trans; [exact L1|].
  destruct ((x >=? cl_surplus_thr cl + cl_lot cl) && af_surplus (flags_of s app asset)); [|injection H2 as <-; apply lframe_refl].
  destruct (negb (has_asset (cs s1) (cl_asset cl) && has_asset (cs s1) (cl_secondary cl))); [discriminate|].
  apply obind_ok in H2. destruct H2 as (s2 & H2 & H3).
  eapply lframe_trans; [|exact (mapping_lframe _ _ _ _ _ H3)].
  eapply lframe_lift; [exact H2|]. intros c Hc. eapply cframe_get_amount; exact Hc.
Qed.

Lemma v2_close_tail_lframe s2 app asset s' :
  match amp (cs s2) (app, asset) with
  | None => Err 16
  | Some f => lift s2 (set_auction_mapping (cs s2) app asset (with_active f false))
  end = Ok s' -> lframe s2 s'.
Proof. destruct (amp (cs s2) (app, asset)); [apply mapping_lframe|discriminate]. Qed.

Lemma v2_surplus_close_lframe s app asset lot s' : v2_surplus_close s app asset lot = Ok s' -> lframe s s'.
Proof. unfold v2_surplus_close. intros H. exact (v2_close_tail_lframe _ _ _ _ H). Qed.

Lemma v2_debt_close_lframe s app asset ca dd da s' : v2_debt_close s app asset ca dd da = Ok s' -> lframe s s'.
Proof.
  unfold v2_debt_close. intros H. apply obind_ok in H. destruct H as (s1 & H1 & H2).
  apply obind_ok in H2. destruct H2 as (s2 & H2 & H3).
  eapply lframe_trans; [|eapply lframe_trans; [|exact (v2_close_tail_lframe _ _ _ _ H3)]].
  - eapply lframe_lift; [exact H1|]. intros c Hc. eapply cframe_csend; [exact ext_ne_locker|exact Hc].
  - eapply lframe_lift; [exact H2|]. intros c Hc. eapply cframe_set_net_fee; exact Hc.
Qed.

(* ---- the ops added with the ESM / refund paths ---- *)
Lemma v2_trigger_esm_lframe s app da collected fee s' : v2_trigger_esm s app da collected fee = Ok s' -> lframe s s'.
Proof.
  unfold v2_trigger_esm. destruct (collected <? 0); [discriminate|].
  destruct ((if collected >? fee then fee else collected) <? 0); [discriminate|]. apply penalty_lframe.
Qed.

Lemma esm_redeem_loop_cframe l : forall c app c', esm_redeem_loop c app l = Ok c' -> cframe c c'.
Proof.
  induction l as [|[asset cls] r IH]; intros c app c'; cbn [esm_redeem_loop].
  - intros H; injection H as <-. apply cframe_refl.
  - destruct (nf c (app, asset)) as [x|]; [|apply IH].
    destruct ((cls =? 0) || (x =? 0)); [apply IH|]. destruct (cls =? 3); [discriminate|]. destruct (negb (cls =? 1)); [discriminate|].
    destruct (csend c A_COLLECTOR A_EXT asset x) as [c1| |] eqn:S; try discriminate.
    pose proof (cframe_csend _ _ _ _ _ _ collector_ne_locker S) as F1.
    destruct (decrease_net_fee c1 app asset x) as [c2| |] eqn:D; try discriminate.
    + intros H. eapply cframe_trans; [exact F1|]. eapply cframe_trans; [exact (cframe_decrease _ _ _ _ _ D)|exact (IH _ _ _ H)].
    + intros H; injection H as <-. exact F1.
Qed.

Lemma esm_redeem_lframe s app st l s' : esm_redeem s app st l = Ok s' -> lframe s s'.
Proof.
  unfold esm_redeem. destruct (negb st); [discriminate|]. intros H.
  eapply lframe_lift; [exact H|]. intros c Hc. exact (esm_redeem_loop_cframe _ _ _ _ Hc).
Qed.

Lemma user_ne_locker u : 0 <= u -> user u <> A_LOCKER.
Proof. intros Hu E. pose proof (user_not_locker u Hu) as H. rewrite E in H. discriminate H. Qed.

Lemma msg_cdeposit_lframe s u app d amt done s' : 0 <= u -> msg_cdeposit s u app d amt done = Ok s' -> lframe s s'.
Proof.
  intros Hu. unfold msg_cdeposit. destruct (amt <=? 0); [discriminate|]. destruct (app =? 0); [discriminate|].
  destruct done; [discriminate|]. destruct (negb (has_asset (cs s) d)); [discriminate|].
  destruct (negb (d =? 3)); [discriminate|]. destruct (negb (app =? 2)); [discriminate|].
  intros H. apply obind_ok in H. destruct H as (s1 & H1 & H2). apply obind_ok in H2. destruct H2 as (s2 & H2 & H3).
  destruct (bnk (cs s2) (A_COLLECTOR, 3) >? INT64_MAX); [discriminate|]. destruct (bnk (cs s2) (A_COLLECTOR, 3) <? REFUND_TOTAL); [discriminate|].
  apply obind_ok in H3. destruct H3 as (s3 & H3 & H4).
  eapply lframe_trans; [eapply lframe_lift; [exact H1|intros c Hc; eapply cframe_csend; [exact (user_ne_locker u Hu)|exact Hc]]|].
  eapply lframe_trans; [eapply lframe_lift; [exact H2|intros c Hc; eapply cframe_set_net_fee; exact Hc]|].
  eapply lframe_trans; [eapply lframe_lift; [exact H3|intros c Hc; eapply cframe_csend; [exact collector_ne_locker|exact Hc]]|].
  eapply lframe_lift; [exact H4|intros c Hc; eapply cframe_decrease; exact Hc].
Qed.

(* ---- the savings-rate change: collector.LockerIterateRewards ---- *)
Definition ids_ok (s : state) (app asset : Z) (ids : list Z) : Prop :=
  forall id x, In id ids -> find_locker (lockers s) id = Some x -> l_app x = app /\ l_asset x = asset.

Lemma iter_one_linv s app asset lid rw :
  LInv s -> (forall x, find_locker (lockers s) lid = Some x -> l_app x = app /\ l_asset x = asset) ->
  match iter_one s app asset lid rw with
  | IterGo s' | IterStop s' =>
      LInv s' /\ (forall id x, find_locker (lockers s') id = Some x ->
                   exists x0, find_locker (lockers s) id = Some x0 /\ l_app x = l_app x0 /\ l_asset x = l_asset x0)
  | IterPanic => True
  end.
Proof.
  intros HI Hm. unfold iter_one.
  destruct (find_locker (lockers s) lid) as [ld|] eqn:F; [|exact I].
  destruct (Hm ld eq_refl) as (Ha & Hd).
  destruct (rw =? -2); [exact I|].
  assert (Hsame : forall s', lockers s' = lockers s -> forall id x, find_locker (lockers s') id = Some x ->
            exists x0, find_locker (lockers s) id = Some x0 /\ l_app x = l_app x0 /\ l_asset x = l_asset x0).
  { intros s' E id x Hx. rewrite E in Hx. eauto. }
  destruct (rw <? 0); [split; [exact HI|apply Hsame; reflexivity]|].
  destruct (tracker_after s lid app rw >=? P18) eqn:ET.
  2:{ split; [|apply Hsame; reflexivity]. eapply lframe_linv; [exact HI|]. repeat split; auto. intros; cbn; lia. }
  set (r := dtrunc_int (tracker_after s lid app rw)).
  assert (Hr : 1 <= r) by (apply trunc_pos; lia).
  cbn [cs set_trk].
  destruct (decrease_net_fee (cs s) app (l_asset ld) r) as [c2| |] eqn:D.
  2:{ split; [|apply Hsame; reflexivity]. eapply lframe_linv; [exact HI|]. repeat split; auto. intros; cbn; lia. }
  2:{ exact I. }
  assert ((r >? 0) = true) as -> by lia.
  cbn [cs set_cs set_trk].
  destruct (csend c2 A_COLLECTOR A_LOCKER asset r) as [c3| |] eqn:S.
  3:{ exact I. }
  2:{ split; [|apply Hsame; reflexivity]. eapply lframe_linv; [exact HI|]. repeat split; auto. intros d; cbn.
      destruct (decrease_net_fee_spec _ _ _ _ _ D) as (_ & _ & _ & Hb & _). rewrite Hb. lia. }
  destruct (find_some _ _ _ F) as (Hin & Hid).
  destruct (lks s (app, asset)) as [lk|] eqn:K.
  2:{ exfalso. apply (li_has s HI ld Hin). rewrite Ha, Hd. exact K. }
  split.
  - apply (linv_move s _ ld r (l_ret ld + r) app asset lk HI); auto.
    + rewrite Hid. exact F.
    + pose proof (li_nonneg s HI ld Hin). lia.
    + unfold upd_amount. cbn [lks set_lockers set_cs set_trk]. rewrite K. reflexivity.
    + unfold upd_amount. cbn [lks set_lockers set_cs set_trk]. rewrite K. reflexivity.
    + unfold upd_amount. cbn [lks set_lockers set_cs set_trk]. rewrite K. reflexivity.
    + unfold upd_amount. cbn [lks set_lockers set_cs set_trk]. rewrite K. reflexivity.
    + unfold upd_amount. cbn [lks set_lockers set_cs set_trk]. rewrite K. cbn. intros d.
      rewrite (lbal_csend _ _ _ _ _ _ d S). destruct (decrease_net_fee_spec _ _ _ _ _ D) as (_ & _ & _ & Hb & _). rewrite Hb.
      rewrite Z.eqb_refl. cbn [andb]. change (A_COLLECTOR =? A_LOCKER) with false. cbn [andb]. lia.
  - intros id x. unfold upd_amount. cbn [lks set_lockers set_cs set_trk]. rewrite K. cbn [lockers set_lks set_lockers].
    rewrite find_put. cbn [l_id with_net]. destruct (Z.eqb_spec id (l_id ld)) as [E|E].
    + intros H; injection H as <-. exists ld. subst id. rewrite Hid in *. cbn. auto.
    + eauto.
Qed.

Lemma iter_rewards_linv ids : forall s app asset rws s',
  LInv s -> ids_ok s app asset ids -> iter_rewards s app asset ids rws = Ok s' -> LInv s'.
Proof.
  induction ids as [|lid ids IH]; intros s app asset rws s' HI Hok; cbn [iter_rewards].
  - intros H; injection H as <-. exact HI.
  - destruct rws as [|rw rws]; [intros H; injection H as <-; exact HI|].
    pose proof (iter_one_linv s app asset lid rw HI (fun x Hx => Hok lid x (or_introl eq_refl) Hx)) as H1.
    destruct (iter_one s app asset lid rw) as [s1|s1|]; [|intros H; injection H as <-; tauto|discriminate].
    destruct H1 as (HI1 & Hpres). apply IH; [exact HI1|].
    intros id x Hin Hf. destruct (Hpres id x Hf) as (x0 & Hf0 & -> & ->). apply (Hok id x0); [right; exact Hin|exact Hf0].
Qed.

Lemma update_lookup_linv s app asset lsr sthr dthr lot dlot rws s' :
  LInv s -> update_lookup s app asset lsr sthr dthr lot dlot rws = Ok s' -> LInv s'.
Proof.
  intros HI. unfold update_lookup. destruct (clk (cs s) (app, asset)) as [cl|].
  2:{ intros H; injection H as <-. eapply lframe_linv; [exact HI|]. repeat split; auto. intros; cbn; lia. }
  intros H. apply obind_ok in H. destruct H as (s1 & H1 & H2). injection H2 as <-.
  assert (HI1 : LInv s1).
  { assert (Hit : forall s1', iter_rewards s app asset (match lks s (app, asset) with Some lk => lk_ids lk | None => [] end) rws = Ok s1' -> LInv s1').
    { intros s1' Hit. eapply iter_rewards_linv; [exact HI| |exact Hit].
      intros id x Hin Hf. destruct (lks s (app, asset)) as [lk|] eqn:K; [|destruct Hin].
      exact (li_ids s HI _ _ _ _ _ K Hin Hf). }
    destruct (rwl s (cl_app cl, cl_asset cl)); [|injection H1 as <-; exact HI].
    destruct (lsr =? 0); [apply Hit; exact H1|].
    destruct (cl_lsr cl =? 0); [injection H1 as <-; exact HI|].
    destruct ((cl_lsr cl >? 0) && (lsr >? 0)); [apply Hit; exact H1|injection H1 as <-; exact HI]. }
  eapply lframe_linv; [exact HI1|]. repeat split; auto. intros; cbn; lia.
Qed.

(* ---- every op keeps the locker invariant ---- *)
Lemma valid_user o u : valid_op o = true ->
  match o with
  | LCreate u' _ _ _ | LDeposit u' _ _ _ _ _ | LWithdraw u' _ _ _ _ _ | LClose u' _ _ _ _ => u' = u -> 0 <= u
  | _ => True
  end.
Proof. destruct o; cbn; auto; intros H ->; lia. Qed.

Lemma step_linv s o s' : LInv s -> valid_op o = true -> step s o = Ok s' -> LInv s'.
Proof.
  intros HI Hv. destruct o; cbn [step].
  - apply msg_create_linv; [exact HI|cbn in Hv; lia].
  - apply msg_deposit_linv; [exact HI|cbn in Hv; lia].
  - apply msg_withdraw_linv; [exact HI|cbn in Hv; lia].
  - apply msg_close_linv; [exact HI|cbn in Hv; lia].
  - apply msg_reward_calc_linv; exact HI.
  - apply update_lookup_linv; exact HI.
  - unfold add_lookup. destruct (negb (has_asset (cs s) asset)); [discriminate|]. destruct (negb (has_asset (cs s) secondary)); [discriminate|].
    destruct (asset =? secondary); [discriminate|]. destruct (adm s (app, asset)); [discriminate|].
    intros H; injection H as <-. eapply lframe_linv; [exact HI|]. repeat split; auto. intros; cbn; lia.
  - apply whitelist_locker_linv; exact HI.
  - unfold whitelist_reward. destruct (brk_on (cs s) app); [discriminate|]. destruct (esm_on (cs s) app); [discriminate|].
    destruct (negb (lwl s (app, asset))); [discriminate|]. intros H; injection H as <-.
    eapply lframe_linv; [exact HI|]. repeat split; auto. intros; cbn; lia.
  - unfold set_flags. destruct (surplus && distributor); [discriminate|]. destruct (surplus && debt); [discriminate|].
    intros H; injection H as <-. eapply lframe_linv; [exact HI|]. repeat split; auto. intros; cbn; lia.
  - intros H; injection H as <-. eapply lframe_linv; [exact HI|]. repeat split; auto. intros; cbn; lia.
  - intros H; injection H as <-. eapply lframe_linv; [exact HI|]. repeat split; auto. intros; cbn; lia.
  - intros H. exact (lframe_linv _ _ HI (fee_in_lframe _ _ _ _ _ _ H)).
  - intros H. eapply lframe_linv; [exact HI|]. eapply lframe_lift; [exact H|]. intros c Hc. eapply cframe_get_amount; exact Hc.
  - intros H. eapply lframe_linv; [exact HI|]. eapply lframe_lift; [exact H|]. intros c Hc. eapply cframe_decrease; exact Hc.
  - intros H. eapply lframe_linv; [exact HI|]. eapply lframe_lift; [exact H|]. intros c Hc. eapply cframe_surplus_fund; exact Hc.
  - intros H. exact (lframe_linv _ _ HI (v1_surplus_start_lframe _ _ _ _ H)).
  - intros H. exact (lframe_linv _ _ HI (v1_surplus_close_lframe _ _ _ _ _ _ _ H)).
  - intros H. exact (lframe_linv _ _ HI (v1_debt_start_lframe _ _ _ _ H)).
  - intros H. exact (lframe_linv _ _ HI (v1_debt_close_lframe _ _ _ _ _ _ _ H)).
  - intros H. exact (lframe_linv _ _ HI (penalty_lframe _ _ _ _ _ _ H)).
  - intros H. exact (lframe_linv _ _ HI (v2_check_stats_lframe _ _ _ _ H)).
  - intros H. exact (lframe_linv _ _ HI (v2_surplus_close_lframe _ _ _ _ _ H)).
  - intros H. exact (lframe_linv _ _ HI (v2_debt_close_lframe _ _ _ _ _ _ _ H)).
  - intros H. exact (lframe_linv _ _ HI (penalty_lframe _ _ _ _ _ _ H)).
  - intros H. exact (lframe_linv _ _ HI (v2_trigger_esm_lframe _ _ _ _ _ _ H)).
  - intros H. exact (lframe_linv _ _ HI (esm_redeem_lframe _ _ _ _ _ H)).
  - intros H. refine (lframe_linv _ _ HI (msg_cdeposit_lframe _ _ _ _ _ _ _ _ H)). cbn in Hv. lia.
Qed.

Lemma apply_step_linv s o : LInv s -> valid_op o = true -> LInv (apply_step s o).
Proof.
  intros HI Hv. unfold apply_step. destruct (step s o) as [s'| |] eqn:E; [|exact HI|exact HI].
  exact (step_linv _ _ _ HI Hv E).
Qed.

Lemma run_linv ops : forall s, LInv s -> forallb valid_op ops = true -> LInv (run s ops).
Proof.
  induction ops as [|o ops IH]; intros s HI Hv; [exact HI|].
  cbn in Hv. apply andb_true_iff in Hv. destruct Hv as (Hv1 & Hv2).
  unfold run. cbn [fold_left]. apply IH; [apply apply_step_linv; assumption|exact Hv2].
Qed.

(* ---- the starting states ---- *)
Lemma init_linv assets apps : LInv (init_state assets apps).
Proof.
  constructor; cbn; try (intros; discriminate); try tauto.
  all: try constructor.
  all: try (intros d; unfold fsum, net_sum; cbn; lia).
  all: try (intros k H; contradiction).
Qed.

Lemma fund_linv s u d amt : LInv s -> 0 <= u -> LInv (fund_user s u d amt).
Proof.
  intros HI Hu. eapply lframe_linv; [exact HI|]. repeat split; auto. intros d'. unfold fund_user. cbn [cs set_cs bnk set_bnk]. unfold kupd, keq. cbn [fst snd].
  rewrite (Z.eqb_sym A_LOCKER (user u)), (user_not_locker u Hu). cbn [andb]. lia.
Qed.

Lemma genesis_linv assets apps funds : forallb valid_fund funds = true -> LInv (genesis assets apps funds).
Proof.
  unfold genesis. generalize (init_linv assets apps). generalize (init_state assets apps).
  induction funds as [|[[u d] amt] r IH]; intros s HI Hv; [exact HI|].
  cbn in Hv. apply andb_true_iff in Hv. destruct Hv as (Hv1 & Hv2). cbn [fold_left].
  apply IH; [apply fund_linv; [exact HI|lia]|exact Hv2].
Qed.

(* ---- the executable predicate ---- *)
Lemma sum_over_le l f g : (forall a, f a <= g a) -> sum_over l f <= sum_over l g.
Proof. intros H. induction l as [|a r IH]; cbn; [lia|]. specialize (H a). lia. Qed.

(* over a duplicate-free list of apps the per-(app, asset) sums are pieces of the per-asset sum *)
Lemma sum_mt_le apps d l :
  NoDup apps -> (forall x, In x l -> 0 <= l_net x) ->
  sum_over apps (fun a => fsum (mt a d) l) <= fsum (on_asset d) l.
Proof.
  intros Hnd. induction l as [|x r IH]; intros Hnn.
  - rewrite fsum_nil. induction apps as [|a apps IHa]; cbn; [lia|]. inversion Hnd; subst. rewrite fsum_nil. specialize (IHa H2). lia.
  - rewrite fsum_cons.
    assert (Hsplit : sum_over apps (fun a => fsum (mt a d) (x :: r)) =
                     sum_over apps (fun a => if mt a d x then l_net x else 0) + sum_over apps (fun a => fsum (mt a d) r)).
    { clear. induction apps as [|a apps IHa]; cbn; [lia|]. rewrite fsum_cons, IHa. lia. }
    rewrite Hsplit.
    assert (Hx : 0 <= l_net x) by (apply Hnn; left; reflexivity).
    assert (Hone : sum_over apps (fun a => if mt a d x then l_net x else 0) <= if on_asset d x then l_net x else 0).
    { clear IH Hsplit Hnn. induction Hnd as [|a apps Hni Hnd IHa]; cbn; [destruct (on_asset d x); lia|].
      unfold mt at 1. unfold on_asset in *. destruct (Z.eqb_spec (l_app x) a) as [E|E]; cbn [andb].
      - assert (sum_over apps (fun a0 => if mt a0 d x then l_net x else 0) = 0) as ->.
        { clear IHa. induction apps as [|b apps IHb]; cbn; [reflexivity|].
          unfold mt at 1. destruct (Z.eqb_spec (l_app x) b) as [E'|E']; cbn [andb].
          - exfalso. apply Hni. left. congruence.
          - rewrite IHb; [reflexivity|intros Hc; apply Hni; right; exact Hc|inversion Hnd; assumption]. }
        destruct (l_asset x =? d); lia.
      - exact IHa. }
    assert (IH' := IH (fun y Hy => Hnn y (or_intror Hy))). lia.
Qed.

Lemma linv_holds apps assets s : LInv s -> NoDup apps -> holds_C13_locker apps assets s = true.
Proof.
  intros HI Hnd. unfold holds_C13_locker. apply forallb_forall. intros d _. apply andb_true_iff. split.
  - apply forallb_forall. intros a _. destruct (lks s (a, d)) as [lk|] eqn:K.
    + apply Z.eqb_eq. rewrite lockers_of_fsum. exact (li_total s HI _ _ _ K).
    + destruct (lockers_of s a d) as [|x r] eqn:L; [reflexivity|]. exfalso.
      assert (Hin : In x (lockers_of s a d)) by (rewrite L; left; reflexivity).
      unfold lockers_of in Hin. apply filter_In in Hin. destruct Hin as (Hin & Hm).
      apply andb_true_iff in Hm. destruct Hm as (Ha%Z.eqb_eq & Hd%Z.eqb_eq).
      apply (li_has s HI x Hin). rewrite Ha, Hd. exact K.
  - assert (sum_over apps (fun a => dep_val s a d) <= bnk (cs s) (A_LOCKER, d)); [|lia].
    eapply Z.le_trans; [|exact (li_cust s HI d)].
    eapply Z.le_trans; [|exact (sum_mt_le apps d (lockers s) Hnd (li_nonneg s HI))].
    apply sum_over_le. intros a. unfold dep_val. destruct (lks s (a, d)) as [lk|] eqn:K.
    + rewrite (li_total s HI _ _ _ K). lia.
    + assert (fsum (mt a d) (lockers s) = 0) as ->; [|lia]. apply fsum_none. intros x Hx.
      destruct (mt a d x) eqn:M; [|reflexivity]. apply mt_true in M. destruct M as (<- & <-). exfalso. apply (li_has s HI x Hx). exact K.
Qed.

(* the two clauses, spelled out *)
Lemma run_locker_total assets apps funds ops app asset lk :
  forallb valid_fund funds = true -> forallb valid_op ops = true ->
  let s := run (genesis assets apps funds) ops in
  lks s (app, asset) = Some lk -> lk_dep lk = net_sum (lockers_of s app asset).
Proof.
  intros Hf Hv s K. rewrite lockers_of_fsum.
  exact (li_total s (run_linv ops _ (genesis_linv assets apps funds Hf) Hv) _ _ _ K).
Qed.

Lemma run_locker_holds assets apps funds ops la ld :
  forallb valid_fund funds = true -> forallb valid_op ops = true -> NoDup la ->
  holds_C13_locker la ld (run (genesis assets apps funds) ops) = true.
Proof. intros Hf Hv Hnd. apply linv_holds; [exact (run_linv ops _ (genesis_linv assets apps funds Hf) Hv)|exact Hnd]. Qed.

Lemma run_locker_custody assets apps funds ops la d :
  forallb valid_fund funds = true -> forallb valid_op ops = true -> NoDup la ->
  let s := run (genesis assets apps funds) ops in
  sum_over la (fun a => dep_val s a d) <= net_sum (filter (fun x => l_asset x =? d) (lockers s)) /\
  net_sum (filter (fun x => l_asset x =? d) (lockers s)) <= bnk (cs s) (A_LOCKER, d).
Proof.
  intros Hf Hv Hnd s. pose proof (run_linv ops _ (genesis_linv assets apps funds Hf) Hv) as HI. fold s in HI.
  split; [|exact (li_cust s HI d)].
  change (net_sum (filter (fun x => l_asset x =? d) (lockers s))) with (fsum (on_asset d) (lockers s)).
  eapply Z.le_trans; [|exact (sum_mt_le la d (lockers s) Hnd (li_nonneg s HI))].
  apply sum_over_le. intros a. unfold dep_val. destruct (lks s (a, d)) as [lk|] eqn:K.
  - rewrite (li_total s HI _ _ _ K). lia.
  - assert (fsum (mt a d) (lockers s) = 0) as ->; [|lia]. apply fsum_none. intros x Hx.
    destruct (mt a d x) eqn:M; [|reflexivity]. apply mt_true in M. destruct M as (<- & <-). exfalso. apply (li_has s HI x Hx). exact K.
Qed.

(* ---- what a withdrawal / close pays ---- *)
Lemma calc_rewards_user s app asset lid rw s1 u d :
  0 <= u -> calc_rewards s app asset lid rw = Ok s1 -> bnk (cs s1) (user u, d) = bnk (cs s) (user u, d).
Proof.
  intros Hu H. destruct (calc_rewards_shape _ _ _ _ _ _ H) as ([(Hr & E1 & _)|(Hr & ld & lk & c2 & c3 & F & K & D & S & E1 & _)] & _).
  - rewrite E1. reflexivity.
  - rewrite E1. rewrite (ubal_csend _ _ _ _ _ _ (user u) d S).
    destruct (decrease_net_fee_spec _ _ _ _ _ D) as (_ & _ & _ & Hb & _). rewrite Hb.
    rewrite (user_not_locker u Hu), (user_not_collector u Hu). cbn [andb]. lia.
Qed.

Lemma step_pay s o s' : LInv s -> valid_op o = true -> step s o = Ok s' -> holds_C13_pay s o s' = true.
Proof.
  intros HI Hv. unfold holds_C13_pay. destruct o; cbn [pay_spec step]; try reflexivity.
  - (* withdraw *)
    assert (Hu : 0 <= u) by (cbn in Hv; lia). unfold msg_withdraw.
    destruct ((lid <=? 0) || (amt <=? 0)) eqn:E0; [discriminate|].
    destruct (locker_checks s u app asset lid) as [ld0| |] eqn:C; cbn [obind]; try discriminate.
    destruct (l_net ld0 <? amt); [discriminate|].
    destruct (calc_rewards s app asset lid rw) as [s1| |] eqn:R; cbn [obind]; try discriminate.
    assert ((amt >? 0) = true) as -> by lia.
    destruct (csend (cs s1) A_LOCKER (user u) asset amt) as [c2| |] eqn:S; cbn [lift obind]; try discriminate.
    intros H; injection H as <-. apply Z.eqb_eq.
    unfold upd_amount. destruct (lks _ _); cbn [cs set_lks set_lockers set_cs];
      rewrite (ubal_csend _ _ _ _ _ _ (user u) asset S), (calc_rewards_user _ _ _ _ _ _ u asset Hu R);
      rewrite !Z.eqb_refl, (user_not_locker u Hu); cbn [andb]; lia.
  - (* close *)
    assert (Hu : 0 <= u) by (cbn in Hv; lia). unfold msg_close.
    destruct (lid <=? 0) eqn:E0; [discriminate|].
    destruct (locker_checks s u app asset lid) as [ld0| |] eqn:C; cbn [obind]; try discriminate.
    destruct (calc_rewards s app asset lid rw) as [s1| |] eqn:R; cbn [obind]; try discriminate.
    destruct (locker_checks_spec _ _ _ _ _ _ C) as (F & Hd & Ho & Ha & Hk).
    destruct (calc_rewards_locker _ _ _ _ _ _ _ R F) as (ld1 & F1 & Hid1 & Ha1 & Hd1 & Ho1 & Hn1).
    unfold reread. rewrite F1, F.
    intros H. apply obind_ok in H. destruct H as (s2 & H1 & H2). injection H2 as <-.
    apply Z.eqb_eq.
    assert (Hpaid : bnk (cs s2) (user u, asset) = bnk (cs s1) (user u, asset) + l_net ld1).
    { destruct (l_net ld1 >? 0) eqn:G.
      - apply lift_ok in H1. destruct H1 as (c & H1 & ->). cbn [cs set_cs].
        rewrite (ubal_csend _ _ _ _ _ _ (user u) asset H1). rewrite !Z.eqb_refl, (user_not_locker u Hu). cbn [andb]. lia.
      - injection H1 as <-.
        assert (HI1 : LInv s1).
        { eapply calc_rewards_linv; eauto. intros ld Hf. rewrite F in Hf. injection Hf as <-. auto. }
        pose proof (li_nonneg s1 HI1 ld1 (proj1 (find_some _ _ _ F1))). lia. }
    assert (Hu0 : cs (upd_amount s2 app asset (l_net ld1) false) = cs s2)
      by (unfold upd_amount; destruct (lks s2 (app, asset)); reflexivity).
    cbn [cs set_trk set_lockers].
    match goal with |- bnk (cs ?X) _ = _ => assert (Hcs : cs X = cs s2) end.
    { destruct (lks (upd_amount s2 app asset (l_net ld1) false) (app, asset)) as [lk'|];
        [match goal with |- context [if ?b then _ else _] => destruct b end|]; cbn [cs set_lks set_umap]; exact Hu0. }
    rewrite Hcs, Hpaid, (calc_rewards_user _ _ _ _ _ _ u asset Hu R), Hn1. lia.
Qed.
