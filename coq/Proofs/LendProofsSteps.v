(* C08 proofs, part 3: every handler of Model/Lend.v preserves the invariant; histories. *)
From Comdex Require Import Lib.Base Lib.DecArith Model.Lend Proofs.LendProofs Proofs.LendProofsInv Proofs.LendProofsSide.
From Coq Require Import ZifyBool.

Ltac destr H :=
  match type of H with
  | obind ?x _ = Ok _ => let E := fresh "E" in destruct x eqn:E; cbn [obind] in H; [|discriminate H|discriminate H]
  | (match ?x with _ => _ end) = Ok _ => let E := fresh "E" in destruct x eqn:E; try discriminate H
  | (let _ := _ in _) = Ok _ => cbv zeta in H
  end.
Ltac destr_all H := repeat destr H.
Ltac finish_ok H := injection H as <-; unfold Inv; cbn [lends borrows sstats lctr bctr with_bank with_books].

Section Steps.
  Variable cfg : config.

  Lemma iterate_lends_inv st lid ipb st1 :
    Inv cfg st -> iterate_lends cfg st lid ipb = Ok st1 -> Inv cfg st1.
  Proof.
    intros HI H. unfold iterate_lends in H. destr_all H.
    - (* reward paid from the reserve *)
      finish_ok H. eapply (T_lend cfg _ _ _ _ _ HI lid l _ s); try (intros k; apply pget_pset); try eassumption; try reflexivity.
      + repeat split.
      + unfold set_s_lend, upd_lend. cbn [s_lend l_avail]. lia.
    - finish_ok H. eapply (T_lend cfg _ _ _ _ _ HI lid l _ s); try (intros k; apply pget_pset); try eassumption; try reflexivity.
      + repeat split.
      + unfold set_s_lend, set_s_tia, upd_lend. cbn [s_lend l_avail]. lia.
    - finish_ok H. eapply (T_lend_same cfg _ _ _ _ _ HI lid l); try eassumption; reflexivity.
  Qed.

  Lemma upd_lend_stats_spec S k d S1 :
    upd_lend_stats S k d = Ok S1 -> exists s, pget S k = Some s /\ S1 = pset S k (set_s_lend s (s_lend s + d)).
  Proof. unfold upd_lend_stats. destruct (pget S k) as [s|]; [|discriminate]. intros H. injection H as <-. eauto. Qed.
  Lemma upd_borrow_stats_spec S k stable d S1 :
    upd_borrow_stats S k stable d = Ok S1 ->
    exists s, pget S k = Some s /\ S1 = pset S k (if stable then set_s_sbor s (s_sbor s + d) else set_s_bor s (s_bor s + d)).
  Proof. unfold upd_borrow_stats. destruct (pget S k) as [s|]; [|discriminate]. intros H. injection H as <-. eauto. Qed.
  Lemma pget_pset2 {A} (S : list ((Z * Z) * A)) k s1 s2 k' :
    pget (pset (pset S k s1) k s2) k' = if peqb k k' then Some s2 else pget S k'.
  Proof. rewrite !pget_pset. destruct (peqb k k'); reflexivity. Qed.
  Lemma pget_pset_same {A} (S : list ((Z * Z) * A)) k s1 : pget (pset S k s1) k = Some s1.
  Proof. rewrite pget_pset, peqb_refl. reflexivity. Qed.


  Ltac get_iter_l HI HI1 :=
    match goal with H : iterate_lends _ _ _ _ = Ok _ |- _ => pose proof (iterate_lends_inv _ _ _ _ HI H) as HI1 end.
  Ltac spec_uls :=
    match goal with H : upd_lend_stats _ _ _ = Ok _ |- _ =>
      let s := fresh "s" in let Hs := fresh "Hs" in apply upd_lend_stats_spec in H as (s & Hs & ->) end.
  Ltac spec_ubs :=
    match goal with H : upd_borrow_stats _ _ _ _ = Ok _ |- _ =>
      let s := fresh "s" in let Hs := fresh "Hs" in apply upd_borrow_stats_spec in H as (s & Hs & ->) end.
  Ltac simp_pget :=
    repeat match goal with H : pget (pset _ ?k _) ?k = Some _ |- _ => rewrite pget_pset_same in H; injection H as <- end.

  Lemma deposit_inv st user lid denom amt ipb st' :
    Inv cfg st -> deposit_asset cfg st user lid denom amt ipb = Ok st' -> Inv cfg st'.
  Proof.
    intros HI H. unfold deposit_asset in H. destr_all H.
    get_iter_l HI HI1. spec_uls.
    finish_ok H. eapply (T_lend cfg _ _ _ _ _ HI1); try (intros k; apply pget_pset); try eassumption; try reflexivity.
    - repeat split.
    - unfold set_s_lend, upd_lend. cbn [s_lend l_avail]. lia.
  Qed.

  Lemma lend_inv st user asset denom amt poolid app ipb st' :
    Inv cfg st -> lend_asset cfg st user asset denom amt poolid app ipb = Ok st' -> Inv cfg st'.
  Proof.
    intros HI H. unfold lend_asset in H. destr_all H.
    - eapply deposit_inv; eassumption.
    - spec_uls. simp_pget.
      injection H as <-. unfold Inv. cbn [lends borrows sstats lctr bctr].
      eapply (T_newlend cfg _ _ _ _ _ HI (mkLend (lctr st + 1) user poolid asset amt amt app 0 0 []));
        try (intros k; apply pget_pset2); try eassumption; try reflexivity.
  Qed.

  Lemma close_lend_inv st user lid ipb st' :
    Inv cfg st -> close_lend cfg st user lid ipb = Ok st' -> Inv cfg st'.
  Proof.
    intros HI H. unfold close_lend in H. destr_all H.
    get_iter_l HI HI1. spec_uls. simp_pget.
    match goal with H : negb (is_nil (l_bids ?l)) = false |- _ =>
      assert (Hb : l_bids l = []) by (destruct (l_bids l); [reflexivity|discriminate]) end.
    finish_ok H. eapply (T_dellend cfg _ _ _ _ _ HI1); try (intros k; apply pget_pset2); try eassumption; try reflexivity.
    eapply unref_nobids; eassumption.
  Qed.

  Lemma withdraw_inv st user lid denom amt ipb st' :
    Inv cfg st -> withdraw_asset cfg st user lid denom amt ipb = Ok st' -> Inv cfg st'.
  Proof.
    intros HI H. unfold withdraw_asset in H. destr_all H.
    - eapply close_lend_inv; eassumption.
    - get_iter_l HI HI1. spec_uls.
      finish_ok H. eapply (T_lend cfg _ _ _ _ _ HI1); try (intros k; apply pget_pset); try eassumption; try reflexivity.
      + repeat split.
      + unfold set_s_lend, upd_lend. cbn [s_lend l_avail]. lia.
  Qed.

  (* IterateBorrow rewrites interest and reserve share only *)
  Definition iter_b (b0 : borrowpos) (e : biter) : borrowpos :=
    upd_borrow b0 (b_in b0) (b_out b0) (b_brd b0) (b_int b0 + bi_int e)
               (if bi_rsv e >? 0 then b_res b0 + bi_rsv e else b_res b0) (b_liq b0).
  Lemma iterate_borrow_spec st bid e st1 :
    iterate_borrow st bid e = Ok st1 ->
    exists b0, zget (borrows st) bid = Some b0 /\
               st1 = with_books st (lends st) (zset (borrows st) bid (iter_b b0 e)) (sstats st).
  Proof.
    unfold iterate_borrow. destruct (zget (borrows st) bid) as [b0|]; [|discriminate].
    destruct (bi_res e =? 1); [discriminate|]. destruct (bi_res e =? 2); [discriminate|].
    intros H. injection H as <-. exists b0. split; reflexivity.
  Qed.
  Lemma iterate_borrow_inv st bid e st1 :
    Inv cfg st -> iterate_borrow st bid e = Ok st1 -> Inv cfg st1.
  Proof.
    intros HI H. apply iterate_borrow_spec in H as (b0 & Hb0 & ->).
    unfold Inv. cbn [lends borrows sstats lctr bctr with_books].
    eapply (T_bmisc cfg _ _ _ _ _ HI); try eassumption; reflexivity.
  Qed.

  (* after IterateBorrow the record read back is the iterated one *)
  Ltac use_iter_b HI HI1 :=
    match goal with H : iterate_borrow _ _ _ = Ok _ |- _ =>
      pose proof (iterate_borrow_inv _ _ _ _ HI H) as HI1; unfold Inv in HI1;
      let b0 := fresh "b0" in let Hb0 := fresh "Hb0" in
      apply iterate_borrow_spec in H as (b0 & Hb0 & ->);
      cbn [lends borrows sstats lctr bctr bnk with_books] in *;
      repeat match goal with
             | G : zget (zset _ ?j _) ?j = Some _ |- _ => rewrite zget_zset_same in G; injection G as <-
             | G1 : zget ?B ?j = Some ?x, G2 : zget ?B ?j = Some ?y |- _ => rewrite G1 in G2; injection G2 as <-
             end
    end.

  Lemma deposit_borrow_inv st bid user denom amt e st' :
    Inv cfg st -> deposit_borrow_asset cfg st bid user denom amt e = Ok st' -> Inv cfg st'.
  Proof.
    intros HI H. unfold deposit_borrow_asset in H. destr_all H; use_iter_b HI HI1; finish_ok H;
      (eapply (T_pledge cfg _ _ _ _ _ HI1 bid (iter_b b e)); try eassumption; try reflexivity; rewrite ?zget_zset_same; try reflexivity).
  Qed.

  (* ---------- the side invariant and the oracle prices under the same handlers ---------- *)
  Ltac side_start HG :=
    let HI := fresh "HI" in let HS := fresh "HS" in destruct HG as (HI & HS); unfold Inv in HI.
  Ltac fin H := injection H as <-; cbn [lends borrows sstats lctr bctr prices bnk with_bank with_books].

  Lemma iterate_lends_side st lid ipb st1 :
    Side cfg (lends st) (borrows st) -> iterate_lends cfg st lid ipb = Ok st1 ->
    Side cfg (lends st1) (borrows st1) /\ prices st1 = prices st.
  Proof.
    intros HS H. unfold iterate_lends in H. destr_all H; fin H; (split; [|reflexivity]);
      (eapply S_lend_upd; [exact HS|eassumption|reflexivity]).
  Qed.
  Lemma iterate_lends_good st lid ipb st1 :
    Good cfg st -> iterate_lends cfg st lid ipb = Ok st1 -> Good cfg st1 /\ prices st1 = prices st.
  Proof.
    intros (HI & HS) H. destruct (iterate_lends_side _ _ _ _ HS H) as (HS1 & HP).
    split; [split; [exact (iterate_lends_inv _ _ _ _ HI H)|exact HS1]|exact HP].
  Qed.

  Ltac get_iter_lg HG HI1 HS1 HP1 :=
    match goal with H : iterate_lends _ _ _ _ = Ok _ |- _ =>
      destruct (iterate_lends_good _ _ _ _ HG H) as ((HI1 & HS1) & HP1); unfold Inv in HI1 end.

  Lemma deposit_good st user lid denom amt ipb st' :
    Good cfg st -> deposit_asset cfg st user lid denom amt ipb = Ok st' -> Good cfg st' /\ prices st' = prices st.
  Proof.
    intros HG H. split; [split; [exact (deposit_inv _ _ _ _ _ _ _ (Good_Inv _ _ HG) H)|]|];
      unfold deposit_asset in H; destr_all H; get_iter_lg HG HI1 HS1 HP1; fin H.
    - eapply S_lend_upd; [exact HS1|eassumption|reflexivity].
    - exact HP1.
  Qed.

  Lemma lend_good st user asset denom amt poolid app ipb st' :
    Good cfg st -> lend_asset cfg st user asset denom amt poolid app ipb = Ok st' -> Good cfg st' /\ prices st' = prices st.
  Proof.
    intros HG H. pose proof (lend_inv _ _ _ _ _ _ _ _ _ (Good_Inv _ _ HG) H) as HI'.
    unfold lend_asset in H. destr_all H.
    - eapply deposit_good; eassumption.
    - destruct HG as (HI & HS). fin H. split; [split; [exact HI'|]|reflexivity].
      cbn [lends borrows]. eapply S_lend_new; [exact HS|]. eapply unref_fresh; [exact HI|lia].
  Qed.

  Lemma close_lend_good st user lid ipb st' :
    Good cfg st -> close_lend cfg st user lid ipb = Ok st' -> Good cfg st' /\ prices st' = prices st.
  Proof.
    intros HG H. pose proof (close_lend_inv _ _ _ _ _ (Good_Inv _ _ HG) H) as HI'.
    unfold close_lend in H. destr_all H. get_iter_lg HG HI1 HS1 HP1.
    match goal with H : negb (is_nil (l_bids ?l)) = false |- _ =>
      assert (Hb : l_bids l = []) by (destruct (l_bids l); [reflexivity|discriminate]) end.
    fin H. split; [split; [exact HI'|]|exact HP1]. cbn [lends borrows with_bank with_books].
    eapply S_lend_del; [exact HS1|]. eapply unref_nobids; eassumption.
  Qed.

  Lemma withdraw_good st user lid denom amt ipb st' :
    Good cfg st -> withdraw_asset cfg st user lid denom amt ipb = Ok st' -> Good cfg st' /\ prices st' = prices st.
  Proof.
    intros HG H. pose proof (withdraw_inv _ _ _ _ _ _ _ (Good_Inv _ _ HG) H) as HI'.
    unfold withdraw_asset in H. destr_all H.
    - eapply close_lend_good; eassumption.
    - get_iter_lg HG HI1 HS1 HP1. fin H. split; [split; [exact HI'|]|exact HP1]. cbn [lends borrows with_bank with_books].
      eapply S_lend_upd; [exact HS1|eassumption|reflexivity].
  Qed.

  Lemma iterate_borrow_good st bid e st1 :
    Good cfg st -> iterate_borrow st bid e = Ok st1 -> Good cfg st1 /\ prices st1 = prices st.
  Proof.
    intros (HI & HS) H. pose proof (iterate_borrow_inv _ _ _ _ HI H) as HI'.
    apply iterate_borrow_spec in H as (b0 & Hb0 & ->). split; [split; [exact HI'|]|reflexivity].
    cbn [lends borrows with_books]. eapply S_bor_upd; [exact HS|exact Hb0|reflexivity|reflexivity|reflexivity|].
    cbn [iter_b upd_borrow b_in]. intros Hq. exact (proj1 (HS _ _ Hb0 Hq)).
  Qed.
End Steps.
