(* Proofs for the denom-aware swap-fee branch of Model/Gauge.v (C19: SwapFeeDistrDenom changes between epochs). *)
From Comdex Require Import Lib.Base Lib.DecArith Model.Gauge Proofs.GaugeProofs.
From Coq Require Import ZifyBool.

Definition rem_at (d : Z) (g : gauge) : Z := if g_denom g =? d then g_rem g else 0.
Definition dgs (l : list dgauge) : list gauge := map dg_g l.

Lemma owed_g_rem_cons d g gs : owed_g d (g :: gs) = rem_at d g + owed_g d gs.
Proof. reflexivity. Qed.

Lemma pay_total_tag d (l : pays) : zsum (map (fun p : Z * Z * Z => snd p) (tag d l)) = pay_total l.
Proof. unfold tag, pay_total. rewrite map_map. reflexivity. Qed.

(* the swap-fee branch: per denom, the remainder the gauge has on its books moves by at most what the custody
   account moves - also when the deposit coin is REPLACED by a coin of another denom *)
Lemma trigger_swap_d_step calc recv b dg dg' b' ps :
  trigger_swap_d calc recv b dg = Ok (dg', b', ps) ->
  g_swap (dg_g dg) = true -> 0 <= g_deposit (dg_g dg) -> BInv b -> recvd_wf recv = true ->
  g_swap (dg_g dg') = true /\ 0 <= g_deposit (dg_g dg') /\ BInv b' /\ g_dur (dg_g dg') = g_dur (dg_g dg) /\
  (forall d, rem_at d (dg_g dg') - rem_at d (dg_g dg) <= b' d - b d).
Proof.
  unfold trigger_swap_d. intros E Hs Hd HB Hw. destruct dg as [g dd0]. cbn [dg_g dg_ddenom] in *.
  assert (S1 : exists dg1 b1 paid, (dg1 = mkDG g dd0 /\ b1 = b /\ ps = paid \/
             exists tot bal' pd, 0 < g_deposit g /\ distribute calc (g_deposit g) (b (g_denom g)) = Ok (Some (tot, bal', pd)) /\
                                 dg1 = dg_booked (mkDG g dd0) tot /\ b1 = bset b (g_denom g) bal' /\ paid = tag (g_denom g) pd) /\
             (match recv with
              | Panic => False
              | Err _ => dg' = dg1 /\ b' = b1 /\ ps = paid
              | Ok (rd, r) => dg' = dg_received dg1 rd r /\ b' = bset b1 rd (b1 rd + r) /\ ps = paid
              end) \/ (dg' = mkDG g dd0 /\ b' = b)).
  { destruct (Z.ltb_spec 0 (g_deposit g)) as [Hp|Hp].
    - destruct (distribute calc (g_deposit g) (b (g_denom g))) as [[[[tot bal'] pd]|]| |] eqn:Ed; try discriminate.
      + exists (dg_booked (mkDG g dd0) tot), (bset b (g_denom g) bal'), (tag (g_denom g) pd). left. split.
        * right. exists tot, bal', pd. auto.
        * destruct recv as [[rd r]| |]; try discriminate; injection E as <- <- <-; auto.
      + exists (mkDG g dd0), b, ps. right. injection E as <- <- <-. auto.
    - exists (mkDG g dd0), b, ps. left. split; [left; auto|].
      destruct recv as [[rd r]| |]; try discriminate; injection E as <- <- <-; auto. }
  destruct S1 as (dg1 & b1 & paid & [[S1 S2]|[-> ->]]).
  2:{ cbn [dg_g]. repeat split; try assumption; try lia; try (intros; lia). }
  (* stage 1 *)
  assert (T1 : g_swap (dg_g dg1) = true /\ 0 <= g_deposit (dg_g dg1) /\ BInv b1 /\ g_dur (dg_g dg1) = g_dur g /\
               (forall d, rem_at d (dg_g dg1) - rem_at d g <= b1 d - b d)).
  { destruct S1 as [(-> & -> & _)|(tot & bal' & pd & Hp & Ed & -> & -> & _)].
    - cbn [dg_g]. repeat split; try assumption; try lia; try (intros; lia).
    - apply distribute_spec in Ed. destruct Ed as (_ & D1 & D2 & D3 & D4). specialize (D4 (HB _)).
      cbn [dg_booked dg_g dg_ddenom g_swap g_deposit g_dur]. repeat split; try assumption; try lia.
      + apply BInv_bset; assumption.
      + intros d. unfold rem_at, g_rem. cbn [g_denom g_swap g_deposit]. rewrite Hs. unfold bset.
        destruct (Z.eqb_spec (g_denom g) d) as [He|Hne].
        * subst d. rewrite Z.eqb_refl. lia.
        * destruct (Z.eqb_spec d (g_denom g)); [congruence|]. lia. }
  destruct T1 as (A1 & A2 & A3 & A4 & A5).
  destruct recv as [[rd r]| |]; try contradiction.
  - destruct S2 as (-> & -> & _). cbn [recvd_wf] in Hw. apply Z.leb_le in Hw.
    destruct dg1 as [g1 dd1]. cbn [dg_g dg_received g_swap g_deposit g_dur] in *.
    repeat split; try assumption.
    + destruct (g_denom g1 =? rd); lia.
    + apply BInv_bset; [assumption|]. specialize (A3 rd). lia.
    + intros d. specialize (A5 d). unfold rem_at, g_rem in *. cbn [g_denom g_swap g_deposit]. rewrite A1 in *. rewrite Hs in *.
      unfold bset.
      destruct (Z.eqb_spec rd d) as [E2|E2].
      * subst d. rewrite !Z.eqb_refl. destruct (Z.eqb_spec (g_denom g1) rd), (Z.eqb_spec (g_denom g) rd); lia.
      * destruct (Z.eqb_spec d rd); [congruence|].
        destruct (Z.eqb_spec (g_denom g1) rd), (Z.eqb_spec (g_denom g1) d), (Z.eqb_spec (g_denom g) d); lia.
  - destruct S2 as (-> & -> & _). repeat split; assumption.
Qed.

Definition DInv (dg : dgauge) : Prop := GInv (dg_g dg).

Lemma trigger_any_noswap now calc recv bal g : g_swap g = false -> trigger_any now calc recv bal g = trigger now calc bal g.
Proof. unfold trigger_any. intros ->. reflexivity. Qed.

Lemma trigger_d_step now calc recv b dg dg' b' ps :
  trigger_d now calc recv b dg = Ok (dg', b', ps) -> DInv dg -> BInv b -> recvd_wf recv = true ->
  DInv dg' /\ BInv b' /\ g_dur (dg_g dg') = g_dur (dg_g dg) /\
  (forall d, rem_at d (dg_g dg') - rem_at d (dg_g dg) <= b' d - b d).
Proof.
  unfold trigger_d, DInv. intros E HG HB Hw. destruct (g_swap (dg_g dg)) eqn:Es.
  - unfold GInv in HG. rewrite Es in HG.
    pose proof (trigger_swap_d_step _ _ _ _ _ _ _ E Es HG HB Hw) as (A & B & C & D & F).
    unfold GInv. rewrite A. auto.
  - destruct (trigger now calc (b (g_denom (dg_g dg))) (dg_g dg)) as [[[g1 bal1] paid]| |] eqn:Et; try discriminate.
    injection E as <- <- <-. cbn [dg_g].
    rewrite <- (trigger_any_noswap now calc (Ok 0) _ _ Es) in Et.
    pose proof (trigger_any_step _ _ _ _ _ _ _ _ Et HG (HB _) eq_refl) as (T1 & T2 & T3 & T4 & T5).
    split; [assumption|]. split; [apply BInv_bset; assumption|]. split; [assumption|].
    intros d. unfold rem_at. rewrite T4. unfold bset.
    destruct (Z.eqb_spec (g_denom (dg_g dg)) d) as [He|Hne].
    + subst d. rewrite Z.eqb_refl. lia.
    + destruct (Z.eqb_spec d (g_denom (dg_g dg))); [congruence|]. lia.
Qed.

Lemma recvd_wf_hd rv : forallb recvd_wf rv = true -> recvd_wf (hd_recvd rv) = true /\ forallb recvd_wf (tl rv) = true.
Proof. destruct rv as [|r rv]; cbn; [auto|]. intros H. apply andb_true_iff in H. exact H. Qed.

Lemma run_gauges_d_inv now dur : forall gs fe rv b gs' b' ps,
  run_gauges_d now dur gs fe rv b = Ok (gs', b', ps) ->
  Forall DInv gs -> BInv b -> forallb recvd_wf rv = true ->
  Forall DInv gs' /\ BInv b' /\ (forall d, owed_g d (dgs gs') - owed_g d (dgs gs) <= b' d - b d).
Proof.
  induction gs as [|g rest IH]; intros fe rv b gs' b' ps E HG HB Hw; cbn [run_gauges_d] in E.
  - injection E as <- <- <-. repeat split; [constructor|assumption|intros; lia].
  - inversion HG as [|? ? Hg Hrest]; subst.
    apply recvd_wf_hd in Hw. destruct Hw as [Hw1 Hw2].
    destruct (g_dur (dg_g g) =? dur).
    + destruct (trigger_d now (farm_calc (hd_farm fe)) (hd_recvd rv) b g) as [[[g1 b1] paid]| |] eqn:Et; try discriminate.
      destruct (run_gauges_d now dur rest (tl fe) (tl rv) b1) as [[[gs1 b2] ps1]| |] eqn:Er; try discriminate.
      injection E as <- <- <-.
      pose proof (trigger_d_step _ _ _ _ _ _ _ _ Et Hg HB Hw1) as (T1 & T2 & T3 & T4).
      specialize (IH _ _ _ _ _ _ Er Hrest T2 Hw2). destruct IH as (I1 & I2 & I3).
      split; [constructor; assumption|]. split; [assumption|]. intros d. unfold dgs in *. cbn [map].
      rewrite !owed_g_rem_cons. specialize (I3 d). specialize (T4 d). lia.
    + destruct (run_gauges_d now dur rest (tl fe) (tl rv) b) as [[[gs1 b1] ps1]| |] eqn:Er; try discriminate.
      injection E as <- <- <-. specialize (IH _ _ _ _ _ _ Er Hrest HB Hw2). destruct IH as (I1 & I2 & I3).
      split; [constructor; assumption|]. split; [assumption|]. intros d. unfold dgs in *. cbn [map].
      rewrite !owed_g_rem_cons. specialize (I3 d). lia.
Qed.

(* the invariant of the rewards module with denom changes *)
Definition DSInv (s : dstate) : Prop :=
  Forall DInv (d_gauges s) /\ BInv (d_bal s) /\ forall d, owed_g d (dgs (d_gauges s)) <= d_bal s d.

Lemma dgs_app a b : dgs (a ++ b) = dgs a ++ dgs b.
Proof. unfold dgs. apply map_app. Qed.

Lemma dapply_inv s o : DSInv s -> dop_wf o = true -> DSInv (dapply s o).
Proof.
  intros (HG & HB & HO) Hw. unfold dapply. destruct (dstep s o) as [[s' ps]| |] eqn:E; try (repeat split; assumption).
  destruct o as [d dep total start now dur funds mok|d now dur|now dur fe rv|d a]; cbn [dstep] in E.
  - destruct ((dur <=? 0) || (dep <=? 0) || (dep <? total) || (dur <? MIN_EPOCH_DUR) || (start <? now) || negb mok || (funds <? dep)) eqn:Ec;
      [discriminate|]. injection E as <- <-. unfold DSInv. cbn [d_gauges d_bal].
    assert (0 < dep) by lia.
    split; [apply Forall_app; split; [assumption|constructor; [|constructor]]; unfold DInv, GInv; cbn; lia|].
    split; [apply BInv_bset; [assumption|specialize (HB d); lia]|].
    intros x. rewrite dgs_app, owed_g_app. specialize (HO x). unfold dgs at 2. cbn [map dg_g]. rewrite owed_g_rem_cons.
    change (owed_g x []) with 0. unfold rem_at, g_rem, bset. cbn [g_denom g_swap g_deposit g_distributed].
    destruct (Z.eqb_spec d x) as [->|Hne].
    + rewrite Z.eqb_refl. lia.
    + destruct (Z.eqb_spec x d); [congruence|]. lia.
  - injection E as <- <-. unfold DSInv. cbn [d_gauges d_bal].
    split; [apply Forall_app; split; [assumption|constructor; [|constructor]]; unfold DInv, GInv; cbn; lia|].
    split; [assumption|].
    intros x. rewrite dgs_app, owed_g_app. specialize (HO x). unfold dgs at 2. cbn [map dg_g]. rewrite owed_g_rem_cons.
    change (owed_g x []) with 0. unfold rem_at, g_rem. cbn [g_denom g_swap g_deposit]. destruct (d =? x); lia.
  - destruct (run_gauges_d now dur (d_gauges s) fe rv (d_bal s)) as [[[gs b] ps1]| |] eqn:Er; try discriminate.
    injection E as <- <-. unfold DSInv. cbn [d_gauges d_bal]. cbn [dop_wf] in Hw.
    pose proof (run_gauges_d_inv _ _ _ _ _ _ _ _ _ Er HG HB Hw) as (I1 & I2 & I3).
    split; [assumption|]. split; [assumption|]. intros x. specialize (I3 x). specialize (HO x). lia.
  - destruct (Z.ltb_spec a 0); [discriminate|]. injection E as <- <-. unfold DSInv. cbn [d_gauges d_bal].
    split; [assumption|]. split; [apply BInv_bset; [assumption|specialize (HB d); lia]|].
    intros x. specialize (HO x). unfold bset. destruct (Z.eqb_spec x d); [subst x|]; lia.
Qed.

Lemma drun_inv ops : forall s, DSInv s -> forallb dop_wf ops = true -> DSInv (drun s ops).
Proof.
  induction ops as [|o ops IH]; intros s H Hw; cbn [drun fold_left]; [assumption|].
  cbn [forallb] in Hw. apply andb_true_iff in Hw. destruct Hw as [W1 W2].
  apply IH; [apply dapply_inv; assumption|assumption].
Qed.

Lemma dinit_inv : DSInv dinit.
Proof. repeat split; [constructor|intros d; cbn; lia|intros d; cbn; lia]. Qed.

(* the active gauges owe at most what all gauges owe *)
Lemma owed_active_le_owed_g d gs : Forall GInv gs -> owed_active d gs [] <= owed_g d gs.
Proof.
  unfold owed_active, owed_g. cbn [map zsum]. induction 1 as [|g gs Hg _ IH]; cbn [map zsum]; [lia|].
  pose proof (g_rem_nonneg g Hg). destruct (g_denom g =? d), (g_active g); cbn [andb]; lia.
Qed.

Lemma custody_denom_change ops d : forallb dop_wf ops = true ->
  let s := drun dinit ops in holds_C19_custody d (d_bal s d) (dgs (d_gauges s)) [] = true.
Proof.
  intros Hw s. pose proof (drun_inv ops dinit dinit_inv Hw) as (HG & HB & HO). fold s in HG, HB, HO.
  unfold holds_C19_custody. cbn [forallb andb]. apply Z.leb_le.
  assert (HG' : Forall GInv (dgs (d_gauges s))).
  { unfold dgs. apply Forall_map. exact HG. }
  pose proof (owed_active_le_owed_g d _ HG'). specialize (HO d). lia.
Qed.

(* one swap-fee gauge, one epoch, any denoms: at most the deposit it holds is booked, at most what is booked leaves
   custody, the deposit never goes negative *)
Lemma swap_denom_trigger calc recv b dg dg' b' ps :
  g_swap (dg_g dg) = true -> 0 <= g_deposit (dg_g dg) -> BInv b -> recvd_wf recv = true ->
  trigger_swap_d calc recv b dg = Ok (dg', b', ps) ->
  0 <= g_deposit (dg_g dg') /\ BInv b' /\
  forall d, rem_at d (dg_g dg') - rem_at d (dg_g dg) <= b' d - b d.
Proof.
  intros Hs Hd HB Hw E. pose proof (trigger_swap_d_step _ _ _ _ _ _ _ E Hs Hd HB Hw) as (A & B & C & D & F). auto.
Qed.
