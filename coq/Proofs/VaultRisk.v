(* C03: the collateral-ratio decision rule with its rounding made explicit, debt floor and debt
   ceiling as invariants over histories, inactive price => the operation fails. *)
From Comdex Require Import Lib.Base Lib.DecArith Lib.DecFacts Lib.Atomic Model.Vault Proofs.VaultProofs Proofs.VaultExec Proofs.VaultHandlers Proofs.VaultInv.
From Coq Require Import ZifyBool Sorted.

(* ---------- total_value and the three Quo roundings ---------- *)
Lemma total_value_spec amt p dec q : total_value amt p dec = Ok q -> 0 <= amt -> 0 <= p -> 0 < dec ->
  q = dquo (amt * p * P18) (dec * P18) /\
  - dec <= q * dec - amt * p * P18 <= dec.
Proof.
  unfold total_value, dmul_c, dquo_c, chk_dec. rewrite dmul_int_exact.
  destruct (fits_dec _); [|discriminate]. destruct (dec_of_int dec =? 0); [discriminate|].
  destruct (fits_dec _); [|discriminate]. intros H Ha Hp Hd. injection H as <-.
  unfold dec_of_int. replace (amt * (p * P18)) with (amt * p * P18) by lia. split; [reflexivity|].
  pose proof P18_pos. pose proof (dquo_bounds (amt * p * P18) (dec * P18) ltac:(nia) ltac:(nia)) as [B1 B2].
  set (q := dquo (amt * p * P18) (dec * P18)) in *. nia.
Qed.

(* an accepted ratio, on the exact values: the statement of [cr_exact_ok] *)
Lemma cr_exact_bound min_cr ain pin dec_in aout pout dec_out it ot r :
  0 <= ain -> 0 <= pin -> 0 < dec_in -> 0 <= aout -> 0 <= pout -> 0 < dec_out -> 1 <= min_cr ->
  - dec_in <= it * dec_in - ain * pin * P18 <= dec_in ->
  - dec_out <= ot * dec_out - aout * pout * P18 <= dec_out ->
  0 < it -> 0 < ot -> r = dquo it ot -> min_cr <= r ->
  cr_exact_ok min_cr ain pin dec_in aout pout dec_out = true.
Proof.
  intros Ha Hp Hd Ha' Hp' Hd' Hm Bi Bo Hit Hot -> Hr. unfold cr_exact_ok. apply Z.leb_le.
  pose proof P18_pos. pose proof (dquo_bounds it ot ltac:(lia) Hot) as [_ B].
  set (r := dquo it ot) in *. set (X := ain * pin * P18) in *. set (Y := aout * pout * P18) in *.
  assert (H1 : (r - 1) * ot <= it * P18) by lia.
  assert (H2 : (min_cr - 1) * ot <= it * P18) by nia.
  destruct (Z.le_gt_cases 0 (Y - dec_out)) as [Hy|Hy].
  - (* (min_cr-1)*(Y-dec_out) <= (min_cr-1)*ot*dec_out *)
    assert (H3 : (min_cr - 1) * (Y - dec_out) <= (min_cr - 1) * (ot * dec_out)) by (apply Z.mul_le_mono_nonneg_l; lia).
    assert (H4 : (min_cr - 1) * (ot * dec_out) * dec_in <= it * P18 * dec_out * dec_in) by nia.
    assert (H5 : it * P18 * dec_out * dec_in <= (X + dec_in) * P18 * dec_out) by nia.
    nia.
  - assert (H3 : (min_cr - 1) * (Y - dec_out) * dec_in <= 0).
    { apply Z.mul_nonpos_nonneg; [|lia]. apply Z.mul_nonneg_nonpos; lia. }
    assert (H5 : 0 <= (X + dec_in) * P18 * dec_out).
    { apply Z.mul_nonneg_nonneg; [|lia]. apply Z.mul_nonneg_nonneg; [|lia]. unfold X. nia. }
    lia.
Qed.

(* ---------- configuration and environment facts the ratio needs ---------- *)
(* asset decimals are positive powers of ten, min c-ratio at least 10^-18, prices are uint64,
   the debt ceiling is not negative (x/asset requires DebtFloor < DebtCeiling) *)
Definition ep_ok3 (e : epair) : Prop := 0 < ep_dec_in e /\ 0 < ep_dec_out e /\ 1 <= ep_min_cr e /\ 0 <= ep_out_price e /\ 0 <= ep_ceiling e.
Definition cfg_ok3 (c : cfg) : Prop := cfg_ok c /\ forall e, In e (epairs c) -> ep_ok3 e.
Definition PriceOk (s : state) : Prop := forall a p, price s a = Some p -> 0 <= p.

(* the decision rule: what an accepting VerifyCollaterlizationRatio guarantees outside ESM *)
Lemma verify_cr_accept s ep ain aout : ep_ok3 ep -> PriceOk s -> 0 <= ain -> 0 <= aout ->
  e_status (esm s (ep_app ep)) = false -> verify_cr s ep ain aout false = Ok tt ->
  price_required_missing s ep = false /\ cr_ok s ep ain aout = true /\
  exists r, calc_cr s ep ain aout = Ok r /\ ep_min_cr ep <= r.
Proof.
  intros (Hdi & Hdo & Hm & Hop & _) PO Ha Ho Hst H.
  unfold verify_cr in H. destruct (calc_cr s ep ain aout) as [r| |] eqn:Hc; cbn [obind] in H; try discriminate.
  rewrite andb_false_r in H. cbn [negb] in H. rewrite andb_true_r in H.
  destruct (Z.ltb_spec r (ep_min_cr ep)) as [|Hr]; [discriminate|]. clear H.
  unfold cr_ok, price_required_missing, out_price. rewrite Hc.
  unfold calc_cr in Hc. rewrite Hst in Hc. cbn [andb negb] in Hc.
  unfold calc_asset_price in Hc.
  destruct (price s (ep_in ep)) as [pin|] eqn:Hpin; cbn [obind] in Hc; [|discriminate].
  destruct (total_value ain pin (ep_dec_in ep)) as [it| |] eqn:Hit; cbn [obind] in Hc; try discriminate.
  assert (Hpin0 : 0 <= pin) by (eapply PO; exact Hpin).
  destruct (total_value_spec _ _ _ _ Hit Ha Hpin0 Hdi) as [_ Bi].
  assert (Hout : exists pout ot, (if ep_oracle_out ep then price s (ep_out ep) else Some (ep_out_price ep)) = Some pout /\ 0 <= pout /\
            total_value aout pout (ep_dec_out ep) = Ok ot /\
            (if it <=? 0 then Err E_INVALID else if ot <=? 0 then Err E_INVALID else match dquo_c it ot with None => Panic | Some r0 => Ok r0 end) = Ok r).
  { destruct (ep_oracle_out ep).
    - destruct (price s (ep_out ep)) as [pout|] eqn:Hpo; cbn [obind] in Hc; [|discriminate].
      destruct (total_value aout pout (ep_dec_out ep)) as [ot| |] eqn:Hot; cbn [obind] in Hc; try discriminate.
      exists pout, ot. repeat split; try assumption. eapply PO; exact Hpo.
    - destruct (total_value aout (ep_out_price ep) (ep_dec_out ep)) as [ot| |] eqn:Hot; cbn [obind] in Hc; try discriminate.
      exists (ep_out_price ep), ot. repeat split; assumption. }
  destruct Hout as (pout & ot & Hpo & Hpo0 & Hot & Hq).
  destruct (total_value_spec _ _ _ _ Hot Ho Hpo0 Hdo) as [_ Bo].
  destruct (Z.leb_spec it 0); [discriminate|]. destruct (Z.leb_spec ot 0); [discriminate|].
  unfold dquo_c, chk_dec in Hq. destruct (ot =? 0); [discriminate|]. destruct (fits_dec _); [|discriminate]. injection Hq as Hq.
  split.
  { destruct (ep_oracle_out ep); [rewrite Hpo|]; reflexivity. }
  split; [|exists r; split; [reflexivity|lia]].
  rewrite Hpo. apply andb_true_iff. split; [apply Z.leb_le; lia|].
  eapply cr_exact_bound with (it := it) (ot := ot) (r := r); try eassumption; try lia.
Qed.

Lemma cr_ok_env s1 s2 ep ain aout : price s1 = price s2 -> esm s1 = esm s2 -> snap s1 = snap s2 ->
  cr_ok s1 ep ain aout = cr_ok s2 ep ain aout.
Proof. intros Hp He Hs. unfold cr_ok, out_price. rewrite (calc_cr_env s1 s2) by assumption. rewrite Hp. reflexivity. Qed.

Lemma effect_cr_ok c s s' f bc fee ep ain aout : effect c s s' f bc fee -> cr_ok s' ep ain aout = cr_ok s ep ain aout.
Proof. intros E. destruct (ef_env _ _ _ _ _ _ E) as (_ & Hp & He & Hs & _). apply cr_ok_env; assumption. Qed.

Lemma cfg3_ep c id ep : cfg_ok3 c -> get_ep c id = Some ep -> ep_ok3 ep.
Proof. intros [_ CK] H. exact (CK _ (get_ep_in _ _ _ H)). Qed.

(* a failed message satisfies the step clause trivially (the clause constrains successes, and
   failures only through "inactive price => must fail") *)
Lemma c03_step_failed c s o s' : holds_C03_step c s o false s' = true.
Proof.
  unfold holds_C03_step. destruct o; try reflexivity; cbv zeta beta;
    (destruct (get_ep c epid); [|reflexivity]); destruct (e_status _); try reflexivity; destruct (price_required_missing _ _); reflexivity.
Qed.

Theorem run_c03_step c s o : cfg_ok3 c -> user_op o -> Inv01 c s -> PriceOk s ->
  holds_C03_step c s o (is_ok (run c s o)) (step c s o) = true.
Proof.
  intros CK3 [Hu Hc] I PO. pose proof CK3 as [CK _].
  destruct (step_cases c s o) as [(s' & H & ->)|[Hno ->]]; [|rewrite Hno; apply c03_step_failed].
  rewrite H. cbn [is_ok].
  pose proof (inv_prods_exist c s I) as PE. pose proof (i_wf _ _ I) as W.
  destruct o; try reflexivity; cbn [run sender] in *; unfold holds_C03_step; cbv zeta beta.
  - (* Create *)
    unfold msg_create in H. do 2 exec1 H.
    destruct (create_h_effect c s from app epid ain aout s' CK ltac:(lia) ltac:(lia) H) as (ep & cl & Hep & Ha & _ & Hst & _ & _ & Hv & _ & _ & E).
    rewrite Hep, Hst. rewrite Ha in Hst.
    destruct (verify_cr_accept s ep ain aout (cfg3_ep _ _ _ CK3 Hep) PO ltac:(lia) ltac:(lia) Hst Hv) as (Hm & Hok & _).
    rewrite Hm. rewrite (ef_vid _ _ _ _ _ _ E), (ef_vaults _ _ _ _ _ _ E). cbn [bc_vaults v_id]. rewrite find_put_same by reflexivity.
    cbn [v_in v_out]. rewrite (effect_cr_ok _ _ _ _ _ _ _ _ _ E). exact Hok.
  - (* Withdraw *)
    unfold msg_withdraw in H. do 2 exec1 H.
    destruct (withdraw_h_effect c s from app epid id amt ienv s' PE W ltac:(lia) H) as (v0 & ep & Hf & Hep & Hp & Ha & _ & Hie & Hv & E).
    rewrite Hep. destruct (e_status (esm s app)) eqn:Hst; [reflexivity|].
    pose proof (vwf_found _ _ _ W Hf) as (W1 & W2 & W3 & W4).
    pose proof (ef_wf _ _ _ _ _ _ E) as (U1 & _). cbn [v_in with_in] in U1.
    assert (Happ : app = ep_app ep).
    { unfold withdraw_h in H. cbv zeta in H. rewrite Hst in H. rewrite andb_false_r in H. exec_checks H. bool_norm. congruence. }
    rewrite Happ in Hst.
    destruct (fun A B => verify_cr_accept s ep _ _ (cfg3_ep _ _ _ CK3 Hep) PO A B Hst Hv) as (Hm & Hok & _); [exact U1|lia|].
    rewrite Hm. rewrite (ef_vaults _ _ _ _ _ _ E). cbn [bc_vaults]. rewrite find_put_same by (cbn; apply (find_v_id _ _ _ Hf)).
    cbn [v_in v_out v_int v_fee with_in with_int]. rewrite (effect_cr_ok _ _ _ _ _ _ _ _ _ E). exact Hok.
  - (* Draw *)
    unfold msg_draw in H. do 2 exec1 H.
    destruct (draw_h_effect c s from app epid id amt ienv s' CK PE W H) as (v0 & ep & Hf & Hep & Hp & Ha & _ & Hie & Hamt & Hst & _ & Hv & _ & E).
    rewrite Hep, Hst.
    pose proof (vwf_found _ _ _ W Hf) as (W1 & W2 & W3 & W4).
    assert (Happ : app = ep_app ep).
    { unfold draw_h in H. cbv zeta in H. exec_checks H. bool_norm. congruence. }
    rewrite Happ in Hst.
    destruct (fun A B => verify_cr_accept s ep _ _ (cfg3_ep _ _ _ CK3 Hep) PO A B Hst Hv) as (Hm & Hok & _); [exact W1|lia|].
    rewrite Hm. rewrite (ef_vaults _ _ _ _ _ _ E). cbn [bc_vaults]. rewrite find_put_same by (cbn; apply (find_v_id _ _ _ Hf)).
    cbn [v_in v_out v_int v_fee with_out with_int]. rewrite (effect_cr_ok _ _ _ _ _ _ _ _ _ E). exact Hok.
  - (* DepositDraw *)
    unfold msg_deposit_draw in H. do 5 exec1 H. exec1 H.
    destruct (deposit_h_effect c s from app epid id amt i1 st PE W ltac:(lia) E) as (v0 & ep & Hf & Hep & Hp & _ & _ & _ & Hst0 & E1).
    pose proof (effect_inv01 _ _ _ _ _ _ Hu I E1) as I1.
    destruct (draw_h_effect c st from app epid id z0 i2 s' CK (inv_prods_exist c st I1) (i_wf _ _ I1) H)
      as (v1 & ep1 & Hf1 & Hep1 & Hp1 & Ha1 & _ & Hie & Hamt & Hst & _ & Hv & _ & E2).
    rewrite Hep1 in Hep. injection Hep as <-.
    rewrite Hep1, Hst0.
    pose proof (vwf_found _ _ _ (i_wf _ _ I1) Hf1) as (W1 & W2 & W3 & W4).
    assert (Happ : app = ep_app ep1).
    { unfold draw_h in H. cbv zeta in H. exec_checks H. bool_norm. congruence. }
    destruct (ef_env _ _ _ _ _ _ E1) as (_ & Hpr & Hes & Hsn & _).
    assert (PO1 : PriceOk st) by (unfold PriceOk; rewrite Hpr; exact PO).
    rewrite Happ in Hst.
    destruct (fun A B => verify_cr_accept st ep1 _ _ (cfg3_ep _ _ _ CK3 Hep1) PO1 A B Hst Hv) as (Hm & Hok & _); [exact W1|lia|].
    assert (Hm' : price_required_missing s ep1 = false) by (unfold price_required_missing in *; rewrite <- Hpr; exact Hm).
    rewrite Hm'. rewrite (ef_vaults _ _ _ _ _ _ E2). cbn [bc_vaults]. rewrite find_put_same by (cbn; apply (find_v_id _ _ _ Hf1)).
    cbn [v_in v_out v_int v_fee with_out with_int]. rewrite (effect_cr_ok _ _ _ _ _ _ _ _ _ E2). exact Hok.
Qed.

(* ---------- debt floor and debt ceiling as invariants ---------- *)
Definition floor_ok (c : cfg) (v : vault) : Prop := exists ep, get_ep c (v_pair v) = Some ep /\ ep_floor ep <= v_out v.
Record InvRisk (c : cfg) (s : state) : Prop := mkRisk {
  r_floor : forall v, In v (vaults s) -> floor_ok c v;
  r_ceil : forall a p ep, get_ep c p = Some ep -> pmint s a p <= Z.max 0 (ep_ceiling ep)
}.
(* what a handler must establish about the record it touches *)
Definition bc_risk (c : cfg) (s : state) bc : Prop :=
  (match bc with BUpd v0 v1 => v_out v0 <= v_out v1 \/ floor_ok c v1 | BNew v => floor_ok c v | _ => True end) /\
  (0 < bc_dout bc -> exists ep, get_ep c (bc_pair bc) = Some ep /\ pmint s (bc_app bc) (bc_pair bc) + bc_dout bc <= ep_ceiling ep).

Lemma effect_risk c s s' f bc fee : InvRisk c s -> effect c s s' f bc fee -> bc_risk c s bc -> InvRisk c s'.
Proof.
  intros R E [RF RC]. pose proof (ef_pre _ _ _ _ _ _ E) as Hpre. constructor.
  - rewrite (ef_vaults _ _ _ _ _ _ E). intros w Hw. pose proof (r_floor _ _ R) as HF.
    destruct bc as [|v0 v1|v|v0|x0 x1|x]; cbn [bc_vaults bc_pre] in *; try (apply HF; exact Hw).
    + apply (gput_in v_id) in Hw. destruct Hw as [->|Hw]; [|apply HF; exact Hw].
      destruct RF as [Hle|Hok]; [|exact Hok]. destruct Hpre as (Hf & _ & _ & Hp).
      apply (gfind_some v_id) in Hf. destruct Hf as [Hin _]. destruct (HF _ Hin) as (ep & Hep & Hfl).
      exists ep. rewrite Hp. split; [exact Hep|lia].
    + apply (gput_in v_id) in Hw. destruct Hw as [->|Hw]; [exact RF|apply HF; exact Hw].
    + apply (gdel_in v_id) in Hw. apply HF; exact Hw.
  - intros a p ep Hep. rewrite (ef_mint _ _ _ _ _ _ E). pose proof (r_ceil _ _ R a p ep Hep) as HC.
    destruct (touched bc a p) eqn:T; [|lia].
    destruct (Z.lt_ge_cases 0 (bc_dout bc)) as [Hpos|Hneg]; [|lia].
    destruct (RC Hpos) as (ep' & Hep' & Hle).
    assert (a = bc_app bc /\ p = bc_pair bc) as [-> ->].
    { unfold touched in T. destruct bc; try discriminate; apply andb_true_iff in T; destruct T as [T1 T2]; apply Z.eqb_eq in T1, T2; split; assumption. }
    rewrite Hep in Hep'. injection Hep' as <-. lia.
Qed.

Lemma risk_frame c s s' : InvRisk c s -> vaults s' = vaults s -> prods s' = prods s -> InvRisk c s'.
Proof. intros R Hv Hp. constructor; unfold pmint; rewrite ?Hv, ?Hp; apply R. Qed.

Lemma floor_ok_same c v0 v1 : v_pair v1 = v_pair v0 -> v_out v0 <= v_out v1 -> floor_ok c v0 -> floor_ok c v1.
Proof. intros Hp Hle (ep & Hep & Hf). exists ep. rewrite Hp. split; [exact Hep|lia]. Qed.

Theorem run_risk c s o s' : cfg_ok c -> user_op o -> Inv01 c s -> InvRisk c s -> run c s o = Ok s' -> InvRisk c s'.
Proof.
  intros CK [Hu _] I R H. pose proof (inv_prods_exist c s I) as PE. pose proof (i_wf _ _ I) as W.
  destruct o; cbn [run sender] in *.
  - unfold msg_create in H. do 2 exec1 H.
    destruct (create_h_effect c s from app epid ain aout s' CK ltac:(lia) ltac:(lia) H) as (ep & cl & Hep & _ & _ & _ & Hfl & Hce & _ & _ & _ & E).
    apply (effect_risk _ _ _ _ _ _ R E). split; cbn [bc_dout bc_pair bc_app v_out v_pair v_app].
    + exists ep. split; [exact Hep|exact Hfl].
    + intros _. exists ep. split; [exact Hep|exact Hce].
  - unfold msg_deposit in H. do 2 exec1 H.
    destruct (deposit_h_effect c s from app epid id amt ienv s' PE W ltac:(lia) H) as (v0 & ep & _ & _ & _ & _ & _ & _ & _ & E).
    apply (effect_risk _ _ _ _ _ _ R E). split; cbn; [left|]; lia.
  - unfold msg_withdraw in H. do 2 exec1 H.
    destruct (withdraw_h_effect c s from app epid id amt ienv s' PE W ltac:(lia) H) as (v0 & ep & _ & _ & _ & _ & _ & _ & _ & E).
    apply (effect_risk _ _ _ _ _ _ R E). split; cbn; [left|]; lia.
  - unfold msg_draw in H. do 2 exec1 H.
    destruct (draw_h_effect c s from app epid id amt ienv s' CK PE W H) as (v0 & ep & Hf & Hep & Hp & Ha & _ & _ & Hamt & _ & Hce & _ & _ & E).
    apply (effect_risk _ _ _ _ _ _ R E). split; cbn [bc_dout bc_pair bc_app v_out v_pair v_app with_out with_int].
    + left. lia.
    + intros _. exists ep. rewrite Hp, Ha. split; [exact Hep|lia].
  - destruct (repay_effect c s from app epid id amt ienv s' PE W H) as (v0 & ep & Hf & Hep & Hp & _ & _ & _ & _ & [[_ E]|(Hgt & Hfl & E)]).
    + apply (effect_risk _ _ _ _ _ _ R E). split; cbn [bc_dout v_out with_out with_int]; [left|]; lia.
    + apply (effect_risk _ _ _ _ _ _ R E). split; cbn [bc_dout v_out with_out with_int]; [|lia].
      right. exists ep. cbn [v_pair v_out with_int with_out]. rewrite Hp. split; [exact Hep|exact Hfl].
  - destruct (close_effect c s from app epid id ienv s' PE W H) as (v0 & ep & Hf & _ & _ & _ & _ & _ & E).
    pose proof (vwf_found _ _ _ W Hf) as (_ & W2 & _).
    apply (effect_risk _ _ _ _ _ _ R E). split; cbn [bc_dout]; [trivial|lia].
  - unfold msg_deposit_draw in H. do 5 exec1 H. exec1 H.
    destruct (deposit_h_effect c s from app epid id amt i1 st PE W ltac:(lia) E) as (v0 & ep & _ & _ & _ & _ & _ & _ & _ & E1).
    pose proof (effect_inv01 _ _ _ _ _ _ Hu I E1) as I1.
    assert (R1 : InvRisk c st) by (apply (effect_risk _ _ _ _ _ _ R E1); split; cbn; [left|]; lia).
    destruct (draw_h_effect c st from app epid id z0 i2 s' CK (inv_prods_exist c st I1) (i_wf _ _ I1) H)
      as (v1 & ep1 & Hf1 & Hep1 & Hp1 & Ha1 & _ & _ & Hamt & _ & Hce & _ & _ & E2).
    apply (effect_risk _ _ _ _ _ _ R1 E2). split; cbn [bc_dout bc_pair bc_app v_out v_pair v_app with_out with_int].
    + left. lia.
    + intros _. exists ep1. rewrite Hp1, Ha1. split; [exact Hep1|lia].
  - destruct (stable_create_effect c s from app epid amt s' CK H) as (ep & tout & Hep & _ & _ & _ & _ & _ & Hce & _ & E).
    apply (effect_risk _ _ _ _ _ _ R E). split; cbn [bc_dout bc_pair bc_app sv_out sv_pair sv_app]; [trivial|].
    intros _. exists ep. split; [exact Hep|lia].
  - destruct (stable_deposit_effect c s from app epid id amt s' CK PE H) as (x0 & ep & tout & Hf & Hep & Hp & Ha & _ & _ & _ & Hce & _ & E).
    apply (effect_risk _ _ _ _ _ _ R E). split; cbn [bc_dout bc_pair bc_app sv_out sv_pair sv_app]; [trivial|].
    intros _. exists ep. rewrite Hp, Ha. split; [exact Hep|lia].
  - destruct (stable_withdraw_effect c s from app epid id amt s' CK PE H) as (x0 & ep & tout & upd & _ & _ & _ & _ & _ & Hupd & _ & _ & _ & E).
    apply (effect_risk _ _ _ _ _ _ R E). split; cbn [bc_dout sv_out]; [trivial|lia].
  - destruct (interest_effect c s app id ienv s' W H) as (v0 & _ & _ & E).
    apply (effect_risk _ _ _ _ _ _ R (E 2)). split; cbn; [left|]; lia.
  - unfold donate in H. exec1 H. exec1 H. apply send_spec in E. destruct E as (_ & b1 & -> & Hb1).
    injection H as <-. apply (risk_frame c s); [exact R|reflexivity..].
  - injection H as <-. apply (risk_frame c s); [exact R|reflexivity..].
  - injection H as <-. apply (risk_frame c s); [exact R|reflexivity..].
  - injection H as <-. apply (risk_frame c s); [exact R|reflexivity..].
  - injection H as <-. apply (risk_frame c s); [exact R|reflexivity..].
  - injection H as <-. apply (risk_frame c s); [exact R|reflexivity..].
Qed.

Theorem history_risk c ops : cfg_ok c -> Forall user_op ops -> forall s, Inv01 c s -> InvRisk c s ->
  Inv01 c (run_all c ops s) /\ InvRisk c (run_all c ops s).
Proof.
  intros CK. induction ops as [|o ops IH]; intros U s I R; [split; assumption|].
  inversion U as [|? ? Uo Uops]; subst. cbn [run_all fold_left]. apply IH; [exact Uops|apply step_inv01; assumption|].
  destruct (step_cases c s o) as [(s' & H & ->)|[_ ->]]; [|exact R].
  exact (run_risk c s o s' CK Uo I R H).
Qed.

Lemma risk_init c b sp t pr : InvRisk c (init b sp t pr).
Proof. constructor; [intros v []|]. intros a p ep _. unfold pmint. cbn. lia. Qed.

Lemma get_ep_nodup c e : NoDup (map ep_id (epairs c)) -> In e (epairs c) -> get_ep c (ep_id e) = Some e.
Proof.
  unfold get_ep. induction (epairs c) as [|x l IH]; cbn [map find]; intros Hnd Hin; [destruct Hin|].
  inversion Hnd as [|? ? Hnx Hnd']; subst. destruct Hin as [->|Hin].
  - rewrite Z.eqb_refl. reflexivity.
  - destruct (Z.eqb_spec (ep_id x) (ep_id e)) as [Ee|Ee]; [|exact (IH Hnd' Hin)].
    exfalso. apply Hnx. rewrite Ee. apply in_map. exact Hin.
Qed.

Theorem risk_holds c s : cfg_ok3 c -> InvRisk c s -> holds_C03 c s = true.
Proof.
  intros [[Hnd _] CK3] R. unfold holds_C03. apply andb_true_iff. split.
  - unfold c03_floor_ok. apply forallb_forall. intros v Hin. destruct (r_floor _ _ R v Hin) as (ep & Hep & Hf).
    rewrite Hep. apply Z.leb_le. exact Hf.
  - unfold c03_ceiling_ok. apply forallb_forall. intros e Hin.
    pose proof (r_ceil _ _ R (ep_app e) (ep_id e) e (get_ep_nodup c e Hnd Hin)) as HC.
    destruct (CK3 e Hin) as (_ & _ & _ & _ & Hce). unfold pmint in HC.
    destruct (prods s (ep_app e) (ep_id e)); [|reflexivity]. apply Z.leb_le. lia.
Qed.

(* ---------- inactive price: the four risk-taking operations fail ---------- *)
Definition risk_op_on (o : op) (a e : Z) : Prop :=
  match o with
  | Create _ a' e' _ _ | Draw _ a' e' _ _ _ | Withdraw _ a' e' _ _ _ | DepositDraw _ a' e' _ _ _ _ => a' = a /\ e' = e
  | _ => False
  end.

Theorem price_inactive_fails c s o a e ep : cfg_ok3 c -> user_op o -> Inv01 c s -> PriceOk s ->
  risk_op_on o a e -> get_ep c e = Some ep -> e_status (esm s a) = false -> price_required_missing s ep = true ->
  is_ok (run c s o) = false /\ step c s o = s.
Proof.
  intros CK3 U I PO Hop Hep Hst Hm.
  assert (Hno : is_ok (run c s o) = false).
  { pose proof (run_c03_step c s o CK3 U I PO) as HS.
    destruct (is_ok (run c s o)); [|reflexivity]. exfalso.
    unfold holds_C03_step in HS. destruct o; cbn [risk_op_on] in Hop; try contradiction; destruct Hop as [-> ->];
      cbv zeta beta in HS; rewrite Hep, Hst, Hm in HS; discriminate. }
  split; [exact Hno|apply step_rejected; exact Hno].
Qed.

(* ---------- the example configuration meets the hypotheses ---------- *)
From Comdex Require Import Model.VaultExample.
Lemma ex_cfg_ok3 : cfg_ok3 ex_cfg.
Proof.
  split; [exact ex_cfg_ok|]. intros e [<-|[<-|[]]]; unfold ep_ok3; cbn; repeat split; try discriminate; reflexivity.
Qed.
Lemma ex_price_ok : PriceOk ex_init.
Proof. intros a p. cbn. unfold ex_price. destruct (a =? 1); [|discriminate]. intros H; injection H as <-. discriminate. Qed.
