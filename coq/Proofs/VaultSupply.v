(* C02: the supply of every vault-minted denom is backed by recorded principal along every finite
   history, and the per-message laws (mint delivery, exact burns, fees never minted). *)
From Comdex Require Import Lib.Base Lib.DecArith Lib.DecFacts Lib.Atomic Model.Vault Proofs.VaultProofs Proofs.VaultExec Proofs.VaultHandlers Proofs.VaultInv.
From Coq Require Import ZifyBool Sorted.

(* supply of denom d beyond the external supply [ext] (genesis, funding) = recorded principal *)
Definition Inv02 (c : cfg) (ext : Z -> Z) (s : state) : Prop := forall d, sup s d - ext d = debt_sum c s d.

Lemma effect_inv02 c ext s s' from bc fee : Inv01 c s -> Inv02 c ext s -> effect c s s' from bc fee -> Inv02 c ext s'.
Proof.
  intros I J E d. destruct (effect_sums c s s' from bc fee I E) as (_ & Sd & _ & _).
  rewrite (ef_sup _ _ _ _ _ _ E), Sd. specialize (J d). unfold at1. rewrite (Z.eqb_sym d). destruct (_ =? d); lia.
Qed.

Lemma inv02_frame c ext s s' : Inv02 c ext s -> vaults s' = vaults s -> svaults s' = svaults s -> sup s' = sup s -> Inv02 c ext s'.
Proof. intros J Hv Hx Hs d. unfold debt_sum. rewrite Hv, Hx, Hs. exact (J d). Qed.

Theorem run_inv02 c ext s o s' : cfg_ok c -> user_op o -> Inv01 c s -> Inv02 c ext s -> run c s o = Ok s' -> Inv02 c ext s'.
Proof.
  intros CK [Hu _] I J H. pose proof (inv_prods_exist c s I) as PE. pose proof (i_wf _ _ I) as W.
  destruct o; cbn [run sender] in *.
  - unfold msg_create in H. do 2 exec1 H.
    destruct (create_h_effect c s from app epid ain aout s' CK ltac:(lia) ltac:(lia) H) as (ep & cl & _ & _ & _ & _ & _ & _ & _ & _ & _ & E).
    exact (effect_inv02 _ _ _ _ _ _ _ I J E).
  - unfold msg_deposit in H. do 2 exec1 H.
    destruct (deposit_h_effect c s from app epid id amt ienv s' PE W ltac:(lia) H) as (v0 & ep & _ & _ & _ & _ & _ & _ & _ & E).
    exact (effect_inv02 _ _ _ _ _ _ _ I J E).
  - unfold msg_withdraw in H. do 2 exec1 H.
    destruct (withdraw_h_effect c s from app epid id amt ienv s' PE W ltac:(lia) H) as (v0 & ep & _ & _ & _ & _ & _ & _ & _ & E).
    exact (effect_inv02 _ _ _ _ _ _ _ I J E).
  - unfold msg_draw in H. do 2 exec1 H.
    destruct (draw_h_effect c s from app epid id amt ienv s' CK PE W H) as (v0 & ep & _ & _ & _ & _ & _ & _ & _ & _ & _ & _ & _ & E).
    exact (effect_inv02 _ _ _ _ _ _ _ I J E).
  - destruct (repay_effect c s from app epid id amt ienv s' PE W H) as (v0 & ep & _ & _ & _ & _ & _ & _ & _ & [[_ E]|(_ & _ & E)]);
      exact (effect_inv02 _ _ _ _ _ _ _ I J E).
  - destruct (close_effect c s from app epid id ienv s' PE W H) as (v0 & ep & _ & _ & _ & _ & _ & _ & E).
    exact (effect_inv02 _ _ _ _ _ _ _ I J E).
  - unfold msg_deposit_draw in H. do 5 exec1 H. exec1 H.
    destruct (deposit_h_effect c s from app epid id amt i1 st PE W ltac:(lia) E) as (v0 & ep & _ & _ & _ & _ & _ & _ & _ & E1).
    pose proof (effect_inv01 _ _ _ _ _ _ Hu I E1) as I1. pose proof (effect_inv02 _ _ _ _ _ _ _ I J E1) as J1.
    destruct (draw_h_effect c st from app epid id z0 i2 s' CK (inv_prods_exist c st I1) (i_wf _ _ I1) H) as (v1 & ep1 & _ & _ & _ & _ & _ & _ & _ & _ & _ & _ & _ & E2).
    exact (effect_inv02 _ _ _ _ _ _ _ I1 J1 E2).
  - destruct (stable_create_effect c s from app epid amt s' CK H) as (ep & tout & _ & _ & _ & _ & _ & _ & _ & _ & E).
    exact (effect_inv02 _ _ _ _ _ _ _ I J E).
  - destruct (stable_deposit_effect c s from app epid id amt s' CK PE H) as (x0 & ep & tout & _ & _ & _ & _ & _ & _ & _ & _ & _ & E).
    exact (effect_inv02 _ _ _ _ _ _ _ I J E).
  - destruct (stable_withdraw_effect c s from app epid id amt s' CK PE H) as (x0 & ep & tout & upd & _ & _ & _ & _ & _ & _ & _ & _ & _ & E).
    exact (effect_inv02 _ _ _ _ _ _ _ I J E).
  - destruct (interest_effect c s app id ienv s' W H) as (v0 & _ & _ & E).
    exact (effect_inv02 _ _ _ _ _ _ _ I J (E 2)).
  - unfold donate in H. exec1 H. exec1 H. apply send_spec in E. destruct E as (_ & b1 & -> & Hb1).
    injection H as <-. apply (inv02_frame c ext s); [exact J|reflexivity..].
  - injection H as <-. apply (inv02_frame c ext s); [exact J|reflexivity..].
  - injection H as <-. apply (inv02_frame c ext s); [exact J|reflexivity..].
  - injection H as <-. apply (inv02_frame c ext s); [exact J|reflexivity..].
  - injection H as <-. apply (inv02_frame c ext s); [exact J|reflexivity..].
  - injection H as <-. apply (inv02_frame c ext s); [exact J|reflexivity..].
Qed.

Theorem history_inv02 c ext ops : cfg_ok c -> Forall user_op ops -> forall s, Inv01 c s -> Inv02 c ext s ->
  Inv01 c (run_all c ops s) /\ Inv02 c ext (run_all c ops s).
Proof.
  intros CK. induction ops as [|o ops IH]; intros U s I J; [split; assumption|].
  inversion U as [|? ? Uo Uops]; subst. cbn [run_all fold_left]. apply IH; [exact Uops|apply step_inv01; assumption|].
  destruct (step_cases c s o) as [(s' & H & ->)|[_ ->]]; [|exact J].
  exact (run_inv02 c ext s o s' CK Uo I J H).
Qed.

Lemma inv02_init c b sp t pr : Inv02 c sp (init b sp t pr).
Proof. intros d. unfold debt_sum. cbn. lia. Qed.

Theorem inv02_holds c ext s denoms : Inv02 c ext s -> holds_C02 c ext denoms s = true.
Proof.
  intros J. unfold holds_C02. apply forallb_forall. intros d _. unfold c02_backing. rewrite (J d). apply Z.eqb_refl.
Qed.
