(* C02: the supply of every vault-minted denom is backed by recorded principal along every finite
   history, and the per-message laws (mint delivery, exact burns, fees never minted). *)
From Comdex Require Import Lib.Base Lib.DecArith Lib.DecFacts Lib.Atomic Model.Vault Proofs.VaultProofs Proofs.VaultExec Proofs.VaultHandlers Proofs.VaultInv.
From Coq Require Import ZifyBool Sorted.

(* supply of denom d beyond the external supply [ext] (genesis, funding) = recorded principal *)
Definition Inv02 (c : cfg) (ext : Z -> Z) (s : state) : Prop := forall d, sup s d - ext d = debt_sum c s d.

Lemma effect_inv02 c ext s s' from bc fee : Inv01 c s -> Inv02 c ext s -> effect c s s' from bc fee -> Inv02 c ext s'.
Proof.
  intros I J E d. destruct (effect_sums c s s' from bc fee I E) as (_ & Sd & _ & _).
  rewrite (ef_sup _ _ _ _ _ _ E), Sd. specialize (J d). unfold at1. rewrite (Z.eqb_sym d). destruct (_ =? d); lia.
Qed.

Lemma inv02_frame c ext s s' : Inv02 c ext s -> vaults s' = vaults s -> svaults s' = svaults s -> sup s' = sup s -> Inv02 c ext s'.
Proof. intros J Hv Hx Hs d. unfold debt_sum. rewrite Hv, Hx, Hs. exact (J d). Qed.

Theorem run_inv02 c ext s o s' : cfg_ok c -> user_op o -> Inv01 c s -> Inv02 c ext s -> run c s o = Ok s' -> Inv02 c ext s'.
Proof.
  intros CK [Hu _] I J H. pose proof (inv_prods_exist c s I) as PE. pose proof (i_wf _ _ I) as W.
  destruct o; cbn [run sender] in *.
  - unfold msg_create in H. do 2 exec1 H.
    destruct (create_h_effect c s from app epid ain aout s' CK ltac:(lia) ltac:(lia) H) as (ep & cl & _ & _ & _ & _ & _ & _ & _ & _ & _ & E).
    exact (effect_inv02 _ _ _ _ _ _ _ I J E).
  - unfold msg_deposit in H. do 2 exec1 H.
    destruct (deposit_h_effect c s from app epid id amt ienv s' PE W ltac:(lia) H) as (v0 & ep & _ & _ & _ & _ & _ & _ & _ & E).
    exact (effect_inv02 _ _ _ _ _ _ _ I J E).
  - unfold msg_withdraw in H. do 2 exec1 H.
    destruct (withdraw_h_effect c s from app epid id amt ienv s' PE W ltac:(lia) H) as (v0 & ep & _ & _ & _ & _ & _ & _ & _ & E).
    exact (effect_inv02 _ _ _ _ _ _ _ I J E).
  - unfold msg_draw in H. do 2 exec1 H.
    destruct (draw_h_effect c s from app epid id amt ienv s' CK PE W H) as (v0 & ep & _ & _ & _ & _ & _ & _ & _ & _ & _ & _ & _ & E).
    exact (effect_inv02 _ _ _ _ _ _ _ I J E).
  - destruct (repay_effect c s from app epid id amt ienv s' PE W H) as (v0 & ep & _ & _ & _ & _ & _ & _ & _ & [[_ E]|(_ & _ & E)]);
      exact (effect_inv02 _ _ _ _ _ _ _ I J E).
  - destruct (close_effect c s from app epid id ienv s' PE W H) as (v0 & ep & _ & _ & _ & _ & _ & _ & E).
    exact (effect_inv02 _ _ _ _ _ _ _ I J E).
  - unfold msg_deposit_draw in H. do 5 exec1 H. exec1 H.
    destruct (deposit_h_effect c s from app epid id amt i1 st PE W ltac:(lia) E) as (v0 & ep & _ & _ & _ & _ & _ & _ & _ & E1).
    pose proof (effect_inv01 _ _ _ _ _ _ Hu I E1) as I1. pose proof (effect_inv02 _ _ _ _ _ _ _ I J E1) as J1.
    destruct (draw_h_effect c st from app epid id z0 i2 s' CK (inv_prods_exist c st I1) (i_wf _ _ I1) H) as (v1 & ep1 & _ & _ & _ & _ & _ & _ & _ & _ & _ & _ & _ & E2).
    exact (effect_inv02 _ _ _ _ _ _ _ I1 J1 E2).
  - destruct (stable_create_effect c s from app epid amt s' CK H) as (ep & tout & _ & _ & _ & _ & _ & _ & _ & _ & E).
    exact (effect_inv02 _ _ _ _ _ _ _ I J E).
  - destruct (stable_deposit_effect c s from app epid id amt s' CK PE H) as (x0 & ep & tout & _ & _ & _ & _ & _ & _ & _ & _ & _ & E).
    exact (effect_inv02 _ _ _ _ _ _ _ I J E).
  - destruct (stable_withdraw_effect c s from app epid id amt s' CK PE H) as (x0 & ep & tout & upd & _ & _ & _ & _ & _ & _ & _ & _ & _ & E).
    exact (effect_inv02 _ _ _ _ _ _ _ I J E).
  - destruct (interest_effect c s app id ienv s' W H) as (v0 & _ & _ & E).
    exact (effect_inv02 _ _ _ _ _ _ _ I J (E 2)).
  - unfold donate in H. exec1 H. exec1 H. apply send_spec in E. destruct E as (_ & b1 & -> & Hb1).
    injection H as <-. apply (inv02_frame c ext s); [exact J|reflexivity..].
  - injection H as <-. apply (inv02_frame c ext s); [exact J|reflexivity..].
  - injection H as <-. apply (inv02_frame c ext s); [exact J|reflexivity..].
  - injection H as <-. apply (inv02_frame c ext s); [exact J|reflexivity..].
  - injection H as <-. apply (inv02_frame c ext s); [exact J|reflexivity..].
  - injection H as <-. apply (inv02_frame c ext s); [exact J|reflexivity..].
Qed.

Theorem history_inv02 c ext ops : cfg_ok c -> Forall user_op ops -> forall s, Inv01 c s -> Inv02 c ext s ->
  Inv01 c (run_all c ops s) /\ Inv02 c ext (run_all c ops s).
Proof.
  intros CK. induction ops as [|o ops IH]; intros U s I J; [split; assumption|].
  inversion U as [|? ? Uo Uops]; subst. cbn [run_all fold_left]. apply IH; [exact Uops|apply step_inv01; assumption|].
  destruct (step_cases c s o) as [(s' & H & ->)|[_ ->]]; [|exact J].
  exact (run_inv02 c ext s o s' CK Uo I J H).
Qed.

Lemma inv02_init c b sp t pr : Inv02 c sp (init b sp t pr).
Proof. intros d. unfold debt_sum. cbn. lia. Qed.

Theorem inv02_holds c ext s denoms : Inv02 c ext s -> holds_C02 c ext denoms s = true.
Proof.
  intros J. unfold holds_C02. apply forallb_forall. intros d _. unfold c02_backing. rewrite (J d). apply Z.eqb_refl.
Qed.

(* ---------- the per-message laws ---------- *)
(* the debt-denom ledger of an effect, read at the three places the property talks about *)
Lemma effect_debt_ledger c s s' f bc fee ep : f <> VAULT -> f <> COLL ->
  get_ep c (bc_pair bc) = Some ep -> ep_in ep <> ep_out ep -> effect c s s' f bc fee ->
  sup s' (ep_out ep) - sup s (ep_out ep) = bc_dout bc /\
  bal s' f (ep_out ep) - bal s f (ep_out ep) = bc_dout bc - fee /\
  bal s' COLL (ep_out ep) - bal s COLL (ep_out ep) = fee.
Proof.
  intros Hv Hc Hep Hio E. rewrite (ef_sup _ _ _ _ _ _ E), !(ef_bal _ _ _ _ _ _ E).
  rewrite (denom_in_ep _ _ _ Hep), (denom_out_ep _ _ _ Hep).
  unfold xfer, at2, at1. rewrite !Z.eqb_refl.
  destruct (Z.eqb_spec f VAULT); [congruence|]. destruct (Z.eqb_spec f COLL); [congruence|].
  destruct (Z.eqb_spec COLL f); [congruence|]. destruct (Z.eqb_spec (ep_out ep) (ep_in ep)); [congruence|].
  change (COLL =? VAULT) with false. cbn [andb]. lia.
Qed.

Lemma effect_sup_same c s s' f bc fee : bc_dout bc = 0 -> effect c s s' f bc fee -> forall x, sup s' x = sup s x.
Proof. intros H0 E x. rewrite (ef_sup _ _ _ _ _ _ E), H0. unfold at1. destruct (_ =? _); lia. Qed.

Lemma cfg_ep_io c id ep : cfg_ok c -> get_ep c id = Some ep -> ep_in ep <> ep_out ep.
Proof. intros [_ CK] H. destruct (CK _ (get_ep_in _ _ _ H)) as (_ & Hio & _). exact Hio. Qed.

Lemma mint_law_of c s s' f bc fee ep dprin : f <> VAULT -> f <> COLL ->
  get_ep c (bc_pair bc) = Some ep -> ep_in ep <> ep_out ep -> effect c s s' f bc fee ->
  bc_dout bc = dprin -> fee = ddf_fee ep dprin -> mint_law ep s s' f dprin = true.
Proof.
  intros Hv Hc Hep Hio E Hd Hf. destruct (effect_debt_ledger c s s' f bc fee ep Hv Hc Hep Hio E) as (L1 & L2 & L3).
  unfold mint_law. cbv zeta. rewrite L1, L2, L3, Hd, <- Hf, !Z.eqb_refl. reflexivity.
Qed.

Theorem run_c02_step c s o s' : cfg_ok c -> user_op o -> Inv01 c s -> run c s o = Ok s' -> holds_C02_step c s o s' = true.
Proof.
  intros CK [Hu Hc] I H. pose proof (inv_prods_exist c s I) as PE. pose proof (i_wf _ _ I) as W.
  destruct o; cbn [run sender holds_C02_step] in *; try reflexivity.
  - (* Create *)
    unfold msg_create in H. do 2 exec1 H.
    destruct (create_h_effect c s from app epid ain aout s' CK ltac:(lia) ltac:(lia) H) as (ep & cl & Hep & _ & _ & _ & _ & _ & _ & _ & Hfee & E).
    rewrite Hep. refine (mint_law_of c s s' from _ _ ep aout Hu Hc _ (cfg_ep_io _ _ _ CK Hep) E _ _); [exact Hep|reflexivity|symmetry; exact Hfee].
  - (* Deposit *)
    unfold msg_deposit in H. do 2 exec1 H.
    destruct (deposit_h_effect c s from app epid id amt ienv s' PE W ltac:(lia) H) as (v0 & ep & _ & _ & _ & _ & _ & _ & _ & E).
    apply forallb_forall. intros e _. pose proof (fun X => effect_sup_same _ _ _ _ _ _ X E) as Hs. rewrite Hs by (cbn; lia). apply Z.eqb_refl.
  - (* Withdraw *)
    unfold msg_withdraw in H. do 2 exec1 H.
    destruct (withdraw_h_effect c s from app epid id amt ienv s' PE W ltac:(lia) H) as (v0 & ep & _ & _ & _ & _ & _ & _ & _ & E).
    apply forallb_forall. intros e _. pose proof (fun X => effect_sup_same _ _ _ _ _ _ X E) as Hs. rewrite Hs by (cbn; lia). apply Z.eqb_refl.
  - (* Draw *)
    unfold msg_draw in H. do 2 exec1 H.
    destruct (draw_h_effect c s from app epid id amt ienv s' CK PE W H) as (v0 & ep & Hf & Hep & Hp & _ & _ & _ & _ & _ & _ & _ & Hfee & E).
    rewrite Hep. assert (Hep' : get_ep c (v_pair v0) = Some ep) by (rewrite Hp; exact Hep).
    refine (mint_law_of c s s' from _ _ ep amt Hu Hc _ (cfg_ep_io _ _ _ CK Hep) E _ _); [exact Hep'|cbn; lia|symmetry; exact Hfee].
  - (* Repay *)
    destruct (repay_effect c s from app epid id amt ienv s' PE W H) as (v0 & ep & Hf & Hep & Hp & _ & _ & _ & _ & Hcase).
    rewrite Hep, Hf. assert (Hep' : get_ep c (v_pair v0) = Some ep) by (rewrite Hp; exact Hep).
    pose proof (cfg_ep_io _ _ _ CK Hep) as Hio. pose proof (find_v_id _ _ _ Hf) as Hvid.
    destruct Hcase as [[Hle E]|(Hgt & _ & E)].
    + destruct (fun X => effect_debt_ledger c s s' from _ _ ep Hu Hc X Hio E) as (L1 & L2 & L3); [exact Hep'|].
      rewrite (ef_vaults _ _ _ _ _ _ E). cbn [bc_vaults]. rewrite find_put_same by (cbn; exact Hvid).
      cbn [bc_dout v_out with_int with_out] in *. cbv zeta.
      repeat (apply andb_true_iff; split); apply Z.eqb_eq; lia.
    + destruct (fun X => effect_debt_ledger c s s' from _ _ ep Hu Hc X Hio E) as (L1 & L2 & L3); [exact Hep'|].
      rewrite (ef_vaults _ _ _ _ _ _ E). cbn [bc_vaults]. rewrite find_put_same by (cbn; exact Hvid).
      cbn [bc_dout v_out with_int with_out] in *. cbv zeta.
      repeat (apply andb_true_iff; split); apply Z.eqb_eq; lia.
  - (* Close *)
    destruct (close_effect c s from app epid id ienv s' PE W H) as (v0 & ep & Hf & Hep & Hp & _ & _ & Hie & E).
    rewrite Hep, Hf. assert (Hep' : get_ep c (v_pair v0) = Some ep) by (rewrite Hp; exact Hep).
    destruct (fun X => effect_debt_ledger c s s' from _ _ ep Hu Hc X (cfg_ep_io _ _ _ CK Hep) E) as (L1 & L2 & L3); [exact Hep'|].
    cbn [bc_dout] in *. cbv zeta. destruct (Z.gtb_spec ienv 0);
      repeat (apply andb_true_iff; split); apply Z.eqb_eq; lia.
  - (* DepositDraw *)
    unfold msg_deposit_draw in H. do 5 exec1 H. exec1 H.
    destruct (deposit_h_effect c s from app epid id amt i1 st PE W ltac:(lia) E) as (v0 & ep & Hf & Hep & Hp & _ & _ & _ & _ & E1).
    pose proof (effect_inv01 _ _ _ _ _ _ Hu I E1) as I1.
    destruct (draw_h_effect c st from app epid id z0 i2 s' CK (inv_prods_exist c st I1) (i_wf _ _ I1) H)
      as (v1 & ep1 & Hf1 & Hep1 & Hp1 & _ & _ & _ & _ & _ & _ & _ & Hfee & E2).
    rewrite Hep1 in Hep. injection Hep as <-.
    match goal with M : find_v (vaults s) id = Some ?v |- _ => assert (v = v0) by congruence; subst v end.
    rewrite Hep1. rewrite (ef_vaults _ _ _ _ _ _ E2). cbn [bc_vaults]. rewrite find_put_same by (cbn; apply (find_v_id _ _ _ Hf1)).
    assert (Hep' : get_ep c (v_pair v0) = Some ep1) by (rewrite Hp; exact Hep1).
    assert (Hep1' : get_ep c (v_pair v1) = Some ep1) by (rewrite Hp1; exact Hep1).
    pose proof (cfg_ep_io _ _ _ CK Hep1) as Hio.
    destruct (fun X => effect_debt_ledger c s st from _ _ ep1 Hu Hc X Hio E1) as (L1 & L2 & L3); [exact Hep'|].
    destruct (fun X => effect_debt_ledger c st s' from _ _ ep1 Hu Hc X Hio E2) as (N1 & N2 & N3); [exact Hep1'|].
    (* the vault in the intermediate state is the deposited one: same principal *)
    assert (Hv1 : v_out v1 = v_out v0).
    { rewrite (ef_vaults _ _ _ _ _ _ E1) in Hf1. cbn [bc_vaults] in Hf1.
      rewrite find_put_same in Hf1 by (cbn; apply (find_v_id _ _ _ Hf)). injection Hf1 as <-. reflexivity. }
    cbn [bc_dout v_out with_in with_int with_out] in *.
    unfold mint_law. cbv zeta. rewrite Hv1.
    replace (v_out v0 + z0 - v_out v0) with z0 by lia. rewrite Hfee.
    repeat (apply andb_true_iff; split); apply Z.eqb_eq; lia.
  - (* StableCreate *)
    destruct (stable_create_effect c s from app epid amt s' CK H) as (ep & tout & Hep & _ & _ & _ & _ & _ & _ & Hfee & E).
    rewrite Hep. destruct (effect_sums c s s' from _ _ I E) as (_ & Sd & _ & _).
    rewrite Sd. cbn [bc_pair bc_dout sv_pair sv_out]. rewrite (denom_out_ep _ _ _ Hep), Z.eqb_refl.
    replace (debt_sum c s (ep_out ep) + tout - debt_sum c s (ep_out ep)) with tout by lia.
    refine (mint_law_of c s s' from _ _ ep tout Hu Hc _ (cfg_ep_io _ _ _ CK Hep) E _ _); [exact Hep|reflexivity|symmetry; exact Hfee].
  - (* StableDeposit *)
    destruct (stable_deposit_effect c s from app epid id amt s' CK PE H) as (x0 & ep & tout & Hf & Hep & Hp & _ & _ & _ & _ & _ & Hfee & E).
    rewrite Hep. destruct (effect_sums c s s' from _ _ I E) as (_ & Sd & _ & _).
    assert (Hep' : get_ep c (sv_pair x0) = Some ep) by (rewrite Hp; exact Hep).
    rewrite Sd. cbn [bc_pair bc_dout sv_pair sv_out]. rewrite (denom_out_ep _ _ _ Hep'), Z.eqb_refl.
    replace (debt_sum c s (ep_out ep) + (sv_out x0 + tout - sv_out x0) - debt_sum c s (ep_out ep)) with tout by lia.
    refine (mint_law_of c s s' from _ _ ep tout Hu Hc _ (cfg_ep_io _ _ _ CK Hep) E _ _); [exact Hep'|cbn; lia|symmetry; exact Hfee].
  - (* StableWithdraw *)
    destruct (stable_withdraw_effect c s from app epid id amt s' CK PE H) as (x0 & ep & tout & upd & Hf & Hep & Hp & _ & _ & _ & Hupd & _ & _ & E).
    rewrite Hep. destruct (effect_sums c s s' from _ _ I E) as (_ & Sd & _ & _).
    assert (Hep' : get_ep c (sv_pair x0) = Some ep) by (rewrite Hp; exact Hep).
    destruct (fun X => effect_debt_ledger c s s' from _ _ ep Hu Hc X (cfg_ep_io _ _ _ CK Hep) E) as (L1 & L2 & L3); [exact Hep'|].
    cbv zeta. rewrite Sd. cbn [bc_pair bc_dout sv_pair sv_out] in *. rewrite (denom_out_ep _ _ _ Hep'), Z.eqb_refl.
    repeat (apply andb_true_iff; split); apply Z.eqb_eq; lia.
  - (* InterestCalc *)
    destruct (interest_effect c s app id ienv s' W H) as (v0 & _ & _ & E).
    apply forallb_forall. intros e _. pose proof (fun X => effect_sup_same _ _ _ _ _ _ X (E 2)) as Hs. rewrite Hs by (cbn; lia). apply Z.eqb_refl.
Qed.

(* what [mint_law] says *)
Lemma mint_law_meaning ep s s' f x : mint_law ep s s' f x = true ->
  sup s' (ep_out ep) - sup s (ep_out ep) = x /\
  bal s' f (ep_out ep) - bal s f (ep_out ep) = x - ddf_fee ep x /\
  bal s' COLL (ep_out ep) - bal s COLL (ep_out ep) = ddf_fee ep x.
Proof.
  unfold mint_law. cbv zeta. rewrite !andb_true_iff, !Z.eqb_eq. tauto.
Qed.

(* readable corollaries *)
Theorem create_delivery c s f a e ain aout s' : cfg_ok c -> f <> VAULT -> f <> COLL -> Inv01 c s ->
  run c s (Create f a e ain aout) = Ok s' ->
  exists ep, get_ep c e = Some ep /\
    let fee := Z.quot (aout * ep_ddf ep) P18 in      (* NewDecFromInt(AmountOut).Mul(DrawDownFee).TruncateInt() *)
    sup s' (ep_out ep) - sup s (ep_out ep) = aout /\
    bal s' f (ep_out ep) - bal s f (ep_out ep) = aout - fee /\
    bal s' COLL (ep_out ep) - bal s COLL (ep_out ep) = fee /\
    find_v (vaults s') (vid s') = Some (mkV (vid s + 1) f a e ain aout 0 (match find_v (vaults s') (vid s') with Some v => v_fee v | None => 0 end)).
Proof.
  intros CK Hu Hc I H. cbn [run] in H. unfold msg_create in H. do 2 exec1 H.
  destruct (create_h_effect c s f a e ain aout s' CK ltac:(lia) ltac:(lia) H) as (ep & cl & Hep & _ & _ & _ & _ & _ & _ & _ & Hfee & E).
  exists ep. split; [exact Hep|]. cbv zeta.
  destruct (fun X => effect_debt_ledger c s s' f _ _ ep Hu Hc X (cfg_ep_io _ _ _ CK Hep) E) as (L1 & L2 & L3); [exact Hep|].
  cbn [bc_dout v_out] in *. fold (feeq aout (ep_ddf ep)). repeat split; try assumption.
  rewrite (ef_vid _ _ _ _ _ _ E), (ef_vaults _ _ _ _ _ _ E). cbn [bc_vaults v_id]. rewrite find_put_same by reflexivity. reflexivity.
Qed.

Lemma del_find_none l id : NoDup (map v_id l) -> find_v (del_v l id) id = None.
Proof.
  unfold find_v, del_v. induction l as [|y l IH]; cbn [gdel gfind map]; intros Hnd; [reflexivity|].
  inversion Hnd as [|? ? Hny Hnd']; subst. destruct (Z.eqb_spec (v_id y) id) as [Ey|Ey].
  - apply (gfind_notin v_id). rewrite <- Ey. exact Hny.
  - cbn [gfind]. destruct (Z.eqb_spec (v_id y) id); [contradiction|]. exact (IH Hnd').
Qed.

Theorem close_burn c s f a e id ie s' : cfg_ok c -> f <> VAULT -> f <> COLL -> Inv01 c s ->
  run c s (Close f a e id ie) = Ok s' ->
  exists v ep, find_v (vaults s) id = Some v /\ get_ep c e = Some ep /\ 0 <= ie /\
    sup s (ep_out ep) - sup s' (ep_out ep) = v_out v /\                              (* burns exactly the principal *)
    bal s' COLL (ep_out ep) - bal s COLL (ep_out ep) = v_int v + ie + v_fee v /\     (* interest and closing fee: to the collector *)
    bal s f (ep_out ep) - bal s' f (ep_out ep) = v_out v + (v_int v + ie + v_fee v) /\  (* all paid by the owner out of existing supply *)
    find_v (vaults s') id = None.
Proof.
  intros CK Hu Hc I H. cbn [run] in H. pose proof (inv_prods_exist c s I) as PE. pose proof (i_wf _ _ I) as W.
  destruct (close_effect c s f a e id ie s' PE W H) as (v0 & ep & Hf & Hep & Hp & _ & _ & Hie & E).
  exists v0, ep. repeat (split; [assumption|]).
  assert (Hep' : get_ep c (v_pair v0) = Some ep) by (rewrite Hp; exact Hep).
  destruct (fun X => effect_debt_ledger c s s' f _ _ ep Hu Hc X (cfg_ep_io _ _ _ CK Hep) E) as (L1 & L2 & L3); [exact Hep'|].
  cbn [bc_dout] in *. repeat split; try lia.
  rewrite (ef_vaults _ _ _ _ _ _ E). cbn [bc_vaults]. rewrite (find_v_id _ _ _ Hf).
  apply del_find_none. apply sorted_nodup. apply (i_sorted_v _ _ I).
Qed.

(* ---------- GetAmountOfOtherToken at rate 1:1 (vault.go:679-697) ---------- *)
Lemma dquo_by_one a : dquo a P18 = a.
Proof.
  unfold dquo. pose proof P18_pos. rewrite P36_eq.
  replace (a * (P18 * P18)) with (a * P18 * P18) by lia. rewrite Z.quot_mul by lia. apply chop_round_exact.
Qed.

(* the conversion is: q := Quo(amt, dec1) rounded half-even at 10^-18, then TruncateInt(q * dec2);
   the two roundings bound the result against the exact amt * dec2 / dec1 *)
Theorem other_token_spec dec1 amt dec2 t : other_token dec1 amt dec2 = Some t -> 0 < dec1 -> 0 <= amt -> 0 <= dec2 ->
  let q := dquo (amt * P18) (dec1 * P18) in
  t = Z.quot (q * dec2) P18 /\
  t * dec1 * P18 <= (amt * P18 + dec1) * dec2 /\ (amt * P18 - dec1) * dec2 < (t + 1) * dec1 * P18.
Proof.
  unfold other_token, other_token_gen, dmul_c, dquo_c, dtrunc_int_c, chk_dec, chk_int. intros H Hd Ha Hd2. cbv zeta.
  rewrite dmul_one in H. destruct (fits_dec (dec_of_int amt)); [|discriminate].
  destruct (dec_of_int dec1 =? 0); [discriminate|]. destruct (fits_dec (dquo _ _)); [|discriminate].
  change (P18 =? 0) with false in H. cbv iota in H. rewrite dquo_by_one in H.
  destruct (fits_dec (dquo _ _)); [|discriminate]. rewrite dmul_int_exact_r in H.
  destruct (fits_dec _); [|discriminate]. destruct (fits_int _); [|discriminate]. injection H as <-.
  unfold dec_of_int, dtrunc_int. set (q := dquo (amt * P18) (dec1 * P18)).
  pose proof P18_pos. pose proof (dquo_bounds (amt * P18) (dec1 * P18) ltac:(nia) ltac:(nia)) as [B1 B2]. fold q in B1, B2.
  assert (Hq : 0 <= q) by (apply dquo_nonneg; nia).
  split; [reflexivity|].
  rewrite Z.quot_div_nonneg by nia.
  pose proof (Z.div_mod (q * dec2) P18 ltac:(lia)) as Hdm. pose proof (Z.mod_pos_bound (q * dec2) P18 ltac:(lia)) as Hmb.
  set (t := q * dec2 / P18) in *.
  (* q*dec1 within [amt*P18 - dec1, amt*P18 + dec1] *)
  assert (Q1 : q * dec1 <= amt * P18 + dec1) by nia.
  assert (Q2 : amt * P18 - dec1 <= q * dec1) by nia.
  split.
  - assert (t * P18 <= q * dec2) by lia. nia.
  - assert (q * dec2 < (t + 1) * P18) by lia. nia.
Qed.

(* MsgRepay spelled out: interest is paid first and goes to the collector out of existing supply;
   only what exceeds the interest retires principal, and exactly that much is burnt *)
Theorem repay_law c s f a e id amt ie s' : cfg_ok c -> f <> VAULT -> f <> COLL -> Inv01 c s ->
  run c s (Repay f a e id amt ie) = Ok s' ->
  exists v v' ep, find_v (vaults s) id = Some v /\ find_v (vaults s') id = Some v' /\ get_ep c e = Some ep /\ 0 <= ie /\
    let interest := v_int v + ie in
    let burnt := Z.max 0 (amt - interest) in
    sup s (ep_out ep) - sup s' (ep_out ep) = burnt /\
    v_out v' = v_out v - burnt /\ v_int v' = interest - (amt - burnt) /\
    bal s' COLL (ep_out ep) - bal s COLL (ep_out ep) = amt - burnt /\
    bal s f (ep_out ep) - bal s' f (ep_out ep) = amt /\
    (forall x, x <> ep_out ep -> sup s' x = sup s x).
Proof.
  intros CK Hu Hc I H. cbn [run] in H. pose proof (inv_prods_exist c s I) as PE. pose proof (i_wf _ _ I) as W.
  destruct (repay_effect c s f a e id amt ie s' PE W H) as (v0 & ep & Hf & Hep & Hp & _ & _ & Hie & Hamt & Hcase).
  assert (Hep' : get_ep c (v_pair v0) = Some ep) by (rewrite Hp; exact Hep).
  pose proof (cfg_ep_io _ _ _ CK Hep) as Hio. pose proof (find_v_id _ _ _ Hf) as Hvid.
  destruct Hcase as [[Hle E]|(Hgt & _ & E)].
  - destruct (fun X => effect_debt_ledger c s s' f _ _ ep Hu Hc X Hio E) as (L1 & L2 & L3); [exact Hep'|].
    eexists v0, _, ep. split; [exact Hf|]. split.
    { rewrite (ef_vaults _ _ _ _ _ _ E). cbn [bc_vaults]. apply find_put_same. cbn. exact Hvid. }
    split; [exact Hep|]. split; [exact Hie|]. cbv zeta. cbn [bc_dout v_out v_int with_int with_out] in *.
    replace (Z.max 0 (amt - (v_int v0 + ie))) with 0 by lia. repeat split; try lia.
    intros x Hx. rewrite (ef_sup _ _ _ _ _ _ E). unfold at1. destruct (_ =? _); cbn [bc_dout v_out with_int]; lia.
  - destruct (fun X => effect_debt_ledger c s s' f _ _ ep Hu Hc X Hio E) as (L1 & L2 & L3); [exact Hep'|].
    eexists v0, _, ep. split; [exact Hf|]. split.
    { rewrite (ef_vaults _ _ _ _ _ _ E). cbn [bc_vaults]. apply find_put_same. cbn. exact Hvid. }
    split; [exact Hep|]. split; [exact Hie|]. cbv zeta. cbn [bc_dout v_out v_int with_int with_out] in *.
    replace (Z.max 0 (amt - (v_int v0 + ie))) with (amt - (v_int v0 + ie)) by lia. repeat split; try lia.
    intros x Hx. rewrite (ef_sup _ _ _ _ _ _ E). unfold at1. cbn [bc_pair v_pair with_int with_out]. rewrite (denom_out_ep _ _ _ Hep').
    destruct (Z.eqb_spec x (ep_out ep)); [contradiction|lia].
Qed.
