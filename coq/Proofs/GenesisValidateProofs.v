(* C20 - the genesis validation table: the finite checks, and what a checked row means. *)
From Coq Require Import String.
From Comdex Require Import Lib.Base Lib.GenesisTypes Gen.GenesisTable Model.GenesisValidate.
Open Scope Z_scope.

Lemma validation_recognised : validation_unread = [].
Proof. vm_compute. reflexivity. Qed.

Lemma validation_decided : validation_ok = true.
Proof. vm_compute. reflexivity. Qed.

Lemma validation_parts :
  xrefs_keyed val_xrefs = true /\ forallb (xref_declared val_maps) val_xrefs = true /\
  entries_closed modules val_entries = true /\ forallb (coll_exported exports val_colls) val_colls = true.
Proof.
  pose proof validation_decided as H. unfold validation_ok in H.
  apply andb_prop in H. destruct H as [H H4]. apply andb_prop in H. destruct H as [H H3].
  apply andb_prop in H. destruct H as [H1 H2]. repeat split; assumption.
Qed.

(* what [xref_ok] says about a lookup of a record of ANOTHER kind (not the item's own duplicate check,
   not a set): its single key is the field "<Kind>Id", the keyed record is the loop's item or was
   itself fetched by a row of the table, and the map is populated under each record's own Id *)
Lemma xref_ok_reference xs x :
  xref_ok xs x = true -> String.eqb (vx_kind x) "" = false ->
  (String.eqb (vx_owner x) (vx_kind x) && from_item x) = false ->
  vx_keys x = [(vx_kind x ++ "Id")%string] /\ (from_item x || from_fetch xs x) = true /\
  map_keyed_by_id xs (vx_mod x) (vx_map x) (vx_kind x) = true.
Proof.
  unfold xref_ok. intros H Hk Hs. rewrite Hk, Hs in H.
  apply andb_prop in H. destruct H as [H H3]. apply andb_prop in H. destruct H as [H1 H2].
  destruct (vx_keys x) as [|k [|k' r]]; try discriminate.
  apply String.eqb_eq in H1. subst k. repeat split; assumption.
Qed.

Lemma xrefs_keyed_row x : In x val_xrefs -> xref_ok val_xrefs x = true.
Proof.
  intros Hin. destruct validation_parts as [H _]. unfold xrefs_keyed in H.
  rewrite forallb_forall in H. exact (H x Hin).
Qed.
