(* Lemmas about the provenance check of owner comparisons (Model/GuardsCheck.v chain_ok): a chain
   that passes the check is rooted at a position-id field of the message. *)
From Coq Require Import String List Bool.
From Comdex Require Import Lib.Base Model.Guards Model.GuardsCheck.
Import ListNotations.
Open Scope string_scope.

(* some link of an accepted chain is keyed by "msg.<f>" for one of the allowed id fields f *)
Lemma chain_ok_rooted : forall ids c, chain_ok ids c = true ->
  exists f lk keys, In f ids /\ In (lk, keys) c /\ In ("msg." ++ f) keys.
Proof.
  intros ids. induction c as [|[lk keys] rest IH]; intro H; [discriminate|].
  cbn [chain_ok] in H.
  destruct (assoc lk lookup_info) as [[k rt]|]; [|discriminate].
  apply andb_prop in H. destruct H as [_ H].
  destruct (filter (key_has_kind k) keys) as [|key [|? ?]] eqn:F; try discriminate.
  assert (Hin : In key keys).
  { assert (In key (filter (key_has_kind k) keys)) by (rewrite F; left; reflexivity).
    apply filter_In in H0. tauto. }
  destruct (String.prefix "msg." key) eqn:P.
  - destruct rest; [|discriminate].
    apply existsb_exists in H. destruct H as [f [Hf E]]. apply String.eqb_eq in E. subst key.
    exists f, lk, keys. split; [exact Hf|]. split; [left; reflexivity|exact Hin].
  - destruct rest as [|[lk2 keys2] rest2]; [discriminate|].
    destruct (assoc lk2 lookup_info) as [[k2 rt2]|]; [|discriminate].
    apply andb_prop in H. destruct H as [_ H].
    destruct (IH H) as [f [lk' [keys' [Hf [Hl Hk]]]]].
    exists f, lk', keys'. split; [exact Hf|]. split; [right; exact Hl|exact Hk].
Qed.

(* the first link of an accepted comparison fetches a record of the kind whose owner field is compared *)
Lemma owner_cmp_ok_kind : forall ids c, owner_cmp_ok ids c = true ->
  exists k lk keys rest rt, assoc (oc_field c) owner_fields = Some k /\ oc_chain c = (lk, keys) :: rest /\
    assoc lk lookup_info = Some (k, rt) /\ chain_ok ids (oc_chain c) = true.
Proof.
  intros ids c H. unfold owner_cmp_ok in H.
  destruct (assoc (oc_field c) owner_fields) as [k|] eqn:E1; [|discriminate].
  destruct (oc_chain c) as [|[lk keys] rest] eqn:E2; [discriminate|].
  destruct (assoc lk lookup_info) as [[k' rt]|] eqn:E3; [|discriminate].
  apply andb_prop in H. destruct H as [H H3]. apply andb_prop in H. destruct H as [H1 _].
  apply String.eqb_eq in H1. subst k'.
  exists k, lk, keys, rest, rt. repeat split; try assumption; reflexivity.
Qed.

(* what the boolean check of the owner comparisons of one handler says *)
Lemma owner_cmps_ok_spec : forall ids cs, owner_cmps_ok ids cs = true ->
  (cs = [] -> False) /\
  forall c, In c cs ->
    owner_cmp_ok ids c = true /\
    exists f lk keys, In f ids /\ In (lk, keys) (oc_chain c) /\ In ("msg." ++ f) keys.
Proof.
  intros ids cs K. destruct cs as [|c0 cs]; [discriminate|].
  split; [discriminate|]. intros c Hc. unfold owner_cmps_ok in K. rewrite forallb_forall in K. specialize (K c Hc).
  split; [exact K|].
  destruct (owner_cmp_ok_kind _ _ K) as [k [lk [keys [rest [rt [_ [_ [_ Hch]]]]]]]].
  exact (chain_ok_rooted _ _ Hch).
Qed.
