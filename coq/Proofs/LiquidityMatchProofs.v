(* Proofs about Model/LiquidityMatch.v: whatever book the stored orders of a pair are matched in (any other
   orders, any pool orders, any last price), the engine's fill of each stored order is within what NewUserOrder
   handed over for it: matched amount <= open amount, payment <= REMAINING offer coin. *)
From Comdex Require Import Lib.Base Lib.DecArith Model.AMM Proofs.AMMProofs.
From Comdex Require Model.Liquidity Model.LiquidityMatch.
From Coq Require Import ZifyBool Lia.
Module L := Liquidity.
Module M := LiquidityMatch.

(* what a fill never changes, and - for a sell - that the base coin paid is the amount filled *)
Definition keeps (o o' : order) : Prop :=
  o_amt o' = o_amt o /\ o_offer o' = o_offer o /\ o_dir o' = o_dir o /\
  (o_dir o = Sell -> o_paid o' + o_open o' = o_paid o + o_open o).
Lemma keeps_refl o : keeps o o. Proof. repeat split; intros; reflexivity. Qed.
Lemma keeps_trans a b c : keeps a b -> keeps b c -> keeps a c.
Proof.
  intros (A1 & A2 & A3 & A4) (B1 & B2 & B3 & B4). repeat split; try congruence.
  intros Hs. rewrite B4 by congruence. apply A4, Hs.
Qed.

Lemma Forall2_refl {A} (R : A -> A -> Prop) l : (forall x, R x x) -> Forall2 R l l.
Proof. intros H. induction l; constructor; auto. Qed.

Lemma set_nth_Forall2 {A} (R : A -> A -> Prop) l i v l' x :
  (forall y, R y y) -> set_nth l i v = Some l' -> nth_error l i = Some x -> R x v -> Forall2 R l l'.
Proof.
  intros Hr. revert i l'. induction l as [|y r IH]; intros [|i] l' H Hn Hv; cbn in H, Hn; try discriminate.
  - injection H as <-. injection Hn as ->. constructor; [exact Hv|apply Forall2_refl, Hr].
  - destruct (set_nth r i v) as [r'|] eqn:E; [|discriminate]. injection H as <-. constructor; [apply Hr|eauto].
Qed.

Lemma Forall2_trans {A} (R : A -> A -> Prop) : (forall a b c, R a b -> R b c -> R a c) ->
  forall l1 l2 l3, Forall2 R l1 l2 -> Forall2 R l2 l3 -> Forall2 R l1 l3.
Proof.
  intros Ht l1 l2 l3 H12. revert l3. induction H12; intros l3 H23; inversion H23; subst; constructor; eauto.
Qed.

Lemma apply_fill_keeps os f os' : apply_fill os f = Some os' -> Forall2 keeps os os'.
Proof.
  unfold apply_fill. intros H. destruct (nth_error os (f_id f)) as [o|] eqn:En; [|discriminate].
  destruct (dir_eqb (f_dir f) (o_dir o)); [|discriminate].
  destruct (fill_order o (f_amt f) (f_price f)) as [o'|] eqn:Ef; [|discriminate].
  eapply set_nth_Forall2; [exact keeps_refl|exact H|exact En|].
  destruct (fill_order_spec _ _ _ _ Ef) as (_ & _ & Hd & _ & Ha & Ho & _ & _ & Hop & Hm).
  repeat split; try assumption. intros Hs. rewrite Hs in Hm. lia.
Qed.

Lemma apply_fills_keeps fs : forall os os', apply_fills os fs = Some os' -> Forall2 keeps os os'.
Proof.
  induction fs as [|f r IH]; intros os os' H; cbn in H.
  - injection H as <-. apply Forall2_refl, keeps_refl.
  - destruct (apply_fill os f) as [os1|] eqn:E; [|discriminate].
    eapply Forall2_trans; [exact keeps_trans|eapply apply_fill_keeps; eauto|eauto].
Qed.

Lemma Forall2_nth {A} (R : A -> A -> Prop) l l' i x : Forall2 R l l' -> nth_error l i = Some x ->
  exists y, nth_error l' i = Some y /\ R x y.
Proof.
  intros H. revert i. induction H; intros [|i] Hn; cbn in Hn; try discriminate.
  - injection Hn as ->. eexists; split; [reflexivity|assumption].
  - apply IHForall2 in Hn. exact Hn.
Qed.

Lemma amm_orders_nth os : forall pos i o, nth_error os i = Some o ->
  nth_error (M.amm_orders pos os) i = Some (M.amm_order (pos + i) o).
Proof.
  induction os as [|x r IH]; intros pos [|i] o H; cbn in H; try discriminate.
  - injection H as ->. cbn. rewrite Nat.add_0_r. reflexivity.
  - cbn. rewrite (IH (S pos) i o H). f_equal. f_equal. lia.
Qed.

(* NewUserOrder never hands over more than the open amount *)
Lemma amm_amount_le_open o : L.ai_amt (L.user_order_amm o) <= L.o_open o.
Proof.
  unfold L.user_order_amm. cbn [L.ai_amt]. destruct (L.o_buy o); [|lia].
  destruct (if L.o_price o =? 0 then None else chk_dec _) as [q|]; [|lia].
  destruct (dtrunc_int_c q); lia.
Qed.

Theorem keeper_fill_bound os pool lp r :
  dom_ok (M.amm_orders O os ++ pool) lp = true -> run_match (M.amm_orders O os ++ pool) lp = Some r ->
  forall i o, nth_error os i = Some o ->
  exists a', nth_error (r_orders r) i = Some a' /\
    let '(m, p, rc) := M.fill_of o a' in L.holds_C05_life o m p rc = true.
Proof.
  intros Hd Hr i o Hn.
  destruct (dom_ok_wf _ _ Hd) as (Hp & HF & Hpr).
  destruct (match_book_realised _ _ _ _ Hp HF (new_book_pos _ Hpr) Hr) as [G A].
  pose proof (apply_fills_wf _ _ _ HF G A) as HW.
  pose proof (apply_fills_keeps _ _ _ A) as HK.
  assert (Hb : nth_error (M.amm_orders O os ++ pool) i = Some (M.amm_order i o)).
  { rewrite nth_error_app1; [apply (amm_orders_nth os O i o Hn)|].
    apply nth_error_Some. rewrite (amm_orders_nth os O i o Hn). discriminate. }
  destruct (Forall2_nth _ _ _ _ _ HK Hb) as (a' & Ha' & (K1 & K2 & K3 & K4)).
  exists a'. split; [exact Ha'|].
  pose proof (nth_error_Forall _ _ _ _ Ha' HW) as (W1 & W2 & W3 & _ & _).
  pose proof (amm_amount_le_open o) as Hle.
  unfold M.fill_of, L.holds_C05_life. unfold M.amm_order in K1, K2, K3, K4. cbn [o_amt o_offer o_dir o_paid o_open] in K1, K2, K3, K4.
  rewrite K1 in W1. rewrite K2 in W2.
  destruct (L.o_buy o) eqn:Eb.
  - cbn [orb]. lia.
  - assert (Hs : o_paid a' + o_open a' = 0 + L.ai_amt (L.user_order_amm o)).
    { apply K4. unfold L.user_order_amm. cbn [L.ai_buy]. rewrite Eb. reflexivity. }
    cbn [orb]. lia.
Qed.
