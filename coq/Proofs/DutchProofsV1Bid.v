(* C10, generation 1 (x/auction): amounts of one bid, totals over any history of bids and block ticks,
   close completeness, for vault auctions (dutch.go) and lend auctions (dutch_lend.go). *)
From Comdex Require Import Lib.Base Lib.DecArith Lib.DecFacts Model.DutchV2 Model.DutchV1
  Proofs.DutchProofsPrice Proofs.DutchProofsBid Proofs.DutchProofsClose Proofs.DutchProofsConv.
From Coq Require Import ZifyBool.

Lemma conv2_c_some d1 r1 a d2 r2 o v : conv2_c d1 r1 a d2 r2 = Some (o, v) ->
  v = conv d1 r1 a d2 r2 /\ d1 <> 0 /\ r2 <> 0.
Proof.
  unfold conv2_c, conv. destruct (Z.eqb_spec d1 0); [discriminate|]. destruct (Z.eqb_spec r2 0); [discriminate|].
  cbn [orb]. destruct (_ && _); [|discriminate]. intros [= _ <-]. auto.
Qed.

(* the message as a whole succeeds only when its core does, and with the same result *)
Lemma v1_place_bid_ok cf ao lv a s who bid wd pin pout x :
  v1_place_bid cf ao lv a s who bid wd pin pout = Ok x -> v1_place_bid_core cf ao a s who bid wd = Ok x.
Proof.
  unfold v1_place_bid. destruct (v1_place_bid_core cf ao a s who bid wd) as [[[s' [b|]] r]| |]; try (intros H; exact H).
  destruct (v_lend cf); [|intros H; exact H].
  destruct (v1_lend_unliquidate cf lv (i_target a) pin pout); intros H; [exact H|discriminate|discriminate].
Qed.

(* what the code keeps true of a live auction without any assumption on prices *)
Record v1good (a : v1auc) : Prop := {
  vg_o : 0 <= o_cur a;
  vg_i : 0 <= i_cur a <= i_target a
}.

Definition v1_bonus_of (cf : v1cfg) (slice : Z) : Z :=
  if v_lend cf then dtrunc_int (dmul (dec_of_int slice) (v_bonus cf)) else 0.

(* everything the property needs to know about the amounts of a successful bid *)
Lemma v1_bid_amounts cf ao lv a s who bid wd pin pout s' a' r :
  v1good a -> (v_lend cf = true -> 0 <= v_bonus cf) -> (v_lend cf = false -> v_bonus cf = 0) ->
  v1_place_bid cf ao lv a s who bid wd pin pout = Ok (s', a', r) ->
  let tab := i_target a - i_cur a in
  0 <= w_paid r <= tab /\ 0 <= w_slice r <= o_cur a /\
  w_recv r = w_slice r + v1_bonus_of cf (w_slice r) /\ 0 <= v1_bonus_of cf (w_slice r) /\
  v1_bonus_of cf (w_slice r) * P18 <= w_slice r * v_bonus cf /\
  (w_reached r = false -> w_slice r = bid /\ w_paid r = conv (v_dout cf) (p_out a) bid (v_din cf) (p_in a) /\ 0 < w_paid r) /\
  (w_reached r = true -> w_paid r = tab /\ w_slice r = conv (v_din cf) (p_in a) tab (v_dout cf) (p_out a)) /\
  match a' with
  | Some b => w_closed r = false /\ w_topup r = 0 /\
              o_cur b = o_cur a - w_slice r /\ i_cur b = i_cur a + w_paid r /\ i_cur b < i_target a /\ 0 < o_cur b /\
              i_target b = i_target a /\ p_out b = p_out a /\ p_in b = p_in a /\ p_top b = p_top a /\ p_end b = p_end a /\
              t_start b = t_start a /\ t_end b = t_end a
  | None => w_closed r = true /\ 0 <= w_topup r /\ i_cur a + w_paid r + w_topup r = i_target a /\
            (0 < w_topup r -> w_slice r = o_cur a)
  end.
Proof.
  intros [Go Gi] Hb Hb0 H tab. apply v1_place_bid_ok in H. unfold v1_place_bid_core in H. fold tab in H.
  destruct (Z.eqb_spec bid 0); [discriminate|]. destruct wd; [discriminate|].
  destruct (Z.gtb_spec bid (o_cur a)); [discriminate|].
  apply obind_ok in H as ([owe0 infl0] & Hc0 & H). apply opanic_ok, conv2_c_some in Hc0 as (Hc0 & _ & _).
  destruct (Z.leb_spec infl0 0); [discriminate|].
  set (reached := infl0 >? tab) in *.
  apply obind_ok in H as ([[owe infl] slice] & Hsel & H).
  assert (Hs : (reached = false /\ infl = infl0 /\ slice = bid /\ infl0 <= tab) \/
               (reached = true /\ infl = tab /\ slice = conv (v_din cf) (p_in a) tab (v_dout cf) (p_out a))).
  { unfold reached in *. destruct (Z.gtb_spec infl0 tab).
    - right. apply obind_ok in Hsel as ([o sl] & Hc1 & Hsel). apply opanic_ok, conv2_c_some in Hc1 as (Hc1 & _ & _).
      injection Hsel as _ <- <-. auto.
    - left. injection Hsel as _ <- <-. repeat split; lia. }
  clear Hsel.
  destruct (Z.ltb_spec infl 0); [discriminate|].
  apply obind_ok in H as (outLeft & _ & H). apply obind_ok in H as (outLeftDebt & _ & H).
  apply obind_ok in H as (lft & _ & H). apply obind_ok in H as (lftD & _ & H). apply obind_ok in H as (dust & _ & H).
  destruct (_ && negb reached); [discriminate|]. destruct (_ && negb (lft =? 0)); [discriminate|].
  destruct (Z.ltb_spec slice 0); [discriminate|].
  assert (Hpaid : 0 <= infl <= tab) by (destruct Hs as [(_ & -> & _ & ?)|(_ & -> & _)]; lia).
  unfold v1_bonus_of.
  destruct (v_lend cf) eqn:Hl.
  - (* lend *)
    specialize (Hb eq_refl).
    apply obind_ok in H as (L1 & _ & H). apply obind_ok in H as (L2 & _ & H).
    apply obind_ok in H as (sl64 & Hsl & H). apply opanic_ok in Hsl. unfold int64_c in Hsl.
    destruct (_ && _); [|discriminate]. injection Hsl as <-.
    apply obind_ok in H as (bon & Hbon & H). apply opanic_ok in Hbon. unfold dmul_c, chk_dec in Hbon.
    destruct (fits_dec _); [|discriminate]. injection Hbon as <-.
    destruct (Z.ltb_spec (slice + dtrunc_int (dmul (dec_of_int slice) (v_bonus cf))) 0); [discriminate|].
    destruct (Z.ltb_spec (o_cur a - slice) 0); [discriminate|].
    assert (Hbn : 0 <= dtrunc_int (dmul (dec_of_int slice) (v_bonus cf)) /\
                  dtrunc_int (dmul (dec_of_int slice) (v_bonus cf)) * P18 <= slice * v_bonus cf).
    { rewrite dmul_int_exact. pose proof (dtrunc_int_bounds (slice * v_bonus cf) ltac:(nia)) as (B0 & B1 & _). lia. }
    destruct Hbn as (Hbn0 & Hbn1).
    destruct (Z.geb_spec (i_cur a + infl) (i_target a)).
    + apply obind_ok in H as (L3 & _ & H). apply obind_ok in H as (L4 & _ & H). injection H as <- <- <-. cbn.
      repeat split; try lia; try (destruct Hs as [(Hr & ? & ? & ?)|(Hr & ? & ?)]; intros; try congruence; subst; lia).
    + destruct (Z.eqb_spec (o_cur a - slice) 0).
      * destruct (Z.ltb_spec (v_led s LEND_D) (i_target a - (i_cur a + infl))); [discriminate|].
        apply obind_ok in H as (L3 & _ & H). apply obind_ok in H as (L4 & _ & H). injection H as <- <- <-. cbn.
        repeat split; try lia; try (destruct Hs as [(Hr & ? & ? & ?)|(Hr & ? & ?)]; intros; try congruence; subst; lia).
      * apply obind_ok in H as (L3 & _ & H). injection H as <- <- <-. cbn.
        repeat split; try lia; try (destruct Hs as [(Hr & ? & ? & ?)|(Hr & ? & ?)]; intros; try congruence; subst; lia).
  - (* vault *)
    rewrite (Hb0 eq_refl).
    apply obind_ok in H as (L1 & _ & H). apply obind_ok in H as (L2 & _ & H).
    destruct (Z.ltb_spec (o_cur a - slice) 0); [discriminate|].
    destruct (Z.geb_spec (i_cur a + infl) (i_target a)).
    + apply obind_ok in H as (L3 & _ & H). apply obind_ok in H as ([L4 nf] & _ & H). injection H as <- <- <-. cbn.
      repeat split; try lia; try (destruct Hs as [(Hr & ? & ? & ?)|(Hr & ? & ?)]; intros; try congruence; subst; lia).
    + destruct (Z.eqb_spec (o_cur a - slice) 0).
      * destruct (v_netfee s) as [nf0|]; [|discriminate].
        destruct (Z.ltb_spec (i_target a - (i_cur a + infl)) 0); [discriminate|].
        destruct (negb _); [discriminate|].
        apply obind_ok in H as (L3 & _ & H). apply obind_ok in H as ([L4 nf] & _ & H). injection H as <- <- <-. cbn.
        repeat split; try lia; try (destruct Hs as [(Hr & ? & ? & ?)|(Hr & ? & ?)]; intros; try congruence; subst; lia).
      * injection H as <- <- <-. cbn.
        repeat split; try lia; try (destruct Hs as [(Hr & ? & ? & ?)|(Hr & ? & ?)]; intros; try congruence; subst; lia).
Qed.

(* ---------- block ticks leave the amounts alone ---------- *)
Lemma v1_tick_amounts cf now pin pout a :
  o_cur (v1_tick cf now pin pout a) = o_cur a /\ i_cur (v1_tick cf now pin pout a) = i_cur a /\
  i_target (v1_tick cf now pin pout a) = i_target a.
Proof.
  unfold v1_tick. destruct (v1_tick_raw cf now pin pout a) as [a'| |] eqn:E; auto.
  unfold v1_tick_raw in E. destruct pin; [|discriminate].
  destruct (v1_posted_price _ _ _ _); [|discriminate].
  destruct (now >? t_end a).
  - destruct pout; [|discriminate]. destruct (v1_initial_price _ _); [|discriminate].
    destruct (dmul_c _ _); [|discriminate]. injection E as <-. cbn. auto.
  - injection E as <-. cbn. auto.
Qed.

(* ---------- totals over any history ---------- *)
Definition V1Inv (cf : v1cfg) (coll0 target : Z) (f : v1life) : Prop :=
  0 <= g_paid f /\ 0 <= g_recv f /\ 0 <= g_bonus f /\ 0 <= g_top f /\
  g_bonus f * P18 <= g_recv f * v_bonus cf /\ (v_lend cf = false -> g_bonus f = 0) /\
  match g_a f with
  | Some a => v1good a /\ i_target a = target /\ g_paid f = i_cur a /\ g_recv f + o_cur a = coll0 /\ g_top f = 0
  | None => g_paid f + g_top f = target /\ g_recv f <= coll0
  end.

Lemma v1_step_inv cf ao lv coll0 target f o :
  (v_lend cf = true -> 0 <= v_bonus cf) -> (v_lend cf = false -> v_bonus cf = 0) ->
  V1Inv cf coll0 target f -> V1Inv cf coll0 target (v1_step cf ao lv f o).
Proof.
  intros Hb Hb0 (Hp & Hr & Hbo & Ht & Hbs & Hbv & HI). unfold v1_step.
  destruct (g_a f) as [a|] eqn:Ea; [|unfold V1Inv; rewrite Ea; auto 10].
  assert (HIf : V1Inv cf coll0 target f) by (unfold V1Inv; rewrite Ea; auto 10).
  destruct HI as (GA & Htg & Hpd & Hrc & Ht0).
  destruct o as [who amt wd bpin bpout | now pin pout].
  - destruct (v1_place_bid cf ao lv a (g_s f) who amt wd bpin bpout) as [[[s' a'] r]| |] eqn:E; try exact HIf.
    pose proof (v1_bid_amounts _ _ _ _ _ _ _ _ _ _ _ _ _ GA Hb Hb0 E) as (Hpaid & Hsl & Hrv & Hbn0 & Hbn1 & _ & _ & Hrest).
    assert (Hbv' : v_lend cf = false -> w_recv r - w_slice r = 0).
    { intros Hl. rewrite Hrv. unfold v1_bonus_of. rewrite Hl. lia. }
    unfold V1Inv; cbn. destruct GA as [Go Gi]. destruct a' as [b|].
    + destruct Hrest as (_ & Htp & Hob & Hib & Hlt & Hopos & Htb & _).
      split; [lia|]. split; [lia|]. split; [lia|]. split; [lia|]. split; [nia|]. split; [intros Hl; rewrite (Hbv Hl), (Hbv' Hl); lia|].
      split; [constructor; lia|]. lia.
    + destruct Hrest as (_ & Htp & Hsum & _).
      split; [lia|]. split; [lia|]. split; [lia|]. split; [lia|]. split; [nia|]. split; [intros Hl; rewrite (Hbv Hl), (Hbv' Hl); lia|].
      lia.
  - unfold V1Inv; cbn. pose proof (v1_tick_amounts cf now pin pout a) as (T1 & T2 & T3). destruct GA as [Go Gi].
    split; [lia|]. split; [lia|]. split; [lia|]. split; [lia|]. split; [lia|]. split; [assumption|].
    split; [constructor; lia|]. lia.
Qed.

Lemma v1_run_inv cf ao lv coll0 target ops :
  (v_lend cf = true -> 0 <= v_bonus cf) -> (v_lend cf = false -> v_bonus cf = 0) ->
  forall f, V1Inv cf coll0 target f -> V1Inv cf coll0 target (v1_run cf ao lv f ops).
Proof.
  intros Hb Hb0. induction ops as [|o ops IH]; intros f HI; [exact HI|].
  cbn. apply IH. apply v1_step_inv; assumption.
Qed.

Lemma v1_activate_good cf coll ao pen fees now pin pout a :
  0 <= coll -> 0 <= ao -> 0 <= pen -> 0 <= fees ->
  v1_activate cf coll ao pen fees now pin pout = Ok a ->
  v1good a /\ o_cur a = coll /\ i_cur a = 0 /\ ao + fees <= i_target a /\ p_out a = p_top a /\
  p_end a = v1_end_price (p_top a) (v_cusp cf) /\ t_end a = t_start a + v_dur cf.
Proof.
  intros Hc Ha Hp Hf E. unfold v1_activate in E.
  destruct pin; [|discriminate]. destruct pout; [|discriminate].
  destruct (v1_target ao pen fees) as [tg|] eqn:Et; [|discriminate].
  destruct (v1_initial_price _ _) as [top|]; [|discriminate].
  destruct (dmul_c top (v_cusp cf)) as [e|] eqn:Ee; [|discriminate]. injection E as <-. cbn.
  unfold v1_target in Et. unfold int64_c in Et. destruct (_ && _); [|discriminate].
  unfold dmul_c, chk_dec in Et, Ee. destruct (fits_dec (dmul (dec_of_int ao) pen)); [|discriminate]. injection Et as <-.
  destruct (fits_dec (dmul top (v_cusp cf))); [|discriminate]. injection Ee as <-.
  rewrite dmul_int_exact. pose proof (dtrunc_int_bounds (ao * pen) ltac:(nia)) as (B0 & _).
  split; [constructor; cbn; lia|]. repeat split; try lia; reflexivity.
Qed.

Lemma v1_totals cf lv coll ao pen fees now pin pout a0 s ops :
  (v_lend cf = true -> 0 <= v_bonus cf) -> (v_lend cf = false -> v_bonus cf = 0) ->
  0 <= coll -> 0 <= ao -> 0 <= pen -> 0 <= fees ->
  v1_activate cf coll ao pen fees now pin pout = Ok a0 ->
  let f := v1_run cf ao lv (mkV1L s (Some a0) 0 0 0 0) ops in
  0 <= g_paid f <= i_target a0 /\ 0 <= g_recv f <= coll /\
  0 <= g_bonus f /\ g_bonus f * P18 <= g_recv f * v_bonus cf /\
  match g_a f with
  | Some a => g_paid f = i_cur a /\ g_recv f + o_cur a = coll /\ 0 <= o_cur a /\ i_cur a <= i_target a /\
              i_target a = i_target a0 /\ g_top f = 0
  | None => g_paid f + g_top f = i_target a0 /\ 0 <= g_top f
  end.
Proof.
  intros Hb Hb0 Hc Ha Hp Hf Ea f.
  destruct (v1_activate_good _ _ _ _ _ _ _ _ _ Hc Ha Hp Hf Ea) as (GA & Ho & Hi & Htg & _).
  assert (HI : V1Inv cf coll (i_target a0) (mkV1L s (Some a0) 0 0 0 0)).
  { unfold V1Inv; cbn. repeat split; try lia; try apply GA. }
  pose proof (v1_run_inv cf ao lv coll (i_target a0) ops Hb Hb0 _ HI) as (Hpd & Hr & Hbo & Ht & Hbs & _ & HF). fold f in Hpd, Hr, Hbo, Ht, Hbs, HF.
  destruct (g_a f) as [a|].
  - destruct HF as ([Go Gi] & H1 & H2 & H3 & H4). repeat split; lia.
  - destruct HF as (H1 & H2). repeat split; lia.
Qed.

(* ---------- close completeness ---------- *)
(* rewrite with a guarded send whose amount is known to be >= 0 *)
Ltac gsd H k :=
  match type of H with
  | (if ?x >? 0 then oerr _ (send _ _ _ ?x) else Ok _) = Ok _ =>
      let E := fresh "E" in assert (E := gsend_delta _ _ _ _ x _ ltac:(lia) H k); rewrite E; clear E
  end.

Lemma v1_close_vault_spec ao target L nf L' nf' : 0 <= ao -> ao <= target ->
  v1_close_vault ao target L nf = Ok (L', nf') ->
  nf' = Some (match nf with Some x => x | None => 0 end + (target - ao)) /\
  forall k, L' k = L k + delta k AUC_D BRN_D ao + delta k AUC_D COL_D (target - ao).
Proof.
  intros Ha Ht H. unfold v1_close_vault in H.
  apply obind_ok in H as (L1 & H1 & H). apply obind_ok in H as (L2 & H2 & H).
  destruct (Z.ltb_spec (target - ao) 0); [lia|]. injection H as <- <-.
  split; [destruct nf; reflexivity|]. intros k.
  gsd H2 k. gsd H1 k. lia.
Qed.

(* the closing bid of a VAULT auction: every account as a sum of transfers *)
Lemma v1_close_ledger_vault cf ao lv a s who bid wd pin pout s' r :
  v_lend cf = false -> v_bonus cf = 0 -> v1good a -> 0 <= ao <= i_target a ->
  v1_place_bid cf ao lv a s who bid wd pin pout = Ok (s', None, r) ->
  v_netfee s' = Some (match v_netfee s with Some x => x | None => 0 end - w_topup r + (i_target a - ao)) /\
  (0 < w_topup r -> exists nf0, v_netfee s = Some nf0 /\ w_topup r < nf0) /\
  forall k, v_led s' k = v_led s k
      + delta k (BID_D who) AUC_D (w_paid r)
      + delta k AUC_C (BID_C who) (w_slice r)
      + delta k AUC_C OWN_C (o_cur a - w_slice r)
      + delta k COL_D AUC_D (w_topup r)
      + delta k AUC_D BRN_D ao
      + delta k AUC_D COL_D (i_target a - ao).
Proof.
  intros Hl Hb0 GA Hao H.
  assert (Hb : v_lend cf = true -> 0 <= v_bonus cf) by (rewrite Hl; discriminate).
  pose proof (v1_bid_amounts _ _ _ _ _ _ _ _ _ _ _ _ _ GA Hb (fun _ => Hb0) H) as (Hpaid & Hsl & _ & _ & _ & _ & _ & _ & Htp0 & Hsum & Hso).
  apply v1_place_bid_ok in H. unfold v1_place_bid_core in H.
  destruct (Z.eqb_spec bid 0); [discriminate|]. destruct wd; [discriminate|].
  destruct (Z.gtb_spec bid (o_cur a)); [discriminate|].
  apply obind_ok in H as ([owe0 infl0] & _ & H).
  destruct (Z.leb_spec infl0 0); [discriminate|].
  apply obind_ok in H as ([[owe infl] slice] & _ & H).
  destruct (Z.ltb_spec infl 0); [discriminate|].
  apply obind_ok in H as (outLeft & _ & H). apply obind_ok in H as (outLeftDebt & _ & H).
  apply obind_ok in H as (lft & _ & H). apply obind_ok in H as (lftD & _ & H). apply obind_ok in H as (dust & _ & H).
  destruct (_ && negb _); [discriminate|]. destruct (_ && negb (lft =? 0)); [discriminate|].
  destruct (Z.ltb_spec slice 0); [discriminate|]. rewrite Hl in H.
  apply obind_ok in H as (L1 & S1 & H). apply obind_ok in H as (L2 & S2 & H).
  destruct (Z.ltb_spec (o_cur a - slice) 0); [discriminate|].
  destruct (Z.geb_spec (i_cur a + infl) (i_target a)).
  - apply obind_ok in H as (L3 & S3 & H). apply obind_ok in H as ([L4 nf] & S4 & H). injection H as <- <-. cbn [v_led v_netfee w_paid w_recv w_slice w_topup w_closed w_reached] in *.
    destruct (v1_close_vault_spec _ _ _ _ _ _ (proj1 Hao) (proj2 Hao) S4) as (Hnf & HL4).
    split; [rewrite Hnf; f_equal; lia|]. split; [lia|]. intros k.
    rewrite HL4. gsd S3 k. gsd S2 k. gsd S1 k. rewrite delta_zero. lia.
  - destruct (Z.eqb_spec (o_cur a - slice) 0) as [Ez|Ez]; [|discriminate].
    destruct (v_netfee s) as [nf0|] eqn:Enf; [|discriminate].
    destruct (Z.ltb_spec (i_target a - (i_cur a + infl)) 0); [discriminate|].
    destruct (Z.gtb_spec (nf0 - (i_target a - (i_cur a + infl))) 0); [|discriminate]. cbn [negb] in H.
    apply obind_ok in H as (L3 & S3 & H). apply obind_ok in H as ([L4 nf] & S4 & H). injection H as <- <-. cbn [v_led v_netfee w_paid w_recv w_slice w_topup w_closed w_reached] in *.
    apply oerr_ok in S3.
    destruct (v1_close_vault_spec _ _ _ _ _ _ (proj1 Hao) (proj2 Hao) S4) as (Hnf & HL4).
    split; [rewrite Hnf; f_equal; lia|]. split; [intros _; exists nf0; split; [reflexivity|lia]|]. intros k.
    rewrite HL4, (send_delta _ _ _ _ _ S3 k). gsd S2 k. gsd S1 k. rewrite Ez, delta_zero. lia.
Qed.

(* close completeness, vault: the auction account loses exactly this auction's collateral and the debt it had
   collected; principal burned, the rest of the target to the collector (whose fee book follows), unsold
   collateral to the owner *)
Lemma v1_close_complete_vault cf ao lv a s who bid wd pin pout s' r :
  v_lend cf = false -> v_bonus cf = 0 -> v1good a -> 0 <= ao <= i_target a -> 0 <= who ->
  v1_place_bid cf ao lv a s who bid wd pin pout = Ok (s', None, r) ->
  i_cur a + w_paid r + w_topup r = i_target a /\
  v_led s' AUC_C = v_led s AUC_C - o_cur a /\
  v_led s' AUC_D = v_led s AUC_D - i_cur a /\
  v_led s' OWN_C + v_led s' (BID_C who) = v_led s OWN_C + v_led s (BID_C who) + o_cur a /\
  v_led s' BRN_D = v_led s BRN_D + ao /\
  v_led s' COL_D = v_led s COL_D + (i_target a - ao) - w_topup r /\
  v_netfee s' = Some (match v_netfee s with Some x => x | None => 0 end + (i_target a - ao) - w_topup r).
Proof.
  intros Hl Hb0 GA Hao Hwho H.
  assert (Hb : v_lend cf = true -> 0 <= v_bonus cf) by (rewrite Hl; discriminate).
  pose proof (v1_bid_amounts _ _ _ _ _ _ _ _ _ _ _ _ _ GA Hb (fun _ => Hb0) H) as (Hpaid & Hsl & _ & _ & _ & _ & _ & _ & Htp0 & Hsum & _).
  destruct (v1_close_ledger_vault _ _ _ _ _ _ _ _ _ _ _ _ Hl Hb0 GA Hao H) as (Hnf & _ & HL).
  split; [exact Hsum|].
  pose proof (HL AUC_C) as EC. pose proof (HL AUC_D) as ED. pose proof (HL OWN_C) as EO. pose proof (HL (BID_C who)) as EB.
  pose proof (HL BRN_D) as EBr. pose proof (HL COL_D) as ECo. clear HL.
  unfold delta, AUC_C, AUC_D, OWN_C, COL_D, BRN_D, BID_C, BID_D in *.
  split. { clear - EC Hwho. revert EC. eqbs. }
  split. { clear - ED Hwho Hsum. revert ED. eqbs. }
  split. { clear - EO EB Hwho. revert EO EB. eqbs. }
  split. { clear - EBr Hwho. revert EBr. eqbs. }
  split. { clear - ECo Hwho. revert ECo. eqbs. }
  rewrite Hnf. f_equal. lia.
Qed.

(* the closing bid of a LEND auction *)
Lemma v1_close_complete_lend cf ao lv a s who bid wd pin pout s' r :
  v_lend cf = true -> 0 <= v_bonus cf -> v1good a -> 0 <= who ->
  v1_place_bid cf ao lv a s who bid wd pin pout = Ok (s', None, r) ->
  i_cur a + w_paid r + w_topup r = i_target a /\
  v_led s' AUC_C = v_led s AUC_C - o_cur a - (w_recv r - w_slice r) /\
  v_led s' AUC_D = v_led s AUC_D /\
  v_led s' OWN_C + v_led s' (BID_C who) = v_led s OWN_C + v_led s (BID_C who) + o_cur a + (w_recv r - w_slice r) /\
  v_led s' POOL_D = v_led s POOL_D + w_paid r + w_topup r /\
  v_led s' LEND_D = v_led s LEND_D - w_topup r /\ (0 < w_topup r -> w_topup r <= v_led s LEND_D).
Proof.
  intros Hl Hbon GA Hwho H.
  assert (Hb0 : v_lend cf = false -> v_bonus cf = 0) by (rewrite Hl; discriminate).
  pose proof (v1_bid_amounts _ _ _ _ _ _ _ _ _ _ _ _ _ GA (fun _ => Hbon) Hb0 H) as (Hpaid & Hsl & Hrv & Hbn0 & _ & _ & _ & _ & Htp0 & Hsum & Hso).
  split; [exact Hsum|].
  apply v1_place_bid_ok in H. unfold v1_place_bid_core in H.
  destruct (Z.eqb_spec bid 0); [discriminate|]. destruct wd; [discriminate|].
  destruct (Z.gtb_spec bid (o_cur a)); [discriminate|].
  apply obind_ok in H as ([owe0 infl0] & _ & H).
  destruct (Z.leb_spec infl0 0); [discriminate|].
  apply obind_ok in H as ([[owe infl] slice] & _ & H).
  destruct (Z.ltb_spec infl 0); [discriminate|].
  apply obind_ok in H as (outLeft & _ & H). apply obind_ok in H as (outLeftDebt & _ & H).
  apply obind_ok in H as (lft & _ & H). apply obind_ok in H as (lftD & _ & H). apply obind_ok in H as (dust & _ & H).
  destruct (_ && negb _); [discriminate|]. destruct (_ && negb (lft =? 0)); [discriminate|].
  destruct (Z.ltb_spec slice 0); [discriminate|]. rewrite Hl in H.
  apply obind_ok in H as (L1 & S1 & H). apply obind_ok in H as (L2 & S2 & H). apply oerr_ok in S1, S2.
  apply obind_ok in H as (sl64 & _ & H). apply obind_ok in H as (bon & _ & H).
  set (tot := slice + dtrunc_int bon) in *.
  destruct (Z.ltb_spec tot 0); [discriminate|]. destruct (Z.ltb_spec (o_cur a - slice) 0); [discriminate|].
  assert (HL12 : forall k, L2 k = v_led s k + delta k (BID_D who) AUC_D infl + delta k AUC_D POOL_D infl).
  { intros k. rewrite (send_delta _ _ _ _ _ S2 k), (send_delta _ _ _ _ _ S1 k). lia. }
  destruct (Z.geb_spec (i_cur a + infl) (i_target a)).
  - apply obind_ok in H as (L3 & S3 & H). apply obind_ok in H as (L4 & S4 & H). apply oerr_ok in S4.
    injection H as <- <-. cbn [v_led v_netfee w_paid w_recv w_slice w_topup w_closed w_reached] in *.
    assert (HL : forall k, L4 k = v_led s k + delta k (BID_D who) AUC_D infl + delta k AUC_D POOL_D infl
                                  + delta k AUC_C OWN_C (o_cur a - slice) + delta k AUC_C (BID_C who) tot).
    { intros k. rewrite (send_delta _ _ _ _ _ S4 k). gsd S3 k. rewrite HL12. lia. }
    pose proof (HL AUC_C) as EC. pose proof (HL AUC_D) as ED. pose proof (HL OWN_C) as EO. pose proof (HL (BID_C who)) as EB.
    pose proof (HL POOL_D) as EP. pose proof (HL LEND_D) as EL. clear HL HL12.
    unfold delta, AUC_C, AUC_D, OWN_C, POOL_D, LEND_D, BID_C, BID_D in *.
    split. { clear - EC Hwho. revert EC. eqbs. }
    split. { clear - ED Hwho. revert ED. eqbs. }
    split. { clear - EO EB Hwho. revert EO EB. eqbs. }
    split. { clear - EP Hwho. revert EP. eqbs. }
    split. { clear - EL Hwho. revert EL. eqbs. }
    lia.
  - destruct (Z.eqb_spec (o_cur a - slice) 0) as [Ez|Ez]; [|apply obind_ok in H as (? & _ & H); discriminate].
    destruct (Z.ltb_spec (v_led s LEND_D) (i_target a - (i_cur a + infl))) as [|Hres]; [discriminate|].
    apply obind_ok in H as (L3 & S3 & H). apply obind_ok in H as (L4 & S4 & H). apply oerr_ok in S3, S4.
    injection H as <- <-. cbn [v_led v_netfee w_paid w_recv w_slice w_topup w_closed w_reached] in *.
    set (req := i_target a - (i_cur a + infl)) in *.
    assert (HL : forall k, L4 k = v_led s k + delta k (BID_D who) AUC_D infl + delta k AUC_D POOL_D infl
                                  + delta k LEND_D POOL_D req + delta k AUC_C (BID_C who) tot).
    { intros k. rewrite (send_delta _ _ _ _ _ S4 k), (send_delta _ _ _ _ _ S3 k), HL12. lia. }
    pose proof (HL AUC_C) as EC. pose proof (HL AUC_D) as ED. pose proof (HL OWN_C) as EO. pose proof (HL (BID_C who)) as EB.
    pose proof (HL POOL_D) as EP. pose proof (HL LEND_D) as EL. clear HL HL12.
    unfold delta, AUC_C, AUC_D, OWN_C, POOL_D, LEND_D, BID_C, BID_D in *.
    split. { clear - EC Hwho Ez. revert EC. eqbs. }
    split. { clear - ED Hwho. revert ED. eqbs. }
    split. { clear - EO EB Hwho Ez. revert EO EB. eqbs. }
    split. { clear - EP Hwho. revert EP. eqbs. }
    split. { clear - EL Hwho. revert EL. eqbs. }
    lia.
Qed.

(* ---------- each bid exchanges at the posted price ---------- *)
Lemma v1_bid_price_holds cf ao lv a s who bid wd pin pout s' a' r :
  v1good a -> (v_lend cf = true -> 0 <= v_bonus cf) -> (v_lend cf = false -> v_bonus cf = 0) ->
  0 < v_dout cf <= P18 -> 0 < v_din cf <= P18 -> v_dout cf <= p_out a -> v_din cf <= p_in a ->
  v1_place_bid cf ao lv a s who bid wd pin pout = Ok (s', a', r) ->
  holds_C10_v1_bid (v_dout cf) (v_din cf) (p_out a) (p_in a) (v_bonus cf) (o_cur a) (i_target a - i_cur a)
                   (w_paid r) (w_recv r) (w_slice r) = true.
Proof.
  intros GA Hb Hb0 Hdo Hdi Hpo Hpi H.
  pose proof (v1_bid_amounts _ _ _ _ _ _ _ _ _ _ _ _ _ GA Hb Hb0 H) as (Hpaid & Hsl & Hrv & Hbn0 & Hbn1 & Hnr & Hre & _).
  cbv zeta in *. set (tab := i_target a - i_cur a) in *.
  unfold holds_C10_v1_bid.
  assert (Hprice : (w_slice r * (p_out a * v_din cf) <? (w_paid r + 3) * (p_in a * v_dout cf)) ||
                   ((w_paid r =? tab) && ((w_slice r - 1) * (p_out a * v_din cf) <=? w_paid r * (p_in a * v_dout cf))) = true).
  { destruct (w_reached r).
    - destruct (Hre eq_refl) as (Hp & Hs).
      pose proof (conv_upper (v_din cf) (p_in a) tab (v_dout cf) (p_out a) ltac:(lia) ltac:(lia) ltac:(lia) Hdo Hpo) as U.
      rewrite <- Hs in U. rewrite Hp in *.
      assert ((w_slice r - 1) * (p_out a * v_din cf) <= tab * (p_in a * v_dout cf)) by nia.
      apply orb_true_iff. right. apply andb_true_iff. split; lia.
    - destruct (Hnr eq_refl) as (Hs & Hp & _).
      pose proof (conv_lower (v_dout cf) (p_out a) bid (v_din cf) (p_in a) ltac:(lia) ltac:(lia) ltac:(lia) Hdi Hpi) as L.
      rewrite <- Hp in L. rewrite Hs in *.
      assert (bid * (p_out a * v_din cf) < (w_paid r + 3) * (p_in a * v_dout cf)) by nia.
      apply orb_true_iff. left. lia. }
  rewrite Hprice. rewrite Hrv.
  replace (w_slice r + v1_bonus_of cf (w_slice r) - w_slice r) with (v1_bonus_of cf (w_slice r)) by lia.
  repeat (apply andb_true_iff; split); lia.
Qed.

(* ---------- what a block tick posts ---------- *)
Lemma v1_tick_price cf now pin pout a a' :
  v1_tick_raw cf now pin pout a = Ok a' ->
  (now > t_end a /\ p_out a' = p_top a' /\ p_end a' = v1_end_price (p_top a') (v_cusp cf) /\
   t_start a' = now /\ t_end a' = now + v_dur cf) \/
  (now <= t_end a /\ p_top a' = p_top a /\ p_end a' = p_end a /\ t_start a' = t_start a /\ t_end a' = t_end a /\
   v1_posted_price (p_top a) (p_end a) (v_dur cf) (now - t_start a) = Some (p_out a')).
Proof.
  unfold v1_tick_raw. destruct pin; [|discriminate].
  destruct (v1_posted_price _ _ _ _) as [p|] eqn:Ep; [|discriminate].
  destruct (Z.gtb_spec now (t_end a)).
  - destruct pout; [|discriminate]. destruct (v1_initial_price _ _); [|discriminate].
    destruct (dmul_c _ _) as [e|] eqn:Ee; [|discriminate]. intros [= <-]. left. cbn.
    unfold dmul_c, chk_dec in Ee. destruct (fits_dec _); [|discriminate]. injection Ee as <-.
    repeat split; try lia; reflexivity.
  - intros [= <-]. right. cbn. repeat split; try lia; reflexivity.
Qed.

(* ---------- custody over the whole life ---------- *)
(* a partial bid: bidder and auction account only (lend: the payment goes on to the pool) *)
Lemma v1_partial_ledger cf ao lv a s who bid wd pin pout s' b r :
  v1good a -> (v_lend cf = true -> 0 <= v_bonus cf) -> (v_lend cf = false -> v_bonus cf = 0) ->
  v1_place_bid cf ao lv a s who bid wd pin pout = Ok (s', Some b, r) ->
  v_netfee s' = v_netfee s /\
  forall k, v_led s' k = v_led s k + delta k (BID_D who) AUC_D (w_paid r) + delta k AUC_C (BID_C who) (w_recv r)
                         + (if v_lend cf then delta k AUC_D POOL_D (w_paid r) else 0).
Proof.
  intros GA Hb Hb0 H.
  pose proof (v1_bid_amounts _ _ _ _ _ _ _ _ _ _ _ _ _ GA Hb Hb0 H) as (Hpaid & Hsl & Hrv & Hbn0 & _).
  apply v1_place_bid_ok in H. unfold v1_place_bid_core in H.
  destruct (Z.eqb_spec bid 0); [discriminate|]. destruct wd; [discriminate|].
  destruct (Z.gtb_spec bid (o_cur a)); [discriminate|].
  apply obind_ok in H as ([owe0 infl0] & _ & H).
  destruct (Z.leb_spec infl0 0); [discriminate|].
  apply obind_ok in H as ([[owe infl] slice] & _ & H).
  destruct (Z.ltb_spec infl 0); [discriminate|].
  apply obind_ok in H as (outLeft & _ & H). apply obind_ok in H as (outLeftDebt & _ & H).
  apply obind_ok in H as (lft & _ & H). apply obind_ok in H as (lftD & _ & H). apply obind_ok in H as (dust & _ & H).
  destruct (_ && negb _); [discriminate|]. destruct (_ && negb (lft =? 0)); [discriminate|].
  destruct (Z.ltb_spec slice 0); [discriminate|].
  destruct (v_lend cf) eqn:Hl.
  - apply obind_ok in H as (L1 & S1 & H). apply obind_ok in H as (L2 & S2 & H). apply oerr_ok in S1, S2.
    apply obind_ok in H as (sl64 & _ & H). apply obind_ok in H as (bon & _ & H).
    destruct (Z.ltb_spec (slice + dtrunc_int bon) 0); [discriminate|]. destruct (Z.ltb_spec (o_cur a - slice) 0); [discriminate|].
    destruct (Z.geb_spec (i_cur a + infl) (i_target a)).
    { apply obind_ok in H as (? & _ & H). apply obind_ok in H as (? & _ & H). discriminate. }
    destruct (Z.eqb_spec (o_cur a - slice) 0).
    { destruct (_ <? _); [discriminate|]. apply obind_ok in H as (? & _ & H). apply obind_ok in H as (? & _ & H). discriminate. }
    apply obind_ok in H as (L3 & S3 & H). apply oerr_ok in S3. injection H as <- _ <-.
    cbn [v_led v_netfee w_paid w_recv w_slice] in *. split; [reflexivity|]. intros k.
    rewrite (send_delta _ _ _ _ _ S3 k), (send_delta _ _ _ _ _ S2 k), (send_delta _ _ _ _ _ S1 k). lia.
  - apply obind_ok in H as (L1 & S1 & H). apply obind_ok in H as (L2 & S2 & H).
    destruct (Z.ltb_spec (o_cur a - slice) 0); [discriminate|].
    destruct (Z.geb_spec (i_cur a + infl) (i_target a)).
    { apply obind_ok in H as (? & _ & H). apply obind_ok in H as ([? ?] & _ & H). discriminate. }
    destruct (Z.eqb_spec (o_cur a - slice) 0).
    { destruct (v_netfee s); [|discriminate]. destruct (_ <? 0); [discriminate|]. destruct (negb _); [discriminate|].
      apply obind_ok in H as (? & _ & H). apply obind_ok in H as ([? ?] & _ & H). discriminate. }
    injection H as <- _ <-. cbn [v_led v_netfee w_paid w_recv w_slice] in *. split; [reflexivity|]. intros k.
    gsd S2 k. gsd S1 k. lia.
Qed.

(* the auction account over the whole life of one auction: beyond the live auction's remaining collateral it
   holds what it held at the start minus the seized collateral minus the bonus paid; its debt balance beyond
   what a live vault auction has collected is unchanged *)
Definition live_o (f : v1life) : Z := match g_a f with Some a => o_cur a | None => 0 end.
Definition live_i (cf : v1cfg) (f : v1life) : Z := match g_a f with Some a => if v_lend cf then 0 else i_cur a | None => 0 end.

Definition V1Cust (cf : v1cfg) (coll0 c0 d0 : Z) (f : v1life) : Prop :=
  v_led (g_s f) AUC_C - live_o f = c0 - coll0 - g_bonus f /\
  v_led (g_s f) AUC_D - live_i cf f = d0.

Lemma v1_step_cust cf ao lv coll0 target c0 d0 f o :
  (v_lend cf = true -> 0 <= v_bonus cf) -> (v_lend cf = false -> v_bonus cf = 0) ->
  (v_lend cf = false -> 0 <= ao <= target) ->
  (match o with V1Bid who _ _ _ _ => 0 <= who | _ => True end) ->
  V1Inv cf coll0 target f -> V1Cust cf coll0 c0 d0 f -> V1Cust cf coll0 c0 d0 (v1_step cf ao lv f o).
Proof.
  intros Hb Hb0 Hao Hwho (Hp & Hr & Hbo & Ht & Hbs & Hbv & HI) (HC & HD). unfold v1_step.
  destruct (g_a f) as [a|] eqn:Ea; [|split; assumption].
  assert (HCf : V1Cust cf coll0 c0 d0 f) by (split; assumption).
  destruct HI as (GA & Htg & Hpd & Hrc & Ht0).
  unfold live_o, live_i in HC, HD. rewrite Ea in HC, HD.
  destruct o as [who amt wd bpin bpout | now pin pout].
  - destruct (v1_place_bid cf ao lv a (g_s f) who amt wd bpin bpout) as [[[s' a'] r]| |] eqn:E; try exact HCf.
    pose proof (v1_bid_amounts _ _ _ _ _ _ _ _ _ _ _ _ _ GA Hb Hb0 E) as (Hpaid & Hsl & Hrv & Hbn0 & Hbn1 & _ & _ & Hrest).
    unfold V1Cust, live_o, live_i; cbn [g_s g_a g_bonus].
    destruct a' as [b|].
    + destruct Hrest as (_ & Htp & Hob & Hib & _).
      destruct (v1_partial_ledger _ _ _ _ _ _ _ _ _ _ _ _ _ GA Hb Hb0 E) as (_ & HL).
      pose proof (HL AUC_C) as EC. pose proof (HL AUC_D) as ED. clear HL.
      unfold delta, AUC_C, AUC_D, POOL_D, BID_C, BID_D in *.
      destruct (v_lend cf).
      * split. { clear - EC HC Hwho Hob Hrv. revert EC. eqbs. } { clear - ED HD Hwho. revert ED. eqbs. }
      * split. { clear - EC HC Hwho Hob Hrv. revert EC. eqbs. } { clear - ED HD Hwho Hib. revert ED. eqbs. }
    + destruct (v_lend cf) eqn:Hl.
      * destruct (v1_close_complete_lend _ _ _ _ _ _ _ _ _ _ _ _ Hl (Hb eq_refl) GA Hwho E) as (_ & EC & ED & _).
        split; lia.
      * rewrite Htg in *.
        destruct (v1_close_complete_vault _ _ _ _ _ _ _ _ _ _ _ _ Hl (Hb0 eq_refl) GA ltac:(rewrite Htg; auto) Hwho E) as (_ & EC & ED & _).
        assert (w_recv r - w_slice r = 0) by (rewrite Hrv; unfold v1_bonus_of; rewrite Hl; lia).
        split; lia.
  - unfold V1Cust, live_o, live_i; cbn [g_s g_a g_bonus].
    pose proof (v1_tick_amounts cf now pin pout a) as (T1 & T2 & _). rewrite T1, T2. split; assumption.
Qed.

Definition v1op_ok (o : v1op) : Prop := match o with V1Bid who _ _ _ _ => 0 <= who | _ => True end.

Lemma v1_run_cust cf ao lv coll0 target c0 d0 ops :
  (v_lend cf = true -> 0 <= v_bonus cf) -> (v_lend cf = false -> v_bonus cf = 0) ->
  (v_lend cf = false -> 0 <= ao <= target) -> Forall v1op_ok ops ->
  forall f, V1Inv cf coll0 target f -> V1Cust cf coll0 c0 d0 f ->
  V1Inv cf coll0 target (v1_run cf ao lv f ops) /\ V1Cust cf coll0 c0 d0 (v1_run cf ao lv f ops).
Proof.
  intros Hb Hb0 Hao Hops. induction Hops as [|o ops Ho _ IH]; intros f HI HC; [split; assumption|].
  cbn. apply IH; [apply v1_step_inv; assumption | apply v1_step_cust with (target := target); assumption].
Qed.

Lemma v1_custody cf lv coll ao pen fees now pin pout a0 s ops :
  (v_lend cf = true -> 0 <= v_bonus cf) -> (v_lend cf = false -> v_bonus cf = 0) ->
  0 <= coll -> 0 <= ao -> 0 <= pen -> 0 <= fees -> Forall v1op_ok ops ->
  v1_activate cf coll ao pen fees now pin pout = Ok a0 ->
  let f := v1_run cf ao lv (mkV1L s (Some a0) 0 0 0 0) ops in
  v_led (g_s f) AUC_C - live_o f = (v_led s AUC_C - coll) - g_bonus f /\
  v_led (g_s f) AUC_D - live_i cf f = v_led s AUC_D.
Proof.
  intros Hb Hb0 Hc Ha Hp Hf Hops Ea f.
  destruct (v1_activate_good _ _ _ _ _ _ _ _ _ Hc Ha Hp Hf Ea) as (GA & Ho & Hi & Htg & _).
  assert (HI : V1Inv cf coll (i_target a0) (mkV1L s (Some a0) 0 0 0 0)).
  { unfold V1Inv; cbn. repeat split; try lia; try apply GA. }
  assert (HC : V1Cust cf coll (v_led s AUC_C) (v_led s AUC_D) (mkV1L s (Some a0) 0 0 0 0)).
  { unfold V1Cust, live_o, live_i; cbn. destruct (v_lend cf); lia. }
  destruct (v1_run_cust cf ao lv coll (i_target a0) _ _ ops Hb Hb0 ltac:(intros; lia) Hops _ HI HC) as (_ & (H1 & H2)).
  fold f in H1, H2. split; lia.
Qed.

(* ---------- C10-F4: the unpaid bonus stays in the auction account ---------- *)
(* the state of harness TestC10V1Lend case 5 (seed 1): lot 213393065, bonus 10 %: the liquidation module moved
   234732372 into the auction account; one bid for the whole lot fills the target with 142262225 of it *)
Definition l_cf : v1cfg := mkV1Cfg 1500000000000000000 600000000000000000 21600 0 1000000 1000000 true 100000000000000000.
Definition l_au : v1auc := mkV1A 213393065 211707829 0 1507500000000000000000000 1013000000000000000000000
                                 1507500000000000000000000 904500000000000000000000 0 21600.
Definition l_led : ledger := fun k => if k =? 0 then 234732372 else if k =? 11 then 4611686018427387904 else 0.

(* the locked borrow behind it: the whole collateral was seized (AmountIn 0), so the close has nothing to value *)
Definition l_lv : v1lv := mkV1LV 0 190000000 190000000.

Lemma lend_bonus_stranded :
  exists s' r, v1_place_bid l_cf 0 l_lv l_au (mkV1S l_led None) 0 213393065 false (Some 1013000) (Some 1005000) = Ok (s', None, r) /\
    w_paid r = 211707829 /\ w_slice r = 142262043 /\ w_recv r = 156488247 /\
    v_led s' OWN_C = 71131022 /\ v_led s' AUC_C = 7113103 /\
    kf_C10_4 true 234732372 213393065 (w_recv r - w_slice r) = true /\
    holds_C10_v1_custody (v_led s' AUC_C) (v_led s' AUC_D) = false.
Proof.
  destruct (v1_place_bid l_cf 0 l_lv l_au (mkV1S l_led None) 0 213393065 false (Some 1013000) (Some 1005000)) as [[[s' [a'|]] r]| |] eqn:E;
    vm_compute in E; try discriminate.
  exists s', r. split; [reflexivity|]. injection E as <- <-. vm_compute. repeat split; reflexivity.
Qed.

(* ---------- the bid that closes a lend auction needs the price feeds (fix 6257748) ---------- *)
(* the locked borrow after the close still has debt and collateral: UnLiquidateLockedBorrows has to value it *)
Definition v1_lv_open (lv : v1lv) (target : Z) : bool :=
  negb (lv_out (v1_lv_after_close lv target) =? 0) && negb (lv_in (v1_lv_after_close lv target) =? 0).

Lemma v1_lend_unliquidate_closed cf lv target pin pout :
  v1_lv_open lv target = false -> v1_lend_unliquidate cf lv target pin pout = Ok None.
Proof.
  unfold v1_lv_open, v1_lend_unliquidate. cbv zeta.
  destruct (lv_out (v1_lv_after_close lv target) =? 0); [reflexivity|].
  destruct (lv_in (v1_lv_after_close lv target) =? 0); [reflexivity|]. discriminate.
Qed.

Lemma v1_lend_unliquidate_needs_feeds cf lv target pin pout :
  v1_lv_open lv target = true ->
  (pin = None \/ pout = None -> v1_lend_unliquidate cf lv target pin pout = Err 17 \/
                               v1_lend_unliquidate cf lv target pin pout = Panic) /\
  (forall v, v1_lend_unliquidate cf lv target pin pout = Ok v ->
     exists td tc ratio, pin = Some td /\ pout = Some tc /\ v = Some ratio).
Proof.
  unfold v1_lv_open, v1_lend_unliquidate. cbv zeta.
  destruct (lv_out (v1_lv_after_close lv target) =? 0); [discriminate|].
  destruct (lv_in (v1_lv_after_close lv target) =? 0); [discriminate|]. intros _.
  destruct pout as [tc|]; cbn [v1_asset_value obind].
  - destruct (usd_value_c (v_dout cf) (dec_of_int tc) _) as [tin|]; cbn [opanic obind].
    + destruct pin as [td|]; cbn [v1_asset_value obind].
      * split; [intros [?|?]; discriminate|].
        destruct (usd_value_c (v_din cf) (dec_of_int td) _) as [tout|]; cbn [opanic obind]; [|discriminate].
        destruct (dquo_c tout tin) as [ratio|]; cbn [opanic obind]; [|discriminate].
        intros v [= <-]. exists td, tc, ratio. auto.
      * split; [auto|discriminate].
    + split; [auto|discriminate].
  - split; [auto|discriminate].
Qed.

(* the whole message against its core: identical for vault auctions, for every bid that leaves the auction open
   and for every failing core; the closing bid of a lend auction succeeds exactly when UnLiquidateLockedBorrows
   does, and fails with its failure *)
Lemma v1_place_bid_spec cf ao lv a s who bid wd pin pout :
  match v1_place_bid_core cf ao a s who bid wd with
  | Ok (s', None, r) =>
      if v_lend cf then
        match v1_lend_unliquidate cf lv (i_target a) pin pout with
        | Ok _ => v1_place_bid cf ao lv a s who bid wd pin pout = Ok (s', None, r)
        | Err c => v1_place_bid cf ao lv a s who bid wd pin pout = Err c
        | Panic => v1_place_bid cf ao lv a s who bid wd pin pout = Panic
        end
      else v1_place_bid cf ao lv a s who bid wd pin pout = Ok (s', None, r)
  | x => v1_place_bid cf ao lv a s who bid wd pin pout = x
  end.
Proof.
  unfold v1_place_bid. destruct (v1_place_bid_core cf ao a s who bid wd) as [[[s' [b|]] r]| |]; try reflexivity.
  destruct (v_lend cf); [|reflexivity]. destruct (v1_lend_unliquidate cf lv (i_target a) pin pout); reflexivity.
Qed.

(* fail-closed: a bid whose core would close a lend auction while the locked borrow keeps debt and collateral is
   refused when the feed of the debt or of the collateral asset is missing or inactive - and a refused bid
   leaves the auction's life exactly as it was *)
Lemma v1_lend_close_fail_closed cf ao lv a s who bid wd pin pout s' r :
  v_lend cf = true ->
  v1_place_bid_core cf ao a s who bid wd = Ok (s', None, r) ->
  v1_lv_open lv (i_target a) = true -> (pin = None \/ pout = None) ->
  v1_place_bid cf ao lv a s who bid wd pin pout = Err 17 \/ v1_place_bid cf ao lv a s who bid wd pin pout = Panic.
Proof.
  intros Hl Hc Ho Hf. pose proof (v1_place_bid_spec cf ao lv a s who bid wd pin pout) as S. rewrite Hc, Hl in S.
  destruct (v1_lend_unliquidate_needs_feeds cf lv (i_target a) pin pout Ho) as (N & _). specialize (N Hf).
  destruct N as [N|N]; rewrite N in S; auto.
Qed.

(* conversely: a lend auction is closed by a bid only with the locked borrow cleared or both feeds active *)
Lemma v1_lend_close_needs_feeds cf ao lv a s who bid wd pin pout s' r :
  v_lend cf = true ->
  v1_place_bid cf ao lv a s who bid wd pin pout = Ok (s', None, r) ->
  v1_lv_open lv (i_target a) = false \/ exists td tc, pin = Some td /\ pout = Some tc.
Proof.
  intros Hl H. pose proof (v1_place_bid_spec cf ao lv a s who bid wd pin pout) as S.
  rewrite (v1_place_bid_ok _ _ _ _ _ _ _ _ _ _ _ H), Hl in S.
  destruct (v1_lv_open lv (i_target a)) eqn:Ho; [right|left; reflexivity].
  destruct (v1_lend_unliquidate_needs_feeds cf lv (i_target a) pin pout Ho) as (_ & N).
  destruct (v1_lend_unliquidate cf lv (i_target a) pin pout) as [v| |] eqn:E; [|congruence|congruence].
  destruct (N v eq_refl) as (td & tc & _ & -> & -> & _). eauto.
Qed.

Lemma v1_step_refused cf ao lv f a who amt wd pin pout :
  g_a f = Some a ->
  (forall x, v1_place_bid cf ao lv a (g_s f) who amt wd pin pout <> Ok x) ->
  v1_step cf ao lv f (V1Bid who amt wd pin pout) = f.
Proof.
  intros Ea Hn. unfold v1_step. rewrite Ea.
  destruct (v1_place_bid cf ao lv a (g_s f) who amt wd pin pout) as [x| |]; [|reflexivity|reflexivity].
  exfalso. exact (Hn x eq_refl).
Qed.
