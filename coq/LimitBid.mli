open Base
open BinInt
open BinNums
open Datatypes
open DecArith
open FLedger
open List

val aget : ('a1 -> 'a1 -> bool) -> 'a1 -> ('a1 * 'a2) list -> 'a2 option

val aset :
  ('a1 -> 'a1 -> bool) -> 'a1 -> 'a2 -> ('a1 * 'a2) list -> ('a1 * 'a2) list

val adel : ('a1 -> 'a1 -> bool) -> 'a1 -> ('a1 * 'a2) list -> ('a1 * 'a2) list

val asum : ('a1 -> 'a2 -> bool) -> ('a2 -> coq_Z) -> ('a1 * 'a2) list -> coq_Z

type key = { k_debt : coq_Z; k_coll : coq_Z; k_prem : coq_Z; k_who : coq_Z }

val keq : key -> key -> bool

type mkt = coq_Z * coq_Z

val meq : mkt -> mkt -> bool

val market : key -> mkt

type lrec = { r_amt : coq_Z; r_denom : coq_Z }

type cfg = { assets : (coq_Z * coq_Z) list; closing_fee : coq_Z;
             withdrawal_fee : coq_Z }

type lstate = { recs : (key * lrec) list; totals : (mkt * coq_Z) list;
                led : ledger }

val coq_MOD : coq_Z

val coq_MAX_PREMIUM : coq_Z

val denom_of : cfg -> coq_Z -> coq_Z option

val tot : mkt -> lstate -> coq_Z

val dep : key -> lstate -> coq_Z

val fee_of : coq_Z -> coq_Z -> coq_Z option

type lop =
| Deposit of coq_Z * coq_Z * coq_Z * coq_Z * coq_Z * coq_Z
| Cancel of coq_Z * coq_Z * coq_Z * coq_Z
| Withdraw of coq_Z * coq_Z * coq_Z * coq_Z * coq_Z * coq_Z
| AutoFill of key * coq_Z * coq_Z * bool

val lift : lres -> coq_Z -> (ledger -> 'a1 outcome) -> 'a1 outcome

val cancel :
  cfg -> lstate -> coq_Z -> coq_Z -> coq_Z -> coq_Z -> lstate outcome

val lstep : cfg -> lstate -> lop -> lstate outcome

val lapply : cfg -> lstate -> lop -> lstate

val lrun : cfg -> lstate -> lop list -> lstate

val lempty : ledger -> lstate

val sum_market : mkt -> lstate -> coq_Z

val sum_denom : coq_Z -> lstate -> coq_Z

val kf_C11_1 : lstate -> lop -> bool

val kf_C11_2 : lstate -> lop -> bool

val holds_C11_limit_total : lstate -> mkt -> bool

val nonneg_denom : coq_Z -> lstate -> bool

val holds_C11_limit_custody : lstate -> coq_Z -> coq_Z -> bool

val holds_C11_limit_own : lstate -> lop -> coq_Z -> coq_Z -> bool
