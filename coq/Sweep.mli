open BinInt
open BinNums
open Datatypes

val wrap64 : coq_Z -> coq_Z

val slice_bounds : coq_Z -> coq_Z -> coq_Z -> coq_Z * coq_Z

val sweep_window : coq_Z -> coq_Z -> coq_Z -> coq_Z * coq_Z

val go_slice_ok : coq_Z -> coq_Z -> coq_Z -> bool

val kf_C15_2 : coq_Z -> coq_Z -> coq_Z -> coq_Z -> bool
