open BinInt
open BinNums
open Datatypes

(** val wrap64 : coq_Z -> coq_Z **)

let wrap64 z =
  Z.sub
    (Z.modulo
      (Z.add z (Zpos (Coq_xO (Coq_xO (Coq_xO (Coq_xO (Coq_xO (Coq_xO (Coq_xO
        (Coq_xO (Coq_xO (Coq_xO (Coq_xO (Coq_xO (Coq_xO (Coq_xO (Coq_xO
        (Coq_xO (Coq_xO (Coq_xO (Coq_xO (Coq_xO (Coq_xO (Coq_xO (Coq_xO
        (Coq_xO (Coq_xO (Coq_xO (Coq_xO (Coq_xO (Coq_xO (Coq_xO (Coq_xO
        (Coq_xO (Coq_xO (Coq_xO (Coq_xO (Coq_xO (Coq_xO (Coq_xO (Coq_xO
        (Coq_xO (Coq_xO (Coq_xO (Coq_xO (Coq_xO (Coq_xO (Coq_xO (Coq_xO
        (Coq_xO (Coq_xO (Coq_xO (Coq_xO (Coq_xO (Coq_xO (Coq_xO (Coq_xO
        (Coq_xO (Coq_xO (Coq_xO (Coq_xO (Coq_xO (Coq_xO (Coq_xO (Coq_xO
        Coq_xH)))))))))))))))))))))))))))))))))))))))))))))))))))))))))))))))))
      (Zpos (Coq_xO (Coq_xO (Coq_xO (Coq_xO (Coq_xO (Coq_xO (Coq_xO (Coq_xO
      (Coq_xO (Coq_xO (Coq_xO (Coq_xO (Coq_xO (Coq_xO (Coq_xO (Coq_xO (Coq_xO
      (Coq_xO (Coq_xO (Coq_xO (Coq_xO (Coq_xO (Coq_xO (Coq_xO (Coq_xO (Coq_xO
      (Coq_xO (Coq_xO (Coq_xO (Coq_xO (Coq_xO (Coq_xO (Coq_xO (Coq_xO (Coq_xO
      (Coq_xO (Coq_xO (Coq_xO (Coq_xO (Coq_xO (Coq_xO (Coq_xO (Coq_xO (Coq_xO
      (Coq_xO (Coq_xO (Coq_xO (Coq_xO (Coq_xO (Coq_xO (Coq_xO (Coq_xO (Coq_xO
      (Coq_xO (Coq_xO (Coq_xO (Coq_xO (Coq_xO (Coq_xO (Coq_xO (Coq_xO (Coq_xO
      (Coq_xO (Coq_xO
      Coq_xH))))))))))))))))))))))))))))))))))))))))))))))))))))))))))))))))))
    (Zpos (Coq_xO (Coq_xO (Coq_xO (Coq_xO (Coq_xO (Coq_xO (Coq_xO (Coq_xO
    (Coq_xO (Coq_xO (Coq_xO (Coq_xO (Coq_xO (Coq_xO (Coq_xO (Coq_xO (Coq_xO
    (Coq_xO (Coq_xO (Coq_xO (Coq_xO (Coq_xO (Coq_xO (Coq_xO (Coq_xO (Coq_xO
    (Coq_xO (Coq_xO (Coq_xO (Coq_xO (Coq_xO (Coq_xO (Coq_xO (Coq_xO (Coq_xO
    (Coq_xO (Coq_xO (Coq_xO (Coq_xO (Coq_xO (Coq_xO (Coq_xO (Coq_xO (Coq_xO
    (Coq_xO (Coq_xO (Coq_xO (Coq_xO (Coq_xO (Coq_xO (Coq_xO (Coq_xO (Coq_xO
    (Coq_xO (Coq_xO (Coq_xO (Coq_xO (Coq_xO (Coq_xO (Coq_xO (Coq_xO (Coq_xO
    (Coq_xO
    Coq_xH))))))))))))))))))))))))))))))))))))))))))))))))))))))))))))))))

(** val slice_bounds : coq_Z -> coq_Z -> coq_Z -> coq_Z * coq_Z **)

let slice_bounds len off batch =
  if (||) ((||) (Z.geb off len) (Z.ltb off Z0)) (Z.ltb batch Z0)
  then (len, len)
  else let e = wrap64 (Z.add off batch) in
       if Z.geb e len then (off, len) else (off, e)

(** val sweep_window : coq_Z -> coq_Z -> coq_Z -> coq_Z * coq_Z **)

let sweep_window len off batch =
  let (s, e) = slice_bounds len off batch in
  if Z.eqb s e then slice_bounds len Z0 batch else (s, e)

(** val go_slice_ok : coq_Z -> coq_Z -> coq_Z -> bool **)

let go_slice_ok cap a b =
  (&&) ((&&) (Z.leb Z0 a) (Z.leb a b)) (Z.leb b cap)

(** val kf_C15_2 : coq_Z -> coq_Z -> coq_Z -> coq_Z -> bool **)

let kf_C15_2 cap counter off batch =
  let (s, e) = sweep_window counter off batch in negb (go_slice_ok cap s e)
