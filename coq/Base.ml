open BinInt
open BinNums
open Datatypes

type 'a outcome =
| Ok of 'a
| Err of coq_Z
| Panic

(** val obind : 'a1 outcome -> ('a1 -> 'a2 outcome) -> 'a2 outcome **)

let obind x f =
  match x with
  | Ok a -> f a
  | Err c -> Err c
  | Panic -> Panic

(** val nth_z : 'a1 list -> nat -> 'a1 option **)

let rec nth_z l i =
  match l with
  | [] -> None
  | x :: r -> (match i with
               | O -> Some x
               | S j -> nth_z r j)

(** val set_nth : 'a1 list -> nat -> 'a1 -> 'a1 list option **)

let rec set_nth l i v =
  match l with
  | [] -> None
  | x :: r ->
    (match i with
     | O -> Some (v :: r)
     | S j ->
       (match set_nth r j v with
        | Some r' -> Some (x :: r')
        | None -> None))

(** val zlen : 'a1 list -> coq_Z **)

let zlen l =
  Z.of_nat (length l)

(** val zsum : coq_Z list -> coq_Z **)

let rec zsum = function
| [] -> Z0
| x :: r -> Z.add x (zsum r)

(** val two64 : coq_Z **)

let two64 =
  Zpos (Coq_xO (Coq_xO (Coq_xO (Coq_xO (Coq_xO (Coq_xO (Coq_xO (Coq_xO
    (Coq_xO (Coq_xO (Coq_xO (Coq_xO (Coq_xO (Coq_xO (Coq_xO (Coq_xO (Coq_xO
    (Coq_xO (Coq_xO (Coq_xO (Coq_xO (Coq_xO (Coq_xO (Coq_xO (Coq_xO (Coq_xO
    (Coq_xO (Coq_xO (Coq_xO (Coq_xO (Coq_xO (Coq_xO (Coq_xO (Coq_xO (Coq_xO
    (Coq_xO (Coq_xO (Coq_xO (Coq_xO (Coq_xO (Coq_xO (Coq_xO (Coq_xO (Coq_xO
    (Coq_xO (Coq_xO (Coq_xO (Coq_xO (Coq_xO (Coq_xO (Coq_xO (Coq_xO (Coq_xO
    (Coq_xO (Coq_xO (Coq_xO (Coq_xO (Coq_xO (Coq_xO (Coq_xO (Coq_xO (Coq_xO
    (Coq_xO (Coq_xO
    Coq_xH))))))))))))))))))))))))))))))))))))))))))))))))))))))))))))))))
