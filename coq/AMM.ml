open Base
open BinInt
open BinNums
open Datatypes
open DecArith
open List
open Nat

type dir =
| Buy
| Sell

(** val dir_eqb : dir -> dir -> bool **)

let dir_eqb a b =
  match a with
  | Buy -> (match b with
            | Buy -> true
            | Sell -> false)
  | Sell -> (match b with
             | Buy -> false
             | Sell -> true)

type order = { o_id : nat; o_dir : dir; o_price : coq_Z; o_amt : coq_Z;
               o_offer : coq_Z; o_open : coq_Z; o_paid : coq_Z;
               o_recv : coq_Z; o_batch : coq_Z; o_key : coq_Z }

type fill = { f_id : nat; f_dir : dir; f_amt : coq_Z; f_price : coq_Z }

(** val quote_floor : coq_Z -> coq_Z -> coq_Z **)

let quote_floor p a =
  dtrunc_int (dmul_int p a)

(** val quote_ceil : coq_Z -> coq_Z -> coq_Z **)

let quote_ceil p a =
  dceil_int (dmul_int p a)

(** val matchable_amount : order -> coq_Z -> coq_Z **)

let matchable_amount o p =
  let m =
    match o.o_dir with
    | Buy ->
      Z.min o.o_open
        (dtrunc_int (dquo_trunc (dec_of_int (Z.sub o.o_offer o.o_paid)) p))
    | Sell -> o.o_open
  in
  if Z.eqb (quote_floor p m) Z0 then Z0 else m

(** val fill_order : order -> coq_Z -> coq_Z -> order option **)

let fill_order o a p =
  if Z.gtb a (matchable_amount o p)
  then None
  else Some
         (match o.o_dir with
          | Buy ->
            { o_id = o.o_id; o_dir = o.o_dir; o_price = o.o_price; o_amt =
              o.o_amt; o_offer = o.o_offer; o_open = (Z.sub o.o_open a);
              o_paid = (Z.add o.o_paid (quote_ceil p a)); o_recv =
              (Z.add o.o_recv a); o_batch = o.o_batch; o_key = o.o_key }
          | Sell ->
            { o_id = o.o_id; o_dir = o.o_dir; o_price = o.o_price; o_amt =
              o.o_amt; o_offer = o.o_offer; o_open = (Z.sub o.o_open a);
              o_paid = (Z.add o.o_paid a); o_recv =
              (Z.add o.o_recv (quote_floor p a)); o_batch = o.o_batch;
              o_key = o.o_key })

(** val fill_qdiff : fill -> coq_Z **)

let fill_qdiff f =
  match f.f_dir with
  | Buy -> quote_ceil f.f_price f.f_amt
  | Sell -> Z.opp (quote_floor f.f_price f.f_amt)

(** val fills_qdiff : fill list -> coq_Z **)

let fills_qdiff fs =
  zsum (map fill_qdiff fs)

(** val apply_fill : order list -> fill -> order list option **)

let apply_fill os f =
  match nth_error os f.f_id with
  | Some o ->
    if dir_eqb f.f_dir o.o_dir
    then (match fill_order o f.f_amt f.f_price with
          | Some o' -> set_nth os f.f_id o'
          | None -> None)
    else None
  | None -> None

(** val apply_fills : order list -> fill list -> order list option **)

let rec apply_fills os = function
| [] -> Some os
| f :: r ->
  (match apply_fill os f with
   | Some os' -> apply_fills os' r
   | None -> None)

(** val sel : order list -> nat list -> order list **)

let sel os ids =
  flat_map (fun i ->
    match nth_error os i with
    | Some o -> o :: []
    | None -> []) ids

(** val total_amount : order list -> coq_Z **)

let total_amount l =
  zsum (map (fun o -> o.o_amt) l)

(** val total_matchable : order list -> coq_Z -> coq_Z **)

let total_matchable l p =
  zsum (map (fun o -> matchable_amount o p) l)

(** val fulfill_fills : order list -> coq_Z -> fill list **)

let fulfill_fills l p =
  flat_map (fun o ->
    let m = matchable_amount o p in
    if Z.gtb m Z0
    then { f_id = o.o_id; f_dir = o.o_dir; f_amt = m; f_price = p } :: []
    else []) l

(** val grp_pred : coq_Z -> coq_Z -> bool **)

let grp_pred b gb =
  if Z.eqb b Z0 then Z.eqb gb Z0 else (||) (Z.eqb gb Z0) (Z.leb b gb)

(** val grp_append :
    coq_Z -> order -> (coq_Z * order list) list -> (coq_Z * order list) list **)

let rec grp_append b o = function
| [] -> []
| p :: r ->
  let (gb, l) = p in
  if Z.eqb gb b
  then (gb, (app l (o :: []))) :: r
  else (gb, l) :: (grp_append b o r)

(** val grp_insert :
    coq_Z -> order -> (coq_Z * order list) list -> (coq_Z * order list) list **)

let rec grp_insert b o gs = match gs with
| [] -> (b, (o :: [])) :: []
| p :: r ->
  let (gb, l) = p in
  if grp_pred b gb
  then (b, (o :: [])) :: gs
  else (gb, l) :: (grp_insert b o r)

(** val grp_add :
    (coq_Z * order list) list -> order -> (coq_Z * order list) list **)

let grp_add gs o =
  let b = o.o_batch in
  if existsb (fun g -> Z.eqb (fst g) b) gs
  then grp_append b o gs
  else grp_insert b o gs

(** val group_by_batch : order list -> (coq_Z * order list) list **)

let group_by_batch l =
  fold_left grp_add l []

(** val has_priority : order -> order -> bool **)

let has_priority a b =
  (||) (Z.gtb a.o_amt b.o_amt)
    ((&&) (Z.eqb a.o_amt b.o_amt) (Z.ltb a.o_key b.o_key))

(** val sort_insert : order -> order list -> order list **)

let rec sort_insert x l = match l with
| [] -> x :: []
| y :: r -> if has_priority y x then y :: (sort_insert x r) else x :: l

(** val sort_orders : order list -> order list **)

let sort_orders l =
  fold_right sort_insert [] l

(** val dist_pass1_one : coq_Z -> coq_Z -> coq_Z -> order -> coq_Z option **)

let dist_pass1_one total amt p o =
  let m = matchable_amount o p in
  if Z.eqb m Z0
  then None
  else let proportion = dquo_trunc (dec_of_int o.o_amt) (dec_of_int total) in
       let matched = Z.min m (dtrunc_int (dmul_int proportion amt)) in
       if Z.gtb matched Z0 then Some matched else None

(** val mp_val : coq_Z option -> coq_Z **)

let mp_val = function
| Some v -> v
| None -> Z0

(** val mp_sum : coq_Z option list -> coq_Z **)

let mp_sum mp =
  zsum (map mp_val mp)

(** val dist_pass2 :
    coq_Z -> order list -> coq_Z option list -> coq_Z -> coq_Z option list **)

let rec dist_pass2 p orders mp remaining =
  match orders with
  | [] -> mp
  | o :: orders' ->
    (match mp with
     | [] -> mp
     | x :: mp' ->
       if Z.eqb remaining Z0
       then mp
       else let prev = mp_val x in
            let matched = Z.min remaining (Z.sub (matchable_amount o p) prev)
            in
            (Some
            (Z.add prev matched)) :: (dist_pass2 p orders' mp'
                                       (Z.sub remaining matched)))

(** val dist_is_matched : coq_Z -> order -> coq_Z option -> bool **)

let dist_is_matched p o x =
  let m = mp_val x in
  (&&) (negb (Z.eqb m Z0))
    ((||) (dir_eqb o.o_dir Buy) (Z.gtb (quote_floor p m) Z0))

(** val dist_split :
    coq_Z -> order list -> coq_Z option list -> order list * order list **)

let rec dist_split p orders mp =
  match orders with
  | [] -> ([], [])
  | o :: orders' ->
    (match mp with
     | [] -> ([], [])
     | x :: mp' ->
       let (ms, ns) = dist_split p orders' mp' in
       if dist_is_matched p o x then ((o :: ms), ns) else (ms, (o :: ns)))

(** val dist_fills : coq_Z -> order list -> coq_Z option list -> fill list **)

let rec dist_fills p orders mp =
  match orders with
  | [] -> []
  | o :: orders' ->
    (match mp with
     | [] -> []
     | x :: mp' ->
       (match x with
        | Some m ->
          { f_id = o.o_id; f_dir = o.o_dir; f_amt = m; f_price =
            p } :: (dist_fills p orders' mp')
        | None -> dist_fills p orders' mp'))

(** val distribute_to_orders :
    nat -> order list -> coq_Z -> coq_Z -> (fill list * bool) option **)

let rec distribute_to_orders fuel orders amt p =
  match fuel with
  | O -> None
  | S f ->
    let total = total_amount orders in
    let mp1 = map (dist_pass1_one total amt p) orders in
    let mp2 = dist_pass2 p orders mp1 (Z.sub amt (mp_sum mp1)) in
    let (ms, ns) = dist_split p orders mp2 in
    (match ns with
     | [] -> Some ((dist_fills p orders mp2), false)
     | _ :: _ ->
       (match match ms with
              | [] -> distribute_to_orders f (removelast orders) amt p
              | _ :: _ -> distribute_to_orders f ms amt p with
        | Some p0 -> let (fs, _) = p0 in Some (fs, true)
        | None -> None))

(** val fills_amt : fill list -> coq_Z **)

let fills_amt fs =
  zsum (map (fun f -> f.f_amt) fs)

type phase = { ph_fills : fill list; ph_under : bool }

(** val phase_nil : phase **)

let phase_nil =
  { ph_fills = []; ph_under = false }

(** val phase_app : phase -> phase -> phase **)

let phase_app a b =
  { ph_fills = (app a.ph_fills b.ph_fills); ph_under =
    ((||) a.ph_under b.ph_under) }

(** val dist_groups :
    (coq_Z * order list) list -> coq_Z -> coq_Z -> phase option **)

let rec dist_groups groups remaining p =
  match groups with
  | [] -> Some phase_nil
  | p0 :: rest ->
    let (_, g) = p0 in
    let openAmt = total_matchable g p in
    if Z.eqb openAmt Z0
    then dist_groups rest remaining p
    else if Z.geb remaining openAmt
         then let ph = { ph_fills = (fulfill_fills g p); ph_under = false } in
              let remaining' = Z.sub remaining openAmt in
              if Z.eqb remaining' Z0
              then Some ph
              else (match dist_groups rest remaining' p with
                    | Some ph' -> Some (phase_app ph ph')
                    | None -> None)
         else (match distribute_to_orders (S (length g)) (sort_orders g)
                       remaining p with
               | Some p1 ->
                 let (fs, retried) = p1 in
                 Some { ph_fills = fs; ph_under =
                 ((&&) retried (negb (Z.eqb (fills_amt fs) remaining))) }
               | None -> None)

(** val distribute_to_tick : order list -> coq_Z -> coq_Z -> phase option **)

let distribute_to_tick orders amt p =
  dist_groups (group_by_batch orders) amt p

type tick = { t_price : coq_Z; t_ids : nat list }

type book = { b_buys : tick list; b_sells : tick list }

(** val ticks_add : bool -> coq_Z -> nat -> tick list -> tick list **)

let rec ticks_add incr price id ts = match ts with
| [] -> { t_price = price; t_ids = (id :: []) } :: []
| t :: r ->
  if if incr then Z.geb t.t_price price else Z.leb t.t_price price
  then if Z.eqb t.t_price price
       then { t_price = t.t_price; t_ids = (app t.t_ids (id :: [])) } :: r
       else { t_price = price; t_ids = (id :: []) } :: ts
  else t :: (ticks_add incr price id r)

(** val book_add : book -> order -> book **)

let book_add b o =
  if Z.gtb (matchable_amount o o.o_price) Z0
  then (match o.o_dir with
        | Buy ->
          { b_buys = (ticks_add false o.o_price o.o_id b.b_buys); b_sells =
            b.b_sells }
        | Sell ->
          { b_buys = b.b_buys; b_sells =
            (ticks_add true o.o_price o.o_id b.b_sells) })
  else b

(** val new_book : order list -> book **)

let new_book os =
  fold_left book_add os { b_buys = []; b_sells = [] }

(** val tick_orders : order list -> tick -> order list **)

let tick_orders os t =
  sel os t.t_ids

(** val tick_amt : order list -> coq_Z -> tick -> coq_Z **)

let tick_amt os p t =
  total_matchable (tick_orders os t) p

(** val build_side : bool -> coq_Z -> tick list -> tick list **)

let rec build_side incr p = function
| [] -> []
| t :: r ->
  if if incr then Z.gtb t.t_price p else Z.ltb t.t_price p
  then []
  else t :: (build_side incr p r)

type side = coq_Z list * coq_Z

(** val mk_side : order list -> coq_Z -> tick list -> side **)

let mk_side os p ts =
  let amts = map (tick_amt os p) ts in ((rev amts), (zsum amts))

(** val is_nil : 'a1 list -> bool **)

let is_nil = function
| [] -> true
| _ :: _ -> false

(** val fma_loop : nat -> coq_Z -> side -> side -> coq_Z option option **)

let rec fma_loop fuel p b s =
  match fuel with
  | O -> None
  | S f ->
    let (l, bt) = b in
    (match l with
     | [] -> None
     | ta :: brest ->
       let m = Z.min bt (snd s) in
       let other = Z.sub bt ta in
       let dropb = Z.geb other m in
       if (&&) dropb (is_nil brest)
       then Some None
       else let b' = if dropb then (brest, (Z.sub bt ta)) else b in
            let (l0, st) = s in
            (match l0 with
             | [] -> None
             | sa :: srest ->
               let m2 = Z.min (snd b') st in
               let other2 = Z.sub st sa in
               let partial = Z.sub m2 other2 in
               let drops =
                 (||) (Z.geb other2 m2) (Z.eqb (quote_floor p partial) Z0)
               in
               if (&&) drops (is_nil srest)
               then Some None
               else let s' = if drops then (srest, (Z.sub st sa)) else s in
                    if (||) dropb drops
                    then fma_loop f p b' s'
                    else Some (Some m2)))

(** val find_matchable :
    order list -> book -> coq_Z -> coq_Z option option **)

let find_matchable os bk p =
  let bs = build_side false p bk.b_buys in
  if is_nil bs
  then Some None
  else let ss = build_side true p bk.b_sells in
       if is_nil ss
       then Some None
       else fma_loop (S (add (length bs) (length ss))) p (mk_side os p bs)
              (mk_side os p ss)

(** val distribute_to_ticks :
    order list -> coq_Z -> tick list -> coq_Z -> phase option **)

let rec distribute_to_ticks os p ts remaining =
  match ts with
  | [] -> Some phase_nil
  | t :: r ->
    let l = tick_orders os t in
    let tickAmt = total_matchable l p in
    if Z.leb tickAmt remaining
    then let ph = { ph_fills = (fulfill_fills l p); ph_under = false } in
         let remaining' = Z.sub remaining tickAmt in
         if Z.eqb remaining' Z0
         then Some ph
         else (match distribute_to_ticks os p r remaining' with
               | Some ph' -> Some (phase_app ph ph')
               | None -> None)
    else distribute_to_tick l remaining p

(** val match_at_single_price :
    order list -> book -> coq_Z -> phase option option **)

let match_at_single_price os bk p =
  match find_matchable os bk p with
  | Some o ->
    (match o with
     | Some amt ->
       (match distribute_to_ticks os p bk.b_buys amt with
        | Some pb ->
          (match distribute_to_ticks os p bk.b_sells amt with
           | Some ps -> Some (Some (phase_app pb ps))
           | None -> None)
        | None -> None)
     | None -> Some None)
  | None -> None

type pdir =
| Staying
| Increasing
| Decreasing

(** val pd_side :
    bool -> order list -> coq_Z -> tick list -> coq_Z -> coq_Z * coq_Z **)

let rec pd_side incr os lp ts acc =
  match ts with
  | [] -> (acc, Z0)
  | t :: r ->
    if if incr then Z.gtb t.t_price lp else Z.ltb t.t_price lp
    then (acc, Z0)
    else let amt = tick_amt os lp t in
         if Z.eqb t.t_price lp
         then (acc, amt)
         else pd_side incr os lp r (Z.add acc amt)

(** val price_direction : order list -> book -> coq_Z -> pdir **)

let price_direction os bk lp =
  let (buyOver, buyAt) = pd_side false os lp bk.b_buys Z0 in
  let (sellUnder, sellAt) = pd_side true os lp bk.b_sells Z0 in
  if Z.gtb buyOver (Z.add sellAt sellUnder)
  then Increasing
  else if Z.gtb sellUnder (Z.add buyAt buyOver) then Decreasing else Staying

type mresult = { r_orders : order list; r_price : coq_Z; r_matched : 
                 bool; r_fills : fill list; r_under : bool }

(** val match_loop :
    nat -> pdir -> order list -> tick list -> tick list -> coq_Z -> bool ->
    fill list -> bool -> mresult option **)

let rec match_loop fuel d os bs ss mp matched fs under =
  match fuel with
  | O -> None
  | S f ->
    (match bs with
     | [] ->
       Some { r_orders = os; r_price = mp; r_matched = matched; r_fills = fs;
         r_under = under }
     | bt :: brest ->
       (match ss with
        | [] ->
          Some { r_orders = os; r_price = mp; r_matched = matched; r_fills =
            fs; r_under = under }
        | st :: srest ->
          if Z.geb bt.t_price st.t_price
          then let p = match d with
                       | Decreasing -> bt.t_price
                       | _ -> st.t_price
               in
               let bo = tick_orders os bt in
               let so = tick_orders os st in
               let buyOpen = total_matchable bo p in
               let sellOpen = total_matchable so p in
               if negb (Z.gtb buyOpen Z0)
               then match_loop f d os brest ss mp matched fs under
               else if negb (Z.gtb sellOpen Z0)
                    then match_loop f d os bs srest mp matched fs under
                    else (match distribute_to_tick bo
                                  (if Z.leb buyOpen sellOpen
                                   then buyOpen
                                   else sellOpen) p with
                          | Some pb ->
                            (match distribute_to_tick so
                                     (if Z.leb sellOpen buyOpen
                                      then sellOpen
                                      else buyOpen) p with
                             | Some ps ->
                               let ph = phase_app pb ps in
                               (match apply_fills os ph.ph_fills with
                                | Some os' ->
                                  match_loop f d os'
                                    (if Z.leb buyOpen sellOpen
                                     then brest
                                     else bs)
                                    (if Z.leb sellOpen buyOpen
                                     then srest
                                     else ss) p true (app fs ph.ph_fills)
                                    ((||) under ph.ph_under)
                                | None -> None)
                             | None -> None)
                          | None -> None)
          else Some { r_orders = os; r_price = mp; r_matched = matched;
                 r_fills = fs; r_under = under }))

(** val run_single : order list -> book -> coq_Z -> mresult option **)

let run_single os bk p =
  match match_at_single_price os bk p with
  | Some o ->
    (match o with
     | Some ph ->
       (match apply_fills os ph.ph_fills with
        | Some os' ->
          Some { r_orders = os'; r_price = p; r_matched = true; r_fills =
            ph.ph_fills; r_under = ph.ph_under }
        | None -> None)
     | None ->
       Some { r_orders = os; r_price = p; r_matched = false; r_fills = [];
         r_under = false })
  | None -> None

(** val match_book : order list -> book -> coq_Z -> mresult option **)

let match_book os bk lp =
  if (||) (is_nil bk.b_buys) (is_nil bk.b_sells)
  then Some { r_orders = os; r_price = lp; r_matched = false; r_fills = [];
         r_under = false }
  else let d = price_direction os bk lp in
       (match run_single os bk lp with
        | Some r1 ->
          (match d with
           | Staying -> Some r1
           | _ ->
             match_loop (S (add (length bk.b_buys) (length bk.b_sells))) d
               r1.r_orders bk.b_buys bk.b_sells lp r1.r_matched r1.r_fills
               r1.r_under)
        | None -> None)

(** val run_match : order list -> coq_Z -> mresult option **)

let run_match os lp =
  match_book os (new_book os) lp

(** val run_single_price : order list -> coq_Z -> mresult option **)

let run_single_price os p =
  run_single os (new_book os) p

(** val run_distribute : order list -> coq_Z -> coq_Z -> mresult option **)

let run_distribute os amt p =
  match distribute_to_orders (S (length os)) os amt p with
  | Some p0 ->
    let (fs, retried) = p0 in
    (match apply_fills os fs with
     | Some os' ->
       Some { r_orders = os'; r_price = p; r_matched = true; r_fills = fs;
         r_under = ((&&) retried (negb (Z.eqb (fills_amt fs) amt))) }
     | None -> None)
  | None -> None

(** val run_sort : order list -> nat list **)

let run_sort os =
  map (fun o -> o.o_id) (sort_orders os)

(** val dom_order : order -> bool **)

let dom_order o =
  (&&)
    ((&&)
      ((&&)
        ((&&)
          ((&&)
            ((&&)
              ((&&) ((&&) (Z.ltb Z0 o.o_price) (Z.ltb Z0 o.o_amt))
                (Z.leb Z0 o.o_offer)) (Z.leb Z0 o.o_open))
            (Z.leb o.o_open o.o_amt)) (Z.leb Z0 o.o_paid))
        (Z.leb o.o_paid o.o_offer)) (Z.leb Z0 o.o_recv))
    (match o.o_dir with
     | Buy -> true
     | Sell -> Z.leb (Z.add o.o_paid o.o_open) o.o_offer)

(** val dom_ok : order list -> coq_Z -> bool **)

let dom_ok os p =
  (&&) (Z.ltb Z0 p) (forallb dom_order os)

(** val zsum_by : (order -> coq_Z) -> dir -> order list -> coq_Z **)

let zsum_by f d os =
  zsum (map (fun o -> if dir_eqb o.o_dir d then f o else Z0) os)

(** val base_bought : order list -> order list -> coq_Z **)

let base_bought os0 os1 =
  Z.sub (zsum_by (fun o -> o.o_recv) Buy os1)
    (zsum_by (fun o -> o.o_recv) Buy os0)

(** val base_sold : order list -> order list -> coq_Z **)

let base_sold os0 os1 =
  Z.sub (zsum_by (fun o -> o.o_paid) Sell os1)
    (zsum_by (fun o -> o.o_paid) Sell os0)

(** val quote_paid : order list -> order list -> coq_Z **)

let quote_paid os0 os1 =
  Z.sub (zsum_by (fun o -> o.o_paid) Buy os1)
    (zsum_by (fun o -> o.o_paid) Buy os0)

(** val quote_recv : order list -> order list -> coq_Z **)

let quote_recv os0 os1 =
  Z.sub (zsum_by (fun o -> o.o_recv) Sell os1)
    (zsum_by (fun o -> o.o_recv) Sell os0)

(** val holds_C05_base : order list -> order list -> bool **)

let holds_C05_base os0 os1 =
  Z.eqb (base_bought os0 os1) (base_sold os0 os1)

(** val holds_C05_dust : order list -> order list -> coq_Z -> bool **)

let holds_C05_dust os0 os1 nfills =
  let d = Z.sub (quote_paid os0 os1) (quote_recv os0 os1) in
  (&&) (Z.leb Z0 d) (Z.ltb d (Z.max (Zpos Coq_xH) nfills))

(** val order_bounded : order -> bool **)

let order_bounded o =
  (&&)
    ((&&)
      ((&&) ((&&) (Z.leb Z0 o.o_open) (Z.leb o.o_open o.o_amt))
        (Z.leb Z0 o.o_paid)) (Z.leb o.o_paid o.o_offer)) (Z.leb Z0 o.o_recv)

(** val holds_C05_bounds : order list -> bool **)

let holds_C05_bounds os1 =
  forallb order_bounded os1

(** val count_fills : fill list -> nat -> coq_Z **)

let count_fills fs id =
  zlen (filter (fun f -> PeanoNat.Nat.eqb f.f_id id) fs)

(** val order_limit_ok : order -> order -> coq_Z -> bool **)

let order_limit_ok o0 o1 n =
  match o1.o_dir with
  | Buy ->
    Z.leb (Z.mul (Z.sub o1.o_paid o0.o_paid) coq_P18)
      (Z.add (Z.mul o1.o_price (Z.sub o1.o_recv o0.o_recv)) (Z.mul n coq_P18))
  | Sell ->
    Z.leb
      (Z.sub (Z.mul o1.o_price (Z.sub o1.o_paid o0.o_paid)) (Z.mul n coq_P18))
      (Z.mul (Z.sub o1.o_recv o0.o_recv) coq_P18)

(** val holds_C05_limit : order list -> order list -> fill list -> bool **)

let rec holds_C05_limit os0 os1 fs =
  match os0 with
  | [] -> (match os1 with
           | [] -> true
           | _ :: _ -> false)
  | o0 :: r0 ->
    (match os1 with
     | [] -> false
     | o1 :: r1 ->
       (&&) (order_limit_ok o0 o1 (count_fills fs o1.o_id))
         (holds_C05_limit r0 r1 fs))

(** val order_positive : order -> bool **)

let order_positive o =
  (||) (negb (Z.ltb o.o_open o.o_amt)) (Z.ltb Z0 o.o_recv)

(** val holds_C05_positive : order list -> bool **)

let holds_C05_positive os1 =
  forallb order_positive os1

(** val holds_C05_qdiff : order list -> order list -> coq_Z -> bool **)

let holds_C05_qdiff os0 os1 qcd =
  Z.eqb qcd (Z.sub (quote_paid os0 os1) (quote_recv os0 os1))

(** val kf_of : mresult option -> bool **)

let kf_of = function
| Some x -> x.r_under
| None -> false

(** val kf_C05_1 : order list -> coq_Z -> bool **)

let kf_C05_1 os lp =
  kf_of (run_match os lp)

(** val kf_C05_1_single : order list -> coq_Z -> bool **)

let kf_C05_1_single os p =
  kf_of (run_single_price os p)

(** val kf_C05_1_dist : order list -> coq_Z -> coq_Z -> bool **)

let kf_C05_1_dist os amt p =
  kf_of (run_distribute os amt p)
