open Base
open BinInt
open BinNums
open Datatypes
open List

type twa = { vals : coq_Z list; idx : coq_Z; avg : coq_Z; active : bool;
             disc : coq_Z }

(** val calc_twa : coq_Z list -> coq_Z -> coq_Z option **)

let calc_twa vs n =
  if Z.leb n Z0
  then None
  else if Z.ltb (zlen vs) n
       then None
       else Some (Z.div (zsum (firstn (Z.to_nat n) vs)) n)

(** val wrap_idx : coq_Z -> coq_Z -> coq_Z **)

let wrap_idx i n =
  if Z.geb i n then Z0 else i

(** val update_tail : coq_Z -> coq_Z -> twa option -> twa option outcome **)

let update_tail n rate = function
| Some tw ->
  if Z.gtb rate Z0
  then if tw.active
       then (match set_nth tw.vals (Z.to_nat tw.idx) rate with
             | Some vs ->
               let i1 = Z.add tw.idx (Zpos Coq_xH) in
               (match calc_twa vs n with
                | Some a ->
                  Ok (Some { vals = vs; idx = (wrap_idx i1 n); avg = a;
                    active = true; disc = tw.disc })
                | None -> Panic)
             | None -> Panic)
       else if Z.geb (zlen tw.vals) n
            then (match set_nth tw.vals (Z.to_nat tw.idx) rate with
                  | Some vs ->
                    let i1 = Z.add tw.idx (Zpos Coq_xH) in
                    (match calc_twa vs n with
                     | Some a ->
                       Ok (Some { vals = vs; idx = (wrap_idx i1 n); avg = a;
                         active = true; disc = tw.disc })
                     | None -> Panic)
                  | None -> Panic)
            else let vs = app tw.vals (rate :: []) in
                 let i1 = Z.add tw.idx (Zpos Coq_xH) in
                 if Z.geb i1 n
                 then (match calc_twa vs n with
                       | Some a ->
                         Ok (Some { vals = vs; idx = Z0; avg = a; active =
                           true; disc = tw.disc })
                       | None -> Panic)
                 else Ok (Some { vals = vs; idx = i1; avg = tw.avg; active =
                        false; disc = tw.disc })
  else Ok (Some tw)
| None ->
  if Z.gtb rate Z0
  then if Z.geb (Zpos Coq_xH) n
       then (match calc_twa (rate :: []) n with
             | Some a ->
               Ok (Some { vals = (rate :: []); idx = Z0; avg = a; active =
                 true; disc = (Zneg Coq_xH) })
             | None -> Panic)
       else Ok (Some { vals = (rate :: []); idx = (Zpos Coq_xH); avg = Z0;
              active = false; disc = (Zneg Coq_xH) })
  else Ok None

(** val update :
    coq_Z -> coq_Z -> coq_Z -> coq_Z -> twa option -> twa option outcome **)

let update n gap height rate = function
| Some tw ->
  if (&&) (Z.leb rate Z0) (Z.ltb tw.disc Z0)
  then Ok (Some { vals = tw.vals; idx = tw.idx; avg = tw.avg; active = false;
         disc = height })
  else if (&&) (Z.gtb rate Z0) (Z.gtb tw.disc Z0)
       then if Z.ltb (Z.sub height tw.disc) gap
            then update_tail n rate (Some { vals = tw.vals; idx = tw.idx;
                   avg = tw.avg; active = tw.active; disc = (Zneg Coq_xH) })
            else update_tail n rate (Some { vals = []; idx = Z0; avg =
                   tw.avg; active = false; disc = (Zneg Coq_xH) })
       else update_tail n rate (Some tw)
| None -> update_tail n rate None

(** val discard_reset : twa -> twa **)

let discard_reset tw =
  { vals = []; idx = Z0; avg = tw.avg; active = false; disc = tw.disc }

(** val invalidate : twa -> twa **)

let invalidate tw =
  { vals = tw.vals; idx = tw.idx; avg = tw.avg; active = false; disc =
    tw.disc }

(** val get_latest : twa option -> coq_Z outcome **)

let get_latest = function
| Some tw ->
  if tw.active
  then (match nth_z tw.vals (Z.to_nat tw.idx) with
        | Some v -> Ok v
        | None -> Panic)
  else Err (Zpos Coq_xH)
| None -> Err (Zpos Coq_xH)

(** val price_in_force : twa option -> coq_Z outcome **)

let price_in_force = function
| Some tw -> if tw.active then Ok tw.avg else Err (Zpos Coq_xH)
| None -> Err (Zpos Coq_xH)

type mop =
| Sample of coq_Z * coq_Z
| DiscardReset
| Invalidate

(** val mstep : coq_Z -> coq_Z -> twa option -> mop -> twa option outcome **)

let mstep n gap t = function
| Sample (h, r) -> update n gap h r t
| DiscardReset -> Ok (option_map discard_reset t)
| Invalidate -> Ok (option_map invalidate t)

(** val mrun :
    coq_Z -> coq_Z -> twa option -> mop list -> twa option outcome **)

let rec mrun n gap t = function
| [] -> Ok t
| o :: r -> obind (mstep n gap t o) (fun t' -> mrun n gap t' r)

type mstore = (coq_Z * twa) list

(** val sget : mstore -> coq_Z -> twa option **)

let rec sget s id =
  match s with
  | [] -> None
  | p :: r -> let (k, v) = p in if Z.eqb k id then Some v else sget r id

(** val sset : mstore -> coq_Z -> twa -> mstore **)

let rec sset s id v =
  match s with
  | [] -> (id, v) :: []
  | p :: r ->
    let (k, w) = p in
    if Z.eqb k id
    then (id, v) :: r
    else if Z.ltb id k
         then (id, v) :: ((k, w) :: r)
         else (k, w) :: (sset r id v)

(** val sput : mstore -> coq_Z -> twa option -> mstore **)

let sput s id = function
| Some v -> sset s id v
| None -> s

(** val rate_loop :
    coq_Z -> coq_Z -> coq_Z -> coq_Z list -> (coq_Z * bool) list -> coq_Z ->
    mstore -> mstore outcome **)

let rec rate_loop n gap height rates assets index s =
  match assets with
  | [] -> Ok s
  | p :: rest ->
    let (id, req) = p in
    if (&&) req (negb (match rates with
                       | [] -> true
                       | _ :: _ -> false))
    then let index' = Z.add index (Zpos Coq_xH) in
         if Z.gtb (zlen rates) index'
         then (match nth_z rates (Z.to_nat index') with
               | Some rate ->
                 (match update n gap height rate (sget s id) with
                  | Ok t' ->
                    rate_loop n gap height rates rest index' (sput s id t')
                  | Err c -> Err c
                  | Panic -> Panic)
               | None -> Panic)
         else rate_loop n gap height rates rest index' s
    else rate_loop n gap height rates rest index s

type bb_env = { bb_valid : bool; bb_last : coq_Z; bb_height : coq_Z;
                bb_discard : bool; bb_rates : coq_Z list; bb_n : coq_Z;
                bb_gap : coq_Z }

(** val begin_block :
    bb_env -> (coq_Z * bool) list -> mstore -> (mstore * bool) outcome **)

let begin_block e assets s =
  if e.bb_valid
  then if (&&) (negb (Z.eqb e.bb_last Z0))
            (Z.eqb
              (Z.modulo e.bb_height (Zpos (Coq_xO (Coq_xO (Coq_xI (Coq_xO
                Coq_xH)))))) Z0)
       then let s1 =
              if e.bb_discard
              then map (fun kv -> ((fst kv), (discard_reset (snd kv)))) s
              else s
            in
            (match rate_loop e.bb_n e.bb_gap e.bb_height e.bb_rates assets
                     (Zneg Coq_xH) s1 with
             | Ok s2 -> Ok (s2, false)
             | Err c -> Err c
             | Panic -> Panic)
       else Ok (s, e.bb_discard)
  else Ok
         ((fold_left (fun acc a ->
            match sget acc (fst a) with
            | Some tw -> sset acc (fst a) (invalidate tw)
            | None -> acc) assets s), e.bb_discard)

type ghost = { g_hist : coq_Z list; g_disc : coq_Z; g_exists : bool }

(** val ghost0 : ghost **)

let ghost0 =
  { g_hist = []; g_disc = (Zneg Coq_xH); g_exists = false }

(** val ghost_step : coq_Z -> ghost -> mop -> ghost **)

let ghost_step gap g = function
| Sample (h, r) ->
  if g.g_exists
  then if (&&) (Z.leb r Z0) (Z.ltb g.g_disc Z0)
       then { g_hist = g.g_hist; g_disc = h; g_exists = true }
       else if (&&) (Z.gtb r Z0) (Z.gtb g.g_disc Z0)
            then if Z.ltb (Z.sub h g.g_disc) gap
                 then { g_hist = (r :: g.g_hist); g_disc = (Zneg Coq_xH);
                        g_exists = true }
                 else { g_hist = (r :: []); g_disc = (Zneg Coq_xH);
                        g_exists = true }
            else if Z.gtb r Z0
                 then { g_hist = (r :: g.g_hist); g_disc = g.g_disc;
                        g_exists = true }
                 else g
  else if Z.gtb r Z0
       then { g_hist = (r :: []); g_disc = (Zneg Coq_xH); g_exists = true }
       else g
| DiscardReset -> { g_hist = []; g_disc = g.g_disc; g_exists = g.g_exists }
| Invalidate -> g

(** val bb_samples :
    coq_Z -> coq_Z list -> (coq_Z * bool) list -> coq_Z -> (coq_Z * mop) list **)

let rec bb_samples height rates assets index =
  match assets with
  | [] -> []
  | p :: rest ->
    let (id, req) = p in
    if (&&) req (negb (match rates with
                       | [] -> true
                       | _ :: _ -> false))
    then let index' = Z.add index (Zpos Coq_xH) in
         if Z.gtb (zlen rates) index'
         then (match nth_z rates (Z.to_nat index') with
               | Some rate ->
                 (id, (Sample (height,
                   rate))) :: (bb_samples height rates rest index')
               | None -> [])
         else bb_samples height rates rest index'
    else bb_samples height rates rest index

(** val bb_ops :
    bb_env -> (coq_Z * bool) list -> coq_Z list -> (coq_Z * mop) list **)

let bb_ops e assets known =
  if e.bb_valid
  then if (&&) (negb (Z.eqb e.bb_last Z0))
            (Z.eqb
              (Z.modulo e.bb_height (Zpos (Coq_xO (Coq_xO (Coq_xI (Coq_xO
                Coq_xH)))))) Z0)
       then app
              (if e.bb_discard
               then map (fun id -> (id, DiscardReset)) known
               else [])
              (bb_samples e.bb_height e.bb_rates assets (Zneg Coq_xH))
       else []
  else map (fun a -> ((fst a), Invalidate)) assets

(** val holds_C17_state : coq_Z -> ghost -> bool -> twa option -> bool **)

let holds_C17_state n g last_positive = function
| Some tw ->
  (&&)
    ((&&) (Z.leb (zlen tw.vals) n)
      (if tw.active
       then (&&)
              ((&&) ((&&) (Z.geb (zlen g.g_hist) n) (Z.eqb (zlen tw.vals) n))
                (Z.ltb tw.idx n)) (Z.leb Z0 tw.idx)
       else true))
    (if (&&) tw.active last_positive
     then Z.eqb tw.avg (Z.div (zsum (firstn (Z.to_nat n) g.g_hist)) n)
     else true)
| None -> negb g.g_exists
