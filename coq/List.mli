open Datatypes

val map : ('a1 -> 'a2) -> 'a1 list -> 'a2 list

val fold_left : ('a1 -> 'a2 -> 'a1) -> 'a2 list -> 'a1 -> 'a1

val forallb : ('a1 -> bool) -> 'a1 list -> bool

val firstn : nat -> 'a1 list -> 'a1 list
