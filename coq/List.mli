open Datatypes

val rev : 'a1 list -> 'a1 list

val map : ('a1 -> 'a2) -> 'a1 list -> 'a2 list

val fold_left : ('a1 -> 'a2 -> 'a1) -> 'a2 list -> 'a1 -> 'a1

val existsb : ('a1 -> bool) -> 'a1 list -> bool

val forallb : ('a1 -> bool) -> 'a1 list -> bool

val filter : ('a1 -> bool) -> 'a1 list -> 'a1 list

val find : ('a1 -> bool) -> 'a1 list -> 'a1 option

val firstn : nat -> 'a1 list -> 'a1 list
