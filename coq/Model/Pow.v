(* C18: what is known EXACTLY about Go's math.Pow (go1.23 src/math/pow.go, pure Go on amd64:
   haveArchPow is false there).  The function starts with
       switch { case y == 0 || x == 1: return 1
                case y == 1:           return x   ... }
   so those cases are modelled exactly; everything else is the abstract [core] (the value observed
   on the implementation is what the runner passes for it).  Floats are integers in units of
   2^-1074 (Lib/F64.v).  Definitions only. *)
From Comdex Require Import Lib.Base Lib.F64.

Definition go_pow (core : Z -> Z -> Z) (x y : Z) : Z :=
  if (y =? 0) || (x =? F_ONE) then F_ONE
  else if y =? F_ONE then x
  else core x y.

(* the operand box of CalculationOfRewards: x = float(1 + rate) with rate in [0, 10], y = float
   (years) with at most 100 years *)
Definition POW_XMAX : Z := 11 * F_ONE.
Definition POW_YMAX : Z := 100 * F_ONE.

(* the hypothesis on math.Pow that remains, as an executable check on a pair of observations
   (both inside the box): monotone in each argument *)
Definition pow_mono_ok (x y f x' y' f' : Z) : bool :=
  negb ((F_ONE <=? x) && (x <=? x') && (x' <=? POW_XMAX) && (0 <=? y) && (y <=? y') && (y' <=? POW_YMAX)) || (f <=? f').

(* sub-additivity of the compound accrual over consecutive intervals, as judged on the results:
   n1 + n2 <= n12 + amtf * f12 * (en + 5) * 2^-53 + 2 ulp   (amtf, f12 floats; en from H4) *)
Definition holds_C18_cmp_subadditive (en amtf f12 n1 n2 n12 : Z) : bool :=
  (n1 + n2 - n12 - 2) * F_ONE * F_ONE * F_P53 <=? P18f * amtf * f12 * (en + 5).
