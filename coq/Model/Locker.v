(* Model of x/locker/keeper/msg_server.go (MsgCreateLocker, MsgDepositAsset, MsgWithdrawAsset,
   MsgCloseLocker, MsgLockerRewardCalc, AddWhiteListedAsset), x/rewards/keeper/rewards.go
   (CalculateLockerRewards, Whitelist), x/collector/keeper/collector.go
   (WasmSetCollectorLookupTable, WasmUpdateCollectorLookupTable + LockerIterateRewards,
   WasmSetAuctionMappingForApp) and of the collector-side effects of the vault handlers, the
   liquidation penalties and the surplus / debt auctions of both generations, statement by
   statement.  Definitions only; proofs live in Proofs/LockerProofs.v, Proofs/CollectorProofs.v.

   Environment inputs (recorded by the harness, their arithmetic is property C18's subject):
   [rw] = the Dec (scaled by 10^18) that rewards.CalculationOfRewards returns for the call the
   handler makes; rw = -1 : it returns an error (negative elapsed time); rw = -2 : it panics
   (Int64() of a balance beyond int64). *)
From Comdex Require Import Lib.Base Lib.DecArith Model.Collector.

Record locker := mkL {
  l_id : Z; l_owner : Z; l_app : Z; l_asset : Z;
  l_net : Z;          (* NetBalance *)
  l_ret : Z           (* ReturnsAccumulated *)
}.

Record lookup := mkLk {            (* LockerLookupTableData *)
  lk_dep : Z;                      (* DepositedAmount *)
  lk_ids : list Z                  (* LockerIds *)
}.

Record state := mkS {
  cs : cstate;
  lockers : list locker;           (* locker store, in id order *)
  lks : key -> option lookup;      (* LockerLookupTable (app, asset) *)
  next_id : Z;                     (* GetIDForLocker *)
  lwl : key -> bool;               (* LockerProductAssetMapping found *)
  rwl : key -> bool;               (* rewards.GetReward found (internal rewards whitelisted) *)
  trk : key -> option Z;           (* LockerRewardsTracker (locker id, app): Dec *)
  umap : Z -> key -> Z;            (* UserAppAssetLockerMapping.LockerId, 0 = none *)
  adm : key -> bool                (* AppToDenomsMapping(app).AssetIds contains asset *)
}.

Definition set_cs (s : state) (c : cstate) : state :=
  mkS c (lockers s) (lks s) (next_id s) (lwl s) (rwl s) (trk s) (umap s) (adm s).
Definition set_lockers (s : state) (l : list locker) : state :=
  mkS (cs s) l (lks s) (next_id s) (lwl s) (rwl s) (trk s) (umap s) (adm s).
Definition set_lks (s : state) (f : key -> option lookup) : state :=
  mkS (cs s) (lockers s) f (next_id s) (lwl s) (rwl s) (trk s) (umap s) (adm s).
Definition set_next (s : state) (n : Z) : state :=
  mkS (cs s) (lockers s) (lks s) n (lwl s) (rwl s) (trk s) (umap s) (adm s).
Definition set_lwl (s : state) (f : key -> bool) : state :=
  mkS (cs s) (lockers s) (lks s) (next_id s) f (rwl s) (trk s) (umap s) (adm s).
Definition set_rwl (s : state) (f : key -> bool) : state :=
  mkS (cs s) (lockers s) (lks s) (next_id s) (lwl s) f (trk s) (umap s) (adm s).
Definition set_trk (s : state) (f : key -> option Z) : state :=
  mkS (cs s) (lockers s) (lks s) (next_id s) (lwl s) (rwl s) f (umap s) (adm s).
Definition set_umap (s : state) (f : Z -> key -> Z) : state :=
  mkS (cs s) (lockers s) (lks s) (next_id s) (lwl s) (rwl s) (trk s) f (adm s).
Definition set_adm (s : state) (f : key -> bool) : state :=
  mkS (cs s) (lockers s) (lks s) (next_id s) (lwl s) (rwl s) (trk s) (umap s) f.

(* lift a collector-state transition *)
Definition lift (s : state) (r : outcome cstate) : outcome state :=
  match r with Ok c => Ok (set_cs s c) | Err e => Err e | Panic => Panic end.

Fixpoint find_locker (l : list locker) (id : Z) : option locker :=
  match l with [] => None | x :: r => if l_id x =? id then Some x else find_locker r id end.

(* SetLocker on an existing key replaces the record in place *)
Fixpoint put_locker (l : list locker) (v : locker) : list locker :=
  match l with
  | [] => [v]
  | x :: r => if l_id x =? l_id v then v :: r else x :: put_locker r v
  end.

Fixpoint del_locker (l : list locker) (id : Z) : list locker :=
  match l with [] => [] | x :: r => if l_id x =? id then r else x :: del_locker r id end.

Definition with_net (x : locker) (net ret : Z) : locker :=
  mkL (l_id x) (l_owner x) (l_app x) (l_asset x) net ret.

(* UpdateAmountLockerMapping *)
Definition upd_amount (s : state) (app asset amt : Z) (add : bool) : state :=
  match lks s (app, asset) with
  | Some lk => set_lks s (kupd (lks s) (app, asset)
                 (Some (mkLk (if add then lk_dep lk + amt else lk_dep lk - amt) (lk_ids lk))))
  | None => s
  end.

(* sort.Search(n, f): the binary search of the Go standard library, as coded *)
Fixpoint search_loop (fuel : nat) (f : Z -> bool) (i j : Z) : Z :=
  match fuel with
  | O => i
  | S n => if i <? j then
             let h := (i + j) / 2 in
             if negb (f h) then search_loop n f (h + 1) j else search_loop n f i h
           else i
  end.
Definition sort_search (n : Z) (f : Z -> bool) : Z := search_loop (S (Z.to_nat n)) f 0 n.

Fixpoint remove_nth (l : list Z) (i : nat) : list Z :=
  match l, i with
  | [], _ => []
  | _ :: r, O => r
  | x :: r, S j => x :: remove_nth r j
  end.

Definition nth_default_z (l : list Z) (i : Z) : Z := nth (Z.to_nat i) l 0.

(* ---- rewards.CalculateLockerRewards(app, assetID, lockerID, …) ---- *)
(* what is credited once the tracker reaches 1: TruncateInt of the tracker *)
Definition tracker_after (s : state) (lid app rw : Z) : Z :=
  match trk s (lid, app) with None => rw | Some t => t + rw end.

Definition calc_rewards (s : state) (app asset lid rw : Z) : outcome state :=
  if negb (rwl s (app, asset)) then Ok s
  else
    let lockers0 := lks s (app, asset) in                   (* read before, written back later *)
    match clk (cs s) (app, asset) with
    | None => Err 10
    | Some cl =>
        if cl_lsr cl =? 0 then Ok s
        else if rw =? -2 then Panic
        else if rw <? 0 then Err 11
        else match find_locker (lockers s) lid with
             | None => Panic                                 (* zero-value locker: unreachable from the handlers *)
             | Some ld =>
                 let t := tracker_after s lid app rw in
                 if t >=? P18 then
                   let r := dtrunc_int t in
                   let s1 := set_trk s (kupd (trk s) (lid, app) (Some (t - dec_of_int r))) in
                   obind (lift s1 (decrease_net_fee (cs s1) app (l_asset ld) r)) (fun s2 =>
                   obind (if r >? 0 then lift s2 (csend (cs s2) A_COLLECTOR A_LOCKER asset r) else Ok s2) (fun s3 =>
                   let s4 := set_lockers s3 (put_locker (lockers s3) (with_net ld (l_net ld + r) (l_ret ld + r))) in
                   match lockers0 with
                   | None => Panic                           (* nil DepositedAmount.Add *)
                   | Some lk => Ok (set_lks s4 (kupd (lks s4) (app, asset) (Some (mkLk (lk_dep lk + r) (lk_ids lk)))))
                   end))
                 else Ok (set_trk s (kupd (trk s) (lid, app) (Some t)))
             end
    end.

(* the integer the call credits to the locker (0 when nothing is paid) *)
Definition credited (s : state) (app asset lid rw : Z) : Z :=
  if negb (rwl s (app, asset)) then 0
  else match clk (cs s) (app, asset) with
       | None => 0
       | Some cl => if (cl_lsr cl =? 0) || (rw <? 0) then 0
                    else let t := tracker_after s lid app rw in
                         if t >=? P18 then dtrunc_int t else 0
       end.

(* ---- message handlers (ValidateBasic first, as baseapp runs it) ---- *)
Definition msg_create (s : state) (u app asset amt : Z) : outcome state :=
  if amt <=? 0 then Err 20
  else if esm_on (cs s) app then Err 21
  else if brk_on (cs s) app then Err 22
  else if negb (has_asset (cs s) asset) then Err 23
  else if negb (has_app (cs s) app) then Err 24
  else if negb (umap s u (app, asset) =? 0) then Err 25
  else match clk (cs s) (app, asset) with
  | None => Err 26
  | Some _ =>
  if negb (lwl s (app, asset)) then Err 27
  else match lks s (app, asset) with
  | None => Err 24
  | Some lk =>
      obind (if amt >? 0 then lift s (csend (cs s) (user u) A_LOCKER asset amt) else Ok s) (fun s1 =>
      let id := next_id s1 + 1 in
      let s2 := set_next (set_lockers s1 (put_locker (lockers s1) (mkL id u app asset amt 0))) id in
      let s3 := set_umap s2 (fun o k => if (o =? u) && keq k (app, asset) then id else umap s2 o k) in
      Ok (set_lks s3 (kupd (lks s3) (app, asset) (Some (mkLk (lk_dep lk + amt) (lk_ids lk ++ [id]))))))
  end end.

(* the checks shared by Deposit / Withdraw / Close after GetAsset / GetApp *)
Definition locker_checks (s : state) (u app asset lid : Z) : outcome locker :=
  if negb (has_asset (cs s) asset) then Err 23
  else if negb (has_app (cs s) app) then Err 24
  else match find_locker (lockers s) lid with
  | None => Err 28
  | Some ld =>
      if negb (l_asset ld =? asset) then Err 29
      else if negb (u =? l_owner ld) then Err 30
      else if negb (app =? l_app ld) then Err 24
      else match lks s (app, asset) with
           | None => Err 24
           | Some _ => Ok ld
           end
  end.

Definition reread (s : state) (lid : Z) (dflt : locker) : locker :=
  match find_locker (lockers s) lid with Some x => x | None => dflt end.

Definition msg_deposit (s : state) (u app asset lid amt rw : Z) : outcome state :=
  if (lid <=? 0) || (amt <=? 0) then Err 20
  else if esm_on (cs s) app then Err 21
  else if brk_on (cs s) app then Err 22
  else obind (locker_checks s u app asset lid) (fun ld0 =>
       obind (calc_rewards s app asset lid rw) (fun s1 =>
       let ld := reread s1 lid ld0 in
       obind (if amt >? 0 then lift s1 (csend (cs s1) (user u) A_LOCKER asset amt) else Ok s1) (fun s2 =>
       let s3 := set_lockers s2 (put_locker (lockers s2) (with_net ld (l_net ld + amt) (l_ret ld))) in
       Ok (upd_amount s3 app asset amt true)))).

Definition msg_withdraw (s : state) (u app asset lid amt rw : Z) : outcome state :=
  if (lid <=? 0) || (amt <=? 0) then Err 20
  else obind (locker_checks s u app asset lid) (fun ld0 =>
       if l_net ld0 <? amt then Err 31
       else
       obind (calc_rewards s app asset lid rw) (fun s1 =>
       let ld := reread s1 lid ld0 in
       let net' := l_net ld - amt in
       obind (if amt >? 0 then lift s1 (csend (cs s1) A_LOCKER (user u) asset amt) else Ok s1) (fun s2 =>
       let s3 := set_lockers s2 (put_locker (lockers s2) (with_net ld net' (l_ret ld))) in
       Ok (upd_amount s3 app asset amt false)))).

Definition msg_close (s : state) (u app asset lid rw : Z) : outcome state :=
  if lid <=? 0 then Err 20
  else obind (locker_checks s u app asset lid) (fun ld0 =>
       obind (calc_rewards s app asset lid rw) (fun s1 =>
       let ld := reread s1 lid ld0 in
       obind (if l_net ld >? 0 then lift s1 (csend (cs s1) A_LOCKER (user u) asset (l_net ld)) else Ok s1) (fun s2 =>
       let s3 := upd_amount s2 app asset (l_net ld) false in
       let s4 := set_umap s3 (fun o k => if (o =? u) && keq k (app, asset) then 0 else umap s3 o k) in
       let s5 :=
         match lks s4 (app, asset) with
         | None => s4
         | Some lk =>
             let n := zlen (lk_ids lk) in
             let i := sort_search n (fun j => nth_default_z (lk_ids lk) j >=? l_id ld) in
             if (i <? n) && (nth_default_z (lk_ids lk) i =? l_id ld)
             then set_lks s4 (kupd (lks s4) (app, asset) (Some (mkLk (lk_dep lk) (remove_nth (lk_ids lk) (Z.to_nat i)))))
             else s4
         end in
       let s6 := set_lockers s5 (del_locker (lockers s5) (l_id ld)) in
       Ok (set_trk s6 (kupd (trk s6) (l_id ld, app) None))))).

Definition msg_reward_calc (s : state) (app lid rw : Z) : outcome state :=
  if lid <=? 0 then Err 20
  else if negb (has_app (cs s) app) then Err 24
  else match find_locker (lockers s) lid with
       | None => Err 28
       | Some ld => if negb (l_app ld =? app) then Err 32
                    else calc_rewards s app (l_asset ld) lid rw
       end.

(* ---- collector.LockerIterateRewards: one locker id of the lookup's list ---- *)
Inductive iter_res := IterGo (s : state) | IterStop (s : state) | IterPanic.

Definition iter_one (s : state) (app asset lid rw : Z) : iter_res :=
  match find_locker (lockers s) lid with
  | None => IterPanic                                         (* nil NetBalance.Int64() *)
  | Some ld =>
      if rw =? -2 then IterPanic
      else if rw <? 0 then IterStop s                         (* CalculationOfRewards error: return *)
      else
        let t := tracker_after s lid app rw in
        if t >=? P18 then
          let r := dtrunc_int t in
          let s1 := set_trk s (kupd (trk s) (lid, app) (Some (t - dec_of_int r))) in
          match decrease_net_fee (cs s1) app (l_asset ld) r with
          | Ok c2 =>
              let s2 := set_cs s1 c2 in
              match (if r >? 0 then csend (cs s2) A_COLLECTOR A_LOCKER asset r else Ok (cs s2)) with
              | Ok c3 =>
                  let s3 := set_cs s2 c3 in
                  let s4 := set_lockers s3 (put_locker (lockers s3) (with_net ld (l_net ld + r) (l_ret ld + r))) in
                  (* lockers.DepositedAmount is accumulated in the local copy and written each time;
                     nothing else writes the lookup inside the loop, so this equals read-modify-write *)
                  IterGo (upd_amount s4 app asset r true)
              | Err _ => IterGo s2                            (* continue *)
              | Panic => IterPanic
              end
          | Err _ => IterGo s1                                (* continue *)
          | Panic => IterPanic
          end
        else IterGo (set_trk s (kupd (trk s) (lid, app) (Some t)))
  end.

Fixpoint iter_rewards (s : state) (app asset : Z) (ids rws : list Z) : outcome state :=
  match ids with
  | [] => Ok s
  | lid :: ids' =>
      match rws with
      | [] => Ok s                                            (* harness supplies one rw per id *)
      | rw :: rws' =>
          match iter_one s app asset lid rw with
          | IterGo s' => iter_rewards s' app asset ids' rws'
          | IterStop s' => Ok s'
          | IterPanic => Panic
          end
      end
  end.

(* WasmUpdateCollectorLookupTable.  The Go test `Collector.LockerSavingRate != binding.LSR`
   compares two sdk.Dec structs, i.e. their *big.Int pointers: it is always true. *)
Definition update_lookup (s : state) (app asset lsr sthr dthr lot dlot : Z) (rws : list Z) : outcome state :=
  match clk (cs s) (app, asset) with
  | None =>   (* zero-value record: GetReward(0,0) not found; a fresh record with AppId = CollectorAssetId
                 = SecondaryAssetId = 0 is stored under the key (app, asset) *)
      Ok (set_cs s (set_clk (cs s) (kupd (clk (cs s)) (app, asset) (Some (mkCL lsr sthr dthr lot dlot 0 0 0)))))
  | Some cl =>
      let ids := match lks s (app, asset) with Some lk => lk_ids lk | None => [] end in
      obind (if rwl s (cl_app cl, cl_asset cl) then
               if lsr =? 0 then iter_rewards s app asset ids rws
               else if cl_lsr cl =? 0 then Ok s
               else if (cl_lsr cl >? 0) && (lsr >? 0) then iter_rewards s app asset ids rws
               else Ok s
             else Ok s) (fun s1 =>
      Ok (set_cs s1 (set_clk (cs s1) (kupd (clk (cs s1)) (app, asset)
                                           (Some (mkCL lsr sthr dthr lot dlot (cl_secondary cl) (cl_app cl) (cl_asset cl)))))))
  end.

(* WasmSetCollectorLookupTable: the duplicate check reads the AppToDenoms list, which only this
   function extends (a record first written by WasmUpdateCollectorLookupTable is not in it). *)
Definition add_lookup (s : state) (app asset secondary lsr sthr dthr lot dlot : Z) : outcome state :=
  if negb (has_asset (cs s) asset) then Err 4
  else if negb (has_asset (cs s) secondary) then Err 4
  else if asset =? secondary then Err 12
  else if adm s (app, asset) then Err 13
  else let s1 := set_adm s (kupd (adm s) (app, asset) true) in
       Ok (set_cs s1 (set_clk (cs s1) (kupd (clk (cs s1)) (app, asset)
                                            (Some (mkCL lsr sthr dthr lot dlot secondary app asset))))).

(* locker AddWhiteListedAsset *)
Definition whitelist_locker (s : state) (app asset : Z) : outcome state :=
  if esm_on (cs s) app then Err 21
  else if brk_on (cs s) app then Err 22
  else if negb (has_app (cs s) app) then Err 24
  else if negb (has_asset (cs s) asset) then Err 23
  else if lwl s (app, asset) then Err 14
  else Ok (set_lks (set_lwl s (kupd (lwl s) (app, asset) true))
                   (kupd (lks s) (app, asset) (Some (mkLk 0 [])))).

(* rewards Whitelist (internal rewards) *)
Definition whitelist_reward (s : state) (app asset : Z) : outcome state :=
  if brk_on (cs s) app then Err 22
  else if esm_on (cs s) app then Err 21
  else if negb (lwl s (app, asset)) then Err 15
  else Ok (set_rwl s (kupd (rwl s) (app, asset) true)).

(* WasmSetAuctionMappingForApp *)
Definition set_flags (s : state) (app asset : Z) (surplus debt distributor : bool) : outcome state :=
  if surplus && distributor then Err 9
  else if surplus && debt then Err 9
  else
    let act := match amp (cs s) (app, asset) with Some f => af_active f | None => false end in
    Ok (set_cs s (set_amp (cs s) (kupd (amp (cs s)) (app, asset) (Some (mkAF surplus debt distributor act))))).

(* ---- collector inflows / outflows driven by other modules ---- *)
(* a vault handler pays [amt] of the debt asset into the collector and calls UpdateCollector
   (draw-down fee, interest, closing fee); amt is what the handler computed (env) *)
Definition fee_in (s : state) (app asset amt : Z) (uncond : bool) : outcome state :=
  if (amt =? 0) && negb uncond then Ok s       (* `if collectorShare.GT(0)`; MsgClose calls UpdateCollector unconditionally *)
  else
  obind (lift s (csend (cs s) A_EXT A_COLLECTOR asset amt)) (fun s1 =>
  lift s1 (update_collector (cs s1) app asset 0 0 amt 0)).

(* generation-1 dutch close: the penalty arrives in the inflow (= debt) denom and is booked under
   AssetInId, the debt asset *)
Definition v1_penalty (s : state) (app asset amt : Z) : outcome state :=
  obind (if amt >? 0 then lift s (csend (cs s) A_EXT A_COLLECTOR asset amt) else Ok s) (fun s1 =>
  lift s1 (set_net_fee (cs s1) app asset amt)).

(* generation-2 dutch close (bid.go) / TriggerEsm: coins in the DEBT denom, booked under
   DebtAssetId (since the fix of C13-F1; before, under CollateralAssetId) *)
Definition v2_penalty (s : state) (app coll_asset debt_asset amt : Z) : outcome state :=
  obind (if amt >? 0 then lift s (csend (cs s) A_EXT A_COLLECTOR debt_asset amt) else Ok s) (fun s1 =>
  lift s1 (set_net_fee (cs s1) app debt_asset amt)).

Definition flags_of (s : state) (app asset : Z) : aflags :=
  match amp (cs s) (app, asset) with Some f => f | None => mkAF false false false false end.

(* generation-1 SurplusActivator, first half (CreateSurplusAuction) *)
Definition v1_surplus_start (s : state) (app asset : Z) : outcome state :=
  let f := flags_of s app asset in
  if af_surplus f && negb (af_active f) && negb (brk_on (cs s) app) && negb (esm_on (cs s) app) then
    match clk (cs s) (app, asset) with
    | None => Ok s
    | Some cl =>
        match nf (cs s) (app, asset) with
        | None => Ok s
        | Some x =>
            if x >=? cl_surplus_thr cl + cl_lot cl then
              if negb (has_asset (cs s) (cl_asset cl) && has_asset (cs s) (cl_secondary cl)) then Ok s
              else
                obind (lift s (get_amount_from_collector (cs s) app asset (cl_lot cl))) (fun s1 =>
                lift s1 (set_auction_mapping (cs s1) app asset (with_active (flags_of s1 app asset) true)))
            else Ok s
        end
    end
  else Ok s.

(* generation-1 closeSurplusAuction; [bidder]: there is a highest bidder; lot = SellToken *)
Definition v1_surplus_close (s : state) (app asset lot : Z) (bidder esm : bool) : outcome state :=
  obind (if bidder && negb esm then Ok s        (* lot auction module -> bidder, bid burnt: all outside *)
         else obind (lift s (csend (cs s) A_EXT A_COLLECTOR asset lot)) (fun s1 =>
              lift s1 (set_net_fee (cs s1) app asset lot))) (fun s2 =>
  lift s2 (set_auction_mapping (cs s2) app asset (with_active (flags_of s2 app asset) false))).

(* generation-1 DebtActivator, first half *)
Definition v1_debt_start (s : state) (app asset : Z) : outcome state :=
  let f := flags_of s app asset in
  if af_debt f && negb (af_active f) && negb (brk_on (cs s) app) && negb (esm_on (cs s) app) then
    match clk (cs s) (app, asset) with
    | None => Ok s
    | Some cl =>
        match nf (cs s) (app, asset) with
        | None => Ok s
        | Some x =>
            if x <=? cl_debt_thr cl - cl_lot cl then
              if negb (has_asset (cs s) (cl_asset cl) && has_asset (cs s) (cl_secondary cl)) then Ok s
              else lift s (set_auction_mapping (cs s) app asset (with_active f true))
            else Ok s
        end
    end
  else Ok s.

(* generation-1 closeDebtAuction; amt = ExpectedUserToken paid in by the winning bidder *)
Definition v1_debt_close (s : state) (app asset amt : Z) (bids esm : bool) : outcome state :=
  obind (if esm then Ok s
         else if bids then
              obind (lift s (csend (cs s) A_EXT A_COLLECTOR asset amt)) (fun s1 =>
              lift s1 (set_net_fee (cs s1) app asset amt))
         else Ok s) (fun s2 =>
  lift s2 (set_auction_mapping (cs s2) app asset (with_active (flags_of s2 app asset) false))).

(* generation-2 liquidationsV2 CheckStatsForSurplusAndDebt (called for mappings that are not
   active and whose app's breaker is off) *)
Definition v2_check_stats (s : state) (app asset : Z) : outcome state :=
  let f := flags_of s app asset in
  if af_active f || brk_on (cs s) app then Ok s
  else
  match clk (cs s) (app, asset) with
  | None => Ok s
  | Some cl =>
      match nf (cs s) (app, asset) with
      | None => Ok s
      | Some x =>
          obind (if (x <=? cl_debt_thr cl - cl_lot cl) && af_debt f
                 then (* DebtTokenAmount returns sdk.Coin{} pairs when CollectorAssetId / SecondaryAssetId name
                         no asset; CreateLockedVault then panics in sdk.NewCoin("", ...) *)
                      if negb (has_asset (cs s) (cl_asset cl) && has_asset (cs s) (cl_secondary cl)) then Panic
                      else lift s (set_auction_mapping (cs s) app asset (with_active f true))
                 else Ok s) (fun s1 =>
          if (x >=? cl_surplus_thr cl + cl_lot cl) && af_surplus f then
            (* SurplusTokenAmount returns sdk.Coin{} when CollectorAssetId / SecondaryAssetId name no asset
               (both are 0 in a record first written by WasmUpdateCollectorLookupTable):
               GetAmountFromCollector then calls IsNegative on a nil Int *)
            if negb (has_asset (cs s1) (cl_asset cl) && has_asset (cs s1) (cl_secondary cl)) then Panic
            else
            obind (lift s1 (get_amount_from_collector (cs s1) app asset (cl_lot cl))) (fun s2 =>
            lift s2 (set_auction_mapping (cs s2) app asset (with_active f true)))
          else Ok s1)
      end
  end.

(* generation-2 CloseEnglishAuction, surplus initiator (since the fix of C13-F2): the lot is paid to the
   bidder out of the generation-1 auction module account, where GetAmountFromCollector put it when the
   auction was started, the bid is burnt - all outside the collector, whose coins and books do not move
   (before the fix the lot was taken from the collector a SECOND time and the net fees re-credited) *)
Definition v2_surplus_close (s : state) (app asset lot : Z) : outcome state :=
  match amp (cs s) (app, asset) with
  | None => Err 16
  | Some f => lift s (set_auction_mapping (cs s) app asset (with_active f false))
  end.

(* generation-2 CloseEnglishAuction, debt initiator: DebtToken (denom / amount as on the auction
   record) goes to the collector, net fees of CollateralAssetId grow by DebtToken.Amount (since the
   fix of C13-F3; before, by CollateralToken.Amount, the amount of the MINTED secondary asset).
   [coll_amt] = CollateralToken.Amount is what tokenmint mints for the bidder: outside the books *)
Definition v2_debt_close (s : state) (app asset coll_amt debt_denom debt_amt : Z) : outcome state :=
  obind (lift s (csend (cs s) A_EXT A_COLLECTOR debt_denom debt_amt)) (fun s1 =>
  obind (lift s1 (set_net_fee (cs s1) app asset debt_amt)) (fun s2 =>
  match amp (cs s2) (app, asset) with
  | None => Err 16
  | Some f => lift s2 (set_auction_mapping (cs s2) app asset (with_active f false))
  end)).

(* auctionsV2 TriggerEsm (AuctionIterator, app under ESM, dutch auction of a vault past its end
   time): [collected] = TargetDebt - DebtToken (what the bidders paid so far, held by the auction
   module), [fee] = LockedVault.FeeToBeCollected.  The penalty share min(collected, fee) goes to the
   collector in the debt denom and is booked under DebtAssetId; the rest is burnt (outside). *)
Definition v2_trigger_esm (s : state) (app debt_asset collected fee : Z) : outcome state :=
  if collected <? 0 then Panic                              (* sdk.Coin.Sub: negative result *)
  else
    let xfer := if collected >? fee then fee else collected in
    if xfer <? 0 then Panic                                 (* sdk.NewCoin(denom, FeeToBeCollected < 0) *)
    else
    obind (if xfer >? 0 then lift s (csend (cs s) A_EXT A_COLLECTOR debt_asset xfer) else Ok s) (fun s1 =>
    lift s1 (set_net_fee (cs s1) app debt_asset xfer)).

(* esm SetUpDebtRedemptionForCollector(app): for every net-fee record of the app, in store order.
   [l] = (asset id, class) per record as the harness reads them before the call: class 0 = the
   AssetToAmount record says collateral (skipped); 1 = debt asset with asset record and price;
   3 = as 1 but no DataAfterCoolOff record (nil Dec .Sub panics); anything else = AssetToAmount /
   asset / price missing (error).  A zero book entry is skipped before any lookup that can fail.
   The whole book entry is burnt out of the collector account and taken off the books; when
   DecreaseNetFeeCollectedData fails the function returns nil WITHOUT setting its done flag. *)
Fixpoint esm_redeem_loop (c : cstate) (app : Z) (l : list (Z * Z)) : outcome cstate :=
  match l with
  | [] => Ok c
  | (asset, cls) :: r =>
      match nf c (app, asset) with
      | None => esm_redeem_loop c app r
      | Some x =>
          if (cls =? 0) || (x =? 0) then esm_redeem_loop c app r
          else if cls =? 3 then Panic
          else if negb (cls =? 1) then Err 40
          else match csend c A_COLLECTOR A_EXT asset x with       (* BurnCoins(collectorV1, x) *)
               | Ok c1 =>
                   match decrease_net_fee c1 app asset x with
                   | Ok c2 => esm_redeem_loop c2 app r
                   | Err _ => Ok c1                                 (* `return nil` *)
                   | Panic => Panic
                   end
               | Err e => Err e
               | Panic => Panic
               end
      end
  end.

Definition esm_redeem (s : state) (app : Z) (has_status : bool) (l : list (Z * Z)) : outcome state :=
  if negb has_status then Err 41                              (* GetESMStatus not found *)
  else lift s (esm_redeem_loop (cs s) app l).

(* collector MsgDeposit -> keeper.Deposit -> Refund (refund.go), in the configuration it was written
   for (asset 3 = ucmst, app 2): the depositor pays [amt] of asset [d] into the collector, it is
   booked, then 19 hard-coded owners are paid REFUND_TOTAL ucmst in all out of the collector and
   net_fee(2, 3) is lowered by REFUND_TOTAL.  [done] = the refund counter is not 0 (env: the
   counter is read and written by this message only). *)
Definition INT64_MAX : Z := 9223372036854775807.
Definition REFUND_TOTAL : Z := 20163520000.
Definition msg_cdeposit (s : state) (u app d amt : Z) (done : bool) : outcome state :=
  if amt <=? 0 then Err 20                                     (* ValidateBasic *)
  else if app =? 0 then Err 20
  else if done then Err 50
  else if negb (has_asset (cs s) d) then Err 23                (* GetAssetForDenom *)
  else if negb (d =? 3) then Err 51
  else if negb (app =? 2) then Err 51
  else
    obind (lift s (csend (cs s) (user u) A_COLLECTOR d amt)) (fun s1 =>
    obind (lift s1 (set_net_fee (cs s1) app d amt)) (fun s2 =>
    let b := bnk (cs s2) (A_COLLECTOR, 3) in
    if b >? INT64_MAX then Panic                               (* macc.Int64() *)
    else if b <? REFUND_TOTAL then Err 52
    else obind (lift s2 (csend (cs s2) A_COLLECTOR A_EXT 3 REFUND_TOTAL)) (fun s3 =>
         lift s3 (decrease_net_fee (cs s3) 2 3 REFUND_TOTAL)))).

(* ------------------------------------------------------------------------------------ *)
Inductive op :=
| LCreate (u app asset amt : Z)
| LDeposit (u app asset lid amt rw : Z)
| LWithdraw (u app asset lid amt rw : Z)
| LClose (u app asset lid rw : Z)
| LRewardCalc (app lid rw : Z)
| UpdLookup (app asset lsr sthr dthr lot dlot : Z) (rws : list Z)
| AddLookup (app asset secondary lsr sthr dthr lot dlot : Z)
| WlLocker (app asset : Z)
| WlReward (app asset : Z)
| SetFlags (app asset : Z) (surplus debt distributor : bool)
| SetEsm (app : Z) (b : bool)
| SetBreaker (app : Z) (b : bool)
| FeeIn (app asset amt : Z) (uncond : bool)
| GetAmount (app asset amt : Z)
| DecNetFee (app asset amt : Z)
| SurplusFund (app asset u denom amt : Z)
| V1SurplusStart (app asset : Z)
| V1SurplusClose (app asset lot : Z) (bidder esm : bool)
| V1DebtStart (app asset : Z)
| V1DebtClose (app asset amt : Z) (bids esm : bool)
| V1Penalty (app asset amt : Z)
| V2CheckStats (app asset : Z)
| V2SurplusClose (app asset lot : Z)
| V2DebtClose (app asset coll_amt debt_denom debt_amt : Z)
| V2Penalty (app coll_asset debt_asset amt : Z)
| V2TriggerEsm (app debt_asset collected fee : Z)
| EsmRedeem (app : Z) (has_status : bool) (l : list (Z * Z))
| CDeposit (u app d amt : Z) (done : bool).

Definition step (s : state) (o : op) : outcome state :=
  match o with
  | LCreate u app asset amt => msg_create s u app asset amt
  | LDeposit u app asset lid amt rw => msg_deposit s u app asset lid amt rw
  | LWithdraw u app asset lid amt rw => msg_withdraw s u app asset lid amt rw
  | LClose u app asset lid rw => msg_close s u app asset lid rw
  | LRewardCalc app lid rw => msg_reward_calc s app lid rw
  | UpdLookup app asset lsr sthr dthr lot dlot rws => update_lookup s app asset lsr sthr dthr lot dlot rws
  | AddLookup app asset sec lsr sthr dthr lot dlot => add_lookup s app asset sec lsr sthr dthr lot dlot
  | WlLocker app asset => whitelist_locker s app asset
  | WlReward app asset => whitelist_reward s app asset
  | SetFlags app asset su de di => set_flags s app asset su de di
  | SetEsm app b => Ok (set_cs s (set_esm (cs s) (fun a => if a =? app then b else esm_on (cs s) a)))
  | SetBreaker app b => Ok (set_cs s (set_brk (cs s) (fun a => if a =? app then b else brk_on (cs s) a)))
  | FeeIn app asset amt un => fee_in s app asset amt un
  | GetAmount app asset amt => lift s (get_amount_from_collector (cs s) app asset amt)
  | DecNetFee app asset amt => lift s (decrease_net_fee (cs s) app asset amt)
  | SurplusFund app asset u denom amt => lift s (surplus_fund (cs s) app asset (user u) denom amt)
  | V1SurplusStart app asset => v1_surplus_start s app asset
  | V1SurplusClose app asset lot b e => v1_surplus_close s app asset lot b e
  | V1DebtStart app asset => v1_debt_start s app asset
  | V1DebtClose app asset amt b e => v1_debt_close s app asset amt b e
  | V1Penalty app asset amt => v1_penalty s app asset amt
  | V2CheckStats app asset => v2_check_stats s app asset
  | V2SurplusClose app asset lot => v2_surplus_close s app asset lot
  | V2DebtClose app asset ca dd da => v2_debt_close s app asset ca dd da
  | V2Penalty app ca da amt => v2_penalty s app ca da amt
  | V2TriggerEsm app da collected fee => v2_trigger_esm s app da collected fee
  | EsmRedeem app st l => esm_redeem s app st l
  | CDeposit u app d amt done => msg_cdeposit s u app d amt done
  end.

(* baseapp / ApplyFuncIfNoError: writes are kept only when the unit returns without error *)
Definition apply_step (s : state) (o : op) : state :=
  match step s o with Ok s' => s' | Err _ => s | Panic => s end.

Definition run (s : state) (ops : list op) : state := fold_left apply_step ops s.

Definition init_cstate (assets apps : Z -> bool) : cstate :=
  mkC (fun _ => None) (fun _ => 0) (fun _ => None) (fun _ => None) assets apps (fun _ => false) (fun _ => false).
Definition init_state (assets apps : Z -> bool) : state :=
  mkS (init_cstate assets apps) [] (fun _ => None) 0 (fun _ => false) (fun _ => false) (fun _ => None) (fun _ _ => 0)
      (fun _ => false).

(* users are funded from outside (harness setup) *)
Definition fund_user (s : state) (u d amt : Z) : state :=
  set_cs s (set_bnk (cs s) (kupd (bnk (cs s)) (user u, d) (bnk (cs s) (user u, d) + amt))).

(* ------------------------------------------------------------------------------------ *)
(* Property predicates, executable; the runner evaluates them on the state RECONSTRUCTED FROM THE
   IMPLEMENTATION's observation.                                                          *)

Definition lockers_of (s : state) (app asset : Z) : list locker :=
  filter (fun x => (l_app x =? app) && (l_asset x =? asset)) (lockers s).
Definition net_sum (l : list locker) : Z := zsum (map l_net l).
Definition dep_val (s : state) (app asset : Z) : Z :=
  match lks s (app, asset) with Some lk => lk_dep lk | None => 0 end.

(* deposited(app, asset) = sum of the net balances of its lockers; custody covers the totals *)
Definition holds_C13_locker (apps assets : list Z) (s : state) : bool :=
  forallb (fun d =>
    forallb (fun a => match lks s (a, d) with
                      | Some lk => lk_dep lk =? net_sum (lockers_of s a d)
                      | None => match lockers_of s a d with [] => true | _ => false end
                      end) apps
    && (bnk (cs s) (A_LOCKER, d) >=? sum_over apps (fun a => dep_val s a d))) assets.

(* net fees never negative; collector custody covers the sum over apps *)
Definition holds_C13_nonneg (apps assets : list Z) (s : state) : bool :=
  forallb (fun d => forallb (fun a => nf_val (cs s) a d >=? 0) apps) assets.
Definition holds_C13_backed (apps assets : list Z) (s : state) : bool :=
  forallb (fun d => bnk (cs s) (A_COLLECTOR, d) >=? nf_total (cs s) apps d) assets.

(* what a successful op pays the message sender out of locker custody *)
Definition pay_spec (s : state) (o : op) : option (Z * Z * Z) :=     (* (user, denom, amount) *)
  match o with
  | LWithdraw u app asset lid amt rw => Some (u, asset, amt)
  | LClose u app asset lid rw =>
      match find_locker (lockers s) lid with
      | Some ld => Some (u, asset, l_net ld + credited s app asset lid rw)
      | None => None
      end
  | _ => None
  end.

Definition holds_C13_pay (s : state) (o : op) (s' : state) : bool :=
  match pay_spec s o with
  | Some (u, d, amt) => bnk (cs s') (user u, d) =? bnk (cs s) (user u, d) + amt
  | None => true
  end.

(* the per-op table: by how much a SUCCESSFUL op changes net_fee(k).  Rewards: the integer
   credited to the locker; fees / penalties: what was paid in; outflows: what was paid out. *)
Definition at_key (app asset : Z) (k : key) (v : Z) : Z := if keq k (app, asset) then v else 0.

(* what TriggerEsm hands to the collector: the penalty, capped by what was collected *)
Definition esm_xfer (collected fee : Z) : Z := if collected >? fee then fee else collected.
(* the assets whose book entry SetUpDebtRedemptionForCollector burns *)
Definition esm_has1 (l : list (Z * Z)) (d : Z) : bool := existsb (fun p => (fst p =? d) && (snd p =? 1)) l.

Definition nf_delta_spec (s : state) (o : op) (k : key) : Z :=
  match o with
  | LDeposit u app asset lid amt rw => at_key app asset k (- credited s app asset lid rw)
  | LWithdraw u app asset lid amt rw => at_key app asset k (- credited s app asset lid rw)
  | LClose u app asset lid rw => at_key app asset k (- credited s app asset lid rw)
  | LRewardCalc app lid rw =>
      match find_locker (lockers s) lid with
      | Some ld => at_key app (l_asset ld) k (- credited s app (l_asset ld) lid rw)
      | None => 0
      end
  | FeeIn app asset amt un => at_key app asset k amt
  | GetAmount app asset amt => at_key app asset k (- amt)
  | DecNetFee app asset amt => at_key app asset k (- amt)
  | SurplusFund app asset u denom amt => at_key app asset k (- amt)
  | V1Penalty app asset amt => at_key app asset k amt
  | V2Penalty app ca da amt => at_key app da k amt
  | V1SurplusClose app asset lot bidder esm => if bidder && negb esm then 0 else at_key app asset k lot
  | V1DebtClose app asset amt bids esm => if esm then 0 else if bids then at_key app asset k amt else 0
  | V2SurplusClose app asset lot => 0
  | V2DebtClose app asset ca dd da => at_key app asset k da
  | V2TriggerEsm app da collected fee => at_key app da k (esm_xfer collected fee)
  | CDeposit u app d amt done => at_key app d k (amt - REFUND_TOTAL)
  | _ => 0   (* Create, lookup / whitelist / flag / esm ops: no change; starts: see [start_delta] *)
  end.

(* an auction start moves the lot out iff it flipped IsAuctionActive *)
Definition started (s s' : state) (app asset : Z) : bool :=
  negb (af_active (flags_of s app asset)) && af_active (flags_of s' app asset).
Definition lot_of (s : state) (app asset : Z) : Z :=
  match clk (cs s) (app, asset) with Some cl => cl_lot cl | None => 0 end.

Definition holds_C13_delta (keys : list key) (s : state) (o : op) (s' : state) : bool :=
  forallb (fun k =>
    let d := nf_val (cs s') (fst k) (snd k) - nf_val (cs s) (fst k) (snd k) in
    match o with
    | V1SurplusStart app asset =>
        d =? at_key app asset k (if started s s' app asset then - lot_of s app asset else 0)
    | V2CheckStats app asset =>
        d =? at_key app asset k (if started s s' app asset && af_surplus (flags_of s app asset)
                                 then - lot_of s app asset else 0)
    | UpdLookup app asset lsr sthr dthr lot dlot rws =>
        (* savings-rate change: net fees of (app, asset) fall by exactly what the lockers were credited *)
        d =? at_key app asset k (- (net_sum (lockers_of s' app asset) - net_sum (lockers_of s app asset)))
    | EsmRedeem app st l =>
        (* emergency shutdown: every debt-asset entry of the app that the call reaches is taken off the books whole *)
        d =? (if (fst k =? app) && esm_has1 l (snd k) then - nf_val (cs s) (fst k) (snd k) else 0)
    | _ => d =? nf_delta_spec s o k
    end) keys.

(* coins and books move together: for every denom the collector balance changes by the change of
   the summed net fees, except for the book-only decrease (DecreaseNetFeeCollectedData alone) *)
Definition holds_C13_flow (apps assets : list Z) (s : state) (o : op) (s' : state) : bool :=
  forallb (fun d =>
    let db := bnk (cs s') (A_COLLECTOR, d) - bnk (cs s) (A_COLLECTOR, d) in
    let dn := nf_total (cs s') apps d - nf_total (cs s) apps d in
    match o with
    | DecNetFee _ _ _ => dn <=? db
    | _ => db =? dn       (* incl. the savings-rate change: a transfer that fails after the books were lowered
                             (collector.LockerIterateRewards `continue`) breaks the clause *)
    end) assets.

(* ---- known-finding classes (DESIGN.md section 5) ---- *)
(* C13-F1 (generation-2 penalty booked under the collateral asset while the coins are debt-denom)
   is repaired in /repo: its class kf_C13_1 is gone *)
(* C13-F2 (generation-2 surplus auction: the start sent the lot to the generation-1 auction account, the
   close took it from the collector again and re-credited the net fees) is repaired: its class kf_C13_2 is gone *)
(* C13-F3 (generation-2 debt auction close booked CollateralToken.Amount, the minted secondary
   amount, while DebtToken is what arrives) is repaired: its class kf_C13_3 is gone *)

(* no known-finding class is left *)
Definition kf_C13_any (o : op) : bool := false.

(* ------------------------------------------------------------------------------------ *)
(* Hypotheses of the property theorems (Properties/C13.v), executable.                   *)
(* users are accounts >= 0 (so they differ from the module accounts); DecreaseNetFeeCollectedData
   is never called with a negative amount (none of its call sites can); WasmMsgGetSurplusFund is
   called with the coin of the asset it names (the contract supplies both) *)
Definition valid_op (o : op) : bool :=
  match o with
  | LCreate u _ _ _ => 0 <=? u
  | LDeposit u _ _ _ _ _ => 0 <=? u
  | LWithdraw u _ _ _ _ _ => 0 <=? u
  | LClose u _ _ _ _ => 0 <=? u
  | SurplusFund app asset u denom amt => (0 <=? u) && (denom =? asset)
  | DecNetFee _ _ amt => 0 <=? amt
  | CDeposit u _ _ _ _ => 0 <=? u
  (* the debt auction's DebtToken is minted by CheckStatsForSurplusAndDebt in the denom of
     collector.CollectorAssetId, which is also the auction's CollateralAssetId (liquidate.go) *)
  | V2DebtClose _ asset _ dd _ => dd =? asset
  | _ => true
  end.

(* the state every history starts from: nothing but funded users *)
Definition genesis (assets apps : Z -> bool) (funds : list (Z * Z * Z)) : state :=
  fold_left (fun s f => match f with (u, d, amt) => fund_user s u d amt end) funds (init_state assets apps).
Definition valid_fund (f : Z * Z * Z) : bool := match f with (u, _, _) => 0 <=? u end.

(* the (app, asset) whose net-fee record an op can change *)
Definition op_key (s : state) (o : op) : option key :=
  match o with
  | LDeposit _ app asset _ _ _ | LWithdraw _ app asset _ _ _ | LClose _ app asset _ _ => Some (app, asset)
  | LRewardCalc app lid _ => match find_locker (lockers s) lid with Some ld => Some (app, l_asset ld) | None => None end
  | UpdLookup app asset _ _ _ _ _ _ => Some (app, asset)
  | FeeIn app asset _ _ | GetAmount app asset _ | DecNetFee app asset _ | SurplusFund app asset _ _ _ => Some (app, asset)
  | V1SurplusStart app asset | V1SurplusClose app asset _ _ _ | V1DebtStart app asset | V1DebtClose app asset _ _ _
  | V1Penalty app asset _ | V2CheckStats app asset | V2SurplusClose app asset _ | V2DebtClose app asset _ _ _ => Some (app, asset)
  | V2Penalty app _ da _ => Some (app, da)
  | V2TriggerEsm app da _ _ => Some (app, da)
  | CDeposit _ app d _ _ => Some (app, d)
  | EsmRedeem app _ _ => Some (app, 0)
  | _ => None
  end.

(* ops whose book entry is deliberately not tied to a coin movement in the same op:
   DecreaseNetFeeCollectedData alone (book only) *)
Definition book_only (o : op) : bool := match o with DecNetFee _ _ _ => true | _ => false end.

(* ---- the per-op table, both sides: what a SUCCESSFUL op does to the book entry net_fee(k) and
   to the collector's coin balance (one denom; every other denom is unchanged).  [s'] is only
   consulted to see whether an auction start flipped IsAuctionActive.  The savings-rate change
   (UpdLookup) pays one reward per locker of the lookup and is described separately. ---- *)
Definition nf_delta_of (s s' : state) (o : op) (k : key) : Z :=
  match o with
  | V1SurplusStart app asset =>
      at_key app asset k (if started s s' app asset then - lot_of s app asset else 0)
  | V2CheckStats app asset =>
      at_key app asset k (if started s s' app asset && af_surplus (flags_of s app asset) then - lot_of s app asset else 0)
  | _ => nf_delta_spec s o k
  end.

Definition coin_delta_of (s s' : state) (o : op) : Z * Z :=     (* (denom, change of the collector balance) *)
  match o with
  | LDeposit u app asset lid amt rw => (asset, - credited s app asset lid rw)
  | LWithdraw u app asset lid amt rw => (asset, - credited s app asset lid rw)
  | LClose u app asset lid rw => (asset, - credited s app asset lid rw)
  | LRewardCalc app lid rw =>
      match find_locker (lockers s) lid with
      | Some ld => (l_asset ld, - credited s app (l_asset ld) lid rw)
      | None => (0, 0)
      end
  | FeeIn app asset amt un => (asset, amt)
  | GetAmount app asset amt => (asset, - amt)
  | DecNetFee app asset amt => (asset, 0)
  | SurplusFund app asset u denom amt => (denom, - amt)
  | V1Penalty app asset amt => (asset, amt)
  | V2Penalty app ca da amt => (da, amt)
  | V1SurplusClose app asset lot bidder esm => (asset, if bidder && negb esm then 0 else lot)
  | V1DebtClose app asset amt bids esm => (asset, if esm then 0 else if bids then amt else 0)
  | V2SurplusClose app asset lot => (asset, 0)
  | V2DebtClose app asset ca dd da => (dd, da)
  | V2TriggerEsm app da collected fee => (da, esm_xfer collected fee)
  | CDeposit u app d amt done => (d, amt - REFUND_TOTAL)
  | V1SurplusStart app asset => (asset, if started s s' app asset then - lot_of s app asset else 0)
  | V2CheckStats app asset =>
      (asset, if started s s' app asset && af_surplus (flags_of s app asset) then - lot_of s app asset else 0)
  | _ => (0, 0)
  end.

Definition is_upd_lookup (o : op) : bool := match o with UpdLookup _ _ _ _ _ _ _ _ => true | _ => false end.
Definition is_esm_redeem (o : op) : bool := match o with EsmRedeem _ _ _ => true | _ => false end.
(* ops that touch several lockers / several book entries and are described by their own theorems *)
Definition is_multi (o : op) : bool := is_upd_lookup o || is_esm_redeem o.
