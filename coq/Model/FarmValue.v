(* C19.  The farmed VALUE of a farmer's position, as x/liquidity/keeper/rewards.go computes it for the gauge
   distribution: CalcAssetPrice (20-32), GetPoolTokenDesrializerKit (34-60: reserves and pool coin supply of an
   enabled, non-depleted pool), CalculateXYFromPoolCoin (62-69) with amm.Withdraw (amm/pool.go 514-532, fee rate 0),
   OraclePrice (87-104), GetAssetWhoseOraclePriceExists (106-115: the QUOTE coin's asset when it has a usable price,
   otherwise the BASE coin's), the valuation of one position in GetFarmingRewardsData (188-209) and in
   GetAggregatedChildPoolContributions (133-158): the farmer's amount OF THE PRICED COIN (x when the quote coin is the
   priced one, y otherwise) times that coin's price, times two.  Definitions only.
   The min(master, child) capping on these values is Gauge.farm_env_of / Gauge.min_supplies. *)
From Comdex Require Import Lib.Base Lib.DecArith Model.Gauge.

(* amm.Withdraw(rx, ry, ps, pc, 0): the last pool coin takes everything; otherwise
   proportion = pc.QuoTruncate(ps), x = floor(rx.MulTruncate(proportion).MulTruncate(1)).  A zero supply makes the
   quotient panic: SafeMath turns that into (0, 0). *)
Definition withdraw (rx ry ps pc : Z) : Z * Z :=
  if pc =? ps then (rx, ry)
  else if ps =? 0 then (0, 0)
  else let prop := dquo_trunc (dec_of_int pc) (dec_of_int ps) in
       (dtrunc_int (dmul_trunc (dmul_trunc (dec_of_int rx) prop) P18),
        dtrunc_int (dmul_trunc (dmul_trunc (dec_of_int ry) prop) P18)).

(* CalcAssetPrice: amount * twa / decimals as a Dec; zero when the asset has no positive twa.  Decimals of a stored
   asset are positive (a zero would panic in Quo) *)
Definition asset_value (twa decimals amt : Z) : Z :=
  if 0 <? twa then dquo (dmul (dec_of_int amt) (dec_of_int twa)) (dec_of_int decimals) else 0.

(* the oracle data of one coin of the pair: Some (twa, decimals) when OraclePrice finds it (asset known, a twa
   record exists, and the price is active or the twa positive) *)
Definition coin_price := option (Z * Z).
(* GetAssetWhoseOraclePriceExists: (the quote coin is the priced one, twa, decimals) *)
Definition priced_coin (q b : coin_price) : option (bool * Z * Z) :=
  match q with
  | Some (t, d) => Some (true, t, d)
  | None => match b with Some (t, d) => Some (false, t, d) | None => None end
  end.

(* one pool as the kit shows it: id, quote reserve, base reserve, pool coin supply, the prices of the two coins *)
Record pool_raw := mkPool { p_id : Z; p_rx : Z; p_ry : Z; p_ps : Z; p_q : coin_price; p_b : coin_price }.

(* the value of [pc] farmed pool coins of pool p: None = the position is skipped (no priced coin / both amounts zero) *)
Definition position_value (p : pool_raw) (pc : Z) : option Z :=
  match priced_coin (p_q p) (p_b p) with
  | None => None
  | Some (quote_priced, twa, decimals) =>
      let '(x, y) := withdraw (p_rx p) (p_ry p) (p_ps p) pc in
      if (x =? 0) && (y =? 0) then None
      else Some (dmul (asset_value twa decimals (if quote_priced then x else y)) (dec_of_int 2))
  end.

Fixpoint find_pool (pid : Z) (ps : list pool_raw) : option pool_raw :=
  match ps with [] => None | p :: r => if p_id p =? pid then Some p else find_pool pid r end.

(* one active farmer of the gauge's pool: account, farmed pool coins per pool (the pools in which it has an active
   farmer record).  Its observation for Gauge.farm_env_of: the value in the gauge's pool and the values in the other
   usable pools, in the order of [pools]; None when the position in the gauge's own pool is skipped *)
Definition farmer_raw := (Z * list (Z * Z))%type.
Definition farmed_in (f : farmer_raw) (pid : Z) : option Z :=
  match filter (fun pv => fst pv =? pid) (snd f) with pv :: _ => Some (snd pv) | [] => None end.
Definition farmer_obs (own : Z) (pools : list pool_raw) (f : farmer_raw) : option fobs :=
  match find_pool own pools, farmed_in f own with
  | Some p, Some pc =>
      match position_value p pc with
      | None => None
      | Some v =>
          Some (fst f, v,
                flat_map (fun q => if p_id q =? own then [] else
                                     match farmed_in f (p_id q) with
                                     | Some c => match position_value q c with Some w => [(p_id q, w)] | None => [] end
                                     | None => []
                                     end) pools)
      end
  | _, _ => None
  end.
Definition farm_obs (own : Z) (pools : list pool_raw) (fs : list farmer_raw) : list fobs :=
  flat_map (fun f => match farmer_obs own pools f with Some o => [o] | None => [] end) fs.

(* the environment of a gauge computed from the raw pool and farming data and the metadata of its message *)
Definition farm_env_raw (m : gmeta) (others : list Z) (pools : list pool_raw) (fs : list farmer_raw) : farm_env :=
  farm_env_of m others (farm_obs (m_pool m) pools fs).
