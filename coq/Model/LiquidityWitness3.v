(* Witness histories for the in-transaction execution path of the pool messages and for order messages whose
   coins are wrong in one position (non-vacuity Examples of Properties/C04.v).  Definitions only. *)
From Comdex Require Import Lib.Base Lib.DecArith Model.Liquidity Model.LiquidityWitness.

(* the sole liquidity provider (creator 90, initial supply 1000000 of pool coin 1101) farms the whole supply and
   leaves with ONE MsgUnfarmAndWithdraw: the withdrawal is executed inside the transaction - no EndBlocker runs *)
Definition w_sole_ops : list op :=
  [OCreatePair 1 90 1 2; OCreatePool 1 90 1 2000000 2000000 true 1000000; OFarm 1 90 1 1101 1000000 10;
   OUnfarmAndWithdraw 1 90 1 1101 1000000 2000000 2000000].
Definition w_sole_state : state := fold_left apply_op w_sole_ops (fold_left apply_op (w_setup 1) init).

(* limit buys on pair 1 of app 1 (base coin 1, quote coin 2) by accounts that hold the offered coin:
   right demand coin with the third asset offered; right offer coin with the third asset demanded; swapped *)
Definition w_foreign_offer : order_msg := mkOMsg 1 90 1 true true 3 1003 1 1000000000000000000 1000 100.
Definition w_foreign_demand : order_msg := mkOMsg 1 50 1 true true 2 1003 3 1000000000000000000 1000 100.
Definition w_swapped_coins : order_msg := mkOMsg 1 50 1 true true 1 1003 2 1000000000000000000 1000 100.
Definition err_of (r : outcome state) : Z := match r with Err c => c | Ok _ => 0 | Panic => -1 end.
