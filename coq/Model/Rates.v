(* C18 (rate model).  x/lend/keeper/maths.go 9-79, statement for statement.  Definitions only.
   Dec values are their 10^18-scaled integers.  [None] = the Go call panics (Int64() out of
   range, Quo by zero, 315-bit overflow). *)
From Comdex Require Import Lib.Base Lib.DecArith.

Definition obindr {A} (x : option Z) (f : Z -> option A) : option A :=
  match x with Some v => f v | None => None end.

(* GetUtilisationRatioByPoolIDAndAssetID: moduleBalance, TotalBorrowed + TotalStableBorrowed *)
Definition utilisation (mod_bal borrowed : Z) : option Z :=
  match int64_c mod_bal, int64_c borrowed with
  | Some m, Some b =>
      let den := dadd (dec_of_int m) (dec_of_int b) in
      if den =? 0 then Some 0 else dquo_c (dec_of_int b) den
  | _, _ => None
  end.

(* one kinked curve (used with Base/Slope1/Slope2 and with StableBase/StableSlope1/StableSlope2) *)
Definition kink_apr (u uopt base s1 s2 : Z) : option Z :=
  if u <? uopt then
    obindr (dquo_c u uopt) (fun ratio =>
    obindr (dmul_c ratio s1) (fun mf => dadd_c base mf))
  else
    obindr (dsub_c u uopt) (fun num =>
    obindr (dsub_c P18 uopt) (fun den =>
    obindr (dquo_c num den) (fun ratio =>
    obindr (dmul_c ratio s2) (fun mf =>
    obindr (dadd_c base s1) (fun b1 => dadd_c b1 mf))))).

(* unchecked form the proofs go through *)
Definition kink_val (u uopt base s1 s2 : Z) : Z :=
  if u <? uopt then base + dmul (dquo u uopt) s1
  else base + s1 + dmul (dquo (u - uopt) (P18 - uopt)) s2.

(* GetLendAPRByAssetIDAndPoolID: borrowAPY.Mul(u).Mul(1 - reserveFactor) *)
Definition lend_apr (borrow u rf : Z) : option Z :=
  obindr (dsub_c P18 rf) (fun mf =>
  obindr (dmul_c borrow u) (fun x => dmul_c x mf)).
Definition lend_val (borrow u rf : Z) : Z := dmul (dmul borrow u) (P18 - rf).

(* ---- the stored rate parameters and their validation ----
   lend/types/pair.go AssetRatesParams.Validate (59-106), check for check.  After the repair of
   C18-F1 it also rejects UOptimal >= 1 (before, only UOptimal <= 0 was rejected and UOptimal = 1
   made the second branch of the curve divide by 1 - UOptimal = 0 in a fully utilised pool). *)
Record rate_params := mkRP {
  rp_asset : Z; rp_uopt : Z; rp_base : Z; rp_s1 : Z; rp_s2 : Z;
  rp_sbase : Z; rp_ss1 : Z; rp_ss2 : Z;
  rp_liqthr : Z; rp_liqbonus : Z; rp_liqpen : Z; rp_ltv : Z; rp_rf : Z; rp_casset : Z }.

Definition rates_valid (p : rate_params) : bool :=
  negb (rp_asset p =? 0) &&
  negb (rp_uopt p <=? 0) && negb (P18 <=? rp_uopt p) &&
  negb (rp_base p <=? 0) && negb (rp_s1 p <=? 0) && negb (rp_s2 p <=? 0) &&
  negb (rp_sbase p <? 0) && negb (rp_ss1 p <? 0) && negb (rp_ss2 p <? 0) &&
  negb (rp_liqthr p <=? 0) && negb (rp_liqbonus p <=? 0) && negb (rp_liqpen p <=? 0) &&
  negb (rp_ltv p <=? 0) && negb (rp_rf p <=? 0) &&
  negb (rp_casset p =? 0).

(* AssetRatesPoolPairs.Validate (115-166): the same checks, then len(CPoolName) < 20 and
   AssetData != nil *)
Definition pool_pairs_valid (p : rate_params) (name_len : Z) (has_data : bool) : bool :=
  rates_valid p && (name_len <? 20) && has_data.

(* keeper.AddAssetRatesParams (lend/keeper/pair.go), the function behind the governance handler:
   Validate, then SetAssetRatesParams.  Ok p = the record now in the store; Err 1 = rejected,
   nothing written. *)
Definition add_rates_params (p : rate_params) : outcome rate_params :=
  if rates_valid p then Ok p else Err 1.
(* keeper.AddAssetRatesPoolPairs up to the write of the parameters: Validate, then "already
   exists" (Err 2) *)
Definition add_rates_pool_pairs (p : rate_params) (name_len : Z) (has_data exists_ : bool) : outcome rate_params :=
  if pool_pairs_valid p name_len has_data then (if exists_ then Err 2 else Ok p) else Err 1.

(* GetBorrowAPRByAssetID(poolID, assetID, IsStableBorrow) at utilisation u *)
Definition borrow_apr (p : rate_params) (stable : bool) (u : Z) : option Z :=
  if stable then kink_apr u (rp_uopt p) (rp_sbase p) (rp_ss1 p) (rp_ss2 p)
  else kink_apr u (rp_uopt p) (rp_base p) (rp_s1 p) (rp_s2 p).
(* GetLendAPRByAssetIDAndPoolID at utilisation u *)
Definition lend_apr_p (p : rate_params) (u : Z) : option Z :=
  obindr (borrow_apr p false u) (fun b => lend_apr b u (rp_rf p)).

(* magnitudes for which no intermediate Dec leaves the 315-bit range *)
Definition RATE_MAX : Z := 2 ^ 128.
Definition rates_bounded (p : rate_params) : bool :=
  (rp_base p <? RATE_MAX) && (rp_s1 p <? RATE_MAX) && (rp_s2 p <? RATE_MAX) &&
  (rp_sbase p <? RATE_MAX) && (rp_ss1 p <? RATE_MAX) && (rp_ss2 p <? RATE_MAX) && (rp_rf p <? RATE_MAX).

(* ---- property predicates on the implementation's observations ---- *)
Definition holds_C18_rate_base (u base apr : Z) : bool := negb (u =? 0) || (apr =? base).
Definition holds_C18_rate_monotone (u1 apr1 u2 apr2 : Z) : bool := negb (u1 <=? u2) || (apr1 <=? apr2).
(* continuity at the kink: 0 <= apr(uopt) - apr(uopt - 1ulp) <= 2*s1/uopt + 1 (in ulps) *)
Definition holds_C18_rate_kink (uopt s1 apr_at apr_below : Z) : bool :=
  (apr_below <=? apr_at) && ((apr_at - apr_below) * uopt <=? 2 * s1 + uopt).
(* lend <= borrow; and lend >= 0 when the reserve factor is at most 1 (Validate does not bound it
   above: with a reserve factor > 1 the lend rate is negative, still below the borrow rate) *)
Definition holds_C18_lend_le_borrow (rf lend borrow : Z) : bool :=
  (lend <=? borrow) && (negb (rf <=? P18) || (0 <=? lend)).
(* the rate is defined (no panic) wherever the implementation accepted the parameters *)
Definition holds_C18_rate_defined (accepted bounded : bool) (u : Z) (panicked : bool) : bool :=
  negb (accepted && bounded && (0 <=? u) && (u <=? P18)) || negb panicked.
