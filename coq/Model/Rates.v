(* C18 (rate model).  x/lend/keeper/maths.go 9-79, statement for statement.  Definitions only.
   Dec values are their 10^18-scaled integers.  [None] = the Go call panics (Int64() out of
   range, Quo by zero, 315-bit overflow). *)
From Comdex Require Import Lib.Base Lib.DecArith.

Definition obindr {A} (x : option Z) (f : Z -> option A) : option A :=
  match x with Some v => f v | None => None end.

(* GetUtilisationRatioByPoolIDAndAssetID: moduleBalance, TotalBorrowed + TotalStableBorrowed *)
Definition utilisation (mod_bal borrowed : Z) : option Z :=
  match int64_c mod_bal, int64_c borrowed with
  | Some m, Some b =>
      let den := dadd (dec_of_int m) (dec_of_int b) in
      if den =? 0 then Some 0 else dquo_c (dec_of_int b) den
  | _, _ => None
  end.

(* one kinked curve (used with Base/Slope1/Slope2 and with StableBase/StableSlope1/StableSlope2) *)
Definition kink_apr (u uopt base s1 s2 : Z) : option Z :=
  if u <? uopt then
    obindr (dquo_c u uopt) (fun ratio =>
    obindr (dmul_c ratio s1) (fun mf => dadd_c base mf))
  else
    obindr (dsub_c u uopt) (fun num =>
    obindr (dsub_c P18 uopt) (fun den =>
    obindr (dquo_c num den) (fun ratio =>
    obindr (dmul_c ratio s2) (fun mf =>
    obindr (dadd_c base s1) (fun b1 => dadd_c b1 mf))))).

(* unchecked form the proofs go through *)
Definition kink_val (u uopt base s1 s2 : Z) : Z :=
  if u <? uopt then base + dmul (dquo u uopt) s1
  else base + s1 + dmul (dquo (u - uopt) (P18 - uopt)) s2.

(* GetLendAPRByAssetIDAndPoolID: borrowAPY.Mul(u).Mul(1 - reserveFactor) *)
Definition lend_apr (borrow u rf : Z) : option Z :=
  obindr (dsub_c P18 rf) (fun mf =>
  obindr (dmul_c borrow u) (fun x => dmul_c x mf)).
Definition lend_val (borrow u rf : Z) : Z := dmul (dmul borrow u) (P18 - rf).

(* ---- known-finding class: AssetRatesParams.Validate (lend/types/pair.go:63) only rejects
   UOptimal <= 0; UOptimal = 1 makes the second branch divide by 1 - UOptimal = 0 when the pool
   is fully utilised ---- *)
Definition kf_C18_1 (uopt : Z) : bool := P18 <=? uopt.

(* ---- property predicates on the implementation's observations ---- *)
Definition holds_C18_rate_base (u base apr : Z) : bool := negb (u =? 0) || (apr =? base).
Definition holds_C18_rate_monotone (u1 apr1 u2 apr2 : Z) : bool := negb (u1 <=? u2) || (apr1 <=? apr2).
(* continuity at the kink: 0 <= apr(uopt) - apr(uopt - 1ulp) <= 2*s1/uopt + 1 (in ulps) *)
Definition holds_C18_rate_kink (uopt s1 apr_at apr_below : Z) : bool :=
  (apr_below <=? apr_at) && ((apr_at - apr_below) * uopt <=? 2 * s1 + uopt).
Definition holds_C18_lend_le_borrow (lend borrow : Z) : bool := (0 <=? lend) && (lend <=? borrow).
