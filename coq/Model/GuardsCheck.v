(* GuardsCheck: the reviewed scopes / exemptions of C12 and C14 (hand-written data, each with its
   reason) and the closed boolean checks over the REGENERATED tables.  Definitions only; the
   runner extracts the lookups and predicates from here. *)
From Coq Require Import String List ZArith Bool.
From Comdex Require Import Lib.Base Lib.Atomic Model.Guards Gen.GuardTable Gen.MsgTypes Gen.WasmTable Gen.SweepGuards.
Import ListNotations.
Open Scope string_scope.

Definition mem (x : string) (l : list string) : bool := existsb (String.eqb x) l.

Definition find_handler (n : string) : option handler :=
  find (fun h => String.eqb (h_name h) n) handlers.

Definition mt_qname (m : msg_type) : string := mt_module m ++ "." ++ mt_name m.

(* ================================================================ C12 *)
(* fields that name a position (vault, stable-mint vault, locker, lend, borrow, order; the
   liquidation messages name the vault / borrow they liquidate) *)
Definition position_id_fields : list string :=
  ["UserVaultId"; "StableVaultId"; "LockerId"; "LendId"; "BorrowId"; "OrderId"; "VaultId"; "Id"].

(* messages that carry no position id but act on the positions stored under the signer's own
   address (farm positions, limit bids, "all my orders") *)
Definition signer_keyed_msgs : list string :=
  ["liquidity.MsgUnfarm"; "liquidity.MsgUnfarmAndWithdraw"; "liquidity.MsgCancelAllOrders";
   "liquidity.MsgCancelMMOrder"; "auctionsV2.MsgCancelLimitBidRequest"; "auctionsV2.MsgWithdrawLimitBidRequest"].

(* reviewed exemptions: (message, reason) *)
Definition owner_exempt : list (string * string) :=
  [("vault.MsgDepositStableMintRequest",
    "stable-mint vault = shared peg-stability pool of the app: StableVaultId names the pool, every account may swap in");
   ("vault.MsgWithdrawStableMintRequest",
    "stable-mint vault = shared peg-stability pool of the app: every account may swap its stablecoin back out");
   ("vault.MsgVaultInterestCalcRequest", "only accrues interest on the named vault; moves, reduces, closes nothing");
   ("locker.MsgLockerRewardCalcRequest", "only accrues rewards on the named locker");
   ("liquidation.MsgLiquidateVaultRequest", "liquidation of an unhealthy vault is permissionless by design (eligibility is C09)");
   ("liquidation.MsgLiquidateBorrowRequest", "liquidation of an unhealthy borrow is permissionless by design (eligibility is C09)");
   ("liquidationsV2.MsgLiquidateInternalKeeperRequest", "liquidation is permissionless by design (eligibility is C09)")].

Definition names_position (m : msg_type) : bool :=
  existsb (fun f => mem f position_id_fields) (mt_ids m) || mem (mt_qname m) signer_keyed_msgs.

Definition is_exempt (m : msg_type) : bool := mem (mt_qname m) (map fst owner_exempt).

(* every registered message type that names a position and is not exempt *)
Definition position_msgs : list msg_type :=
  filter (fun m => names_position m && negb (is_exempt m)) msg_types.

Definition has_owner_guard_items (its : list item) : bool :=
  scan helper_rows false is_owner_guard scan_fuel its.

(* an id-naming message needs an owner comparison / signer-keyed lookup on every path to success;
   a signer-keyed message may instead hand the signer to its first state-changing call *)
Definition owner_ok_items (signer_keyed : bool) (its : list item) : bool :=
  has_owner_guard_items its || (signer_keyed && first_write_signer its).

Definition has_owner_guard (m : msg_type) : bool :=
  match mt_signer m, find_handler (mt_handler m) with
  | Some _, Some h => owner_ok_items (mem (mt_qname m) signer_keyed_msgs) (h_items h)
  | _, _ => false
  end.

Definition c12_owner_check : bool := forallb has_owner_guard position_msgs.

(* ---- WHICH record is owner-compared, and how was it fetched?  (Gen/GuardTable.v owner_cmps)
   An owner comparison protects the position a message names only if the compared record IS that
   position's record (or, for a borrow - which has no owner field - the lend position it sits on):
   the chain of lookups from the compared record back to the message must be keyed, link by link,
   by an id of the kind the lookup expects, the first link must fetch a record of the kind whose
   owner field is compared, and the chain must start at a position-id field of the message.
   `GetLend(ctx, borrowPos.ID)` - a lend looked up by a BORROW id - fails the check. *)
Fixpoint assoc {A : Type} (k : string) (l : list (string * A)) : option A :=
  match l with
  | [] => None
  | (k', v) :: r => if String.eqb k k' then Some v else assoc k r
  end.

(* reviewed: owner field -> kind of position the record is *)
Definition owner_fields : list (string * string) :=
  [("Vault.Owner", "vault"); ("Locker.Depositor", "locker"); ("LendAsset.Owner", "lend"); ("Order.Orderer", "order")].
(* reviewed: lookup -> (kind of id it is keyed by, type of the record it returns) *)
Definition lookup_info : list (string * (string * string)) :=
  [("GetVault", ("vault", "Vault")); ("GetLocker", ("locker", "Locker")); ("GetLend", ("lend", "LendAsset"));
   ("GetBorrow", ("borrow", "BorrowAsset")); ("GetOrder", ("order", "Order"))].
(* reviewed: the kind of id each key expression carries (message fields; id / link fields of the records) *)
Definition key_kind : list (string * string) :=
  [("msg.UserVaultId", "vault"); ("msg.LockerId", "locker"); ("msg.LendId", "lend"); ("msg.BorrowId", "borrow"); ("msg.OrderId", "order");
   ("BorrowAsset.LendingID", "lend"); ("BorrowAsset.ID", "borrow"); ("LendAsset.ID", "lend");
   ("Vault.Id", "vault"); ("Locker.LockerId", "locker"); ("Order.Id", "order")].

Definition key_has_kind (k key : string) : bool :=
  match assoc key key_kind with Some k' => String.eqb k' k | None => false end.
Definition key_no_other_kind (k key : string) : bool :=
  match assoc key key_kind with Some k' => String.eqb k' k | None => true end.

(* [chain_ok ids c]: every link is keyed by exactly one id of its own kind and by no id of another
   kind; a "<RecordType>.<Field>" key is a field of the record the NEXT link fetches; the last link
   is keyed by a field of the message that is one of [ids] *)
Fixpoint chain_ok (ids : list string) (c : list (string * list string)) : bool :=
  match c with
  | [] => false
  | (lk, keys) :: rest =>
    match assoc lk lookup_info with
    | None => false
    | Some (k, _) =>
      forallb (key_no_other_kind k) keys &&
      match filter (key_has_kind k) keys with
      | [key] =>
        if String.prefix "msg." key then
          match rest with [] => existsb (fun f => String.eqb key ("msg." ++ f)) ids | _ => false end
        else
          match rest with
          | (lk2, _) :: _ =>
            match assoc lk2 lookup_info with
            | Some (_, rt) => String.prefix (rt ++ ".") key && chain_ok ids rest
            | None => false
            end
          | [] => false
          end
      | _ => false
      end
    end
  end.

Definition is_owner_field (c : owner_cmp) : bool :=
  match assoc (oc_field c) owner_fields with Some _ => true | None => false end.

(* the compared field is the owner field of the kind of record the first link fetches, and the chain is sound *)
Definition owner_cmp_ok (ids : list string) (c : owner_cmp) : bool :=
  match assoc (oc_field c) owner_fields, oc_chain c with
  | Some k, (lk, _) :: _ =>
    match assoc lk lookup_info with
    | Some (k', rt) => String.eqb k k' && String.prefix (rt ++ ".") (oc_field c) && chain_ok ids (oc_chain c)
    | None => false
    end
  | _, _ => false
  end.

Definition cmps_of (handler_name : string) : list owner_cmp :=
  filter (fun c => String.eqb (oc_handler c) handler_name && is_owner_field c) owner_cmps.

(* a position message that names an id: it has at least one owner comparison, and EVERY owner
   comparison on its walk (helper rows included) is made on a record reached from one of the
   message's own position-id fields *)
Definition msg_position_ids (m : msg_type) : list string :=
  filter (fun f => mem f position_id_fields) (mt_ids m).
Definition owner_cmps_ok (ids : list string) (cs : list owner_cmp) : bool :=
  match cs with [] => false | _ => forallb (owner_cmp_ok ids) cs end.
Definition owner_prov_ok (m : msg_type) : bool :=
  mem (mt_qname m) signer_keyed_msgs || owner_cmps_ok (msg_position_ids m) (cmps_of (mt_handler m)).

Definition c12_owner_prov_check : bool := forallb owner_prov_ok position_msgs.

(* closed world: every registered message of a DeFi module has a handler row and a signer field *)
Definition defi_modules : list string :=
  ["vault"; "locker"; "lend"; "liquidity"; "auction"; "auctionsV2"; "liquidation"; "liquidationsV2"; "esm";
   "rewards"; "collector"; "tokenmint"].
(* registered without a msgServer method: reachable only through the wasm binding (WasmTable) *)
Definition no_handler_ok : list string := ["locker.MsgAddWhiteListedAssetRequest"].
Definition c12_registry_check : bool :=
  forallb (fun m => negb (mem (mt_module m) defi_modules) || mem (mt_qname m) no_handler_ok ||
                    match mt_signer m, find_handler (mt_handler m) with Some _, Some _ => true | _, _ => false end)
          msg_types.

(* ---- closed-world CLASSIFICATION of every registered message of a DeFi module.
   Every message type is exactly one of
     owner-guarded   it names a position id and is in [position_msgs] (owner comparison proved on the table);
     signer-keyed    [signer_keyed_msgs]: no id, acts on the records stored under the signer's own address;
     exempt          [owner_exempt]: names a position, deliberately open to every signer (reason there);
     no position     [no_position_msgs] below: the message names no existing position of any user - it opens
                     a position for the signer with the signer's own coins, funds a shared pool / programme,
                     bids the signer's own coins on a shared auction lot, or is permissionless by design - with
                     the reviewed reason; the extended matrix checks that such a message never changes the
                     balances or records of an account that did not sign it (except as listed in
                     [third_party_effect]);
     admin           esm.MsgKillRequest (c12_kill_switch_admin).
   A new sdk.Msg of one of these modules that nobody classified breaks c12_classification_closed. *)
Definition no_position_msgs : list (string * string) :=
  [("vault.MsgCreateRequest", "opens a vault for the signer with the signer's coins");
   ("vault.MsgCreateStableMintRequest", "opens the shared stable-mint vault / swaps the signer's coins in");
   ("locker.MsgCreateLockerRequest", "opens a locker for the signer with the signer's coins");
   ("lend.MsgLend", "opens a lend position for the signer with the signer's coins");
   ("lend.MsgBorrowAlternate", "opens a lend and a borrow position for the signer with the signer's coins");
   ("lend.MsgFundModuleAccounts", "funds the pool's module account with the signer's coins");
   ("lend.MsgFundReserveAccounts", "funds the reserve with the signer's coins");
   ("lend.MsgCalculateInterestAndRewards", "accrual on the positions stored under the signer's own address; moves, reduces, closes nothing");
   ("liquidity.MsgCreatePair", "creates a shared pair; the signer pays the creation fee");
   ("liquidity.MsgCreatePool", "creates a shared pool with the signer's coins");
   ("liquidity.MsgCreateRangedPool", "creates a shared pool with the signer's coins");
   ("liquidity.MsgDeposit", "deposits the signer's coins into a shared pool (pool coins are bearer tokens)");
   ("liquidity.MsgDepositAndFarm", "deposits the signer's coins and farms the signer's pool coins");
   ("liquidity.MsgWithdraw", "burns the signer's own pool coins (bearer tokens) for the pool's reserves");
   ("liquidity.MsgFarm", "farms the signer's own pool coins");
   ("liquidity.MsgLimitOrder", "opens an order for the signer with the signer's coins");
   ("liquidity.MsgMarketOrder", "opens an order for the signer with the signer's coins");
   ("liquidity.MsgMMOrder", "opens market-making orders for the signer with the signer's coins");
   ("auction.MsgPlaceSurplusBidRequest", "bid of the signer's coins on a shared lot; the previous highest bidder is paid back");
   ("auction.MsgPlaceDebtBidRequest", "bid of the signer's coins on a shared lot; the previous highest bidder is paid back");
   ("auction.MsgPlaceDutchBidRequest", "purchase from a seized vault's lot with the signer's coins; what is left goes to the seized vault's owner");
   ("auction.MsgPlaceDutchLendBidRequest", "purchase from a seized borrow's lot with the signer's coins");
   ("auctionsV2.MsgPlaceMarketBidRequest", "bid / purchase with the signer's coins on a shared lot; an outbid bidder is paid back, the rest of a seized vault goes to its owner");
   ("auctionsV2.MsgDepositLimitBidRequest", "opens / enlarges the limit bid stored under the signer's own address with the signer's coins");
   ("liquidationsV2.MsgLiquidateExternalKeeperRequest", "an outside application auctions collateral it brings itself (signer's coins); no position of this chain is named");
   ("liquidationsV2.MsgAppReserveFundsRequest", "funds an app's reserve with the signer's coins");
   ("esm.MsgDepositESM", "burns the signer's own governance tokens towards the shutdown target");
   ("esm.MsgExecuteESM", "permissionless by design once the deposit target is reached");
   ("esm.MsgCollateralRedemptionRequest", "after shutdown: burns the signer's own debt tokens for a share of the pooled collateral");
   ("rewards.MsgCreateGauge", "funds a reward programme with the signer's coins");
   ("rewards.ActivateExternalRewardsLockers", "funds a reward programme with the signer's coins");
   ("rewards.ActivateExternalRewardsVault", "funds a reward programme with the signer's coins");
   ("rewards.ActivateExternalRewardsLend", "funds a reward programme with the signer's coins");
   ("rewards.ActivateExternalRewardsStableMint", "funds a reward programme with the signer's coins");
   ("collector.MsgDeposit", "one-off refund: the signer funds the collector, which pays a fixed list of accounts");
   ("tokenmint.MsgMintNewTokensRequest", "mints the governance-approved genesis supply ONCE to the configured recipient (not to the signer)")].
Definition admin_msgs : list string := ["esm.MsgKillRequest"].

Definition msg_classes (m : msg_type) : nat :=
  (if names_position m && negb (is_exempt m) then 1 else 0) +
  (if names_position m && is_exempt m then 1 else 0) +
  (if mem (mt_qname m) (map fst no_position_msgs) then 1 else 0) +
  (if mem (mt_qname m) admin_msgs then 1 else 0) +
  (if mem (mt_qname m) no_handler_ok then 1 else 0).
Definition c12_classified_check : bool :=
  forallb (fun m => negb (mem (mt_module m) defi_modules) || Nat.eqb (msg_classes m) 1) msg_types &&
  (* the lists name registered messages only *)
  forallb (fun n => existsb (fun m => String.eqb (mt_qname m) n) msg_types)
          (map fst no_position_msgs ++ admin_msgs ++ map fst owner_exempt ++ signer_keyed_msgs).

(* a message that is not a position message may change the balances / records of an account that
   neither signed it nor is named by it only through the flows listed here *)
Definition third_party_effect : list (string * string) :=
  [("auction.MsgPlaceSurplusBid", "the previous highest bidder is paid back");
   ("auction.MsgPlaceDebtBid", "the previous highest bidder is paid back");
   ("auctionsV2.MsgPlaceMarketBid", "english auction: the previous highest bidder is paid back");
   ("collector.Deposit", "pays the fixed refund list");
   ("tokenmint.MsgMintNewTokens", "pays the configured recipient")].

(* the handlers the EXTENDED authority / control matrices must send (harness TestC12X / TestC14X): every
   msgServer method of the modules the plain matrices do not cover, plus the auctionsV2 ones on running
   auctions; computed from the regenerated registry, so a new message of these modules that the harness
   does not send is a reported mismatch *)
Definition x_modules : list string :=
  ["liquidation"; "auction"; "liquidationsV2"; "auctionsV2"; "esm"; "rewards"; "collector"; "tokenmint"].
Fixpoint dedup (l : list string) : list string :=
  match l with [] => [] | x :: r => if mem x r then dedup r else x :: dedup r end.
Definition x_matrix_handlers : list string :=
  dedup (map mt_handler (filter (fun m => mem (mt_module m) x_modules && negb (mem (mt_qname m) admin_msgs) &&
                                          negb (String.eqb (mt_handler m) "")) msg_types)).
(* ... and the plain matrices: every msgServer method of the five servers they enumerate *)
Definition base_modules : list string := ["vault"; "locker"; "lend"; "liquidity"; "auctionsV2"].
Definition base_matrix_handlers : list string :=
  dedup (map mt_handler (filter (fun m => mem (mt_module m) base_modules && negb (String.eqb (mt_handler m) "")) msg_types)).
Definition c12_matrix_cover_check : bool :=
  forallb (fun m => negb (mem (mt_module m) defi_modules) || String.eqb (mt_handler m) "" || mem (mt_qname m) admin_msgs ||
                    mem (mt_handler m) x_matrix_handlers || mem (mt_handler m) base_matrix_handlers) msg_types.

(* wasm *)
Definition c12_wasm_check : bool :=
  forallb wasm_row_ok wasm_table &&
  forallb (fun w => match wasm_role (w_variant w) with Some _ => true | None => false end) wasm_table.

Definition find_wasm (v : string) : option wasm_row :=
  find (fun w => String.eqb (w_variant w) v) wasm_table.

Definition wasm_variant_names : list string := map w_variant wasm_table.

(* kill switch: the admin check stands before any write *)
Definition kill_switch_ok : bool :=
  match find_handler "esm.MsgKillSwitch" with
  | Some h => scan helper_rows true is_admin_guard scan_fuel (h_items h)
  | None => false
  end.

(* every rung of every ladder names one of the two networks *)
Definition c12_wasm_rungs_named : bool :=
  forallb (fun w => forallb (fun r => mem (r_chain r) named_networks) (w_ladder w)) wasm_table.

(* ================================================================ C14 *)
(* handlers that open, enlarge or draw from a position, plus vault repay / close / withdraw *)
Definition breaker_scope : list string :=
  ["vault.MsgCreate"; "vault.MsgDeposit"; "vault.MsgWithdraw"; "vault.MsgDraw"; "vault.MsgRepay"; "vault.MsgClose";
   "vault.MsgDepositAndDraw"; "vault.MsgCreateStableMint"; "vault.MsgDepositStableMint"; "vault.MsgWithdrawStableMint";
   "locker.MsgCreateLocker"; "locker.MsgDepositAsset";
   "lend.Lend"; "lend.Deposit"; "lend.Withdraw"; "lend.Borrow"; "lend.DepositBorrow"; "lend.Draw"; "lend.BorrowAlternate"].

(* handlers of the three modules that the property's breaker clause does not list: (handler, reason) *)
Definition breaker_out_of_scope : list (string * string) :=
  [("vault.MsgVaultInterestCalc", "accrual only");
   ("locker.MsgWithdrawAsset", "not guarded by design: savings can be taken out during an emergency");
   ("locker.MsgCloseLocker", "not guarded by design: savings can be taken out during an emergency");
   ("locker.MsgLockerRewardCalc", "accrual only");
   ("lend.CloseLend", "closing / repaying is not in the listed scope (the code does guard it)");
   ("lend.Repay", "closing / repaying is not in the listed scope (the code does guard it)");
   ("lend.CloseBorrow", "closing / repaying is not in the listed scope (the code does guard it)");
   ("lend.RepayWithdraw", "closing / repaying is not in the listed scope (the code does guard it)");
   ("lend.CalculateInterestAndRewards", "accrual only");
   ("lend.FundModuleAccounts", "funds the pool's module account; no position");
   ("lend.FundReserveAccounts", "funds the reserve; no position")].

Definition rejects_under_breaker (n : string) : bool :=
  match find_handler n with
  | Some h => scan helper_rows true is_breaker_guard scan_fuel (h_items h)
  | None => false
  end.

Definition c14_breaker_check : bool := forallb rejects_under_breaker breaker_scope.

Definition c14_scope_closed : bool :=
  forallb (fun h => negb (mem (h_module h) ["vault"; "locker"; "lend"]) ||
                    mem (h_name h) breaker_scope || mem (h_name h) (map fst breaker_out_of_scope)) handlers.

(* "no liquidation ... is started for it": the liquidate MESSAGES of both generations refuse while the
   breaker of the governing app is enabled.  Generation 1: the breaker (or ESM-or-breaker) check stands on
   every path to success of the handler's own row.  Generation 2: the handler only dispatches to the two
   functions the block sweep runs per position (the writing call is not entered by the walk); they are rows
   of Gen/SweepGuards.v, each gated by the breaker before any write, and the handler's regenerated call
   chain (h_price) names them. *)
Definition liquidation_msg_scope : list (string * string) :=
  [("liquidation.MsgLiquidateVault", "generation 1, a vault");
   ("liquidation.MsgLiquidateBorrow", "generation 1, a borrow");
   ("liquidationsV2.MsgLiquidateInternalKeeper", "generation 2, a vault or a borrow")].
Definition liquidation_msg_names : list string := map fst liquidation_msg_scope.
Definition liquidate_msg_dispatch : list (string * list string) :=
  [("liquidationsV2.MsgLiquidateInternalKeeper",
    ["liquidationsV2.LiquidateIndividualVault"; "liquidationsV2.LiquidateIndividualBorrow"])].
Definition refuses_under_breaker (n : string) : bool :=
  match find_handler n with
  | Some h => scan helper_rows false is_breaker_guard scan_fuel (h_items h)
  | None => false
  end.
Definition dispatch_gated (n : string) (fs : list string) : bool :=
  forallb (fun f => existsb (fun r => String.eqb (s_name r) f && sweep_row_ok r) sweep_table) fs &&
  match find_handler n with
  | Some h => forallb (fun f => existsb (fun u => String.eqb (pu_callee u) f) (h_price h)) fs
  | None => false
  end.
Definition liquidate_msg_gated (n : string) : bool :=
  match assoc n liquidate_msg_dispatch with
  | Some fs => dispatch_gated n fs
  | None => refuses_under_breaker n
  end.
Definition c14_liquidation_msgs_check : bool := forallb liquidate_msg_gated liquidation_msg_names.
(* liquidation / auction / esm handlers the breaker clause of the property does not list: (handler, reason) *)
Definition x_breaker_out_of_scope : list (string * string) :=
  [("liquidationsV2.MsgLiquidateExternalKeeper", "an outside application auctions collateral it brings itself: not a sweep, not a surplus / debt auction, no position of the app (the code does not read the breaker)");
   ("liquidationsV2.MsgAppReserveFunds", "funds the reserve; no position");
   ("auction.MsgPlaceSurplusBid", "a bid on an auction that already runs"); ("auction.MsgPlaceDebtBid", "a bid on an auction that already runs");
   ("auction.MsgPlaceDutchBid", "a bid on an auction that already runs"); ("auction.MsgPlaceDutchLendBid", "a bid on an auction that already runs");
   ("auctionsV2.MsgPlaceMarketBid", "a bid on an auction that already runs");
   ("auctionsV2.MsgDepositLimitBid", "limit bids are not positions of the app"); ("auctionsV2.MsgCancelLimitBid", "limit bids are not positions of the app");
   ("auctionsV2.MsgWithdrawLimitBid", "limit bids are not positions of the app");
   ("esm.DepositESM", "the emergency controls themselves"); ("esm.ExecuteESM", "the emergency controls themselves");
   ("esm.MsgCollateralRedemption", "redemption after shutdown");
   ("rewards.CreateGauge", "reward programme; no position"); ("rewards.ExternalRewardsLockers", "reward programme; no position (the code does guard it)");
   ("rewards.ExternalRewardsVault", "reward programme; no position (the code does guard it)");
   ("rewards.ExternalRewardsLend", "reward programme; no position (the code does guard it)");
   ("rewards.ExternalRewardsStableMint", "reward programme; no position (the code does guard it)");
   ("collector.Deposit", "one-off refund"); ("tokenmint.MsgMintNewTokens", "genesis mint")].
Definition c14_x_scope_closed : bool :=
  forallb (fun n => mem n liquidation_msg_names || mem n (map fst x_breaker_out_of_scope)) x_matrix_handlers.

(* every vault handler that can reach bank.MintCoins has the ESM check before any write *)
Definition esm_mint_scope : list handler :=
  filter (fun h => String.eqb (h_module h) "vault" && h_mints h) handlers.
Definition esm_guarded (h : handler) : bool := scan helper_rows true is_esm_guard scan_fuel (h_items h).
Definition c14_esm_check : bool :=
  forallb esm_guarded esm_mint_scope &&
  (* the scope is not empty and contains the handlers that create debt *)
  forallb (fun n => existsb (fun h => String.eqb (h_name h) n) esm_mint_scope)
          ["vault.MsgCreate"; "vault.MsgDraw"; "vault.MsgDepositAndDraw"; "vault.MsgCreateStableMint"; "vault.MsgDepositStableMint"].

(* cool-off: the vault withdraw handler has the cool-off check before any write *)
Definition c14_cooloff_check : bool :=
  match find_handler "vault.MsgWithdraw" with
  | Some h => scan helper_rows true is_cooloff_guard scan_fuel (h_items h)
  | None => false
  end.

(* sweeps *)
Definition c14_sweep_check : bool :=
  forallb sweep_row_ok sweep_table &&
  forallb (fun n => existsb (fun r => String.eqb (s_name r) n) sweep_table)
          ["liquidation.LiquidateVaults"; "liquidation.LiquidateBorrows"; "liquidationsV2.LiquidateIndividualVault";
           "liquidationsV2.LiquidateIndividualBorrow"; "liquidationsV2.LiquidateForSurplusAndDebt";
           "auction.SurplusActivator"; "auction.DebtActivator"].

(* price: every price call site a handler can reach, and every link of the call chain to it,
   propagates the error.  A raw read of the oracle record that discards the found flag
   (`x, _ := k.market.GetTwa(..)`) counts as a price call site whose error is ignored.  Three handlers
   are excluded: the translator shows sites where the error is assigned to _ (cross-pool branch of
   MsgLiquidateBorrow, UpdateLockedBorrows, CreteNewBorrow; the raw read in PlaceDutchAuctionBid). *)
Definition price_modules : list string :=
  ["vault"; "locker"; "lend"; "liquidation"; "liquidationsV2"; "auction"; "auctionsV2"].
Definition price_unverified : list (string * string) :=
  [("liquidation.MsgLiquidateBorrow",
    "cross-pool branches and UpdateLockedBorrows assign the price error to _ (msg_server.go:169,183 - repaired by C14-F2; UpdateLockedBorrows in liquidate_borrow.go)");
   ("auction.MsgPlaceDutchLendBid",
    "the close path reaches lend.CreteNewBorrow / liquidation.UpdateLockedBorrows which assign the price error to _")].
Definition price_scope : list handler :=
  filter (fun h => mem (h_module h) price_modules && negb (mem (h_name h) (map fst price_unverified))) handlers.
Definition price_fail_closed (h : handler) : bool := price_all_checked h && no_unchecked_price (h_items h).
Definition c14_price_check : bool := forallb price_fail_closed price_scope.
Definition price_scope_names : list string := map h_name price_scope.
Definition c14_price_unverified_really_unchecked : bool :=
  forallb (fun n => match find_handler n with Some h => negb (price_all_checked h) | None => false end)
          (map fst price_unverified).

(* ================================================================ runner-facing predictions *)
(* the class of error the handler returns first under the given controls, provided every other
   check passes (the harness establishes that by the baseline run) *)
Definition ctrl_ctx (esm : bool) (now end_time : Z) (breaker : bool) : octx :=
  mkCtx esm now end_time breaker (fun _ => true) (fun _ => true) (fun _ => true) true true
        (fun _ => true) (fun _ => false) (fun _ => false).

Definition nonowner_ctx : octx :=
  mkCtx false 0 0 false (fun _ => false) (fun _ => false) (fun _ => true) true true
        (fun _ => true) (fun _ => false) (fun _ => false).

Definition unit_store := unit.
Definition unit_wr (_ : string) (s : unit) : unit := s.

(* 0 = ok, otherwise err_code of the first failing guard; -1 = the model cannot tell *)
Definition predict (c : octx) (n : string) : Z :=
  match find_handler n with
  | None => -1
  | Some h =>
    match exec unit_wr helper_rows scan_fuel c (h_items h) tt with
    | RunOk _ => 0
    | RunErr _ code => code
    | RunPanic _ => -1
    end
  end.

Definition predict_ctrl (n : string) (esm : bool) (now end_time : Z) (breaker : bool) : Z :=
  predict (ctrl_ctx esm now end_time breaker) n.

(* the same with a price feed state: price_ok = every price the operation needs is active *)
Definition predict_full (n : string) (esm : bool) (now end_time : Z) (breaker price_ok : bool) : Z :=
  let code := predict (mkCtx esm now end_time breaker (fun _ => true) (fun _ => true) (fun _ => true) true price_ok
                             (fun _ => true) (fun _ => false) (fun _ => false)) n in
  match find_handler n with
  | Some h => if (code =? 0)%Z && h_ctl_opaque h && (esm || breaker) then -1 else code
  | None => code
  end.

(* the hook entry points the harness calls -> the table rows they run *)
Definition sweep_group (g : string) : list string :=
  if String.eqb g "liquidationsV2.Liquidate" then
    ["liquidationsV2.LiquidateIndividualVault"; "liquidationsV2.LiquidateIndividualBorrow";
     "liquidationsV2.LiquidateForSurplusAndDebt"]
  else if String.eqb g "auction.BeginBlocker" then ["auction.SurplusActivator"; "auction.DebtActivator"]
  else [g].
Definition sweep_group_known (g : string) : bool :=
  forallb (fun n => existsb (fun r => String.eqb (s_name r) n) sweep_table) (sweep_group g).
Definition sweep_group_starts (g : string) (breaker : bool) : bool :=
  existsb (fun r => mem (s_name r) (sweep_group g) && sweep_starts r breaker) sweep_table.

Definition handler_known (n : string) : bool :=
  match find_handler n with Some _ => true | None => false end.

Definition handler_position_msg (n : string) : bool :=
  existsb (fun m => String.eqb (mt_handler m) n) position_msgs.
Definition handler_exempt (n : string) : bool :=
  existsb (fun m => String.eqb (mt_handler m) n && names_position m && is_exempt m) msg_types.
Definition handler_owner_guarded (n : string) : bool :=
  existsb (fun m => String.eqb (mt_handler m) n && has_owner_guard m) msg_types.
Definition position_handler_names : list string := map mt_handler position_msgs.

(* the handlers whose regenerated row no longer passes a table check: when a table theorem breaks,
   the directed search of bin/check concentrates the harness on these (runner entries C12-focus /
   C14-focus print them, bin/props.d/C1x.py hands them to the harness as VERIF_FOCUS) *)
Definition c12_broken_rows : list string :=
  map mt_handler (filter (fun m => negb (has_owner_guard m) || negb (owner_prov_ok m)) position_msgs).
Definition c14_broken_rows : list string :=
  filter (fun n => negb (rejects_under_breaker n)) breaker_scope ++
  map h_name (filter (fun h => negb (esm_guarded h)) esm_mint_scope) ++
  (if c14_cooloff_check then [] else ["vault.MsgWithdraw"]) ++
  map h_name (filter (fun h => negb (price_fail_closed h)) price_scope).

(* property predicates, evaluated by the runner on the IMPLEMENTATION's observations *)
(* C12 owners: a message naming a position id and signed by a non-owner must not succeed; a
   message acting on "the signer's own" records (no id) and signed by an account that owns none
   may return ok only as a no-op; a rejected message changes nothing *)
Definition handler_signer_keyed (n : string) : bool :=
  existsb (fun m => String.eqb (mt_handler m) n && mem (mt_qname m) signer_keyed_msgs) msg_types.
(* [signer_has_positions]: the signer is itself one of the position owners of the fixture (it owns
   a position of every kind, with other ids); [victim_changed]: a balance or a position record of
   the owner whose positions the message names changed.  A signer-keyed message of another position
   owner acts on that signer's own records: it may succeed, but must leave the named owner's alone. *)
Definition holds_C12_owner (handler_name : string) (signer_is_owner signer_has_positions ok changed victim_changed : bool) : bool :=
  (ok || negb changed) &&
  (signer_is_owner || negb (handler_position_msg handler_name) ||
   (if handler_signer_keyed handler_name
    then negb ok || (if signer_has_positions then negb victim_changed else negb changed)
    else negb ok)).

(* C12, extended matrix.  On top of holds_C12_owner:
   [victim_changed]: a balance or record of the owner whose positions the message names changed although
   he did not sign - allowed only for position messages (judged above) and the reviewed exemptions
   (liquidation of an unhealthy position; the shared stable-mint pool);
   [bystander_changed]: a balance or record of a position owner who neither signed nor is named changed -
   allowed only through the flows of [third_party_effect]. *)
Definition holds_C12_x (handler_name : string)
  (signer_is_owner signer_has_positions ok changed victim_changed bystander_changed : bool) : bool :=
  holds_C12_owner handler_name signer_is_owner signer_has_positions ok changed victim_changed &&
  (signer_is_owner || negb victim_changed || handler_position_msg handler_name || handler_exempt handler_name ||
   mem handler_name (map fst third_party_effect)) &&
  (negb bystander_changed || mem handler_name (map fst third_party_effect)).

(* C12 wasm: on a named network an accepted custom message comes from the designated contract *)
Definition holds_C12_wasm (variant chain sender : string) (accepted changed : bool) : bool :=
  (negb (mem chain named_networks) || negb accepted ||
   match designated chain variant with Some a => String.eqb sender a | None => false end)
  && (accepted || negb changed).

Definition holds_C12_kill (is_admin ok changed : bool) : bool :=
  (is_admin || negb ok) && (ok || negb changed).

Definition wasm_model_accepts (variant chain sender : string) : option bool :=
  match find_wasm variant with
  | Some w => Some (ladder_accepts (w_ladder w) chain sender)
  | None => None
  end.

(* C14: esm_phase 0 = none, 1 = executed & inside cool-off, 2 = executed & cool-off over *)
Definition in_esm_mint_scope (n : string) : bool := existsb (fun h => String.eqb (h_name h) n) esm_mint_scope.
Definition holds_C14 (n : string) (breaker : bool) (esm_phase : Z) (ok changed : bool) : bool :=
  (negb (breaker && mem n breaker_scope) || negb ok) &&
  (negb (breaker && mem n liquidation_msg_names) || negb ok) &&
  (negb ((0 <? esm_phase)%Z && in_esm_mint_scope n) || negb ok) &&
  (negb ((esm_phase =? 2)%Z && String.eqb n "vault.MsgWithdraw") || negb ok) &&
  (ok || negb changed).

(* price.  [needed_inactive]: one of the inactive feeds is a price the operation NEEDS: it reads it
   when it runs with every feed active and no control set (observed on the implementation: store
   trace of the market store) and the outcome of that run changes when the value of the feed is
   scaled (x1000, /1000) - then the operation must fail.  And an inactive feed never turns a refusal into a
   success or changes what a successful operation does: a run that succeeds with some feed inactive
   succeeds, with the same resulting state, when every feed is active. *)
Definition holds_C14_price (some_inactive needed_inactive ok base_ok same_as_base changed : bool) : bool :=
  negb (needed_inactive && ok) &&
  (negb (some_inactive && ok) || (base_ok && same_as_base)) &&
  (ok || negb changed).

(* C14-F1 (fixed): auctionsV2 PlaceDutchAuctionBid used the debt asset's oracle record without
   looking at the found flag or IsPriceActive; the regression is the matrix case
   auctionsV2.MsgPlaceMarketBid x every price subset containing the debt asset. *)
Definition holds_C14_sweep (breaker started : bool) : bool := negb (breaker && started).
