(* GuardsCheck: the reviewed scopes / exemptions of C12 and C14 (hand-written data, each with its
   reason) and the closed boolean checks over the REGENERATED tables.  Definitions only; the
   runner extracts the lookups and predicates from here. *)
From Coq Require Import String List ZArith Bool.
From Comdex Require Import Lib.Base Lib.Atomic Model.Guards Gen.GuardTable Gen.MsgTypes Gen.WasmTable Gen.SweepGuards.
Import ListNotations.
Open Scope string_scope.

Definition mem (x : string) (l : list string) : bool := existsb (String.eqb x) l.

Definition find_handler (n : string) : option handler :=
  find (fun h => String.eqb (h_name h) n) handlers.

Definition mt_qname (m : msg_type) : string := mt_module m ++ "." ++ mt_name m.

(* ================================================================ C12 *)
(* fields that name a position (vault, stable-mint vault, locker, lend, borrow, order; the
   liquidation messages name the vault / borrow they liquidate) *)
Definition position_id_fields : list string :=
  ["UserVaultId"; "StableVaultId"; "LockerId"; "LendId"; "BorrowId"; "OrderId"; "VaultId"; "Id"].

(* messages that carry no position id but act on the positions stored under the signer's own
   address (farm positions, limit bids, "all my orders") *)
Definition signer_keyed_msgs : list string :=
  ["liquidity.MsgUnfarm"; "liquidity.MsgUnfarmAndWithdraw"; "liquidity.MsgCancelAllOrders";
   "liquidity.MsgCancelMMOrder"; "auctionsV2.MsgCancelLimitBidRequest"; "auctionsV2.MsgWithdrawLimitBidRequest"].

(* reviewed exemptions: (message, reason) *)
Definition owner_exempt : list (string * string) :=
  [("vault.MsgDepositStableMintRequest",
    "stable-mint vault = shared peg-stability pool of the app: StableVaultId names the pool, every account may swap in");
   ("vault.MsgWithdrawStableMintRequest",
    "stable-mint vault = shared peg-stability pool of the app: every account may swap its stablecoin back out");
   ("vault.MsgVaultInterestCalcRequest", "only accrues interest on the named vault; moves, reduces, closes nothing");
   ("locker.MsgLockerRewardCalcRequest", "only accrues rewards on the named locker");
   ("liquidation.MsgLiquidateVaultRequest", "liquidation of an unhealthy vault is permissionless by design (eligibility is C09)");
   ("liquidation.MsgLiquidateBorrowRequest", "liquidation of an unhealthy borrow is permissionless by design (eligibility is C09)");
   ("liquidationsV2.MsgLiquidateInternalKeeperRequest", "liquidation is permissionless by design (eligibility is C09)")].

Definition names_position (m : msg_type) : bool :=
  existsb (fun f => mem f position_id_fields) (mt_ids m) || mem (mt_qname m) signer_keyed_msgs.

Definition is_exempt (m : msg_type) : bool := mem (mt_qname m) (map fst owner_exempt).

(* every registered message type that names a position and is not exempt *)
Definition position_msgs : list msg_type :=
  filter (fun m => names_position m && negb (is_exempt m)) msg_types.

Definition has_owner_guard_items (its : list item) : bool :=
  scan helper_rows false is_owner_guard scan_fuel its.

(* an id-naming message needs an owner comparison / signer-keyed lookup on every path to success;
   a signer-keyed message may instead hand the signer to its first state-changing call *)
Definition owner_ok_items (signer_keyed : bool) (its : list item) : bool :=
  has_owner_guard_items its || (signer_keyed && first_write_signer its).

Definition has_owner_guard (m : msg_type) : bool :=
  match mt_signer m, find_handler (mt_handler m) with
  | Some _, Some h => owner_ok_items (mem (mt_qname m) signer_keyed_msgs) (h_items h)
  | _, _ => false
  end.

Definition c12_owner_check : bool := forallb has_owner_guard position_msgs.

(* ---- WHICH record is owner-compared, and how was it fetched?  (Gen/GuardTable.v owner_cmps)
   An owner comparison protects the position a message names only if the compared record IS that
   position's record (or, for a borrow - which has no owner field - the lend position it sits on):
   the chain of lookups from the compared record back to the message must be keyed, link by link,
   by an id of the kind the lookup expects, the first link must fetch a record of the kind whose
   owner field is compared, and the chain must start at a position-id field of the message.
   `GetLend(ctx, borrowPos.ID)` - a lend looked up by a BORROW id - fails the check. *)
Fixpoint assoc {A : Type} (k : string) (l : list (string * A)) : option A :=
  match l with
  | [] => None
  | (k', v) :: r => if String.eqb k k' then Some v else assoc k r
  end.

(* reviewed: owner field -> kind of position the record is *)
Definition owner_fields : list (string * string) :=
  [("Vault.Owner", "vault"); ("Locker.Depositor", "locker"); ("LendAsset.Owner", "lend"); ("Order.Orderer", "order")].
(* reviewed: lookup -> (kind of id it is keyed by, type of the record it returns) *)
Definition lookup_info : list (string * (string * string)) :=
  [("GetVault", ("vault", "Vault")); ("GetLocker", ("locker", "Locker")); ("GetLend", ("lend", "LendAsset"));
   ("GetBorrow", ("borrow", "BorrowAsset")); ("GetOrder", ("order", "Order"))].
(* reviewed: the kind of id each key expression carries (message fields; id / link fields of the records) *)
Definition key_kind : list (string * string) :=
  [("msg.UserVaultId", "vault"); ("msg.LockerId", "locker"); ("msg.LendId", "lend"); ("msg.BorrowId", "borrow"); ("msg.OrderId", "order");
   ("BorrowAsset.LendingID", "lend"); ("BorrowAsset.ID", "borrow"); ("LendAsset.ID", "lend");
   ("Vault.Id", "vault"); ("Locker.LockerId", "locker"); ("Order.Id", "order")].

Definition key_has_kind (k key : string) : bool :=
  match assoc key key_kind with Some k' => String.eqb k' k | None => false end.
Definition key_no_other_kind (k key : string) : bool :=
  match assoc key key_kind with Some k' => String.eqb k' k | None => true end.

(* [chain_ok ids c]: every link is keyed by exactly one id of its own kind and by no id of another
   kind; a "<RecordType>.<Field>" key is a field of the record the NEXT link fetches; the last link
   is keyed by a field of the message that is one of [ids] *)
Fixpoint chain_ok (ids : list string) (c : list (string * list string)) : bool :=
  match c with
  | [] => false
  | (lk, keys) :: rest =>
    match assoc lk lookup_info with
    | None => false
    | Some (k, _) =>
      forallb (key_no_other_kind k) keys &&
      match filter (key_has_kind k) keys with
      | [key] =>
        if String.prefix "msg." key then
          match rest with [] => existsb (fun f => String.eqb key ("msg." ++ f)) ids | _ => false end
        else
          match rest with
          | (lk2, _) :: _ =>
            match assoc lk2 lookup_info with
            | Some (_, rt) => String.prefix (rt ++ ".") key && chain_ok ids rest
            | None => false
            end
          | [] => false
          end
      | _ => false
      end
    end
  end.

Definition is_owner_field (c : owner_cmp) : bool :=
  match assoc (oc_field c) owner_fields with Some _ => true | None => false end.

(* the compared field is the owner field of the kind of record the first link fetches, and the chain is sound *)
Definition owner_cmp_ok (ids : list string) (c : owner_cmp) : bool :=
  match assoc (oc_field c) owner_fields, oc_chain c with
  | Some k, (lk, _) :: _ =>
    match assoc lk lookup_info with
    | Some (k', rt) => String.eqb k k' && String.prefix (rt ++ ".") (oc_field c) && chain_ok ids (oc_chain c)
    | None => false
    end
  | _, _ => false
  end.

Definition cmps_of (handler_name : string) : list owner_cmp :=
  filter (fun c => String.eqb (oc_handler c) handler_name && is_owner_field c) owner_cmps.

(* a position message that names an id: it has at least one owner comparison, and EVERY owner
   comparison on its walk (helper rows included) is made on a record reached from one of the
   message's own position-id fields *)
Definition msg_position_ids (m : msg_type) : list string :=
  filter (fun f => mem f position_id_fields) (mt_ids m).
Definition owner_cmps_ok (ids : list string) (cs : list owner_cmp) : bool :=
  match cs with [] => false | _ => forallb (owner_cmp_ok ids) cs end.
Definition owner_prov_ok (m : msg_type) : bool :=
  mem (mt_qname m) signer_keyed_msgs || owner_cmps_ok (msg_position_ids m) (cmps_of (mt_handler m)).

Definition c12_owner_prov_check : bool := forallb owner_prov_ok position_msgs.

(* closed world: every registered message of a DeFi module has a handler row and a signer field *)
Definition defi_modules : list string :=
  ["vault"; "locker"; "lend"; "liquidity"; "auction"; "auctionsV2"; "liquidation"; "liquidationsV2"; "esm";
   "rewards"; "collector"; "tokenmint"].
(* registered without a msgServer method: reachable only through the wasm binding (WasmTable) *)
Definition no_handler_ok : list string := ["locker.MsgAddWhiteListedAssetRequest"].
Definition c12_registry_check : bool :=
  forallb (fun m => negb (mem (mt_module m) defi_modules) || mem (mt_qname m) no_handler_ok ||
                    match mt_signer m, find_handler (mt_handler m) with Some _, Some _ => true | _, _ => false end)
          msg_types.

(* wasm *)
Definition c12_wasm_check : bool :=
  forallb wasm_row_ok wasm_table &&
  forallb (fun w => match wasm_role (w_variant w) with Some _ => true | None => false end) wasm_table.

Definition find_wasm (v : string) : option wasm_row :=
  find (fun w => String.eqb (w_variant w) v) wasm_table.

(* kill switch: the admin check stands before any write *)
Definition kill_switch_ok : bool :=
  match find_handler "esm.MsgKillSwitch" with
  | Some h => scan helper_rows true is_admin_guard scan_fuel (h_items h)
  | None => false
  end.

(* every rung of every ladder names one of the two networks *)
Definition c12_wasm_rungs_named : bool :=
  forallb (fun w => forallb (fun r => mem (r_chain r) named_networks) (w_ladder w)) wasm_table.

(* ================================================================ C14 *)
(* handlers that open, enlarge or draw from a position, plus vault repay / close / withdraw *)
Definition breaker_scope : list string :=
  ["vault.MsgCreate"; "vault.MsgDeposit"; "vault.MsgWithdraw"; "vault.MsgDraw"; "vault.MsgRepay"; "vault.MsgClose";
   "vault.MsgDepositAndDraw"; "vault.MsgCreateStableMint"; "vault.MsgDepositStableMint"; "vault.MsgWithdrawStableMint";
   "locker.MsgCreateLocker"; "locker.MsgDepositAsset";
   "lend.Lend"; "lend.Deposit"; "lend.Withdraw"; "lend.Borrow"; "lend.DepositBorrow"; "lend.Draw"; "lend.BorrowAlternate"].

(* handlers of the three modules that the property's breaker clause does not list: (handler, reason) *)
Definition breaker_out_of_scope : list (string * string) :=
  [("vault.MsgVaultInterestCalc", "accrual only");
   ("locker.MsgWithdrawAsset", "not guarded by design: savings can be taken out during an emergency");
   ("locker.MsgCloseLocker", "not guarded by design: savings can be taken out during an emergency");
   ("locker.MsgLockerRewardCalc", "accrual only");
   ("lend.CloseLend", "closing / repaying is not in the listed scope (the code does guard it)");
   ("lend.Repay", "closing / repaying is not in the listed scope (the code does guard it)");
   ("lend.CloseBorrow", "closing / repaying is not in the listed scope (the code does guard it)");
   ("lend.RepayWithdraw", "closing / repaying is not in the listed scope (the code does guard it)");
   ("lend.CalculateInterestAndRewards", "accrual only");
   ("lend.FundModuleAccounts", "funds the pool's module account; no position");
   ("lend.FundReserveAccounts", "funds the reserve; no position")].

Definition rejects_under_breaker (n : string) : bool :=
  match find_handler n with
  | Some h => scan helper_rows true is_breaker_guard scan_fuel (h_items h)
  | None => false
  end.

Definition c14_breaker_check : bool := forallb rejects_under_breaker breaker_scope.

Definition c14_scope_closed : bool :=
  forallb (fun h => negb (mem (h_module h) ["vault"; "locker"; "lend"]) ||
                    mem (h_name h) breaker_scope || mem (h_name h) (map fst breaker_out_of_scope)) handlers.

(* every vault handler that can reach bank.MintCoins has the ESM check before any write *)
Definition esm_mint_scope : list handler :=
  filter (fun h => String.eqb (h_module h) "vault" && h_mints h) handlers.
Definition esm_guarded (h : handler) : bool := scan helper_rows true is_esm_guard scan_fuel (h_items h).
Definition c14_esm_check : bool :=
  forallb esm_guarded esm_mint_scope &&
  (* the scope is not empty and contains the handlers that create debt *)
  forallb (fun n => existsb (fun h => String.eqb (h_name h) n) esm_mint_scope)
          ["vault.MsgCreate"; "vault.MsgDraw"; "vault.MsgDepositAndDraw"; "vault.MsgCreateStableMint"; "vault.MsgDepositStableMint"].

(* cool-off: the vault withdraw handler has the cool-off check before any write *)
Definition c14_cooloff_check : bool :=
  match find_handler "vault.MsgWithdraw" with
  | Some h => scan helper_rows true is_cooloff_guard scan_fuel (h_items h)
  | None => false
  end.

(* sweeps *)
Definition c14_sweep_check : bool :=
  forallb sweep_row_ok sweep_table &&
  forallb (fun n => existsb (fun r => String.eqb (s_name r) n) sweep_table)
          ["liquidation.LiquidateVaults"; "liquidation.LiquidateBorrows"; "liquidationsV2.LiquidateIndividualVault";
           "liquidationsV2.LiquidateIndividualBorrow"; "liquidationsV2.LiquidateForSurplusAndDebt";
           "auction.SurplusActivator"; "auction.DebtActivator"].

(* price: every price call site a handler can reach, and every link of the call chain to it,
   propagates the error.  A raw read of the oracle record that discards the found flag
   (`x, _ := k.market.GetTwa(..)`) counts as a price call site whose error is ignored.  Three handlers
   are excluded: the translator shows sites where the error is assigned to _ (cross-pool branch of
   MsgLiquidateBorrow, UpdateLockedBorrows, CreteNewBorrow; the raw read in PlaceDutchAuctionBid). *)
Definition price_modules : list string :=
  ["vault"; "locker"; "lend"; "liquidation"; "liquidationsV2"; "auction"; "auctionsV2"].
Definition price_unverified : list (string * string) :=
  [("liquidation.MsgLiquidateBorrow",
    "cross-pool branches and UpdateLockedBorrows assign the price error to _ (msg_server.go:163,177; liquidate_borrow.go)");
   ("auction.MsgPlaceDutchLendBid",
    "the close path reaches lend.CreteNewBorrow / liquidation.UpdateLockedBorrows which assign the price error to _")].
Definition price_scope : list handler :=
  filter (fun h => mem (h_module h) price_modules && negb (mem (h_name h) (map fst price_unverified))) handlers.
Definition price_fail_closed (h : handler) : bool := price_all_checked h && no_unchecked_price (h_items h).
Definition c14_price_check : bool := forallb price_fail_closed price_scope.
Definition price_scope_names : list string := map h_name price_scope.
Definition c14_price_unverified_really_unchecked : bool :=
  forallb (fun n => match find_handler n with Some h => negb (price_all_checked h) | None => false end)
          (map fst price_unverified).

(* ================================================================ runner-facing predictions *)
(* the class of error the handler returns first under the given controls, provided every other
   check passes (the harness establishes that by the baseline run) *)
Definition ctrl_ctx (esm : bool) (now end_time : Z) (breaker : bool) : octx :=
  mkCtx esm now end_time breaker (fun _ => true) (fun _ => true) (fun _ => true) true true
        (fun _ => true) (fun _ => false) (fun _ => false).

Definition nonowner_ctx : octx :=
  mkCtx false 0 0 false (fun _ => false) (fun _ => false) (fun _ => true) true true
        (fun _ => true) (fun _ => false) (fun _ => false).

Definition unit_store := unit.
Definition unit_wr (_ : string) (s : unit) : unit := s.

(* 0 = ok, otherwise err_code of the first failing guard; -1 = the model cannot tell *)
Definition predict (c : octx) (n : string) : Z :=
  match find_handler n with
  | None => -1
  | Some h =>
    match exec unit_wr helper_rows scan_fuel c (h_items h) tt with
    | RunOk _ => 0
    | RunErr _ code => code
    | RunPanic _ => -1
    end
  end.

Definition predict_ctrl (n : string) (esm : bool) (now end_time : Z) (breaker : bool) : Z :=
  predict (ctrl_ctx esm now end_time breaker) n.

(* the same with a price feed state: price_ok = every price the operation needs is active *)
Definition predict_full (n : string) (esm : bool) (now end_time : Z) (breaker price_ok : bool) : Z :=
  let code := predict (mkCtx esm now end_time breaker (fun _ => true) (fun _ => true) (fun _ => true) true price_ok
                             (fun _ => true) (fun _ => false) (fun _ => false)) n in
  match find_handler n with
  | Some h => if (code =? 0)%Z && h_ctl_opaque h && (esm || breaker) then -1 else code
  | None => code
  end.

(* the hook entry points the harness calls -> the table rows they run *)
Definition sweep_group (g : string) : list string :=
  if String.eqb g "liquidationsV2.Liquidate" then
    ["liquidationsV2.LiquidateIndividualVault"; "liquidationsV2.LiquidateIndividualBorrow";
     "liquidationsV2.LiquidateForSurplusAndDebt"]
  else if String.eqb g "auction.BeginBlocker" then ["auction.SurplusActivator"; "auction.DebtActivator"]
  else [g].
Definition sweep_group_known (g : string) : bool :=
  forallb (fun n => existsb (fun r => String.eqb (s_name r) n) sweep_table) (sweep_group g).
Definition sweep_group_starts (g : string) (breaker : bool) : bool :=
  existsb (fun r => mem (s_name r) (sweep_group g) && sweep_starts r breaker) sweep_table.

Definition handler_known (n : string) : bool :=
  match find_handler n with Some _ => true | None => false end.

Definition handler_position_msg (n : string) : bool :=
  existsb (fun m => String.eqb (mt_handler m) n) position_msgs.
Definition handler_exempt (n : string) : bool :=
  existsb (fun m => String.eqb (mt_handler m) n && names_position m && is_exempt m) msg_types.
Definition handler_owner_guarded (n : string) : bool :=
  existsb (fun m => String.eqb (mt_handler m) n && has_owner_guard m) msg_types.
Definition position_handler_names : list string := map mt_handler position_msgs.

(* the handlers whose regenerated row no longer passes a table check: when a table theorem breaks,
   the directed search of bin/check concentrates the harness on these (runner entries C12-focus /
   C14-focus print them, bin/props.d/C1x.py hands them to the harness as VERIF_FOCUS) *)
Definition c12_broken_rows : list string :=
  map mt_handler (filter (fun m => negb (has_owner_guard m) || negb (owner_prov_ok m)) position_msgs).
Definition c14_broken_rows : list string :=
  filter (fun n => negb (rejects_under_breaker n)) breaker_scope ++
  map h_name (filter (fun h => negb (esm_guarded h)) esm_mint_scope) ++
  (if c14_cooloff_check then [] else ["vault.MsgWithdraw"]) ++
  map h_name (filter (fun h => negb (price_fail_closed h)) price_scope).

(* property predicates, evaluated by the runner on the IMPLEMENTATION's observations *)
(* C12 owners: a message naming a position id and signed by a non-owner must not succeed; a
   message acting on "the signer's own" records (no id) and signed by an account that owns none
   may return ok only as a no-op; a rejected message changes nothing *)
Definition handler_signer_keyed (n : string) : bool :=
  existsb (fun m => String.eqb (mt_handler m) n && mem (mt_qname m) signer_keyed_msgs) msg_types.
(* [signer_has_positions]: the signer is itself one of the position owners of the fixture (it owns
   a position of every kind, with other ids); [victim_changed]: a balance or a position record of
   the owner whose positions the message names changed.  A signer-keyed message of another position
   owner acts on that signer's own records: it may succeed, but must leave the named owner's alone. *)
Definition holds_C12_owner (handler_name : string) (signer_is_owner signer_has_positions ok changed victim_changed : bool) : bool :=
  (ok || negb changed) &&
  (signer_is_owner || negb (handler_position_msg handler_name) ||
   (if handler_signer_keyed handler_name
    then negb ok || (if signer_has_positions then negb victim_changed else negb changed)
    else negb ok)).

(* C12 wasm: on a named network an accepted custom message comes from the designated contract *)
Definition holds_C12_wasm (variant chain sender : string) (accepted changed : bool) : bool :=
  (negb (mem chain named_networks) || negb accepted ||
   match designated chain variant with Some a => String.eqb sender a | None => false end)
  && (accepted || negb changed).

Definition holds_C12_kill (is_admin ok changed : bool) : bool :=
  (is_admin || negb ok) && (ok || negb changed).

Definition wasm_model_accepts (variant chain sender : string) : option bool :=
  match find_wasm variant with
  | Some w => Some (ladder_accepts (w_ladder w) chain sender)
  | None => None
  end.

(* C14: esm_phase 0 = none, 1 = executed & inside cool-off, 2 = executed & cool-off over *)
Definition in_esm_mint_scope (n : string) : bool := existsb (fun h => String.eqb (h_name h) n) esm_mint_scope.
Definition holds_C14 (n : string) (breaker : bool) (esm_phase : Z) (ok changed : bool) : bool :=
  (negb (breaker && mem n breaker_scope) || negb ok) &&
  (negb ((0 <? esm_phase)%Z && in_esm_mint_scope n) || negb ok) &&
  (negb ((esm_phase =? 2)%Z && String.eqb n "vault.MsgWithdraw") || negb ok) &&
  (ok || negb changed).

(* price.  [needed_inactive]: one of the inactive feeds is a price the operation NEEDS: it reads it
   when it runs with every feed active and no control set (observed on the implementation: store
   trace of the market store) and the outcome of that run changes when the value of the feed is
   scaled (x1000, /1000) - then the operation must fail.  And an inactive feed never turns a refusal into a
   success or changes what a successful operation does: a run that succeeds with some feed inactive
   succeeds, with the same resulting state, when every feed is active. *)
Definition holds_C14_price (some_inactive needed_inactive ok base_ok same_as_base changed : bool) : bool :=
  negb (needed_inactive && ok) &&
  (negb (some_inactive && ok) || (base_ok && same_as_base)) &&
  (ok || negb changed).

(* C14-F1 (fixed): auctionsV2 PlaceDutchAuctionBid used the debt asset's oracle record without
   looking at the found flag or IsPriceActive; the regression is the matrix case
   auctionsV2.MsgPlaceMarketBid x every price subset containing the debt asset. *)
Definition holds_C14_sweep (breaker started : bool) : bool := negb (breaker && started).
