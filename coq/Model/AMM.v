(* Model of the batch matching engine x/liquidity/amm (match.go, orderbook.go, util.go,
   order.go) and of the priority rules of x/liquidity/types/order.go, statement by statement.
   Definitions only; proofs live in Proofs/AMMProofs.v.

   Representation.  Go mutates orders through pointers that are shared between the caller's slice,
   the book's ticks and the batch groups.  Here the state is the flat list [os] of orders in the
   caller's order; an order's identity is its position ([o_id] = index, a ghost field set by the
   caller).  Ticks hold positions.  Every Go function that fills orders is modelled as a function
   that READS the current [os] and returns the list of fills it performs ([fill] = id, amount,
   price: the ghost fill list); the fills are then applied to [os] by [apply_fills], which runs
   FillOrder (None = the Go panic "cannot match more than open amount").  Within one such Go
   function every order is filled at most once and the amounts are computed from the state before
   the call, so computing first and applying afterwards is the same computation (assumption: the
   book holds each order pointer once, as NewOrderBook(orders...) over distinct orders does).

   sdk.Dec = 10^18-scaled Z (Lib/DecArith).  The 256/315-bit overflow panics of sdk.Int/sdk.Dec are
   not modelled (assumption in bin/props.d/C05.py: amounts < 2^100, prices within the tick range
   used by the keeper); division by zero cannot occur for positive prices and amounts ([dom_ok]). *)
From Comdex Require Import Lib.Base Lib.DecArith.

Inductive dir := Buy | Sell.
Definition dir_eqb (a b : dir) : bool :=
  match a, b with Buy, Buy => true | Sell, Sell => true | _, _ => false end.

Record order := mkOrder {
  o_id    : nat;   (* ghost: position in the caller's slice *)
  o_dir   : dir;
  o_price : Z;     (* Dec *)
  o_amt   : Z;     (* Amount *)
  o_offer : Z;     (* OfferCoinAmount *)
  o_open  : Z;     (* OpenAmount *)
  o_paid  : Z;     (* PaidOfferCoinAmount *)
  o_recv  : Z;     (* ReceivedDemandCoinAmount *)
  o_batch : Z;     (* GetBatchID(): 0 = current batch (pool orders, BaseOrder) *)
  o_key   : Z      (* priority key among equal amounts: user order id, pool orders 2^64 + pool id *)
}.

Record fill := mkFill { f_id : nat; f_dir : dir; f_amt : Z; f_price : Z }.

(* price.MulInt(a).TruncateInt()  and  price.MulInt(a).Ceil().TruncateInt() *)
Definition quote_floor (p a : Z) : Z := dtrunc_int (dmul_int p a).
Definition quote_ceil (p a : Z) : Z := dceil_int (dmul_int p a).

(* util.go:37 MatchableAmount *)
Definition matchable_amount (o : order) (p : Z) : Z :=
  let m := match o_dir o with
           | Buy => Z.min (o_open o) (dtrunc_int (dquo_trunc (dec_of_int (o_offer o - o_paid o)) p))
           | Sell => o_open o
           end in
  if quote_floor p m =? 0 then 0 else m.

(* match.go:32 FillOrder; None = panic *)
Definition fill_order (o : order) (a p : Z) : option order :=
  if a >? matchable_amount o p then None
  else Some (match o_dir o with
             | Buy => mkOrder (o_id o) (o_dir o) (o_price o) (o_amt o) (o_offer o)
                              (o_open o - a) (o_paid o + quote_ceil p a) (o_recv o + a) (o_batch o) (o_key o)
             | Sell => mkOrder (o_id o) (o_dir o) (o_price o) (o_amt o) (o_offer o)
                               (o_open o - a) (o_paid o + a) (o_recv o + quote_floor p a) (o_batch o) (o_key o)
             end).

(* the quoteCoinDiff contribution of one fill: buy +paid, sell -received *)
Definition fill_qdiff (f : fill) : Z :=
  match f_dir f with
  | Buy => quote_ceil (f_price f) (f_amt f)
  | Sell => - quote_floor (f_price f) (f_amt f)
  end.
Definition fills_qdiff (fs : list fill) : Z := zsum (map fill_qdiff fs).

(* apply one fill to the state.  The direction test is a model-internal consistency check (a fill
   is always generated from the order it names); were it ever false the replay reports a mismatch. *)
Definition apply_fill (os : list order) (f : fill) : option (list order) :=
  match nth_error os (f_id f) with
  | None => None
  | Some o =>
      if dir_eqb (f_dir f) (o_dir o) then
        match fill_order o (f_amt f) (f_price f) with
        | None => None
        | Some o' => set_nth os (f_id f) o'
        end
      else None
  end.

Fixpoint apply_fills (os : list order) (fs : list fill) : option (list order) :=
  match fs with
  | [] => Some os
  | f :: r => match apply_fill os f with None => None | Some os' => apply_fills os' r end
  end.

(* the orders named by a list of positions *)
Definition sel (os : list order) (ids : list nat) : list order :=
  flat_map (fun i => match nth_error os i with Some o => [o] | None => [] end) ids.

(* util.go:55/64 *)
Definition total_amount (l : list order) : Z := zsum (map o_amt l).
Definition total_matchable (l : list order) (p : Z) : Z := zsum (map (fun o => matchable_amount o p) l).

(* match.go:54-72 FulfillOrder / FulfillOrders *)
Definition fulfill_fills (l : list order) (p : Z) : list fill :=
  flat_map (fun o => let m := matchable_amount o p in
                     if m >? 0 then [mkFill (o_id o) (o_dir o) m p] else []) l.

(* ---------- util.go:76 GroupOrdersByBatchID ----------
   groups are kept sorted (non-zero batch ids ascending, then batch 0); sort.Search on the
   monotone predicate below is its first true index, written here as a linear scan. *)
Definition grp_pred (b gb : Z) : bool :=
  if b =? 0 then gb =? 0 else (gb =? 0) || (b <=? gb).

Fixpoint grp_append (b : Z) (o : order) (gs : list (Z * list order)) : list (Z * list order) :=
  match gs with
  | [] => []
  | (gb, l) :: r => if gb =? b then (gb, l ++ [o]) :: r else (gb, l) :: grp_append b o r
  end.

Fixpoint grp_insert (b : Z) (o : order) (gs : list (Z * list order)) : list (Z * list order) :=
  match gs with
  | [] => [(b, [o])]
  | (gb, l) :: r => if grp_pred b gb then (b, [o]) :: gs else (gb, l) :: grp_insert b o r
  end.

Definition grp_add (gs : list (Z * list order)) (o : order) : list (Z * list order) :=
  let b := o_batch o in
  if existsb (fun g => fst g =? b) gs then grp_append b o gs else grp_insert b o gs.

Definition group_by_batch (l : list order) : list (Z * list order) := fold_left grp_add l [].

(* ---------- util.go:103 SortOrders with types/order.go HasPriority ----------
   a has priority over b: larger amount; equal amounts: user before pool, then smaller id.
   The relation is a strict weak order, so the stable sort is the stable insertion sort. *)
Definition has_priority (a b : order) : bool :=
  (o_amt a >? o_amt b) || ((o_amt a =? o_amt b) && (o_key a <? o_key b)).

Fixpoint sort_insert (x : order) (l : list order) : list order :=
  match l with
  | [] => [x]
  | y :: r => if has_priority y x then y :: sort_insert x r else x :: l
  end.
Definition sort_orders (l : list order) : list order := fold_right sort_insert [] l.

(* ---------- match.go:337 DistributeOrderAmountToOrders ----------
   matchedAmtByOrder is the list [mp], parallel to [orders] (None = key absent). *)
Definition dist_pass1_one (total amt p : Z) (o : order) : option Z :=
  let m := matchable_amount o p in
  if m =? 0 then None
  else
    let proportion := dquo_trunc (dec_of_int (o_amt o)) (dec_of_int total) in
    let matched := Z.min m (dtrunc_int (dmul_int proportion amt)) in
    if matched >? 0 then Some matched else None.

Definition mp_val (x : option Z) : Z := match x with Some v => v | None => 0 end.
Definition mp_sum (mp : list (option Z)) : Z := zsum (map mp_val mp).

(* second loop: by priority, as much as possible; stops (break) when nothing remains *)
Fixpoint dist_pass2 (p : Z) (orders : list order) (mp : list (option Z)) (remaining : Z)
  : list (option Z) :=
  match orders, mp with
  | o :: orders', x :: mp' =>
      if remaining =? 0 then mp
      else
        let prev := mp_val x in
        let matched := Z.min remaining (matchable_amount o p - prev) in
        Some (prev + matched) :: dist_pass2 p orders' mp' (remaining - matched)
  | _, _ => mp
  end.

Definition dist_is_matched (p : Z) (o : order) (x : option Z) : bool :=
  let m := mp_val x in
  negb (m =? 0) && (dir_eqb (o_dir o) Buy || (quote_floor p m >? 0)).

Fixpoint dist_split (p : Z) (orders : list order) (mp : list (option Z)) : list order * list order :=
  match orders, mp with
  | o :: orders', x :: mp' =>
      let (ms, ns) := dist_split p orders' mp' in
      if dist_is_matched p o x then (o :: ms, ns) else (ms, o :: ns)
  | _, _ => ([], [])
  end.

Fixpoint dist_fills (p : Z) (orders : list order) (mp : list (option Z)) : list fill :=
  match orders, mp with
  | o :: orders', x :: mp' =>
      match x with
      | Some m => mkFill (o_id o) (o_dir o) m p :: dist_fills p orders' mp'
      | None => dist_fills p orders' mp'
      end
  | _, _ => []
  end.

(* result: the fills and the ghost flag "the retry branch ran" *)
Fixpoint distribute_to_orders (fuel : nat) (orders : list order) (amt p : Z) : option (list fill * bool) :=
  match fuel with
  | O => None
  | S f =>
      let total := total_amount orders in
      let mp1 := map (dist_pass1_one total amt p) orders in
      let mp2 := dist_pass2 p orders mp1 (amt - mp_sum mp1) in
      let (ms, ns) := dist_split p orders mp2 in
      match ns with
      | [] => Some (dist_fills p orders mp2, false)
      | _ :: _ =>
          match (match ms with
                 | [] => distribute_to_orders f (removelast orders) amt p
                 | _ :: _ => distribute_to_orders f ms amt p
                 end) with
          | Some (fs, _) => Some (fs, true)
          | None => None
          end
      end
  end.

Definition fills_amt (fs : list fill) : Z := zsum (map f_amt fs).

(* a phase of matching: the fills of one Go call and the ghost flag of the known-finding class *)
Record phase := mkPhase {
  ph_fills : list fill;
  ph_under : bool     (* some DistributeOrderAmountToOrders call ran its retry branch and did not
                         distribute exactly the requested amount *)
}.
Definition phase_nil : phase := mkPhase [] false.
Definition phase_app (a b : phase) : phase :=
  mkPhase (ph_fills a ++ ph_fills b) (ph_under a || ph_under b).

(* ---------- match.go:304 DistributeOrderAmountToTick ---------- *)
Fixpoint dist_groups (groups : list (Z * list order)) (remaining p : Z) : option phase :=
  match groups with
  | [] => Some phase_nil
  | (_, g) :: rest =>
      let openAmt := total_matchable g p in
      if openAmt =? 0 then dist_groups rest remaining p
      else if remaining >=? openAmt then
        let ph := mkPhase (fulfill_fills g p) false in
        let remaining' := remaining - openAmt in
        if remaining' =? 0 then Some ph
        else match dist_groups rest remaining' p with
             | Some ph' => Some (phase_app ph ph') | None => None end
      else
        match distribute_to_orders (S (length g)) (sort_orders g) remaining p with
        | Some (fs, retried) => Some (mkPhase fs (retried && negb (fills_amt fs =? remaining)))
        | None => None
        end
  end.

Definition distribute_to_tick (orders : list order) (amt p : Z) : option phase :=
  dist_groups (group_by_batch orders) amt p.

(* ---------- orderbook.go ---------- *)
Record tick := mkTick { t_price : Z; t_ids : list nat }.
Record book := mkBook { b_buys : list tick; b_sells : list tick }.

(* orderBookTicks.addOrder: findPrice is sort.Search on a predicate that is monotone over the
   sorted ticks = first index where it holds (linear scan here) *)
Fixpoint ticks_add (incr : bool) (price : Z) (id : nat) (ts : list tick) : list tick :=
  match ts with
  | [] => [mkTick price [id]]
  | t :: r =>
      if (if incr then t_price t >=? price else t_price t <=? price) then
        if t_price t =? price then mkTick (t_price t) (t_ids t ++ [id]) :: r
        else mkTick price [id] :: ts
      else t :: ticks_add incr price id r
  end.

Definition book_add (b : book) (o : order) : book :=
  if matchable_amount o (o_price o) >? 0 then
    match o_dir o with
    | Buy => mkBook (ticks_add false (o_price o) (o_id o) (b_buys b)) (b_sells b)
    | Sell => mkBook (b_buys b) (ticks_add true (o_price o) (o_id o) (b_sells b))
    end
  else b.

Definition new_book (os : list order) : book := fold_left book_add os (mkBook [] []).

Definition tick_orders (os : list order) (t : tick) : list order := sel os (t_ids t).
Definition tick_amt (os : list order) (p : Z) (t : tick) : Z := total_matchable (tick_orders os t) p.

(* ---------- match.go:112 FindMatchableAmountAtSinglePrice ---------- *)
(* buildSide: the prefix of ticks not beyond the match price *)
Fixpoint build_side (incr : bool) (p : Z) (ts : list tick) : list tick :=
  match ts with
  | [] => []
  | t :: r => if (if incr then t_price t >? p else t_price t <? p) then [] else t :: build_side incr p r
  end.

(* a side of the drop loop: the tick amounts of ticks[0..i] as a stack (head = tick i) and
   totalMatchableAmt *)
Definition side := (list Z * Z)%type.
Definition mk_side (os : list order) (p : Z) (ts : list tick) : side :=
  let amts := map (tick_amt os p) ts in (rev amts, zsum amts).

Definition is_nil {A} (l : list A) : bool := match l with [] => true | _ => false end.

(* result: None = out of fuel (never with the fuel given below) or an index panic;
   Some None = not found; Some (Some amt) *)
Fixpoint fma_loop (fuel : nat) (p : Z) (b s : side) : option (option Z) :=
  match fuel with
  | O => None
  | S f =>
      match b with
      | ([], _) => None
      | (ta :: brest, bt) =>
          let m := Z.min bt (snd s) in
          let other := bt - ta in
          let dropb := other >=? m in
          if dropb && is_nil brest then Some None
          else
            let b' := if dropb then (brest, bt - ta) else b in
            match s with
            | ([], _) => None
            | (sa :: srest, st) =>
                let m2 := Z.min (snd b') st in
                let other2 := st - sa in
                let partial := m2 - other2 in
                let drops := (other2 >=? m2) || (quote_floor p partial =? 0) in
                if drops && is_nil srest then Some None
                else
                  let s' := if drops then (srest, st - sa) else s in
                  if dropb || drops then fma_loop f p b' s' else Some (Some m2)
            end
      end
  end.

Definition find_matchable (os : list order) (bk : book) (p : Z) : option (option Z) :=
  let bs := build_side false p (b_buys bk) in
  if is_nil bs then Some None
  else
    let ss := build_side true p (b_sells bk) in
    if is_nil ss then Some None
    else fma_loop (S (length bs + length ss)) p (mk_side os p bs) (mk_side os p ss).

(* ---------- match.go:188 MatchAtSinglePrice ---------- *)
Fixpoint distribute_to_ticks (os : list order) (p : Z) (ts : list tick) (remaining : Z) : option phase :=
  match ts with
  | [] => Some phase_nil
  | t :: r =>
      let l := tick_orders os t in
      let tickAmt := total_matchable l p in
      if tickAmt <=? remaining then
        let ph := mkPhase (fulfill_fills l p) false in
        let remaining' := remaining - tickAmt in
        if remaining' =? 0 then Some ph
        else match distribute_to_ticks os p r remaining' with
             | Some ph' => Some (phase_app ph ph') | None => None end
      else distribute_to_tick l remaining p
  end.

(* None = fuel/panic inside the computation; Some None = not matched *)
Definition match_at_single_price (os : list order) (bk : book) (p : Z) : option (option phase) :=
  match find_matchable os bk p with
  | None => None
  | Some None => Some None
  | Some (Some amt) =>
      match distribute_to_ticks os p (b_buys bk) amt, distribute_to_ticks os p (b_sells bk) amt with
      | Some pb, Some ps => Some (Some (phase_app pb ps))
      | _, _ => None
      end
  end.

(* ---------- match.go:216 PriceDirection ---------- *)
Inductive pdir := Staying | Increasing | Decreasing.

(* returns (amount strictly beyond the last price, amount at the last price) *)
Fixpoint pd_side (incr : bool) (os : list order) (lp : Z) (ts : list tick) (acc : Z) : Z * Z :=
  match ts with
  | [] => (acc, 0)
  | t :: r =>
      if (if incr then t_price t >? lp else t_price t <? lp) then (acc, 0)
      else
        let amt := tick_amt os lp t in
        if t_price t =? lp then (acc, amt) else pd_side incr os lp r (acc + amt)
  end.

Definition price_direction (os : list order) (bk : book) (lp : Z) : pdir :=
  let '(buyOver, buyAt) := pd_side false os lp (b_buys bk) 0 in
  let '(sellUnder, sellAt) := pd_side true os lp (b_sells bk) 0 in
  if buyOver >? sellAt + sellUnder then Increasing
  else if sellUnder >? buyAt + buyOver then Decreasing
  else Staying.

(* ---------- match.go:254 Match ---------- *)
Record mresult := mkRes {
  r_orders  : list order;
  r_price   : Z;          (* matchPrice (meaningful when matched) *)
  r_matched : bool;
  r_fills   : list fill;  (* ghost: every fill, in order *)
  r_under   : bool        (* ghost: the known-finding class was entered *)
}.

(* the two-pointer loop; [bs]/[ss] are the ticks from bi / si on *)
Fixpoint match_loop (fuel : nat) (d : pdir) (os : list order) (bs ss : list tick)
         (mp : Z) (matched : bool) (fs : list fill) (under : bool) : option mresult :=
  match fuel with
  | O => None
  | S f =>
      match bs, ss with
      | bt :: brest, st :: srest =>
          if t_price bt >=? t_price st then
            let p := match d with Decreasing => t_price bt | _ => t_price st end in
            let bo := tick_orders os bt in
            let so := tick_orders os st in
            let buyOpen := total_matchable bo p in
            let sellOpen := total_matchable so p in
            if negb (buyOpen >? 0) then match_loop f d os brest ss mp matched fs under
            else if negb (sellOpen >? 0) then match_loop f d os bs srest mp matched fs under
            else
              match distribute_to_tick bo (if buyOpen <=? sellOpen then buyOpen else sellOpen) p,
                    distribute_to_tick so (if sellOpen <=? buyOpen then sellOpen else buyOpen) p with
              | Some pb, Some ps =>
                  let ph := phase_app pb ps in
                  match apply_fills os (ph_fills ph) with
                  | None => None
                  | Some os' =>
                      match_loop f d os'
                                 (if buyOpen <=? sellOpen then brest else bs)
                                 (if sellOpen <=? buyOpen then srest else ss)
                                 p true (fs ++ ph_fills ph) (under || ph_under ph)
                  end
              | _, _ => None
              end
          else Some (mkRes os mp matched fs under)
      | _, _ => Some (mkRes os mp matched fs under)
      end
  end.

(* OrderBook.MatchAtSinglePrice as a whole step: compute, then fill *)
Definition run_single (os : list order) (bk : book) (p : Z) : option mresult :=
  match match_at_single_price os bk p with
  | None => None
  | Some None => Some (mkRes os p false [] false)
  | Some (Some ph) =>
      match apply_fills os (ph_fills ph) with
      | None => None
      | Some os' => Some (mkRes os' p true (ph_fills ph) (ph_under ph))
      end
  end.

Definition match_book (os : list order) (bk : book) (lp : Z) : option mresult :=
  if is_nil (b_buys bk) || is_nil (b_sells bk) then Some (mkRes os lp false [] false)
  else
    let d := price_direction os bk lp in
    match run_single os bk lp with
    | None => None
    | Some r1 =>
        match d with
        | Staying => Some r1
        | _ =>
            match_loop (S (length (b_buys bk) + length (b_sells bk))) d (r_orders r1)
                       (b_buys bk) (b_sells bk) lp (r_matched r1) (r_fills r1) (r_under r1)
        end
    end.

(* entry points used by the runner: build the book like NewOrderBook(orders...) *)
Definition run_match (os : list order) (lp : Z) : option mresult := match_book os (new_book os) lp.
Definition run_single_price (os : list order) (p : Z) : option mresult := run_single os (new_book os) p.

(* unit level: the exported DistributeOrderAmountToOrders on a caller-sorted slice *)
Definition run_distribute (os : list order) (amt p : Z) : option mresult :=
  match distribute_to_orders (S (length os)) os amt p with
  | None => None
  | Some (fs, retried) =>
      match apply_fills os fs with
      | None => None
      | Some os' => Some (mkRes os' p true fs (retried && negb (fills_amt fs =? amt)))
      end
  end.
Definition run_sort (os : list order) : list nat := map o_id (sort_orders os).

(* modelled domain: positive prices and amounts, fresh or partially filled orders *)
Definition dom_order (o : order) : bool :=
  (0 <? o_price o) && (0 <? o_amt o) && (0 <=? o_offer o) && (0 <=? o_open o) && (o_open o <=? o_amt o)
  && (0 <=? o_paid o) && (o_paid o <=? o_offer o) && (0 <=? o_recv o)
  && (match o_dir o with Sell => o_paid o + o_open o <=? o_offer o | Buy => true end).
Definition dom_ok (os : list order) (p : Z) : bool := (0 <? p) && forallb dom_order os.

(* ================= the property, as executable predicates on observed outputs =================
   [os0] = the orders before the call, [os1] = after (the IMPLEMENTATION's, in the runner),
   [fs] = the ghost fill list of the model (only its per-order counts are used). *)
Definition zsum_by (f : order -> Z) (d : dir) (os : list order) : Z :=
  zsum (map (fun o => if dir_eqb (o_dir o) d then f o else 0) os).

Definition base_bought (os0 os1 : list order) : Z := zsum_by o_recv Buy os1 - zsum_by o_recv Buy os0.
Definition base_sold (os0 os1 : list order) : Z := zsum_by o_paid Sell os1 - zsum_by o_paid Sell os0.
Definition quote_paid (os0 os1 : list order) : Z := zsum_by o_paid Buy os1 - zsum_by o_paid Buy os0.
Definition quote_recv (os0 os1 : list order) : Z := zsum_by o_recv Sell os1 - zsum_by o_recv Sell os0.

(* conservation of base coin *)
Definition holds_C05_base (os0 os1 : list order) : bool := base_bought os0 os1 =? base_sold os0 os1.

(* rounding dust: 0 <= paid - received < number of fills (<= 0 when there is no fill) *)
Definition holds_C05_dust (os0 os1 : list order) (nfills : Z) : bool :=
  let d := quote_paid os0 os1 - quote_recv os0 os1 in
  (0 <=? d) && (d <? Z.max 1 nfills).

(* no order pays more than its offer coin or is filled beyond its amount *)
Definition order_bounded (o : order) : bool :=
  (0 <=? o_open o) && (o_open o <=? o_amt o) && (0 <=? o_paid o) && (o_paid o <=? o_offer o) && (0 <=? o_recv o).
Definition holds_C05_bounds (os1 : list order) : bool := forallb order_bounded os1.

(* limit price, up to one smallest quote unit per fill the order took part in *)
Definition count_fills (fs : list fill) (id : nat) : Z :=
  zlen (filter (fun f => Nat.eqb (f_id f) id) fs).
Definition order_limit_ok (o0 o1 : order) (n : Z) : bool :=
  match o_dir o1 with
  | Buy => (o_paid o1 - o_paid o0) * P18 <=? o_price o1 * (o_recv o1 - o_recv o0) + n * P18
  | Sell => o_price o1 * (o_paid o1 - o_paid o0) - n * P18 <=? (o_recv o1 - o_recv o0) * P18
  end.
Fixpoint holds_C05_limit (os0 os1 : list order) (fs : list fill) : bool :=
  match os0, os1 with
  | o0 :: r0, o1 :: r1 => order_limit_ok o0 o1 (count_fills fs (o_id o1)) && holds_C05_limit r0 r1 fs
  | [], [] => true
  | _, _ => false
  end.

(* a matched order received a strictly positive amount *)
Definition order_positive (o : order) : bool := negb (o_open o <? o_amt o) || (0 <? o_recv o).
Definition holds_C05_positive (os1 : list order) : bool := forallb order_positive os1.

(* the returned quoteCoinDiff is the dust *)
Definition holds_C05_qdiff (os0 os1 : list order) (qcd : Z) : bool :=
  qcd =? quote_paid os0 os1 - quote_recv os0 os1.

(* ---------- known finding C05-F1 ----------
   class of inputs on which the model's run enters a DistributeOrderAmountToOrders call whose retry
   branch (notMatchedOrders <> []) ran and whose fills do not add up to the requested amount *)
Definition kf_of (r : option mresult) : bool := match r with Some x => r_under x | None => false end.
Definition kf_C05_1 (os : list order) (lp : Z) : bool := kf_of (run_match os lp).
Definition kf_C05_1_single (os : list order) (p : Z) : bool := kf_of (run_single_price os p).
Definition kf_C05_1_dist (os : list order) (amt p : Z) : bool := kf_of (run_distribute os amt p).
