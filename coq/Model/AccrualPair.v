(* C18: the stability fee of an extended pair over time.  Model of
     asset/keeper/pairs_vault.go   WasmUpdatePairsVault (239-281)  the wasm binding / governance / v8
                                   upgrade entry point that changes an extended pair's StabilityFee
     asset/keeper/pairs_vault.go   VaultIterateRewards (302-364)   the sweep over the pair's vaults
     rewards/keeper/rewards.go     CalculateVaultInterest (639-697) (Model/AccrualSites.v vault_interest_with)
     vault/keeper/msg_server.go    MsgCreate (152-176: the new vault is stamped with the block time and the block height -
                                   height 0 while the pair's fee is zero),
                                   MsgDeposit / MsgWithdraw / MsgDraw / MsgRepay (CalculateVaultInterest on
                                   AmountOut + InterestAccumulated with the vault's stamps, then the vault is
                                   stamped again, whatever the fee), MsgVaultInterestCalc (1447: the
                                   calculation only)
   as a state machine over {time advance, vault create, vault touch, interest calculation, fee update}.
   [calc now bt principal rate] is rewards.CalculationOfRewards (Model/Accrual.v), an argument as in
   Model/AccrualSites.v.  Times are Unix seconds, Dec values 10^18-scaled integers.
   GHOST fields (not in the store, they define the property): [pv_cov] the time up to which the vault has
   been settled, [ps_tchg] the time since which the fee in force has had its
   current value, [ps_intr] a sweep was cut short by an error of CalculationOfRewards.
   Definitions only. *)
From Comdex Require Import Lib.Base Lib.DecArith Model.AccrualSites.
Require Import List ZArith Bool.
Import ListNotations.
Local Open Scope Z_scope.

Record pvault := mkPV {
  pv_debt : Z;               (* Vault.AmountOut *)
  pv_intacc : Z;             (* Vault.InterestAccumulated *)
  pv_tracker : option Z;     (* VaultInterestTracker.InterestAccumulated *)
  pv_bh : Z; pv_bt : Z;      (* Vault.BlockHeight, Vault.BlockTime *)
  pv_cov : Z }.              (* ghost *)

Record pstate := mkPS {
  ps_now : Z; ps_h : Z;      (* ctx.BlockTime().Unix(), ctx.BlockHeight() *)
  ps_wl : bool;              (* rewards.GetAppIDByApp found: the app is whitelisted for vault interest *)
  ps_stable : bool;          (* ExtendedPairVault.IsStableMintVault *)
  ps_fee : Z;                (* ExtendedPairVault.StabilityFee *)
  ps_pbt : Z; ps_pbh : Z;    (* ExtendedPairVault.BlockTime, BlockHeight *)
  ps_vaults : list pvault;   (* AppExtendedPairVaultMapping.VaultIds, in order *)
  ps_tchg : Z;               (* ghost *)
  ps_intr : bool }.          (* ghost *)

(* one accrual: vault index, the vault's record before the step, start of the accrual period, principal,
   rate, amount (the period ends now) *)
Record charge := mkCh { ch_v : Z; ch_pre : pvault; ch_from : Z; ch_princ : Z; ch_rate : Z; ch_amt : Z }.

Inductive pop : Type :=
| OAdvance (dt dh : Z)       (* a later block *)
| OCreate (debt : Z)         (* MsgCreate *)
| OCalc (v : nat)            (* MsgVaultInterestCalc *)
| OTouch (v : nat) (delta : Z) (* MsgDeposit / MsgWithdraw (delta = 0), MsgDraw (delta = the amount drawn) *)
| OSetFee (f : Z).           (* WasmUpdatePairsVault *)

(* the start of the accrual period: the pair's stamp when the vault has height 0 or carries an OLDER stamp
   of its own (repair of C18-F2: an owner message stamps the vault even while the fee is zero) *)
Definition eff_bt (s : pstate) (v : pvault) : Z :=
  if (pv_bh v =? 0) || (pv_bt v <? ps_pbt s) then ps_pbt s else pv_bt v.

Definition site_of (s : pstate) (v : pvault) : vault_site :=
  mkVS (ps_wl s) true (ps_fee s) (ps_stable s) (ps_pbt s) (pv_bh v) (pv_bt v)
       (pv_debt v + pv_intacc v) (pv_tracker v) (pv_intacc v).

Fixpoint set_nth {A} (n : nat) (x : A) (l : list A) : list A :=
  match l, n with
  | [], _ => []
  | _ :: tl, O => x :: tl
  | h :: tl, S k => h :: set_nth k x tl
  end.

(* CalculateVaultInterest on vault [i]: both of its branches stamp the vault with the block *)
Definition calc_vault (calc : Z -> Z -> Z -> Z -> outcome Z) (s : pstate) (i : nat) (v : pvault)
  : outcome (pvault * list charge) :=
  match vault_interest_with calc (ps_now s) (site_of s v) with
  | Panic => Panic
  | Err c => Err c
  | Ok Untouched => Ok (v, [])
  | Ok (Updated x p t' r') =>
      Ok (mkPV (pv_debt v) r' (Some t') (ps_h s) (ps_now s) (ps_now s),
          [mkCh (Z.of_nat i) v (eff_bt s v) (pv_debt v + pv_intacc v) (ps_fee s) x])
  end.

(* VaultIterateRewards: every vault of the mapping, principal AmountOut, rate and fallback time base the
   OLD fee and the pair's OLD stamp; an error of CalculationOfRewards ends the loop (the vaults after it
   are left as they were; the caller goes on).  None = panic. *)
Fixpoint sweep (calc : Z -> Z -> Z -> Z -> outcome Z) (now h lsr cbt : Z) (change_types : bool) (i : Z) (vs : list pvault)
  : option (list pvault * list charge * bool) :=
  match vs with
  | [] => Some ([], [], false)
  | v :: tl =>
      match vault_iterate_one_with calc now lsr cbt (pv_bh v) (pv_bt v) (pv_debt v) (pv_tracker v) (pv_intacc v) with
      | Panic => None
      | Err _ => Some (v :: tl, [], true)
      | Ok Untouched => None      (* never returned by vault_iterate_one_with *)
      | Ok (Updated x p t' r') =>
          match sweep calc now h lsr cbt change_types (i + 1) tl with
          | None => None
          | Some (tl', cs, intr) =>
              Some (mkPV (pv_debt v) r' (Some t') (if change_types then h else 0) now now :: tl',
                    mkCh i v (if (pv_bh v =? 0) || (pv_bt v <? cbt) then cbt else pv_bt v) (pv_debt v) lsr x :: cs, intr)
          end
      end
  end.

(* WasmUpdatePairsVault.  `ExtPairVaultData.StabilityFee != updatePairVault.StabilityFee` compares two
   sdk.Dec STRUCTS, i.e. their *big.Int pointers: the two values never share one, the test is always
   true (an update to the SAME fee sweeps and stamps too; the correspondence run drives that case). *)
Definition set_fee (calc : Z -> Z -> Z -> Z -> outcome Z) (s : pstate) (f : Z) : outcome (pstate * list charge) :=
  let tchg := if f =? ps_fee s then ps_tchg s else ps_now s in
  if ps_wl s && negb (ps_stable s) then
    if f =? 0 then
      match sweep calc (ps_now s) (ps_h s) (ps_fee s) (ps_pbt s) false 0 (ps_vaults s) with
      | None => Panic
      | Some (vs, cs, intr) =>
          Ok (mkPS (ps_now s) (ps_h s) (ps_wl s) (ps_stable s) f (ps_now s) 0 vs tchg (ps_intr s || intr), cs)
      end
    else if ps_fee s =? 0 then
      Ok (mkPS (ps_now s) (ps_h s) (ps_wl s) (ps_stable s) f (ps_now s) (ps_h s)
               (ps_vaults s) tchg (ps_intr s), [])   (* zero -> non-zero: no vault is visited *)
    else if (0 <? ps_fee s) && (0 <? f) then
      match sweep calc (ps_now s) (ps_h s) (ps_fee s) (ps_pbt s) true 0 (ps_vaults s) with
      | None => Panic
      | Some (vs, cs, intr) =>
          Ok (mkPS (ps_now s) (ps_h s) (ps_wl s) (ps_stable s) f (ps_now s) (ps_h s) vs tchg (ps_intr s || intr), cs)
      end
    else Ok (mkPS (ps_now s) (ps_h s) (ps_wl s) (ps_stable s) f (ps_pbt s) (ps_pbh s) (ps_vaults s) tchg (ps_intr s), [])
  else Ok (mkPS (ps_now s) (ps_h s) (ps_wl s) (ps_stable s) f (ps_pbt s) (ps_pbh s) (ps_vaults s) tchg (ps_intr s), []).

Definition with_vaults (s : pstate) (vs : list pvault) : pstate :=
  mkPS (ps_now s) (ps_h s) (ps_wl s) (ps_stable s) (ps_fee s) (ps_pbt s) (ps_pbh s) vs (ps_tchg s) (ps_intr s).

(* Err 9 = no such vault *)
Definition pstep (calc : Z -> Z -> Z -> Z -> outcome Z) (s : pstate) (o : pop) : outcome (pstate * list charge) :=
  match o with
  | OAdvance dt dh =>
      Ok (mkPS (ps_now s + dt) (ps_h s + dh) (ps_wl s) (ps_stable s) (ps_fee s) (ps_pbt s) (ps_pbh s) (ps_vaults s)
               (ps_tchg s) (ps_intr s), [])
  | OCreate d =>
      Ok (with_vaults s (ps_vaults s ++ [mkPV d 0 None (if ps_fee s =? 0 then 0 else ps_h s) (ps_now s) (ps_now s)]), [])
  | OCalc i =>
      match nth_error (ps_vaults s) i with
      | None => Err 9
      | Some v =>
          match calc_vault calc s i v with
          | Panic => Panic | Err c => Err c
          | Ok (v', cs) => Ok (with_vaults s (set_nth i v' (ps_vaults s)), cs)
          end
      end
  | OTouch i delta =>
      match nth_error (ps_vaults s) i with
      | None => Err 9
      | Some v =>
          match calc_vault calc s i v with
          | Panic => Panic | Err c => Err c
          | Ok (v', cs) =>
              Ok (with_vaults s (set_nth i (mkPV (pv_debt v' + delta) (pv_intacc v') (pv_tracker v') (ps_h s) (ps_now s)
                                                 (ps_now s)) (ps_vaults s)), cs)
          end
      end
  | OSetFee f => set_fee calc s f
  end.

(* a failed operation leaves the state as it was (the message / binding is reverted) *)
Definition pstep_total (calc : Z -> Z -> Z -> Z -> outcome Z) (s : pstate) (o : pop) : pstate * list charge :=
  match pstep calc s o with Ok r => r | _ => (s, []) end.

(* the whole history: the final state and, per step, the state before it and its accruals *)
Fixpoint prun (calc : Z -> Z -> Z -> Z -> outcome Z) (s : pstate) (ops : list pop) : pstate * list (pstate * list charge) :=
  match ops with
  | [] => (s, [])
  | o :: tl => let '(s', cs) := pstep_total calc s o in
               let '(sf, log) := prun calc s' tl in (sf, (s, cs) :: log)
  end.

(* ---------------- the property ---------------- *)
(* an accrual is legitimate in the state [s] before the step: it is made at the fee in force, over a
   period that starts no earlier than the vault was settled last and no earlier than that fee came into
   force (at a zero fee the sweep of a zero -> zero update evaluates CalculationOfRewards at rate 0 over
   whatever period the stamps give: such an entry is legitimate, its amount is the accrual at rate 0),
   on a principal within the vault's debt *)
Definition charge_legit (calc : Z -> Z -> Z -> Z -> outcome Z) (s : pstate) (c : charge) : Prop :=
  ch_rate c = ps_fee s /\
  (ps_fee s = 0 \/ (Z.max (pv_cov (ch_pre c)) (ps_tchg s) <= ch_from c /\ ch_from c <= ps_now s)) /\
  (ch_princ c = pv_debt (ch_pre c) \/ ch_princ c = pv_debt (ch_pre c) + pv_intacc (ch_pre c)) /\
  calc (ps_now s) (ch_from c) (ch_princ c) (ch_rate c) = Ok (ch_amt c).

(* the executable form judged on the IMPLEMENTATION's observations: [charged] is what one step added to
   InterestAccumulated * 10^18 + tracker of a vault whose debt + interest was [owed] before the step,
   [fee] / [tchg] the fee in force before the step and since when, [cov] the vault's settlement time *)
Definition holds_C18_pair_charge (calc : Z -> Z -> Z -> Z -> outcome Z) (now fee tchg cov owed charged : Z) : bool :=
  (0 <=? charged) &&
  (if (fee =? 0) || (now <=? Z.max cov tchg) then charged =? 0
   else match calc now (Z.max cov tchg) owed fee with
        | Ok b => charged <=? b
        | _ => true
        end).

(* well-formed operations and initial states *)
Definition pop_wf (o : pop) : Prop :=
  match o with
  | OAdvance dt dh => 0 <= dt /\ 0 <= dh
  | OCreate d => 0 <= d
  | OCalc _ => True
  | OTouch _ delta => 0 <= delta
  | OSetFee f => 0 <= f
  end.
(* WasmAddExtendedPairsVaultRecords (171-197): the new pair is stamped with the block time and the block
   height - height 0 when it is created with a zero fee *)
Definition pinit (now h : Z) (wl stable : bool) (fee : Z) : pstate :=
  mkPS now h wl stable fee now (if fee =? 0 then 0 else h) [] now false.
