(* Model of the band-oracle side of the price pipeline, statement by statement:
     x/bandoracle/abci.go            BeginBlocker  (the 20-block check: request ids, outage length
                                     against AcceptedHeightDiff, DiscardBool / discard height)
     x/bandoracle/keeper/oracle.go   AddFetchPriceRecords (registration of the fetch-price proposal),
                                     OraclePriceValidationByRequestID, the Get/Set pairs
     x/bandoracle/oracle.go          handleOracleAcknowledgment (SetLastFetchPriceID),
                                     handleOraclePacket (SetFetchPriceResult)
     x/bandoracle/types/gov.go       FetchPriceProposal.ValidateBasic (TwaBatchSize = 0 rejected)
     x/asset/keeper/asset.go         AddAssetRecords: SetCheckFlag(false) for a price-requiring asset
   and the composition "bandoracle.BeginBlocker, then market.BeginBlocker" (app.go order) as one
   block of the pipeline, on top of Model/Market.v.  IBC transport is injected: the ops [Ack] and
   [Result] are what OnAcknowledgementPacket / OnRecvPacket write.
   Definitions only; proofs live in Proofs/BandOracleProofs.v. *)
From Comdex Require Import Lib.Base Model.Market.

(* the fields of MsgFetchPriceData the pipeline reads *)
Record fmsg := mkFmsg {
  f_script : Z;   (* OracleScriptID (uint64) *)
  f_n : Z;        (* TwaBatchSize (uint64) *)
  f_gap : Z       (* AcceptedHeightDiff (int64) *)
}.
Definition fmsg0 := mkFmsg 0 0 0.   (* GetFetchPriceMsg on an empty store *)

Record bstate := mkBand {
  b_block : Z;                    (* LastBlockHeight: height of the registration, 0 = none *)
  b_last : Z;                     (* LastFetchPriceID: request id of the last acknowledged request *)
  b_temp : Z;                     (* TempFetchPriceID: the request id seen by the previous check *)
  b_check : bool;                 (* CheckFlag *)
  b_dheight : Z;                  (* DiscardData.BlockHeight *)
  b_dbool : bool;                 (* DiscardData.DiscardBool *)
  b_valid : bool;                 (* OracleValidationResult *)
  b_msg : fmsg;                   (* the stored fetch-price message *)
  b_results : list (Z * list Z)   (* FetchPriceResult by request id, latest write first *)
}.

(* every getter on an empty store returns the zero value *)
Definition band0 := mkBand 0 0 0 false 0 false false fmsg0 [].

(* GetFetchPriceResult(id).Rates: nil (= []) when there is no result for the id *)
Fixpoint lookup_result (rs : list (Z * list Z)) (id : Z) : list Z :=
  match rs with
  | [] => []
  | (k, v) :: r => if k =? id then v else lookup_result r id
  end.

(* the discard bookkeeping of the second branch of BeginBlocker (abci.go:41-51):
   returns the new (BlockHeight, DiscardBool) *)
Definition discard_update (h gap : Z) (res : bool) (dh : Z) (db : bool) : Z * bool :=
  if negb res && (dh <? 0) then (h, db)
  else if res && (dh >? 0) then
    if h - dh <? gap then (-1, db)
    else if h - dh >=? gap then (-1, true)
    else (dh, db)
  else (dh, db).

(* bandoracle.BeginBlocker at height h.  FetchPrice (sending the next request) writes nothing the
   pipeline reads and returns nil on every failure. *)
Definition band_begin_block (h : Z) (b : bstate) : bstate :=
  if b_block b =? 0 then b
  else if h mod 20 =? 0 then
    if negb (b_check b) then
      (* first check after a check-flag reset: everything acknowledged so far counts as seen
         (abci.go:25 after fix C17-F4: SetTempFetchPriceID(GetLastFetchPriceID)) *)
      mkBand (b_block b) (b_last b) (b_last b) true (b_dheight b) (b_dbool b) false (b_msg b) (b_results b)
    else
      let res := negb (b_last b =? b_temp b) in      (* OraclePriceValidationByRequestID *)
      let d := discard_update h (f_gap (b_msg b)) res (b_dheight b) (b_dbool b) in
      mkBand (b_block b) (b_last b) (b_last b) (b_check b) (fst d) (snd d) res (b_msg b) (b_results b)
  else b.

(* AddFetchPriceRecords at height h (the market records are deleted by the caller below) *)
Definition add_fetch_price_records (h : Z) (m : fmsg) (b : bstate) : bstate :=
  mkBand h (b_last b) (b_temp b) false (-1) false (b_valid b) m (b_results b).

Definition set_check (b : bstate) (c : bool) : bstate :=
  mkBand (b_block b) (b_last b) (b_temp b) c (b_dheight b) (b_dbool b) (b_valid b) (b_msg b) (b_results b).
Definition set_last (b : bstate) (r : Z) : bstate :=
  mkBand (b_block b) r (b_temp b) (b_check b) (b_dheight b) (b_dbool b) (b_valid b) (b_msg b) (b_results b).
Definition set_dbool (b : bstate) (d : bool) : bstate :=
  mkBand (b_block b) (b_last b) (b_temp b) (b_check b) (b_dheight b) d (b_valid b) (b_msg b) (b_results b).
Definition add_result (b : bstate) (r : Z) (rates : list Z) : bstate :=
  mkBand (b_block b) (b_last b) (b_temp b) (b_check b) (b_dheight b) (b_dbool b) (b_valid b) (b_msg b)
         ((r, rates) :: b_results b).

(* ------------------------------------------------------------------------------------ *)
(* The pipeline: band state, asset list (id ascending, IsOraclePriceRequired), Twa store. *)
Record pstate := mkP { p_band : bstate; p_assets : list (Z * bool); p_store : mstore }.
Definition pinit := mkP band0 [] [].

(* what market.BeginBlocker reads from the band keeper at height h *)
Definition market_env (h : Z) (b : bstate) : bb_env :=
  mkBB (b_valid b) (b_block b) h (b_dbool b) (lookup_result (b_results b) (b_last b))
       (f_n (b_msg b)) (f_gap (b_msg b)).

(* one block: bandoracle.BeginBlocker, then market.BeginBlocker *)
Definition block_step (h : Z) (p : pstate) : outcome pstate :=
  let b1 := band_begin_block h (p_band p) in
  match begin_block (market_env h b1) (p_assets p) (p_store p) with
  | Ok (s', d) => Ok (mkP (set_dbool b1 d) (p_assets p) s')
  | Err c => Err c
  | Panic => Panic
  end.

Inductive pop :=
| Block (h : Z)                     (* the two BeginBlockers at height h *)
| Ack (r : Z)                       (* OnAcknowledgementPacket: the request got id r *)
| Result (r : Z) (rates : list Z)   (* OnRecvPacket: the result of request r arrived *)
| Register (h : Z) (m : fmsg)       (* the fetch-price proposal: ValidateBasic, then the handler at height h *)
| AddAsset (req : bool).            (* AddAssetRecords: next asset id, IsOraclePriceRequired = req *)

Definition pstep (p : pstate) (o : pop) : outcome pstate :=
  match o with
  | Block h => block_step h p
  | Ack r => Ok (mkP (set_last (p_band p) r) (p_assets p) (p_store p))
  | Result r rates => Ok (mkP (add_result (p_band p) r rates) (p_assets p) (p_store p))
  | Register h m =>
      if f_n m =? 0 then Ok p       (* rejected by ValidateBasic: nothing is written *)
      else Ok (mkP (add_fetch_price_records h m (p_band p)) (p_assets p) [])
  | AddAsset req =>
      Ok (mkP (if req then set_check (p_band p) false else p_band p)
              (p_assets p ++ [(zlen (p_assets p) + 1, req)]) (p_store p))
  end.

Fixpoint prun (p : pstate) (ops : list pop) : outcome pstate :=
  match ops with
  | [] => Ok p
  | o :: r => obind (pstep p o) (fun p' => prun p' r)
  end.

(* ------------------------------------------------------------------------------------ *)
(* The observer: per asset, the positive samples delivered since the last wipe of its window
   (Market.ghost), maintained from the ops each block delivers.  A registration wipes all. *)
Definition gstore := list (Z * ghost).

Fixpoint gget (gs : gstore) (id : Z) : ghost :=
  match gs with
  | [] => ghost0
  | (k, g) :: r => if k =? id then g else gget r id
  end.

Definition gapply (gap : Z) (gs : gstore) (ops : list (Z * mop)) : gstore :=
  fold_left (fun acc io => (fst io, ghost_step gap (gget acc (fst io)) (snd io)) :: acc) ops gs.

(* the per-asset ops the block at height h delivers in state p *)
Definition block_ops (h : Z) (p : pstate) : list (Z * mop) :=
  bb_ops (market_env h (band_begin_block h (p_band p))) (p_assets p) (map fst (p_store p)).

Definition pghost (p : pstate) (gs : gstore) (o : pop) : gstore :=
  match o with
  | Block h => gapply (f_gap (b_msg (p_band p))) gs (block_ops h p)
  | Register h m => if f_n m =? 0 then gs else []
  | _ => gs
  end.

(* state and observer together over a history *)
Fixpoint prun_g (p : pstate) (gs : gstore) (ops : list pop) : outcome (pstate * gstore) :=
  match ops with
  | [] => Ok (p, gs)
  | o :: r => obind (pstep p o) (fun p' => prun_g p' (pghost p gs o) r)
  end.

(* ------------------------------------------------------------------------------------ *)
(* The property predicate on one observed record (the runner evaluates it on the
   IMPLEMENTATION's records): the window holds exactly the last min(n, |hist|) samples delivered
   since the last wipe, arranged as the ring the code uses; the price is active only on a full
   window; an active price is the integer mean of the last n samples. *)
Fixpoint zlist_eqb (a b : list Z) : bool :=
  match a, b with
  | [], [] => true
  | x :: a', y :: b' => (x =? y) && zlist_eqb a' b'
  | _, _ => false
  end.

Definition ring_b (n : Z) (h : list Z) (tw : twa) : bool :=
  if zlen h <? n then
    zlist_eqb (vals tw) (rev h) && (idx tw =? zlen h) && negb (active tw)
  else
    (zlen (vals tw) =? n) && (0 <=? idx tw) && (idx tw <? n) &&
    zlist_eqb (skipn (Z.to_nat (idx tw)) (vals tw) ++ firstn (Z.to_nat (idx tw)) (vals tw))
              (rev (firstn (Z.to_nat n) h)).

Definition holds_C17_pipe (n : Z) (g : ghost) (t : option twa) : bool :=
  match t with
  | None => negb (g_exists g)
  | Some tw =>
      g_exists g && (disc tw =? g_disc g) && ring_b n (g_hist g) tw &&
      (if active tw then avg tw =? zsum (firstn (Z.to_nat n) (g_hist g)) / n else true)
  end.

(* the whole store against the observer: every record, and no record outside the asset list *)
Definition holds_C17_store (n : Z) (gs : gstore) (ids : list Z) (s : mstore) : bool :=
  forallb (fun id => holds_C17_pipe n (gget gs id) (sget s id)) ids &&
  forallb (fun kv => holds_C17_pipe n (gget gs (fst kv)) (Some (snd kv))) s.

(* ------------------------------------------------------------------------------------ *)
(* Freshness of what is delivered.  [delivered_id h b]: the request id whose result the market
   hook hands to UpdatePriceList in the block at height h, b being the band state that hook reads
   (i.e. after the band hook); None when nothing is delivered. *)
Definition delivered_id (h : Z) (b : bstate) : option Z :=
  if b_valid b && negb (b_block b =? 0) && (h mod 20 =? 0) then
    match lookup_result (b_results b) (b_last b) with
    | [] => None
    | _ :: _ => Some (b_last b)
    end
  else None.

Fixpoint zmem (x : Z) (l : list Z) : bool :=
  match l with [] => false | y :: r => (x =? y) || zmem x r end.

(* the property: the result of a request is delivered to the averaging windows at most once
   ([consumed] = the ids delivered so far) *)
Definition holds_C17_fresh (consumed : list Z) (d : option Z) : bool :=
  match d with Some r => negb (zmem r consumed) | None => true end.

Definition consume (consumed : list Z) (d : option Z) : list Z :=
  match d with Some r => r :: consumed | None => consumed end.

Definition pconsumed (p : pstate) (consumed : list Z) (o : pop) : list Z :=
  match o with
  | Block h => consume consumed (delivered_id h (band_begin_block h (p_band p)))
  | _ => consumed
  end.
