(* The hook language: the SHAPE of a block hook as data.  Gen/HookTable.v (regenerated from the Go
   source by tools/goextract/emit_hooks.go on every check) is a table of such terms.

     Seq l            statements in sequence (conditionals are flattened: both branches)
     ForEach items b  a for / range loop over [items] (source text of the ranged expression)
     Wrapped b        utils.ApplyFuncIfNoError(ctx, func(ctx) error { b })   (types/utils.go:245)
     Call name k      a call of a repository function or of a keeper outside the repository;
                      k = Reads (writes nothing, transitively) | Writes (leaf that writes state)
                        | Expand (the function has its own row in the table)
     Risk kind text   a construct outside every wrap that can panic by itself
                      (kind = slice | index | div | panic)
     OnErr r c        (inside an ApplyFuncIfNoError closure only) the call c yields an error and the
                      closure treats it as r: ReturnsCallErr = the closure returns a non-nil error
                      whenever c did; SwallowsErr = the error is dropped (assigned to _, only logged,
                      `return nil`, `continue`) and the closure goes on; UnrecognisedErr = a shape the
                      translator does not read (tools/goextract/emit_hooks_errflow.go)
     Unrecognised w   a shape the translator does not understand (fails every table theorem)

   apply_stmt: the statements of types/utils.go ApplyFuncIfNoError itself, read by the translator:
     ADeferRecover    defer func() { if r := recover(); r != nil { ... } }()
     ACacheCtx        cacheCtx, writeCache := ctx.CacheContext()
     ARunOnCache      err = f(cacheCtx)          ARunOnParent   err = f(ctx)
     AWrite           writeCache()
     AIfErrNil y n    if err == nil { y } else { n }
     ALog             a statement that only logs
     AReturnErr       return err                 AReturnNil     return nil *)
From Coq Require Import List String.

Inductive call_kind := Reads | Writes | Expand.

Inductive err_result := ReturnsCallErr | SwallowsErr | UnrecognisedErr (what : string).

Inductive hook :=
| Seq (l : list hook)
| ForEach (items : string) (body : hook)
| Wrapped (body : hook)
| Call (name : string) (k : call_kind)
| Risk (kind text : string)
| Unrecognised (what : string)
| OnErr (r : err_result) (c : hook).

Inductive apply_stmt :=
| ADeferRecover | ACacheCtx | ARunOnCache | ARunOnParent | AWrite
| AIfErrNil (yes no : list apply_stmt)
| ALog | AReturnErr | AReturnNil
| AUnrecognised (what : string).
