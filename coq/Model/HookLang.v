(* The hook language: the SHAPE of a block hook as data.  Gen/HookTable.v (regenerated from the Go
   source by tools/goextract/emit_hooks.go on every check) is a table of such terms.

     Seq l            statements in sequence (conditionals are flattened: both branches)
     ForEach items b  a for / range loop over [items] (source text of the ranged expression)
     Wrapped b        utils.ApplyFuncIfNoError(ctx, func(ctx) error { b })   (types/utils.go:245)
     Call name k      a call of a repository function or of a keeper outside the repository;
                      k = Reads (writes nothing, transitively) | Writes (leaf that writes state)
                        | Expand (the function has its own row in the table)
     Risk kind text   a construct outside every wrap that can panic by itself
                      (kind = slice | index | div | panic)
     Unrecognised w   a shape the translator does not understand (fails every table theorem) *)
From Coq Require Import List String.

Inductive call_kind := Reads | Writes | Expand.

Inductive hook :=
| Seq (l : list hook)
| ForEach (items : string) (body : hook)
| Wrapped (body : hook)
| Call (name : string) (k : call_kind)
| Risk (kind text : string)
| Unrecognised (what : string).
