(* Concrete configuration and history for the non-vacuity Examples of the emergency-shutdown theorems
   (Properties/C01.v, C02.v).  It is the history replayed on the real keepers in fixes/C01-F5/message.txt and in
   the scratch run behind it: app 1, governance token 1, collaterals 2 (price 2.0) and 3 (stable-mint, rate 1),
   debt asset 4 (rate 1); CDP product 1 (draw-down fee 1 %), stable-mint product 2; users 2 and 3.
   Two vaults (100000000 / 100000000 and 50000000 / 40000000), one stable-mint vault (30000000); deposits of
   governance tokens up to the target 1000000, MsgExecuteESM (cool-off 100 s), three BeginBlocker runs (snapshot;
   vault + stable-mint + collector steps; share calculation) and four redemptions that retire the whole debt.
   The numbers of the Examples (shares 0.909090909090909091 / 0.090909090909090909, worth 1957295.37..., payouts
   8896795 / 1779359, the dust 31 / 7 left in the esm account) are those the real keepers produced.
   Definitions only. *)
From Comdex Require Import Lib.Base Lib.DecArith Model.Vault Model.VaultLife Model.EsmLife.

Definition ex_M : Z := 1000000.
Definition ee_ep1 := mkEP 1 1 2 4 ex_M ex_M 0 0 10000000000000000 1500000000000000000 ex_M 1000000000000 false true true ex_M.
Definition ee_ep2 := mkEP 2 1 3 4 ex_M ex_M 0 0 0 P18 ex_M 1000000000000 true true true ex_M.
Definition ee_cfg := mkCfg [1] [ee_ep1; ee_ep2].
Definition ee_price (a : Z) : option Z := if a =? 2 then Some 2000000 else if (a =? 3) || (a =? 4) then Some ex_M else None.
Definition ee_lc := mkLC (fun _ => 0) (fun _ => true) (fun _ => true) (fun _ => 0) 600 (fun _ x => if (x =? 4) || (x =? 3) then ex_M else 0).
Definition ee_ec := mkEC (fun _ => Some ex_M) (fun _ => 100) (fun _ => Some 1) [2; 3; 4] (fun a => if (1 <=? a) && (a <=? 4) then Some ex_M else None).
Definition ee_bal (a d : Z) : Z := if (a =? 2) || (a =? 3) then (if d =? 1 then 500000000 else if d =? 4 then 0 else 1000000000) else 0.
Definition ee_sup (d : Z) : Z := if d =? 1 then 1000000000 else if d =? 4 then 0 else 2000000000.
Definition ee_init := elift (lift (init ee_bal ee_sup 1000 ee_price)) (fun _ => Some 1000000000).
Definition ee_denoms := [2; 3; 4].

Definition ee_ops := [ELife (VOp (Create 2 1 1 100000000 100000000)); ELife (VOp (Create 3 1 1 50000000 40000000)); ELife (VOp (StableCreate 3 1 2 30000000));
  EDeposit 2 1 1 600000; EExecute 2 1; EDeposit 3 1 1 600000; EDeposit 3 1 1 600000; EExecute 2 1;
  ELife (VOp (AdvanceTime 5)); EBegin [(1, [(4, 1400000)])]; ERedeem 2 1 4 1000000;
  ELife (VOp (AdvanceTime 200)); EBegin [(1, [(4, 1400000)])];
  ELife (VOp (AdvanceTime 5)); EBegin [(1, [(4, 0)])];
  ERedeem 2 1 4 10000000; ERedeem 3 1 4 1; ERedeem 3 1 4 69599999; ERedeem 2 1 4 89000000].

Fixpoint eclasses (c : cfg) (lc : lcfg) (ec : ecfg) (e : estate) (ops : list eop) : list Z :=
  match ops with [] => [] | o :: r => eresult_class c lc ec e o :: eclasses c lc ec (estep c lc ec e o) r end.
