(* A concrete configuration and history used by the non-vacuity Examples of Properties/C01-C03.v:
   one CDP product (decimals 10^6 / 10^6, closing fee 0.5 %, draw-down fee 1 %, min c-ratio 1.5,
   floor 1 unit, ceiling 10^6 units) and one stable-mint product (decimals 10^6 -> 10^18, zero
   fees: the configuration of the C02-F1 witness), two users.  Definitions only. *)
From Comdex Require Import Lib.Base Lib.DecArith Model.Vault.

Definition ex_ep1 := mkEP 1 1 1 2 1000000 1000000 0 5000000000000000 10000000000000000 1500000000000000000
                          1000000 1000000000000 false true false 1000000.
Definition ex_ep2 := mkEP 2 1 3 4 1000000 P18 0 0 0 P18 1 (1000000 * P18) true true false 1000000.
Definition ex_cfg := mkCfg [1] [ex_ep1; ex_ep2].
Definition ex_bal (a d : Z) : Z := if (2 <=? a) && (d <? 4) then 1000000000 else 0.
Definition ex_sup (d : Z) : Z := if d <? 4 then 2000000000 else 0.
Definition ex_price (a : Z) : option Z := if a =? 1 then Some 2000000 else None.
Definition ex_init := init ex_bal ex_sup 1000 ex_price.
(* 13 successful messages (two vaults and a stable-mint vault opened, one vault closed), an
   unsolicited transfer, then the collateral price goes inactive and a draw and a create fail *)
Definition ex_ops := [Create 2 1 1 30000000 10000000; Deposit 2 1 1 1 5000000 7; Draw 2 1 1 1 1000000 3;
   Create 3 1 1 9000000 2000000; Withdraw 2 1 1 1 1000000 0; Repay 2 1 1 1 500000 2; StableCreate 3 1 2 2000000;
   StableDeposit 3 1 2 1 1000000; StableWithdraw 3 1 2 1 P18; Donate 3 1 777; DepositDraw 3 1 1 2 3000000 1 1;
   Close 2 1 1 1 5; SetPrice 1 None; Draw 3 1 1 2 5 0; Create 3 1 1 9000000 6000001].
Definition ex_denoms := [1; 2; 3; 4].
Fixpoint classes (c : cfg) (s : state) (ops : list op) : list Z :=
  match ops with [] => [] | o :: r => result_class c s o :: classes c (step c s o) r end.
