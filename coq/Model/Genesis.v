(* C20 - genesis export / re-import.  Definitions only.

   A module store is a finite map  prefix byte -> entries (key, value), keys and values being
   opaque integer codes.  [export] and [init] are the functions that the REGENERATED table
   (Gen/GenesisTable.v: which getter fills which GenesisState field and which prefixes it reads;
   which setter InitGenesis calls with which fields and which prefixes it writes) describes:

   - ExportGenesis emits, per (field, prefix read by its getter), one chunk: the entries under that
     prefix - or one zero-valued record per entry when the getter never looks at the stored value
     (collector.GetAllNetFeeCollectedData before its repair; no getter has that shape any more);
   - InitGenesis fills prefix b from the first chunk that (i) was read from b itself and (ii) sits
     in a field that is passed to a setter writing b (direct); failing that from the first chunk
     read from ANOTHER prefix whose field is passed to a setter writing b (a derived index, e.g.
     asset-by-denom rebuilt from the assets); failing that b stays empty.
   - id counters whose setter is fed from a local variable of InitGenesis are restored as the
     maximum / last id / count of the imported list, a constant 0, or not at all.

   The classification functions below are the decision procedures of the table theorems; their
   soundness w.r.t. [export]/[init] is proved in Proofs/GenesisProofs.v. *)
From Coq Require Import String.
From Comdex Require Import Lib.Base Lib.GenesisTypes Gen.GenesisTable.
Open Scope Z_scope.

Record table := mkT {
  t_pref : list prefix_row; t_exp : list export_row; t_imp : list import_row; t_unrec : list unrec_row;
  t_guard : list guard_row;    (* what the cross-state validating setters depend on *)
  t_order : list string }.     (* the modules in the order app.go initialises them *)

Definition mem_str (s : string) (l : list string) : bool := existsb (String.eqb s) l.
Definition mem_z (z : Z) (l : list Z) : bool := existsb (Z.eqb z) l.

(* ---------------- stores ---------------- *)
Definition kv := (Z * Z)%type.
Definition entries := list kv.
Definition mstore := list (Z * entries).

Definition get (s : mstore) (b : Z) : entries :=
  match find (fun e => fst e =? b) s with Some e => snd e | None => [] end.

Definition zeroed (es : entries) : entries := map (fun _ => (0, 0)) es.

(* ---------------- ExportGenesis ---------------- *)
(* symbolic chunk: (field, (prefix read, value looked at)) *)
Definition schunk := (string * (Z * bool))%type.
Definition sc_field (x : schunk) := fst x.
Definition sc_from (x : schunk) := fst (snd x).
Definition sc_valued (x : schunk) := snd (snd x).

Definition exp_rows (t : table) (m : string) := filter (fun e => String.eqb (e_mod e) m) (t_exp t).
Definition imp_rows (t : table) (m : string) := filter (fun r => String.eqb (i_mod r) m) (t_imp t).
Definition pref_rows (t : table) (m : string) := filter (fun p => String.eqb (p_mod p) m) (t_pref t).

Definition sym (t : table) (m : string) : list schunk :=
  flat_map (fun e => map (fun rb => (e_field e, rb)) (e_reads e)) (exp_rows t m).

Record chunk := mkC { c_field : string; c_from : Z; c_valued : bool; c_items : entries }.

Definition inst (s : mstore) (x : schunk) : chunk :=
  mkC (sc_field x) (sc_from x) (sc_valued x)
      (if sc_valued x then get s (sc_from x) else zeroed (get s (sc_from x))).

Definition export (t : table) (m : string) (s : mstore) : list chunk := map (inst s) (sym t m).

(* ---------------- InitGenesis ---------------- *)
(* some setter called by InitGenesis writes prefix b and takes (part of) field f *)
Definition feeds (t : table) (m : string) (b : Z) (f : string) : bool :=
  existsb (fun r => mem_z b (i_writes r) && mem_str f (i_fields r)) (imp_rows t m).

Definition direct_c (t : table) (m : string) (b : Z) (c : chunk) : bool :=
  (c_from c =? b) && feeds t m b (c_field c).
Definition derived_c (t : table) (m : string) (b : Z) (c : chunk) : bool :=
  negb (c_from c =? b) && c_valued c && feeds t m b (c_field c).

(* [dv b b0 items]: the index entries under prefix b that the setter computes from records of b0 *)
Definition init_prefix (dv : Z -> Z -> entries -> entries) (t : table) (m : string)
           (g : list chunk) (b : Z) : entries :=
  match find (direct_c t m b) g with
  | Some c => c_items c
  | None => match find (derived_c t m b) g with
            | Some c => dv b (c_from c) (c_items c)
            | None => []
            end
  end.

Definition init (dv : Z -> Z -> entries -> entries) (t : table) (m : string) (g : list chunk) : mstore :=
  map (fun p => (p_byte p, init_prefix dv t m g (p_byte p))) (pref_rows t m).

Definition roundtrip dv t m (s : mstore) : mstore := init dv t m (export t m s).

(* ---------------- decision procedure: what happens to a prefix ---------------- *)
Inductive cover : Type :=
| CovDirect                 (* exported with values and imported from the same field *)
| CovKeysOnly               (* exported, but the getter never reads the stored value *)
| CovDerived (from : Z)     (* rebuilt by InitGenesis from the exported records of another prefix *)
| CovMismatch (from : Z)    (* its own records ARE exported, but InitGenesis fills it from the records
                               of another prefix (another field): primary data, not an index *)
| CovLost.                  (* not exported, not imported, or imported from another field *)

Definition direct_s t m b (x : schunk) : bool := (sc_from x =? b) && feeds t m b (sc_field x).
Definition derived_s t m b (x : schunk) : bool := negb (sc_from x =? b) && sc_valued x && feeds t m b (sc_field x).

Definition classify (t : table) (m : string) (b : Z) : cover :=
  match find (direct_s t m b) (sym t m) with
  | Some x => if sc_valued x then CovDirect else CovKeysOnly
  | None => match find (derived_s t m b) (sym t m) with
            | Some x => if existsb (fun y => sc_from y =? b) (sym t m)
                        then CovMismatch (sc_from x) else CovDerived (sc_from x)
            | None => CovLost
            end
  end.

Definition cover_ok (c : cover) : bool :=
  match c with CovDirect | CovDerived _ => true | _ => false end.

(* diagnostics for a lost prefix (not used in proofs): 1 not exported, 2 not imported, 3 both
   present but through different fields, 0 neither *)
Definition why_lost (t : table) (m : string) (b : Z) : Z :=
  let ex := existsb (fun x => sc_from x =? b) (sym t m) in
  let im := existsb (fun r => mem_z b (i_writes r)) (imp_rows t m) in
  if ex && im then 3 else if ex then 2 else if im then 1 else 0.

(* [init] above is the success path of InitGenesis.  Some setters validate their argument against
   OTHER state and return an error (esm.SetKillSwitchData wants the app registered in the asset
   module); InitGenesis reacts by returning (guard 1: everything after the call is skipped too) or by
   dropping the item (guard 2).  Whether that happens is not a function of the module's own store,
   so the table only says which prefixes are AT RISK: fed by a setter that can fail that way, or by
   any setter called after one whose failure makes InitGenesis return.  Such a prefix does not count
   as surviving.
   Guards 3 / 4 are setters whose every failing return is guarded by a condition over the imported
   ITEM alone (collector.SetNetFeeCollectedData rejects a negative fee).  The items of a round trip
   are the records the module's own writers stored, and the writers of that prefix enforce the same
   condition (both writers of the net-fee prefix reject a negative result), so the success path is
   the path taken: these rows put nothing at risk.  The behavioural run checks exactly this (the
   prediction for such a prefix is "identical"). *)
(* A setter that validates against other state (guards 1 / 2) is still harmless on a round trip when
   - it is the ONLY writer of the prefixes it writes: every stored record went through the same
     validation when it was written;
   - it reads nothing of its own module's store;
   - everything it asks other modules reads prefixes there that are never deleted from, that come
     back from the round trip (directly, through setters that cannot fail), and whose module app.go
     initialises EARLIER: what the validation saw when the record was written is still there, and
     already there, when the record is imported.
   esm.SetKillSwitchData (the app must exist: asset.GetApp, apps are never deleted, asset precedes
   esm) is of that kind; collector.SetCollectorLookupTable was not (WasmSetCollectorLookupTable wrote
   the same prefix without the genesis-token check).  The behavioural run imports the modules in an
   order that respects [t_order]'s constraints and compares the prefix. *)
Fixpoint index_of (m : string) (l : list string) (i : nat) : option nat :=
  match l with
  | [] => None
  | x :: r => if String.eqb x m then Some i else index_of m r (S i)
  end.
Definition precedes (order : list string) (m1 m2 : string) : bool :=
  match index_of m1 order 0, index_of m2 order 0 with
  | Some i, Some j => Nat.ltb i j
  | _, _ => false
  end.

Definition unguarded (t : table) (m : string) : bool := forallb (fun r => i_guard r =? 0) (imp_rows t m).

Definition foreign_ok (t : table) (m : string) (f : string * string * list Z) : bool :=
  let m' := fst (fst f) in
  let bs := snd f in
  precedes (t_order t) m' m && unguarded t m' &&
  match bs with [] => false | _ => true end &&
  forallb (fun b => match find (fun p => String.eqb (p_mod p) m' && (p_byte p =? b)) (t_pref t) with
                    | Some p => match p_deleters p with [] => true | _ => false end &&
                                cover_ok (classify t m' b)
                    | None => false
                    end) bs.

Definition guard_harmless (t : table) (r : import_row) : bool :=
  match find (fun g => String.eqb (g_mod g) (i_mod r) && String.eqb (g_setter g) (i_setter r)) (t_guard t) with
  | Some g => g_sole g && g_noreads g &&
              match g_foreign g with [] => false | _ => true end &&
              forallb (foreign_ok t (i_mod r)) (g_foreign g)
  | None => false
  end.

Definition cross_guard (t : table) (r : import_row) : bool :=
  ((i_guard r =? 1) || (i_guard r =? 2)) && negb (guard_harmless t r).

Fixpoint taint (t : table) (tainted : bool) (rows : list import_row) : list (import_row * bool) :=
  match rows with
  | [] => []
  | r :: rest => (r, tainted || cross_guard t r) :: taint t (tainted || ((i_guard r =? 1) && cross_guard t r)) rest
  end.

Definition at_risk (t : table) (m : string) (b : Z) : bool :=
  existsb (fun rr => snd rr && mem_z b (i_writes (fst rr))) (taint t false (imp_rows t m)).

(* a prefix is live when some keeper function writes under it *)
Definition live (p : prefix_row) : bool := match p_writers p with [] => false | _ => true end.

(* ---------------- id counters ---------------- *)
Inductive restore : Type :=
| RExact                     (* exported from its own key and fed back: same value *)
| RMax (items : list Z)      (* maximum id of the records imported under these prefixes *)
| RLast (items : list Z)     (* id of the last imported record *)
| RCount (items : list Z)    (* number of imported records *)
| RZero                      (* set to a constant 0 *)
| RAbsent                    (* never set: reads as 0 *)
| RUnknown.

(* prefixes that are filled directly from field f *)
Definition item_prefixes (t : table) (m : string) (f : string) : list Z :=
  map p_byte (filter (fun p => match classify t m (p_byte p) with CovDirect => true | _ => false end
                               && feeds t m (p_byte p) f
                               && existsb (fun x => (sc_from x =? p_byte p) && String.eqb (sc_field x) f) (sym t m))
                     (pref_rows t m)).

Definition counter_restore (t : table) (m : string) (b : Z) : restore :=
  match filter (fun r => mem_z b (i_writes r)) (imp_rows t m) with
  | [] => RAbsent
  | r :: _ =>
    match i_arg r with
    | AFields => match classify t m b with CovDirect => RExact | _ => RUnknown end
    | AMax f => RMax (item_prefixes t m f)
    | ALast f => RLast (item_prefixes t m f)
    | ACount f => RCount (item_prefixes t m f)
    | AConst => RZero
    | AUnrec _ => RUnknown
    end
  end.

(* records under these prefixes can be deleted by some keeper function *)
Definition deletable (t : table) (m : string) (items : list Z) : bool :=
  existsb (fun p => mem_z (p_byte p) items && match p_deleters p with [] => false | _ => true end) (pref_rows t m).

(* the counter comes back with the value it had: either exported and re-imported itself, or
   recomputed as the maximum id of a directly imported, never-deleted collection (then the
   maximum live id IS the last id handed out) *)
Definition counter_ok (t : table) (m : string) (b : Z) : bool :=
  match counter_restore t m b with
  | RExact => true
  | RMax items => match items with [] => false | _ => negb (deletable t m items) end
  | _ => false
  end.

(* the counter comes back at least as large as every live id (no collision, ids may be re-issued) *)
Definition counter_safe (t : table) (m : string) (b : Z) : bool :=
  match counter_restore t m b with
  | RExact => true
  | RMax items => match items with [] => false | _ => true end
  | _ => false
  end.

(* ids: the key code of an id-keyed record is its id; the harness uses the trailing 8 bytes *)
Definition ids (es : entries) : list Z := map fst es.
Definition zmax_list (l : list Z) : Z := fold_right Z.max 0 l.
Definition next_id (c : Z) : Z := c + 1.

(* the value InitGenesis leaves in the counter; None: the key is absent (every getter reads 0) *)
Definition restored_value (r : restore) (orig : Z) (items : entries) : option Z :=
  match r with
  | RExact => Some orig
  | RMax _ => Some (zmax_list (ids items))
  | RLast _ => Some (last (ids items) 0)
  | RCount _ => Some (zlen items)
  | RZero => Some 0
  | RAbsent => None
  | RUnknown => None
  end.

(* the regenerated table *)
Definition the_table : table := mkT prefixes exports imports unrecognised guard_deps init_order.

(* ---------------- the property predicate and the known-finding classes ---------------- *)
(* what the round trip is predicted to do to a (module, prefix): true = comes back identical *)
Definition survives (t : table) (m : string) (p : prefix_row) : bool :=
  negb (at_risk t m (p_byte p)) &&
  (if p_counter p then counter_ok t m (p_byte p) else cover_ok (classify t m (p_byte p))).

Local Open Scope string_scope.

(* Known holes: (module, prefix byte, class).  Hand-written; the table theorem says that every live
   prefix outside this list survives.
   fixed: property=C20 f97a387 class 1 (collector net fees exported as zero-valued records) - the row
          ("collector", 8) is gone: GetAllNetFeeCollectedData unmarshals the stored value;
   fixed: property=C20 52f646d class 2 (auctionsV2 InitGenesis set the auction id and the user bid id
          to 0 although both are exported) - the rows ("auctionsV2", 1 | 5) are gone;
   fixed: property=C20 043e2ee class 7 (auction V1 InitGenesis filled the lend dutch auctions from the
          DutchAuction field) - the row ("auction", 32) is gone;
   decided, not a defect: class 13 (esm kill switches imported through the validating
          SetKillSwitchData, InitGenesis returning on its error) - the rows ("esm", 4 | 5 | 7) are gone:
          the guard is harmless ([guard_harmless]: sole writer, validates against never-deleted
          asset apps, asset is initialised before esm);
   fixed: property=C20 17e806f class 12 (collector lookup table imported through the validating
          setter, InitGenesis returning on its error) - the rows ("collector", 3 | 1 | 5 | 7) are
          gone: InitGenesis stores the exported records with SetGenCollectorLookupTable;
   fixed: property=C20 dfe74db class 18 (rewards InitGenesis never restored the id counters of the
          external reward programmes for lockers / vaults, so the next programme got id 1 again and
          overwrote the live programme 1) - the rows ("rewards", 21 | 22) are gone: both counters are
          recomputed as the maximum id of the imported programmes, and the programme records
          (prefixes 19, 20) have no deleter, so that maximum IS the counter ([counter_ok]). *)
Definition known_holes : list (string * Z * Z) :=
  [ (* 3: auctionsV2 bids, limit bids (and their id counter), protocol data and histories are in no
          GenesisState field *)
    ("auctionsV2", 3, 3);
    ("auctionsV2", 6, 3); ("auctionsV2", 7, 3); ("auctionsV2", 8, 3); ("auctionsV2", 9, 3);
    ("auctionsV2", 17, 3); ("auctionsV2", 18, 3); ("auctionsV2", 19, 3); ("auctionsV2", 20, 3);
    (* 4: liquidation V1 restores LockedVaultID as the NUMBER of locked vaults *)
    ("liquidation", 1, 4);
    (* 5: liquidationsV2 never restores LockedVaultID *)
    ("liquidationsV2", 3, 5);
    (* 6: the liquidation sweep offsets are not exported *)
    ("liquidation", 22, 6); ("liquidationsV2", 2, 6);
    (* 8: vault does not export StableMintVaultRewards *)
    ("vault", 24, 8);
    (* 9: the locker id counter is neither exported nor imported *)
    ("locker", 23, 9);
    (* 10: counters recomputed from the imported records (maximum over a collection whose records
           can be deleted, or the last element): the id of a closed newest record is handed out again *)
    ("vault", 21, 10); ("rewards", 34, 10); ("rewards", 40, 10);
    (* the stable-mint vault id counter joined the class with fix 9acfc67 (C01-F5): the esm
       redemption set-up now deletes the stable-mint vault it has emptied, so "maximum id of the
       imported stable-mint vaults" is no longer the counter once the newest one was redeemed
       (same shape and same consequence as the vault id counter; read from the table) *)
    ("vault", 22, 10);
    ("lend", 22, 10); ("lend", 23, 10); ("lend", 24, 10); ("lend", 37, 10);
    (* 11: further records that no genesis field carries (read from the table only) *)
    ("asset", 36, 11); ("collector", 9, 11); ("lend", 81, 11);
    (* 17: esm: the price snapshot taken when the shutdown was executed and the per-asset redemption
           amounts are in no GenesisState field: a chain re-imported in the middle of a cool-off period
           sets the redemption up without them (reproduced: TestC20Rich world esm) *)
    ("esm", 16, 17); ("esm", 17, 17);
    (* 19: liquidationsV2: the app reserve funds transaction records are not exported (reproduced:
           TestC20Rich worlds lend / fees) *)
    ("liquidationsV2", 7, 19);
    (* 14: auction V1: biddings and histories are not exported; both auction id counters are taken
           from the LAST exported (lend) dutch auction only *)
    ("auction", 18, 14); ("auction", 21, 14); ("auction", 22, 14);
    ("auction", 33, 14); ("auction", 34, 14); ("auction", 35, 14); ("auction", 19, 14); ("auction", 25, 14);
    (* 15: liquidation V1: the locked-vault histories are not exported *)
    ("liquidation", 18, 15); ("liquidation", 23, 15);
    (* 16: rewards: the external rewards of stable-mint vaults, the reward epochs and both their id
           counters are not exported (the reward coins stay in the module account) *)
    ("rewards", 23, 16); ("rewards", 32, 16); ("rewards", 41, 16); ("rewards", 48, 16) ].

(* An id counter is a known hole only in the SHAPE in which it was found: how InitGenesis restores it
   (code of [counter_restore]: 1 maximum id of the imported records, 2 id of the last imported record
   - the getters iterate in ascending id order, so that is the maximum too -, 3 NUMBER of imported
   records, 4 constant 0, 5 never set).  Maximum / last hand the id of a deleted NEWEST record out
   again (class 10 / 14: no collision); a count collides with a live record as soon as an OLDER
   record was deleted (liquidation V1, class 4, reproduced); absent collides with record 1.  A
   counter whose regenerated shape differs from the one listed here is in no class: a maximum that
   turns into a count (or a counter that is no longer restored at all) fails the table theorem and
   is reported by the behavioural run as a violation, not as the known finding. *)
Definition shape_code (r : restore) : Z :=
  match r with RExact => 0 | RMax _ => 1 | RLast _ => 2 | RCount _ => 3 | RZero => 4 | RAbsent => 5 | RUnknown => 6 end.

Definition known_counter_shapes : list (string * Z * Z) :=
  [ ("vault", 21, 1); ("vault", 22, 1); ("rewards", 34, 1); ("rewards", 40, 1);
    ("lend", 22, 2); ("lend", 23, 2); ("lend", 24, 2); ("lend", 37, 2);
    ("auction", 19, 2); ("auction", 25, 2);
    ("liquidation", 1, 3);
    ("auctionsV2", 3, 5); ("liquidationsV2", 3, 5); ("locker", 23, 5);
    ("rewards", 23, 5); ("rewards", 48, 5) ].
Local Close Scope string_scope.

Definition hole_shape_ok (t : table) (m : string) (b : Z) : bool :=
  match find (fun p => String.eqb (p_mod p) m && (p_byte p =? b)) (t_pref t) with
  | Some p =>
    if p_counter p then
      match find (fun h => String.eqb (fst (fst h)) m && (snd (fst h) =? b)) known_counter_shapes with
      | Some h => shape_code (counter_restore t m b) =? snd h
      | None => false
      end
    else true
  | None => false
  end.

Definition kf_C20 (n : Z) (m : string) (b : Z) : bool :=
  existsb (fun h => String.eqb (fst (fst h)) m && (snd (fst h) =? b) && (snd h =? n)) known_holes &&
  hole_shape_ok the_table m b.
Definition kf_C20_any (m : string) (b : Z) : bool :=
  existsb (fun h => String.eqb (fst (fst h)) m && (snd (fst h) =? b)) known_holes &&
  hole_shape_ok the_table m b.
(* class number of a (module, prefix), 0 when it is in no class *)
Definition kf_C20_class (m : string) (b : Z) : Z :=
  match find (fun h => String.eqb (fst (fst h)) m && (snd (fst h) =? b)) known_holes with
  | Some h => if hole_shape_ok the_table m b then snd h else 0
  | None => 0 end.

(* ---------------- predicates evaluated on the implementation's observations ---------------- *)
Fixpoint entries_eqb (a b : entries) : bool :=
  match a, b with
  | [], [] => true
  | x :: r1, y :: r2 => (fst x =? fst y) && (snd x =? snd y) && entries_eqb r1 r2
  | _, _ => false
  end.

(* the entries of a (module, prefix) before the export and after the re-import are the same *)
Definition holds_C20_prefix (orig reimported : entries) : bool := entries_eqb orig reimported.

(* a continuation step on the original and on the re-imported chain: result class, newly assigned
   id and the users' balances (a digest code) agree *)
Definition holds_C20_step (class_o class_n id_o id_n bal_o bal_n : Z) : bool :=
  (class_o =? class_n) && (id_o =? id_n) && (bal_o =? bal_n).


(* prediction for one prefix row of the regenerated table, as a small code for the runner:
   0 identical, 1 zero-valued records, 2 empty, 3 counter recomputed (see [counter_restore]),
   4 filled from the records of another prefix, 5 at risk (identical, or dropped when a validating
   setter fails) *)
Definition predict (t : table) (p : prefix_row) : Z :=
  if at_risk t (p_mod p) (p_byte p) && negb (match classify t (p_mod p) (p_byte p) with CovKeysOnly => true | _ => false end) then 5 else
  match classify t (p_mod p) (p_byte p) with
  | CovDirect => 0
  | CovDerived _ => 0
  | CovKeysOnly => 1
  | CovMismatch _ => 4
  | CovLost => match filter (fun r => mem_z (p_byte p) (i_writes r)) (imp_rows t (p_mod p)) with
               | [] => 2
               | r :: _ => match i_arg r with AFields => 2 | _ => 3 end
               end
  end.

(* code of the way a counter is recomputed: 1 max, 2 last, 3 count, 4 zero, 0 otherwise; and the
   prefixes of the records it is computed from *)
Definition restore_code (r : restore) : Z * list Z :=
  match r with
  | RMax l => (1, l) | RLast l => (2, l) | RCount l => (3, l) | RZero => (4, []) | _ => (0, [])
  end.
