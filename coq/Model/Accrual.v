(* C18 (accrual part).  Definitions only.
   (i)  index accrual in pure Dec arithmetic: x/lend/keeper/iter.go
          CalculateLendReward (203-226), CalculateBorrowInterest (228-264),
          CalculateStableInterest (185-201), statement for statement;
        the tracker carry "pay whole units, keep the fraction":
          lend/keeper/iter.go IterateLends 29-43, rewards/keeper/rewards.go 567-583 and 663-681.
   (iii) compound accrual through float64: x/rewards/keeper/iter.go CalculationOfRewards 178-207,
        with math.Pow as the function argument [pow] (a Section variable in the proofs; the
        runner passes the value observed on the implementation).
   Dec values are their 10^18-scaled integers (Lib/DecArith.v); floats are integers in units of
   2^-1074 (Lib/F64.v).  [None]/[Panic] = the Go call panics.  Every Dec result is checked
   against the 315-bit limit exactly where the Go operation checks it. *)
From Comdex Require Import Lib.Base Lib.DecArith Lib.F64.

Definition SECONDS_PER_YEAR : Z := 31557600.

(* sdk.NewDec(secondsElapsed).QuoInt64(SecondsPerYear) *)
Definition years_elapsed (secs : Z) : Z := dquo_int (dec_of_int secs) SECONDS_PER_YEAR.

(* currentTime - prevInterestTime, where a stored time of Unix 0 means "now" *)
Definition lend_secs (now last : Z) : Z :=
  let prev := if last =? 0 then now else last in now - prev.

Definition obind2 {A} (x : option Z) (f : Z -> option A) : option A :=
  match x with Some v => f v | None => None end.

(* the common index step of CalculateLendReward / CalculateBorrowInterest:
     effectiveRate := rate.Mul(yearsElapsed); factor1 := 1 + effectiveRate
     indexGlobalCurrent := globalIndex.Mul(factor1); factor2 := indexGlobalCurrent.Quo(globalIndex)
     liabilityCurrent := amt.Mul(factor2); newAmount := liabilityCurrent.Sub(amt)
   returns (newAmount, indexGlobalCurrent) *)
Definition index_accrual (amt rate gi secs : Z) : option (Z * Z) :=
  let years := years_elapsed secs in
  let a := dec_of_int amt in
  obind2 (dmul_c rate years) (fun eff =>
  obind2 (dadd_c P18 eff) (fun f1 =>
  obind2 (dmul_c gi f1) (fun igc =>
  obind2 (dquo_c igc gi) (fun f2 =>
  obind2 (dmul_c a f2) (fun liab =>
  obind2 (dsub_c liab a) (fun new => Some (new, igc))))))).

(* the same without the overflow / division checks (what the checked version returns when it
   returns); the proofs go through this form *)
Definition index_factor (rate gi secs : Z) : Z :=
  dquo (dmul gi (P18 + dmul rate (years_elapsed secs))) gi.
Definition index_new (amt rate gi secs : Z) : Z :=
  dmul (dec_of_int amt) (index_factor rate gi secs) - dec_of_int amt.
Definition index_next (rate gi secs : Z) : Z := dmul gi (P18 + dmul rate (years_elapsed secs)).

(* CalculateLendReward: Err 1 = ErrNegativeTimeElapsed *)
Definition lend_reward (now last amt rate gi : Z) : outcome (Z * Z) :=
  let secs := lend_secs now last in
  if secs <? 0 then Err 1 else
  match index_accrual amt rate gi secs with Some r => Ok r | None => Panic end.

(* CalculateBorrowInterest: (newAmount, indexGlobalCurrent, newAmountReservePool, reserveIndexGlobalCurrent) *)
Definition borrow_interest (now last amt rate rrate gi rgi : Z) : outcome ((Z * Z) * (Z * Z)) :=
  let secs := lend_secs now last in
  if secs <? 0 then Err 1 else
  match index_accrual amt rate gi secs with
  | None => Panic
  | Some r1 => match index_accrual amt rrate rgi secs with
               | None => Panic
               | Some r2 => Ok (r1, r2)
               end
  end.

(* CalculateStableInterest: amt.Mul(perc).Mul(yearsElapsed) *)
Definition stable_new (amt perc secs : Z) : Z :=
  dmul (dmul (dec_of_int amt) perc) (years_elapsed secs).
Definition stable_interest (now last amt perc : Z) : outcome Z :=
  let secs := lend_secs now last in
  if secs <? 0 then Err 1 else
  match obind2 (dmul_c (dec_of_int amt) perc) (fun x => dmul_c x (years_elapsed secs)) with
  | Some r => Ok r | None => Panic end.

(* tracker carry: acc := acc + x; if acc >= 1 { paid := TruncateInt(acc); acc := acc - paid }.
   returns (paid, acc') *)
Definition carry_step (acc x : Z) : Z * Z :=
  let a := dadd acc x in
  if P18 <=? a then let p := dtrunc_int a in (p, dsub a (dec_of_int p)) else (0, a).

(* a whole history of accruals: total paid and the carried fraction *)
Definition carry_run (acc0 : Z) (xs : list Z) : Z * Z :=
  fold_left (fun st x => let '(paid, acc) := st in
                         let '(p, acc') := carry_step acc x in (paid + p, acc')) xs (0, acc0).

(* ---------------- (iii) CalculationOfRewards ---------------- *)
(* everything after math.Pow: intAccPerBlock := f - 1; newAmount := intAccPerBlock * amtFloat;
   FormatFloat(newAmount,'f',18,64) -> NewDecFromStr *)
Definition cmp_after_pow (f amtf : Z) : Z := fmt18 (mul64 (sub64 f F_ONE) amtf).

Definition cmp_x (lsr : Z) : Z := to64 (P18 + lsr).                     (* factor1.MustFloat64() *)
Definition cmp_y (secs : Z) : Z := to64 (years_elapsed secs).          (* yearsElapsed.MustFloat64() *)
Definition cmp_amtf (amt : Z) : Z := to64 (dec_of_int amt).            (* NewDec(amount.Int64()).MustFloat64() *)

Definition cmp_new (pow : Z -> Z -> Z) (amt lsr secs : Z) : Z :=
  cmp_after_pow (pow (cmp_x lsr) (cmp_y secs)) (cmp_amtf amt).

(* Err 1 = ErrNegativeTimeElapsed; Panic = amount.Int64() out of range; Err 2 = NewDecFromStr
   fails (non-finite float, or more than 315 bits) *)
Definition calculation_of_rewards (pow : Z -> Z -> Z) (now btime amt lsr : Z) : outcome Z :=
  let secs := now - btime in
  if secs <? 0 then Err 1 else
  match int64_c amt with
  | None => Panic
  | Some a =>
      let f := pow (cmp_x lsr) (cmp_y secs) in
      let acc := sub64 f F_ONE in
      let new := mul64 acc (cmp_amtf a) in
      if negb (f_finite f && f_finite new) then Err 2 else
      let r := fmt18 new in
      if fits_dec r then Ok r else Err 2
  end.

(* ---------------- hypotheses on math.Pow, as executable checks for the harness ----------------
   H1: x >= 1 -> y >= 0 -> pow x y >= 1       H2: pow x 0 = 1
   H3: monotone in each argument on that domain (checked on neighbouring observations)        *)
Definition h1_ok (x y f : Z) : bool := negb ((F_ONE <=? x) && (0 <=? y)) || (F_ONE <=? f).
Definition h2_ok (y f : Z) : bool := negb (y =? 0) || (f =? F_ONE).
Definition h3_ok (x y f x' y' f' : Z) : bool :=
  negb ((F_ONE <=? x) && (x <=? x') && (0 <=? y) && (y <=? y')) || (f <=? f').
(* H4 in the form the proof uses (quasi-multiplicativity over consecutive intervals):
     pow x y1 * pow x y2 <= (1 + eps) * pow x y12,  eps = en / 2^53  *)
Definition h4_ok (en f1 f2 f12 : Z) : bool := f1 * f2 * F_P53 <=? (F_P53 + en) * f12 * F_ONE.

(* ---------------- property predicates evaluated on the IMPLEMENTATION's results ------------- *)
(* one observation of an accrual function: inputs and the returned amount *)
Definition holds_C18_nonneg (result : Z) : bool := 0 <=? result.
Definition holds_C18_zero_time (secs result : Z) : bool := negb (secs =? 0) || (result =? 0).
(* neighbouring pair: a <= a', r <= r', t <= t' implies result <= result' *)
Definition holds_C18_monotone (a r t res a' r' t' res' : Z) : bool :=
  negb ((a <=? a') && (r <=? r') && (t <=? t')) || (res <=? res').
(* index accrual over consecutive intervals: slack (4 + H/gi1 + H/gi2 + H/gi12) * amt ulps *)
Definition idx_slack (amt gi1 gi2 gi12 : Z) : Z :=
  amt * (4 + HALF18 / gi1 + HALF18 / gi2 + HALF18 / gi12).
Definition holds_C18_idx_subadditive (amt gi1 gi2 gi12 i1 i2 i12 : Z) : bool :=
  i1 + i2 <=? i12 + idx_slack amt gi1 gi2 gi12.
Definition holds_C18_stable_subadditive (i1 i2 i12 : Z) : bool := i1 + i2 <=? i12 + 1.
Definition holds_C18_carry (acc0 : Z) (xs : list Z) (paid acc : Z) : bool :=
  (paid * P18 + acc =? acc0 + zsum xs) && (0 <=? acc) && (acc <? P18).
